(* C06 at code level: the builder's capacity test and the small accessors of builder.go as printed
   into the REGENERATED GoLite program (Gen/Generated.v, from the Go source on every run) compute
   what the hand-written model computes (Builder.can_fit, bd_cur, bd_thr, max_share_offset).
   Statements only; proofs in GenMoreBase GenMoreC06.v.

   A *Builder receiver is passed as its integer fields
   [maxSquareSize; currentSize; done; subtreeRootThreshold] (builder_fields b for a model record b),
   followed by the Go arguments; the results are the Go results followed by the four fields after
   the call.  An Element (value receiver) is [PfbIndex; BlobIndex; NumShares; MaxPadding].
   in_i64 z := - 2^63 <= z < 2^63. *)
From Coq Require Import List ZArith NArith String.
From GS.Model Require Import Base Builder GoLite.
From GS.Gen Require Import Generated.
From GS.GenProofs Require Import GenLink GenMoreBase GenMoreC06.
Open Scope string_scope. Open Scope Z_scope.

(* (b *Builder) canFit(shareNum int) bool: exactly when neither currentSize+shareNum nor
   maxSquareSize*maxSquareSize leaves int64 (the latter: |maxSquareSize| <= 3037000499) *)
Theorem gen_builder_can_fit : forall fuel max cur dn thr n, (1 <= fuel)%nat ->
  in_i64 (cur + n) -> in_i64 (max * max) ->
  gen_call fuel "square.Builder.canFit" I64 [max; cur; dn; thr; n] =
  Val [b2z (cur + n <=? max * max); max; cur; dn; thr].
Proof. exact builder_can_fit_gen. Qed.
Print Assumptions gen_builder_can_fit.

(* a convenient sufficient range *)
Theorem gen_builder_can_fit_range : forall fuel max cur dn thr n, (1 <= fuel)%nat ->
  - 2^31 <= max <= 2^31 -> - 2^62 <= cur < 2^62 -> - 2^62 <= n < 2^62 ->
  gen_call fuel "square.Builder.canFit" I64 [max; cur; dn; thr; n] =
  Val [b2z (cur + n <=? max * max); max; cur; dn; thr].
Proof. exact builder_can_fit_gen_range. Qed.
Print Assumptions gen_builder_can_fit_range.

(* in terms of the model's builder record *)
Theorem gen_builder_can_fit_model : forall fuel b n, (1 <= fuel)%nat ->
  in_i64 (bd_cur b + n) -> (bd_max b * bd_max b < 2^63)%N ->
  gen_call fuel "square.Builder.canFit" I64 (builder_fields b ++ [n]) =
  Val (b2z (can_fit b n) :: builder_fields b).
Proof. exact builder_can_fit_model. Qed.
Print Assumptions gen_builder_can_fit_model.

(* outside the range the two sides differ: maxSquareSize = 2^32 passes NewBuilder's checks
   (positive, a power of two) but its square is 0 in int64; the Go function answers "does not fit"
   for one share in an empty builder, the model (unbounded square) "fits" *)
Theorem gen_builder_can_fit_wraps : forall fuel, (1 <= fuel)%nat ->
  gen_call fuel "square.Builder.canFit" I64 [2^32; 0; 0; 64; 1] = Val [0; 2^32; 0; 0; 64] /\
  can_fit (empty_builder (2^32) 64) 1 = true /\
  builder_fields (empty_builder (2^32) 64) = [2^32; 0; 0; 64] /\
  new_builder_ok (2^32) = true.
Proof. exact builder_can_fit_wraps. Qed.
Print Assumptions gen_builder_can_fit_wraps.

(* (b *Builder) CurrentSize() int and SubtreeRootThreshold() int: unconditional *)
Theorem gen_builder_getters : forall fuel max cur dn thr, (1 <= fuel)%nat ->
  gen_call fuel "square.Builder.CurrentSize" I64 [max; cur; dn; thr] = Val [cur; max; cur; dn; thr] /\
  gen_call fuel "square.Builder.SubtreeRootThreshold" I64 [max; cur; dn; thr] = Val [thr; max; cur; dn; thr].
Proof. exact builder_getters_gen. Qed.
Print Assumptions gen_builder_getters.

Theorem gen_builder_getters_model : forall fuel b, (1 <= fuel)%nat ->
  gen_call fuel "square.Builder.CurrentSize" I64 (builder_fields b) = Val (bd_cur b :: builder_fields b) /\
  gen_call fuel "square.Builder.SubtreeRootThreshold" I64 (builder_fields b) =
    Val (Z.of_N (bd_thr b) :: builder_fields b).
Proof. exact builder_getters_model. Qed.
Print Assumptions gen_builder_getters_model.

(* (e Element) maxShareOffset() int: exactly when the sum stays in int64 *)
Theorem gen_element_max_share_offset : forall fuel pfb blob n p, (1 <= fuel)%nat -> in_i64 (n + p) ->
  gen_call fuel "square.Element.maxShareOffset" I64 [pfb; blob; n; p] = Val [n + p].
Proof. exact element_max_share_offset_gen. Qed.
Print Assumptions gen_element_max_share_offset.

Theorem gen_element_max_share_offset_model : forall fuel e, (1 <= fuel)%nat ->
  (e_num_shares e + e_max_padding e < 2^63)%N ->
  gen_call fuel "square.Element.maxShareOffset" I64 (element_fields e) = Val [Z.of_N (max_share_offset e)].
Proof. exact element_max_share_offset_model. Qed.
Print Assumptions gen_element_max_share_offset_model.

Example gen_builder_ex :
  gen_call 1 "square.Builder.canFit" I64 [64; 4000; 0; 64; 96] = Val [1; 64; 4000; 0; 64] /\
  gen_call 1 "square.Builder.canFit" I64 [64; 4000; 0; 64; 97] = Val [0; 64; 4000; 0; 64] /\
  in_i64 (4000 + 97) /\ in_i64 (64 * 64) /\
  in_i64 (3037000499 * 3037000499) /\ ~ in_i64 (3037000500 * 3037000500) /\
  gen_call 1 "square.Builder.canFit" I64 [3037000499; 2^62; 1; 64; 2^62] =
    Val [1; 3037000499; 2^62; 1; 64] /\
  gen_call 1 "square.Builder.CurrentSize" I64 [64; 4000; 0; 32] = Val [4000; 64; 4000; 0; 32] /\
  gen_call 1 "square.Builder.SubtreeRootThreshold" I64 [64; 4000; 0; 32] = Val [32; 64; 4000; 0; 32] /\
  gen_call 1 "square.Element.maxShareOffset" I64 [3; 1; 100; 7] = Val [107] /\
  gen_call 1 "square.Element.maxShareOffset" I64 [3; 1; 2^62; 2^62] = Val [- 2^63].
Proof. unfold in_i64. vm_compute. repeat split; try reflexivity; try discriminate. intros [_ H]. discriminate H. Qed.
