(* C17 - Read-only operations do not modify their inputs and are race-free.
   Second part: committing to / re-writing a blob whose fields are VIEWS.  Statements only.

   Properties/C17.v covers the parse side.  A blob returned by ParseBlobs keeps sub-slices
   of the shares it was parsed from: its namespace is share.data[:29] with the whole rest of
   the share's buffer as capacity, its signer is share.data[34:54].  Code that appends to
   such a slice writes into the caller's shares.  Model/MemCommit.v models, on the explicit
   heap of Model/Mem.v (slices = (block, offset, len, cap), in-place append within capacity,
   access log):
     - the NMT leaf of inclusion.GenerateSubtreeRoots ([leaf_build_mem], the current
       three-line construction; [leaf_build_mem_legacy] = append(namespace.Bytes(), leaf...));
     - the loop that pushes the leaves onto an nmt tree, which RETAINS the pushed slices and
       re-reads the previous one in its order check ([subtree_leaves_mem]);
     - SparseShareSplitter.Write with the share builder on its private 512-byte buffer
       ([sparse_write_mem]; [sparse_write_mem_legacy] = rawData = append(blob.Signer(), rawData...));
     - GenerateSubtreeRoots as a whole ([subtree_roots_mem]);
     - ParseBlobs returning the blobs as slices ([parse_blobs_views_mem]) and the
       compositions "ParseBlobs, then commit / re-write every parsed blob" on ONE heap.
   Proved, for EVERY heap, EVERY slices (any blocks, offsets, capacities, overlapping or
   adjacent), every allocator growth policy g and every base hash H:
     - all of the above leave every pre-existing block unchanged and log writes only against
       blocks they allocated ([run_read_only]);
     - they return what the pure models return on the bytes the slices denote
       (ns ++ share; Model/Sparse.v sparse_write = Spec blob_spec; Model/Nmt.v nmt_root /
       subtree_roots; Model/Sparse.v parse_blobs);
     - the two legacy variants DO modify a pre-existing block (concrete witnesses) although
       they return the right value, and their step is not [disciplined], so the interleaving
       theorem C17_read_only_interleave does not apply to them; the current code's step is,
       and N concurrent leaf loops never conflict and finish with their solo result.
   Not proved (partial): as in C17.v, the Go memory model and scheduler are not formalised;
   the MerkleRootFn applied to the subtree roots by CreateCommitment is pure in the model. *)
From Coq Require Import List NArith.
From GS.Model Require Import Base Varint Namespace ShareFmt Blob Sparse Arith Compact Square Mem
  Sha256 Nmt MemCommit.
From GS.Spec Require Import ShareSpec.
From GS.Proofs Require Import SparseProofs MemProofs MemCommitProofs.
Import ListNotations.
Open Scope nat_scope.

(* ---- the NMT leaf ---- *)

(* read-only for every namespace and share slices; the leaf is ns ++ share when both
   slices point into existing blocks *)
Theorem C17_leaf_build_mem_readonly : forall g h ns leaf,
  run_read_only (leaf_build_mem g ns leaf) h /\
  (sl_blk ns < length h -> sl_blk leaf < length h ->
   let r := leaf_build_mem g ns leaf (mk_st h []) in
   exists d, snd r = Ok d /\
     mread_bytes (st_heap (fst r)) d = mread_bytes h ns ++ mread_bytes h leaf).
Proof. exact leaf_build_mem_correct. Qed.
Print Assumptions C17_leaf_build_mem_readonly.

(* ---- the loop over the leaves, with the tree retaining them ---- *)

Theorem C17_subtree_leaves_mem_readonly : forall g H h ns leaves t,
  run_read_only (subtree_leaves_mem g H ns leaves t) h.
Proof. exact subtree_leaves_mem_readonly. Qed.
Print Assumptions C17_subtree_leaves_mem_readonly.

(* HashLeaf is fed ns ++ share for every share, the retained slices still denote these
   leaves in the final heap, and Root() is the pure nmt_root (Model/Nmt.v) of them *)
Theorem C17_subtree_leaves_mem_refines : forall g H h ns leaves,
  sl_blk ns < length h -> Forall (fun l => sl_blk l < length h) leaves ->
  let r := subtree_leaves_mem g H ns leaves mtree_empty (mk_st h []) in
  let pl := map (fun l => mread_bytes h ns ++ mread_bytes h l) leaves in
  match snd r with
  | Ok t =>
    nmt_push_ok pl = true /\
    rev (t_fed t) = pl /\
    map (mread_bytes (st_heap (fst r))) (rev (t_leaves t)) = pl /\
    tree_root H t = nmt_root H pl
  | Err => nmt_push_ok pl = false /\ nmt_root H pl = Err
  | Fault => False
  end.
Proof. exact subtree_leaves_mem_refines. Qed.
Print Assumptions C17_subtree_leaves_mem_refines.

(* ---- SparseShareSplitter.Write ---- *)

Theorem C17_sparse_write_mem_readonly : forall g h bl,
  run_read_only (sparse_write_mem g bl) h /\
  (mblob_ok h bl ->
   let r := sparse_write_mem g bl (mk_st h []) in
   outcome_rel (fun shs pshs => map (mread_bytes (st_heap (fst r))) shs = pshs)
     (snd r) (sparse_write (mblob_val h bl))).
Proof. exact sparse_write_mem_correct. Qed.
Print Assumptions C17_sparse_write_mem_readonly.

(* for a blob NewBlob accepts: the shares of the specification *)
Theorem C17_sparse_write_mem_spec : forall g h bl,
  mblob_ok h bl -> blob_ok (mblob_val h bl) ->
  let r := sparse_write_mem g bl (mk_st h []) in
  exists shs, snd r = Ok shs /\
    map (mread_bytes (st_heap (fst r))) shs = blob_spec (mblob_val h bl).
Proof. exact sparse_write_mem_spec. Qed.
Print Assumptions C17_sparse_write_mem_spec.

(* ---- GenerateSubtreeRoots ---- *)

Theorem C17_subtree_roots_mem_correct : forall g H h bl thr,
  run_read_only (subtree_roots_mem g H bl thr) h /\
  (mblob_ok h bl ->
   snd (subtree_roots_mem g H bl thr (mk_st h [])) = subtree_roots H (mblob_val h bl) thr).
Proof. exact subtree_roots_mem_correct. Qed.
Print Assumptions C17_subtree_roots_mem_correct.

(* ---- ParseBlobs as views; the compositions ---- *)

(* the parsed blobs: namespace / signer slices into the input blocks, data in a private
   block; they denote the blobs of the pure parser *)
Theorem C17_parse_blobs_views_mem_correct : forall g h views,
  run_read_only (parse_blobs_views_mem g views) h /\
  (Forall (view_ok h) views ->
   let r := parse_blobs_views_mem g views (mk_st h []) in
   outcome_rel (Forall2 (mblob_rel (st_heap (fst r)))) (snd r)
     (parse_blobs (map (mread_bytes h) views))).
Proof. exact parse_blobs_views_mem_correct. Qed.
Print Assumptions C17_parse_blobs_views_mem_correct.

(* ParseBlobs, then GenerateSubtreeRoots on every PARSED blob - whose namespace slice has
   the capacity of the share buffer behind it: heap unchanged, roots = the pure ones *)
Theorem C17_parse_then_commit_mem_correct : forall g H thr h views,
  run_read_only (parse_then_commit_mem g H thr views) h /\
  (Forall (view_ok h) views ->
   snd (parse_then_commit_mem g H thr views (mk_st h [])) =
   (do blobs <- parse_blobs (map (mread_bytes h) views);
    map_outcome (fun b => subtree_roots H b thr) blobs)).
Proof. exact parse_then_commit_mem_correct. Qed.
Print Assumptions C17_parse_then_commit_mem_correct.

(* ParseBlobs, then Write on every parsed blob (signer slice with spare capacity) *)
Theorem C17_parse_then_write_mem_correct : forall g h views,
  run_read_only (parse_then_write_mem g views) h /\
  (Forall (view_ok h) views ->
   let r := parse_then_write_mem g views (mk_st h []) in
   outcome_rel (fun l pl => map (map (mread_bytes (st_heap (fst r)))) l = pl) (snd r)
     (do blobs <- parse_blobs (map (mread_bytes h) views); map_outcome sparse_write blobs)).
Proof. exact parse_then_write_mem_correct. Qed.
Print Assumptions C17_parse_then_write_mem_correct.

(* ---- the `append(view, ...)` variants modify their input ---- *)

Theorem C17_leaf_build_mem_legacy_refuted :
  exists (h : heap) (ns leaf : slice),
    wf_slice h ns /\ wf_slice h leaf /\ sl_len ns = 29 /\ sl_len leaf = 512 /\
    let st' := fst (leaf_build_mem_legacy grow_double ns leaf (mk_st h [])) in
    first_diff 0 (hblock h 0) (hblock (st_heap st') 0) = Some 29 /\
    firstn (length h) (st_heap st') <> h /\
    log_writes_below (length h) (st_log st') = true /\
    (exists d, snd (leaf_build_mem_legacy grow_double ns leaf (mk_st h [])) = Ok d /\
               mread_bytes (st_heap st') d = mread_bytes h ns ++ mread_bytes h leaf) /\
    firstn (length h) (st_heap (fst (leaf_build_mem grow_double ns leaf (mk_st h [])))) = h.
Proof. exact leaf_build_mem_legacy_refuted. Qed.
Print Assumptions C17_leaf_build_mem_legacy_refuted.

(* a blob parsed from 2 shares laid out in one 1024-byte block, then committed to *)
Theorem C17_subtree_roots_mem_legacy_refuted :
  exists (h : heap) (views : list slice) (thr : N),
    Forall (view_ok h) views /\
    let run := parse_then_commit_mem_legacy grow_double sha256 thr views (mk_st h []) in
    let st' := fst run in
    first_diff 0 (hblock h 0) (hblock (st_heap st') 0) = Some 29 /\
    firstn (length h) (st_heap st') <> h /\
    log_writes_below (length h) (st_log st') = true /\
    snd run = (do blobs <- parse_blobs (map (mread_bytes h) views);
               map_outcome (fun b => subtree_roots sha256 b thr) blobs) /\
    is_ok (snd run) = true /\
    parse_blobs (map (mread_bytes (st_heap st')) views) <> parse_blobs (map (mread_bytes h) views) /\
    firstn (length h) (st_heap (fst (parse_then_commit_mem grow_double sha256 thr views (mk_st h [])))) = h.
Proof. exact subtree_roots_mem_legacy_refuted. Qed.
Print Assumptions C17_subtree_roots_mem_legacy_refuted.

(* a signer slice with spare capacity, followed by other data *)
Theorem C17_sparse_write_mem_legacy_refuted :
  exists (h : heap) (bl : mblob),
    mblob_ok h bl /\ blob_ok (mblob_val h bl) /\
    let run := sparse_write_mem_legacy grow_double bl (mk_st h []) in
    let st' := fst run in
    first_diff 0 (hblock h 0) (hblock (st_heap st') 0) = Some 20 /\
    firstn (length h) (st_heap st') <> h /\
    log_writes_below (length h) (st_log st') = true /\
    outcome_rel (fun shs pshs => map (mread_bytes (st_heap st')) shs = pshs) (snd run)
      (sparse_write (mblob_val h bl)) /\
    is_ok (snd run) = true /\
    firstn (length h) (st_heap (fst (sparse_write_mem grow_double bl (mk_st h [])))) = h.
Proof. exact sparse_write_mem_legacy_refuted. Qed.
Print Assumptions C17_sparse_write_mem_legacy_refuted.

(* the signer of a PARSED version 1 blob: share.data[34:54] of a share inside an arena *)
Theorem C17_parse_then_write_mem_legacy_refuted :
  exists (h : heap) (views : list slice),
    Forall (view_ok h) views /\
    let st' := fst (parse_then_write_mem_legacy grow_double views (mk_st h [])) in
    first_diff 0 (hblock h 0) (hblock (st_heap st') 0) = Some 512 /\
    firstn (length h) (st_heap st') <> h /\
    log_writes_below (length h) (st_log st') = true /\
    firstn (length h) (st_heap (fst (parse_then_write_mem grow_double views (mk_st h [])))) = h.
Proof. exact parse_then_write_mem_legacy_refuted. Qed.
Print Assumptions C17_parse_then_write_mem_legacy_refuted.

(* ---- the discipline of the interleaving theorem (C17_read_only_interleave) ---- *)

(* the current code, as one atomic step of a thread, keeps the discipline - for every n0,
   every views; per leaf as well *)
Theorem C17_commit_steps_disciplined :
  (forall n0 g H thr views, disciplined (fun _ : unit => True) n0 (commit_step g true H thr views)) /\
  (forall n0 g views, disciplined (fun _ : unit => True) n0 (write_step g true views)) /\
  (forall n0 g H ns leaf, disciplined (fun _ : outcome mtree => True) n0 (sl_step g true H ns leaf)).
Proof. exact commit_steps_disciplined. Qed.
Print Assumptions C17_commit_steps_disciplined.

(* the legacy steps do not *)
Theorem C17_commit_steps_legacy_not_disciplined :
  ~ disciplined (fun _ : unit => True) 1 (commit_step grow_double false sha256 64 cm_views) /\
  ~ disciplined (fun _ : unit => True) 1 (write_step grow_double false cm_views) /\
  ~ disciplined (fun _ : outcome mtree => True) 1
      (sl_step grow_double false sha256 (mk_slice 0 0 29 1024) (mk_slice 0 512 512 512)).
Proof. exact commit_steps_legacy_not_disciplined. Qed.
Print Assumptions C17_commit_steps_legacy_not_disciplined.

(* N concurrent leaf loops (one atomic step per leaf: build + Push) over the same
   namespace and share slices, any interleaving *)
Theorem C17_subtree_leaves_concurrent : forall g H h0 ns leaves n sched,
  let final := run_sched (length h0) sched (h0, repeat (sl_thread g true H ns leaves, sl_start) n) in
  fst final = h0 /\
  (forall i c, nth_error (snd final) i = Some ([], c) ->
     tc_loc c = snd (subtree_leaves_mem g H ns leaves mtree_empty (mk_st h0 []))) /\
  (forall i j ri ci rj cj a b,
     nth_error (snd final) i = Some (ri, ci) -> nth_error (snd final) j = Some (rj, cj) ->
     In a (tc_log ci) -> In b (tc_log cj) -> ~ conflict (length h0) i a j b).
Proof. exact subtree_leaves_concurrent. Qed.
Print Assumptions C17_subtree_leaves_concurrent.

(* ---- non-vacuity ---- *)

Example C17_commit_witness_parsed_views :
  let r := parse_blobs_views_mem grow_double cm_views (mk_st [cm_arena] []) in
  exists d, snd r = Ok [mk_mblob (mk_slice 0 0 29 1024) d 0%N None] /\
    1 <= sl_blk d /\ sl_len d = 600 /\
    Forall2 (mblob_rel (st_heap (fst r))) [mk_mblob (mk_slice 0 0 29 1024) d 0%N None] [cm_blob].
Proof. exact parse_blobs_views_witness. Qed.

Example C17_commit_witness_repaired :
  let r := parse_then_commit_mem grow_double sha256 64 cm_views (mk_st [cm_arena] []) in
  Forall (view_ok [cm_arena]) cm_views /\
  1 < length (st_heap (fst r)) /\
  firstn 1 (st_heap (fst r)) = [cm_arena] /\
  (exists roots, snd r = Ok [roots] /\ subtree_roots sha256 cm_blob 64 = Ok roots /\ length roots = 2) /\
  log_writes_below 1 (st_log (fst r)) = false /\
  existsb (fun a => match a_kind a with AW => true | AR => false end) (st_log (fst r)) = true.
Proof. exact parse_then_commit_mem_witness. Qed.

Example C17_commit_witness_leaves :
  let ns := mk_slice 0 0 29 1024 in
  let r := subtree_leaves_mem grow_double sha256 ns cm_views mtree_empty (mk_st [cm_arena] []) in
  sl_blk ns < 1 /\ Forall (fun l => sl_blk l < 1) cm_views /\
  exists t, snd r = Ok t /\
    rev (t_fed t) = map (fun s => cm_ns ++ s) cm_shares /\
    map sl_blk (t_leaves t) = [4; 2] /\
    tree_root sha256 t = nmt_root sha256 (map (fun s => cm_ns ++ s) cm_shares) /\
    firstn 1 (st_heap (fst r)) = [cm_arena].
Proof. exact subtree_leaves_mem_witness. Qed.

Example C17_commit_witness_write :
  let r := sparse_write_mem grow_double sw_blob (mk_st sw_heap []) in
  mblob_ok sw_heap sw_blob /\ blob_ok (mblob_val sw_heap sw_blob) /\
  (exists shs, snd r = Ok shs /\ length shs = 1 /\
     map (mread_bytes (st_heap (fst r))) shs = blob_spec (mblob_val sw_heap sw_blob)) /\
  firstn 3 (st_heap (fst r)) = sw_heap /\
  log_writes_below 3 (st_log (fst r)) = false.
Proof. exact sparse_write_mem_witness. Qed.

Example C17_commit_witness_concurrent :
  let ns := mk_slice 0 0 29 1024 in
  let ths := repeat (sl_thread grow_double true sha256 ns cm_views, sl_start) 3 in
  let final := run_sched 1 [0;1;2;2;1;0] ([cm_arena], ths) in
  fst final = [cm_arena] /\
  map (fun th => (length (fst th), tc_loc (snd th))) (snd final) =
    repeat (0, snd (subtree_leaves_mem grow_double sha256 ns cm_views mtree_empty (mk_st [cm_arena] []))) 3 /\
  map (fun th => length (tc_priv (snd th))) (snd final) = [4; 4; 4].
Proof. exact subtree_leaves_concurrent_witness. Qed.
