package fn

// ---- named results with bare return, shadowing, name reuse after the scope ends

func NamedResults(a, b int) (q, r int, ok bool) {
	if b == 0 {
		return
	}
	q = a / b
	r = a % b
	ok = true
	if q < 0 {
		return -q, r, false
	}
	return
}
func NamedPartly(a uint8) (x uint8, y int) {
	x = a + 100
	if x < a {
		y = 1
		return
	}
	return x, int(x) * 2
}

// blank results are never assigned: a bare return yields their zero values
func BlankResults(x int) (_ int, y int, _ bool) {
	y = x * 2
	if x < 0 {
		return 7, y, true
	}
	return
}
func Shadow(x int) int {
	y := x + 1
	{
		x := x * 2 // right-hand x is the parameter
		y := y + x // and this y is the outer one
		if x > 10 {
			x := 3
			y += x
		}
		x += y
		_ = x
	}
	if x := y - 1; x > 0 {
		y += x
	} else {
		x := x - 5
		y -= x
	}
	return x*1000 + y
}
func NameReuse(n int) int {
	t := 0
	{
		v := n + 1
		t += v
	}
	{
		var v uint8 // a fresh v: zero, another type
		v--
		t += int(v)
	}
	for i := 0; i < 3; i++ {
		var v int // zero again on every iteration
		v += i
		t += v
	}
	for i := 10; i < 12; i++ {
		v := i
		t += v
	}
	return t
}
func ShadowResult(a int) (r int) {
	r = a
	if a > 0 {
		r := a * 2
		r++
		a = r
	}
	return r + a
}

// identifiers that look predeclared but are ordinary local variables
func SpelledNil(x int) int {
	nil := x + 1
	true := nil * 2
	return nil + true
}
func ShadowTypeName(x int) int {
	uint8 := x + 300
	return uint8
}

// the blank identifier is assigned and bound as a parameter, and still a blank result is zero
func BlankAssigned(_ int, x int) (_ int, y int, _ uint8) {
	_, y = DivMod(x, 3)
	_ = y + 1
	return
}
func BlankParam(_ int, x int, _ uint8) int { return x }
