(* C02: deconstructing the rule-based square layout (Spec/LayoutSpec.v) returns the
   transactions it was made from.

     deconstruct dec (layout thr normals btxs)
       = Ok (normals ++ map blob_tx_bytes btxs)                     (deconstruct_layout)

   for non-empty ordinary transactions, blob transactions with at least one blob each,
   blob-valid blobs (share version 0 or 1), a decoder that reports the blobs' data sizes,
   and an estimate below 2^21 shares (side <= 1024).  blob_tx_bytes t is what
   marshal_blob_tx returns for the parts of t (marshal_blob_tx_bytes).  The inner
   transaction of a blob transaction is arbitrary (it may even be empty).

   Through raw bytes (deconstruct_layout_construct): if raws is a list of non-empty
   transactions that are not blob transactions followed by canonical blob transaction
   encodings and layout_construct accepts it, deconstruct returns raws.

   The statements are about the spec side; they transfer to Construct through the
   refinement construct = layout_construct (C07). *)
From Coq Require Import List Arith NArith ZArith Lia Bool Sorted Permutation.
From Coq Require Import ZifyN ZifyNat ZifyBool.
From GS.Model Require Import Base Varint Namespace ShareFmt Blob Sparse Compact Counter Arith Proto Builder Square.
From GS.Spec Require Import ShareSpec CompactSpec LayoutSpec.
From GS.Proofs Require Import BaseLemmas VarintProofs SparseProofs ArithProofs NamespaceProofs
  RangeProofs ProtoProofs CompactParseProofs LayoutShapeProofs.
Import ListNotations.
Open Scope N_scope.

(* ================================================================== *)
(* One blob: its shares parse back to exactly that blob                *)
(* ================================================================== *)

Lemma parse_blobs_blob_spec b : blob_ok b -> parse_blobs (blob_spec b) = Ok [b].
Proof.
  intros Hok. destruct (parse_blob_spec b [] [] Hok) as (z & Hz). rewrite app_nil_r in Hz.
  unfold parse_blobs. rewrite Hz. cbn [parse_sparse_loop bind rev app map_outcome].
  rewrite (finish_complete b z Hok). reflexivity.
Qed.

(* the first share of a blob carries the signer Deconstruct adds to the declared size *)
Lemma blob_spec_first b : blob_ok b ->
  exists first rest, blob_spec b = first :: rest /\
    (match sh_signer first with Some g => lenN g | None => 0 end) = signer_len b.
Proof.
  intros Hok. pose proof Hok as (Hns & _). destruct (blob_ok_ver b Hok) as [Hv _].
  pose proof (blob_spec_wf b Hok) as Hwf.
  unfold blob_spec, sparse_spec in *. fold (spec_signer b) in *.
  eexists _, _. split; [reflexivity|].
  apply Forall_cons_iff in Hwf as [Hlen _].
  unfold sh_signer. rewrite acc_version, acc_start by assumption.
  destruct (blob_ok_signer b Hok) as [(Hv0 & _ & Hn)|(Hv1 & Hs1 & Hsg)].
  - rewrite Hv0. cbn [N.eqb andb]. unfold signer_len. rewrite Hn. reflexivity.
  - rewrite Hv1. cbn [N.eqb Pos.eqb andb]. unfold signer_len. rewrite Hsg.
    rewrite Hv1 in Hlen. unfold lenN in Hlen |- *. rewrite firstn_length, skipn_length, Hlen, Hs1. reflexivity.
Qed.

Lemma slice_mid {A} (pre mid post : list A) :
  slice_list (lenN pre) (lenN pre + lenN mid) (pre ++ mid ++ post) = Ok mid.
Proof.
  unfold slice_list. rewrite !lenN_app.
  replace ((lenN pre <=? lenN pre + lenN mid) && (lenN pre + lenN mid <=? lenN pre + (lenN mid + lenN post)))
    with true by lia.
  f_equal. unfold takeN, dropN, lenN.
  rewrite Nnat.Nat2N.id.
  replace (N.to_nat (N.of_nat (length pre) + N.of_nat (length mid) - N.of_nat (length pre))) with (length mid) by lia.
  rewrite skipn_app, Nat.sub_diag, skipn_O, skipn_all. cbn [app].
  rewrite firstn_app, Nat.sub_diag, firstn_O, app_nil_r, firstn_all. reflexivity.
Qed.

(* the shares of blob [b] sit at square index [i] *)
Definition blob_at (s : list share) (i : N) (b : blob) : Prop :=
  exists pre post, s = pre ++ blob_spec b ++ post /\ lenN pre = i.

Definition blob_small (b : blob) : Prop := lenN (b_data b) + signer_len b <= 4294967295.

(* the inner loop of Deconstruct: every blob is read back from its recorded index *)
Lemma decon_blobs_ok s : forall idxs bs,
  Forall2 (fun i b => blob_at s i b /\ blob_ok b /\ blob_small b) idxs bs ->
  decon_blobs s idxs (map (fun b => lenN (b_data b)) bs) = Ok bs.
Proof.
  induction 1 as [|i b idxs bs Hb _ IH]; [reflexivity|].
  destruct Hb as ((pre & post & Hs & Hpre) & Hok & Hsmall). unfold blob_small in Hsmall.
  destruct (blob_spec_first b Hok) as (first & rest & Hbs & Hsig).
  pose proof (blob_spec_length b Hok) as Hn.
  assert (Hlen : lenN s = i + lenN (blob_spec b) + lenN post) by (rewrite Hs, !lenN_app; lia).
  assert (Hpos : 1 <= lenN (blob_spec b)) by (rewrite Hbs, lenN_cons; lia).
  cbn [map decon_blobs].
  replace (lenN s <=? i) with false by lia.
  assert (Hnth : nth_error s (N.to_nat i) = Some first).
  { rewrite Hs, nth_error_app2 by (unfold lenN in Hpre; lia).
    replace (N.to_nat i - length pre)%nat with 0%nat by (unfold lenN in Hpre; lia).
    rewrite Hbs. reflexivity. }
  rewrite Hnth, Hsig.
  replace (4294967295 <? lenN (b_data b) + signer_len b) with false by lia.
  rewrite <- Hn.
  replace (lenN s <? i + lenN (blob_spec b)) with false by lia.
  assert (Hsl : slice_list i (i + lenN (blob_spec b)) s = Ok (blob_spec b)).
  { rewrite <- Hpre, Hs. apply slice_mid. }
  rewrite Hsl. cbn [bind]. rewrite (parse_blobs_blob_spec b Hok). cbn [bind].
  rewrite IH. reflexivity.
Qed.

(* ================================================================== *)
(* Where the blobs sit in the layout                                   *)
(* ================================================================== *)

Lemma region_blob_at : forall l cur pns pver, chain cur l -> forall e, In e l ->
  exists pre post, region cur pns pver l = pre ++ blob_spec (lb_blob e) ++ post /\ cur + lenN pre = lb_index e.
Proof.
  induction l as [|e0 l IH]; intros cur pns pver Hch e Hin; [destruct Hin|].
  destruct Hch as (H1 & H2 & H3). cbn [region]. destruct Hin as [<-|Hin].
  - eexists _, _. split; [reflexivity|]. unfold lenN. rewrite repeat_length. lia.
  - destruct (IH _ (b_ns (lb_blob e0)) (b_ver (lb_blob e0)) H3 e Hin) as (pre & post & Hr & Hl).
    rewrite Hr.
    exists (repeat (padding_spec pns pver) (N.to_nat (lb_index e0 - cur)) ++ blob_spec (lb_blob e0) ++ pre), post.
    split; [rewrite <- !app_assoc; reflexivity|].
    rewrite !lenN_app, H2. unfold lenN at 1. rewrite repeat_length. lia.
Qed.

(* everything after the two transaction sequences *)
Definition lay_rest (thr : N) (normals : list bytes) (btxs : list blob_tx) : list share :=
  region (lenN (tx_run normals ++ pfb_run thr normals btxs)) primary_reserved_padding_ns 0
         (lay_placed thr normals btxs) ++ tail_pad thr normals btxs.

Lemma layout_split thr normals btxs : 1 <= thr -> Forall lay_btx_ok btxs ->
  estimate thr normals btxs < 2097152 ->
  layout thr normals btxs = tx_run normals ++ pfb_run thr normals btxs ++ lay_rest thr normals btxs.
Proof.
  intros Ht Hok Hest. rewrite layout_unfold. destruct (lay_body_eq thr normals btxs Ht Hok Hest) as [-> _].
  unfold lay_rest. rewrite <- !app_assoc. reflexivity.
Qed.

Lemma placed_chain thr normals btxs : 1 <= thr -> Forall lay_btx_ok btxs ->
  estimate thr normals btxs < 2097152 ->
  chain (lenN (tx_run normals ++ pfb_run thr normals btxs)) (lay_placed thr normals btxs).
Proof.
  intros Ht Hok Hest.
  assert (Hacc : lenN (tx_run normals ++ pfb_run thr normals btxs) <= lay_start normals btxs).
  { rewrite lenN_app. unfold tx_run, pfb_run. rewrite !compact_spec_ix_length. unfold lay_start.
    pose proof (compact_count_wrappers _ btxs (placed_index_small thr normals btxs Ht Hest)). lia. }
  eapply chain_weaken; [exact Hacc|]. unfold lay_placed. apply assign_chain; [exact Ht|].
  eapply Forall_impl; [|apply sorted_blobs_ok, Hok]. intros e [[H1 _] H2]. split; assumption.
Qed.

Section SmallArith.
  Local Ltac Zify.zify_post_hook ::= Z.div_mod_to_equations.
  Lemma sparse_needed_small x : sparse_shares_needed x < 2097152 -> x <= 4294967295.
  Proof.
    unfold sparse_shares_needed. destruct (x =? 0) eqn:E0; [lia|]. destruct (x <? 478) eqn:E1; [lia|].
    destruct (0 <? (x - 478) mod 482); lia.
  Qed.
End SmallArith.

(* every placed blob: its shares are in the square at the assigned index *)
Lemma layout_blob_at thr normals btxs : 1 <= thr -> Forall lay_btx_ok btxs ->
  estimate thr normals btxs < 2097152 ->
  forall e, In e (lay_placed thr normals btxs) ->
    blob_at (layout thr normals btxs) (lb_index e) (lb_blob e) /\ blob_ok (lb_blob e) /\
    blob_small (lb_blob e) /\ lb_index e < 2097152.
Proof.
  intros Ht Hok Hest e He.
  pose proof (placed_chain thr normals btxs Ht Hok Hest) as Hch.
  destruct (region_blob_at _ _ primary_reserved_padding_ns 0 Hch e He) as (pre & post & Hr & Hl).
  split.
  { rewrite (layout_split thr normals btxs Ht Hok Hest). unfold lay_rest. rewrite Hr.
    exists ((tx_run normals ++ pfb_run thr normals btxs) ++ pre), (post ++ tail_pad thr normals btxs). split.
    - rewrite <- !app_assoc. reflexivity.
    - rewrite lenN_app. exact Hl. }
  assert (Hfacts : lay_blob_ok (lb_blob e) /\ lb_counted e).
  { assert (H : Forall (fun e => lay_blob_ok (lb_blob e) /\ lb_counted e) (lay_placed thr normals btxs)).
    { unfold lay_placed. apply (assign_Forall thr (fun b n => lay_blob_ok b /\ n = blob_share_count b)).
      apply sorted_blobs_ok, Hok. }
    rewrite Forall_forall in H. apply H, He. }
  destruct Hfacts as [[Hbok _] Hcnt]. split; [exact Hbok|].
  assert (Hidx : lb_index e + lb_n e <= estimate thr normals btxs).
  { pose proof (assign_index_le thr Ht (sorted_blobs btxs) (lay_start normals btxs)) as H.
    rewrite Forall_forall in H. destruct (H e He) as [_ H2].
    pose proof (final_cursor_estimate thr normals btxs Ht). lia. }
  split; [|lia].
  unfold blob_small. apply sparse_needed_small. unfold lb_counted, blob_share_count in Hcnt. lia.
Qed.

(* ================================================================== *)
(* The recorded indexes are those of the transaction's own blobs       *)
(* ================================================================== *)

Definition lkey (e : lblob) : N * N * blob := (lb_pfb e, lb_j e, lb_blob e).

Lemma assign_keys thr : forall l c, map lkey (assign thr c l) = map lkey l.
Proof. induction l as [|e l IH]; intros c; [reflexivity|]. cbn [assign map]. rewrite IH. reflexivity. Qed.

Lemma blobs_of_tx_keys p : forall bs j pi jj b,
  In (pi, jj, b) (map lkey (blobs_of_tx p j bs)) <->
  pi = p /\ exists k, jj = j + N.of_nat k /\ nth_error bs k = Some b.
Proof.
  induction bs as [|b0 bs IH]; intros j pi jj b; cbn [blobs_of_tx map In].
  - split; [intros []|]. intros (_ & k & _ & H). destruct k; discriminate.
  - rewrite IH. unfold lkey at 1. cbn [lb_pfb lb_j lb_blob]. split.
    + intros [Heq|(Hp & k & Hj & Hn)].
      * inversion Heq; subst. split; [reflexivity|]. exists 0%nat. split; [lia|reflexivity].
      * split; [exact Hp|]. exists (S k). split; [lia|exact Hn].
    + intros (Hp & k & Hj & Hn). destruct k as [|k].
      * left. cbn [nth_error] in Hn. inversion Hn; subst. f_equal. f_equal. lia.
      * right. split; [exact Hp|]. exists k. split; [lia|exact Hn].
Qed.

Lemma all_blobs_keys : forall btxs p pi jj b,
  In (pi, jj, b) (map lkey (all_blobs p btxs)) <->
  exists i t k, pi = p + N.of_nat i /\ jj = N.of_nat k /\ nth_error btxs i = Some t /\
                nth_error (btx_blobs t) k = Some b.
Proof.
  induction btxs as [|t0 tl IH]; intros p pi jj b; cbn [all_blobs map In].
  - split; [intros []|]. intros (i & t & k & _ & _ & H & _). destruct i; discriminate.
  - rewrite map_app, in_app_iff, blobs_of_tx_keys, IH. split.
    + intros [(Hp & k & Hj & Hn)|(i & t & k & Hp & Hj & Ht & Hn)].
      * exists 0%nat, t0, k. repeat split; [lia|lia|exact Hn].
      * exists (S i), t, k. repeat split; [lia|exact Hj|exact Ht|exact Hn].
    + intros (i & t & k & Hp & Hj & Ht & Hn). destruct i as [|i].
      * left. cbn [nth_error] in Ht. inversion Ht; subst t. split; [lia|]. exists k. split; [lia|exact Hn].
      * right. exists i, t, k. repeat split; [lia|exact Hj|exact Ht|exact Hn].
Qed.

Lemma placed_keys thr normals btxs x :
  In x (map lkey (lay_placed thr normals btxs)) <-> In x (map lkey (all_blobs 0 btxs)).
Proof.
  unfold lay_placed, sorted_blobs. rewrite assign_keys.
  pose proof (Permutation_map lkey (lb_sort_perm (all_blobs 0 btxs))) as Hp. split; intros H.
  - exact (Permutation_in _ Hp H).
  - exact (Permutation_in _ (Permutation_sym Hp) H).
Qed.

(* the recorded index of blob k of transaction i is the index of an entry carrying that blob *)
Lemma index_of_placed thr normals btxs i t k b :
  nth_error btxs i = Some t -> nth_error (btx_blobs t) k = Some b ->
  let placed := lay_placed thr normals btxs in
  exists e, In e placed /\ lb_index e = index_of placed (N.of_nat i) (N.of_nat k) /\ lb_blob e = b.
Proof.
  intros Ht Hb placed. unfold index_of.
  destruct (find (fun e => (lb_pfb e =? N.of_nat i) && (lb_j e =? N.of_nat k)) placed) as [e|] eqn:Ef.
  - apply find_some in Ef. destruct Ef as [He Hk]. apply andb_true_iff in Hk as [Hk1 Hk2].
    apply N.eqb_eq in Hk1, Hk2. exists e. split; [exact He|]. split; [reflexivity|].
    assert (Hin : In (lkey e) (map lkey placed)) by (apply in_map, He).
    apply placed_keys in Hin. unfold lkey in Hin. apply all_blobs_keys in Hin.
    destruct Hin as (i' & t' & k' & Hp & Hj & Ht' & Hb').
    assert (i' = i) by lia. assert (k' = k) by lia. subst i' k'. congruence.
  - exfalso.
    assert (Hin : In (N.of_nat i, N.of_nat k, b) (map lkey placed)).
    { apply placed_keys, all_blobs_keys. exists i, t, k. split; [lia|]. split; [reflexivity|]. split; assumption. }
    apply in_map_iff in Hin. destruct Hin as (e & Hk & He).
    pose proof (find_none _ _ Ef e He) as Hf. cbv beta in Hf.
    unfold lkey in Hk. inversion Hk as [[H1 H2 H3]]. rewrite H1, H2, !N.eqb_refl in Hf. discriminate.
Qed.

Lemma indexes_of_tx_placed thr normals btxs i t : nth_error btxs i = Some t ->
  let placed := lay_placed thr normals btxs in
  forall bs j, (forall k b, nth_error bs k = Some b -> nth_error (btx_blobs t) (j + k) = Some b) ->
  Forall2 (fun ix b => exists e, In e placed /\ lb_index e = ix /\ lb_blob e = b)
          (indexes_of_tx placed (N.of_nat i) (N.of_nat j) bs) bs.
Proof.
  intros Ht placed. induction bs as [|b0 bs IH]; intros j H; cbn [indexes_of_tx]; constructor.
  - specialize (H 0%nat b0 eq_refl). rewrite Nat.add_0_r in H.
    destruct (index_of_placed thr normals btxs i t j b0 Ht H) as (e & He & Hi & Hb).
    exists e. repeat split; [exact He|exact Hi|exact Hb].
  - replace (N.of_nat j + 1) with (N.of_nat (S j)) by lia. apply IH.
    intros k b Hk. replace (S j + k)%nat with (j + S k)%nat by lia. apply H. exact Hk.
Qed.

(* ================================================================== *)
(* The wrapped PFBs: sizes, wire round trip                            *)
(* ================================================================== *)

(* the bytes MarshalBlobTx produces from the parts of a blob transaction *)
Definition blob_tx_bytes (t : blob_tx) : bytes :=
  enc_bytes_field 1 (btx_tx t)
  ++ concat (map (fun b => enc_msg_field 2 (marshal_blob b)) (btx_blobs t))
  ++ enc_bytes_field 3 type_id_blob.

Lemma marshal_blob_tx_bytes tx blobs : blobs <> [] -> Forall blob_ok blobs ->
  marshal_blob_tx tx blobs = Ok (blob_tx_bytes (mk_btx tx blobs)).
Proof.
  intros Hne Hall. unfold marshal_blob_tx, blob_tx_bytes. cbn [btx_tx btx_blobs].
  destruct blobs as [|b0 bl]; [congruence|].
  replace (existsb (fun b => Nat.eqb (length (b_data b)) 0) (b0 :: bl)) with false; [reflexivity|].
  symmetry. apply not_true_is_false. intros Ex. apply existsb_exists in Ex. destruct Ex as (b & Hin & Hb).
  rewrite Forall_forall in Hall. destruct (Hall b Hin) as (_ & _ & _ & _ & _ & Hd & _).
  apply Nat.eqb_eq in Hb. destruct (b_data b); [congruence|discriminate].
Qed.

Lemma in_stream_le w : forall txs, In w txs -> (length w <= length (stream txs))%nat.
Proof.
  induction txs as [|t txs IH]; intros Hin; [destruct Hin|]. rewrite stream_cons, !app_length.
  destruct Hin as [->|Hin]; [lia|]. specialize (IH Hin). lia.
Qed.

Lemma compact_count_stream txs : compact_count txs < 2097152 -> lenN (stream txs) < 4294967296.
Proof.
  unfold compact_count. pose proof (cneeded_enough (length (stream txs))). unfold lenN. lia.
Qed.

Lemma length_enc_bytes_field num v : (length v <= length (enc_bytes_field num v))%nat.
Proof. unfold enc_bytes_field. destruct v; [apply Nat.le_refl|]. rewrite !app_length. lia. Qed.

Lemma wrapper_length_ge tx idx :
  (length tx <= length (marshal_index_wrapper tx idx))%nat /\
  (length (concat (map put_uvarint idx)) <= length (marshal_index_wrapper tx idx))%nat /\
  (1 <= length (marshal_index_wrapper tx idx))%nat.
Proof.
  unfold marshal_index_wrapper. rewrite !app_length.
  pose proof (length_enc_bytes_field 1 tx) as H1.
  assert (H3 : (1 <= length (enc_bytes_field 3 type_id_indx))%nat) by (vm_compute; lia).
  split; [lia|]. split; [|lia].
  destruct idx as [|i idx]; [cbn [map concat length]; lia|].
  rewrite length_enc_msg_field. lia.
Qed.

Lemma wrapper_iw_ok tx idx : Forall (fun i => i < 2097152) idx ->
  lenN (marshal_index_wrapper tx idx) < 4294967296 -> iw_ok tx idx.
Proof.
  intros Hi Hl. destruct (wrapper_length_ge tx idx) as (H1 & H2 & _). unfold lenN in Hl.
  assert (H64 : 4294967296 < 2 ^ 64) by reflexivity.
  unfold iw_ok, lenN. split; [lia|]. split; [|lia].
  eapply Forall_impl; [|exact Hi]. intros i H. cbn beta in H. lia.
Qed.

Lemma wrappers_length placed : forall btxs p, length (wrappers placed p btxs) = length btxs.
Proof. induction btxs as [|t tl IH]; intros p; cbn [wrappers length]; [reflexivity|]. rewrite IH. reflexivity. Qed.

Lemma wrappers_nonempty placed : forall btxs p, Forall (fun w => w <> []) (wrappers placed p btxs).
Proof.
  induction btxs as [|t tl IH]; intros p; cbn [wrappers]; constructor; [|apply IH].
  intros E. destruct (wrapper_length_ge (btx_tx t) (indexes_of_tx placed p 0 (btx_blobs t))) as (_ & _ & H).
  rewrite E in H. cbn [length] in H. lia.
Qed.

(* the real wrapped PFBs fill fewer than 2^32 bytes *)
Lemma wrappers_stream_small thr normals btxs : 1 <= thr -> estimate thr normals btxs < 2097152 ->
  lenN (stream (wrappers (lay_placed thr normals btxs) 0 btxs)) < 4294967296.
Proof.
  intros Ht Hest. apply compact_count_stream.
  pose proof (compact_count_wrappers _ btxs (placed_index_small thr normals btxs Ht Hest)) as H.
  unfold estimate in Hest. lia.
Qed.

Lemma normals_stream_small thr normals btxs : estimate thr normals btxs < 2097152 ->
  lenN (stream normals) < 4294967296.
Proof. intros Hest. apply compact_count_stream. unfold estimate in Hest. lia. Qed.

Lemma Forall2_imp {A B} (P Q : A -> B -> Prop) : forall l1 l2,
  (forall a b, In a l1 -> In b l2 -> P a b -> Q a b) -> Forall2 P l1 l2 -> Forall2 Q l1 l2.
Proof.
  intros l1 l2 H HF. induction HF as [|a b l1 l2 Hab _ IH]; constructor.
  - apply H; [left; reflexivity|left; reflexivity|exact Hab].
  - apply IH. intros a' b' Ha Hb. apply H; right; assumption.
Qed.

Lemma Forall2_left {A B} (P : A -> B -> Prop) (Q : A -> Prop) l1 l2 :
  (forall a b, P a b -> Q a) -> Forall2 P l1 l2 -> Forall Q l1.
Proof. intros H. induction 1 as [|a b l1 l2 Hab _ IH]; constructor; [exact (H a b Hab)|exact IH]. Qed.

Lemma Forall2_len {A B} (P : A -> B -> Prop) l1 l2 : Forall2 P l1 l2 -> length l1 = length l2.
Proof. induction 1; cbn [length]; congruence. Qed.

(* ================================================================== *)
(* The PFB loop of Deconstruct                                         *)
(* ================================================================== *)

Definition blob_sizes (bs : list blob) : list N := map (fun b => lenN (b_data b)) bs.

Lemma decon_pfbs_cons dec s tx blobs idxs tl :
  blobs <> [] -> dec tx = Ok (blob_sizes blobs) ->
  Forall2 (fun i b => blob_at s i b /\ blob_ok b /\ blob_small b) idxs blobs -> iw_ok tx idxs ->
  decon_pfbs dec s (marshal_index_wrapper tx idxs :: tl) =
  (do rest <- decon_pfbs dec s tl; Ok (blob_tx_bytes (mk_btx tx blobs) :: rest)).
Proof.
  intros Hne Hdec HF Hiw. cbn [decon_pfbs]. rewrite (index_wrapper_round_trip tx idxs Hiw).
  cbn [iw_idx iw_tx].
  destruct idxs as [|i0 idxs]; [inversion HF; subst; congruence|].
  rewrite Hdec. cbn [bind]. unfold blob_sizes at 1. rewrite map_length, <- (Forall2_len _ _ _ HF), Nat.eqb_refl.
  cbn [negb]. unfold blob_sizes. rewrite (decon_blobs_ok s _ _ HF). cbn [bind].
  rewrite marshal_blob_tx_bytes; [reflexivity|exact Hne|].
  apply Forall_forall. intros b Hb. clear -HF Hb.
  induction HF as [|i b' l1 l2 Hab _ IH]; [destruct Hb|]. destruct Hb as [<-|Hb]; [apply Hab|apply IH, Hb].
Qed.

Lemma decon_wrappers dec thr normals btxs : 1 <= thr -> Forall lay_btx_ok btxs ->
  Forall (fun t => btx_blobs t <> []) btxs ->
  Forall (fun t => dec (btx_tx t) = Ok (blob_sizes (btx_blobs t))) btxs ->
  estimate thr normals btxs < 2097152 ->
  let s := layout thr normals btxs in
  let placed := lay_placed thr normals btxs in
  forall tl p, (forall i t, nth_error tl i = Some t -> nth_error btxs (p + i) = Some t) ->
    Forall (fun w => lenN w < 4294967296) (wrappers placed (N.of_nat p) tl) ->
    decon_pfbs dec s (wrappers placed (N.of_nat p) tl) = Ok (map blob_tx_bytes tl).
Proof.
  intros Ht Hok Hne Hdec Hest s placed.
  induction tl as [|t0 tl IH]; intros p Hsuf Hlen; [reflexivity|].
  cbn [wrappers map] in *. apply Forall_cons_iff in Hlen as [Hl0 Hlen].
  pose proof (Hsuf 0%nat t0 eq_refl) as Ht0. rewrite Nat.add_0_r in Ht0.
  pose proof (nth_error_In _ _ Ht0) as Hin.
  rewrite Forall_forall in Hne, Hdec.
  pose proof (indexes_of_tx_placed thr normals btxs p t0 Ht0 (btx_blobs t0) 0%nat (fun k b H => H)) as HF.
  change (N.of_nat 0) with 0 in HF. fold placed in HF.
  assert (HF' : Forall2 (fun i b => (blob_at s i b /\ blob_ok b /\ blob_small b) /\ i < 2097152)
                        (indexes_of_tx placed (N.of_nat p) 0 (btx_blobs t0)) (btx_blobs t0)).
  { eapply Forall2_imp; [|exact HF]. intros ix b _ _ (e & He & <- & <-).
    destruct (layout_blob_at thr normals btxs Ht Hok Hest e He) as (H1 & H2 & H3 & H4).
    split; [split; [exact H1|split; [exact H2|exact H3]]|exact H4]. }
  assert (Hsmall : Forall (fun i => i < 2097152) (indexes_of_tx placed (N.of_nat p) 0 (btx_blobs t0))).
  { eapply Forall2_left; [|exact HF']. intros i b [_ H]. exact H. }
  rewrite (decon_pfbs_cons dec s (btx_tx t0) (btx_blobs t0) _ _ (Hne t0 Hin) (Hdec t0 Hin)).
  - replace (N.of_nat p + 1) with (N.of_nat (S p)) by lia. rewrite IH.
    + cbn [bind]. destruct t0; reflexivity.
    + intros i t Hi. replace (S p + i)%nat with (p + S i)%nat by lia. apply Hsuf. exact Hi.
    + replace (N.of_nat (S p)) with (N.of_nat p + 1) by lia. exact Hlen.
  - eapply Forall2_imp; [|exact HF']. intros ix b _ _ [H _]. exact H.
  - apply wrapper_iw_ok; assumption.
Qed.

(* ================================================================== *)
(* The two namespace lookups and the frame of Deconstruct              *)
(* ================================================================== *)

Lemma range_prefix ns run post : Forall (ns_is ns) run -> Forall (ns_above ns) post ->
  get_share_range_for_namespace (run ++ post) ns = (0, lenN run).
Proof.
  intros Hrun Hpost. pose proof (range_lookup ns [] run post (Forall_nil _) Hrun Hpost) as H.
  cbn [app] in H. rewrite H. destruct run; reflexivity.
Qed.

Lemma slice_prefix {A} (a b : list A) : slice_list 0 (lenN a) (a ++ b) = Ok a.
Proof. exact (slice_mid [] a b). Qed.

Lemma empty_square_val : empty_square = Ok [padding_spec tail_padding_ns 0].
Proof. vm_compute. reflexivity. Qed.

Lemma square_not_empty x l : sh_ns x <> tail_padding_ns -> square_is_empty (x :: l) = false.
Proof.
  intros H. unfold square_is_empty. rewrite empty_square_val. cbn [shares_eqb].
  replace (bytes_eqb x (padding_spec tail_padding_ns 0)) with false; [reflexivity|].
  symmetry. apply bytes_eqb_neq. intros E. apply H. rewrite E. reflexivity.
Qed.

(* Deconstruct on: a tx-namespace run, a PFB-namespace run, shares above both *)
Lemma deconstruct_frame dec txr pfr rest normals wr out :
  square_is_empty (txr ++ pfr ++ rest) = false ->
  Forall (ns_is tx_ns) txr -> Forall (ns_is pfb_ns) pfr -> Forall (ns_above pfb_ns) rest ->
  parse_txs txr = Ok normals -> parse_txs pfr = Ok wr ->
  decon_pfbs dec (txr ++ pfr ++ rest) wr = Ok out -> (pfr = [] -> out = []) ->
  deconstruct dec (txr ++ pfr ++ rest) = Ok (normals ++ out).
Proof.
  intros Hne Htx Hpfb Hrest Hp1 Hp2 Hd Hnil. set (s := txr ++ pfr ++ rest) in *.
  assert (Hpost : Forall (ns_above tx_ns) (pfr ++ rest)).
  { assert (Hlt : lex_lt tx_ns pfb_ns) by (apply bytes_cmp_lt_lex, tx_lt_pfb).
    apply Forall_app. split.
    - eapply Forall_impl; [|exact Hpfb]. intros x Hx. unfold ns_is in Hx. unfold ns_above. rewrite Hx. exact Hlt.
    - eapply Forall_impl; [|exact Hrest]. intros x Hx. unfold ns_above in *. exact (lex_lt_trans _ _ _ Hlt Hx). }
  unfold deconstruct. rewrite Hne. unfold s at 1. rewrite (range_prefix tx_ns txr _ Htx Hpost).
  change (negb (0 =? 0)) with false. cbv iota.
  assert (Hdrop : dropN (lenN txr) s = pfr ++ rest).
  { unfold dropN, lenN, s. rewrite Nnat.Nat2N.id, skipn_app, Nat.sub_diag, skipn_O, skipn_all. reflexivity. }
  rewrite Hdrop, (range_prefix pfb_ns pfr rest Hpfb Hrest).
  assert (Hs1 : slice_list 0 (lenN txr) s = Ok txr) by apply slice_prefix.
  destruct pfr as [|p0 pfr'] eqn:Epfr.
  - change ((0 =? 0) && (lenN (@nil share) =? 0)) with true. cbv iota.
    rewrite Hs1. cbn [bind]. rewrite Hp1, (Hnil eq_refl), app_nil_r. reflexivity.
  - replace ((0 =? 0) && (lenN (p0 :: pfr') =? 0)) with false by (rewrite lenN_cons; lia).
    change (negb (0 =? 0)) with false. cbv iota.
    rewrite Hs1. cbn [bind]. rewrite Hp1. cbn [bind].
    assert (Hs2 : slice_list (0 + lenN txr) (lenN (p0 :: pfr') + lenN txr) s = Ok (p0 :: pfr')).
    { rewrite N.add_0_l, (N.add_comm (lenN (p0 :: pfr'))). apply slice_mid. }
    rewrite Hs2. cbn [bind]. rewrite Hp2. cbn [bind]. rewrite Hd. reflexivity.
Qed.

(* ================================================================== *)
(* The layout, piece by piece                                          *)
(* ================================================================== *)

Lemma compact_spec_ix_cons ns txs : txs <> [] -> exists x l, compact_spec_ix ns 0 txs = x :: l.
Proof.
  intros Hne. destruct txs as [|t txs]; [congruence|]. unfold compact_spec_ix.
  pose proof (stream_nonempty t txs) as Hs.
  assert (Hpos : (0 < length (stream (t :: txs)))%nat).
  { destruct (stream (t :: txs)); [congruence|cbn [length]; lia]. }
  pose proof (cneeded_pos _ Hpos) as Hc. destruct (cneeded (length (stream (t :: txs)))) as [|n]; [lia|].
  cbn [seq map]. eexists _, _. reflexivity.
Qed.

Lemma lay_rest_above thr normals btxs : Forall lay_btx_ok btxs ->
  Forall (ns_above pfb_ns) (lay_rest thr normals btxs).
Proof.
  intros Hok. destruct (placed_facts thr normals btxs Hok) as (Hb & _ & Hbt).
  assert (Hlt : lex_lt pfb_ns primary_reserved_padding_ns) by (apply bytes_cmp_lt_lex, pfb_lt_reserved).
  unfold lay_rest. apply Forall_app. split.
  - apply (region_ns_all (fun n => lex_lt pfb_ns n)); [apply length_reserved_ns|exact Hb|exact Hlt|].
    eapply Forall_impl; [|exact Hbt]. intros e [H _]. cbn beta. apply bytes_cmp_lt_lex in H.
    exact (lex_lt_trans _ _ _ Hlt H).
  - unfold tail_pad. apply Forall_repeat. unfold ns_above. rewrite (padding_spec_ns _ _ length_tail_ns).
    apply bytes_cmp_lt_lex. vm_compute. reflexivity.
Qed.

Lemma parse_tx_run ns txs : length ns = 29%nat -> is_compact_ns ns = true ->
  Forall (fun t => t <> []) txs -> lenN (stream txs) < 4294967296 ->
  parse_txs (compact_spec_ix ns 0 txs) = Ok txs.
Proof.
  intros Hns Hc Hall Hb. destruct txs as [|t txs]; [reflexivity|].
  apply parse_txs_compact_spec; try assumption. discriminate.
Qed.

Lemma tx_ns_not_tail : tx_ns <> tail_padding_ns. Proof. discriminate. Qed.
Lemma pfb_ns_not_tail : pfb_ns <> tail_padding_ns. Proof. discriminate. Qed.

(* ================================================================== *)
(* C02 on the layout                                                   *)
(* ================================================================== *)

(* the empty list: the single tail padding share, and back *)
Theorem deconstruct_layout_empty dec thr :
  Ok (layout thr [] []) = empty_square /\ deconstruct dec (layout thr [] []) = Ok [].
Proof.
  split; [rewrite empty_square_val; reflexivity|].
  unfold deconstruct. change (layout thr [] []) with [padding_spec tail_padding_ns 0].
  assert (He : square_is_empty [padding_spec tail_padding_ns 0] = true) by (vm_compute; reflexivity).
  rewrite He. reflexivity.
Qed.

Theorem deconstruct_layout dec thr normals btxs :
  1 <= thr -> Forall (fun t => t <> []) normals -> Forall lay_btx_ok btxs ->
  Forall (fun t => btx_blobs t <> []) btxs ->
  Forall (fun t => dec (btx_tx t) = Ok (blob_sizes (btx_blobs t))) btxs ->
  estimate thr normals btxs < 2097152 ->
  deconstruct dec (layout thr normals btxs) = Ok (normals ++ map blob_tx_bytes btxs).
Proof.
  intros Ht Hnn Hok Hne Hdec Hest.
  assert (Hcase : (normals = [] /\ btxs = []) \/ (normals <> [] \/ btxs <> [])).
  { destruct normals; [destruct btxs; [left; split; reflexivity|right; right; discriminate]|right; left; discriminate]. }
  destruct Hcase as [[-> ->]|Hcase]; [apply deconstruct_layout_empty|].
  pose proof (layout_split thr normals btxs Ht Hok Hest) as Hsplit.
  set (placed := lay_placed thr normals btxs) in *.
  set (wr := wrappers placed 0 btxs).
  assert (Hwlen : lenN (stream wr) < 4294967296) by (apply wrappers_stream_small; assumption).
  assert (Hwr_nil : pfb_run thr normals btxs = [] -> btxs = []).
  { intros E. destruct btxs as [|t0 tl]; [reflexivity|exfalso].
    destruct (compact_spec_ix_cons pfb_ns wr) as (x & l & Hx); [unfold wr; cbn [wrappers]; discriminate|].
    unfold pfb_run in E. fold placed in E. fold wr in E. congruence. }
  rewrite Hsplit. apply (deconstruct_frame dec _ _ _ normals wr).
  - (* not the empty square *)
    assert (Htn : tx_run normals = [] -> normals = []).
    { intros E. destruct normals as [|n0 nl]; [reflexivity|exfalso].
      destruct (compact_spec_ix_cons tx_ns (n0 :: nl)) as (x & l & Hx); [discriminate|].
      unfold tx_run in E. congruence. }
    pose proof (compact_spec_ix_ns tx_ns normals length_tx_ns) as Hns1. fold (tx_run normals) in Hns1.
    pose proof (compact_spec_ix_ns pfb_ns wr length_pfb_ns) as Hns2.
    change (compact_spec_ix pfb_ns 0 wr) with (pfb_run thr normals btxs) in Hns2.
    destruct (tx_run normals) as [|x l].
    + destruct (pfb_run thr normals btxs) as [|x l].
      * exfalso. destruct Hcase as [Hc|Hc]; [exact (Hc (Htn eq_refl))|exact (Hc (Hwr_nil eq_refl))].
      * cbn [app]. apply square_not_empty. apply Forall_cons_iff in Hns2 as [Hx _]. rewrite Hx. exact pfb_ns_not_tail.
    + cbn [app]. apply square_not_empty. apply Forall_cons_iff in Hns1 as [Hx _]. rewrite Hx. exact tx_ns_not_tail.
  - exact (compact_spec_ix_ns tx_ns normals length_tx_ns).
  - exact (compact_spec_ix_ns pfb_ns wr length_pfb_ns).
  - apply lay_rest_above, Hok.
  - apply parse_tx_run; [reflexivity|reflexivity|exact Hnn|].
    exact (normals_stream_small thr normals btxs Hest).
  - apply parse_tx_run; [reflexivity|reflexivity|apply wrappers_nonempty|exact Hwlen].
  - rewrite <- Hsplit.
    apply (decon_wrappers dec thr normals btxs Ht Hok Hne Hdec Hest btxs 0%nat).
    + intros i t H. exact H.
    + apply Forall_forall. intros w Hw. pose proof (in_stream_le w wr Hw) as Hle.
      unfold lenN in *. lia.
  - intros E. rewrite (Hwr_nil E). reflexivity.
Qed.

(* ================================================================== *)
(* C02 through raw transaction bytes (layout_construct)                *)
(* ================================================================== *)

Lemma split_ordered_normals : forall ns raws acc_n,
  Forall (fun r => unmarshal_blob_tx r = UbtNot) ns ->
  split_ordered false (ns ++ raws) acc_n [] = split_ordered false raws (acc_n ++ ns) [].
Proof.
  induction ns as [|r ns IH]; intros raws acc_n H; [rewrite app_nil_r; reflexivity|].
  apply Forall_cons_iff in H as [Hr H]. cbn [app split_ordered]. unfold classify. rewrite Hr.
  rewrite IH by exact H. rewrite <- app_assoc. reflexivity.
Qed.

Lemma split_ordered_blobs : forall braws btxs, Forall2 (fun r t => unmarshal_blob_tx r = UbtOk t) braws btxs ->
  forall seen acc_n acc_b, split_ordered seen braws acc_n acc_b = Some (acc_n, acc_b ++ btxs).
Proof.
  induction 1 as [|r t braws btxs Hr _ IH]; intros seen acc_n acc_b; [rewrite app_nil_r; reflexivity|].
  cbn [split_ordered]. unfold classify. rewrite Hr. rewrite IH, <- app_assoc. reflexivity.
Qed.

(* the canonical encoding of a blob transaction decodes to its parts *)
Lemma blob_tx_bytes_decodes t : Forall blob_ok (btx_blobs t) -> btx_ok (btx_tx t) (btx_blobs t) ->
  unmarshal_blob_tx (blob_tx_bytes t) = UbtOk t.
Proof.
  intros Hb Hw. pose proof Hw as (_ & Hne & _).
  pose proof (marshal_blob_tx_bytes (btx_tx t) (btx_blobs t) Hne Hb) as Hm.
  pose proof (blob_tx_round_trip _ _ _ Hw Hm) as Hr. destruct t as [tx blobs]. exact Hr.
Qed.

Lemma split_canonical normals btxs :
  Forall (fun r => unmarshal_blob_tx r = UbtNot) normals ->
  Forall (fun t => Forall blob_ok (btx_blobs t) /\ btx_ok (btx_tx t) (btx_blobs t)) btxs ->
  split_ordered false (normals ++ map blob_tx_bytes btxs) [] [] = Some (normals, btxs).
Proof.
  intros Hn Hb. rewrite (split_ordered_normals normals _ [] Hn). cbn [app].
  apply (split_ordered_blobs (map blob_tx_bytes btxs) btxs).
  induction Hb as [|t btxs [H1 H2] _ IH]; cbn [map]; constructor; [|exact IH].
  apply blob_tx_bytes_decodes; assumption.
Qed.

Theorem deconstruct_layout_construct dec thr max normals btxs sq :
  1 <= thr -> (max <= 1024)%Z ->
  Forall (fun r => r <> [] /\ unmarshal_blob_tx r = UbtNot) normals ->
  Forall lay_btx_ok btxs ->
  Forall (fun t => btx_ok (btx_tx t) (btx_blobs t)) btxs ->
  Forall (fun t => dec (btx_tx t) = Ok (blob_sizes (btx_blobs t))) btxs ->
  layout_construct (normals ++ map blob_tx_bytes btxs) max thr = Ok sq ->
  deconstruct dec sq = Ok (normals ++ map blob_tx_bytes btxs).
Proof.
  intros Ht Hmax Hn Hok Hw Hdec H. unfold layout_construct in H.
  destruct ((0 <? max)%Z && is_pow2 max) eqn:Ecfg; cbn [negb] in H; [|discriminate].
  apply andb_true_iff in Ecfg as [Hpos _].
  assert (Hs : split_ordered false (normals ++ map blob_tx_bytes btxs) [] [] = Some (normals, btxs)).
  { apply split_canonical.
    - eapply Forall_impl; [|exact Hn]. intros r [_ Hr]. exact Hr.
    - rewrite Forall_forall in *. intros t Hin. split; [|apply Hw, Hin].
      specialize (Hok t Hin). unfold lay_btx_ok in Hok. eapply Forall_impl; [|exact Hok]. intros b [Hb _]. exact Hb. }
  destruct (split_ordered false _ [] []) as [[n' b']|] eqn:Es in H; [|discriminate].
  assert (Heq : Some (n', b') = Some (normals, btxs)) by (etransitivity; [symmetry; exact Es|exact Hs]).
  injection Heq as -> ->.
  destruct (estimate thr normals btxs <=? Z.to_N max * Z.to_N max) eqn:Ee; [|discriminate].
  injection H as <-. apply deconstruct_layout; try assumption.
  - eapply Forall_impl; [|exact Hn]. intros r [Hr _]. exact Hr.
  - eapply Forall_impl; [|exact Hw]. intros t (_ & Hne & _). exact Hne.
  - assert (Z.to_N max <= 1024) by lia. nia.
Qed.

(* ================================================================== *)
(* Non-vacuity: a concrete input satisfying all conditions             *)
(* ================================================================== *)

(* the mock PFB of the repository's test helpers: 329 bytes, then the blob sizes *)
Definition ex_inner (sizes : list N) : bytes := repeat Byte.x0a 329 ++ concat (map be32 sizes).
(* a version 1 blob (20 byte signer) whose data and signer need two shares *)
Definition ex_blob_c : blob := mk_blob (ex_ns Byte.x02) (repeat Byte.x09 459) 1 (Some (repeat Byte.x33 20)).
Definition ex_c02_btxs : list blob_tx :=
  [mk_btx (ex_inner [2000; 600]) [ex_blob_b; ex_blob_a]; mk_btx (ex_inner [459]) [ex_blob_c]].

Lemma ex_blob_c_ok : lay_blob_ok ex_blob_c.
Proof.
  split; [|vm_compute; reflexivity].
  unfold blob_ok, ex_blob_c. cbn [b_ns b_data b_ver b_signer].
  split; [reflexivity|]. split; [reflexivity|]. split; [reflexivity|]. split; [reflexivity|].
  split; [reflexivity|]. split; [discriminate|]. split; [vm_compute; reflexivity|].
  right. split; [reflexivity|]. exists (repeat Byte.x33 20). split; reflexivity.
Qed.

Lemma ex_c02_btxs_ok : Forall lay_btx_ok ex_c02_btxs.
Proof.
  assert (Ha : lay_blob_ok ex_blob_a).
  { apply ex_blob_ok; [discriminate|vm_compute; reflexivity|left; reflexivity]. }
  assert (Hb : lay_blob_ok ex_blob_b).
  { apply ex_blob_ok; [discriminate|vm_compute; reflexivity|right; left; reflexivity]. }
  pose proof ex_blob_c_ok as Hc.
  constructor; [|constructor; [|constructor]]; unfold lay_btx_ok; cbn [btx_blobs].
  - constructor; [exact Hb|]. constructor; [exact Ha|constructor].
  - constructor; [exact Hc|constructor].
Qed.

Example ex_deconstruct_hyps :
  1 <= 1 /\ Forall (fun t => t <> []) ex_normals /\ Forall lay_btx_ok ex_c02_btxs /\
  Forall (fun t => btx_blobs t <> []) ex_c02_btxs /\
  Forall (fun t => mock_pfb_decoder (btx_tx t) = Ok (blob_sizes (btx_blobs t))) ex_c02_btxs /\
  estimate 1 ex_normals ex_c02_btxs < 2097152.
Proof.
  split; [lia|]. split; [repeat constructor; discriminate|]. split; [exact ex_c02_btxs_ok|].
  split; [repeat constructor; discriminate|].
  split; [repeat constructor; vm_compute; reflexivity|vm_compute; reflexivity].
Qed.

Example ex_deconstruct :
  deconstruct mock_pfb_decoder (layout 1 ex_normals ex_c02_btxs) = Ok (ex_normals ++ map blob_tx_bytes ex_c02_btxs).
Proof.
  destruct ex_deconstruct_hyps as (H1 & H2 & H3 & H4 & H5 & H6). apply deconstruct_layout; assumption.
Qed.

(* the same input as raw bytes, accepted by layout_construct with maximum side 8 *)
Lemma ex_blob_wire c data ver signer : data <> [] ->
  ((ver = 0 /\ signer = None) \/ (ver = 1 /\ exists s, signer = Some s /\ length s = 20%nat)) ->
  lenN data < 2 ^ 64 -> blob_wire_ok (mk_blob (ex_ns c) data ver signer).
Proof.
  intros Hd Hv Hl. unfold blob_wire_ok. cbn [b_ns b_data b_ver b_signer].
  change (ex_ns c) with (Byte.x00 :: repeat Byte.x00 18 ++ repeat c 10).
  split.
  { exists Byte.x00, (repeat Byte.x00 18 ++ repeat c 10). split; [reflexivity|].
    split; [reflexivity|left; split; reflexivity]. }
  split; [|exact Hl]. unfold blob_acceptable.
  split; [exact Hd|]. split; [discriminate|]. split; [reflexivity|exact Hv].
Qed.

Lemma ex_c02_wire_ok : Forall (fun t => btx_ok (btx_tx t) (btx_blobs t)) ex_c02_btxs.
Proof.
  assert (Ha : blob_wire_ok ex_blob_a).
  { apply ex_blob_wire; [discriminate|left; split; reflexivity|vm_compute; reflexivity]. }
  assert (Hb : blob_wire_ok ex_blob_b).
  { apply ex_blob_wire; [discriminate|left; split; reflexivity|vm_compute; reflexivity]. }
  assert (Hc : blob_wire_ok ex_blob_c).
  { apply ex_blob_wire; [discriminate| |vm_compute; reflexivity].
    right. split; [reflexivity|]. exists (repeat Byte.x33 20). split; reflexivity. }
  constructor; [|constructor; [|constructor]]; unfold btx_ok; cbn [btx_tx btx_blobs].
  - split; [vm_compute; reflexivity|]. split; [discriminate|]. split.
    + constructor; [exact Hb|]. constructor; [exact Ha|constructor].
    + constructor; [vm_compute; reflexivity|]. constructor; [vm_compute; reflexivity|constructor].
  - split; [vm_compute; reflexivity|]. split; [discriminate|]. split.
    + constructor; [exact Hc|constructor].
    + constructor; [vm_compute; reflexivity|constructor].
Qed.

Example ex_deconstruct_construct :
  let raws := ex_normals ++ map blob_tx_bytes ex_c02_btxs in
  layout_construct raws 8 1 = Ok (layout 1 ex_normals ex_c02_btxs) /\
  deconstruct mock_pfb_decoder (layout 1 ex_normals ex_c02_btxs) = Ok raws.
Proof.
  intros raws. assert (Hc : layout_construct raws 8 1 = Ok (layout 1 ex_normals ex_c02_btxs)) by (vm_compute; reflexivity).
  split; [exact Hc|].
  destruct ex_deconstruct_hyps as (H1 & H2 & H3 & H4 & H5 & H6).
  apply (deconstruct_layout_construct mock_pfb_decoder 1 8 ex_normals ex_c02_btxs); try assumption.
  - lia.
  - repeat constructor; try discriminate; vm_compute; reflexivity.
  - exact ex_c02_wire_ok.
Qed.
