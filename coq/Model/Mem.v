(* Go slice semantics for the read paths (property C17).  Definitions only.

   Everywhere else in the model a byte slice is a value ([list byte]).  Here a
   slice is a DESCRIPTOR (block, offset, len, cap) into a heap of blocks, so
   that aliasing, spare capacity and in-place [append] are expressible:

     - [mslice2]/[mslice3]  : s[lo:hi] and s[lo:hi:max]; bounds are checked
                              against cap (as Go does), never against len.
     - [mappend]            : append(dst, src...).  Writes IN PLACE, behind
                              dst's len, iff len+n <= cap; otherwise it
                              allocates a fresh block, copies and returns a
                              slice of the new block.
     - [mcopy_fresh]        : append([]byte(nil), s...).
   Every operation threads the heap and an access log (R|W, block, offset,
   length), newest entry first.

   The allocator's growth policy is NOT modelled: every allocating function
   takes [g : old cap -> needed len -> proposed cap] as a parameter and uses
   [max needed (g old needed)]; theorems quantify over all [g].

   Reads are logged coarsely: one R entry for the whole share when a loop
   iteration inspects it (Go reads only some header bytes and the payload).
   This over-approximates the read set, which is the safe direction for the
   conflict analysis. *)
From GS.Model Require Import Base Varint Namespace ShareFmt Blob Sparse.
Open Scope nat_scope.

(* ---- heap, slices, log ---- *)

Record slice := mk_slice { sl_blk : nat; sl_off : nat; sl_len : nat; sl_cap : nat }.

(* the nil slice; also stands for a zero-length, zero-capacity literal such as []byte{} *)
Definition nil_slice : slice := mk_slice 0 0 0 0.

Inductive akind := AR | AW.
Record access := mk_acc { a_kind : akind; a_blk : nat; a_off : nat; a_len : nat }.

Definition heap := list bytes.
Record mstate := mk_st { st_heap : heap; st_log : list access }.

Definition hblock (h : heap) (b : nat) : bytes := nth b h [].

(* the bytes a slice denotes in a heap *)
Definition mread_bytes (h : heap) (s : slice) : bytes :=
  firstn (sl_len s) (skipn (sl_off s) (hblock h (sl_blk s))).

Fixpoint upd_nth {A} (n : nat) (f : A -> A) (l : list A) : list A :=
  match l, n with
  | [], _ => []
  | x :: tl, O => f x :: tl
  | x :: tl, S k => x :: upd_nth k f tl
  end.

(* overwrite [data] at offset [off] of block [b] *)
Definition hwrite (h : heap) (b off : nat) (data : bytes) : heap :=
  upd_nth b (set_at off data) h.

Definition log_acc (k : akind) (b off len : nat) (st : mstate) : mstate :=
  mk_st (st_heap st) (mk_acc k b off len :: st_log st).
Definition log_read (s : slice) (st : mstate) : mstate :=
  log_acc AR (sl_blk s) (sl_off s) (sl_len s) st.

(* ---- state-and-outcome monad: the state survives an error return ---- *)

Definition M (A : Type) : Type := mstate -> mstate * outcome A.
Definition mret {A} (a : A) : M A := fun st => (st, Ok a).
Definition mlift {A} (o : outcome A) : M A := fun st => (st, o).
Definition mbind {A B} (m : M A) (f : A -> M B) : M B :=
  fun st =>
    let '(st1, o) := m st in
    match o with
    | Ok a => f a st1
    | Err => (st1, Err)
    | Fault => (st1, Fault)
    end.
Notation "'mdo' x <- m ; k" := (mbind m (fun x => k))
  (at level 200, x pattern, m at level 100, k at level 200, right associativity).

Fixpoint mmap {A B} (f : A -> M B) (l : list A) : M (list B) :=
  match l with
  | [] => mret []
  | x :: tl => mdo y <- f x; mdo ys <- mmap f tl; mret (y :: ys)
  end.

(* ---- primitives ---- *)

(* load the bytes of a slice *)
Definition mread (s : slice) : M bytes :=
  fun st => (log_read s st, Ok (mread_bytes (st_heap st) s)).

(* s[lo:hi] : 0 <= lo <= hi <= cap(s) *)
Definition mslice2 (s : slice) (lo hi : nat) : outcome slice :=
  if Nat.leb lo hi && Nat.leb hi (sl_cap s)
  then Ok (mk_slice (sl_blk s) (sl_off s + lo) (hi - lo) (sl_cap s - lo))
  else Fault.

(* s[lo:hi:max] : 0 <= lo <= hi <= max <= cap(s) *)
Definition mslice3 (s : slice) (lo hi mx : nat) : outcome slice :=
  if Nat.leb lo hi && Nat.leb hi mx && Nat.leb mx (sl_cap s)
  then Ok (mk_slice (sl_blk s) (sl_off s + lo) (hi - lo) (mx - lo))
  else Fault.

Definition new_cap (g : nat -> nat -> nat) (old needed : nat) : nat :=
  Nat.max needed (g old needed).

(* append(dst, data...) where [data] are values (not loaded from the heap) *)
Definition mappend_lit (g : nat -> nat -> nat) (dst : slice) (data : bytes) (st : mstate)
  : mstate * slice :=
  match data with
  | [] => (st, dst)
  | _ =>
    let n := sl_len dst + length data in
    if Nat.leb n (sl_cap dst) then
      (* in place: the bytes behind dst's len are overwritten *)
      let st1 := mk_st (hwrite (st_heap st) (sl_blk dst) (sl_off dst + sl_len dst) data) (st_log st) in
      (log_acc AW (sl_blk dst) (sl_off dst + sl_len dst) (length data) st1,
       mk_slice (sl_blk dst) (sl_off dst) n (sl_cap dst))
    else
      (* grow: fresh block, old contents copied, spare capacity zeroed *)
      let old := mread_bytes (st_heap st) dst in
      let c := new_cap g (sl_cap dst) n in
      let nb := length (st_heap st) in
      let st1 := log_read dst st in
      let st2 := mk_st (st_heap st1 ++ [old ++ data ++ zeros (c - n)]) (st_log st1) in
      (log_acc AW nb 0 n st2, mk_slice nb 0 n c)
  end.

(* append(dst, src...) : src is loaded first (memmove semantics), then stored *)
Definition mappend (g : nat -> nat -> nat) (dst src : slice) : M slice :=
  fun st =>
    let data := mread_bytes (st_heap st) src in
    let '(st', d) := mappend_lit g dst data (log_read src st) in
    (st', Ok d).

(* append([]byte(nil), s...) *)
Definition mcopy_fresh (g : nat -> nat -> nat) (s : slice) : M slice := mappend g nil_slice s.

(* ---- share accessors on a view ---- *)

(* Share.RawData(): s.data[rawDataStartIndex:] *)
Definition raw_data_view (v : slice) (sh : bytes) : outcome slice :=
  mslice2 v (raw_data_start sh) (sl_len v).

(* GetSigner(share): share.data[34:54] for a version 1 sequence start, else nil *)
Definition signer_view (v : slice) (sh : bytes) : outcome (option slice) :=
  if (N.eqb (sh_version sh) 1) && sh_start sh
  then do s <- mslice2 v 34 54; Ok (Some s)
  else Ok None.

(* Share.RawDataUsingReserved() *)
Definition raw_using_reserved_view (v : slice) (sh : bytes) : outcome slice :=
  let index := 30 + addif (sh_start sh) 4 + addif (sh_start sh && (N.eqb (sh_version sh) 1)) 20 in
  if sh_is_compact sh then
    do r <- parse_reserved_bytes (firstn 4 (skipn index sh));
    if N.eqb r 0 then Ok nil_slice
    else if N.ltb (N.of_nat (sl_len v)) r then Err
    else mslice2 v (N.to_nat r) (sl_len v)
  else mslice2 v index (sl_len v).

(* ---- parseSparseShares (share/parse_sparse_shares.go) ---- *)

(* one element of `sequences`: ns and signer are VIEWS into the share (Go keeps
   the sub-slices), data is the accumulation buffer *)
Record mseq := mk_mseq {
  m_ns : slice; m_ver : N; m_data : slice; m_len : N; m_signer : option slice
}.

(* one iteration of the loop over the shares.  [copy_first] = true is the
   current code (`data: append([]byte(nil), share.RawData()...)`), false the
   code before the repair of defect D7 (`data: share.RawData()`). *)
Definition parse_sparse_step (g : nat -> nat -> nat) (copy_first : bool) (v : slice)
           (seqs : list mseq) : M (list mseq) :=
  mdo sh <- mread v;
  if negb (sh_version_supported sh) then mlift Err else
  if sh_is_padding sh then mret seqs else
  mdo raw <- mlift (raw_data_view v sh);
  if sh_start sh then
    mdo nsv <- mlift (mslice2 v 0 29);
    mdo sg <- mlift (signer_view v sh);
    mdo data <- (if copy_first then mcopy_fresh g raw else mret raw);
    mret (mk_mseq nsv (sh_version sh) data (sh_seq_len sh) sg :: seqs)
  else
    match seqs with
    | [] => mlift Err
    | q :: older =>
      mdo d <- mappend g (m_data q) raw;
      mret (mk_mseq (m_ns q) (m_ver q) d (m_len q) (m_signer q) :: older)
    end.

Fixpoint parse_sparse_loop_mem (g : nat -> nat -> nat) (copy_first : bool) (views : list slice)
         (seqs : list mseq) : M (list mseq) :=
  match views with
  | [] => mret seqs
  | v :: tl =>
    mdo seqs' <- parse_sparse_step g copy_first v seqs;
    parse_sparse_loop_mem g copy_first tl seqs'
  end.

Definition mread_opt (o : option slice) : M (option bytes) :=
  match o with
  | None => mret None
  | Some s => mdo b <- mread s; mret (Some b)
  end.

(* the second loop: trim, NewBlob.  The blob is observed as values: the bytes
   its namespace / data / signer slices denote when it is built. *)
Definition finish_mseq (q : mseq) : M blob :=
  if N.ltb (N.of_nat (sl_len (m_data q))) (m_len q) then mlift Err else
  mdo d <- mlift (mslice2 (m_data q) 0 (N.to_nat (m_len q)));
  mdo nsb <- mread (m_ns q);
  mdo db <- mread d;
  mdo sgb <- mread_opt (m_signer q);
  mlift (new_blob nsb db (m_ver q) sgb).

Definition parse_blobs_gen (g : nat -> nat -> nat) (copy_first : bool) (views : list slice)
  : M (list blob) :=
  mdo seqs <- parse_sparse_loop_mem g copy_first views [];
  mmap finish_mseq (rev seqs).

(* share.ParseBlobs as it is now *)
Definition parse_blobs_mem (g : nat -> nat -> nat) (views : list slice) : M (list blob) :=
  parse_blobs_gen g true views.

(* share.ParseBlobs before the repair of defect D7 *)
Definition parse_blobs_mem_legacy (g : nat -> nat -> nat) (views : list slice) : M (list blob) :=
  parse_blobs_gen g false views.

(* ---- Sequence.RawData (share/share_sequence.go) ---- *)

Fixpoint seq_accumulate (g : nat -> nat -> nat) (views : list slice) (acc : slice) : M slice :=
  match views with
  | [] => mret acc
  | v :: tl =>
    mdo sh <- mread v;
    mdo raw <- mlift (raw_data_view v sh);
    mdo acc' <- mappend g acc raw;
    seq_accumulate g tl acc'
  end.

Definition sequence_raw_data_mem (g : nat -> nat -> nat) (views : list slice) : M bytes :=
  mdo data <- seq_accumulate g views nil_slice;
  match views with
  | [] => mlift Err
  | first :: _ =>
    mdo fsh <- mread first;
    let sl := sh_seq_len fsh in
    if N.ltb (N.of_nat (sl_len data)) sl then mlift Err else
    mdo d <- mlift (mslice2 data 0 (N.to_nat sl));
    mread d
  end.

(* ---- extractRawData (share/parse_compact_shares.go) ---- *)

Fixpoint extract_raw_data_mem (g : nat -> nat -> nat) (found : bool) (views : list slice)
         (acc : slice) : M slice :=
  match views with
  | [] => mret acc
  | v :: tl =>
    mdo sh <- mread v;
    if found then
      mdo raw <- mlift (raw_data_view v sh);
      mdo acc' <- mappend g acc raw;
      extract_raw_data_mem g true tl acc'
    else
      mdo raw <- mlift (raw_using_reserved_view v sh);
      mdo acc' <- mappend g acc raw;
      extract_raw_data_mem g (negb (Nat.eqb (sl_len raw) 0)) tl acc'
  end.

(* ---- parseDelimiter (share/utils.go) ---- *)

Inductive mdelim :=
| MDelimOk (rest : slice) (unit_len : N)
| MDelimIncomplete
| MDelimErr
| MDelimFault.

(* The zero padding is appended to input[:l].  When l = len(input) < 10 and the
   input has spare capacity this is an IN-PLACE write behind the input. *)
Definition parse_delimiter_mem (g : nat -> nat -> nat) (input : slice) (st : mstate)
  : mstate * mdelim :=
  if Nat.eqb (sl_len input) 0 then (st, MDelimOk input 0%N) else
  let l := Nat.min 10 (sl_len input) in
  match mslice2 input 0 l with
  | Ok head =>
    let hb := mread_bytes (st_heap st) head in
    let st1 := log_read head st in
    let incomplete := match uvarint hb with UvShort => Nat.ltb l 10 | _ => false end in
    if incomplete then (st1, MDelimIncomplete) else
    (* zeroPadIfNecessary(input[:l], 10) *)
    let '(st2, delim) :=
      if Nat.leb 10 l then (st1, head) else mappend_lit g head (zeros (10 - l)) st1 in
    let db := mread_bytes (st_heap st2) delim in
    let st3 := log_read delim st2 in
    match read_uvarint db with
    | Ok (data_len, _) =>
      let n := length (put_uvarint data_len) in
      match mslice2 input n (sl_len input) with
      | Ok rest => (st3, MDelimOk rest data_len)
      | _ => (st3, MDelimFault)
      end
    | _ => (st3, MDelimErr)
    end
  | _ => (st, MDelimFault)
  end.

(* ---- parseRawData: the units are sub-slices of the raw data buffer ---- *)

Fixpoint parse_raw_data_mem (g : nat -> nat -> nat) (fuel : nat) (raw : slice) : M (list slice) :=
  fun st =>
  match fuel with
  | O => (st, Err)
  | S f =>
    match parse_delimiter_mem g raw st with
    | (st1, MDelimIncomplete) => (st1, Ok [])
    | (st1, MDelimErr) => (st1, Err)
    | (st1, MDelimFault) => (st1, Fault)
    | (st1, MDelimOk actual unit_len) =>
      if N.eqb unit_len 0 then (st1, Ok [])
      else if N.ltb (N.of_nat (sl_len actual)) unit_len then (st1, Ok [])
      else
        let k := N.to_nat unit_len in
        match mslice2 actual k (sl_len actual), mslice2 actual 0 k with
        | Ok rest, Ok unit =>
          (mdo us <- parse_raw_data_mem g f rest; mret (unit :: us)) st1
        | _, _ => (st1, Fault)
        end
    end
  end.

(* ---- parseCompactShares / ParseTxs ---- *)

Definition parse_txs_mem (g : nat -> nat -> nat) (views : list slice) : M (list bytes) :=
  match views with
  | [] => mret []
  | _ =>
    mdo shs <- mmap mread views;
    if negb (forallb (fun s => N.eqb (sh_version s) 0) shs) then mlift Err else
    mdo raw <- extract_raw_data_mem g false views nil_slice;
    mdo units <- parse_raw_data_mem g (S (sl_len raw)) raw;
    mmap mread units
  end.

(* ---- observation helpers (used by the runner and by the theorems) ---- *)

(* index of the first byte at which two byte strings differ *)
Fixpoint first_diff (i : nat) (a b : bytes) : option nat :=
  match a, b with
  | [], [] => None
  | x :: a', y :: b' => if byte_eqb x y then first_diff (S i) a' b' else Some i
  | _, _ => Some i
  end.

(* shares laid out as views arena[off : off+512 : off+cap] of block 0 *)
Definition arena_view (oc : nat * nat) : slice := mk_slice 0 (fst oc) 512 (snd oc).

(* a common growth policy for running the model: double, at least what is needed *)
Definition grow_double (old needed : nat) : nat := 2 * old.

(* ParseBlobs on views of one arena: (first modified arena offset, result, log) *)
Definition mem_parse_blobs_run (copy_first : bool) (arena : bytes) (views : list (nat * nat))
  : option nat * outcome (list blob) * list access :=
  let '(st, res) := parse_blobs_gen grow_double copy_first (map arena_view views) (mk_st [arena] []) in
  (first_diff 0 arena (hblock (st_heap st) 0), res, st_log st).

Definition mem_parse_txs_run (arena : bytes) (views : list (nat * nat))
  : option nat * outcome (list bytes) * list access :=
  let '(st, res) := parse_txs_mem grow_double (map arena_view views) (mk_st [arena] []) in
  (first_diff 0 arena (hblock (st_heap st) 0), res, st_log st).

(* does the log contain a write to a block below [n0]? *)
Definition log_writes_below (n0 : nat) (log : list access) : bool :=
  existsb (fun a => match a_kind a with AW => Nat.ltb (a_blk a) n0 | AR => false end) log.
