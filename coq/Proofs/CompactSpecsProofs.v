(* The two closed forms of a compact share sequence are the same function:
   ShareSpec.compact_spec (walks the stream with an offset and the list of unit
   starts, dropping the starts it has passed) and CompactSpec.compact_spec_ix
   (share j is a function of the stream, the unit starts and j).  No hypothesis
   on the namespace, the version or the transactions is needed; in particular the
   unit starts need not be sorted: [drop_lt] only ever drops a prefix of starts
   that lie before the current offset, and the offsets only grow. *)
From Coq Require Import List Arith NArith Lia Bool.
From Coq Require Import ZifyN ZifyNat ZifyBool.
From GS.Model Require Import Base Varint Namespace ShareFmt.
From GS.Spec Require Import ShareSpec CompactSpec.
From GS.Proofs Require Import BaseLemmas CompactWriterProofs.
Import ListNotations.
Open Scope nat_scope.

(* ---------- unit starts: N version = nat version ---------- *)
Lemma starts_from_ustarts us : forall off,
  starts_from (N.of_nat off) us = map N.of_nat (ustarts off us).
Proof.
  induction us as [|u tl IH]; intros off; [reflexivity|].
  cbn [starts_from ustarts map]. f_equal.
  unfold lenN. rewrite <- Nat2N.inj_add. apply IH.
Qed.

(* ---------- drop_lt ---------- *)
(* the head of what [drop_lt] keeps is the first start at or after the offset *)
Lemma drop_lt_find c sts :
  match drop_lt (N.of_nat c) (map N.of_nat sts) with u :: _ => Some u | [] => None end =
  option_map N.of_nat (find (fun u => Nat.leb c u) sts).
Proof.
  induction sts as [|x tl IH]; [reflexivity|].
  cbn [map drop_lt find].
  destruct (N.of_nat x <? N.of_nat c)%N eqn:E.
  - replace (Nat.leb c x) with false by lia. exact IH.
  - replace (Nat.leb c x) with true by lia. reflexivity.
Qed.

(* dropping cumulatively at growing offsets = dropping once at the last offset *)
Lemma drop_lt_twice a b l : (a <= b)%N -> drop_lt b (drop_lt a l) = drop_lt b l.
Proof.
  intros Hab. induction l as [|x tl IH]; [reflexivity|].
  cbn [drop_lt]. destruct (x <? a)%N eqn:E.
  - replace (x <? b)%N with true by lia. exact IH.
  - reflexivity.
Qed.

(* ---------- offsets and share count ---------- *)
Lemma coff_le i j : i <= j -> coff i <= coff j.
Proof. intros H. destruct i as [|i]; destruct j as [|j]; cbn [coff]; lia. Qed.

Lemma cneeded_gt n j : coff j < n -> j < cneeded n.
Proof.
  intros H. destruct (Nat.lt_ge_cases j (cneeded n)) as [Hlt|Hge]; [exact Hlt|].
  pose proof (cneeded_holds n). pose proof (coff_le _ _ Hge). lia.
Qed.

Lemma skipn_nil_length {A} n (l : list A) : skipn n l = [] -> length l <= n.
Proof. intros H. apply (f_equal (@length A)) in H. rewrite skipn_length in H. cbn [length] in H. lia. Qed.

Lemma skipn_not_nil {A} n (l : list A) : n < length l -> skipn n l <> [].
Proof. intros H E. apply skipn_nil_length in E. lia. Qed.

Lemma skipn_plus {A} : forall b a (l : list A), skipn a (skipn b l) = skipn (b + a) l.
Proof.
  induction b as [|b IH]; intros a l; [rewrite skipn_O; reflexivity|].
  destruct l as [|x l]; [rewrite !skipn_nil; reflexivity|].
  cbn [Nat.add]. rewrite !skipn_cons. apply IH.
Qed.

(* ---------- one step of the walk, in the vocabulary of the indexed form ---------- *)
Lemma compact_go_step f ns ver total j rest l : rest <> [] ->
  compact_go (S f) ns ver total (Nat.eqb j 0) (N.of_nat (coff j)) rest l =
  (ns ++ [info_of ver (Nat.eqb j 0)] ++ (if Nat.eqb j 0 then be32 total else [])
      ++ be32 (match drop_lt (N.of_nat (coff j)) l with
               | u :: _ => if (u <? N.of_nat (coff j) + lenN (firstn (ccap j) rest))%N
                           then (N.of_nat (chdr j) + (u - N.of_nat (coff j)))%N else 0%N
               | [] => 0%N
               end)
      ++ pad_to (ccap j) (firstn (ccap j) rest))
  :: compact_go f ns ver total false (N.of_nat (coff (S j))) (skipn (ccap j) rest)
       (drop_lt (N.of_nat (coff j)) l).
Proof.
  intros Hne. rewrite coff_S, Nat2N.inj_add.
  destruct rest as [|b rest]; [congruence|].
  destruct j as [|k]; reflexivity.
Qed.

(* reserved bytes of share j: the walk's value is the indexed form's value *)
Lemma res_agree j s sts :
  match drop_lt (N.of_nat (coff j)) (map N.of_nat sts) with
  | u :: _ => if (u <? N.of_nat (coff j) + lenN (cchunk j s))%N
              then (N.of_nat (chdr j) + (u - N.of_nat (coff j)))%N else 0%N
  | [] => 0%N
  end = N.of_nat (cres j s sts).
Proof.
  pose proof (drop_lt_find (coff j) sts) as H. unfold cres, lenN.
  destruct (drop_lt (N.of_nat (coff j)) (map N.of_nat sts)) as [|u tl];
    destruct (find (fun u => Nat.leb (coff j) u) sts) as [v|] eqn:E; cbn [option_map] in H;
    try discriminate; [reflexivity|].
  injection H as ->. apply find_some in E. destruct E as [_ Hle].
  destruct (Nat.ltb v (coff j + length (cchunk j s))) eqn:E1.
  - replace (N.of_nat v <? N.of_nat (coff j) + N.of_nat (length (cchunk j s)))%N with true by lia. lia.
  - replace (N.of_nat v <? N.of_nat (coff j) + N.of_nat (length (cchunk j s)))%N with false by lia. lia.
Qed.

(* ---------- the walk from share j on = the indexed shares j, j+1, ... ---------- *)
Lemma compact_go_ix ns ver total s sts : forall fuel j l,
  length s - coff j <= fuel ->
  drop_lt (N.of_nat (coff j)) l = drop_lt (N.of_nat (coff j)) (map N.of_nat sts) ->
  compact_go fuel ns ver total (Nat.eqb j 0) (N.of_nat (coff j)) (skipn (coff j) s) l =
  map (fun i => cshare ns ver total i s sts) (seq j (cneeded (length s) - j)).
Proof.
  induction fuel as [|f IH]; intros j l Hfuel Hl.
  - assert (Hn : cneeded (length s) <= j) by (apply cneeded_least; lia).
    replace (cneeded (length s) - j) with 0 by lia. reflexivity.
  - destruct (Nat.le_gt_cases (length s) (coff j)) as [Hle|Hgt].
    + rewrite skipn_all2 by exact Hle.
      assert (Hn : cneeded (length s) <= j) by (apply cneeded_least; exact Hle).
      replace (cneeded (length s) - j) with 0 by lia. reflexivity.
    + rewrite compact_go_step by (apply skipn_not_nil; exact Hgt).
      pose proof (cneeded_gt _ _ Hgt) as Hj.
      replace (cneeded (length s) - j) with (S (cneeded (length s) - S j)) by lia.
      cbn [seq map]. f_equal.
      * unfold cshare. fold (cchunk j s). rewrite Hl, res_agree. reflexivity.
      * rewrite skipn_plus, <- coff_S.
        change false with (Nat.eqb (S j) 0). apply IH.
        -- rewrite coff_S. pose proof (ccap_bounds j). lia.
        -- rewrite Hl. apply drop_lt_twice. pose proof (coff_le j (S j)). lia.
Qed.

Theorem compact_specs_agree : forall ns ver txs,
  compact_spec ns ver txs = compact_spec_ix ns ver txs.
Proof.
  intros ns ver txs. unfold compact_spec, compact_spec_ix.
  change 0%N with (N.of_nat 0). rewrite starts_from_ustarts.
  pose proof (compact_go_ix ns ver (u32 (lenN (stream txs))) (stream txs)
                (ustarts 0 (units txs)) (length (stream txs)) 0
                (map N.of_nat (ustarts 0 (units txs)))) as H.
  cbn [coff Nat.eqb] in H. rewrite skipn_O, !Nat.sub_0_r in H.
  apply H; [lia|reflexivity].
Qed.
