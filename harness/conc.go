package main

// Concurrent replay (all properties).
//
// Every property quantifies over all inputs of pure functions; the Coq model is a
// pure function, so the correspondence also has to show that the implementation
// behaves as a function of its arguments when several calls are in flight.  After
// the sequential run (whose results are compared with the model by bin/check),
// `harness conc <outdir> <seconds>` re-executes the same cases from cases.txt in 8
// goroutines working on *distinct* cases at the same time and compares each result
// with the sequential one in impl.txt.  runProperty executes the sibling binary
// harness_race (the same program built with -race) for this, so that a
// package-level scratch buffer, cache or hasher shared between calls is reported
// by the race detector (which works on happens-before, not on timing) even when
// the run happens not to produce a wrong result.

import (
	"bufio"
	"context"
	"fmt"
	"os"
	"os/exec"
	"path/filepath"
	"regexp"
	"strconv"
	"strings"
	"sync"
	"sync/atomic"
	"time"
)

const concGoroutines = 8

func init() {
	extraCommands["conc"] = concCommand
}

// quietExec is safeExec without the lastPanic side channel (goroutine-safe).
func quietExec(op string, a []string) (res string) {
	defer func() {
		if r := recover(); r != nil {
			if s, ok := r.(string); ok && strings.HasPrefix(s, "harness") {
				panic(r)
			}
			res = "fault"
		}
	}()
	return execOp(op, a)
}

func readLines(path string) ([]string, error) {
	f, err := os.Open(path)
	if err != nil {
		return nil, err
	}
	defer f.Close()
	sc := bufio.NewScanner(f)
	sc.Buffer(make([]byte, 1<<20), 1<<30)
	var out []string
	for sc.Scan() {
		out = append(out, sc.Text())
	}
	return out, sc.Err()
}

// concCommand: `harness conc <outdir> <seconds>`.  Exit status 0 = every concurrent
// result equals the sequential one, 3 = some result differs; under -race the
// runtime additionally prints WARNING: DATA RACE and exits with status 66.
func concCommand(args []string) int {
	if len(args) < 2 {
		fmt.Fprintln(os.Stderr, "usage: harness conc <outdir> <seconds>")
		return 2
	}
	secs, _ := strconv.Atoi(args[1])
	cases, err := readLines(filepath.Join(args[0], "cases.txt"))
	if err != nil {
		fmt.Fprintln(os.Stderr, err)
		return 2
	}
	impl, err := readLines(filepath.Join(args[0], "impl.txt"))
	if err != nil || len(impl) != len(cases) {
		fmt.Fprintln(os.Stderr, "impl.txt does not match cases.txt")
		return 2
	}
	n := len(cases)
	if n == 0 {
		fmt.Printf("CONC race_instrumented=%v cases=0 runs=0 goroutines=%d mismatches=0 seconds=0.0\n", raceEnabled, concGoroutines)
		return 0
	}
	// a fixed permutation (stride coprime to n) so that a short budget still visits
	// every generator family, and neighbours in time have different shapes
	stride := 7919
	for n%stride == 0 || gcd(stride, n) != 1 {
		stride++
	}
	order := make([]int, n)
	for i := range order {
		order[i] = (i * stride) % n
	}
	deadline := time.Now().Add(time.Duration(secs) * time.Second)
	start := time.Now()
	var runs, mismatches int64
	var mu sync.Mutex
	reported := map[string]bool{}
	var wg sync.WaitGroup
	for g := 0; g < concGoroutines; g++ {
		wg.Add(1)
		go func(g int) {
			defer wg.Done()
			// pass p: goroutine g takes the cases at positions = (g+p) mod G of the
			// permutation, so that over the passes every case is run by several
			// goroutines and next to different neighbours
			for p := 0; p < concGoroutines; p++ {
				for i := (g + p) % concGoroutines; i < n; i += concGoroutines {
					if time.Now().After(deadline) {
						return
					}
					k := order[i]
					parts := strings.Split(cases[k], "\t")
					if len(parts) < 2 {
						continue
					}
					res := quietExec(parts[1], parts[2:])
					atomic.AddInt64(&runs, 1)
					want := impl[k]
					if t := strings.IndexByte(want, '\t'); t >= 0 {
						want = want[t+1:]
					}
					if res != want {
						atomic.AddInt64(&mismatches, 1)
						mu.Lock()
						if !reported[parts[0]] && len(reported) < 10 {
							reported[parts[0]] = true
							fmt.Printf("MISMATCH id=%s op=%s index=%d\n", parts[0], parts[1], k)
						}
						mu.Unlock()
					}
				}
			}
		}(g)
	}
	wg.Wait()
	fmt.Printf("CONC race_instrumented=%v cases=%d runs=%d goroutines=%d mismatches=%d seconds=%.1f\n",
		raceEnabled, n, runs, concGoroutines, mismatches, time.Since(start).Seconds())
	if mismatches > 0 {
		return 3
	}
	return 0
}

func gcd(a, b int) int {
	for b != 0 {
		a, b = b, a%b
	}
	return a
}

// runConcSibling is called by runProperty after cases.txt / impl.txt are written.
func runConcSibling(c *Ctx, outdir string) {
	if os.Getenv("VERIF_NO_CONC") == "1" || len(c.cases) == 0 {
		return
	}
	exe, err := os.Executable()
	if err != nil {
		c.count("conc:binary-missing")
		return
	}
	sib := filepath.Join(filepath.Dir(exe), "harness_race")
	st, err := os.Stat(sib)
	if err != nil || st.IsDir() || filepath.Base(exe) == "harness_race" {
		c.count("conc:binary-missing")
		return
	}
	secs := 5
	if c.tier == "thorough" {
		secs = 60
	}
	cctx, cancel := context.WithTimeout(context.Background(), time.Duration(secs*4+60)*time.Second)
	defer cancel()
	cmd := exec.CommandContext(cctx, sib, "conc", outdir, strconv.Itoa(secs))
	cmd.Env = append(os.Environ(), "GORACE=halt_on_error=0 exitcode=66")
	outB, runErr := cmd.CombinedOutput()
	out := string(outB)
	status := 0
	if runErr != nil {
		status = -1
		if ee, ok := runErr.(*exec.ExitError); ok {
			status = ee.ExitCode()
		}
	}
	c.count("conc:sibling_runs")
	if m := regexp.MustCompile(`CONC race_instrumented=(\w+) cases=(\d+) runs=(\d+) goroutines=(\d+)`).FindStringSubmatch(out); m != nil {
		if m[1] != "true" {
			c.count("conc:not-instrumented")
		}
		c.dist["conc:case_runs"] += atoi(m[3])
		c.dist["conc:goroutines"] = atoi(m[4])
	}
	raced := strings.Contains(out, "WARNING: DATA RACE") || status == 66
	seen := 0
	for _, line := range strings.Split(out, "\n") {
		if !strings.HasPrefix(line, "MISMATCH id=") {
			continue
		}
		f := strings.Fields(line)
		var cid, op string
		idx := -1
		for _, w := range f {
			switch {
			case strings.HasPrefix(w, "id="):
				cid = w[3:]
			case strings.HasPrefix(w, "op="):
				op = w[3:]
			case strings.HasPrefix(w, "index="):
				idx = atoi(w[6:])
			}
		}
		if seen < 3 && idx >= 0 && idx < len(c.cases) {
			seen++
			c.oracleN++
			line := c.cases[idx].Line()
			if len(line) > 200000 {
				line = line[:200000]
			}
			if len(c.findings) < 50 {
				c.findings = append(c.findings, Finding{Property: c.prop, Site: "concurrent:" + op,
					What:     "the call returns a different result when other calls (on other inputs) run at the same time in 8 goroutines than when it runs alone",
					Witness:  map[string]any{"op": op, "case": cid, "schedule": "harness_race conc (8 goroutines over the cases of this run)"},
					CaseLine: line})
			}
		}
	}
	c.check(!raced, "race detector", "data race between concurrent calls on distinct inputs (the implementation is not a function of its arguments)",
		map[string]any{"functions": raceReportOps(out), "schedule": "harness_race conc (8 goroutines over the cases of this run)"})
	if !raced && seen == 0 {
		first := ""
		if status != 0 {
			for _, line := range strings.Split(out, "\n") {
				if strings.HasPrefix(line, "panic:") || strings.HasPrefix(line, "fatal error:") {
					first = line
					break
				}
			}
		}
		c.check(status == 0, "concurrent replay", "the concurrent run did not complete", map[string]any{"exit_status": status, "first_line": first})
	}
}
