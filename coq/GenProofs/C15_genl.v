(* C15, code level, the functions that use slices: the Go bodies of MerkleMountainRangeSizes,
   BlobSharesUsedNonInteractiveDefaults and worstCaseShareIndexes, as regenerated from /repo by
   go2coq into the GoLiteL embedding (Gen/Generated.v, gen_program_l; semantics Model/GoLiteL.v),
   compute the model functions Arith.mmr_sizes, Arith.blob_shares_used and
   Builder.worst_case_share_indexes.
   Statements only; every proof is `exact` of a lemma of GenProofs/GenSliceProofs.v.
   gen_call_l fuel f targ args runs function f of the generated program; arguments and results
   are VZ z (a scalar) or VL l (a slice: the list of its elements); Val = returned values,
   Flt = Go panic, Fuel = did not finish within fuel. *)
From Coq Require Import ZArith NArith List String.
From GS.Model Require Import Base Arith Builder GoLite GoLiteL.
From GS.Gen Require Import Generated.
From GS.GenProofs Require Import GenLink GenLinkL GenSliceProofs.
Open Scope string_scope.
Open Scope list_scope.
Open Scope Z_scope.

(* ---------- MerkleMountainRangeSizes(totalSize, maxTreeSize uint64) ([]uint64, error) ----------
   Model and code agree for EVERY maxTreeSize >= 1 (a power of two is not needed); the loop takes
   totalSize / maxTreeSize + (at most 64) iterations, which is what the fuel must cover. *)

Theorem gen_mmr_sizes : forall fuel total max,
  0 <= total < 2 ^ 62 -> 1 <= max < 2 ^ 64 -> (Z.to_nat (total / max) + 80 <= fuel)%nat ->
  gen_call_l fuel "inclusion.MerkleMountainRangeSizes" I64 [VZ total; VZ max] =
  Val [VL (map Z.of_N (mmr_sizes (Z.to_N total) (Z.to_N max))); VZ 0].
Proof. exact gen_mmr_sizes_lemma. Qed.
Print Assumptions gen_mmr_sizes.

(* ---------- BlobSharesUsedNonInteractiveDefaults(cursor, subtreeRootThreshold int, blobShareLens ...int)
   (sharesUsed int, indexes []uint32) ----------
   The end cursor (cursor + shares used) must stay within 2^62 (no int wrap-around); every length
   within the range in which the external BlobMinSquareSize is validated.  The indexes are
   converted to uint32 in the code, [u32] in the model. *)

Theorem gen_blob_shares_used : forall fuel c t lens,
  (73 <= fuel)%nat -> 0 <= c -> 1 <= t -> Forall (fun x => 0 <= x <= 2 ^ 52) lens ->
  c + Z.of_N (fst (blob_shares_used (Z.to_N c) (Z.to_N t) (map Z.to_N lens))) <= 2 ^ 62 ->
  gen_call_l fuel "inclusion.BlobSharesUsedNonInteractiveDefaults" I64 [VZ c; VZ t; VL lens] =
  Val [VZ (Z.of_N (fst (blob_shares_used (Z.to_N c) (Z.to_N t) (map Z.to_N lens))));
       VL (map Z.of_N (snd (blob_shares_used (Z.to_N c) (Z.to_N t) (map Z.to_N lens))))].
Proof. exact gen_blob_shares_used_lemma. Qed.
Print Assumptions gen_blob_shares_used.

(* ---------- worstCaseShareIndexes(blobs int) []uint32 ---------- *)

Theorem gen_worst_case_share_indexes : forall fuel n,
  (1 <= fuel)%nat -> 0 <= n ->
  gen_call_l fuel "square.worstCaseShareIndexes" I64 [VZ n] =
  Val [VL (map Z.of_N (worst_case_share_indexes (Z.to_nat n)))].
Proof. exact gen_worst_case_lemma. Qed.
Print Assumptions gen_worst_case_share_indexes.

(* ---------- edge cases and the explicit-range form, bundled into one statement ---------- *)

Theorem gen_slice_edge_cases :
  (* MerkleMountainRangeSizes: maxTreeSize = 0 with something to split never returns, whatever the fuel *)
  (forall fuel total, 0 < total < 2 ^ 64 ->
     gen_call_l fuel "inclusion.MerkleMountainRangeSizes" I64 [VZ total; VZ 0] = Fuel) /\
  (* totalSize = 0: the empty list, for every maxTreeSize (also 0) *)
  (forall fuel max, (1 <= fuel)%nat ->
     gen_call_l fuel "inclusion.MerkleMountainRangeSizes" I64 [VZ 0; VZ max] = Val [VL []; VZ 0]) /\
  (* worstCaseShareIndexes: make with a negative length panics *)
  (forall fuel n, (1 <= fuel)%nat -> n < 0 ->
     gen_call_l fuel "square.worstCaseShareIndexes" I64 [VZ n] = Flt) /\
  (* BlobSharesUsedNonInteractiveDefaults: threshold 0 and at least one blob: integer divide by zero *)
  (forall fuel c a lens, (3 <= fuel)%nat ->
     gen_call_l fuel "inclusion.BlobSharesUsedNonInteractiveDefaults" I64 [VZ c; VZ 0; VL (a :: lens)] = Flt) /\
  (* explicit ranges for BlobSharesUsedNonInteractiveDefaults *)
  (forall fuel c t lens,
     (73 <= fuel)%nat -> 0 <= c <= 2 ^ 60 -> 1 <= t -> Forall (fun x => 0 <= x <= 2 ^ 40) lens ->
     Z.of_nat (length lens) <= 2 ^ 20 ->
     gen_call_l fuel "inclusion.BlobSharesUsedNonInteractiveDefaults" I64 [VZ c; VZ t; VL lens] =
     Val [VZ (Z.of_N (fst (blob_shares_used (Z.to_N c) (Z.to_N t) (map Z.to_N lens))));
          VL (map Z.of_N (snd (blob_shares_used (Z.to_N c) (Z.to_N t) (map Z.to_N lens))))]).
Proof. exact gen_slice_edge_cases_lemma. Qed.
Print Assumptions gen_slice_edge_cases.

(* ---------- concrete instances (non-vacuity; the generated terms really run) ---------- *)

Example ex_mmr :
  gen_call_l 90 "inclusion.MerkleMountainRangeSizes" I64 [VZ 11; VZ 4] = Val [VL [4; 4; 2; 1]; VZ 0] /\
  mmr_sizes 11 4 = [4; 4; 2; 1]%N /\
  (* maxTreeSize need not be a power of two *)
  gen_call_l 90 "inclusion.MerkleMountainRangeSizes" I64 [VZ 29; VZ 3] = Val [VL [3; 3; 3; 3; 3; 3; 3; 3; 3; 2]; VZ 0] /\
  map Z.of_N (mmr_sizes 29 3) = [3; 3; 3; 3; 3; 3; 3; 3; 3; 2] /\
  gen_call_l 90 "inclusion.MerkleMountainRangeSizes" I64 [VZ (2 ^ 62 - 1); VZ (2 ^ 63)] =
    Val [VL (map Z.of_N (mmr_sizes (2 ^ 62 - 1) (2 ^ 63))); VZ 0] /\
  length (mmr_sizes (2 ^ 62 - 1) (2 ^ 63)) = 62%nat /\
  gen_call_l 500 "inclusion.MerkleMountainRangeSizes" I64 [VZ 5; VZ 0] = Fuel /\
  gen_call_l 90 "inclusion.MerkleMountainRangeSizes" I64 [VZ 0; VZ 0] = Val [VL []; VZ 0].
Proof. vm_compute. repeat split; reflexivity. Qed.

Example ex_blob_shares_used :
  gen_call_l 73 "inclusion.BlobSharesUsedNonInteractiveDefaults" I64 [VZ 3; VZ 64; VL [5; 200; 17]] =
    Val [VZ 222; VL [3; 8; 208]] /\
  blob_shares_used 3 64 [5; 200; 17]%N = (222, [3; 8; 208])%N /\
  (* an index beyond 2^32 is truncated by the uint32 conversion, in the code and in the model *)
  gen_call_l 73 "inclusion.BlobSharesUsedNonInteractiveDefaults" I64 [VZ (2 ^ 32 + 5); VZ 64; VL [1; 1]] =
    Val [VZ 2; VL [5; 6]] /\
  blob_shares_used (2 ^ 32 + 5) 64 [1; 1]%N = (2, [5; 6])%N /\
  gen_call_l 73 "inclusion.BlobSharesUsedNonInteractiveDefaults" I64 [VZ 7; VZ 64; VL []] = Val [VZ 0; VL []] /\
  gen_call_l 73 "inclusion.BlobSharesUsedNonInteractiveDefaults" I64 [VZ 7; VZ 0; VL [1]] = Flt.
Proof. vm_compute. repeat split; reflexivity. Qed.

Example ex_worst_case :
  gen_call_l 1 "square.worstCaseShareIndexes" I64 [VZ 3] = Val [VL [16384; 16384; 16384]] /\
  worst_case_share_indexes 3 = [16384; 16384; 16384]%N /\
  gen_call_l 1 "square.worstCaseShareIndexes" I64 [VZ 0] = Val [VL []] /\
  gen_call_l 1 "square.worstCaseShareIndexes" I64 [VZ (-1)] = Flt.
Proof. vm_compute. repeat split; reflexivity. Qed.
