(* C20 (code model), second half - sequence parsing tiles every constructed square.
   Statements only; proofs in Proofs/EndToEndProofs.v.

   End-to-end statement about the code model, by C07 refinement + layout_tiled
   (layout_tiling / layout_sequences / layout_payloads): [construct] / [build] are the
   models of square.Construct / square.Build, [parse_shares] of share.ParseShares,
   [sequence_raw_data] of Sequence.RawData, [wrapped_pfbs] of Square.WrappedPFBs.
   C20_tiling.v states the three items for the rule-based layout; here they are stated for
   every square Construct / Build return.

   Conditions H: threshold >= 1; maximum side <= 1024; every blob of every decodable blob
   transaction of the input acceptable, data + signer below 4 GiB (c07_raws_ok). *)
From Coq Require Import List NArith ZArith Sorted Permutation.
From GS.Model Require Import Base Namespace ShareFmt Blob Proto Builder Square.
From GS.Spec Require Import ShareSpec CompactSpec LayoutSpec.
From GS.Proofs Require Import SparseProofs ArithProofs LayoutShapeProofs TilingProofs
  RefinementProofs1 RefinementProofs3 EndToEndProofs.
Import ListNotations.
Open Scope N_scope.

(* Item 1 alone, no reference to the input: parsing succeeds, the sequences concatenated in
   order are the square, every sequence starts with a sequence-start share followed by
   non-start shares, carries one namespace, and is a padding sequence of one share or has
   the number of shares its first share declares *)
Theorem C20_code_construct_tiles : forall raws max thr sq,
  1 <= thr -> (max <= 1024)%Z -> c07_raws_ok raws ->
  construct raws max thr = Ok sq ->
  exists seqs, parse_shares sq false = Ok seqs /\ concat (map sq_shares seqs) = sq /\
    Forall (fun q => exists f rest, sq_shares q = f :: rest /\ sh_start f = true /\
              Forall (fun s => sh_start s = false) rest /\
              Forall (fun s => sh_ns s = sq_ns q) (sq_shares q) /\
              ((seq_is_padding q = true /\ rest = []) \/
               (seq_is_padding q = false /\ number_of_shares_needed f = Ok (lenN (sq_shares q))))) seqs.
Proof. exact construct_parse_tiles. Qed.
Print Assumptions C20_code_construct_tiles.

Theorem C20_code_build_tiles : forall raws max thr sq kept,
  1 <= thr -> (max <= 1024)%Z -> c07_raws_ok raws ->
  build raws max thr = Ok (sq, kept) ->
  exists seqs, parse_shares sq false = Ok seqs /\ concat (map sq_shares seqs) = sq /\
    Forall (fun q => exists f rest, sq_shares q = f :: rest /\ sh_start f = true /\
              Forall (fun s => sh_start s = false) rest /\
              Forall (fun s => sh_ns s = sq_ns q) (sq_shares q) /\
              ((seq_is_padding q = true /\ rest = []) \/
               (seq_is_padding q = false /\ number_of_shares_needed f = Ok (lenN (sq_shares q))))) seqs.
Proof. exact build_parse_tiles. Qed.
Print Assumptions C20_code_build_tiles.

(* Items 1-3 ([square_tiled], C20_tiling.v) for the lists the input splits into / Build keeps *)
Theorem C20_code_construct_tiled : forall raws max thr sq,
  1 <= thr -> (max <= 1024)%Z -> c07_raws_ok raws ->
  construct raws max thr = Ok sq ->
  exists normals btxs, split_ordered false raws [] [] = Some (normals, btxs) /\
    square_tiled thr normals btxs sq.
Proof. exact construct_tiled. Qed.
Print Assumptions C20_code_construct_tiled.

Theorem C20_code_build_tiled : forall raws max thr sq kept,
  1 <= thr -> (max <= 1024)%Z -> c07_raws_ok raws ->
  build raws max thr = Ok (sq, kept) ->
  exists normals btxs, keep (Z.to_N max * Z.to_N max) thr raws [] [] [] [] = Some (normals, btxs, kept) /\
    square_tiled thr normals btxs sq.
Proof. exact build_tiled. Qed.
Print Assumptions C20_code_build_tiled.

(* Items 1-3 spelled out, the pay-for-blob sequence being the one Square.WrappedPFBs reads
   from the square: with padding ignored ParseShares yields precisely the transaction
   sequence (iff there are ordinary transactions), the pay-for-blob sequence (iff there are
   blob transactions) and one sequence per blob in square order - a namespace-sorted
   permutation of the input's blobs - and the payloads are the stream of length-prefixed
   transactions, the stream of length-prefixed wrapped PFBs, and each blob's data *)
Theorem C20_code_construct_sequences : forall raws max thr sq,
  1 <= thr -> (max <= 1024)%Z -> c07_raws_ok raws ->
  construct raws max thr = Ok sq ->
  exists normals btxs, split_ordered false raws [] [] = Some (normals, btxs) /\
    square_sequences normals btxs sq.
Proof. exact construct_sequences. Qed.
Print Assumptions C20_code_construct_sequences.

Theorem C20_code_build_sequences : forall raws max thr sq kept,
  1 <= thr -> (max <= 1024)%Z -> c07_raws_ok raws ->
  build raws max thr = Ok (sq, kept) ->
  exists normals btxs, keep (Z.to_N max * Z.to_N max) thr raws [] [] [] [] = Some (normals, btxs, kept) /\
    square_sequences normals btxs sq.
Proof. exact build_sequences. Qed.
Print Assumptions C20_code_build_sequences.

Theorem C20_code_square_sequences_unfolded : forall normals btxs sq,
  square_sequences normals btxs sq <->
  exists ws seqs,
    wrapped_pfbs sq = Ok ws /\ length ws = length btxs /\
    parse_shares sq false = Ok seqs /\ concat (map sq_shares seqs) = sq /\ Forall seq_tile_ok seqs /\
    let bs := square_blobs btxs in
    parse_shares sq true =
      Ok (opt_seq normals (mk_seq tx_ns (compact_spec_ix tx_ns 0 normals))
          ++ opt_seq btxs (mk_seq pfb_ns (compact_spec_ix pfb_ns 0 ws))
          ++ map (fun b => mk_seq (b_ns b) (blob_spec b)) bs) /\
    Permutation bs (concat (map btx_blobs btxs)) /\ StronglySorted blob_le bs /\
    (normals <> [] -> sequence_raw_data (mk_seq tx_ns (compact_spec_ix tx_ns 0 normals)) = Ok (stream normals)) /\
    (btxs <> [] -> sequence_raw_data (mk_seq pfb_ns (compact_spec_ix pfb_ns 0 ws)) = Ok (stream ws)) /\
    Forall (fun b => sequence_raw_data (mk_seq (b_ns b) (blob_spec b)) = Ok (b_data b)) bs.
Proof. exact (fun normals btxs sq => iff_refl _). Qed.
Print Assumptions C20_code_square_sequences_unfolded.

(* ---- non-vacuity ---- *)
(* ex_raws (C07.v), maximum 4, threshold 1: the hypotheses hold and Construct succeeds *)
Example C20_code_example_hyps :
  1 <= 1 /\ (4 <= 1024)%Z /\ c07_raws_ok ex_raws /\ is_ok (construct ex_raws 4 1) = true.
Proof. destruct e2e_ex_hyps as (H1 & H2 & H3 & H4 & _). repeat split; assumption. Qed.

Example C20_code_example_tiled :
  exists sq, construct ex_raws 4 1 = Ok sq /\ square_tiled 1 ex_normals [ex_btx1; ex_btx2] sq.
Proof. destruct e2e_ex_shape as (sq & H1 & _ & H2). exists sq. split; assumption. Qed.

Definition seq_summary_code (o : outcome (list sequence)) : option (list (namespace * nat * bool)) :=
  match o with
  | Ok l => Some (map (fun q => (sq_ns q, length (sq_shares q), seq_is_padding q)) l)
  | _ => None
  end.

(* by evaluation of the models: (namespace, share count, padding flag) of every sequence of
   the constructed square, and the data sequences with their payloads *)
Example C20_code_example_computed :
  match construct ex_raws 4 1 with
  | Ok sq =>
    seq_summary_code (parse_shares sq false) =
      Some [(tx_ns, 1%nat, false); (pfb_ns, 1%nat, false);
            (ex_ns Byte.x01, 2%nat, false); (ex_ns Byte.x01, 2%nat, false);
            (ex_ns Byte.x01, 1%nat, true); (ex_ns Byte.x01, 1%nat, true);
            (ex_ns Byte.x02, 5%nat, false);
            (tail_padding_ns, 1%nat, true); (tail_padding_ns, 1%nat, true); (tail_padding_ns, 1%nat, true)] /\
    match parse_shares sq true, wrapped_pfbs sq with
    | Ok [t; p; b1; b2; b3], Ok ws =>
      sequence_raw_data t = Ok (stream ex_normals) /\ sequence_raw_data p = Ok (stream ws) /\
      sequence_raw_data b1 = Ok (b_data ex_blob_a) /\ sequence_raw_data b2 = Ok (b_data ex_blob_a) /\
      sequence_raw_data b3 = Ok (b_data ex_blob_b) /\ length ws = 2%nat
    | _, _ => False
    end
  | _ => False
  end.
Proof. vm_compute. repeat split; reflexivity. Qed.
