(* C18: namespace order, classification, constructors and AddInt. *)
From Coq Require Import List Arith NArith ZArith Lia Bool.
From Coq Require Import ZifyN ZifyNat ZifyBool.
From GS.Model Require Import Base Namespace ShareFmt.
From GS.Proofs Require Import BaseLemmas.
Import ListNotations.

Open Scope N_scope.

(* ---------- bytes_cmp is the lexicographic order ---------- *)

(* byte-wise lexicographic order, written as a relation: the first position at
   which the strings differ decides; a proper prefix is smaller *)
Inductive lex_lt : bytes -> bytes -> Prop :=
| lex_prefix : forall y b, lex_lt [] (y :: b)
| lex_head : forall x y a b, b2n x < b2n y -> lex_lt (x :: a) (y :: b)
| lex_tail : forall x a b, lex_lt a b -> lex_lt (x :: a) (x :: b).

Lemma bytes_cmp_refl a : bytes_cmp a a = Eq.
Proof. induction a as [|x a IH]; [reflexivity|]. cbn [bytes_cmp]. rewrite N.compare_refl. exact IH. Qed.

Lemma bytes_cmp_eq a : forall b, bytes_cmp a b = Eq <-> a = b.
Proof.
  induction a as [|x a IH]; intros [|y b]; cbn [bytes_cmp]; try (split; [discriminate|discriminate]); [tauto|].
  destruct (N.compare (b2n x) (b2n y)) eqn:E.
  - apply N.compare_eq in E. apply b2n_inj in E. subst y. rewrite IH. split; [intros ->; reflexivity|intros H; inversion H; reflexivity].
  - split; [discriminate|]. intros H. inversion H; subst. rewrite N.compare_refl in E. discriminate.
  - split; [discriminate|]. intros H. inversion H; subst. rewrite N.compare_refl in E. discriminate.
Qed.

Lemma bytes_cmp_antisym a : forall b, bytes_cmp b a = CompOpp (bytes_cmp a b).
Proof.
  induction a as [|x a IH]; intros [|y b]; cbn [bytes_cmp CompOpp]; try reflexivity.
  rewrite (N.compare_antisym (b2n x) (b2n y)).
  destruct (N.compare (b2n x) (b2n y)); cbn [CompOpp]; [apply IH|reflexivity|reflexivity].
Qed.

Lemma bytes_cmp_lt_lex a : forall b, bytes_cmp a b = Lt <-> lex_lt a b.
Proof.
  induction a as [|x a IH]; intros [|y b]; cbn [bytes_cmp].
  - split; [discriminate|intros H; inversion H].
  - split; [intros _; constructor|reflexivity].
  - split; [discriminate|intros H; inversion H].
  - destruct (N.compare (b2n x) (b2n y)) eqn:E.
    + apply N.compare_eq in E. apply b2n_inj in E. subst y. rewrite IH.
      split; [apply lex_tail|]. intros H. inversion H; subst; [lia|assumption].
    + apply N.compare_lt_iff in E. split; [intros _; apply lex_head; exact E|reflexivity].
    + apply N.compare_gt_iff in E. split; [discriminate|].
      intros H. inversion H; subst; lia.
Qed.

Lemma lex_lt_trans a : forall b c, lex_lt a b -> lex_lt b c -> lex_lt a c.
Proof.
  induction a as [|x a IH]; intros b c H1 H2.
  - inversion H1; subst. inversion H2; subst; constructor.
  - inversion H1; subst; inversion H2; subst.
    + apply lex_head. lia.
    + apply lex_head. assumption.
    + apply lex_head. assumption.
    + apply lex_tail. eapply IH; eassumption.
Qed.

Lemma bytes_cmp_trans a b c : bytes_cmp a b = Lt -> bytes_cmp b c = Lt -> bytes_cmp a c = Lt.
Proof. rewrite !bytes_cmp_lt_lex. apply lex_lt_trans. Qed.

(* totality: exactly one of <, =, > *)
Lemma bytes_cmp_total a b : bytes_cmp a b = Lt \/ a = b \/ bytes_cmp b a = Lt.
Proof.
  destruct (bytes_cmp a b) eqn:E.
  - right. left. apply bytes_cmp_eq. exact E.
  - left. reflexivity.
  - right. right. rewrite bytes_cmp_antisym, E. reflexivity.
Qed.

(* ---------- the comparison predicates are the derived relations ---------- *)
Theorem ns_predicates a b :
  (ns_equals a b = true <-> a = b) /\
  (ns_lt a b = true <-> lex_lt a b) /\
  (ns_le a b = true <-> (lex_lt a b \/ a = b)) /\
  (ns_gt a b = true <-> lex_lt b a) /\
  (ns_ge a b = true <-> (lex_lt b a \/ a = b)) /\
  (ns_compare a b = 0%Z <-> a = b) /\
  (ns_compare a b = (-1)%Z <-> lex_lt a b) /\
  (ns_compare a b = 1%Z <-> lex_lt b a).
Proof.
  unfold ns_equals, ns_lt, ns_le, ns_gt, ns_ge, ns_compare.
  rewrite <- !bytes_cmp_lt_lex, (bytes_cmp_antisym a b), <- (bytes_cmp_eq a b), bytes_eqb_eq.
  pose proof (bytes_cmp_eq a b) as He.
  destruct (bytes_cmp a b) eqn:E; cbn [CompOpp]; repeat split; intros; try discriminate; try reflexivity; try tauto;
    try (destruct H; discriminate); try (apply He; reflexivity); try (apply He in H; discriminate);
    try (left; reflexivity); try (right; reflexivity).
Qed.

(* ---------- classification ---------- *)
Definition ns29 (n : namespace) : Prop := length n = 29%nat.

Lemma cmp_first_byte x a y b : b2n x < b2n y -> bytes_cmp (x :: a) (y :: b) = Lt.
Proof. intros H. cbn [bytes_cmp]. apply N.compare_lt_iff in H. rewrite H. reflexivity. Qed.

(* ValidateForBlob accepts exactly the version-0 namespaces strictly above the
   primary reserved range *)
Theorem validate_for_blob_spec n : ns29 n ->
  (validate_for_blob n = true <-> ns_version n = 0 /\ lex_lt max_primary_reserved_ns n).
Proof.
  intros Hn. destruct n as [|v id]; [unfold ns29 in Hn; cbn [length] in Hn; lia|].
  unfold validate_for_blob, validate_for_data, is_usable, is_reserved, is_primary_reserved,
    is_secondary_reserved, is_parity, is_tail_padding.
  destruct (ns_predicates (v :: id) max_primary_reserved_ns) as (_ & _ & Hle & _).
  destruct (ns_predicates (v :: id) min_secondary_reserved_ns) as (_ & _ & _ & _ & Hge & _).
  destruct (ns_predicates (v :: id) parity_ns) as (Hpar & _).
  destruct (ns_predicates (v :: id) tail_padding_ns) as (Htail & _).
  cbn [ns_version]. split.
  - intros H. rewrite !andb_true_iff, !negb_true_iff, orb_false_iff, N.eqb_eq in H.
    destruct H as (((_ & _) & (Hnle & _)) & Hv). split; [exact Hv|].
    destruct (bytes_cmp_total max_primary_reserved_ns (v :: id)) as [H|[H|H]].
    + apply bytes_cmp_lt_lex. exact H.
    + exfalso. assert (ns_le (v :: id) max_primary_reserved_ns = true) by (apply Hle; right; symmetry; exact H). congruence.
    + exfalso. assert (ns_le (v :: id) max_primary_reserved_ns = true) by (apply Hle; left; apply bytes_cmp_lt_lex; exact H). congruence.
  - intros [Hv Hgt].
    assert (Hlt_sec : lex_lt (v :: id) min_secondary_reserved_ns).
    { apply bytes_cmp_lt_lex. apply cmp_first_byte. rewrite Hv. vm_compute. reflexivity. }
    assert (Hne : forall m, lex_lt (v :: id) m -> (v :: id) <> m).
    { intros m Hl E. rewrite <- E in Hl. apply bytes_cmp_lt_lex in Hl. rewrite bytes_cmp_refl in Hl. discriminate. }
    assert (Hlt_par : lex_lt (v :: id) parity_ns).
    { apply bytes_cmp_lt_lex. apply cmp_first_byte. rewrite Hv. vm_compute. reflexivity. }
    assert (Hlt_tail : lex_lt (v :: id) tail_padding_ns).
    { apply bytes_cmp_lt_lex. apply cmp_first_byte. rewrite Hv. vm_compute. reflexivity. }
    rewrite !andb_true_iff, !negb_true_iff, orb_false_iff, N.eqb_eq.
    repeat split; try exact Hv.
    + apply not_true_is_false. intros H. apply Hpar in H. exact (Hne _ Hlt_par H).
    + apply not_true_is_false. intros H. apply Htail in H. exact (Hne _ Hlt_tail H).
    + apply not_true_is_false. intros H. apply Hle in H. destruct H as [H|H].
      * pose proof (lex_lt_trans _ _ _ H Hgt) as Hc. apply bytes_cmp_lt_lex in Hc. rewrite bytes_cmp_refl in Hc. discriminate.
      * rewrite H in Hgt. apply bytes_cmp_lt_lex in Hgt. rewrite bytes_cmp_refl in Hgt. discriminate.
    + apply not_true_is_false. intros H. apply Hge in H. destruct H as [H|H].
      * pose proof (lex_lt_trans _ _ _ H Hlt_sec) as Hc. apply bytes_cmp_lt_lex in Hc. rewrite bytes_cmp_refl in Hc. discriminate.
      * exact (Hne _ Hlt_sec H).
Qed.

(* a blob-valid namespace is none of the protocol's own *)
Lemma validate_for_blob_plain n : ns29 n -> validate_for_blob n = true ->
  is_compact_ns n = false /\ is_tail_padding n = false /\ is_primary_reserved_padding n = false /\ ns_version n = 0.
Proof.
  intros Hn Hv. apply (validate_for_blob_spec n Hn) in Hv. destruct Hv as [Hv Hgt].
  assert (Hne : forall m, (lex_lt m max_primary_reserved_ns \/ m = max_primary_reserved_ns) -> bytes_eqb n m = false).
  { intros m Hm. apply bytes_eqb_neq. intros ->. destruct Hm as [Hm| ->].
    - pose proof (lex_lt_trans _ _ _ Hm Hgt) as Hc. apply bytes_cmp_lt_lex in Hc. rewrite bytes_cmp_refl in Hc. discriminate.
    - apply bytes_cmp_lt_lex in Hgt. rewrite bytes_cmp_refl in Hgt. discriminate. }
  unfold is_compact_ns, is_tx, is_pfb, is_tail_padding, is_primary_reserved_padding, ns_equals.
  rewrite (Hne tx_ns), (Hne pfb_ns), (Hne primary_reserved_padding_ns).
  - repeat split; try exact Hv. apply bytes_eqb_neq. intros ->. vm_compute in Hv. discriminate.
  - right. reflexivity.
  - left. apply bytes_cmp_lt_lex. vm_compute. reflexivity.
  - left. apply bytes_cmp_lt_lex. vm_compute. reflexivity.
Qed.

(* the value and interval predicates hold exactly on their constants / intervals *)
Theorem reserved_predicates n :
  (is_tx n = true <-> n = tx_ns) /\ (is_pfb n = true <-> n = pfb_ns) /\
  (is_tail_padding n = true <-> n = tail_padding_ns) /\ (is_parity n = true <-> n = parity_ns) /\
  (is_primary_reserved_padding n = true <-> n = primary_reserved_padding_ns) /\
  (is_primary_reserved n = true <-> (lex_lt n max_primary_reserved_ns \/ n = max_primary_reserved_ns)) /\
  (is_secondary_reserved n = true <-> (lex_lt min_secondary_reserved_ns n \/ n = min_secondary_reserved_ns)) /\
  (is_reserved n = is_primary_reserved n || is_secondary_reserved n) /\
  (is_usable n = true <-> (n <> parity_ns /\ n <> tail_padding_ns)).
Proof.
  unfold is_tx, is_pfb, is_tail_padding, is_parity, is_primary_reserved_padding, is_primary_reserved,
    is_secondary_reserved, is_usable, ns_equals.
  rewrite !bytes_eqb_eq. repeat split; try tauto.
  - apply (ns_predicates n max_primary_reserved_ns).
  - apply (ns_predicates n max_primary_reserved_ns).
  - apply (ns_predicates n min_secondary_reserved_ns).
  - apply (ns_predicates n min_secondary_reserved_ns).
  - rewrite andb_true_iff, !negb_true_iff in H. destruct H as [H _]. intros E. apply bytes_eqb_neq in H. contradiction.
  - rewrite andb_true_iff, !negb_true_iff in H. destruct H as [_ H]. intros E. apply bytes_eqb_neq in H. contradiction.
  - intros [H1 H2]. rewrite andb_true_iff, !negb_true_iff. split; apply bytes_eqb_neq; assumption.
Qed.

(* ---------- constructors ---------- *)
Lemma has_prefix_spec p : forall l, has_prefix p l = true <-> firstn (length p) l = p.
Proof.
  induction p as [|x p IH]; intros l; cbn [has_prefix length].
  - rewrite firstn_O. tauto.
  - destruct l as [|y l]; [split; [discriminate|rewrite firstn_nil; discriminate]|].
    rewrite firstn_cons, andb_true_iff, byte_eqb_eq, IH.
    split; [intros [-> ->]; reflexivity|intros H; inversion H; subst; rewrite H2; auto].
Qed.

Definition wellformed_ns (v : N) (id : bytes) : Prop :=
  length id = 28%nat /\ ((v = 0 /\ firstn 18 id = repeat Byte.x00 18) \/ v = 255).

Theorem new_namespace_spec v id : v < 256 ->
  (wellformed_ns v id -> new_namespace v id = Ok (n2b v :: id)) /\
  (~ wellformed_ns v id -> new_namespace v id = Err).
Proof.
  intros Hv. unfold new_namespace, ns_validate, wellformed_ns, ns_id_size. cbn [ns_version ns_id tl].
  rewrite b2n_n2b by exact Hv.
  pose proof (has_prefix_spec (repeat Byte.x00 18) id) as Hp. rewrite repeat_length in Hp.
  split.
  - intros [Hl [[-> Hz]| -> ]].
    + apply Hp in Hz. rewrite Hz. apply Nat.eqb_eq in Hl. rewrite Hl. reflexivity.
    + apply Nat.eqb_eq in Hl. rewrite Hl. reflexivity.
  - intros Hn.
    destruct (((v =? 0) || (v =? 255)) && Nat.eqb (length id) 28 && (negb (v =? 0) || has_prefix (repeat Byte.x00 18) id)) eqn:E; [|reflexivity].
    exfalso. apply Hn. rewrite !andb_true_iff, !orb_true_iff, negb_true_iff, Nat.eqb_eq, !N.eqb_eq in E.
    destruct E as [[Hv' Hl] Hpre]. split; [exact Hl|].
    destruct Hv' as [-> | ->]; [left|right; reflexivity]. split; [reflexivity|].
    destruct Hpre as [Hpre|Hpre]; [apply N.eqb_neq in Hpre; congruence|apply Hp; exact Hpre].
Qed.

Lemma new_namespace_ok_inv v id n : v < 256 -> new_namespace v id = Ok n ->
  wellformed_ns v id /\ n = n2b v :: id.
Proof.
  intros Hv H. unfold new_namespace, ns_validate, ns_id_size in H. cbn [ns_version ns_id tl] in H.
  rewrite b2n_n2b in H by exact Hv.
  destruct (((v =? 0) || (v =? 255)) && Nat.eqb (length id) 28 && (negb (v =? 0) || has_prefix (repeat Byte.x00 18) id)) eqn:E; [|discriminate].
  inversion H; subst n. split; [|reflexivity].
  rewrite !andb_true_iff, !orb_true_iff, negb_true_iff, Nat.eqb_eq, !N.eqb_eq in E.
  destruct E as [[Hv' Hl] Hpre]. split; [exact Hl|].
  pose proof (has_prefix_spec (repeat Byte.x00 18) id) as Hp. rewrite repeat_length in Hp.
  destruct Hv' as [Hv'|Hv']; [left|right; exact Hv']. split; [exact Hv'|].
  destruct Hpre as [Hpre|Hpre]; [apply N.eqb_neq in Hpre; congruence|apply Hp; exact Hpre].
Qed.

Theorem new_namespace_from_bytes_spec b :
  (new_namespace_from_bytes b = Ok b <->
   exists v id, b = v :: id /\ wellformed_ns (b2n v) id) /\
  (new_namespace_from_bytes b = Ok b \/ new_namespace_from_bytes b = Err).
Proof.
  unfold new_namespace_from_bytes, ns_size, ns_validate, wellformed_ns, ns_id_size.
  split.
  - split.
    + intros H. destruct (Nat.eqb (length b) 29) eqn:El; [|discriminate]. apply Nat.eqb_eq in El.
      destruct b as [|v id]; [cbn in El; lia|]. exists v, id. split; [reflexivity|].
      cbn [ns_version ns_id tl] in H.
      destruct (((b2n v =? 0) || (b2n v =? 255)) && Nat.eqb (length id) 28 && (negb (b2n v =? 0) || has_prefix (repeat Byte.x00 18) id)) eqn:E; [|discriminate].
      rewrite !andb_true_iff, !orb_true_iff, negb_true_iff, Nat.eqb_eq, !N.eqb_eq in E.
      destruct E as [[Hv' Hl] Hpre]. split; [exact Hl|].
      pose proof (has_prefix_spec (repeat Byte.x00 18) id) as Hp. rewrite repeat_length in Hp.
      destruct Hv' as [Hv'|Hv']; [left|right; exact Hv']. split; [exact Hv'|].
      destruct Hpre as [Hpre|Hpre]; [apply N.eqb_neq in Hpre; congruence|apply Hp; exact Hpre].
    + intros (v & id & -> & Hl & Hw). cbn [length]. rewrite Hl. cbn [Nat.eqb ns_version ns_id tl].
      pose proof (has_prefix_spec (repeat Byte.x00 18) id) as Hp. rewrite repeat_length in Hp.
      rewrite Hl. cbn [Nat.eqb].
      destruct Hw as [[-> Hz]| ->]; [apply Hp in Hz; rewrite Hz|]; reflexivity.
  - destruct (Nat.eqb (length b) 29); [|right; reflexivity].
    destruct (_ && _ && _); [left|right]; reflexivity.
Qed.

(* ---------- AddInt ---------- *)
Open Scope Z_scope.

(* little-endian value of a digit list *)
Fixpoint le_val (l : bytes) : Z :=
  match l with [] => 0 | d :: tl => Z.of_N (b2n d) + 256 * le_val tl end.
Definition be_val (l : bytes) : Z := le_val (rev l).

Lemma le_val_bounds l : 0 <= le_val l < 256 ^ Z.of_nat (length l).
Proof.
  induction l as [|d l IH]; [cbn; lia|].
  cbn [le_val length]. rewrite Nat2Z.inj_succ, Z.pow_succ_r by lia.
  pose proof (b2n_lt d). lia.
Qed.

Lemma le_val_app a b : le_val (a ++ b) = le_val a + 256 ^ Z.of_nat (length a) * le_val b.
Proof.
  induction a as [|d a IH]; [cbn [app le_val length]; lia|].
  cbn [app le_val length]. rewrite IH, Nat2Z.inj_succ, Z.pow_succ_r by lia. ring.
Qed.

Lemma le_val_inj a : forall b, length a = length b -> le_val a = le_val b -> a = b.
Proof.
  induction a as [|x a IH]; intros [|y b] Hl Hv; try (cbn in Hl; lia); [reflexivity|].
  cbn [le_val] in Hv. pose proof (b2n_lt x). pose proof (b2n_lt y).
  assert (Z.of_N (b2n x) = Z.of_N (b2n y) /\ le_val a = le_val b) as [H1 H2] by lia.
  f_equal; [apply b2n_inj; lia|apply IH; [cbn in Hl; lia|exact H2]].
Qed.

(* the carry loop is schoolbook addition / subtraction in base 256 *)
Lemma add_loop_spec pos : forall nn vv carry res c,
  length nn = length vv -> -1 <= carry <= 1 ->
  add_loop pos nn vv carry = (res, c) ->
  length res = length nn /\ -1 <= c <= 1 /\
  le_val res + c * 256 ^ Z.of_nat (length nn) =
  le_val nn + (if pos then le_val vv else - le_val vv) + carry.
Proof.
  induction nn as [|a nn IH]; intros vv carry res c Hl Hc H.
  - destruct vv; [|cbn in Hl; lia]. cbn in H. inversion H; subst. cbn. destruct pos; lia.
  - destruct vv as [|b vv]; [cbn in Hl; lia|].
    cbn [add_loop] in H.
    set (sum := if pos then Z.of_N (b2n a) + Z.of_N (b2n b) + carry else Z.of_N (b2n a) - Z.of_N (b2n b) + carry) in *.
    pose proof (b2n_lt a). pose proof (b2n_lt b).
    assert (Hsum : -256 <= sum <= 511) by (unfold sum; destruct pos; lia).
    destruct (255 <? sum) eqn:E1; [|destruct (sum <? 0) eqn:E2].
    + destruct (add_loop pos nn vv 1) as [rest c'] eqn:Er. inversion H; subst. clear H.
      destruct (IH vv 1 rest c ltac:(cbn in Hl; lia) ltac:(lia) Er) as (L & C & V).
      cbn [length le_val]. rewrite b2n_n2b by lia. rewrite Nat2Z.inj_succ, Z.pow_succ_r by lia.
      split; [lia|]. split; [lia|]. unfold sum in *. destruct pos; lia.
    + destruct (add_loop pos nn vv (-1)) as [rest c'] eqn:Er. inversion H; subst. clear H.
      destruct (IH vv (-1) rest c ltac:(cbn in Hl; lia) ltac:(lia) Er) as (L & C & V).
      cbn [length le_val]. rewrite b2n_n2b by lia. rewrite Nat2Z.inj_succ, Z.pow_succ_r by lia.
      split; [lia|]. split; [lia|]. unfold sum in *. destruct pos; lia.
    + destruct (add_loop pos nn vv 0) as [rest c'] eqn:Er. inversion H; subst. clear H.
      destruct (IH vv 0 rest c ltac:(cbn in Hl; lia) ltac:(lia) Er) as (L & C & V).
      cbn [length le_val]. rewrite b2n_n2b by lia. rewrite Nat2Z.inj_succ, Z.pow_succ_r by lia.
      split; [lia|]. split; [lia|]. unfold sum in *. destruct pos; lia.
Qed.

Lemma be64_val m : (m < 2 ^ 64)%N -> be_val (be64 m) = Z.of_N m.
Proof.
  intros H. unfold be_val, be64. cbn [rev app le_val]. rewrite !b2n_n2b_mod.
  change (2 ^ 64)%N with 18446744073709551616%N in H. lia.
Qed.

Lemma be_val_zeros_app k l : be_val (repeat Byte.x00 k ++ l) = be_val l.
Proof.
  unfold be_val. rewrite rev_app_distr, le_val_app.
  assert (Hz : forall k, le_val (rev (repeat Byte.x00 k)) = 0).
  { clear. induction k as [|k IH]; [reflexivity|].
    change (repeat Byte.x00 (S k)) with (Byte.x00 :: repeat Byte.x00 k). cbn [rev].
    rewrite le_val_app, IH. cbn [le_val]. change (b2n Byte.x00) with 0%N. lia. }
  rewrite Hz, Z.mul_0_r, Z.add_0_r. reflexivity.
Qed.

(* AddInt is exact big-endian addition on the 29 bytes; it fails exactly on
   overflow or underflow.  |val| < 2^64 covers every Go int (and the negation of minInt). *)
Theorem add_int_spec n val : length n = 29%nat -> Z.abs val < 2 ^ 64 ->
  (0 <= be_val n + val < 256 ^ 29 ->
   exists m, add_int n val = Ok m /\ length m = 29%nat /\ be_val m = be_val n + val) /\
  (~ (0 <= be_val n + val < 256 ^ 29) -> add_int n val = Err).
Proof.
  intros Hn Hval. unfold add_int. destruct (Z.eqb val 0) eqn:E0.
  - apply Z.eqb_eq in E0. subst val. pose proof (le_val_bounds (rev n)) as Hb.
    rewrite rev_length, Hn in Hb. unfold be_val. split.
    + intros _. exists n. repeat split; [exact Hn|lia].
    + intros H. exfalso. apply H. change (Z.of_nat 29) with 29 in Hb. lia.
  - apply Z.eqb_neq in E0. unfold ns_size. rewrite Hn. cbn [Nat.eqb negb].
    set (mag := repeat Byte.x00 21 ++ be64 (Z.to_N (Z.abs val))).
    assert (Hmag : be_val mag = Z.abs val).
    { unfold mag. rewrite be_val_zeros_app, be64_val; [lia|]. change (2 ^ 64)%N with (Z.to_N (2 ^ 64)). lia. }
    assert (Hml : length (rev mag) = 29%nat) by (unfold mag; rewrite rev_length, app_length, repeat_length; reflexivity).
    destruct (add_loop (0 <? val) (rev n) (rev mag) 0) as [res carry] eqn:El.
    destruct (add_loop_spec (0 <? val) (rev n) (rev mag) 0 res carry) as (L & C & V);
      [transitivity 29%nat; [rewrite rev_length; exact Hn|symmetry; exact Hml]|lia|exact El|].
    rewrite rev_length, Hn in L, V. change (Z.of_nat 29) with 29 in V.
    change (le_val (rev n)) with (be_val n) in V. change (le_val (rev mag)) with (be_val mag) in V. rewrite Hmag in V.
    assert (Hsigned : (if 0 <? val then Z.abs val else - Z.abs val) = val) by (destruct (0 <? val) eqn:Ep; lia).
    rewrite Hsigned in V.
    pose proof (le_val_bounds res) as Hb. rewrite L in Hb. change (Z.of_nat 29) with 29 in Hb.
    split.
    + intros Hr. assert (carry = 0) by nia. subst carry. cbn [Z.eqb].
      exists (rev res). repeat split; [rewrite rev_length; exact L|].
      unfold be_val at 1. rewrite rev_involutive. lia.
    + intros Hr. destruct (Z.eqb carry 0) eqn:Ec; [|reflexivity].
      apply Z.eqb_eq in Ec. subst carry. exfalso. apply Hr. lia.
Qed.

Lemma be_val_inj a b : length a = length b -> be_val a = be_val b -> a = b.
Proof.
  intros Hl Hv. unfold be_val in Hv. apply le_val_inj in Hv; [|rewrite !rev_length; exact Hl].
  rewrite <- (rev_involutive a), <- (rev_involutive b), Hv. reflexivity.
Qed.

(* adding the negation undoes the addition *)
Theorem add_int_undo n val m : length n = 29%nat -> Z.abs val < 2 ^ 64 ->
  add_int n val = Ok m -> add_int m (- val) = Ok n.
Proof.
  intros Hn Hval H.
  pose proof (le_val_bounds (rev n)) as Hbn. rewrite rev_length, Hn in Hbn. change (Z.of_nat 29) with 29 in Hbn. fold (be_val n) in Hbn.
  destruct (add_int_spec n val Hn Hval) as [Hok Herr].
  assert (Hr : 0 <= be_val n + val < 256 ^ 29).
  { destruct (Z_le_dec 0 (be_val n + val)); [destruct (Z_lt_dec (be_val n + val) (256 ^ 29)); [lia|]|];
      rewrite Herr in H by lia; discriminate. }
  destruct (Hok Hr) as (m' & Hm' & Hl & Hv). rewrite H in Hm'. inversion Hm'; subst m'. clear Hm'.
  destruct (add_int_spec m (- val) Hl ltac:(rewrite Z.abs_opp; exact Hval)) as [Hok2 _].
  destruct (Hok2 ltac:(lia)) as (n' & Hn' & Hl' & Hv').
  rewrite Hn'. f_equal. apply be_val_inj; [lia|lia].
Qed.

(* non-vacuity *)
Example add_int_example : add_int tx_ns 255 = Ok (repeat Byte.x00 27 ++ [Byte.x01; Byte.x00])
                        /\ add_int tx_ns (-2) = Err.
Proof. split; vm_compute; reflexivity. Qed.
