(* share/range.go, share/parse.go (ParseShares), share/share_sequence.go, square.go (Deconstruct, WrappedPFBs) *)
From GS.Model Require Import Base Varint Namespace ShareFmt Blob Sparse Compact Counter Arith Proto Builder.
Open Scope N_scope.

(* GetShareRangeForNamespace: the scan, with `start` as an option *)
Fixpoint range_scan (shares : list share) (ns : namespace) (i : N) (start : option N) : N * N :=
  match shares with
  | [] => match start with None => (0, 0) | Some s => (s, i) end
  | sh :: tl =>
    let sns := sh_ns sh in
    match start with
    | Some s => if ns_gt sns ns then (s, i) else range_scan tl ns (i + 1) start
    | None => if ns_equals ns sns then range_scan tl ns (i + 1) (Some i)
              else range_scan tl ns (i + 1) None
    end
  end.

Definition get_share_range_for_namespace (shares : list share) (ns : namespace) : N * N :=
  match shares with
  | [] => (0, 0)
  | first :: _ =>
    if ns_lt ns (sh_ns first) then (0, 0) else
    if ns_gt ns (sh_ns (last shares [])) then (0, 0) else
    range_scan shares ns 0 None
  end.

(* ---- sequences ---- *)
Record sequence := mk_seq { sq_ns : namespace; sq_shares : list share }.

(* numberOfSharesNeeded (with the repair of defect D2) *)
Definition number_of_shares_needed (first : share) : outcome N :=
  let sl := sh_seq_len first in
  if sh_is_compact first then Ok (compact_shares_needed sl) else
  let total := sl + (match sh_signer first with Some s => lenN s | None => 0 end) in
  if 4294967295 <? total then Err else Ok (sparse_shares_needed total).

Definition seq_is_padding (s : sequence) : bool :=
  match sq_shares s with [sh] => sh_is_padding sh | _ => false end.

(* validSequenceLen: true = nil error *)
Definition valid_sequence_len (s : sequence) : outcome unit :=
  match sq_shares s with
  | [] => Err
  | first :: _ =>
    if seq_is_padding s then Ok tt else
    do n <- number_of_shares_needed first;
    if lenN (sq_shares s) =? n then Ok tt else Err
  end.

(* Sequence.RawData (with the repair of defect D6) *)
Definition sequence_raw_data (s : sequence) : outcome bytes :=
  let data := concat (map sh_raw_data (sq_shares s)) in
  match sq_shares s with
  | [] => Err
  | first :: _ =>
    let sl := sh_seq_len first in
    if lenN data <? sl then Err else slice_to sl data
  end.

(* the grouping loop of ParseShares: [cur] is the sequence being collected
   (its shares in order), [done] the finished ones, newest first *)
Fixpoint group_shares (shares : list share) (cur : sequence) (done : list sequence)
  : outcome (list sequence) :=
  match shares with
  | [] => Ok (rev (match sq_shares cur with [] => done | _ => cur :: done end))
  | sh :: tl =>
    if sh_start sh then
      group_shares tl (mk_seq (sh_ns sh) [sh])
                   (match sq_shares cur with [] => done | _ => cur :: done end)
    else if negb (bytes_eqb (sq_ns cur) (sh_ns sh)) then Err
    else group_shares tl (mk_seq (sq_ns cur) (sq_shares cur ++ [sh])) done
  end.

(* ParseShares(shares, ignorePadding) *)
Definition parse_shares (shares : list share) (ignore_padding : bool) : outcome (list sequence) :=
  do seqs <- group_shares shares (mk_seq [] []) [];
  do _ <- map_outcome valid_sequence_len seqs;
  Ok (filter (fun s => negb (ignore_padding && seq_is_padding s)) seqs).

(* ---- Deconstruct ---- *)
Fixpoint shares_eqb (a b : list share) : bool :=
  match a, b with
  | [], [] => true
  | x :: a', y :: b' => bytes_eqb x y && shares_eqb a' b'
  | _, _ => false
  end.

Definition square_is_empty (s : list share) : bool :=
  match empty_square with Ok e => shares_eqb s e | _ => false end.

Section Deconstruct.
  (* the application's PFB decoder: blob sizes of a PFB *)
  Variable decoder : bytes -> outcome (list N).

  Fixpoint decon_blobs (s : list share) (idxs sizes : list N) : outcome (list blob) :=
    match idxs, sizes with
    | [], _ => Ok []
    | i :: itl, sz :: stl =>
      if lenN s <=? i then Err else
      match nth_error s (N.to_nat i) with
      | None => Fault
      | Some first =>
        let blob_len := sz + (match sh_signer first with Some g => lenN g | None => 0 end) in
        if 4294967295 <? blob_len then Err else
        let e := i + sparse_shares_needed blob_len in
        if lenN s <? e then Err else
        do sub <- slice_list i e s;
        do parsed <- parse_blobs sub;
        match parsed with
        | [b] => do rest <- decon_blobs s itl stl; Ok (b :: rest)
        | _ => Err
        end
      end
    | _ :: _, [] => Fault (* blobSizes[j] out of range; excluded by the length check *)
    end.

  Fixpoint decon_pfbs (s : list share) (wpfbs : list bytes) : outcome (list bytes) :=
    match wpfbs with
    | [] => Ok []
    | w :: tl =>
      match unmarshal_index_wrapper w with
      | None => Err
      | Some iw =>
        match iw_idx iw with
        | [] => Err
        | _ =>
          do sizes <- decoder (iw_tx iw);
          if negb (Nat.eqb (length sizes) (length (iw_idx iw))) then Err else
          do blobs <- decon_blobs s (iw_idx iw) sizes;
          do txb <- marshal_blob_tx (iw_tx iw) blobs;
          do rest <- decon_pfbs s tl;
          Ok (txb :: rest)
        end
      end
    end.

  Definition deconstruct (s : list share) : outcome (list bytes) :=
    if square_is_empty s then Ok [] else
    let '(ts, te) := get_share_range_for_namespace s tx_ns in
    if negb (ts =? 0) then Err else
    let '(ps, pe) := get_share_range_for_namespace (dropN te s) pfb_ns in
    if (ps =? 0) && (pe =? 0) then
      do sub <- slice_list ts te s; parse_txs sub
    else if negb (ps =? 0) then Err else
    do subt <- slice_list ts te s;
    do txs <- parse_txs subt;
    do subp <- slice_list (ps + te) (pe + te) s;
    do wpfbs <- parse_txs subp;
    do btxs <- decon_pfbs s wpfbs;
    Ok (txs ++ btxs).
End Deconstruct.

(* Square.WrappedPFBs *)
Definition wrapped_pfbs (s : list share) : outcome (list bytes) :=
  let '(ps, pe) := get_share_range_for_namespace s pfb_ns in
  if (ps =? 0) && (pe =? 0) then Ok [] else
  do sub <- slice_list ps pe s; parse_txs sub.

(* the mock PFB format of the repository's test helpers (internal/test):
   329 arbitrary bytes followed by the big-endian uint32 blob sizes *)
Fixpoint be32_list (fuel : nat) (b : bytes) : list N :=
  match fuel with
  | O => []
  | S f =>
    match b with
    | a :: b1 :: c :: d :: tl => rd32 [a; b1; c; d] :: be32_list f tl
    | _ => []
    end
  end.
Definition mock_pfb_decoder (pfb : bytes) : outcome (list N) :=
  if Nat.ltb (length pfb) 333 then Err
  else let body := skipn 329 pfb in Ok (be32_list (length body) body).
