(* The blob loop of Builder.Export and the blob region of the square (C04, and
   the blob-region part of C03): recorded share indexes are aligned, truthful,
   increasing and disjoint; gaps are namespace padding of the preceding blob;
   indexes land in the right slot of the wrapped PFBs; WriteSquare places the
   region at the first blob index; the range queries return that range. *)
From Coq Require Import List Arith NArith ZArith Lia Bool Sorted Permutation.
From Coq Require Import ZifyN ZifyNat ZifyBool.
From GS.Model Require Import Base Varint Namespace ShareFmt Blob Sparse Compact Counter Arith Proto Builder.
From GS.Spec Require Import ShareSpec.
From GS.Proofs Require Import BaseLemmas VarintProofs SparseProofs ArithProofs.
Import ListNotations.
Open Scope N_scope.

(* ---------- generic list lemmas ---------- *)
Lemma firstn_skipn_mid {A} (a m c : list A) n k :
  n = length m -> k = length a -> firstn n (skipn k (a ++ m ++ c)) = m.
Proof.
  intros -> ->. rewrite skipn_app, skipn_all, Nat.sub_diag, skipn_O. cbn [app].
  rewrite firstn_app, firstn_all, Nat.sub_diag, firstn_O. apply app_nil_r.
Qed.

Lemma skipn_add {A} : forall b a (l : list A), skipn a (skipn b l) = skipn (b + a) l.
Proof.
  induction b as [|b IH]; intros a l; [rewrite skipn_O; reflexivity|].
  destruct l as [|x l]; [rewrite !skipn_nil; reflexivity|].
  cbn [Nat.add]. rewrite !skipn_cons. apply IH.
Qed.

(* a window inside a window *)
Lemma firstn_skipn_window {A} (l src : list A) off a n :
  firstn (length src) (skipn off l) = src -> (a + n <= length src)%nat ->
  firstn n (skipn (off + a) l) = firstn n (skipn a src).
Proof.
  intros H Hfit. rewrite <- H.
  rewrite skipn_firstn_comm. rewrite firstn_firstn.
  replace (Nat.min n (length src - a)) with n by lia.
  rewrite skipn_add. reflexivity.
Qed.

Lemma lenN_repeat {A} (x : A) n : lenN (repeat x n) = N.of_nat n.
Proof. unfold lenN. rewrite repeat_length. reflexivity. Qed.

(* ---------- the shares of one blob ---------- *)
Lemma blob_spec_headers b : blob_ok b ->
  Forall (fun s => sh_ns s = b_ns b /\ sh_version s = b_ver b) (blob_spec b).
Proof.
  intros Hok. pose proof Hok as (Hns & _). destruct (blob_ok_ver b Hok) as [Hv _].
  unfold blob_spec, sparse_spec. constructor.
  - split; [apply acc_ns|apply acc_version]; assumption.
  - apply Forall_forall. intros s Hs. apply in_map_iff in Hs. destruct Hs as (c & <- & _).
    split; [apply acc_ns|apply acc_version]; assumption.
Qed.

Lemma blob_spec_last b : blob_ok b ->
  exists init lst, blob_spec b = init ++ [lst] /\ sh_ns lst = b_ns b /\ sh_version lst = b_ver b.
Proof.
  intros Hok. pose proof (blob_spec_headers b Hok) as HF.
  destruct (@exists_last _ (blob_spec b)) as (init & lst & E).
  { unfold blob_spec, sparse_spec. discriminate. }
  exists init, lst. split; [exact E|]. rewrite E in HF. apply Forall_app in HF.
  destruct HF as [_ HF]. inversion HF; subst. assumption.
Qed.

Lemma blob_spec_nonempty b : 1 <= lenN (blob_spec b).
Proof. unfold blob_spec, sparse_spec, lenN. cbn [length]. lia. Qed.

(* ---------- elements ---------- *)
(* what [new_element] establishes for an acceptable blob: the predicted share
   count is the number of shares the blob really occupies *)
Definition el_ok (e : element) : Prop :=
  blob_ok (e_blob e) /\ e_num_shares e = lenN (blob_spec (e_blob e)).

Lemma new_element_ok b pi bi thr : blob_ok b ->
  lenN (b_data b) + signer_len b < 4294967296 ->
  el_ok (new_element b pi bi thr).
Proof.
  intros Hok Hlen. unfold el_ok, new_element. cbn [e_blob e_num_shares]. split; [exact Hok|].
  rewrite u32_small by exact Hlen. symmetry. apply blob_spec_length, Hok.
Qed.

Lemma elements_of_ok : forall bs pi bi thr,
  Forall (fun b => blob_ok b /\ lenN (b_data b) + signer_len b < 4294967296) bs ->
  Forall el_ok (elements_of bs pi bi thr).
Proof.
  induction bs as [|b bs IH]; intros pi bi thr H; cbn [elements_of]; [constructor|].
  inversion H as [|? ? [H1 H2] H3]; subst. constructor; [apply new_element_ok; assumption|apply IH, H3].
Qed.

(* ---------- the layout, as pure functions of the element list ---------- *)
(* the (element, share index) pairs in loop order *)
Fixpoint place (thr cursor : N) (els : list element) : list (element * N) :=
  match els with
  | [] => []
  | e :: tl =>
    let c := next_share_index cursor (e_num_shares e) thr in
    (e, c) :: place thr (c + e_num_shares e) tl
  end.

Fixpoint end_cursor (thr cursor : N) (els : list element) : N :=
  match els with
  | [] => cursor
  | e :: tl => end_cursor thr (next_share_index cursor (e_num_shares e) thr + e_num_shares e) tl
  end.

(* index of the first share of the region *)
Definition start_of (thr : N) (first : bool) (cursor : N) (els : list element) : N :=
  if first then
    match els with [] => cursor | e :: _ => next_share_index cursor (e_num_shares e) thr end
  else cursor.

(* the blob region: before every blob but the very first, the gap up to its
   aligned index filled with padding shares of the preceding blob's namespace
   and share version; then the blob's own share encoding *)
Fixpoint region (thr : N) (first : bool) (cursor : N) (pns : namespace) (pver : N)
         (els : list element) : list share :=
  match els with
  | [] => []
  | e :: tl =>
    let c := next_share_index cursor (e_num_shares e) thr in
    (if first then [] else repeat (padding_spec pns pver) (N.to_nat (c - cursor)))
    ++ blob_spec (e_blob e)
    ++ region thr false (c + e_num_shares e) (b_ns (e_blob e)) (b_ver (e_blob e)) tl
  end.

(* storing the indexes into the wrapped PFBs, in loop order *)
Fixpoint record_all (pfbs : list pfb) (ps : list (element * N)) : outcome (list pfb) :=
  match ps with
  | [] => Ok pfbs
  | (e, c) :: tl =>
    do pfbs' <- record_index pfbs (e_pfb_index e) (e_blob_index e) c;
    record_all pfbs' tl
  end.

(* ---------- one step of the writer ---------- *)
Lemma write_ns_pad init lst k : length (sh_ns lst) = 29%nat -> sh_version lst <= 127 ->
  sparse_write_item (init ++ [lst]) (INsPad k) =
  Ok ((init ++ [lst]) ++ repeat (padding_spec (sh_ns lst) (sh_version lst)) k).
Proof.
  intros Hns Hv. destruct k as [|k].
  - cbn [sparse_write_item]. change (repeat (padding_spec (sh_ns lst) (sh_version lst)) 0) with (@nil share).
    rewrite app_nil_r. reflexivity.
  - cbn [sparse_write_item]. rewrite rev_app_distr. cbn [rev app].
    rewrite namespace_padding_shares_spec by assumption. reflexivity.
Qed.

Lemma write_blob acc b : blob_ok b -> sparse_write_item acc (IBlob b) = Ok (acc ++ blob_spec b).
Proof. intros H. cbn [sparse_write_item]. rewrite sparse_write_spec by exact H. reflexivity. Qed.

(* the last share written so far carries namespace [pns] and version [pver] *)
Definition last_is (shares : list share) (pns : namespace) (pver : N) : Prop :=
  exists init lst, shares = init ++ [lst] /\ sh_ns lst = pns /\ sh_version lst = pver.

(* ---------- the loop computes the layout ---------- *)
Lemma export_blobs_spec : forall els thr first st st' pns pver,
  1 <= thr -> Forall el_ok els ->
  bl_end_last st = bl_cursor st ->
  (first = false -> last_is (bl_shares st) pns pver /\ length pns = 29%nat /\ pver <= 127) ->
  export_blobs thr first els st = Ok st' ->
  bl_shares st' = bl_shares st ++ region thr first (bl_cursor st) pns pver els /\
  bl_cursor st' = end_cursor thr (bl_cursor st) els /\
  bl_end_last st' = bl_cursor st' /\
  bl_nrs st' = (if first then match els with [] => bl_nrs st | _ => start_of thr true (bl_cursor st) els end
                else bl_nrs st) /\
  record_all (bl_pfbs st) (place thr (bl_cursor st) els) = Ok (bl_pfbs st').
Proof.
  induction els as [|e tl IH]; intros thr first st st' pns pver Hthr Hok Hend Hlast H.
  - cbn [export_blobs] in H. inversion H; subst st'. cbn [region place end_cursor record_all].
    rewrite app_nil_r. destruct first; repeat split; auto.
  - inversion Hok as [|? ? [Hbok Hn] Hoktl]; subst.
    cbn [export_blobs] in H.
    set (c := next_share_index (bl_cursor st) (e_num_shares e) thr) in *.
    destruct (e_max_padding e <? c - bl_end_last st) eqn:Emp; [discriminate|].
    destruct (record_index (bl_pfbs st) (e_pfb_index e) (e_blob_index e) c) as [pfbs| |] eqn:Erec; try discriminate.
    cbn [bind] in H.
    set (pad := if first then [] else repeat (padding_spec pns pver) (N.to_nat (c - bl_cursor st))).
    assert (Hs1 : (if first then Ok (bl_shares st)
                   else sparse_write_item (bl_shares st) (INsPad (N.to_nat (c - bl_end_last st))))
                  = Ok (bl_shares st ++ pad)).
    { unfold pad. destruct first.
      - rewrite app_nil_r. reflexivity.
      - destruct (Hlast eq_refl) as ((init & lst & Esh & Hlns & Hlver) & Hpns & Hpver).
        rewrite Esh, Hend. subst pns pver. apply write_ns_pad; assumption. }
    rewrite Hs1 in H. cbn [bind] in H.
    rewrite write_blob in H by exact Hbok. cbn [bind] in H.
    destruct (blob_ok_ver _ Hbok) as [Hv127 _]. pose proof Hbok as (Hns29 & _).
    apply (IH thr false _ st' (b_ns (e_blob e)) (b_ver (e_blob e)) Hthr Hoktl) in H; cbn [bl_cursor bl_end_last bl_shares bl_nrs bl_pfbs] in *.
    + destruct H as (Hsh & Hcur & Hel & Hnrs & Hrec).
      cbn [region place end_cursor record_all]. fold c. rewrite Erec. cbn [bind].
      split; [|split; [exact Hcur|split; [exact Hel|split; [|exact Hrec]]]].
      * rewrite Hsh. fold pad. rewrite <- !app_assoc. reflexivity.
      * rewrite Hnrs. destruct first; reflexivity.
    + reflexivity.
    + intros _. split; [|split; assumption].
      destruct (blob_spec_last _ Hbok) as (init & lst & E & Hl1 & Hl2).
      exists ((bl_shares st ++ pad) ++ init), lst. split; [|split; assumption].
      rewrite E, <- !app_assoc. reflexivity.
Qed.

(* ---------- arithmetic facts of the layout ---------- *)
Lemma nsi_ge c n thr : 1 <= thr -> c <= next_share_index c n thr.
Proof. intros H. apply (next_share_index_spec c n thr H). Qed.

Lemma nsi_aligned c n thr : 1 <= thr -> next_share_index c n thr mod subtree_width n thr = 0.
Proof. intros H. apply (next_share_index_spec c n thr H). Qed.

Lemma place_fst : forall els thr c, map fst (place thr c els) = els.
Proof. induction els as [|e tl IH]; intros thr c; cbn [place map fst]; [reflexivity|]. rewrite IH. reflexivity. Qed.

Lemma place_in_els thr c els e i : In (e, i) (place thr c els) -> In e els.
Proof. intros H. rewrite <- (place_fst els thr c). change e with (fst (e, i)). apply in_map, H. Qed.

Lemma place_length thr c els : length (place thr c els) = length els.
Proof. rewrite <- (place_fst els thr c) at 2. rewrite map_length. reflexivity. Qed.

Lemma end_cursor_ge : forall els thr c, 1 <= thr -> c <= end_cursor thr c els.
Proof.
  induction els as [|e tl IH]; intros thr c Hthr; cbn [end_cursor]; [lia|].
  pose proof (nsi_ge c (e_num_shares e) thr Hthr).
  pose proof (IH thr (next_share_index c (e_num_shares e) thr + e_num_shares e) Hthr). lia.
Qed.

(* every index is at or after the cursor the loop started from, and the blob ends
   at or before the final cursor *)
Lemma place_bounds : forall els thr c, 1 <= thr ->
  Forall (fun p => c <= snd p /\ snd p + e_num_shares (fst p) <= end_cursor thr c els) (place thr c els).
Proof.
  induction els as [|e tl IH]; intros thr c Hthr; cbn [place end_cursor]; [constructor|].
  pose proof (nsi_ge c (e_num_shares e) thr Hthr) as Hge.
  set (c1 := next_share_index c (e_num_shares e) thr) in *.
  constructor.
  - cbn [fst snd]. split; [exact Hge|apply end_cursor_ge, Hthr].
  - eapply Forall_impl; [|apply IH, Hthr]. cbn beta. intros p [H1 H2]. split; lia.
Qed.

(* 1. alignment: every index is NextShareIndex of the running cursor, hence a
   multiple of the blob's subtree width *)
Lemma place_aligned : forall els thr c, 1 <= thr ->
  Forall (fun p => snd p mod subtree_width (e_num_shares (fst p)) thr = 0) (place thr c els).
Proof.
  induction els as [|e tl IH]; intros thr c Hthr; cbn [place]; constructor.
  - cbn [fst snd]. apply nsi_aligned, Hthr.
  - apply IH, Hthr.
Qed.

(* the index is the LEAST admissible one: no multiple of the width lies between the
   end of the previous blob (the running cursor) and the index *)
Lemma place_least : forall els thr c, 1 <= thr ->
  forall k e i, nth_error (place thr c els) k = Some (e, i) ->
  let cur := end_cursor thr c (firstn k els) in
  i = next_share_index cur (e_num_shares e) thr /\
  cur <= i /\ i < cur + subtree_width (e_num_shares e) thr /\
  forall m, m mod subtree_width (e_num_shares e) thr = 0 -> cur <= m -> i <= m.
Proof.
  induction els as [|e0 tl IH]; intros thr c Hthr k e i Hk; [destruct k; discriminate|].
  destruct k as [|k].
  - cbn [place nth_error] in Hk. inversion Hk; subst. cbn zeta.
    change (firstn 0 (e :: tl)) with (@nil element). cbn [end_cursor].
    split; [reflexivity|].
    destruct (next_share_index_spec c (e_num_shares e) thr Hthr) as (H1 & H2 & H3).
    split; [exact H2|split; [exact H3|]].
    intros m Hm Hcm. unfold next_share_index. apply round_up_by_multiple_of_least; try assumption.
    apply subtree_width_pos, Hthr.
  - cbn [place nth_error] in Hk. rewrite firstn_cons. cbn [end_cursor]. apply IH; assumption.
Qed.

(* 3. ranges are increasing and disjoint, in list order *)
Definition range_before (p q : element * N) : Prop := snd p + e_num_shares (fst p) <= snd q.

Lemma place_sorted : forall els thr c, 1 <= thr -> StronglySorted range_before (place thr c els).
Proof.
  induction els as [|e tl IH]; intros thr c Hthr; cbn [place]; constructor.
  - apply IH, Hthr.
  - eapply Forall_impl; [|apply place_bounds, Hthr]. cbn beta. unfold range_before. cbn [fst snd].
    intros p [H _]. exact H.
Qed.

Lemma start_of_le_end thr first c els : 1 <= thr -> start_of thr first c els <= end_cursor thr c els.
Proof.
  intros Hthr. unfold start_of. destruct first; [|apply end_cursor_ge, Hthr].
  destruct els as [|e tl]; cbn [end_cursor]; [lia|].
  pose proof (end_cursor_ge tl thr (next_share_index c (e_num_shares e) thr + e_num_shares e) Hthr). lia.
Qed.

Lemma start_of_ge thr first c els : 1 <= thr -> c <= start_of thr first c els.
Proof.
  intros Hthr. unfold start_of. destruct first; [|lia]. destruct els as [|e tl]; [lia|apply nsi_ge, Hthr].
Qed.

(* ---------- the shares of the region ---------- *)
Lemma region_length : forall els thr first c pns pver, 1 <= thr -> Forall el_ok els ->
  lenN (region thr first c pns pver els) = end_cursor thr c els - start_of thr first c els.
Proof.
  induction els as [|e tl IH]; intros thr first c pns pver Hthr Hok.
  - cbn [region end_cursor]. unfold start_of. destruct first; cbn; lia.
  - inversion Hok as [|? ? [Hb Hn] Htl]; subst. cbn [region end_cursor].
    pose proof (nsi_ge c (e_num_shares e) thr Hthr) as Hge.
    set (c1 := next_share_index c (e_num_shares e) thr) in *.
    rewrite !lenN_app, IH by assumption. unfold start_of at 1. rewrite <- Hn.
    pose proof (end_cursor_ge tl thr (c1 + e_num_shares e) Hthr) as Hend.
    unfold start_of. fold c1. destruct first.
    + rewrite lenN_nil. lia.
    + rewrite lenN_repeat. lia.
Qed.

(* 2. every placed blob's own encoding sits at offset (index - start) of the region *)
Lemma region_blob : forall els thr first c pns pver e i, 1 <= thr -> Forall el_ok els ->
  In (e, i) (place thr c els) ->
  exists pre post, region thr first c pns pver els = pre ++ blob_spec (e_blob e) ++ post /\
                   start_of thr first c els <= i /\ lenN pre = i - start_of thr first c els.
Proof.
  induction els as [|e0 tl IH]; intros thr first c pns pver e i Hthr Hok Hin; [destruct Hin|].
  inversion Hok as [|? ? [Hb Hn] Htl]; subst. cbn [place] in Hin. cbn [region].
  pose proof (nsi_ge c (e_num_shares e0) thr Hthr) as Hge.
  set (c1 := next_share_index c (e_num_shares e0) thr) in *.
  set (pad := if first then [] else repeat (padding_spec pns pver) (N.to_nat (c1 - c))).
  assert (Hpad : lenN pad = c1 - start_of thr first c (e0 :: tl)).
  { unfold pad, start_of. fold c1. destruct first; [rewrite lenN_nil; lia|rewrite lenN_repeat; lia]. }
  assert (Hst : start_of thr first c (e0 :: tl) <= c1).
  { unfold start_of. fold c1. destruct first; lia. }
  destruct Hin as [Heq|Hin].
  - inversion Heq; subst e i. exists pad, (region thr false (c1 + e_num_shares e0) (b_ns (e_blob e0)) (b_ver (e_blob e0)) tl).
    split; [reflexivity|split; assumption].
  - destruct (IH thr false (c1 + e_num_shares e0) (b_ns (e_blob e0)) (b_ver (e_blob e0)) e i Hthr Htl Hin)
      as (pre & post & E & Hle & Hlen).
    unfold start_of in Hle, Hlen.
    exists (pad ++ blob_spec (e_blob e0) ++ pre), post. split; [|split].
    + rewrite E, <- !app_assoc. reflexivity.
    + lia.
    + rewrite !lenN_app, Hpad, Hlen, <- Hn. lia.
Qed.

Lemma region_truthful els thr first c pns pver e i : 1 <= thr -> Forall el_ok els ->
  In (e, i) (place thr c els) ->
  start_of thr first c els <= i /\
  i + e_num_shares e <= end_cursor thr c els /\
  firstn (N.to_nat (e_num_shares e))
         (skipn (N.to_nat (i - start_of thr first c els)) (region thr first c pns pver els))
  = blob_spec (e_blob e).
Proof.
  intros Hthr Hok Hin.
  destruct (region_blob els thr first c pns pver e i Hthr Hok Hin) as (pre & post & E & Hle & Hlen).
  assert (Hel : el_ok e).
  { rewrite Forall_forall in Hok. apply Hok. eapply place_in_els, Hin. }
  destruct Hel as [_ Hn].
  pose proof (place_bounds els thr c Hthr) as Hb. rewrite Forall_forall in Hb.
  specialize (Hb _ Hin). cbn [fst snd] in Hb.
  split; [exact Hle|split; [apply Hb|]].
  rewrite E. apply firstn_skipn_mid; unfold lenN in *; lia.
Qed.

(* 3'. between two consecutive blobs: exactly the padding shares of the first one *)
Lemma region_gap : forall els thr first c pns pver k e1 i1 e2 i2, 1 <= thr -> Forall el_ok els ->
  nth_error (place thr c els) k = Some (e1, i1) ->
  nth_error (place thr c els) (S k) = Some (e2, i2) ->
  exists pre post,
    region thr first c pns pver els =
      pre ++ blob_spec (e_blob e1)
          ++ repeat (padding_spec (b_ns (e_blob e1)) (b_ver (e_blob e1)))
                    (N.to_nat (i2 - (i1 + e_num_shares e1)))
          ++ blob_spec (e_blob e2) ++ post /\
    lenN pre = i1 - start_of thr first c els /\
    i2 = next_share_index (i1 + e_num_shares e1) (e_num_shares e2) thr.
Proof.
  induction els as [|e0 tl IH]; intros thr first c pns pver k e1 i1 e2 i2 Hthr Hok H1 H2; [destruct k; discriminate|].
  inversion Hok as [|? ? [Hb Hn] Htl]; subst. cbn [place] in H1, H2. cbn [region].
  pose proof (nsi_ge c (e_num_shares e0) thr Hthr) as Hge.
  set (c1 := next_share_index c (e_num_shares e0) thr) in *.
  set (pad := if first then [] else repeat (padding_spec pns pver) (N.to_nat (c1 - c))).
  assert (Hpad : lenN pad = c1 - start_of thr first c (e0 :: tl)).
  { unfold pad, start_of. fold c1. destruct first; [rewrite lenN_nil; lia|rewrite lenN_repeat; lia]. }
  destruct k as [|k].
  - cbn [nth_error] in H1, H2. inversion H1; subst e1 i1. clear H1.
    destruct tl as [|e2' tl2]; [discriminate|]. cbn [place nth_error] in H2. inversion H2; subst e2 i2. clear H2.
    cbn [region].
    exists pad, (region thr false
                   (next_share_index (c1 + e_num_shares e0) (e_num_shares e2') thr + e_num_shares e2')
                   (b_ns (e_blob e2')) (b_ver (e_blob e2')) tl2).
    split; [reflexivity|split; [exact Hpad|reflexivity]].
  - cbn [nth_error] in H1, H2.
    destruct (IH thr false (c1 + e_num_shares e0) (b_ns (e_blob e0)) (b_ver (e_blob e0)) k e1 i1 e2 i2 Hthr Htl H1 H2)
      as (pre & post & E & Hlen & Hi2).
    unfold start_of in Hlen.
    assert (Hlow : c1 + e_num_shares e0 <= i1).
    { pose proof (place_bounds tl thr (c1 + e_num_shares e0) Hthr) as Hbd. rewrite Forall_forall in Hbd.
      apply nth_error_In in H1. apply (Hbd _ H1). }
    assert (Hst : start_of thr first c (e0 :: tl) <= c1).
    { unfold start_of. fold c1. destruct first; lia. }
    exists (pad ++ blob_spec (e_blob e0) ++ pre), post. split; [|split; [|exact Hi2]].
    + rewrite E, <- !app_assoc. reflexivity.
    + rewrite !lenN_app, Hpad, Hlen, <- Hn. lia.
Qed.

(* every share of the region belongs to a blob's encoding or is a padding share in
   the namespace and share version of one of the blobs (of the preceding one, by
   [region_gap]; of the blob before the region if the loop did not start it) *)
Lemma region_classified : forall els thr first c pns pver,
  Forall (fun s => (exists e, In e els /\ In s (blob_spec (e_blob e))) \/
                   (exists e, In e els /\ s = padding_spec (b_ns (e_blob e)) (b_ver (e_blob e))) \/
                   (first = false /\ s = padding_spec pns pver))
         (region thr first c pns pver els).
Proof.
  induction els as [|e tl IH]; intros thr first c pns pver; cbn [region]; [constructor|].
  apply Forall_app; split; [|apply Forall_app; split].
  - destruct first; [constructor|]. apply Forall_forall. intros s Hs. apply repeat_spec in Hs. right; right; auto.
  - apply Forall_forall. intros s Hs. left. exists e. split; [left; reflexivity|exact Hs].
  - eapply Forall_impl; [|apply IH]. cbn beta. intros s [(e' & Hin & Hs)|[(e' & Hin & Hs)|[_ Hs]]].
    + left. exists e'. split; [right; exact Hin|exact Hs].
    + right; left. exists e'. split; [right; exact Hin|exact Hs].
    + right; left. exists e. split; [left; reflexivity|exact Hs].
Qed.

(* ---------- 4. the indexes end up in the right slots ---------- *)
(* Pfbs[pi].ShareIndexes[bi], if both indexes are in range *)
Definition idx_at (pfbs : list pfb) (pi bi : N) : option N :=
  match nth_error pfbs (N.to_nat pi) with
  | Some p => nth_error (pfb_idx p) (N.to_nat bi)
  | None => None
  end.

(* what recording never changes: the transactions and the number of slots *)
Definition pfb_shape (pfbs : list pfb) : list (bytes * nat) :=
  map (fun p => (pfb_tx p, length (pfb_idx p))) pfbs.

Lemma set_nth_length {A} (v : A) : forall l n, length (set_nth n v l) = length l.
Proof. induction l as [|x l IH]; intros [|n]; cbn [set_nth length]; try reflexivity. rewrite IH. reflexivity. Qed.

Lemma set_nth_same {A} (v : A) : forall l n, (n < length l)%nat -> nth_error (set_nth n v l) n = Some v.
Proof.
  induction l as [|x l IH]; intros [|n] H; cbn [length] in H; try lia; cbn [set_nth nth_error]; [reflexivity|].
  apply IH. lia.
Qed.

Lemma set_nth_other {A} (v : A) : forall l n m, n <> m -> nth_error (set_nth n v l) m = nth_error l m.
Proof.
  induction l as [|x l IH]; intros [|n] [|m] H; cbn [set_nth nth_error]; try reflexivity; try congruence.
  apply IH. congruence.
Qed.

Lemma set_nth_map_same {A B} (f : A -> B) (v : A) : forall l n x,
  nth_error l n = Some x -> f v = f x -> map f (set_nth n v l) = map f l.
Proof.
  induction l as [|y l IH]; intros [|n] x Hx Hf; cbn [nth_error] in Hx; try discriminate; cbn [set_nth map].
  - inversion Hx; subst. rewrite Hf. reflexivity.
  - rewrite (IH n x Hx Hf). reflexivity.
Qed.

Lemma record_index_spec pfbs pi bi c pfbs' : record_index pfbs pi bi c = Ok pfbs' ->
  idx_at pfbs' pi bi = Some (u32 c) /\
  (forall pi' bi', (pi', bi') <> (pi, bi) -> idx_at pfbs' pi' bi' = idx_at pfbs pi' bi') /\
  pfb_shape pfbs' = pfb_shape pfbs.
Proof.
  unfold record_index. destruct (nth_error pfbs (N.to_nat pi)) as [p|] eqn:Ep; [|discriminate].
  destruct (lenN (pfb_idx p) <=? bi) eqn:Eb; [discriminate|]. intros H. inversion H; subst pfbs'. clear H.
  assert (Hpi : (N.to_nat pi < length pfbs)%nat) by (apply nth_error_Some; congruence).
  assert (Hbi : (N.to_nat bi < length (pfb_idx p))%nat) by (unfold lenN in Eb; lia).
  split; [|split].
  - unfold idx_at. rewrite set_nth_same by exact Hpi. cbn [pfb_idx]. apply set_nth_same, Hbi.
  - intros pi' bi' Hne. unfold idx_at.
    destruct (N.eq_dec pi' pi) as [->|Hp].
    + rewrite set_nth_same by exact Hpi. rewrite Ep. cbn [pfb_idx].
      apply set_nth_other. intros E. apply Hne. f_equal. lia.
    + rewrite set_nth_other by lia. reflexivity.
  - unfold pfb_shape. apply (set_nth_map_same _ _ _ _ p Ep). cbn [pfb_tx pfb_idx].
    rewrite set_nth_length. reflexivity.
Qed.

Definition el_key (e : element) : N * N := (e_pfb_index e, e_blob_index e).

Lemma record_all_spec : forall ps pfbs pfbs', record_all pfbs ps = Ok pfbs' ->
  pfb_shape pfbs' = pfb_shape pfbs /\
  (forall pi bi, ~ In (pi, bi) (map (fun p => el_key (fst p)) ps) -> idx_at pfbs' pi bi = idx_at pfbs pi bi) /\
  (NoDup (map (fun p => el_key (fst p)) ps) ->
   forall e i, In (e, i) ps -> idx_at pfbs' (e_pfb_index e) (e_blob_index e) = Some (u32 i)).
Proof.
  induction ps as [|[e0 c0] tl IH]; intros pfbs pfbs' H; cbn [record_all] in H.
  - inversion H; subst. split; [reflexivity|]. split; [reflexivity|]. intros _ e i [].
  - destruct (record_index pfbs (e_pfb_index e0) (e_blob_index e0) c0) as [p1| |] eqn:E1; try discriminate.
    cbn [bind] in H. destruct (record_index_spec _ _ _ _ _ E1) as (Hset & Hoth & Hshape).
    destruct (IH _ _ H) as (IHshape & IHoth & IHset). cbn [map fst].
    split; [congruence|]. split.
    + intros pi bi Hnin. rewrite IHoth by (intros Hc; apply Hnin; right; exact Hc).
      apply Hoth. intros Hc. apply Hnin. left. unfold el_key. congruence.
    + intros Hnd e i Hin. inversion Hnd as [|? ? Hnotin Hnd']; subst.
      destruct Hin as [Heq|Hin].
      * inversion Heq; subst e0 c0. rewrite IHoth by exact Hnotin. exact Hset.
      * apply IHset; assumption.
Qed.

Lemma pfb_shape_length a b : pfb_shape a = pfb_shape b -> length a = length b.
Proof. intros H. apply (f_equal (@length _)) in H. unfold pfb_shape in H. rewrite !map_length in H. exact H. Qed.

Lemma pfb_shape_txs a b : pfb_shape a = pfb_shape b -> map pfb_tx a = map pfb_tx b.
Proof.
  intros H. apply (f_equal (map fst)) in H. unfold pfb_shape in H. rewrite !map_map in H. exact H.
Qed.

Lemma pfb_shape_slots a b : pfb_shape a = pfb_shape b ->
  map (fun p => length (pfb_idx p)) a = map (fun p => length (pfb_idx p)) b.
Proof.
  intros H. apply (f_equal (map snd)) in H. unfold pfb_shape in H. rewrite !map_map in H. exact H.
Qed.

Lemma idx_at_in_range pfbs pi bi v : idx_at pfbs pi bi = Some v ->
  exists p, nth_error pfbs (N.to_nat pi) = Some p /\ nth_error (pfb_idx p) (N.to_nat bi) = Some v /\
            pi < lenN pfbs /\ bi < lenN (pfb_idx p).
Proof.
  unfold idx_at. destruct (nth_error pfbs (N.to_nat pi)) as [p|] eqn:Ep; [|discriminate]. intros H.
  exists p. split; [reflexivity|split; [exact H|]].
  assert (N.to_nat pi < length pfbs)%nat by (apply nth_error_Some; congruence).
  assert (N.to_nat bi < length (pfb_idx p))%nat by (apply nth_error_Some; congruence).
  unfold lenN. lia.
Qed.

Lemma place_keys thr c els : map (fun p => el_key (fst p)) (place thr c els) = map el_key els.
Proof. rewrite <- (place_fst els thr c) at 2. rewrite map_map. reflexivity. Qed.

(* ---------- the loop, assembled ---------- *)
(* the state in which Export enters the loop *)
Definition init_state (start : N) (pfbs : list pfb) : blob_loop_state := mk_bls start start start pfbs [].

Theorem export_blobs_layout thr start pfbs els st' : 1 <= thr -> Forall el_ok els ->
  export_blobs thr true els (init_state start pfbs) = Ok st' ->
  bl_shares st' = region thr true start [] 0 els /\
  bl_nrs st' = start_of thr true start els /\
  bl_cursor st' = end_cursor thr start els /\
  lenN (bl_shares st') = bl_cursor st' - bl_nrs st' /\
  start <= bl_nrs st' /\ bl_nrs st' <= bl_cursor st' /\
  record_all pfbs (place thr start els) = Ok (bl_pfbs st').
Proof.
  intros Hthr Hok H.
  destruct (export_blobs_spec els thr true (init_state start pfbs) st' [] 0 Hthr Hok eq_refl
              ltac:(discriminate) H) as (Hsh & Hcur & _ & Hnrs & Hrec).
  cbn [init_state bl_shares bl_cursor bl_nrs bl_pfbs app] in *.
  assert (Hnrs' : bl_nrs st' = start_of thr true start els).
  { rewrite Hnrs. destruct els; reflexivity. }
  rewrite Hsh, Hnrs', Hcur. repeat split; try assumption.
  - apply region_length; assumption.
  - apply start_of_ge, Hthr.
  - apply start_of_le_end, Hthr.
Qed.

(* truthfulness, stated on the loop's result *)
Theorem export_blobs_truthful thr start pfbs els st' e i : 1 <= thr -> Forall el_ok els ->
  export_blobs thr true els (init_state start pfbs) = Ok st' ->
  In (e, i) (place thr start els) ->
  bl_nrs st' <= i /\ i + e_num_shares e <= bl_cursor st' /\
  firstn (N.to_nat (e_num_shares e)) (skipn (N.to_nat (i - bl_nrs st')) (bl_shares st')) = blob_spec (e_blob e).
Proof.
  intros Hthr Hok H Hin.
  destruct (export_blobs_layout thr start pfbs els st' Hthr Hok H) as (-> & -> & -> & _).
  apply region_truthful; assumption.
Qed.

(* the same from any state satisfying the loop invariant (the loop already running) *)
Theorem export_blobs_truthful_running thr els st st' pns pver e i : 1 <= thr -> Forall el_ok els ->
  bl_end_last st = bl_cursor st ->
  last_is (bl_shares st) pns pver -> length pns = 29%nat -> pver <= 127 ->
  bl_nrs st <= bl_cursor st -> lenN (bl_shares st) = bl_cursor st - bl_nrs st ->
  export_blobs thr false els st = Ok st' ->
  In (e, i) (place thr (bl_cursor st) els) ->
  bl_nrs st' = bl_nrs st /\ bl_nrs st' <= i /\ i + e_num_shares e <= bl_cursor st' /\
  lenN (bl_shares st') = bl_cursor st' - bl_nrs st' /\
  firstn (N.to_nat (e_num_shares e)) (skipn (N.to_nat (i - bl_nrs st')) (bl_shares st')) = blob_spec (e_blob e).
Proof.
  intros Hthr Hok Hend Hlast Hpns Hpver Hle Hlen H Hin.
  destruct (export_blobs_spec els thr false st st' pns pver Hthr Hok Hend ltac:(auto) H)
    as (Hsh & Hcur & _ & Hnrs & _).
  destruct (region_truthful els thr false (bl_cursor st) pns pver e i Hthr Hok Hin) as (H1 & H2 & H3).
  unfold start_of in H1, H3.
  pose proof (region_length els thr false (bl_cursor st) pns pver Hthr Hok) as Hrl. unfold start_of in Hrl.
  pose proof (end_cursor_ge els thr (bl_cursor st) Hthr) as Hge.
  rewrite Hnrs, Hcur, Hsh. split; [reflexivity|]. split; [lia|]. split; [exact H2|]. split.
  - rewrite lenN_app, Hrl, Hlen. lia.
  - rewrite <- H3. f_equal.
    replace (N.to_nat (i - bl_nrs st)) with (length (bl_shares st) + N.to_nat (i - bl_cursor st))%nat
      by (unfold lenN in Hlen; lia).
    rewrite <- skipn_add. rewrite skipn_app, skipn_all, Nat.sub_diag, skipn_O. reflexivity.
Qed.

(* the gap between consecutive blobs, on the loop's result *)
Theorem export_blobs_gap thr start pfbs els st' k e1 i1 e2 i2 : 1 <= thr -> Forall el_ok els ->
  export_blobs thr true els (init_state start pfbs) = Ok st' ->
  nth_error (place thr start els) k = Some (e1, i1) ->
  nth_error (place thr start els) (S k) = Some (e2, i2) ->
  let gap := i2 - (i1 + e_num_shares e1) in
  i1 + e_num_shares e1 <= i2 /\
  i2 = next_share_index (i1 + e_num_shares e1) (e_num_shares e2) thr /\
  firstn (N.to_nat gap) (skipn (N.to_nat (i1 + e_num_shares e1 - bl_nrs st')) (bl_shares st')) =
  repeat (padding_spec (b_ns (e_blob e1)) (b_ver (e_blob e1))) (N.to_nat gap).
Proof.
  intros Hthr Hok H H1 H2 gap.
  destruct (export_blobs_layout thr start pfbs els st' Hthr Hok H) as (-> & -> & _).
  destruct (region_gap els thr true start [] 0 k e1 i1 e2 i2 Hthr Hok H1 H2) as (pre & post & E & Hlen & Hi2).
  pose proof (nth_error_In _ _ H1) as Hin1.
  destruct (region_truthful els thr true start [] 0 e1 i1 Hthr Hok Hin1) as (Hle & _ & _).
  assert (Hel : el_ok e1).
  { rewrite Forall_forall in Hok. apply Hok. eapply place_in_els, Hin1. }
  destruct Hel as [_ Hn].
  assert (Hge : i1 + e_num_shares e1 <= i2) by (rewrite Hi2; apply nsi_ge, Hthr).
  split; [exact Hge|split; [exact Hi2|]].
  rewrite E. rewrite (app_assoc pre).
  apply firstn_skipn_mid.
  - rewrite repeat_length. reflexivity.
  - rewrite app_length. unfold lenN in *. lia.
Qed.

(* ---------- 5. copy(dst[off:], src) and WriteSquare ---------- *)
Lemma copy_at_spec dst off src r : copy_at dst off src = Ok r ->
  off <= lenN dst /\ length r = length dst /\
  (forall k, (k <= N.to_nat off)%nat -> firstn k r = firstn k dst) /\
  (off + lenN src <= lenN dst -> firstn (length src) (skipn (N.to_nat off) r) = src) /\
  (forall k, (N.to_nat (off + lenN src) <= k)%nat -> skipn k r = skipn k dst).
Proof.
  unfold copy_at. destruct (lenN dst <? off) eqn:E; [discriminate|]. intros H. inversion H; subst r. clear H.
  unfold takeN, dropN, lenN in *.
  set (o := N.to_nat off) in *.
  set (src' := firstn (N.to_nat (N.of_nat (length dst) - off)) src).
  assert (Ho : (o <= length dst)%nat) by lia.
  assert (Hla : length (firstn o dst) = o) by (rewrite firstn_length; lia).
  assert (Hlb : (length src' <= length src /\ o + length src' <= length dst)%nat)
    by (unfold src'; rewrite firstn_length; lia).
  replace (N.to_nat (off + N.of_nat (length src'))) with (o + length src')%nat by lia.
  split; [lia|]. split; [|split; [|split]].
  - rewrite !app_length, Hla, skipn_length. lia.
  - intros k Hk. rewrite firstn_app, Hla. replace (k - o)%nat with 0%nat by lia.
    rewrite firstn_O, app_nil_r, firstn_firstn. f_equal. lia.
  - intros Hfit. assert (Es : src' = src) by (unfold src'; apply firstn_all2; lia).
    rewrite Es. apply firstn_skipn_mid; [reflexivity|symmetry; exact Hla].
  - intros k Hk. rewrite skipn_app, Hla. rewrite (skipn_all2 (firstn o dst)) by lia. cbn [app].
    rewrite skipn_app. rewrite (skipn_all2 src') by lia. cbn [app].
    rewrite skipn_add. f_equal. lia.
Qed.

Lemma copy_at_lenN dst off src r : copy_at dst off src = Ok r -> lenN r = lenN dst.
Proof. intros H. unfold lenN. f_equal. apply (copy_at_spec _ _ _ _ H). Qed.

Lemma firstn_window_eq {A} (l l' : list A) a b :
  firstn (a + b) l = firstn (a + b) l' -> firstn b (skipn a l) = firstn b (skipn a l').
Proof. intros H. rewrite !firstn_skipn_comm, H. reflexivity. Qed.

(* WriteSquare puts the blob region at the index of the first blob *)
Lemma write_square_blob_region txw pfbw bs nrs ss sq : write_square txw pfbw bs nrs ss = Ok sq ->
  lenN sq = ss * ss /\ nrs + lenN bs <= ss * ss /\
  firstn (length bs) (skipn (N.to_nat nrs) sq) = bs.
Proof.
  unfold write_square.
  destruct (nrs <? cs_count txw + cs_count pfbw) eqn:E1; [discriminate|].
  destruct (reserved_padding_shares _) as [padding| |]; try discriminate. cbn [bind].
  destruct (ss * ss <? nrs + lenN bs) eqn:E2; [discriminate|].
  destruct (cs_export txw) as [[? tx_shares]| |]; try discriminate. cbn [bind].
  destruct (cs_export pfbw) as [[? pfb_shares]| |]; try discriminate. cbn [bind].
  set (sq0 := repeat ([] : share) (N.to_nat (ss * ss))).
  assert (H0 : lenN sq0 = ss * ss) by (unfold sq0; rewrite lenN_repeat; lia).
  destruct (copy_at sq0 0 tx_shares) as [sq1| |] eqn:C1; try discriminate. cbn [bind].
  apply copy_at_lenN in C1.
  destruct (copy_at sq1 _ pfb_shares) as [sq2| |] eqn:C2; try discriminate. cbn [bind].
  apply copy_at_lenN in C2.
  assert (H3 : forall sq3,
    (if 0 <? lenN bs then do s <- copy_at sq2 (cs_count txw + cs_count pfbw) padding; copy_at s nrs bs
     else Ok sq2) = Ok sq3 ->
    lenN sq3 = ss * ss /\ firstn (length bs) (skipn (N.to_nat nrs) sq3) = bs).
  { intros sq3 H. destruct (0 <? lenN bs) eqn:E3.
    - destruct (copy_at sq2 _ padding) as [s| |] eqn:C3; try discriminate. cbn [bind] in H.
      apply copy_at_lenN in C3. pose proof (copy_at_lenN _ _ _ _ H) as C4.
      split; [congruence|]. apply (copy_at_spec _ _ _ _ H). lia.
    - inversion H; subst sq3. split; [congruence|].
      assert (length bs = 0)%nat by (unfold lenN in E3; lia).
      destruct bs; [|discriminate]. reflexivity. }
  destruct (if 0 <? lenN bs then _ else _) as [sq3| |] eqn:C3; try discriminate. cbn [bind].
  destruct (H3 sq3 eq_refl) as [Hl3 Hw3].
  destruct (nrs + lenN bs <? ss * ss) eqn:E4.
  - destruct (tail_padding_shares _) as [tail| |]; try discriminate. cbn [bind]. intros H.
    pose proof (copy_at_lenN _ _ _ _ H) as C5.
    split; [congruence|]. split; [lia|].
    rewrite <- Hw3 at 2. apply firstn_window_eq.
    apply (copy_at_spec _ _ _ _ H). unfold lenN. lia.
  - intros H. inversion H; subst sq. split; [exact Hl3|]. split; [lia|exact Hw3].
Qed.

(* ---------- Builder.Export ---------- *)
(* (the stable sort is studied in SortProofs; here only: it permutes) *)
Lemma bl_insert_perm e l : Permutation (insert_el e l) (e :: l).
Proof.
  induction l as [|x l IH]; cbn [insert_el]; [apply Permutation_refl|].
  destruct (bytes_cmp (b_ns (e_blob e)) (b_ns (e_blob x))); try apply Permutation_refl.
  eapply Permutation_trans; [apply perm_skip, IH|apply perm_swap].
Qed.

Lemma bl_sort_perm l : Permutation (sort_elements l) l.
Proof.
  induction l as [|x l IH]; cbn [sort_elements fold_right]; [apply Permutation_refl|].
  eapply Permutation_trans; [apply bl_insert_perm|apply perm_skip, IH].
Qed.

(* the cursor at which the blob loop starts: the shares reserved for the two
   transaction sequences *)
Definition export_start (b : builder) : N :=
  Z.to_N (counter_size (bd_txc b) + counter_size (bd_pfbc b)).

(* the (element, share index) pairs of Export, in the order the blobs are laid out *)
Definition export_place (b : builder) : list (element * N) :=
  place (bd_thr b) (export_start b) (sort_elements (bd_blobs b)).

Definition export_region (b : builder) : list share :=
  region (bd_thr b) true (export_start b) [] 0 (sort_elements (bd_blobs b)).

Definition export_nrs (b : builder) : N :=
  start_of (bd_thr b) true (export_start b) (sort_elements (bd_blobs b)).

Theorem export_layout b b' sq : 1 <= bd_thr b -> Forall el_ok (bd_blobs b) ->
  (builder_is_empty b = true -> bd_blobs b = []) ->
  export b = Ok (b', sq) ->
  bd_txs b' = bd_txs b /\ bd_blobs b' = sort_elements (bd_blobs b) /\
  bd_thr b' = bd_thr b /\ bd_max b' = bd_max b /\
  pfb_shape (bd_pfbs b') = pfb_shape (bd_pfbs b) /\
  record_all (bd_pfbs b) (export_place b) = Ok (bd_pfbs b') /\
  export_nrs b + lenN (export_region b) <= lenN sq /\
  firstn (length (export_region b)) (skipn (N.to_nat (export_nrs b)) sq) = export_region b.
Proof.
  intros Hthr Hok Hempty. unfold export, export_place, export_region, export_nrs.
  destruct (builder_is_empty b) eqn:Eemp.
  - rewrite (Hempty eq_refl). cbn [sort_elements fold_right place region record_all].
    destruct empty_square as [sq0| |]; try discriminate. cbn [bind]. intros H. inversion H; subst b' sq0.
    rewrite (Hempty eq_refl). repeat split; try reflexivity.
    unfold builder_is_empty in Eemp. unfold start_of, export_start, lenN. cbn [length]. lia.
  - assert (Hoks : Forall el_ok (sort_elements (bd_blobs b))).
    { eapply Permutation_Forall; [apply Permutation_sym, bl_sort_perm|exact Hok]. }
    destruct (new_csplitter tx_ns 0) as [txw0| |]; try discriminate. cbn [bind].
    destruct (write_txs txw0 (bd_txs b)) as [txw| |]; try discriminate. cbn [bind].
    fold (export_start b). fold (init_state (export_start b) (bd_pfbs b)).
    destruct (export_blobs _ true _ _) as [st| |] eqn:Eloop; try discriminate. cbn [bind].
    destruct (new_csplitter pfb_ns 0) as [pfbw0| |]; try discriminate. cbn [bind].
    destruct (write_txs pfbw0 _) as [pfbw| |]; try discriminate. cbn [bind].
    destruct (counter_size (bd_pfbc b) <? Z.of_N (cs_count pfbw))%Z; [discriminate|].
    destruct (write_square _ _ _ _ _) as [sq'| |] eqn:Ews; try discriminate. cbn [bind].
    intros H. inversion H; subst b' sq'. cbn [bd_txs bd_blobs bd_pfbs bd_thr bd_max].
    destruct (export_blobs_layout _ _ _ _ _ Hthr Hoks Eloop) as (Hsh & Hnrs & _ & _ & _ & _ & Hrec).
    destruct (write_square_blob_region _ _ _ _ _ _ Ews) as (Hlen & Hfit & Hwin).
    rewrite Hsh, Hnrs in *.
    destruct (record_all_spec _ _ _ Hrec) as (Hshape & _).
    repeat split; try assumption; try reflexivity. rewrite Hlen. exact Hfit.
Qed.

(* C04, truthfulness: the blob's own share encoding appears verbatim at its index *)
Theorem export_truthful b b' sq e i : 1 <= bd_thr b -> Forall el_ok (bd_blobs b) ->
  (builder_is_empty b = true -> bd_blobs b = []) ->
  export b = Ok (b', sq) ->
  In (e, i) (export_place b) ->
  i + e_num_shares e <= lenN sq /\
  firstn (N.to_nat (e_num_shares e)) (skipn (N.to_nat i) sq) = blob_spec (e_blob e).
Proof.
  intros Hthr Hok Hempty H Hin.
  destruct (export_layout b b' sq Hthr Hok Hempty H) as (_ & _ & _ & _ & _ & _ & Hfit & Hwin).
  assert (Hoks : Forall el_ok (sort_elements (bd_blobs b))).
  { eapply Permutation_Forall; [apply Permutation_sym, bl_sort_perm|exact Hok]. }
  unfold export_place, export_region, export_nrs in *.
  destruct (region_truthful _ _ true _ [] 0 e i Hthr Hoks Hin) as (Hle & Hend & Htr).
  pose proof (region_length _ _ true (export_start b) [] 0 Hthr Hoks) as Hrl.
  pose proof (start_of_le_end (bd_thr b) true (export_start b) (sort_elements (bd_blobs b)) Hthr) as Hse.
  split; [lia|].
  rewrite <- Htr.
  replace (N.to_nat i) with (N.to_nat (start_of (bd_thr b) true (export_start b) (sort_elements (bd_blobs b)))
                             + N.to_nat (i - start_of (bd_thr b) true (export_start b) (sort_elements (bd_blobs b))))%nat by lia.
  apply firstn_skipn_window; [exact Hwin|]. unfold lenN in Hrl. lia.
Qed.

(* C04, the recorded index: it is stored in slot (pfb index, blob index) of the
   wrapped PFBs of the exported builder, as a uint32 *)
Theorem export_recorded b b' sq e i : 1 <= bd_thr b -> Forall el_ok (bd_blobs b) ->
  (builder_is_empty b = true -> bd_blobs b = []) ->
  NoDup (map el_key (bd_blobs b)) ->
  export b = Ok (b', sq) ->
  In (e, i) (export_place b) ->
  idx_at (bd_pfbs b') (e_pfb_index e) (e_blob_index e) = Some (u32 i) /\
  (lenN sq <= 4294967296 -> u32 i = i).
Proof.
  intros Hthr Hok Hempty Hnd H Hin.
  destruct (export_layout b b' sq Hthr Hok Hempty H) as (_ & _ & _ & _ & _ & Hrec & _).
  destruct (record_all_spec _ _ _ Hrec) as (_ & _ & Hset). split.
  - apply Hset; [|exact Hin]. unfold export_place. rewrite place_keys.
    eapply Permutation_NoDup; [|exact Hnd]. apply Permutation_map, Permutation_sym, bl_sort_perm.
  - intros Hsq. destruct (export_truthful b b' sq e i Hthr Hok Hempty H Hin) as (Hfit & _).
    assert (Hel : el_ok e).
    { rewrite Forall_forall in Hok. apply Hok. eapply Permutation_in; [apply bl_sort_perm|].
      eapply place_in_els, Hin. }
    destruct Hel as [_ Hn]. pose proof (blob_spec_nonempty (e_blob e)). apply u32_small. lia.
Qed.

(* slots of blobs that are not in the builder keep their value *)
Lemma export_other_slots b b' sq pi bi : 1 <= bd_thr b -> Forall el_ok (bd_blobs b) ->
  (builder_is_empty b = true -> bd_blobs b = []) ->
  export b = Ok (b', sq) ->
  ~ In (pi, bi) (map el_key (bd_blobs b)) ->
  idx_at (bd_pfbs b') pi bi = idx_at (bd_pfbs b) pi bi.
Proof.
  intros Hthr Hok Hempty H Hnin.
  destruct (export_layout b b' sq Hthr Hok Hempty H) as (_ & _ & _ & _ & _ & Hrec & _).
  destruct (record_all_spec _ _ _ Hrec) as (_ & Hoth & _). apply Hoth.
  unfold export_place. rewrite place_keys. intros Hc. apply Hnin.
  eapply Permutation_in; [|exact Hc]. apply Permutation_map, bl_sort_perm.
Qed.

Lemma export_done b b' sq : builder_is_empty b = false -> export b = Ok (b', sq) -> bd_done b' = true.
Proof.
  intros Eemp. unfold export. rewrite Eemp.
  destruct (new_csplitter tx_ns 0) as [txw0| |]; try discriminate. cbn [bind].
  destruct (write_txs txw0 (bd_txs b)) as [txw| |]; try discriminate. cbn [bind].
  destruct (export_blobs _ true _ _) as [st| |]; try discriminate. cbn [bind].
  destruct (new_csplitter pfb_ns 0) as [pfbw0| |]; try discriminate. cbn [bind].
  destruct (write_txs pfbw0 _) as [pfbw| |]; try discriminate. cbn [bind].
  destruct (counter_size (bd_pfbc b) <? Z.of_N (cs_count pfbw))%Z; [discriminate|].
  destruct (write_square _ _ _ _ _) as [sq'| |]; try discriminate. cbn [bind].
  intros H. inversion H; subst. reflexivity.
Qed.

(* ---------- 6. the queries ---------- *)
Lemma NoDup_map_inj {A B} (f : A -> B) : forall l x y, NoDup (map f l) -> In x l -> In y l -> f x = f y -> x = y.
Proof.
  induction l as [|a l IH]; intros x y Hnd Hx Hy Hf; [destruct Hx|].
  cbn [map] in Hnd. inversion Hnd as [|? ? Hnin Hnd']; subst.
  destruct Hx as [->|Hx], Hy as [->|Hy].
  - reflexivity.
  - exfalso. apply Hnin. rewrite Hf. apply in_map, Hy.
  - exfalso. apply Hnin. rewrite <- Hf. apply in_map, Hx.
  - apply IH; assumption.
Qed.

(* the index checks of FindBlobStartingIndex and BlobShareLength: a transaction index
   that is not the index of a blob transaction, or a negative blob index, is an error *)
Theorem blob_queries_out_of_range b pi bi :
  (pi < Z.of_N (lenN (bd_txs b)) \/ Z.of_N (lenN (bd_txs b)) + Z.of_N (lenN (bd_pfbs b)) <= pi \/ bi < 0)%Z ->
  find_blob_starting_index b pi bi = Err /\ blob_share_length b pi bi = Err.
Proof.
  intros H. unfold find_blob_starting_index, blob_share_length.
  destruct (pi <? Z.of_N (lenN (bd_txs b)))%Z eqn:E1; [split; reflexivity|].
  destruct (Z.of_N (lenN (bd_pfbs b)) <=? pi - Z.of_N (lenN (bd_txs b)))%Z eqn:E2; [split; reflexivity|].
  destruct (bi <? 0)%Z eqn:E3; [split; reflexivity|]. lia.
Qed.

(* BlobShareLength on in-range indexes: the predicted share count of the first element
   carrying these indexes, an error if there is none *)
Theorem blob_share_length_in_range b pi bi :
  (Z.of_N (lenN (bd_txs b)) <= pi < Z.of_N (lenN (bd_txs b)) + Z.of_N (lenN (bd_pfbs b)))%Z -> (0 <= bi)%Z ->
  blob_share_length b pi bi =
  match find (fun e => Z.eqb (Z.of_N (e_pfb_index e)) (pi - Z.of_N (lenN (bd_txs b)))
                       && Z.eqb (Z.of_N (e_blob_index e)) bi) (bd_blobs b) with
  | Some e => Ok (e_num_shares e)
  | None => Err
  end.
Proof.
  intros H1 H2. unfold blob_share_length.
  replace (pi <? Z.of_N (lenN (bd_txs b)))%Z with false by lia.
  replace (Z.of_N (lenN (bd_pfbs b)) <=? pi - Z.of_N (lenN (bd_txs b)))%Z with false by lia.
  replace (bi <? 0)%Z with false by lia. reflexivity.
Qed.

Lemma blob_share_length_of_element b e : NoDup (map el_key (bd_blobs b)) -> In e (bd_blobs b) ->
  e_pfb_index e < lenN (bd_pfbs b) ->
  blob_share_length b (Z.of_N (lenN (bd_txs b)) + Z.of_N (e_pfb_index e)) (Z.of_N (e_blob_index e))
  = Ok (e_num_shares e).
Proof.
  intros Hnd Hin Hpi. rewrite blob_share_length_in_range by lia.
  destruct (find _ (bd_blobs b)) as [e'|] eqn:Ef.
  - apply find_some in Ef. destruct Ef as [Hin' Hp].
    assert (e' = e); [|subst; reflexivity].
    apply (NoDup_map_inj el_key (bd_blobs b)); try assumption.
    unfold el_key. f_equal; lia.
  - apply (find_none _ _ Ef) in Hin. lia.
Qed.

Lemma blob_share_length_no_element b pi bi :
  (forall e, In e (bd_blobs b) ->
     ~ (Z.of_N (lenN (bd_txs b)) + Z.of_N (e_pfb_index e) = pi /\ Z.of_N (e_blob_index e) = bi)%Z) ->
  blob_share_length b pi bi = Err.
Proof.
  intros H. unfold blob_share_length.
  destruct (pi <? Z.of_N (lenN (bd_txs b)))%Z; [reflexivity|].
  destruct (Z.of_N (lenN (bd_pfbs b)) <=? pi - Z.of_N (lenN (bd_txs b)))%Z; [reflexivity|].
  destruct (bi <? 0)%Z; [reflexivity|].
  destruct (find _ (bd_blobs b)) as [e'|] eqn:Ef; [|reflexivity].
  apply find_some in Ef. destruct Ef as [Hin' Hp]. exfalso. apply (H e' Hin'). lia.
Qed.

(* FindBlobStartingIndex on in-range indexes *)
Lemma find_blob_starting_index_in_range b pi bi :
  (Z.of_N (lenN (bd_txs b)) <= pi < Z.of_N (lenN (bd_txs b)) + Z.of_N (lenN (bd_pfbs b)))%Z -> (0 <= bi)%Z ->
  find_blob_starting_index b pi bi =
  do b1 <- (if bd_done b then Ok b else do r <- export b; Ok (fst r));
  match nth_error (bd_pfbs b1) (Z.to_nat (pi - Z.of_N (lenN (bd_txs b)))) with
  | None => Fault
  | Some p => match nth_error (pfb_idx p) (Z.to_nat bi) with None => Err | Some i => Ok (b1, i) end
  end.
Proof.
  intros H1 H2. unfold find_blob_starting_index.
  replace (pi <? Z.of_N (lenN (bd_txs b)))%Z with false by lia.
  replace (Z.of_N (lenN (bd_pfbs b)) <=? pi - Z.of_N (lenN (bd_txs b)))%Z with false by lia.
  replace (bi <? 0)%Z with false by lia. reflexivity.
Qed.

(* the lookup of FindBlobStartingIndex is [idx_at] *)
Lemma lookup_idx_at pfbs (pi bi : N) v (b1 : builder) : idx_at pfbs pi bi = Some v ->
  match nth_error pfbs (N.to_nat pi) with
  | None => Fault
  | Some p => match nth_error (pfb_idx p) (N.to_nat bi) with None => Err | Some i => Ok (b1, i) end
  end = Ok (b1, v).
Proof.
  unfold idx_at. destruct (nth_error pfbs (N.to_nat pi)) as [p|]; [|discriminate].
  intros ->. reflexivity.
Qed.

(* C04, queries: for a blob of the builder the two queries return the recorded index
   and the predicted share count, before and after the export *)
Theorem blob_queries_spec b b' sq e i : 1 <= bd_thr b -> Forall el_ok (bd_blobs b) ->
  (builder_is_empty b = true -> bd_blobs b = []) ->
  NoDup (map el_key (bd_blobs b)) ->
  export b = Ok (b', sq) ->
  In (e, i) (export_place b) ->
  let pi := (Z.of_N (lenN (bd_txs b)) + Z.of_N (e_pfb_index e))%Z in
  let bi := Z.of_N (e_blob_index e) in
  (bd_done b = false -> find_blob_starting_index b pi bi = Ok (b', u32 i)) /\
  find_blob_starting_index b' pi bi = Ok (b', u32 i) /\
  blob_share_length b pi bi = Ok (e_num_shares e) /\
  blob_share_length b' pi bi = Ok (e_num_shares e).
Proof.
  intros Hthr Hok Hempty Hnd H Hin pi bi.
  destruct (export_layout b b' sq Hthr Hok Hempty H) as (Htxs & Hblobs & _ & _ & Hshape & _).
  destruct (export_recorded b b' sq e i Hthr Hok Hempty Hnd H Hin) as (Hidx & _).
  destruct (idx_at_in_range _ _ _ _ Hidx) as (p & Hp & Hv & Hpi & Hbi).
  pose proof (pfb_shape_length _ _ Hshape) as Hlen.
  assert (Hine : In e (bd_blobs b)).
  { eapply Permutation_in; [apply bl_sort_perm|]. eapply place_in_els, Hin. }
  assert (Hnonempty : builder_is_empty b = false).
  { destruct (builder_is_empty b); [|reflexivity]. rewrite (Hempty eq_refl) in Hine. destruct Hine. }
  pose proof (export_done b b' sq Hnonempty H) as Hdone.
  assert (Hpi' : e_pfb_index e < lenN (bd_pfbs b)) by (unfold lenN in *; lia).
  assert (Hq : forall b0, bd_txs b0 = bd_txs b -> length (bd_pfbs b0) = length (bd_pfbs b) ->
     forall b1, (if bd_done b0 then Ok b0 else do r <- export b0; Ok (fst r)) = Ok b1 ->
     bd_pfbs b1 = bd_pfbs b' -> find_blob_starting_index b0 pi bi = Ok (b1, u32 i)).
  { intros b0 Ht Hl b1 Hb1 Hpf. rewrite find_blob_starting_index_in_range; unfold pi, bi, lenN in *; try rewrite Ht; try lia.
    rewrite Hb1. cbn [bind]. rewrite Hpf.
    replace (Z.to_nat (Z.of_N (N.of_nat (length (bd_txs b))) + Z.of_N (e_pfb_index e) - Z.of_N (N.of_nat (length (bd_txs b)))))
      with (N.to_nat (e_pfb_index e)) by lia.
    replace (Z.to_nat (Z.of_N (e_blob_index e))) with (N.to_nat (e_blob_index e)) by lia.
    apply lookup_idx_at, Hidx. }
  split; [|split; [|split]].
  - intros Hnd0. apply Hq; try reflexivity. rewrite Hnd0, H. reflexivity.
  - apply Hq; [exact Htxs|exact Hlen| |reflexivity]. rewrite Hdone. reflexivity.
  - apply blob_share_length_of_element; assumption.
  - unfold pi, bi. rewrite <- Htxs. apply blob_share_length_of_element.
    + rewrite Hblobs. eapply Permutation_NoDup; [|exact Hnd]. apply Permutation_map, Permutation_sym, bl_sort_perm.
    + rewrite Hblobs. eapply place_in_els, Hin.
    + unfold lenN in *. lia.
Qed.

(* a blob index at or beyond the number of blobs of the transaction: FindBlobStartingIndex
   reports an error (after exporting) *)
Theorem find_blob_starting_index_blob_index_high b b' sq pi bi p :
  1 <= bd_thr b -> Forall el_ok (bd_blobs b) -> (builder_is_empty b = true -> bd_blobs b = []) ->
  bd_done b = false -> export b = Ok (b', sq) ->
  (Z.of_N (lenN (bd_txs b)) <= pi)%Z ->
  nth_error (bd_pfbs b) (Z.to_nat (pi - Z.of_N (lenN (bd_txs b)))) = Some p ->
  (Z.of_N (lenN (pfb_idx p)) <= bi)%Z ->
  find_blob_starting_index b pi bi = Err.
Proof.
  intros Hthr Hok Hempty Hdone H Hlo Hp Hbi.
  destruct (export_layout b b' sq Hthr Hok Hempty H) as (_ & _ & _ & _ & Hshape & _).
  assert (Hlt : (Z.to_nat (pi - Z.of_N (lenN (bd_txs b))) < length (bd_pfbs b))%nat) by (apply nth_error_Some; congruence).
  rewrite find_blob_starting_index_in_range by (unfold lenN in *; lia).
  rewrite Hdone, H. cbn [bind fst].
  pose proof (pfb_shape_slots _ _ Hshape) as Hsl.
  apply (f_equal (fun l => nth_error l (Z.to_nat (pi - Z.of_N (lenN (bd_txs b)))))) in Hsl.
  rewrite !nth_error_map, Hp in Hsl.
  destruct (nth_error (bd_pfbs b') _) as [p'|]; [|discriminate]. cbn [option_map] in Hsl. inversion Hsl as [Hl].
  assert (Hnone : nth_error (pfb_idx p') (Z.to_nat bi) = None) by (apply nth_error_None; unfold lenN in Hbi; lia).
  rewrite Hnone. reflexivity.
Qed.

(* ---------- builders made by AppendTx / AppendBlobTx ---------- *)
Definition cnt_ok (c : counter) : Prop := (0 <= c_shares c /\ 0 <= c_rem c)%Z.

Lemma counter_add_pos c n : cnt_ok c -> (0 <= n)%Z ->
  let c' := fst (counter_add c n) in
  cnt_ok c' /\ (0 < counter_size c')%Z /\ c_last_shares c' = c_shares c /\ c_last_rem c' = c_rem c.
Proof.
  intros [Hs Hr] Hn. unfold counter_add.
  assert (Hd : (1 <= n + Z.of_N (delim_len (Z.to_N n)))%Z).
  { unfold delim_len, lenN. pose proof (put_uvarint_length (Z.to_N n)). lia. }
  set (d0 := (n + Z.of_N (delim_len (Z.to_N n)))%Z) in *. clearbody d0.
  destruct (c_shares c =? 0)%Z eqn:E0; [destruct (474 - c_rem c <=? d0)%Z eqn:E1|]; cbv beta iota.
  all: match goal with |- context [(478 - ?r <=? ?d)%Z] => destruct (478 - r <=? d)%Z eqn:E2 end; cbv beta iota.
  all: match goal with |- context [(0 <? ?d)%Z] => destruct (0 <? d)%Z eqn:E3 end; cbv beta iota.
  all: cbv zeta; cbn [fst c_shares c_rem c_last_shares c_last_rem]; unfold cnt_ok, counter_size;
       cbn [c_shares c_rem c_last_shares c_last_rem].
  all: match goal with |- context [(?r =? 0)%Z] => destruct (r =? 0)%Z eqn:E4 end.
  all: repeat split; try reflexivity; lia.
Qed.

Lemma counter_revert_add c n :
  let c' := counter_revert (fst (counter_add c n)) in
  c_shares c' = c_shares c /\ c_rem c' = c_rem c.
Proof.
  unfold counter_revert, counter_add.
  repeat match goal with |- context [let '(_, _) := ?x in _] => destruct x end.
  cbn. split; reflexivity.
Qed.

(* the element is what newElement computes from its blob and its two indexes *)
Definition made_by_new_element (thr : N) (e : element) : Prop :=
  e = new_element (e_blob e) (e_pfb_index e) (e_blob_index e) thr.

Lemma made_el_ok thr e : made_by_new_element thr e -> blob_ok (e_blob e) ->
  lenN (b_data (e_blob e)) + signer_len (e_blob e) < 4294967296 -> el_ok e.
Proof. intros -> Hb Hl. cbn [new_element e_blob] in *. apply new_element_ok; assumption. Qed.

(* what holds of every builder obtained from an empty one by AppendTx / AppendBlobTx,
   whether the transactions were accepted or not *)
Definition binv (b : builder) : Prop :=
  bd_done b = false /\
  NoDup (map el_key (bd_blobs b)) /\
  Forall (fun e => e_pfb_index e < lenN (bd_pfbs b)) (bd_blobs b) /\
  cnt_ok (bd_pfbc b) /\
  (bd_blobs b <> [] -> 0 < counter_size (bd_pfbc b))%Z /\
  Forall (made_by_new_element (bd_thr b)) (bd_blobs b).

Lemma binv_empty max thr : binv (empty_builder max thr).
Proof.
  unfold binv, empty_builder. cbn [bd_done bd_blobs bd_pfbs bd_pfbc map].
  split; [reflexivity|]. split; [constructor|]. split; [constructor|]. split; [|split].
  - unfold cnt_ok, new_counter. cbn. lia.
  - intros H. exfalso. apply H. reflexivity.
  - constructor.
Qed.

Lemma binv_not_empty b : binv b -> builder_is_empty b = true -> bd_blobs b = [].
Proof.
  intros (_ & _ & _ & _ & Hpos & _) He. destruct (bd_blobs b) as [|e l] eqn:E; [reflexivity|exfalso].
  unfold builder_is_empty in He. assert (0 < counter_size (bd_pfbc b))%Z by (apply Hpos; discriminate). lia.
Qed.

Lemma append_tx_inv b t : binv b -> binv (fst (append_tx b t)) /\ bd_thr (fst (append_tx b t)) = bd_thr b.
Proof.
  intros (Hd & Hnd & Hpi & Hc & Hpos & Hmade). unfold append_tx.
  destruct (counter_add (bd_txc b) (Z.of_N (lenN t))) as [c' diff].
  destruct (can_fit b diff); cbn [fst bd_thr]; (split; [|reflexivity]); unfold binv;
    cbn [bd_done bd_blobs bd_pfbs bd_pfbc];
    (split; [first [reflexivity|exact Hd]|]); (split; [exact Hnd|]); (split; [exact Hpi|]);
    (split; [exact Hc|split; [exact Hpos|exact Hmade]]).
Qed.

Lemma elements_of_keys : forall bs pi bi thr e, In e (elements_of bs pi bi thr) ->
  e_pfb_index e = pi /\ bi <= e_blob_index e.
Proof.
  induction bs as [|b bs IH]; intros pi bi thr e Hin; cbn [elements_of] in Hin; [destruct Hin|].
  destruct Hin as [<-|Hin]; [cbn; split; [reflexivity|lia]|].
  destruct (IH _ _ _ _ Hin). split; [assumption|lia].
Qed.

Lemma elements_of_made : forall bs pi bi thr, Forall (made_by_new_element thr) (elements_of bs pi bi thr).
Proof.
  induction bs as [|b bs IH]; intros pi bi thr; cbn [elements_of]; constructor; [reflexivity|apply IH].
Qed.

Lemma elements_of_nodup : forall bs pi bi thr, NoDup (map el_key (elements_of bs pi bi thr)).
Proof.
  induction bs as [|b bs IH]; intros pi bi thr; cbn [elements_of map]; constructor; [|apply IH].
  intros Hin. apply in_map_iff in Hin. destruct Hin as (e & Hk & Hin).
  destruct (elements_of_keys _ _ _ _ _ Hin) as [_ Hge]. unfold el_key, new_element in Hk. cbn in Hk.
  inversion Hk. lia.
Qed.

Lemma NoDup_app_intro {A} (l1 l2 : list A) : NoDup l1 -> NoDup l2 ->
  (forall x, In x l1 -> ~ In x l2) -> NoDup (l1 ++ l2).
Proof.
  induction l1 as [|a l1 IH]; intros H1 H2 Hd; [exact H2|].
  inversion H1; subst. cbn [app]. constructor.
  - intros Hin. apply in_app_or in Hin. destruct Hin as [Hin|Hin]; [contradiction|].
    apply (Hd a); [left; reflexivity|exact Hin].
  - apply IH; try assumption. intros x Hx. apply Hd. right. exact Hx.
Qed.

Lemma append_blob_tx_inv b bt : binv b ->
  binv (fst (append_blob_tx b bt)) /\ bd_thr (fst (append_blob_tx b bt)) = bd_thr b.
Proof.
  intros (Hd & Hnd & Hpi & Hc & Hpos & Hmade). unfold append_blob_tx.
  set (size := index_wrapper_size (btx_tx bt) (worst_case_share_indexes (length (btx_blobs bt)))).
  pose proof (counter_add_pos (bd_pfbc b) (Z.of_N size) Hc ltac:(lia)) as Hadd.
  pose proof (counter_revert_add (bd_pfbc b) (Z.of_N size)) as Hrev.
  destruct (counter_add (bd_pfbc b) (Z.of_N size)) as [c' diff]. cbn [fst] in Hadd, Hrev.
  destruct Hadd as (Hc' & Hpos' & _). destruct Hrev as [Hr1 Hr2].
  set (els := elements_of (btx_blobs bt) (lenN (bd_pfbs b)) 0 (bd_thr b)).
  destruct (can_fit b _); cbn [fst bd_thr]; (split; [|reflexivity]); unfold binv;
    cbn [bd_done bd_blobs bd_pfbs bd_pfbc].
  - split; [reflexivity|]. split; [|split; [|split; [exact Hc'|split; [intros _; exact Hpos'|]]]].
    + rewrite map_app. apply NoDup_app_intro; [exact Hnd|apply elements_of_nodup|].
      intros k Hk1 Hk2. apply in_map_iff in Hk1. destruct Hk1 as (e1 & <- & Hin1).
      apply in_map_iff in Hk2. destruct Hk2 as (e2 & Hk & Hin2).
      rewrite Forall_forall in Hpi. specialize (Hpi _ Hin1).
      destruct (elements_of_keys _ _ _ _ _ Hin2) as [Hp2 _]. unfold el_key in Hk. inversion Hk. lia.
    + apply Forall_app. split.
      * eapply Forall_impl; [|exact Hpi]. cbn beta. intros e He. rewrite lenN_app. lia.
      * apply Forall_forall. intros e He. destruct (elements_of_keys _ _ _ _ _ He) as [-> _].
        rewrite lenN_app. unfold lenN. cbn [length]. lia.
    + apply Forall_app. split; [exact Hmade|apply elements_of_made].
  - split; [exact Hd|]. split; [exact Hnd|]. split; [exact Hpi|]. split; [|split].
    + unfold cnt_ok in *. rewrite Hr1, Hr2. exact Hc.
    + intros Hne. specialize (Hpos Hne). unfold counter_size in *. rewrite Hr1, Hr2. exact Hpos.
    + exact Hmade.
Qed.

Lemma construct_loop_inv : forall txs b seen b', binv b -> construct_loop b seen txs = Ok b' ->
  binv b' /\ bd_thr b' = bd_thr b.
Proof.
  induction txs as [|t tl IH]; intros b seen b' Hinv H; cbn [construct_loop] in H.
  - inversion H; subst. split; [exact Hinv|reflexivity].
  - destruct (unmarshal_blob_tx t) as [| |bt].
    + destruct seen; [discriminate|].
      pose proof (append_tx_inv b t Hinv) as [Hi Ht].
      destruct (append_tx b t) as [b1 ok]. cbn [fst] in *. destruct ok; [|discriminate].
      destruct (IH _ _ _ Hi H) as [Hi' Ht']. split; [exact Hi'|congruence].
    + discriminate.
    + pose proof (append_blob_tx_inv b bt Hinv) as [Hi Ht].
      destruct (append_blob_tx b bt) as [b1 ok]. cbn [fst] in *. destruct ok; [|discriminate].
      destruct (IH _ _ _ Hi H) as [Hi' Ht']. split; [exact Hi'|congruence].
Qed.

Lemma new_builder_txs_inv max thr txs b : new_builder_txs max thr txs = Ok b -> binv b /\ bd_thr b = thr.
Proof.
  unfold new_builder_txs. destruct (negb (new_builder_ok max)); [discriminate|]. intros H.
  apply construct_loop_inv in H; [|apply binv_empty]. exact H.
Qed.

Lemma build_loop_inv : forall txs b normals blobs b' n' bl', binv b ->
  build_loop b txs normals blobs = Ok (b', n', bl') -> binv b' /\ bd_thr b' = bd_thr b.
Proof.
  induction txs as [|t tl IH]; intros b normals blobs b' n' bl' Hinv H; cbn [build_loop] in H.
  - inversion H; subst. split; [exact Hinv|reflexivity].
  - destruct (unmarshal_blob_tx t) as [| |bt].
    + pose proof (append_tx_inv b t Hinv) as [Hi Ht].
      destruct (append_tx b t) as [b1 ok]. cbn [fst] in *.
      destruct (IH _ _ _ _ _ _ Hi H) as [Hi' Ht']. split; [exact Hi'|congruence].
    + discriminate.
    + pose proof (append_blob_tx_inv b bt Hinv) as [Hi Ht].
      destruct (append_blob_tx b bt) as [b1 ok]. cbn [fst] in *.
      destruct (IH _ _ _ _ _ _ Hi H) as [Hi' Ht']. split; [exact Hi'|congruence].
Qed.

(* C04, BlobShareRange: for a blob of a kept blob transaction the query returns
   (recorded index, recorded index + share count) *)
Theorem blob_share_range_spec txs max thr b b' sq e i : 1 <= thr ->
  new_builder_txs max thr txs = Ok b -> Forall el_ok (bd_blobs b) ->
  export b = Ok (b', sq) ->
  In (e, i) (export_place b) ->
  blob_share_range txs (Z.of_N (lenN (bd_txs b)) + Z.of_N (e_pfb_index e)) (Z.of_N (e_blob_index e)) max thr
  = Ok (u32 i, u32 i + e_num_shares e).
Proof.
  intros Hthr Hnb Hok H Hin. destruct (new_builder_txs_inv _ _ _ _ Hnb) as [Hinv Ht]. subst thr.
  pose proof Hinv as (Hdone & Hnd & _).
  destruct (blob_queries_spec b b' sq e i Hthr Hok (binv_not_empty b Hinv) Hnd H Hin) as (Hf & _ & _ & Hl).
  unfold blob_share_range. rewrite Hnb. cbn [bind]. rewrite (Hf Hdone). cbn [bind]. rewrite Hl. reflexivity.
Qed.

Theorem blob_share_range_out_of_range txs max thr b pi bi :
  new_builder_txs max thr txs = Ok b ->
  (pi < Z.of_N (lenN (bd_txs b)) \/ Z.of_N (lenN (bd_txs b)) + Z.of_N (lenN (bd_pfbs b)) <= pi \/ bi < 0)%Z ->
  blob_share_range txs pi bi max thr = Err.
Proof.
  intros Hnb H. unfold blob_share_range. rewrite Hnb. cbn [bind].
  destruct (blob_queries_out_of_range b pi bi H) as [-> _]. reflexivity.
Qed.

(* ---------- the remaining C04 / C03 statements on Export ---------- *)
Theorem export_aligned b e i : 1 <= bd_thr b -> In (e, i) (export_place b) ->
  i mod subtree_width (e_num_shares e) (bd_thr b) = 0.
Proof.
  intros Hthr Hin. pose proof (place_aligned (sort_elements (bd_blobs b)) (bd_thr b) (export_start b) Hthr) as H.
  rewrite Forall_forall in H. apply (H _ Hin).
Qed.

Theorem export_ranges_sorted b : 1 <= bd_thr b ->
  map fst (export_place b) = sort_elements (bd_blobs b) /\
  StronglySorted range_before (export_place b).
Proof. intros Hthr. split; [apply place_fst|apply place_sorted, Hthr]. Qed.

(* the index of each blob is the least multiple of its subtree width at or after the end
   of the blob before it (for the first blob: after the reserved transaction shares) *)
Theorem export_least b k e i : 1 <= bd_thr b -> nth_error (export_place b) k = Some (e, i) ->
  let cur := end_cursor (bd_thr b) (export_start b) (firstn k (sort_elements (bd_blobs b))) in
  i = next_share_index cur (e_num_shares e) (bd_thr b) /\
  cur <= i /\ i < cur + subtree_width (e_num_shares e) (bd_thr b) /\
  forall m, m mod subtree_width (e_num_shares e) (bd_thr b) = 0 -> cur <= m -> i <= m.
Proof. intros Hthr H. apply place_least; assumption. Qed.

Theorem export_gap b b' sq k e1 i1 e2 i2 : 1 <= bd_thr b -> Forall el_ok (bd_blobs b) ->
  (builder_is_empty b = true -> bd_blobs b = []) ->
  export b = Ok (b', sq) ->
  nth_error (export_place b) k = Some (e1, i1) ->
  nth_error (export_place b) (S k) = Some (e2, i2) ->
  let gap := i2 - (i1 + e_num_shares e1) in
  i1 + e_num_shares e1 <= i2 /\
  i2 = next_share_index (i1 + e_num_shares e1) (e_num_shares e2) (bd_thr b) /\
  firstn (N.to_nat gap) (skipn (N.to_nat (i1 + e_num_shares e1)) sq) =
  repeat (padding_spec (b_ns (e_blob e1)) (b_ver (e_blob e1))) (N.to_nat gap).
Proof.
  intros Hthr Hok Hempty H H1 H2 gap.
  destruct (export_layout b b' sq Hthr Hok Hempty H) as (_ & _ & _ & _ & _ & _ & Hfit & Hwin).
  assert (Hoks : Forall el_ok (sort_elements (bd_blobs b))).
  { eapply Permutation_Forall; [apply Permutation_sym, bl_sort_perm|exact Hok]. }
  unfold export_place, export_region, export_nrs in *.
  set (els := sort_elements (bd_blobs b)) in *. set (thr := bd_thr b) in *. set (st := export_start b) in *.
  destruct (region_gap els thr true st [] 0 k e1 i1 e2 i2 Hthr Hoks H1 H2) as (pre & post & E & Hlen & Hi2).
  pose proof (nth_error_In _ _ H1) as Hin1.
  destruct (region_truthful els thr true st [] 0 e1 i1 Hthr Hoks Hin1) as (Hle & _ & _).
  assert (Hel : el_ok e1).
  { rewrite Forall_forall in Hoks. apply Hoks. eapply place_in_els, Hin1. }
  destruct Hel as [_ Hn].
  assert (Hge : i1 + e_num_shares e1 <= i2) by (rewrite Hi2; apply nsi_ge, Hthr).
  split; [exact Hge|split; [exact Hi2|]].
  set (rep := repeat (padding_spec (b_ns (e_blob e1)) (b_ver (e_blob e1))) (N.to_nat gap)).
  assert (Hrep : length rep = N.to_nat gap) by (unfold rep; apply repeat_length).
  replace (N.to_nat (i1 + e_num_shares e1))
    with (N.to_nat (start_of thr true st els) + length (pre ++ blob_spec (e_blob e1)))%nat
    by (rewrite app_length; unfold lenN in *; lia).
  rewrite (firstn_skipn_window sq (region thr true st [] 0 els) _ _ _ Hwin).
  - rewrite E. fold gap. fold rep. rewrite (app_assoc pre). rewrite <- Hrep. apply firstn_skipn_mid; reflexivity.
  - rewrite E. fold gap. fold rep. rewrite !app_length, Hrep. lia.
Qed.

(* the whole blob region of the square: at [export_nrs b], the shares [export_region b];
   each of them is a share of some blob's encoding or a padding share carrying the
   namespace and share version of a blob of the square *)
Theorem export_region_classified b :
  Forall (fun s => (exists e, In e (bd_blobs b) /\ In s (blob_spec (e_blob e))) \/
                   (exists e, In e (bd_blobs b) /\ s = padding_spec (b_ns (e_blob e)) (b_ver (e_blob e))))
         (export_region b).
Proof.
  unfold export_region. eapply Forall_impl; [|apply region_classified]. cbn beta.
  intros s [(e & Hin & Hs)|[(e & Hin & Hs)|[Hf _]]]; [left|right|discriminate]; exists e;
    (split; [eapply Permutation_in; [apply bl_sort_perm|exact Hin]|exact Hs]).
Qed.

(* ---------- namespaces of the blob region (for C03) ---------- *)
Lemma sh_ns_padding_spec ns v : length ns = 29%nat -> sh_ns (padding_spec ns v) = ns.
Proof. intros H. unfold padding_spec. apply acc_ns, H. Qed.

(* the namespaces of the region's shares: each blob's namespace, repeated over its shares
   and over the padding that follows it *)
Fixpoint ns_seq (thr : N) (first : bool) (cursor : N) (pns : namespace) (els : list element)
  : list namespace :=
  match els with
  | [] => []
  | e :: tl =>
    let c := next_share_index cursor (e_num_shares e) thr in
    (if first then [] else repeat pns (N.to_nat (c - cursor)))
    ++ repeat (b_ns (e_blob e)) (N.to_nat (e_num_shares e))
    ++ ns_seq thr false (c + e_num_shares e) (b_ns (e_blob e)) tl
  end.

Lemma map_repeat {A B} (f : A -> B) x n : map f (repeat x n) = repeat (f x) n.
Proof.
  induction n as [|n IH]; [reflexivity|].
  change (repeat x (S n)) with (x :: repeat x n). change (repeat (f x) (S n)) with (f x :: repeat (f x) n).
  cbn [map]. rewrite IH. reflexivity.
Qed.

Lemma Forall_eq_repeat {A} (x : A) : forall l, Forall (fun y => y = x) l -> l = repeat x (length l).
Proof.
  induction l as [|y l IH]; intros H; [reflexivity|]. inversion H; subst.
  cbn [length]. change (repeat x (S (length l))) with (x :: repeat x (length l)). f_equal. apply IH. assumption.
Qed.

Lemma region_ns : forall els thr first c pns pver, Forall el_ok els ->
  (first = false -> length pns = 29%nat) ->
  map sh_ns (region thr first c pns pver els) = ns_seq thr first c pns els.
Proof.
  induction els as [|e tl IH]; intros thr first c pns pver Hok Hp; [reflexivity|].
  inversion Hok as [|? ? [Hb Hn] Htl]; subst. cbn [region ns_seq]. rewrite !map_app.
  pose proof Hb as (Hns29 & _).
  f_equal; [|f_equal].
  - destruct first; [reflexivity|]. rewrite map_repeat, sh_ns_padding_spec by auto. reflexivity.
  - rewrite Hn. unfold lenN. rewrite Nnat.Nat2N.id. rewrite <- (map_length sh_ns).
    apply Forall_eq_repeat. apply Forall_forall. intros x Hx. apply in_map_iff in Hx.
    destruct Hx as (s & <- & Hs). pose proof (blob_spec_headers _ Hb) as HF. rewrite Forall_forall in HF.
    apply (HF s Hs).
  - apply IH; [exact Htl|intros _; exact Hns29].
Qed.

Lemma ns_seq_in : forall els thr first c pns x, In x (ns_seq thr first c pns els) ->
  (first = false /\ x = pns) \/ In x (map (fun e => b_ns (e_blob e)) els).
Proof.
  induction els as [|e tl IH]; intros thr first c pns x Hin; [destruct Hin|].
  cbn [ns_seq] in Hin. apply in_app_or in Hin. destruct Hin as [Hin|Hin].
  - destruct first; [destruct Hin|]. apply repeat_spec in Hin. left. auto.
  - apply in_app_or in Hin. destruct Hin as [Hin|Hin].
    + apply repeat_spec in Hin. right. left. auto.
    + apply IH in Hin. destruct Hin as [[_ ->]|Hin]; right; [left; reflexivity|right; exact Hin].
Qed.

Lemma StronglySorted_app_intro {A} (R : A -> A -> Prop) : forall l1 l2,
  StronglySorted R l1 -> StronglySorted R l2 ->
  (forall x y, In x l1 -> In y l2 -> R x y) -> StronglySorted R (l1 ++ l2).
Proof.
  induction l1 as [|a l1 IH]; intros l2 H1 H2 H12; [exact H2|].
  inversion H1; subst. cbn [app]. constructor.
  - apply IH; try assumption. intros x y Hx Hy. apply H12; [right; exact Hx|exact Hy].
  - apply Forall_app. split; [assumption|]. apply Forall_forall. intros y Hy. apply H12; [left; reflexivity|exact Hy].
Qed.

Lemma StronglySorted_repeat {A} (R : A -> A -> Prop) x n : R x x -> StronglySorted R (repeat x n).
Proof.
  intros Hr. induction n as [|n IH]; [constructor|].
  change (repeat x (S n)) with (x :: repeat x n). constructor; [exact IH|].
  apply Forall_forall. intros y Hy. apply repeat_spec in Hy. subst. exact Hr.
Qed.

(* if the elements are in namespace order (and follow the previous namespace), so are
   the shares of the region *)
Lemma ns_seq_sorted (R : namespace -> namespace -> Prop) : (forall x, R x x) ->
  forall els thr (first : bool) c pns,
  StronglySorted R ((if first then @nil namespace else [pns]) ++ map (fun e => b_ns (e_blob e)) els) ->
  StronglySorted R (ns_seq thr first c pns els).
Proof.
  intros Hrefl. induction els as [|e tl IH]; intros thr first c pns Hs; [constructor|].
  cbn [ns_seq].
  assert (Htail : StronglySorted R (b_ns (e_blob e) :: map (fun e => b_ns (e_blob e)) tl)).
  { destruct first; cbn [app map] in Hs; [exact Hs|]. inversion Hs; assumption. }
  assert (Habove : forall y, In y (map (fun e => b_ns (e_blob e)) tl) -> R (b_ns (e_blob e)) y).
  { inversion Htail as [|? ? _ HF]; subst. rewrite Forall_forall in HF. exact HF. }
  assert (Hrest : StronglySorted R (ns_seq thr false (next_share_index c (e_num_shares e) thr + e_num_shares e)
                                          (b_ns (e_blob e)) tl)).
  { apply IH. exact Htail. }
  assert (Hmid : StronglySorted R (repeat (b_ns (e_blob e)) (N.to_nat (e_num_shares e)) ++
                   ns_seq thr false (next_share_index c (e_num_shares e) thr + e_num_shares e) (b_ns (e_blob e)) tl)).
  { apply StronglySorted_app_intro; [apply StronglySorted_repeat, Hrefl|exact Hrest|].
    intros x y Hx Hy. apply repeat_spec in Hx. subst x.
    apply ns_seq_in in Hy. destruct Hy as [[_ ->]|Hy]; [apply Hrefl|apply Habove, Hy]. }
  destruct first; [exact Hmid|].
  apply StronglySorted_app_intro; [apply StronglySorted_repeat, Hrefl|exact Hmid|].
  intros x y Hx Hy. apply repeat_spec in Hx. subst x.
  cbn [app map] in Hs. inversion Hs as [|? ? _ HF]; subst. rewrite Forall_forall in HF. apply HF.
  apply in_app_or in Hy. destruct Hy as [Hy|Hy].
  - apply repeat_spec in Hy. subst. left. reflexivity.
  - apply ns_seq_in in Hy. destruct Hy as [[_ ->]|Hy]; [left; reflexivity|right; exact Hy].
Qed.

(* C03, blob region: the namespaces of the region's shares are in the order of the sorted
   element list, whatever reflexive order [R] that list is sorted by *)
Theorem export_region_ns_sorted (R : namespace -> namespace -> Prop) b : (forall x, R x x) ->
  Forall el_ok (bd_blobs b) ->
  StronglySorted R (map (fun e => b_ns (e_blob e)) (sort_elements (bd_blobs b))) ->
  StronglySorted R (map sh_ns (export_region b)).
Proof.
  intros Hrefl Hok Hs. unfold export_region. rewrite region_ns.
  - apply ns_seq_sorted; [exact Hrefl|exact Hs].
  - eapply Permutation_Forall; [apply Permutation_sym, bl_sort_perm|exact Hok].
  - discriminate.
Qed.

(* what the invariant supplies to the theorems above *)
Lemma binv_facts b : binv b ->
  bd_done b = false /\ NoDup (map el_key (bd_blobs b)) /\
  (builder_is_empty b = true -> bd_blobs b = []) /\
  Forall (made_by_new_element (bd_thr b)) (bd_blobs b) /\
  Forall (fun e => blob_ok (e_blob e) /\ lenN (b_data (e_blob e)) + signer_len (e_blob e) < 4294967296 -> el_ok e)
         (bd_blobs b).
Proof.
  intros Hinv. pose proof Hinv as (Hd & Hnd & _ & _ & _ & Hmade).
  split; [exact Hd|]. split; [exact Hnd|]. split; [apply binv_not_empty, Hinv|]. split; [exact Hmade|].
  eapply Forall_impl; [|exact Hmade]. cbn beta. intros e He [Hb Hl]. eapply made_el_ok; eassumption.
Qed.

Lemma append_inv b : binv b ->
  (forall t, binv (fst (append_tx b t)) /\ bd_thr (fst (append_tx b t)) = bd_thr b) /\
  (forall bt, binv (fst (append_blob_tx b bt)) /\ bd_thr (fst (append_blob_tx b bt)) = bd_thr b).
Proof. intros H. split; [intros t; apply append_tx_inv, H|intros bt; apply append_blob_tx_inv, H]. Qed.
