(* C03: shape of the rule-based square layout (Spec/LayoutSpec.v).

   For sq := layout thr normals btxs, under thr >= 1 and blob-valid blobs:
     1. the side is a power of two, at most the configured maximum, and
        sq has exactly side * side shares                       (layout_size)
     2. every share has 512 bytes                               (layout_wf)
     3. the shares are in non-decreasing namespace order        (layout_ordered)
     4. sq = tx run ++ pfb run ++ reserved padding ++ blob region ++ tail padding,
        and every padding share is canonical                    (layout_regions,
                                                                 padding_spec_canonical)
   The statements are about the spec side; they transfer to Build / Construct
   through the refinement construct = layout_construct, build = layout_build (C07). *)
From Coq Require Import List Arith NArith ZArith Lia Bool Sorted Permutation.
From Coq Require Import ZifyN ZifyNat ZifyBool.
From GS.Model Require Import Base Varint Namespace ShareFmt Blob Counter Arith Proto.
From GS.Spec Require Import ShareSpec CompactSpec LayoutSpec.
From GS.Proofs Require Import BaseLemmas VarintProofs SparseProofs ArithProofs NamespaceProofs
  RangeProofs CompactParseProofs.
Import ListNotations.
Open Scope N_scope.

(* ================================================================== *)
(* Conditions on the input                                             *)
(* ================================================================== *)

(* a blob as NewBlob accepts it, in a namespace ValidateForBlob accepts *)
Definition lay_blob_ok (b : blob) : Prop := blob_ok b /\ validate_for_blob (b_ns b) = true.
Definition lay_btx_ok (t : blob_tx) : Prop := Forall lay_blob_ok (btx_blobs t).

(* ================================================================== *)
(* Namespace order: basic facts                                        *)
(* ================================================================== *)

Definition ns_leq (a b : namespace) : Prop := bytes_cmp a b <> Gt.

Lemma ns_leq_refl a : ns_leq a a.
Proof. unfold ns_leq. rewrite bytes_cmp_refl. discriminate. Qed.

Lemma ns_leq_trans a b c : ns_leq a b -> ns_leq b c -> ns_leq a c.
Proof.
  unfold ns_leq. rewrite !cmp_not_gt. intros [H1|H1] [H2|H2]; subst; auto.
  left. exact (lex_lt_trans _ _ _ H1 H2).
Qed.

Lemma ns_leq_of_lt a b : bytes_cmp a b = Lt -> ns_leq a b.
Proof. unfold ns_leq. intros ->. discriminate. Qed.

Lemma cmp_gt_flip a b : bytes_cmp a b = Gt -> bytes_cmp b a = Lt.
Proof. intros H. rewrite (bytes_cmp_antisym a b), H. reflexivity. Qed.

Lemma tx_lt_pfb : bytes_cmp tx_ns pfb_ns = Lt.
Proof. vm_compute. reflexivity. Qed.
Lemma pfb_lt_reserved : bytes_cmp pfb_ns primary_reserved_padding_ns = Lt.
Proof. vm_compute. reflexivity. Qed.
Lemma reserved_lt_tail : bytes_cmp primary_reserved_padding_ns tail_padding_ns = Lt.
Proof. vm_compute. reflexivity. Qed.

Lemma length_tx_ns : length tx_ns = 29%nat. Proof. reflexivity. Qed.
Lemma length_pfb_ns : length pfb_ns = 29%nat. Proof. reflexivity. Qed.
Lemma length_reserved_ns : length primary_reserved_padding_ns = 29%nat. Proof. reflexivity. Qed.
Lemma length_tail_ns : length tail_padding_ns = 29%nat. Proof. reflexivity. Qed.

(* a blob-valid namespace lies strictly between reserved padding and tail padding *)
Lemma blob_ns_between n : length n = 29%nat -> validate_for_blob n = true ->
  bytes_cmp primary_reserved_padding_ns n = Lt /\ bytes_cmp n tail_padding_ns = Lt.
Proof.
  intros Hn Hv. apply (validate_for_blob_spec n Hn) in Hv. destruct Hv as [Hv Hgt]. split.
  - apply bytes_cmp_lt_lex. exact Hgt.
  - destruct n as [|v id]; [discriminate|]. cbn [ns_version] in Hv.
    unfold tail_padding_ns, secondary_reserved_ns. apply cmp_first_byte. rewrite Hv. vm_compute. reflexivity.
Qed.

Lemma lay_blob_between b : lay_blob_ok b ->
  bytes_cmp primary_reserved_padding_ns (b_ns b) = Lt /\ bytes_cmp (b_ns b) tail_padding_ns = Lt.
Proof. intros [Hok Hv]. apply blob_ns_between; [apply Hok|exact Hv]. Qed.

(* ================================================================== *)
(* ns_ordered: composition lemmas                                      *)
(* ================================================================== *)

Lemma ordered_app a b : ns_ordered a -> ns_ordered b ->
  (forall x y, In x a -> In y b -> ns_leq (sh_ns x) (sh_ns y)) -> ns_ordered (a ++ b).
Proof.
  unfold ns_ordered. induction a as [|x a IH]; intros Ha Hb Hc; [exact Hb|].
  apply StronglySorted_inv in Ha as [Ha Hx]. cbn [app]. constructor.
  - apply IH; [exact Ha|exact Hb|]. intros u v Hu Hv. apply Hc; [right; exact Hu|exact Hv].
  - apply Forall_app. split; [exact Hx|]. apply Forall_forall. intros y Hy.
    apply (Hc x y); [left; reflexivity|exact Hy].
Qed.

Lemma ordered_const ns l : Forall (fun s => sh_ns s = ns) l -> ns_ordered l.
Proof.
  unfold ns_ordered. induction l as [|x l IH]; intros H; [constructor|].
  apply Forall_cons_iff in H as [Hx H]. constructor; [apply IH; exact H|].
  eapply Forall_impl; [|exact H]. intros y Hy. cbn beta in Hy. rewrite Hx, Hy. apply ns_leq_refl.
Qed.

(* a run of one namespace followed by an ordered list that is above it *)
Lemma ordered_run_app ns run rest : Forall (fun s => sh_ns s = ns) run -> ns_ordered rest ->
  Forall (fun s => ns_leq ns (sh_ns s)) rest -> ns_ordered (run ++ rest).
Proof.
  intros Hrun Hrest Hab. apply ordered_app; [eapply ordered_const; exact Hrun|exact Hrest|].
  intros x y Hx Hy. rewrite Forall_forall in Hrun, Hab. rewrite (Hrun x Hx). apply Hab, Hy.
Qed.

Lemma Forall_repeat {A} (P : A -> Prop) x n : P x -> Forall P (repeat x n).
Proof. intros H. apply Forall_forall. intros y Hy. apply repeat_spec in Hy. subst. exact H. Qed.

(* ================================================================== *)
(* Shares of the closed-form encoders: size and namespace              *)
(* ================================================================== *)

Lemma padding_spec_ns ns ver : length ns = 29%nat -> sh_ns (padding_spec ns ver) = ns.
Proof. intros H. unfold padding_spec. apply hdr_ns, H. Qed.

Lemma blob_spec_ns b : length (b_ns b) = 29%nat -> Forall (fun s => sh_ns s = b_ns b) (blob_spec b).
Proof.
  intros H. unfold blob_spec, sparse_spec. constructor; [apply hdr_ns, H|].
  apply Forall_forall. intros s Hs. apply in_map_iff in Hs. destruct Hs as (c & <- & _). apply hdr_ns, H.
Qed.

Lemma compact_spec_ix_wf ns txs : length ns = 29%nat ->
  Forall (fun s => length s = 512%nat) (compact_spec_ix ns 0 txs).
Proof.
  intros H. unfold compact_spec_ix. apply Forall_forall. intros s Hs.
  apply in_map_iff in Hs. destruct Hs as (j & <- & _). apply cshare_length, H.
Qed.

Lemma compact_spec_ix_ns ns txs : length ns = 29%nat ->
  Forall (fun s => sh_ns s = ns) (compact_spec_ix ns 0 txs).
Proof.
  intros H. unfold compact_spec_ix. apply Forall_forall. intros s Hs.
  apply in_map_iff in Hs. destruct Hs as (j & <- & _). unfold cshare. apply hdr_ns, H.
Qed.

Lemma compact_spec_ix_length ns ver txs : lenN (compact_spec_ix ns ver txs) = compact_count txs.
Proof. unfold compact_spec_ix, compact_count, lenN. rewrite map_length, seq_length. reflexivity. Qed.

(* Item 4 (second half): a padding share is a sequence start of length 0, zero filled *)
Theorem padding_spec_canonical ns ver : length ns = 29%nat -> ver <= 127 ->
  let p := padding_spec ns ver in
  length p = 512%nat /\ sh_ns p = ns /\ sh_version p = ver /\ sh_start p = true /\
  sh_seq_len p = 0 /\ skipn 30 p = zeros 482 /\ sh_is_padding p = true.
Proof.
  intros Hns Hver p.
  assert (Hst : sh_start p = true) by (apply acc_start; assumption).
  assert (Hsl : sh_seq_len p = 0) by (unfold p, padding_spec; rewrite acc_seq_len by assumption; reflexivity).
  repeat split.
  - apply padding_spec_length, Hns.
  - apply padding_spec_ns, Hns.
  - apply acc_version; assumption.
  - exact Hst.
  - exact Hsl.
  - apply hdr_skip30, Hns.
  - unfold sh_is_padding. rewrite Hst, Hsl. reflexivity.
Qed.

(* ================================================================== *)
(* The stable sort: permutation, sorted by blob namespace              *)
(* ================================================================== *)

Definition lb_ns (e : lblob) : namespace := b_ns (lb_blob e).
Definition lb_le (a b : lblob) : Prop := ns_leq (lb_ns a) (lb_ns b).

Lemma lb_insert_perm e l : Permutation (lb_insert e l) (e :: l).
Proof.
  induction l as [|x l IH]; [apply Permutation_refl|]. cbn [lb_insert].
  destruct (bytes_cmp (b_ns (lb_blob e)) (b_ns (lb_blob x))); try apply Permutation_refl.
  eapply Permutation_trans; [apply perm_skip, IH|apply perm_swap].
Qed.

Theorem lb_sort_perm l : Permutation (lb_sort l) l.
Proof.
  induction l as [|x l IH]; [apply Permutation_refl|]. cbn [lb_sort fold_right].
  eapply Permutation_trans; [apply lb_insert_perm|]. apply perm_skip, IH.
Qed.

Lemma lb_insert_sorted e l : StronglySorted lb_le l -> StronglySorted lb_le (lb_insert e l).
Proof.
  induction l as [|x l IH]; intros Hs.
  - cbn [lb_insert]. constructor; constructor.
  - apply StronglySorted_inv in Hs as [Hs Hx]. cbn [lb_insert].
    destruct (bytes_cmp (b_ns (lb_blob e)) (b_ns (lb_blob x))) eqn:Ec.
    + constructor; [constructor; assumption|]. constructor.
      * unfold lb_le, lb_ns, ns_leq. rewrite Ec. discriminate.
      * eapply Forall_impl; [|exact Hx]. intros y Hy. unfold lb_le in *. eapply ns_leq_trans; [|exact Hy].
        unfold lb_ns, ns_leq. rewrite Ec. discriminate.
    + constructor; [constructor; assumption|]. constructor.
      * unfold lb_le, lb_ns, ns_leq. rewrite Ec. discriminate.
      * eapply Forall_impl; [|exact Hx]. intros y Hy. unfold lb_le in *. eapply ns_leq_trans; [|exact Hy].
        unfold lb_ns, ns_leq. rewrite Ec. discriminate.
    + constructor; [apply IH, Hs|].
      apply (Permutation_Forall (Permutation_sym (lb_insert_perm e l))). constructor; [|exact Hx].
      unfold lb_le, lb_ns. apply ns_leq_of_lt, cmp_gt_flip, Ec.
Qed.

Theorem lb_sort_sorted l : StronglySorted lb_le (lb_sort l).
Proof.
  induction l as [|x l IH]; [constructor|]. cbn [lb_sort fold_right]. apply lb_insert_sorted, IH.
Qed.

(* assign only rewrites the index field *)
Lemma assign_blobs thr : forall l c, map lb_blob (assign thr c l) = map lb_blob l.
Proof. induction l as [|e l IH]; intros c; [reflexivity|]. cbn [assign map lb_blob]. rewrite IH. reflexivity. Qed.

Lemma assign_length thr : forall l c, length (assign thr c l) = length l.
Proof. induction l as [|e l IH]; intros c; [reflexivity|]. cbn [assign length]. rewrite IH. reflexivity. Qed.

Lemma assign_Forall thr (P : blob -> N -> Prop) : forall l c, Forall (fun e => P (lb_blob e) (lb_n e)) l ->
  Forall (fun e => P (lb_blob e) (lb_n e)) (assign thr c l).
Proof.
  induction l as [|e l IH]; intros c H; [constructor|]. apply Forall_cons_iff in H as [He H].
  cbn [assign]. constructor; [exact He|apply IH, H].
Qed.

Lemma assign_sorted thr : forall l c, StronglySorted lb_le l -> StronglySorted lb_le (assign thr c l).
Proof.
  induction l as [|e l IH]; intros c Hs; [constructor|]. apply StronglySorted_inv in Hs as [Hs He].
  cbn [assign]. constructor; [apply IH, Hs|].
  apply (assign_Forall thr (fun b _ => ns_leq (lb_ns e) (b_ns b))). exact He.
Qed.

(* ================================================================== *)
(* Index assignment: alignment gaps and the final cursor               *)
(* ================================================================== *)

Section AlignArith.
  Local Ltac Zify.zify_post_hook ::= Z.div_mod_to_equations.
  (* the next multiple of w at or after c is less than w away *)
  Lemma align_up_bounds c w : 1 <= w -> c <= align_up c w /\ align_up c w <= c + w - 1.
  Proof. intros Hw. unfold align_up. nia. Qed.

  Lemma align_up_mod c w : 1 <= w -> align_up c w mod w = 0.
  Proof. intros Hw. unfold align_up. apply N.mod_mul. lia. Qed.

  Lemma cneeded_mono a b : (a <= b)%nat -> (cneeded a <= cneeded b)%nat.
  Proof.
    intros H. unfold cneeded.
    destruct (Nat.eqb a 0) eqn:Ea; destruct (Nat.eqb b 0) eqn:Eb;
    destruct (Nat.leb a 474) eqn:Ea2; destruct (Nat.leb b 474) eqn:Eb2; lia.
  Qed.
End AlignArith.

(* the cursor after the last blob *)
Fixpoint final_cursor (thr cursor : N) (l : list lblob) : N :=
  match l with
  | [] => cursor
  | e :: tl => final_cursor thr (align_up cursor (subtree_width (lb_n e) thr) + lb_n e) tl
  end.

Definition lb_reservation (thr : N) (e : lblob) : N := lb_n e + subtree_width (lb_n e) thr - 1.

Lemma final_cursor_ge thr : 1 <= thr -> forall l c, c <= final_cursor thr c l.
Proof.
  intros Ht. induction l as [|e l IH]; intros c; cbn [final_cursor]; [lia|].
  pose proof (align_up_bounds c _ (subtree_width_pos (lb_n e) thr Ht)).
  specialize (IH (align_up c (subtree_width (lb_n e) thr) + lb_n e)). lia.
Qed.

(* (ii) every gap is at most the subtree width - 1: the cursor never passes the reservations *)
Lemma final_cursor_le thr : 1 <= thr -> forall l c,
  final_cursor thr c l <= c + sumN_map (lb_reservation thr) l.
Proof.
  intros Ht. induction l as [|e l IH]; intros c; cbn [final_cursor sumN_map]; [lia|].
  pose proof (align_up_bounds c _ (subtree_width_pos (lb_n e) thr Ht)) as Ha.
  pose proof (subtree_width_pos (lb_n e) thr Ht) as Hw.
  specialize (IH (align_up c (subtree_width (lb_n e) thr) + lb_n e)). unfold lb_reservation at 1. lia.
Qed.

(* every assigned index (plus the blob's share count) is at most the final cursor *)
Lemma assign_index_le thr : 1 <= thr -> forall l c,
  Forall (fun e => c <= lb_index e /\ lb_index e + lb_n e <= final_cursor thr c l) (assign thr c l).
Proof.
  intros Ht. induction l as [|e l IH]; intros c; cbn [assign final_cursor]; [constructor|].
  pose proof (align_up_bounds c _ (subtree_width_pos (lb_n e) thr Ht)) as Ha.
  set (i := align_up c (subtree_width (lb_n e) thr)) in *. constructor.
  - cbn [lb_index lb_n]. pose proof (final_cursor_ge thr Ht l (i + lb_n e)). lia.
  - eapply Forall_impl; [|apply IH]. intros x Hx. cbn beta in Hx. lia.
Qed.

(* ---- sums over the blobs ---- *)
Lemma sumN_map_app {A} (f : A -> N) a b : sumN_map f (a ++ b) = sumN_map f a + sumN_map f b.
Proof. induction a as [|x a IH]; cbn [app sumN_map]; [reflexivity|]. rewrite IH. lia. Qed.

Lemma sumN_map_perm {A} (f : A -> N) a b : Permutation a b -> sumN_map f a = sumN_map f b.
Proof. induction 1; cbn [sumN_map]; lia. Qed.

Lemma sumN_map_ext {A} (f g : A -> N) l : Forall (fun x => f x = g x) l -> sumN_map f l = sumN_map g l.
Proof. induction 1 as [|x l Hx _ IH]; cbn [sumN_map]; [reflexivity|]. rewrite Hx, IH. reflexivity. Qed.

(* entries carry their blob's share count *)
Definition lb_counted (e : lblob) : Prop := lb_n e = blob_share_count (lb_blob e).

Lemma blobs_of_tx_counted pi : forall bs j, Forall lb_counted (blobs_of_tx pi j bs).
Proof. induction bs as [|b bs IH]; intros j; cbn [blobs_of_tx]; constructor; [reflexivity|apply IH]. Qed.

Lemma all_blobs_counted : forall btxs pi, Forall lb_counted (all_blobs pi btxs).
Proof.
  induction btxs as [|t tl IH]; intros pi; cbn [all_blobs]; [constructor|].
  apply Forall_app. split; [apply blobs_of_tx_counted|apply IH].
Qed.

Lemma blobs_of_tx_blobs pi : forall bs j, map lb_blob (blobs_of_tx pi j bs) = bs.
Proof. induction bs as [|b bs IH]; intros j; cbn [blobs_of_tx map lb_blob]; [reflexivity|]. rewrite IH. reflexivity. Qed.

Lemma all_blobs_blobs : forall btxs pi, map lb_blob (all_blobs pi btxs) = concat (map btx_blobs btxs).
Proof.
  induction btxs as [|t tl IH]; intros pi; cbn [all_blobs map concat]; [reflexivity|].
  rewrite map_app, blobs_of_tx_blobs, IH. reflexivity.
Qed.

Lemma all_blobs_ok btxs pi : Forall lay_btx_ok btxs -> Forall (fun e => lay_blob_ok (lb_blob e)) (all_blobs pi btxs).
Proof.
  intros H. apply Forall_forall. intros e He.
  assert (Hin : In (lb_blob e) (concat (map btx_blobs btxs))) by (rewrite <- (all_blobs_blobs btxs pi); apply in_map, He).
  apply in_concat in Hin. destruct Hin as (bs & Hbs & Hb). apply in_map_iff in Hbs. destruct Hbs as (t & <- & Ht).
  rewrite Forall_forall in H. specialize (H t Ht). unfold lay_btx_ok in H. rewrite Forall_forall in H. apply H, Hb.
Qed.

Lemma sum_reservations thr : forall btxs pi,
  sumN_map (lb_reservation thr) (all_blobs pi btxs) =
  sumN_map (fun t => sumN_map (blob_reservation thr) (btx_blobs t)) btxs.
Proof.
  assert (Htx : forall bs pi j, sumN_map (lb_reservation thr) (blobs_of_tx pi j bs) = sumN_map (blob_reservation thr) bs).
  { induction bs as [|b bs IH]; intros pi j; cbn [blobs_of_tx sumN_map]; [reflexivity|]. rewrite IH. reflexivity. }
  induction btxs as [|t tl IH]; intros pi; cbn [all_blobs sumN_map]; [reflexivity|].
  rewrite sumN_map_app, Htx, IH. reflexivity.
Qed.

(* the sorted blobs of the input *)
Definition sorted_blobs (btxs : list blob_tx) : list lblob := lb_sort (all_blobs 0 btxs).
Definition lay_start (normals : list bytes) (btxs : list blob_tx) : N :=
  compact_count normals + compact_count (map worst_wrapper btxs).
Definition lay_placed (thr : N) (normals : list bytes) (btxs : list blob_tx) : list lblob :=
  assign thr (lay_start normals btxs) (sorted_blobs btxs).

Lemma sorted_blobs_ok btxs : Forall lay_btx_ok btxs ->
  Forall (fun e => lay_blob_ok (lb_blob e) /\ lb_counted e) (sorted_blobs btxs).
Proof.
  intros H. apply (Permutation_Forall (Permutation_sym (lb_sort_perm _))).
  pose proof (all_blobs_ok btxs 0 H) as H1. pose proof (all_blobs_counted btxs 0) as H2.
  rewrite Forall_forall in *. intros e He. split; [apply H1, He|apply H2, He].
Qed.

(* the final cursor is at most the worst-case estimate *)
Lemma final_cursor_estimate thr normals btxs : 1 <= thr ->
  final_cursor thr (lay_start normals btxs) (sorted_blobs btxs) <= estimate thr normals btxs.
Proof.
  intros Ht. eapply N.le_trans; [apply final_cursor_le, Ht|]. unfold estimate. fold (lay_start normals btxs).
  unfold sorted_blobs. rewrite (sumN_map_perm _ _ _ (lb_sort_perm (all_blobs 0 btxs))), sum_reservations. lia.
Qed.

(* ================================================================== *)
(* (i) the real wrapped PFBs are never longer than the worst-case ones *)
(* ================================================================== *)

Lemma put_uvarint_fuel_mono : forall fuel a b, a <= b ->
  (length (put_uvarint_fuel fuel a) <= length (put_uvarint_fuel fuel b))%nat.
Proof.
  induction fuel as [|f IH]; intros a b H; [cbn; lia|]. cbn [put_uvarint_fuel].
  destruct (a <? 128) eqn:Ea; destruct (b <? 128) eqn:Eb; cbn [length]; try lia.
  assert (a / 128 <= b / 128) by (apply N.div_le_mono; lia). specialize (IH _ _ H0). lia.
Qed.

Lemma put_uvarint_mono a b : a <= b -> (length (put_uvarint a) <= length (put_uvarint b))%nat.
Proof. apply put_uvarint_fuel_mono. Qed.

(* an index below 2^21 takes at most the three bytes of the placeholder 16384 *)
Lemma put_uvarint_small i : i < 2097152 -> (length (put_uvarint i) <= 3)%nat.
Proof. intros H. unfold put_uvarint. apply put_uvarint_fuel_short; [lia|]. exact H. Qed.

Lemma packed_small idx : Forall (fun i => i < 2097152) idx ->
  (length (concat (map put_uvarint idx)) <= 3 * length idx)%nat.
Proof.
  induction 1 as [|i idx Hi _ IH]; [cbn; lia|]. cbn [map concat length]. rewrite app_length.
  pose proof (put_uvarint_small i Hi). lia.
Qed.

Lemma packed_worst n : length (concat (map put_uvarint (repeat 16384 n))) = (3 * n)%nat.
Proof.
  induction n as [|n IH]; [reflexivity|]. change (repeat 16384 (S n)) with (16384 :: repeat 16384 n).
  cbn [map concat]. rewrite app_length, IH. change (length (put_uvarint 16384)) with 3%nat. lia.
Qed.

Lemma length_enc_msg_field num body :
  length (enc_msg_field num body) = (length (tag_byte num 2) + length (put_uvarint (lenN body)) + length body)%nat.
Proof. unfold enc_msg_field. rewrite !app_length. lia. Qed.

Lemma wrapper_le_worst tx idx : Forall (fun i => i < 2097152) idx ->
  (length (marshal_index_wrapper tx idx) <= length (marshal_index_wrapper tx (repeat 16384%N (length idx))))%nat.
Proof.
  intros H. unfold marshal_index_wrapper. rewrite !app_length.
  destruct idx as [|i idx]; [apply Nat.le_refl|].
  change (repeat 16384 (length (i :: idx))) with (16384 :: repeat 16384 (length idx)).
  cbv iota. rewrite !length_enc_msg_field.
  pose proof (packed_small _ H) as Hs. pose proof (packed_worst (S (length idx))) as Hw.
  change (repeat 16384 (S (length idx))) with (16384 :: repeat 16384 (length idx)) in Hw.
  cbn [length] in Hs.
  set (p := concat (map put_uvarint (i :: idx))) in *.
  set (q := concat (map put_uvarint (16384 :: repeat 16384 (length idx)))) in *.
  assert (Hm : (length (put_uvarint (lenN p)) <= length (put_uvarint (lenN q)))%nat)
    by (apply put_uvarint_mono; unfold lenN; lia).
  lia.
Qed.

Lemma marshal_delimited_mono a b : (length a <= length b)%nat ->
  (length (marshal_delimited a) <= length (marshal_delimited b))%nat.
Proof.
  intros H. unfold marshal_delimited. rewrite !app_length.
  assert ((length (put_uvarint (lenN a)) <= length (put_uvarint (lenN b)))%nat)
    by (apply put_uvarint_mono; unfold lenN; lia). lia.
Qed.

Lemma stream_mono : forall a b, Forall2 (fun x y => (length x <= length y)%nat) a b ->
  (length (stream a) <= length (stream b))%nat.
Proof.
  induction 1 as [|x y a b Hxy _ IH]; [apply Nat.le_refl|].
  unfold stream, units in *. cbn [map concat]. rewrite !app_length.
  pose proof (marshal_delimited_mono x y Hxy). lia.
Qed.

Lemma indexes_of_tx_length placed pi : forall bs j, length (indexes_of_tx placed pi j bs) = length bs.
Proof. induction bs as [|b bs IH]; intros j; cbn [indexes_of_tx length]; [reflexivity|]. rewrite IH. reflexivity. Qed.

Lemma index_of_small placed pi j : Forall (fun e => lb_index e < 2097152) placed -> index_of placed pi j < 2097152.
Proof.
  intros H. unfold index_of. destruct (find _ placed) as [e|] eqn:Ef; [|lia].
  apply find_some in Ef. destruct Ef as [He _]. rewrite Forall_forall in H. apply H, He.
Qed.

Lemma indexes_of_tx_small placed pi : Forall (fun e => lb_index e < 2097152) placed ->
  forall bs j, Forall (fun i => i < 2097152) (indexes_of_tx placed pi j bs).
Proof.
  intros H. induction bs as [|b bs IH]; intros j; cbn [indexes_of_tx]; constructor; [apply index_of_small, H|apply IH].
Qed.

Lemma wrappers_le_worst placed : Forall (fun e => lb_index e < 2097152) placed ->
  forall btxs pi, Forall2 (fun x y => (length x <= length y)%nat) (wrappers placed pi btxs) (map worst_wrapper btxs).
Proof.
  intros H. induction btxs as [|t tl IH]; intros pi; cbn [wrappers map]; constructor; [|apply IH].
  unfold worst_wrapper. rewrite <- (indexes_of_tx_length placed pi (btx_blobs t) 0).
  apply wrapper_le_worst, indexes_of_tx_small, H.
Qed.

Lemma compact_count_wrappers placed btxs : Forall (fun e => lb_index e < 2097152) placed ->
  compact_count (wrappers placed 0 btxs) <= compact_count (map worst_wrapper btxs).
Proof.
  intros H. unfold compact_count.
  pose proof (cneeded_mono _ _ (stream_mono _ _ (wrappers_le_worst placed H btxs 0))). lia.
Qed.

(* ================================================================== *)
(* The blob region in closed form                                      *)
(* ================================================================== *)

(* from square index [cur]: for each placed blob, padding (namespace and share version
   of what precedes it) up to its index, then its shares *)
Fixpoint region (cur : N) (pns : namespace) (pver : N) (l : list lblob) : list share :=
  match l with
  | [] => []
  | e :: tl =>
    repeat (padding_spec pns pver) (N.to_nat (lb_index e - cur)) ++ blob_spec (lb_blob e)
    ++ region (lb_index e + lb_n e) (b_ns (lb_blob e)) (b_ver (lb_blob e)) tl
  end.

(* the indexes go forward and every entry occupies lb_n shares *)
Fixpoint chain (cur : N) (l : list lblob) : Prop :=
  match l with
  | [] => True
  | e :: tl => cur <= lb_index e /\ lenN (blob_spec (lb_blob e)) = lb_n e /\ chain (lb_index e + lb_n e) tl
  end.

Lemma chain_weaken c' c l : c' <= c -> chain c l -> chain c' l.
Proof. destruct l as [|e l]; [trivial|]. cbn [chain]. intros H (H1 & H2 & H3). repeat split; [lia|exact H2|exact H3]. Qed.

Lemma assign_chain thr : 1 <= thr -> forall l c,
  Forall (fun e => blob_ok (lb_blob e) /\ lb_counted e) l -> chain c (assign thr c l).
Proof.
  intros Ht. induction l as [|e l IH]; intros c H; [exact I|]. apply Forall_cons_iff in H as [[Hok Hn] H].
  cbn [assign chain lb_index lb_n lb_blob]. repeat split.
  - apply (align_up_bounds c _ (subtree_width_pos (lb_n e) thr Ht)).
  - rewrite (blob_spec_length _ Hok). symmetry. exact Hn.
  - apply IH, H.
Qed.

(* square index after the region *)
Fixpoint region_end (cur : N) (l : list lblob) : N :=
  match l with [] => cur | e :: tl => region_end (lb_index e + lb_n e) tl end.

Lemma region_end_assign thr : forall l c, region_end c (assign thr c l) = final_cursor thr c l.
Proof.
  induction l as [|e l IH]; intros c; [reflexivity|]. cbn [assign region_end final_cursor lb_index lb_n].
  rewrite IH. reflexivity.
Qed.

Lemma region_lenN : forall l cur pns pver, chain cur l -> cur + lenN (region cur pns pver l) = region_end cur l.
Proof.
  induction l as [|e l IH]; intros cur pns pver H; cbn [region region_end]; [rewrite lenN_nil; lia|].
  destruct H as (H1 & H2 & H3). rewrite !lenN_app, H2. specialize (IH _ (b_ns (lb_blob e)) (b_ver (lb_blob e)) H3).
  unfold lenN at 1. rewrite repeat_length. lia.
Qed.

(* place = accumulator ++ region *)
Lemma place_region : forall l acc pns pver, chain (lenN acc) l ->
  place acc pns pver l = acc ++ region (lenN acc) pns pver l.
Proof.
  induction l as [|e l IH]; intros acc pns pver H; cbn [place region]; [rewrite app_nil_r; reflexivity|].
  destruct H as (H1 & H2 & H3).
  assert (Hlen : lenN (acc ++ repeat (padding_spec pns pver) (N.to_nat (lb_index e - lenN acc)) ++ blob_spec (lb_blob e))
                 = lb_index e + lb_n e).
  { rewrite !lenN_app, H2. unfold lenN at 2. rewrite repeat_length. lia. }
  rewrite IH by (rewrite Hlen; exact H3). rewrite Hlen, <- !app_assoc. reflexivity.
Qed.

Lemma region_end_mono c' c l : c' <= c -> region_end c' l <= region_end c l.
Proof. destruct l as [|e l]; cbn [region_end]; lia. Qed.

(* ================================================================== *)
(* The layout, region by region                                        *)
(* ================================================================== *)

Definition lay_side (thr : N) (normals : list bytes) (btxs : list blob_tx) : N :=
  blob_min_square_size (estimate thr normals btxs).
Definition tx_run (normals : list bytes) : list share := compact_spec_ix tx_ns 0 normals.
Definition pfb_run (thr : N) (normals : list bytes) (btxs : list blob_tx) : list share :=
  compact_spec_ix pfb_ns 0 (wrappers (lay_placed thr normals btxs) 0 btxs).
Definition lay_body (thr : N) (normals : list bytes) (btxs : list blob_tx) : list share :=
  place (tx_run normals ++ pfb_run thr normals btxs) primary_reserved_padding_ns 0 (lay_placed thr normals btxs).
Definition tail_pad (thr : N) (normals : list bytes) (btxs : list blob_tx) : list share :=
  repeat (padding_spec tail_padding_ns 0)
    (N.to_nat (lay_side thr normals btxs * lay_side thr normals btxs - lenN (lay_body thr normals btxs))).

(* the empty square is the general formula too: one tail padding share, side 1 *)
Lemma layout_unfold thr normals btxs :
  layout thr normals btxs = lay_body thr normals btxs ++ tail_pad thr normals btxs.
Proof.
  unfold tail_pad. unfold layout, lay_body, lay_side, tx_run, pfb_run, lay_placed, lay_start, sorted_blobs.
  destruct normals as [|n normals]; [destruct btxs as [|t btxs]|]; cbv zeta; [|reflexivity|reflexivity].
  vm_compute. reflexivity.
Qed.

Lemma placed_index_small thr normals btxs : 1 <= thr -> estimate thr normals btxs < 2097152 ->
  Forall (fun e => lb_index e < 2097152) (lay_placed thr normals btxs).
Proof.
  intros Ht Hest. unfold lay_placed. eapply Forall_impl; [|apply assign_index_le, Ht].
  intros e [_ He]. cbn beta in He. pose proof (final_cursor_estimate thr normals btxs Ht). lia.
Qed.

(* the occupied prefix: transactions, PFBs, blob region; never longer than the estimate *)
Lemma lay_body_eq thr normals btxs : 1 <= thr -> Forall lay_btx_ok btxs ->
  estimate thr normals btxs < 2097152 ->
  lay_body thr normals btxs =
    tx_run normals ++ pfb_run thr normals btxs
    ++ region (lenN (tx_run normals ++ pfb_run thr normals btxs)) primary_reserved_padding_ns 0
              (lay_placed thr normals btxs)
  /\ lenN (lay_body thr normals btxs) <= estimate thr normals btxs.
Proof.
  intros Ht Hok Hest.
  assert (Hacc : lenN (tx_run normals ++ pfb_run thr normals btxs) <= lay_start normals btxs).
  { rewrite lenN_app. unfold tx_run, pfb_run. rewrite !compact_spec_ix_length. unfold lay_start.
    pose proof (compact_count_wrappers _ btxs (placed_index_small thr normals btxs Ht Hest)). lia. }
  assert (Hch : chain (lenN (tx_run normals ++ pfb_run thr normals btxs)) (lay_placed thr normals btxs)).
  { eapply chain_weaken; [exact Hacc|]. unfold lay_placed. apply assign_chain; [exact Ht|].
    eapply Forall_impl; [|apply sorted_blobs_ok, Hok]. intros e [[H1 _] H2]. split; assumption. }
  unfold lay_body. rewrite (place_region _ _ _ _ Hch). split; [rewrite <- app_assoc; reflexivity|].
  rewrite lenN_app, (region_lenN _ _ _ _ Hch).
  eapply N.le_trans; [apply region_end_mono, Hacc|]. unfold lay_placed. rewrite region_end_assign.
  apply final_cursor_estimate, Ht.
Qed.

(* ---- Item 1: size ---- *)
Theorem layout_size thr normals btxs m : 1 <= thr -> Forall lay_btx_ok btxs ->
  pow2 m -> estimate thr normals btxs <= m * m -> estimate thr normals btxs < 2097152 ->
  let side := lay_side thr normals btxs in
  pow2 side /\ side <= m /\ lenN (layout thr normals btxs) = side * side.
Proof.
  intros Ht Hok Hm Hfit Hest side.
  destruct (blob_min_square_size_spec (estimate thr normals btxs)) as (Hp & Hcov & Hleast).
  fold (lay_side thr normals btxs) in Hp, Hcov, Hleast. fold side in Hp, Hcov, Hleast.
  split; [exact Hp|]. split; [apply Hleast; assumption|].
  destruct (lay_body_eq thr normals btxs Ht Hok Hest) as [_ Hlen].
  rewrite layout_unfold, lenN_app. unfold tail_pad. fold side. unfold lenN at 2. rewrite repeat_length. lia.
Qed.

(* a maximum side of at most 1024 keeps every index below 2^21 *)
Corollary layout_size_1024 thr normals btxs m : 1 <= thr -> Forall lay_btx_ok btxs ->
  pow2 m -> m <= 1024 -> estimate thr normals btxs <= m * m ->
  let side := lay_side thr normals btxs in
  pow2 side /\ side <= m /\ lenN (layout thr normals btxs) = side * side.
Proof. intros Ht Hok Hm Hm2 Hfit. apply layout_size; try assumption. nia. Qed.

(* what holds without any bound on the estimate *)
Theorem layout_size_partial thr normals btxs :
  let side := lay_side thr normals btxs in
  pow2 side /\ (forall m, pow2 m -> estimate thr normals btxs <= m * m -> side <= m) /\
  (lenN (lay_body thr normals btxs) <= side * side -> lenN (layout thr normals btxs) = side * side).
Proof.
  intros side. destruct (blob_min_square_size_spec (estimate thr normals btxs)) as (Hp & Hcov & Hleast).
  split; [exact Hp|]. split; [exact Hleast|]. intros Hlen.
  rewrite layout_unfold, lenN_app. unfold tail_pad. fold side. unfold lenN at 2. rewrite repeat_length. lia.
Qed.

Lemma layout_empty thr : layout thr [] [] = [padding_spec tail_padding_ns 0] /\ lay_side thr [] [] = 1.
Proof. split; reflexivity. Qed.

(* ================================================================== *)
(* Shape of the region: sizes and namespaces                           *)
(* ================================================================== *)

Lemma region_wf : forall l cur pns pver, length pns = 29%nat ->
  Forall (fun e => blob_ok (lb_blob e)) l ->
  Forall (fun s => length s = 512%nat) (region cur pns pver l).
Proof.
  induction l as [|e l IH]; intros cur pns pver Hp H; cbn [region]; [constructor|].
  apply Forall_cons_iff in H as [He H]. apply Forall_app. split; [apply Forall_repeat, padding_spec_length, Hp|].
  apply Forall_app. split; [apply blob_spec_wf, He|]. apply IH; [apply He|exact H].
Qed.

(* every share of the region carries the preceding namespace or a blob's *)
Lemma region_ns_all (Q : namespace -> Prop) : forall l cur pns pver, length pns = 29%nat ->
  Forall (fun e => blob_ok (lb_blob e)) l -> Q pns -> Forall (fun e => Q (lb_ns e)) l ->
  Forall (fun s => Q (sh_ns s)) (region cur pns pver l).
Proof.
  induction l as [|e l IH]; intros cur pns pver Hp H Hq Hl; cbn [region]; [constructor|].
  apply Forall_cons_iff in H as [He H]. apply Forall_cons_iff in Hl as [Hqe Hl].
  assert (Hne : length (b_ns (lb_blob e)) = 29%nat) by apply He.
  apply Forall_app. split; [apply Forall_repeat; rewrite (padding_spec_ns _ _ Hp); exact Hq|].
  apply Forall_app. split.
  - eapply Forall_impl; [|apply blob_spec_ns, Hne]. intros s Hs. cbn beta in Hs. rewrite Hs. exact Hqe.
  - apply IH; assumption.
Qed.

Lemma region_ordered : forall l cur pns pver, length pns = 29%nat ->
  Forall (fun e => blob_ok (lb_blob e)) l -> StronglySorted lb_le l ->
  Forall (fun e => ns_leq pns (lb_ns e)) l ->
  ns_ordered (region cur pns pver l).
Proof.
  induction l as [|e l IH]; intros cur pns pver Hp H Hs Hl; cbn [region]; [constructor|].
  apply Forall_cons_iff in H as [He H]. apply Forall_cons_iff in Hl as [Hpe Hl].
  apply StronglySorted_inv in Hs as [Hs Hel].
  assert (Hne : length (b_ns (lb_blob e)) = 29%nat) by apply He.
  assert (Hrest : Forall (fun s => ns_leq (lb_ns e) (sh_ns s))
                    (region (lb_index e + lb_n e) (b_ns (lb_blob e)) (b_ver (lb_blob e)) l)).
  { apply (region_ns_all (ns_leq (lb_ns e))); [exact Hne|exact H|apply ns_leq_refl|exact Hel]. }
  assert (Hbr : ns_ordered (blob_spec (lb_blob e) ++ region (lb_index e + lb_n e) (b_ns (lb_blob e)) (b_ver (lb_blob e)) l)).
  { apply (ordered_run_app (lb_ns e)); [apply blob_spec_ns, Hne| |exact Hrest]. apply IH; assumption. }
  apply (ordered_run_app pns); [apply Forall_repeat, padding_spec_ns, Hp|exact Hbr|].
  apply Forall_app. split.
  - eapply Forall_impl; [|apply blob_spec_ns, Hne]. intros s Hsn. cbn beta in Hsn. rewrite Hsn. exact Hpe.
  - eapply Forall_impl; [|exact Hrest]. intros s Hsn. cbn beta in Hsn. exact (ns_leq_trans _ _ _ Hpe Hsn).
Qed.

(* facts on the placed blobs of a valid input *)
Lemma placed_facts thr normals btxs : Forall lay_btx_ok btxs ->
  let placed := lay_placed thr normals btxs in
  Forall (fun e => blob_ok (lb_blob e)) placed /\ StronglySorted lb_le placed /\
  Forall (fun e => bytes_cmp primary_reserved_padding_ns (lb_ns e) = Lt /\ bytes_cmp (lb_ns e) tail_padding_ns = Lt) placed.
Proof.
  intros Hok placed. pose proof (sorted_blobs_ok btxs Hok) as Hs. unfold placed, lay_placed. repeat split.
  - apply (assign_Forall thr (fun b _ => blob_ok b)). eapply Forall_impl; [|exact Hs]. intros e [[H _] _]. exact H.
  - apply assign_sorted, lb_sort_sorted.
  - apply (assign_Forall thr (fun b _ => bytes_cmp primary_reserved_padding_ns (b_ns b) = Lt /\ bytes_cmp (b_ns b) tail_padding_ns = Lt)).
    eapply Forall_impl; [|exact Hs]. intros e [H _]. apply lay_blob_between, H.
Qed.

(* ---- Item 2: every share has 512 bytes ---- *)
Theorem layout_wf thr normals btxs : 1 <= thr -> Forall lay_btx_ok btxs ->
  estimate thr normals btxs < 2097152 ->
  Forall (fun s => length s = 512%nat) (layout thr normals btxs).
Proof.
  intros Ht Hok Hest. rewrite layout_unfold. destruct (lay_body_eq thr normals btxs Ht Hok Hest) as [-> _].
  destruct (placed_facts thr normals btxs Hok) as (Hb & _ & _).
  repeat (apply Forall_app; split).
  - apply compact_spec_ix_wf, length_tx_ns.
  - apply compact_spec_ix_wf, length_pfb_ns.
  - apply region_wf; [apply length_reserved_ns|exact Hb].
  - apply Forall_repeat, padding_spec_length, length_tail_ns.
Qed.

(* ---- Item 3: namespace order ---- *)
Theorem layout_ordered thr normals btxs : 1 <= thr -> Forall lay_btx_ok btxs ->
  estimate thr normals btxs < 2097152 ->
  ns_ordered (layout thr normals btxs).
Proof.
  intros Ht Hok Hest. rewrite layout_unfold. destruct (lay_body_eq thr normals btxs Ht Hok Hest) as [-> _].
  destruct (placed_facts thr normals btxs Hok) as (Hb & Hs & Hbt).
  set (placed := lay_placed thr normals btxs) in *.
  set (reg := region _ primary_reserved_padding_ns 0 placed).
  set (tail := tail_pad thr normals btxs).
  assert (Hreg_lo : Forall (fun s => ns_leq primary_reserved_padding_ns (sh_ns s)) reg).
  { apply (region_ns_all (ns_leq primary_reserved_padding_ns)); [apply length_reserved_ns|exact Hb|apply ns_leq_refl|].
    eapply Forall_impl; [|exact Hbt]. intros e [H _]. apply ns_leq_of_lt, H. }
  assert (Hreg_hi : Forall (fun s => ns_leq (sh_ns s) tail_padding_ns) reg).
  { apply (region_ns_all (fun n => ns_leq n tail_padding_ns)); [apply length_reserved_ns|exact Hb|apply ns_leq_of_lt, reserved_lt_tail|].
    eapply Forall_impl; [|exact Hbt]. intros e [_ H]. apply ns_leq_of_lt, H. }
  assert (Htail : Forall (fun s => sh_ns s = tail_padding_ns) tail)
    by (apply Forall_repeat, padding_spec_ns, length_tail_ns).
  assert (Hrt : ns_ordered (reg ++ tail)).
  { apply ordered_app.
    - apply region_ordered; [apply length_reserved_ns|exact Hb|exact Hs|].
      eapply Forall_impl; [|exact Hbt]. intros e [H _]. apply ns_leq_of_lt, H.
    - eapply ordered_const, Htail.
    - intros x y Hx Hy. rewrite Forall_forall in Hreg_hi, Htail. rewrite (Htail y Hy). apply Hreg_hi, Hx. }
  assert (Hrt_lo : Forall (fun s => ns_leq primary_reserved_padding_ns (sh_ns s)) (reg ++ tail)).
  { apply Forall_app. split; [exact Hreg_lo|]. eapply Forall_impl; [|exact Htail].
    intros s Hsn. cbn beta in Hsn. rewrite Hsn. apply ns_leq_of_lt, reserved_lt_tail. }
  rewrite <- !app_assoc.
  apply (ordered_run_app tx_ns); [apply compact_spec_ix_ns, length_tx_ns| |].
  - apply (ordered_run_app pfb_ns); [apply compact_spec_ix_ns, length_pfb_ns|exact Hrt|].
    eapply Forall_impl; [|exact Hrt_lo]. intros s Hsn. cbn beta in Hsn.
    exact (ns_leq_trans _ _ _ (ns_leq_of_lt _ _ pfb_lt_reserved) Hsn).
  - apply Forall_app. split.
    + eapply Forall_impl; [|apply compact_spec_ix_ns, length_pfb_ns]. intros s Hsn. cbn beta in Hsn.
      rewrite Hsn. apply ns_leq_of_lt, tx_lt_pfb.
    + eapply Forall_impl; [|exact Hrt_lo]. intros s Hsn. cbn beta in Hsn.
      refine (ns_leq_trans _ _ _ _ Hsn). apply ns_leq_of_lt. vm_compute. reflexivity.
Qed.

(* ================================================================== *)
(* Item 4: region structure                                            *)
(* ================================================================== *)

(* padding between the PFB shares (ending at square index k) and the first blob *)
Definition reserved_pad (k : N) (placed : list lblob) : list share :=
  match placed with
  | [] => []
  | e :: _ => repeat (padding_spec primary_reserved_padding_ns 0) (N.to_nat (lb_index e - k))
  end.
(* the first blob, then for every further blob: padding with the namespace and share
   version of the blob before it, then the blob's shares *)
Definition blob_region (placed : list lblob) : list share :=
  match placed with
  | [] => []
  | e :: tl => blob_spec (lb_blob e) ++ region (lb_index e + lb_n e) (b_ns (lb_blob e)) (b_ver (lb_blob e)) tl
  end.

Lemma region_split k placed :
  region k primary_reserved_padding_ns 0 placed = reserved_pad k placed ++ blob_region placed.
Proof. destruct placed; reflexivity. Qed.

(* the same without indexes: (number of padding shares before the blob, blob) *)
Fixpoint gapped (pns : namespace) (pver : N) (l : list (nat * blob)) : list share :=
  match l with
  | [] => []
  | (g, b) :: tl => repeat (padding_spec pns pver) g ++ blob_spec b ++ gapped (b_ns b) (b_ver b) tl
  end.
Fixpoint gaps_of (cur : N) (l : list lblob) : list (nat * blob) :=
  match l with
  | [] => []
  | e :: tl => (N.to_nat (lb_index e - cur), lb_blob e) :: gaps_of (lb_index e + lb_n e) tl
  end.
Lemma region_gapped : forall l cur pns pver, region cur pns pver l = gapped pns pver (gaps_of cur l).
Proof. induction l as [|e l IH]; intros cur pns pver; cbn [region gaps_of gapped]; [reflexivity|]. rewrite IH. reflexivity. Qed.
Lemma gaps_of_blobs : forall l cur, map snd (gaps_of cur l) = map lb_blob l.
Proof. induction l as [|e l IH]; intros cur; cbn [gaps_of map snd]; [reflexivity|]. rewrite IH. reflexivity. Qed.

Definition blob_le (a b : blob) : Prop := ns_leq (b_ns a) (b_ns b).

Lemma sorted_map_blobs l : StronglySorted lb_le l -> StronglySorted blob_le (map lb_blob l).
Proof.
  induction 1 as [|e l _ IH He]; cbn [map]; constructor; [exact IH|].
  apply Forall_map. exact He.
Qed.

(* the blobs in the order they are laid out: a namespace-sorted permutation of the input's *)
Theorem placed_blobs thr normals btxs :
  let bs := map lb_blob (lay_placed thr normals btxs) in
  bs = map lb_blob (sorted_blobs btxs) /\
  Permutation bs (concat (map btx_blobs btxs)) /\ StronglySorted blob_le bs.
Proof.
  intros bs. unfold bs, lay_placed. rewrite assign_blobs. split; [reflexivity|]. split.
  - rewrite <- (all_blobs_blobs btxs 0). apply Permutation_map, lb_sort_perm.
  - apply sorted_map_blobs, lb_sort_sorted.
Qed.

Theorem layout_regions thr normals btxs : 1 <= thr -> Forall lay_btx_ok btxs ->
  estimate thr normals btxs < 2097152 ->
  let placed := lay_placed thr normals btxs in
  let k := lenN (tx_run normals ++ pfb_run thr normals btxs) in
  layout thr normals btxs =
    tx_run normals ++ pfb_run thr normals btxs ++ reserved_pad k placed ++ blob_region placed
    ++ tail_pad thr normals btxs.
Proof.
  intros Ht Hok Hest placed k. rewrite layout_unfold. destruct (lay_body_eq thr normals btxs Ht Hok Hest) as [-> _].
  fold placed. fold k. rewrite region_split, <- !app_assoc. reflexivity.
Qed.

(* index-free form: every share outside the two transaction sequences and the blobs is
   a padding share [padding_spec ns ver] (canonical by padding_spec_canonical) *)
Theorem layout_regions_gapped thr normals btxs : 1 <= thr -> Forall lay_btx_ok btxs ->
  estimate thr normals btxs < 2097152 ->
  exists (gl : list (nat * blob)) (ntail : nat),
    map snd gl = map lb_blob (sorted_blobs btxs) /\
    layout thr normals btxs =
      compact_spec_ix tx_ns 0 normals
      ++ compact_spec_ix pfb_ns 0 (wrappers (lay_placed thr normals btxs) 0 btxs)
      ++ gapped primary_reserved_padding_ns 0 gl
      ++ repeat (padding_spec tail_padding_ns 0) ntail.
Proof.
  intros Ht Hok Hest. rewrite layout_unfold. destruct (lay_body_eq thr normals btxs Ht Hok Hest) as [-> _].
  eexists (gaps_of _ (lay_placed thr normals btxs)), _. split.
  - rewrite gaps_of_blobs. unfold lay_placed. apply assign_blobs.
  - rewrite region_gapped, <- !app_assoc. reflexivity.
Qed.

(* ================================================================== *)
(* All four items together, and for layout_construct / layout_build    *)
(* ================================================================== *)

Definition square_shape (thr : N) (normals : list bytes) (btxs : list blob_tx) (m : N) (sq : list share) : Prop :=
  let side := lay_side thr normals btxs in
  let placed := lay_placed thr normals btxs in
  pow2 side /\ side <= m /\ lenN sq = side * side /\
  Forall (fun s => length s = 512%nat) sq /\
  ns_ordered sq /\
  sq = tx_run normals ++ pfb_run thr normals btxs
       ++ reserved_pad (lenN (tx_run normals ++ pfb_run thr normals btxs)) placed
       ++ blob_region placed ++ tail_pad thr normals btxs.

Theorem layout_shape thr normals btxs m : 1 <= thr -> Forall lay_btx_ok btxs ->
  pow2 m -> m <= 1024 -> estimate thr normals btxs <= m * m ->
  square_shape thr normals btxs m (layout thr normals btxs).
Proof.
  intros Ht Hok Hm Hm2 Hfit. assert (Hest : estimate thr normals btxs < 2097152) by nia.
  destruct (layout_size thr normals btxs m Ht Hok Hm Hfit Hest) as (H1 & H2 & H3).
  unfold square_shape. repeat split; try assumption.
  - apply layout_wf; assumption.
  - apply layout_ordered; assumption.
  - apply layout_regions; assumption.
Qed.

Lemma is_pow2_to_N max : (0 <? max)%Z = true -> is_pow2 max = true -> pow2 (Z.to_N max).
Proof.
  intros Hpos H. apply is_pow2_spec in H. destruct H as (k & Hk & ->).
  exists (Z.to_N k). rewrite Z2N.inj_pow by lia. reflexivity.
Qed.

(* Construct: the square of an accepted transaction list *)
Theorem layout_construct_shape raws max thr sq : 1 <= thr -> (max <= 1024)%Z ->
  layout_construct raws max thr = Ok sq ->
  exists normals btxs, split_ordered false raws [] [] = Some (normals, btxs) /\
    sq = layout thr normals btxs /\
    (Forall lay_btx_ok btxs -> square_shape thr normals btxs (Z.to_N max) sq).
Proof.
  intros Ht Hmax H. unfold layout_construct in H.
  destruct ((0 <? max)%Z && is_pow2 max) eqn:Ecfg; cbn [negb] in H; [|discriminate].
  apply andb_true_iff in Ecfg as [Hpos Hp2].
  destruct (split_ordered false raws [] []) as [[normals btxs]|] eqn:Es; [|discriminate].
  destruct (estimate thr normals btxs <=? Z.to_N max * Z.to_N max) eqn:Ee; [|discriminate].
  injection H as <-. exists normals, btxs. split; [reflexivity|]. split; [reflexivity|].
  intros Hok. apply layout_shape; try assumption; [apply is_pow2_to_N; assumption|lia|lia].
Qed.

Lemma keep_estimate cap thr : forall raws normals btxs kn kb normals' btxs' kept,
  keep cap thr raws normals btxs kn kb = Some (normals', btxs', kept) ->
  estimate thr normals btxs <= cap -> estimate thr normals' btxs' <= cap.
Proof.
  induction raws as [|r raws IH]; intros normals btxs kn kb normals' btxs' kept H Hc; cbn [keep] in H.
  - injection H as <- <- _. exact Hc.
  - destruct (classify r) as [raw|raw t|]; [| |discriminate].
    + destruct (estimate thr (normals ++ [r]) btxs <=? cap) eqn:E; eapply IH; try exact H; [lia|exact Hc].
    + destruct (estimate thr normals (btxs ++ [t]) <=? cap) eqn:E; eapply IH; try exact H; [lia|exact Hc].
Qed.

(* Build: the square of the kept transactions *)
Theorem layout_build_shape raws max thr sq kept : 1 <= thr -> (max <= 1024)%Z ->
  layout_build raws max thr = Ok (sq, kept) ->
  exists normals btxs, keep (Z.to_N max * Z.to_N max) thr raws [] [] [] [] = Some (normals, btxs, kept) /\
    sq = layout thr normals btxs /\
    (Forall lay_btx_ok btxs -> square_shape thr normals btxs (Z.to_N max) sq).
Proof.
  intros Ht Hmax H. unfold layout_build in H.
  destruct ((0 <? max)%Z && is_pow2 max) eqn:Ecfg; cbn [negb] in H; [|discriminate].
  apply andb_true_iff in Ecfg as [Hpos Hp2].
  destruct (keep (Z.to_N max * Z.to_N max) thr raws [] [] [] []) as [[[normals btxs] kept']|] eqn:Ek; [|discriminate].
  injection H as <- <-. exists normals, btxs. split; [reflexivity|]. split; [reflexivity|].
  intros Hok. apply layout_shape; try assumption; [apply is_pow2_to_N; assumption|lia|].
  apply (keep_estimate _ _ _ _ _ _ _ _ _ _ Ek). change (estimate thr [] []) with 0. lia.
Qed.

(* ================================================================== *)
(* Non-vacuity: concrete inputs satisfying the conditions              *)
(* ================================================================== *)

Definition ex_ns (c : byte) : namespace := repeat Byte.x00 19 ++ repeat c 10.
Definition ex_blob_a : blob := mk_blob (ex_ns Byte.x01) (repeat Byte.x07 600) 0 None.    (* 2 shares *)
Definition ex_blob_b : blob := mk_blob (ex_ns Byte.x02) (repeat Byte.x08 2000) 0 None.   (* 5 shares *)
Definition ex_normals : list bytes := [[Byte.x01; Byte.x02; Byte.x03]; [Byte.x04; Byte.x05; Byte.x06]].
(* the task's small input: one blob transaction, one blob *)
Definition ex_btxs_small : list blob_tx := [mk_btx [Byte.x0a] [ex_blob_a]].
(* one blob transaction with a 500 byte PFB and two blobs given in descending namespace order *)
Definition ex_btxs : list blob_tx := [mk_btx (repeat Byte.x0a 500) [ex_blob_b; ex_blob_a]].

Lemma ex_blob_ok ns_c data : data <> [] -> lenN data < 4294967296 ->
  In ns_c [Byte.x01; Byte.x02] -> lay_blob_ok (mk_blob (ex_ns ns_c) data 0 None).
Proof.
  intros Hd Hl Hc. split.
  - unfold blob_ok. cbn [b_ns b_data b_ver b_signer].
    destruct Hc as [<-|[<-|[]]]; repeat split; try reflexivity; try assumption; left; split; reflexivity.
  - cbn [b_ns]. destruct Hc as [<-|[<-|[]]]; vm_compute; reflexivity.
Qed.

Lemma ex_btxs_ok : Forall lay_btx_ok ex_btxs /\ Forall lay_btx_ok ex_btxs_small.
Proof.
  assert (Ha : lay_blob_ok ex_blob_a).
  { apply ex_blob_ok; [discriminate|vm_compute; reflexivity|left; reflexivity]. }
  assert (Hb : lay_blob_ok ex_blob_b).
  { apply ex_blob_ok; [discriminate|vm_compute; reflexivity|right; left; reflexivity]. }
  split; (constructor; [|constructor]); unfold lay_btx_ok; cbn [btx_blobs].
  - constructor; [exact Hb|]. constructor; [exact Ha|constructor].
  - constructor; [exact Ha|constructor].
Qed.

(* thr = 1, maximum side 4: estimate 14, side 4, 16 shares; one reserved padding share,
   blob a at 4, two padding shares of a's namespace, blob b at 8, three tail padding shares *)
Example ex_layout_hyps :
  1 <= 1 /\ Forall lay_btx_ok ex_btxs /\ pow2 4 /\ 4 <= 1024 /\ estimate 1 ex_normals ex_btxs <= 4 * 4.
Proof.
  split; [lia|]. split; [apply ex_btxs_ok|]. split; [exists 2; reflexivity|]. split; [lia|].
  vm_compute. discriminate.
Qed.

Example ex_layout_values :
  estimate 1 ex_normals ex_btxs = 14 /\ lay_side 1 ex_normals ex_btxs = 4 /\
  length (layout 1 ex_normals ex_btxs) = 16%nat /\
  map lb_index (lay_placed 1 ex_normals ex_btxs) = [4; 8] /\
  map sh_ns (layout 1 ex_normals ex_btxs) =
    [tx_ns; pfb_ns; pfb_ns; primary_reserved_padding_ns;
     ex_ns Byte.x01; ex_ns Byte.x01; ex_ns Byte.x01; ex_ns Byte.x01;
     ex_ns Byte.x02; ex_ns Byte.x02; ex_ns Byte.x02; ex_ns Byte.x02; ex_ns Byte.x02;
     tail_padding_ns; tail_padding_ns; tail_padding_ns] /\
  layout 1 ex_normals ex_btxs =
    tx_run ex_normals ++ pfb_run 1 ex_normals ex_btxs
    ++ [padding_spec primary_reserved_padding_ns 0]
    ++ (blob_spec ex_blob_a ++ repeat (padding_spec (ex_ns Byte.x01) 0) 2 ++ blob_spec ex_blob_b)
    ++ repeat (padding_spec tail_padding_ns 0) 3.
Proof. repeat split; vm_compute; reflexivity. Qed.

Example ex_layout_shape : square_shape 1 ex_normals ex_btxs 4 (layout 1 ex_normals ex_btxs).
Proof. destruct ex_layout_hyps as (H1 & H2 & H3 & H4 & H5). apply layout_shape; assumption. Qed.

(* the small input at thr = 64: estimate 4, side 2 *)
Example ex_layout_small :
  estimate 64 ex_normals ex_btxs_small = 4 /\ lay_side 64 ex_normals ex_btxs_small = 2 /\
  length (layout 64 ex_normals ex_btxs_small) = 4%nat /\
  map sh_ns (layout 64 ex_normals ex_btxs_small) = [tx_ns; pfb_ns; ex_ns Byte.x01; ex_ns Byte.x01] /\
  square_shape 64 ex_normals ex_btxs_small 2 (layout 64 ex_normals ex_btxs_small).
Proof.
  do 4 (split; [vm_compute; reflexivity|]).
  apply layout_shape; [lia|apply ex_btxs_ok|exists 1; reflexivity|lia|vm_compute; discriminate].
Qed.

(* the empty input *)
Example ex_layout_empty : square_shape 64 [] [] 1 (layout 64 [] []) /\ length (layout 64 [] []) = 1%nat.
Proof.
  split; [|reflexivity]. apply layout_shape; [lia|constructor|exists 0; reflexivity|lia|vm_compute; discriminate].
Qed.
