package fn

// ---- var / := / op= / ++ / --

func Vars(x int) int {
	var a int
	var b, c int = x, 2
	var d, e = x + 1, uint8(x)
	var f uint32
	g := a + b*c
	g += d
	g -= int(e)
	g *= 3
	g /= 7
	g %= 1001
	g <<= 2
	g >>= 1
	g &= 0xffff
	g |= 0x10000
	g ^= x
	f--
	g++
	g++
	g--
	_ = g
	return g + int(f)
}
func IncDecWrap(a uint8, b uint32, c uint64, d int64) (uint8, uint32, uint64, int64) {
	a++
	b--
	c--
	d++
	return a, b, c, d
}
func OpAssignDivPanic(a, b int) int {
	a /= b
	a %= b
	return a
}

// ---- if / else if / else, early returns, init statements

func Classify(x int) int {
	if x < 0 {
		if x < -100 {
			return -2
		}
		return -1
	} else if x == 0 {
		return 0
	} else if y := x % 10; y == 3 {
		return 3
	} else if z := y * 2; z > 10 {
		return z + y
	} else {
		x = z
	}
	return x + 100
}
func IfInit(a, b int) int {
	r := 0
	if q := a - b; q > 0 {
		r = q
	} else if q < 0 {
		r = -q
	}
	if r > 1000 {
		return 1000
	}
	return r
}

// ---- for (both forms), nested loops.  Trip counts are clamped: Go would run a long time otherwise

func SumTo(n int) int {
	if n > 50 {
		n = 50
	}
	s := 0
	for i := 0; i < n; i++ {
		s += i
	}
	return s
}
func Collatz(n uint32) int {
	n = n%97 + 1
	steps := 0
	for n != 1 {
		if n%2 == 0 {
			n /= 2
		} else {
			n = 3*n + 1
		}
		steps++
	}
	return steps
}
func ForEver(n int) int {
	n &= 63
	i := 0
	for {
		if i*i >= n {
			return i
		}
		i++
	}
}
func Nested(a, b uint8) int {
	a %= 7
	b %= 9
	t := 0
	for i := 0; i < int(a); i++ {
		for j := int(b); j > 0; j-- {
			if (i+j)%3 == 0 {
				t += i * j
			}
		}
		var k uint8
		for k < 3 {
			k++
			t++
		}
	}
	return t
}
func LoopDivPanic(n int) int {
	n %= 8
	s := 0
	for i := 3; i >= n; i-- {
		s += 12 / i
	}
	return s
}
func LoopCondCall(x int) int {
	c := 0
	for x = AbsClamp(x); !IsSmall(x); x /= 3 {
		c++
	}
	return c*1000 + x
}
func AbsClamp(x int) int {
	if x < 0 {
		x = -x
	}
	if x < 0 {
		return 0
	}
	return x
}
func IsSmall(x int) bool { return x < 10 }
func Pow2Loop(n uint64) (r uint64) {
	for r = 1; r < n && r != 0; r <<= 1 {
	}
	return
}

// ---- tagless switch, default last / in the middle / absent, several conditions per case

func Switch(x int) int {
	switch {
	case x < 0:
		return -1
	case x == 0, x == 1:
		return 0
	case x < 10:
		x *= 2
	default:
		x = 99
	}
	return x
}
func SwitchDefaultMiddle(x uint8) int {
	r := 5
	switch {
	case x < 10:
		r = 1
	default:
		r = 2
	case x < 100:
		r = 3
	case x < 50:
		r = 4
	}
	return r
}
func SwitchDefaultFirst(x int) (r int) {
	switch y := x % 5; {
	default:
		r = y
	case y == 1 || y == -1:
		r = 100
	case y == 2:
	}
	return r
}
func SwitchNoDefault(x int, p bool) int {
	switch {
	case p && x > 0:
		return 1
	case !p:
		switch {
		case x > 5:
			return 2
		}
		x++
	}
	return x
}
func SwitchInLoop(n int) int {
	n &= 15
	odd := 0
	for i := 0; i < n; i++ {
		switch {
		case i%2 == 1:
			odd += i
		default:
			if i == 12 {
				return -odd
			}
		}
	}
	return odd
}
