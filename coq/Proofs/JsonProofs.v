(* C19, JSON text layer: base64 and decimal round trips, the lexer / parser of Model/Json.v
   recover every rendered value, JSON round trips of blobs, shares and namespaces, and the
   acceptance of Blob.UnmarshalJSON in terms of NewBlobFromProto. *)
From Coq Require Import List Arith NArith ZArith Lia Bool.
From Coq Require Import ZifyN ZifyNat ZifyBool.
From GS.Model Require Import Base Varint Namespace ShareFmt Blob Proto Json.
From GS.Proofs Require Import BaseLemmas NamespaceProofs ProtoProofs.
Import ListNotations.

Ltac Zify.zify_post_hook ::= Z.div_mod_to_equations.
Open Scope N_scope.

(* ---------- lists three elements at a time ---------- *)
Lemma list_ind3 {A} (P : list A -> Prop) :
  P [] -> (forall x, P [x]) -> (forall x y, P [x; y]) ->
  (forall x y z l, P l -> P (x :: y :: z :: l)) -> forall l, P l.
Proof.
  intros H0 H1 H2 H3 l.
  assert (H : P l /\ (forall x, P (x :: l)) /\ (forall x y, P (x :: y :: l))).
  { induction l as [|a l IH].
    - split; [exact H0|]. split; [exact H1|exact H2].
    - destruct IH as (Ha & Hb & Hc). split; [apply Hb|]. split; [intros x; apply Hc|].
      intros x y. apply H3. exact Ha. }
  apply H.
Qed.

(* ---------- base64 ---------- *)
Lemma in_first_64 i : i < 64 -> In i (map N.of_nat (seq 0 64)).
Proof.
  intros H. apply in_map_iff. exists (N.to_nat i). split; [lia|]. apply in_seq. lia.
Qed.

Lemma b64_val_char i : i < 64 -> b64_val (b64_char i) = Some i.
Proof.
  intros H.
  assert (Hall : forallb (fun j => match b64_val (b64_char j) with Some k => k =? j | None => false end)
                         (map N.of_nat (seq 0 64)) = true) by (vm_compute; reflexivity).
  rewrite forallb_forall in Hall. specialize (Hall i (in_first_64 i H)).
  destruct (b64_val (b64_char i)) as [k|]; [|discriminate]. apply N.eqb_eq in Hall. subst k. reflexivity.
Qed.

Lemma b64_char_plain i : is_plain (b64_char i) = true.
Proof.
  assert (Hall : forallb is_plain b64_alphabet = true) by (vm_compute; reflexivity).
  rewrite forallb_forall in Hall. unfold b64_char.
  destruct (nth_in_or_default (N.to_nat i) b64_alphabet "A"%byte) as [Hin|Hd].
  - apply Hall, Hin.
  - rewrite Hd. vm_compute. reflexivity.
Qed.

Lemma b64_val_pad : b64_val c_pad = None.
Proof. vm_compute. reflexivity. Qed.

Lemma base64_decode_quad a b c d rest :
  base64_decode (a :: b :: c :: d :: rest) =
  match b64_val a, b64_val b with
  | Some va, Some vb =>
    let o1 := n2b (va * 4 + vb / 16) in
    match b64_val c with
    | Some vc =>
      let o2 := n2b ((vb mod 16) * 16 + vc / 4) in
      match b64_val d with
      | Some vd =>
        match base64_decode rest with
        | Some r => Some (o1 :: o2 :: n2b ((vc mod 4) * 64 + vd) :: r)
        | None => None
        end
      | None =>
        if byte_eqb d c_pad then match rest with [] => Some [o1; o2] | _ => None end else None
      end
    | None =>
      if byte_eqb c c_pad && byte_eqb d c_pad
      then match rest with [] => Some [o1] | _ => None end else None
    end
  | _, _ => None
  end.
Proof. reflexivity. Qed.

Lemma n2b_of_b2n x e : e = b2n x -> n2b e = x.
Proof. intros ->. apply n2b_b2n. Qed.

(* decoding the standard encoding gives the bytes back *)
Theorem base64_decode_encode b : base64_decode (base64_encode b) = Some b.
Proof.
  induction b as [|x|x y|x y z l IH] using list_ind3.
  - reflexivity.
  - pose proof (b2n_lt x) as Hx. cbn [base64_encode]. rewrite base64_decode_quad.
    rewrite !b64_val_char by lia. rewrite b64_val_pad. cbn zeta.
    change (byte_eqb c_pad c_pad) with true. cbn [andb].
    f_equal. f_equal. apply n2b_of_b2n. lia.
  - pose proof (b2n_lt x) as Hx. pose proof (b2n_lt y) as Hy.
    cbn [base64_encode]. rewrite base64_decode_quad.
    rewrite !b64_val_char by lia. rewrite b64_val_pad. cbn zeta.
    change (byte_eqb c_pad c_pad) with true. cbn iota.
    f_equal. f_equal; [apply n2b_of_b2n; lia|]. f_equal. apply n2b_of_b2n. lia.
  - pose proof (b2n_lt x) as Hx. pose proof (b2n_lt y) as Hy. pose proof (b2n_lt z) as Hz.
    cbn [base64_encode]. rewrite base64_decode_quad.
    rewrite !b64_val_char by lia. rewrite IH. cbn zeta.
    f_equal. f_equal; [apply n2b_of_b2n; lia|]. f_equal; [apply n2b_of_b2n; lia|].
    f_equal. apply n2b_of_b2n. lia.
Qed.

Lemma c_pad_plain : is_plain c_pad = true.
Proof. vm_compute. reflexivity. Qed.

(* the encoder's output: base64 alphabet and '=' only, all of them plain string bytes *)
Lemma base64_encode_plain b : forallb is_plain (base64_encode b) = true.
Proof.
  induction b as [|x|x y|x y z l IH] using list_ind3; cbn [base64_encode forallb];
    rewrite ?b64_char_plain, ?c_pad_plain, ?IH; reflexivity.
Qed.

Definition b64_out (c : byte) : bool :=
  match b64_val c with Some _ => true | None => byte_eqb c c_pad end.

Lemma b64_char_out i : b64_out (b64_char i) = true.
Proof.
  assert (Hall : forallb b64_out b64_alphabet = true) by (vm_compute; reflexivity).
  rewrite forallb_forall in Hall. unfold b64_char.
  destruct (nth_in_or_default (N.to_nat i) b64_alphabet "A"%byte) as [Hin|Hd].
  - apply Hall, Hin.
  - rewrite Hd. vm_compute. reflexivity.
Qed.

Lemma base64_encode_alphabet b : forallb b64_out (base64_encode b) = true.
Proof.
  assert (Hp : b64_out c_pad = true) by (vm_compute; reflexivity).
  induction b as [|x|x y|x y z l IH] using list_ind3; cbn [base64_encode forallb];
    rewrite ?b64_char_out, ?Hp, ?IH; reflexivity.
Qed.

Lemma base64_encode_length b : length (base64_encode b) = (4 * ((length b + 2) / 3))%nat.
Proof.
  induction b as [|x|x y|x y z l IH] using list_ind3; try reflexivity.
  cbn [base64_encode length]. rewrite IH.
  replace (S (S (S (length l))) + 2)%nat with (1 * 3 + (length l + 2))%nat by lia.
  rewrite Nat.div_add_l by lia. lia.
Qed.

Lemma base64_encode_nonempty b : b <> [] -> base64_encode b <> [].
Proof.
  intros Hb He. apply (f_equal (@length byte)) in He. rewrite base64_encode_length in He.
  destruct b as [|x b]; [congruence|]. cbn [length] in He.
  assert (1 <= (S (length b) + 2) / 3)%nat by (apply Nat.div_le_lower_bound; lia).
  lia.
Qed.

(* ---------- decimal ---------- *)
Definition pd (acc : N) (s : bytes) : N := fold_left (fun a c => a * 10 + digit_val c) s acc.

Lemma parse_dec_pd s : parse_dec s = pd 0 s.
Proof. reflexivity. Qed.

Lemma pd_app acc s t : pd acc (s ++ t) = pd (pd acc s) t.
Proof. unfold pd. apply fold_left_app. Qed.

Lemma digit_char_b2n m : m < 10 -> b2n (digit_char m) = 48 + m.
Proof. intros H. unfold digit_char. apply b2n_n2b. lia. Qed.

Lemma digit_char_is_digit m : m < 10 -> is_digit (digit_char m) = true.
Proof. intros H. unfold is_digit, in_range. rewrite digit_char_b2n by exact H. lia. Qed.

Lemma digit_char_val m : m < 10 -> digit_val (digit_char m) = m.
Proof. intros H. unfold digit_val. rewrite digit_char_b2n by exact H. lia. Qed.

(* canonical decimal text of n: digits, value n, no leading zero except for "0" itself *)
Definition canon_dec (ds : bytes) (n : N) : Prop :=
  exists d rest, ds = d :: rest /\ forallb is_digit ds = true /\ pd 0 ds = n /\
                 (b2n d = 48 -> rest = []).

Lemma dec_digits_spec : forall fuel n acc, (0 < fuel)%nat -> n < 10 ^ N.of_nat fuel ->
  exists ds, dec_digits fuel n acc = ds ++ acc /\ canon_dec ds n.
Proof.
  induction fuel as [|f IH]; intros n acc Hpos Hn.
  - lia.
  - cbn [dec_digits]. cbn zeta.
    assert (Hm : n mod 10 < 10) by (apply N.mod_lt; lia).
    destruct (n <? 10) eqn:E.
    + apply N.ltb_lt in E. exists [digit_char (n mod 10)]. split; [reflexivity|].
      exists (digit_char (n mod 10)), []. split; [reflexivity|].
      rewrite N.mod_small by exact E. split.
      * cbn [forallb]. rewrite digit_char_is_digit by exact E. reflexivity.
      * split; [|reflexivity]. unfold pd. cbn [fold_left]. rewrite digit_char_val by exact E. lia.
    + apply N.ltb_ge in E.
      assert (Hf : n / 10 < 10 ^ N.of_nat f).
      { rewrite Nat2N.inj_succ, N.pow_succ_r' in Hn. apply N.div_lt_upper_bound; lia. }
      assert (Hfpos : (0 < f)%nat).
      { destruct f; [|lia]. cbn in Hf. assert (1 <= n / 10) by (apply N.div_le_lower_bound; lia). lia. }
      destruct (IH (n / 10) (digit_char (n mod 10) :: acc) Hfpos Hf) as (ds & Hds & d & rest & -> & Hdig & Hval & Hz).
      exists ((d :: rest) ++ [digit_char (n mod 10)]). split.
      * rewrite Hds, <- app_assoc. reflexivity.
      * exists d, (rest ++ [digit_char (n mod 10)]). split; [reflexivity|]. split.
        { rewrite forallb_app, Hdig. cbn [forallb]. rewrite digit_char_is_digit by exact Hm. reflexivity. }
        split.
        { rewrite pd_app, Hval. unfold pd. cbn [fold_left]. rewrite digit_char_val by exact Hm.
          pose proof (N.div_mod n 10 ltac:(lia)). lia. }
        { intros Hd0. specialize (Hz Hd0). subst rest. exfalso.
          unfold pd in Hval. cbn [fold_left] in Hval. unfold digit_val in Hval. rewrite Hd0 in Hval.
          assert (1 <= n / 10) by (apply N.div_le_lower_bound; lia). lia. }
Qed.

Lemma print_dec_canon n : canon_dec (print_dec n) n.
Proof.
  unfold print_dec.
  assert (Hn : n < 10 ^ N.of_nat (S (N.to_nat (N.log2 n)))).
  { rewrite Nat2N.inj_succ, N2Nat.id.
    destruct (N.eq_dec n 0) as [->|Hz]; [cbn; lia|].
    pose proof (N.log2_spec n ltac:(lia)) as [_ Hl].
    eapply N.lt_le_trans; [exact Hl|]. apply N.pow_le_mono_l. lia. }
  destruct (dec_digits_spec _ n [] (Nat.lt_0_succ _) Hn) as (ds & Hds & Hc). rewrite Hds, app_nil_r. exact Hc.
Qed.

Lemma print_dec_digits n : forallb is_digit (print_dec n) = true.
Proof. destruct (print_dec_canon n) as (d & rest & _ & H & _). exact H. Qed.

Theorem parse_print_dec n : parse_dec (print_dec n) = n.
Proof. destruct (print_dec_canon n) as (d & rest & _ & _ & H & _). exact H. Qed.

Theorem parse_u32_print_dec n : n < 4294967296 -> parse_u32 (print_dec n) = Some n.
Proof.
  intros H. unfold parse_u32. rewrite print_dec_digits, parse_print_dec.
  replace (n <? 4294967296) with true by lia. reflexivity.
Qed.

Lemma drop_digits_all s : forallb is_digit s = true -> drop_digits s = [].
Proof.
  induction s as [|c s IH]; [reflexivity|]. cbn [forallb drop_digits]. intros H.
  apply andb_true_iff in H. destruct H as [Hc Hs]. rewrite Hc. apply IH, Hs.
Qed.

Lemma is_digit_not_minus c : is_digit c = true -> (b2n c =? 45) = false.
Proof. unfold is_digit, in_range. lia. Qed.

Lemma print_dec_number_ok n : json_number_ok (print_dec n) = true.
Proof.
  destruct (print_dec_canon n) as (d & rest & -> & Hdig & _ & Hz).
  cbn [forallb] in Hdig. apply andb_true_iff in Hdig. destruct Hdig as [Hd Hr].
  unfold json_number_ok. rewrite (is_digit_not_minus d Hd).
  destruct (b2n d =? 48) eqn:E.
  - apply N.eqb_eq in E. rewrite (Hz E). reflexivity.
  - rewrite drop_digits_all by exact Hr. cbn [frac_exp_ok]. rewrite andb_true_r.
    unfold is_digit19, is_digit, in_range in *. lia.
Qed.

Lemma is_digit_is_word c : is_digit c = true -> is_word c = true.
Proof. intros H. unfold is_word. rewrite H. reflexivity. Qed.

Lemma forallb_impl {A} (f g : A -> bool) l :
  (forall x, f x = true -> g x = true) -> forallb f l = true -> forallb g l = true.
Proof.
  intros Hfg. induction l as [|x l IH]; [reflexivity|]. cbn [forallb]. intros H.
  apply andb_true_iff in H. destruct H as [Hx Hl]. rewrite (Hfg x Hx), (IH Hl). reflexivity.
Qed.

Lemma print_dec_word n : forallb is_word (print_dec n) = true.
Proof. apply (forallb_impl is_digit); [exact is_digit_is_word|apply print_dec_digits]. Qed.

(* ---------- the lexer on rendered tokens ---------- *)
Lemma is_plain_not_dquote c : is_plain c = true -> byte_eqb c c_dquote = false.
Proof.
  unfold is_plain. intros H. destruct (byte_eqb c c_dquote); [|reflexivity].
  rewrite !andb_true_iff in H. destruct H as [[_ H] _]. discriminate.
Qed.

Lemma lex_str_body : forall s acc rest, forallb is_plain s = true ->
  lex (LStr acc) (s ++ c_dquote :: rest) = ocons (TStr (rev acc ++ s)) (lex LIdle rest).
Proof.
  induction s as [|c s IH]; intros acc rest H.
  - cbn [app lex]. change (byte_eqb c_dquote c_dquote) with true. cbn iota. rewrite app_nil_r. reflexivity.
  - cbn [forallb] in H. apply andb_true_iff in H. destruct H as [Hc Hs].
    cbn [app lex]. rewrite (is_plain_not_dquote c Hc), Hc. rewrite IH by exact Hs.
    cbn [rev]. rewrite <- app_assoc. reflexivity.
Qed.

Lemma lex_quoted s rest : forallb is_plain s = true ->
  lex LIdle (quote s ++ rest) = ocons (TStr s) (lex LIdle rest).
Proof.
  intros H. unfold quote. cbn [app]. rewrite <- app_assoc. cbn [app].
  cbn [lex]. change (step_idle c_dquote) with (Some (@None jtok, LStr [])). cbn iota. cbn [ocons_opt].
  rewrite lex_str_body by exact H. reflexivity.
Qed.

Lemma step_idle_word d : is_word d = true -> step_idle d = Some (None, LWord [d]).
Proof. destruct d; intros H; try discriminate H; reflexivity. Qed.

Lemma lex_word_stop acc c rest : is_word c = false ->
  lex (LWord acc) (c :: rest) =
  match word_tok (rev acc) with Some tk => ocons tk (lex LIdle (c :: rest)) | None => None end.
Proof.
  intros Hc. cbn [lex]. rewrite Hc.
  destruct (word_tok (rev acc)) as [tk|]; [|reflexivity].
  destruct (step_idle c) as [[otk st']|]; reflexivity.
Qed.

Lemma lex_word_body : forall w acc c rest, forallb is_word w = true -> is_word c = false ->
  lex (LWord acc) (w ++ c :: rest) =
  match word_tok (rev acc ++ w) with Some tk => ocons tk (lex LIdle (c :: rest)) | None => None end.
Proof.
  induction w as [|x w IH]; intros acc c rest H Hc.
  - cbn [app]. rewrite app_nil_r. apply lex_word_stop, Hc.
  - cbn [forallb] in H. apply andb_true_iff in H. destruct H as [Hx Hw].
    cbn [app lex]. rewrite Hx. rewrite IH by assumption. cbn [rev]. rewrite <- app_assoc. reflexivity.
Qed.

Lemma lex_word_body_end : forall w acc, forallb is_word w = true ->
  lex (LWord acc) w = match word_tok (rev acc ++ w) with Some tk => Some [tk] | None => None end.
Proof.
  induction w as [|x w IH]; intros acc H.
  - cbn [lex]. rewrite app_nil_r. reflexivity.
  - cbn [forallb] in H. apply andb_true_iff in H. destruct H as [Hx Hw].
    cbn [lex]. rewrite Hx. rewrite IH by assumption. cbn [rev]. rewrite <- app_assoc. reflexivity.
Qed.

(* a complete word followed by a byte that cannot continue it *)
Lemma lex_word_then d w tk c rest : forallb is_word (d :: w) = true -> word_tok (d :: w) = Some tk ->
  is_word c = false -> lex LIdle ((d :: w) ++ c :: rest) = ocons tk (lex LIdle (c :: rest)).
Proof.
  intros H Htk Hc. cbn [forallb] in H. apply andb_true_iff in H. destruct H as [Hd Hw].
  cbn [app lex]. rewrite (step_idle_word d Hd). cbn [ocons_opt].
  rewrite lex_word_body by assumption. cbn [rev app]. rewrite Htk. reflexivity.
Qed.

Lemma lex_word_end d w tk : forallb is_word (d :: w) = true -> word_tok (d :: w) = Some tk ->
  lex LIdle (d :: w) = Some [tk].
Proof.
  intros H Htk. cbn [forallb] in H. apply andb_true_iff in H. destruct H as [Hd Hw].
  cbn [lex]. rewrite (step_idle_word d Hd). cbn [ocons_opt].
  rewrite lex_word_body_end by assumption. cbn [rev app]. rewrite Htk. reflexivity.
Qed.

Lemma word_tok_number w : json_number_ok w = true -> word_tok w = Some (TNum w).
Proof.
  intros H. unfold word_tok.
  destruct (bytes_eqb w w_null) eqn:E1; [apply bytes_eqb_eq in E1; subst w; vm_compute in H; discriminate|].
  destruct (bytes_eqb w w_true) eqn:E2; [apply bytes_eqb_eq in E2; subst w; vm_compute in H; discriminate|].
  destruct (bytes_eqb w w_false) eqn:E3; [apply bytes_eqb_eq in E3; subst w; vm_compute in H; discriminate|].
  rewrite H. reflexivity.
Qed.

(* ---------- rendered values are recovered ---------- *)
Definition wf_scalar (v : jscalar) : Prop :=
  match v with
  | JStr s => forallb is_plain s = true
  | JNum w => json_number_ok w = true /\ forallb is_word w = true
  | _ => True
  end.
Definition wf_member (m : bytes * jscalar) : Prop :=
  forallb is_plain (fst m) = true /\ wf_scalar (snd m).
Definition wf_value (v : jvalue) : Prop :=
  match v with JScalar s => wf_scalar s | JObject ms => Forall wf_member ms end.

Definition tok_of_scalar (v : jscalar) : jtok :=
  match v with
  | JStr s => TStr s | JNum w => TNum w
  | JNull => TNull | JTrue => TTrue | JFalse => TFalse
  end.

Lemma scalar_of_tok_of v : scalar_of_tok (tok_of_scalar v) = Some v.
Proof. destruct v; reflexivity. Qed.

Lemma number_nonempty w : json_number_ok w = true -> exists d w', w = d :: w'.
Proof. destruct w as [|d w']; [discriminate|]. intros _. exists d, w'. reflexivity. Qed.

Lemma lex_scalar_then v c rest : wf_scalar v -> is_word c = false ->
  lex LIdle (render_scalar v ++ c :: rest) = ocons (tok_of_scalar v) (lex LIdle (c :: rest)).
Proof.
  intros Hv Hc. destruct v as [s|w| | |]; cbn [render_scalar tok_of_scalar wf_scalar] in *.
  - apply lex_quoted, Hv.
  - destruct Hv as [Hn Hw]. destruct (number_nonempty w Hn) as (d & w' & ->).
    apply lex_word_then; [exact Hw|apply word_tok_number, Hn|exact Hc].
  - apply lex_word_then; [reflexivity|reflexivity|exact Hc].
  - apply lex_word_then; [reflexivity|reflexivity|exact Hc].
  - apply lex_word_then; [reflexivity|reflexivity|exact Hc].
Qed.

Lemma lex_scalar_end v : wf_scalar v -> lex LIdle (render_scalar v) = Some [tok_of_scalar v].
Proof.
  intros Hv. destruct v as [s|w| | |]; cbn [render_scalar tok_of_scalar wf_scalar] in *.
  - rewrite <- (app_nil_r (quote s)). rewrite lex_quoted by exact Hv. reflexivity.
  - destruct Hv as [Hn Hw]. destruct (number_nonempty w Hn) as (d & w' & ->).
    apply lex_word_end; [exact Hw|apply word_tok_number, Hn].
  - reflexivity.
  - reflexivity.
  - reflexivity.
Qed.

Definition member_toks (m : bytes * jscalar) : list jtok :=
  [TStr (fst m); TColon; tok_of_scalar (snd m)].

Lemma lex_member_then m c rest : wf_member m -> is_word c = false ->
  lex LIdle (render_member m ++ c :: rest) =
  match lex LIdle (c :: rest) with Some ts => Some (member_toks m ++ ts) | None => None end.
Proof.
  intros [Hk Hv] Hc. unfold render_member. rewrite <- app_assoc. rewrite lex_quoted by exact Hk.
  pose proof (lex_scalar_then (snd m) c rest Hv Hc) as Hs.
  remember (lex LIdle (c :: rest)) as R eqn:HR. clear HR.
  cbn [app lex]. change (step_idle c_colon) with (Some (Some TColon, LIdle)). cbn iota. cbn [ocons_opt].
  rewrite Hs. destruct R as [ts|]; reflexivity.
Qed.

Definition tail_text (ms : list (bytes * jscalar)) : bytes :=
  concat (map (fun m' => c_comma :: render_member m') ms) ++ [c_rbrace].
Definition tail_toks (ms : list (bytes * jscalar)) : list jtok :=
  concat (map (fun m' => TComma :: member_toks m') ms) ++ [TRBrace].

Lemma tail_text_head ms : exists c r, tail_text ms = c :: r /\ is_word c = false.
Proof.
  destruct ms as [|m ms]; unfold tail_text; cbn [map concat app].
  - exists c_rbrace, []. split; reflexivity.
  - eexists c_comma, _. split; reflexivity.
Qed.

Lemma lex_tail : forall ms, Forall wf_member ms -> lex LIdle (tail_text ms) = Some (tail_toks ms).
Proof.
  induction ms as [|m ms IH]; intros H.
  - reflexivity.
  - inversion H as [|m' ms' Hm Hms]; subst. specialize (IH Hms).
    unfold tail_text, tail_toks. cbn [map concat]. rewrite <- !app_assoc.
    change (concat (map (fun m' => c_comma :: render_member m') ms) ++ [c_rbrace]) with (tail_text ms).
    change (concat (map (fun m' => TComma :: member_toks m') ms) ++ [TRBrace]) with (tail_toks ms).
    destruct (tail_text_head ms) as (c & r & Ht & Hc). rewrite Ht in *.
    cbn [app lex]. change (step_idle c_comma) with (Some (Some TComma, LIdle)). cbn iota. cbn [ocons_opt].
    rewrite lex_member_then by assumption. rewrite IH. reflexivity.
Qed.

Lemma parse_members_tail : forall ms m,
  parse_members (member_toks m ++ tail_toks ms) = Some (m :: ms).
Proof.
  induction ms as [|m' ms IH]; intros [k v]; unfold member_toks; cbn [fst snd app parse_members].
  - rewrite scalar_of_tok_of. reflexivity.
  - rewrite scalar_of_tok_of. unfold tail_toks. cbn [map concat app].
    change (concat (map (fun m'0 => TComma :: member_toks m'0) ms) ++ [TRBrace]) with (tail_toks ms).
    rewrite <- app_assoc. change (member_toks m' ++ tail_toks ms) with (member_toks m' ++ tail_toks ms).
    rewrite IH. reflexivity.
Qed.

(* the lexer and parser recover every well-formed rendered value *)
Theorem json_value_render v : wf_value v -> json_value (render_value v) = Some v.
Proof.
  intros Hv. unfold json_value. destruct v as [ms|s].
  - destruct ms as [|m ms].
    + reflexivity.
    + cbn [wf_value] in Hv. inversion Hv as [|m' ms' Hm Hms]; subst.
      cbn [render_value]. change (concat (map (fun m' => c_comma :: render_member m') ms) ++ [c_rbrace]) with (tail_text ms).
      destruct (tail_text_head ms) as (c & r & Ht & Hc).
      cbn [lex]. change (step_idle c_lbrace) with (Some (Some TLBrace, LIdle)). cbn iota. cbn [ocons_opt].
      pose proof (lex_tail ms Hms) as Hl. rewrite Ht in *.
      rewrite lex_member_then by assumption. rewrite Hl. cbn [ocons].
      destruct m as [k v]. unfold member_toks at 1. cbn [fst snd app parse_json].
      change (TStr k :: TColon :: tok_of_scalar v :: tail_toks ms) with (member_toks (k, v) ++ tail_toks ms).
      rewrite parse_members_tail. reflexivity.
  - cbn [wf_value render_value] in *. rewrite lex_scalar_end by exact Hv.
    destruct s; reflexivity.
Qed.

(* ---------- byte values at top level: shares and namespaces ---------- *)
Lemma bytes_scalar_wf b : wf_scalar (bytes_scalar b).
Proof. destruct b; cbn [bytes_scalar wf_scalar]; [exact I|apply base64_encode_plain]. Qed.

Lemma decode_bytes_scalar b :
  decode_bytes_value (bytes_scalar b) = Ok (b, match b with [] => false | _ => true end).
Proof.
  destruct b as [|x b]; [reflexivity|]. cbn [bytes_scalar decode_bytes_value].
  rewrite base64_decode_encode. reflexivity.
Qed.

Theorem json_bytes_round_trip b : json_bytes (marshal_bytes_json b) = Ok b.
Proof.
  unfold json_bytes, marshal_bytes_json.
  change (render_scalar (bytes_scalar b)) with (render_value (JScalar (bytes_scalar b))).
  rewrite json_value_render by apply bytes_scalar_wf.
  rewrite decode_bytes_scalar. reflexivity.
Qed.

Theorem share_json_round_trip s : length s = share_size ->
  unmarshal_share_json (marshal_share_json s) = Ok s.
Proof.
  intros H. unfold unmarshal_share_json, marshal_share_json. rewrite json_bytes_round_trip. cbn [bind].
  rewrite H, Nat.eqb_refl. reflexivity.
Qed.

Theorem namespace_json_round_trip n : new_namespace_from_bytes n = Ok n ->
  unmarshal_namespace_json (marshal_namespace_json n) = Ok n.
Proof.
  intros H. unfold unmarshal_namespace_json, marshal_namespace_json. rewrite json_bytes_round_trip. exact H.
Qed.

(* ---------- the BlobProto object ---------- *)
Lemma field_key_ns_id : field_of_key k_namespace_id = Some FNsId. Proof. vm_compute. reflexivity. Qed.
Lemma field_key_data : field_of_key k_data = Some FData. Proof. vm_compute. reflexivity. Qed.
Lemma field_key_share_version : field_of_key k_share_version = Some FShareVersion. Proof. vm_compute. reflexivity. Qed.
Lemma field_key_ns_version : field_of_key k_namespace_version = Some FNsVersion. Proof. vm_compute. reflexivity. Qed.
Lemma field_key_signer : field_of_key k_signer = Some FSigner. Proof. vm_compute. reflexivity. Qed.

Lemma member_bytes_wf k v : forallb is_plain k = true -> Forall wf_member (member_bytes k v).
Proof.
  intros Hk. destruct v; cbn [member_bytes]; constructor; [|constructor].
  split; [exact Hk|]. cbn [snd wf_scalar]. apply base64_encode_plain.
Qed.

Lemma member_uint_wf k n : forallb is_plain k = true -> Forall wf_member (member_uint k n).
Proof.
  intros Hk. unfold member_uint. destruct (n =? 0); constructor; [|constructor].
  split; [exact Hk|]. cbn [snd wf_scalar]. split; [apply print_dec_number_ok|apply print_dec_word].
Qed.

Lemma blob_proto_members_wf p : Forall wf_member (blob_proto_members p).
Proof.
  unfold blob_proto_members. rewrite !Forall_app.
  repeat split; first [apply member_bytes_wf|apply member_uint_wf]; vm_compute; reflexivity.
Qed.

Lemma apply_bytes_member st k v f : field_of_key k = Some f -> v <> [] ->
  apply_member (Ok st) (k, JStr (base64_encode v)) =
  let p := jbf_proto st in
  match f with
  | FNsId => Ok (mk_jbf (mk_bp v (bp_data p) (bp_share_version p) (bp_ns_version p) (bp_signer p)) (jbf_signer_nonnil st))
  | FData => Ok (mk_jbf (mk_bp (bp_ns_id p) v (bp_share_version p) (bp_ns_version p) (bp_signer p)) (jbf_signer_nonnil st))
  | FSigner => Ok (mk_jbf (mk_bp (bp_ns_id p) (bp_data p) (bp_share_version p) (bp_ns_version p) v) true)
  | _ => Err
  end.
Proof.
  intros Hk Hv. unfold apply_member. cbn [bind fst snd]. rewrite Hk.
  cbn [decode_bytes_value decode_u32_value]. rewrite base64_decode_encode. cbn [bind fst snd].
  destruct f; reflexivity.
Qed.

Lemma apply_uint_member st k n f : field_of_key k = Some f -> n < 4294967296 ->
  apply_member (Ok st) (k, JNum (print_dec n)) =
  let p := jbf_proto st in
  match f with
  | FShareVersion => Ok (mk_jbf (mk_bp (bp_ns_id p) (bp_data p) n (bp_ns_version p) (bp_signer p)) (jbf_signer_nonnil st))
  | FNsVersion => Ok (mk_jbf (mk_bp (bp_ns_id p) (bp_data p) (bp_share_version p) n (bp_signer p)) (jbf_signer_nonnil st))
  | _ => Err
  end.
Proof.
  intros Hk Hn. unfold apply_member. cbn [bind fst snd]. rewrite Hk.
  cbn [decode_bytes_value decode_u32_value]. rewrite parse_u32_print_dec by exact Hn. cbn [bind fst snd].
  destruct f; reflexivity.
Qed.

Definition signer_flag (p : blob_proto) : bool := match bp_signer p with [] => false | _ => true end.

Definition upd_bytes (f : bfield) (v : bytes) (st : json_blob_fields) : json_blob_fields :=
  let p := jbf_proto st in
  match f with
  | FNsId => mk_jbf (mk_bp v (bp_data p) (bp_share_version p) (bp_ns_version p) (bp_signer p)) (jbf_signer_nonnil st)
  | FData => mk_jbf (mk_bp (bp_ns_id p) v (bp_share_version p) (bp_ns_version p) (bp_signer p)) (jbf_signer_nonnil st)
  | FSigner => mk_jbf (mk_bp (bp_ns_id p) (bp_data p) (bp_share_version p) (bp_ns_version p) v) true
  | _ => st
  end.
Definition upd_uint (f : bfield) (n : N) (st : json_blob_fields) : json_blob_fields :=
  let p := jbf_proto st in
  match f with
  | FShareVersion => mk_jbf (mk_bp (bp_ns_id p) (bp_data p) n (bp_ns_version p) (bp_signer p)) (jbf_signer_nonnil st)
  | FNsVersion => mk_jbf (mk_bp (bp_ns_id p) (bp_data p) (bp_share_version p) n (bp_signer p)) (jbf_signer_nonnil st)
  | _ => st
  end.

Lemma fold_member_bytes st k v f : field_of_key k = Some f -> f = FNsId \/ f = FData \/ f = FSigner ->
  fold_left apply_member (member_bytes k v) (Ok st) = Ok (match v with [] => st | _ => upd_bytes f v st end).
Proof.
  intros Hk Hf. destruct v as [|x v]; [reflexivity|]. cbn [member_bytes fold_left].
  rewrite (apply_bytes_member st k (x :: v) f Hk) by discriminate.
  destruct Hf as [->|[->| ->]]; reflexivity.
Qed.

Lemma fold_member_uint st k n f : field_of_key k = Some f -> f = FShareVersion \/ f = FNsVersion ->
  n < 4294967296 ->
  fold_left apply_member (member_uint k n) (Ok st) = Ok (if n =? 0 then st else upd_uint f n st).
Proof.
  intros Hk Hf Hn. unfold member_uint. destruct (n =? 0); [reflexivity|]. cbn [fold_left].
  rewrite (apply_uint_member st k n f Hk Hn). destruct Hf as [->| ->]; reflexivity.
Qed.

Lemma fold_blob_proto_members p : bp_share_version p < 4294967296 -> bp_ns_version p < 4294967296 ->
  fold_left apply_member (blob_proto_members p) (Ok jbf_empty) = Ok (mk_jbf p (signer_flag p)).
Proof.
  intros H4 H5. unfold blob_proto_members. rewrite !fold_left_app.
  rewrite (fold_member_bytes _ _ _ FNsId field_key_ns_id) by auto.
  rewrite (fold_member_bytes _ _ _ FData field_key_data) by auto.
  rewrite (fold_member_uint _ _ _ FShareVersion field_key_share_version) by auto.
  rewrite (fold_member_uint _ _ _ FNsVersion field_key_ns_version) by auto.
  rewrite (fold_member_bytes _ _ _ FSigner field_key_signer) by auto.
  destruct p as [id data sv nsv sg]. cbn [bp_ns_id bp_data bp_share_version bp_ns_version bp_signer signer_flag].
  unfold signer_flag. cbn [bp_signer].
  destruct id as [|i0 id]; destruct data as [|d0 data]; destruct sg as [|s0 sg];
    destruct (sv =? 0) eqn:Es; destruct (nsv =? 0) eqn:En;
    try (apply N.eqb_eq in Es; subst sv); try (apply N.eqb_eq in En; subst nsv); reflexivity.
Qed.

(* json.Unmarshal of json.Marshal of a BlobProto gives the struct back (a non-empty signer is
   non-nil, an empty one was omitted and stays nil) *)
Theorem json_fields_round_trip p : bp_share_version p < 4294967296 -> bp_ns_version p < 4294967296 ->
  json_fields (marshal_blob_proto_json p) = Ok (mk_jbf p (signer_flag p)).
Proof.
  intros H4 H5. unfold json_fields, marshal_blob_proto_json.
  rewrite json_value_render by apply blob_proto_members_wf.
  apply fold_blob_proto_members; assumption.
Qed.

(* ---------- NewBlobFromProto behind the JSON decoder ---------- *)
Lemma new_blob_from_json_fields_nil p e : (bp_signer p = [] -> e = false) ->
  new_blob_from_json_fields (mk_jbf p e) = new_blob_from_proto p.
Proof.
  intros H. unfold new_blob_from_json_fields, new_blob_from_proto. cbn [jbf_proto jbf_signer_nonnil].
  destruct (bp_signer p) as [|s0 sg]; [rewrite (H eq_refl)|]; reflexivity.
Qed.

(* an empty non-nil signer is never accepted *)
Lemma new_blob_from_json_fields_empty_nonnil p b : bp_signer p = [] ->
  new_blob_from_json_fields (mk_jbf p true) <> Ok b.
Proof.
  intros Hs H. unfold new_blob_from_json_fields in H. cbn [jbf_proto jbf_signer_nonnil] in H.
  rewrite Hs in H.
  destruct (255 <? bp_ns_version p); [discriminate|]. destruct (127 <? bp_share_version p); [discriminate|].
  destruct (new_namespace (bp_ns_version p) (bp_ns_id p)) as [ns| |]; cbn [bind] in H; try discriminate.
  apply new_blob_ok_iff in H. destruct H as [(_ & _ & _ & [[_ Hn]|[_ (s & Hsome & Hl)]]) _].
  - discriminate.
  - inversion Hsome; subst s. cbn in Hl. lia.
Qed.

Theorem new_blob_from_json_fields_ok_iff st b :
  new_blob_from_json_fields st = Ok b <->
  ((jbf_signer_nonnil st = true -> bp_signer (jbf_proto st) <> []) /\
   new_blob_from_proto (jbf_proto st) = Ok b).
Proof.
  destruct st as [p e]. cbn [jbf_proto jbf_signer_nonnil]. split.
  - intros H. destruct e.
    + destruct (bp_signer p) as [|s0 sg] eqn:Es.
      * exfalso. exact (new_blob_from_json_fields_empty_nonnil p b Es H).
      * split; [intros _; discriminate|]. rewrite <- H. symmetry. apply new_blob_from_json_fields_nil.
        rewrite Es. discriminate.
    + split; [discriminate|]. rewrite <- H. symmetry. apply new_blob_from_json_fields_nil. reflexivity.
  - intros [He H]. rewrite new_blob_from_json_fields_nil; [exact H|].
    intros Hs. destruct e; [exfalso; apply He; [reflexivity|exact Hs]|reflexivity].
Qed.

(* a blob accepted by NewBlob with a constructor-made namespace round-trips through
   MarshalJSON / UnmarshalJSON *)
Theorem blob_json_round_trip b : blob_wire_ok b -> unmarshal_blob_json (marshal_blob_json b) = Ok b.
Proof.
  intros Hok. pose proof (blob_to_proto_ok b Hok) as (_ & _ & _ & H4 & H5).
  unfold unmarshal_blob_json, marshal_blob_json. rewrite json_fields_round_trip by assumption.
  cbn [bind]. rewrite new_blob_from_json_fields_nil.
  - apply new_blob_from_blob_to_proto, Hok.
  - unfold signer_flag. intros ->. reflexivity.
Qed.

(* the decoded version fields always fit a uint32 *)
Lemma apply_member_u32 acc m st : apply_member acc m = Ok st ->
  (forall st0, acc = Ok st0 -> bp_share_version (jbf_proto st0) < 4294967296 /\ bp_ns_version (jbf_proto st0) < 4294967296) ->
  bp_share_version (jbf_proto st) < 4294967296 /\ bp_ns_version (jbf_proto st) < 4294967296.
Proof.
  intros H Hacc. destruct acc as [st0| |]; cbn [apply_member bind] in H; try discriminate.
  specialize (Hacc st0 eq_refl). destruct Hacc as [Ha Hb].
  assert (Hu : forall v old n, old < 4294967296 -> decode_u32_value v old = Ok n -> n < 4294967296).
  { intros v old n Hold Hd. destruct v as [s|w| | |]; cbn [decode_u32_value] in Hd; try discriminate.
    - unfold parse_u32 in Hd. destruct (forallb is_digit w); [|discriminate].
      destruct (parse_dec w <? 4294967296) eqn:E; [|discriminate]. inversion Hd; subst. lia.
    - inversion Hd; subst. exact Hold. }
  destruct (field_of_key (fst m)) as [[| | | |]|].
  - destruct (decode_bytes_value (snd m)) as [r| |]; cbn [bind] in H; try discriminate. inversion H; subst. cbn. auto.
  - destruct (decode_bytes_value (snd m)) as [r| |]; cbn [bind] in H; try discriminate. inversion H; subst. cbn. auto.
  - destruct (decode_u32_value (snd m) _) as [n| |] eqn:E; cbn [bind] in H; try discriminate. inversion H; subst. cbn.
    split; [eapply Hu; [exact Ha|exact E]|exact Hb].
  - destruct (decode_u32_value (snd m) _) as [n| |] eqn:E; cbn [bind] in H; try discriminate. inversion H; subst. cbn.
    split; [exact Ha|eapply Hu; [exact Hb|exact E]].
  - destruct (decode_bytes_value (snd m)) as [r| |]; cbn [bind] in H; try discriminate. inversion H; subst. cbn. auto.
  - inversion H; subst. auto.
Qed.

Lemma fold_members_u32 : forall ms acc st, fold_left apply_member ms acc = Ok st ->
  (forall st0, acc = Ok st0 -> bp_share_version (jbf_proto st0) < 4294967296 /\ bp_ns_version (jbf_proto st0) < 4294967296) ->
  bp_share_version (jbf_proto st) < 4294967296 /\ bp_ns_version (jbf_proto st) < 4294967296.
Proof.
  induction ms as [|m ms IH]; intros acc st H Hacc.
  - cbn [fold_left] in H. apply Hacc, H.
  - cbn [fold_left] in H. apply (IH _ _ H). intros st0 Hst0. eapply apply_member_u32; [exact Hst0|exact Hacc].
Qed.

Lemma json_fields_u32 j st : json_fields j = Ok st ->
  bp_share_version (jbf_proto st) < 4294967296 /\ bp_ns_version (jbf_proto st) < 4294967296.
Proof.
  unfold json_fields. intros H. destruct (json_value j) as [[ms|[s|w| | |]]|]; try discriminate.
  - apply (fold_members_u32 _ _ _ H). intros st0 Hst0. inversion Hst0; subst. cbn. lia.
  - inversion H; subst. cbn. lia.
Qed.

(* acceptance through JSON = acceptance of NewBlobFromProto on the decoded fields, except for
   an empty non-nil signer *)
Theorem unmarshal_blob_json_ok_iff j b :
  unmarshal_blob_json j = Ok b <->
  exists st, json_fields j = Ok st /\
             (jbf_signer_nonnil st = true -> bp_signer (jbf_proto st) <> []) /\
             new_blob_from_proto (jbf_proto st) = Ok b.
Proof.
  unfold unmarshal_blob_json. split.
  - intros H. destruct (json_fields j) as [st| |]; cbn [bind] in H; try discriminate.
    exists st. split; [reflexivity|]. apply new_blob_from_json_fields_ok_iff, H.
  - intros (st & -> & H). cbn [bind]. apply new_blob_from_json_fields_ok_iff, H.
Qed.

(* the same with NewBlobFromProto's acceptance predicate spelled out *)
Theorem unmarshal_blob_json_acceptance j b :
  unmarshal_blob_json j = Ok b <->
  exists st, json_fields j = Ok st /\
    let p := jbf_proto st in
    let signer := match bp_signer p with [] => None | s => Some s end in
    let ns := n2b (bp_ns_version p) :: bp_ns_id p in
    (jbf_signer_nonnil st = true -> bp_signer p <> []) /\
    bp_ns_version p <= 255 /\ bp_share_version p <= 127 /\ wellformed_ns (bp_ns_version p) (bp_ns_id p) /\
    blob_acceptable ns (bp_data p) (bp_share_version p) signer /\
    b = mk_blob ns (bp_data p) (bp_share_version p) signer.
Proof.
  rewrite unmarshal_blob_json_ok_iff. split.
  - intros (st & Hj & He & H). exists st. split; [exact Hj|]. cbn zeta. split; [exact He|].
    apply new_blob_from_proto_ok_iff; [apply (json_fields_u32 j st Hj)|exact H].
  - intros (st & Hj & H). cbn zeta in H. destruct H as [He H]. exists st. split; [exact Hj|]. split; [exact He|].
    apply new_blob_from_proto_ok_iff; [apply (json_fields_u32 j st Hj)|exact H].
Qed.

(* the decoders never fault *)
Lemma unmarshal_share_json_no_fault j : unmarshal_share_json j <> Fault.
Proof.
  unfold unmarshal_share_json, json_bytes.
  destruct (json_value j) as [[ms|v]|]; cbn [bind]; try discriminate.
  destruct (decode_bytes_value v) as [r| |] eqn:E; cbn [bind]; try discriminate.
  - destruct (Nat.eqb _ _); discriminate.
  - destruct v as [s|w| | |]; cbn [decode_bytes_value] in E; try discriminate. destruct (base64_decode s); discriminate.
Qed.

(* ---------- rendered values lie inside the subset ---------- *)
Lemma is_plain_scan c : is_plain c = true ->
  (128 <=? b2n c) || byte_eqb c c_backslash = false.
Proof.
  unfold is_plain. intros H. rewrite !andb_true_iff, !negb_true_iff in H.
  destruct H as [[[_ H1] _] H2]. rewrite H2, orb_false_r. lia.
Qed.

Lemma subset_str_body : forall s n rest, forallb is_plain s = true ->
  subset_scan true n (s ++ c_dquote :: rest) = subset_scan false n rest.
Proof.
  induction s as [|c s IH]; intros n rest H.
  - reflexivity.
  - cbn [forallb] in H. apply andb_true_iff in H. destruct H as [Hc Hs].
    cbn [app subset_scan]. rewrite (is_plain_scan c Hc), (is_plain_not_dquote c Hc). cbn [negb].
    apply IH, Hs.
Qed.

Lemma subset_quoted s n rest : forallb is_plain s = true ->
  subset_scan false n (quote s ++ rest) = subset_scan false n rest.
Proof.
  intros H. unfold quote. cbn [app]. rewrite <- app_assoc. cbn [app].
  cbn [subset_scan]. change ((128 <=? b2n c_dquote) || byte_eqb c_dquote c_backslash) with false.
  change (byte_eqb c_dquote c_dquote) with true. cbn iota. apply subset_str_body, H.
Qed.

Lemma is_word_scan c n rest : is_word c = true ->
  subset_scan false n (c :: rest) = subset_scan false n rest.
Proof. destruct c; intros H; try discriminate H; reflexivity. Qed.

Lemma subset_word : forall w n rest, forallb is_word w = true ->
  subset_scan false n (w ++ rest) = subset_scan false n rest.
Proof.
  induction w as [|c w IH]; intros n rest H; [reflexivity|].
  cbn [forallb] in H. apply andb_true_iff in H. destruct H as [Hc Hw].
  cbn [app]. rewrite is_word_scan by exact Hc. apply IH, Hw.
Qed.

Lemma subset_scalar v n rest : wf_scalar v ->
  subset_scan false n (render_scalar v ++ rest) = subset_scan false n rest.
Proof.
  intros Hv. destruct v as [s|w| | |]; cbn [render_scalar wf_scalar] in *.
  - apply subset_quoted, Hv.
  - apply subset_word, Hv.
  - reflexivity.
  - reflexivity.
  - reflexivity.
Qed.

Lemma subset_member m n rest : wf_member m ->
  subset_scan false n (render_member m ++ rest) = subset_scan false n rest.
Proof.
  intros [Hk Hv]. unfold render_member. rewrite <- app_assoc. rewrite subset_quoted by exact Hk.
  cbn [app]. change (subset_scan false n (c_colon :: render_scalar (snd m) ++ rest))
    with (subset_scan false n (render_scalar (snd m) ++ rest)).
  apply subset_scalar, Hv.
Qed.

Lemma subset_tail : forall ms n, Forall wf_member ms -> subset_scan false n (tail_text ms) = true.
Proof.
  induction ms as [|m ms IH]; intros n H.
  - reflexivity.
  - inversion H as [|m' ms' Hm Hms]; subst. unfold tail_text. cbn [map concat]. rewrite <- !app_assoc.
    change (concat (map (fun m' => c_comma :: render_member m') ms) ++ [c_rbrace]) with (tail_text ms).
    cbn [app]. change (subset_scan false n (c_comma :: render_member m ++ tail_text ms))
      with (subset_scan false n (render_member m ++ tail_text ms)).
    rewrite subset_member by exact Hm. apply IH, Hms.
Qed.

Theorem render_value_in_subset v : wf_value v -> json_in_subset (render_value v) = true.
Proof.
  intros Hv. unfold json_in_subset. destruct v as [[|m ms]|s].
  - reflexivity.
  - cbn [wf_value] in Hv. inversion Hv as [|m' ms' Hm Hms]; subst. cbn [render_value].
    change (concat (map (fun m' => c_comma :: render_member m') ms) ++ [c_rbrace]) with (tail_text ms).
    change (subset_scan false 0 (c_lbrace :: render_member m ++ tail_text ms))
      with (subset_scan false 1 (render_member m ++ tail_text ms)).
    rewrite subset_member by exact Hm. apply subset_tail, Hms.
  - cbn [wf_value render_value] in *. rewrite <- (app_nil_r (render_scalar s)).
    rewrite subset_scalar by exact Hv. reflexivity.
Qed.

Theorem marshal_blob_json_in_subset b : json_in_subset (marshal_blob_json b) = true.
Proof. apply render_value_in_subset, blob_proto_members_wf. Qed.

Theorem marshal_bytes_json_in_subset b : json_in_subset (marshal_bytes_json b) = true.
Proof. apply (render_value_in_subset (JScalar (bytes_scalar b))), bytes_scalar_wf. Qed.
