(* End-to-end statements about the CODE MODEL (construct / build of Model/Builder.v,
   deconstruct / parse_shares / wrapped_pfbs of Model/Square.v, tx_share_range /
   blob_share_range), obtained by composing the C07 refinement
       construct = layout_construct,  build = layout_build      (RefinementProofs3.v)
   with the theorems proved about the rule-based layout (LayoutShapeProofs, TilingProofs,
   DeconstructProofs, TxRangeProofs, BlobLayoutProofs, SortProofs ...).

   Common hypotheses H(raws, max, thr):
       1 <= thr,  max <= 1024,  c07_raws_ok raws
   (every blob of every blob transaction of raws that decodes is a blob as NewBlob accepts
   it, in a namespace ValidateForBlob accepts, data + signer below 4 GiB).  Under H the
   condition [Forall lay_btx_ok btxs] of the spec-side theorems holds of the blob
   transactions Construct / Build keep (split_ordered_c07, keep_c07), so it disappears
   from the end-to-end statements. *)
From Coq Require Import List Arith NArith ZArith Lia Bool Sorted Permutation.
From Coq Require Import ZifyN ZifyNat ZifyBool.
From GS.Model Require Import Base Varint Namespace ShareFmt Blob Sparse Compact Counter Arith Proto Builder Square.
From GS.Spec Require Import ShareSpec CompactSpec LayoutSpec.
From GS.Proofs Require Import BaseLemmas VarintProofs SparseProofs ArithProofs CounterProofs NamespaceProofs
  RangeProofs ProtoProofs CompactParseProofs CompactWriterProofs AccountingProofs BlobLayoutProofs
  SubrangeProofs TxRangeProofs LayoutShapeProofs TilingProofs DeconstructProofs
  RefinementProofs1 RefinementProofs2 RefinementProofs3.
Import ListNotations.
Open Scope N_scope.

(* ================================================================== *)
(* 0. Bridging: what an Ok result of Construct / Build is              *)
(* ================================================================== *)

Lemma c07_btxs_snoc btxs t : Forall c07_btx_ok btxs -> c07_btx_ok t -> Forall c07_btx_ok (btxs ++ [t]).
Proof. intros H Ht. apply Forall_app. split; [exact H|]. constructor; [exact Ht|constructor]. Qed.

(* the blob transactions Construct collects are acceptable ones *)
Lemma split_ordered_c07 : forall raws seen normals btxs n' b',
  c07_raws_ok raws -> Forall c07_btx_ok btxs ->
  split_ordered seen raws normals btxs = Some (n', b') -> Forall c07_btx_ok b'.
Proof.
  induction raws as [|r tl IH]; intros seen normals btxs n' b' Hraws Hb H; cbn [split_ordered] in H.
  - injection H as _ <-. exact Hb.
  - apply Forall_cons_iff in Hraws as [Hr Hraws]. unfold classify in H.
    destruct (unmarshal_blob_tx r) as [| |t] eqn:Eu; [| discriminate |].
    + destruct seen; [discriminate|]. exact (IH _ _ _ _ _ Hraws Hb H).
    + apply (IH _ _ _ _ _ Hraws (c07_btxs_snoc _ _ Hb (Hr t Eu)) H).
Qed.

(* ... and so are the ones Build keeps *)
Lemma keep_c07 cap thr : forall raws normals btxs kn kb n' b' kept,
  c07_raws_ok raws -> Forall c07_btx_ok btxs ->
  keep cap thr raws normals btxs kn kb = Some (n', b', kept) -> Forall c07_btx_ok b'.
Proof.
  induction raws as [|r tl IH]; intros normals btxs kn kb n' b' kept Hraws Hb H; cbn [keep] in H.
  - injection H as _ <- _. exact Hb.
  - apply Forall_cons_iff in Hraws as [Hr Hraws]. unfold classify in H.
    destruct (unmarshal_blob_tx r) as [| |t] eqn:Eu; [| discriminate |].
    + destruct (estimate thr (normals ++ [r]) btxs <=? cap); exact (IH _ _ _ _ _ _ _ Hraws Hb H).
    + destruct (estimate thr normals (btxs ++ [t]) <=? cap).
      * exact (IH _ _ _ _ _ _ _ Hraws (c07_btxs_snoc _ _ Hb (Hr t Eu)) H).
      * exact (IH _ _ _ _ _ _ _ Hraws Hb H).
Qed.

(* Build only fails on a blob transaction that does not decode *)
Lemma keep_some cap thr : forall raws normals btxs kn kb,
  Forall (fun r => unmarshal_blob_tx r <> UbtErr) raws ->
  exists x, keep cap thr raws normals btxs kn kb = Some x.
Proof.
  induction raws as [|r tl IH]; intros normals btxs kn kb H; cbn [keep].
  - eexists. reflexivity.
  - apply Forall_cons_iff in H as [Hr H]. unfold classify.
    destruct (unmarshal_blob_tx r) as [| |t]; [| congruence |].
    + destruct (estimate thr (normals ++ [r]) btxs <=? cap); apply IH, H.
    + destruct (estimate thr normals (btxs ++ [t]) <=? cap); apply IH, H.
Qed.

Lemma keep_some_inv cap thr : forall raws normals btxs kn kb x,
  keep cap thr raws normals btxs kn kb = Some x -> Forall (fun r => unmarshal_blob_tx r <> UbtErr) raws.
Proof.
  induction raws as [|r tl IH]; intros normals btxs kn kb x H; [constructor|].
  cbn [keep] in H. unfold classify in H. destruct (unmarshal_blob_tx r) as [| |t] eqn:Eu; [| discriminate |].
  - constructor; [congruence|]. destruct (estimate thr (normals ++ [r]) btxs <=? cap); exact (IH _ _ _ _ _ H).
  - constructor; [congruence|]. destruct (estimate thr normals (btxs ++ [t]) <=? cap); exact (IH _ _ _ _ _ H).
Qed.

Lemma keep_none cap thr : forall raws normals btxs kn kb,
  keep cap thr raws normals btxs kn kb = None -> Exists (fun r => unmarshal_blob_tx r = UbtErr) raws.
Proof.
  induction raws as [|r tl IH]; intros normals btxs kn kb H; cbn [keep] in H; [discriminate|].
  unfold classify in H. destruct (unmarshal_blob_tx r) as [| |t] eqn:Eu.
  - right. destruct (estimate thr (normals ++ [r]) btxs <=? cap); exact (IH _ _ _ _ H).
  - left. exact Eu.
  - right. destruct (estimate thr normals (btxs ++ [t]) <=? cap); exact (IH _ _ _ _ H).
Qed.

(* Construct returned a square: it is the layout of the two lists the input splits into *)
Theorem construct_ok_inv raws max thr sq : 1 <= thr -> (max <= 1024)%Z -> c07_raws_ok raws ->
  construct raws max thr = Ok sq ->
  exists normals btxs,
    split_ordered false raws [] [] = Some (normals, btxs) /\ sq = layout thr normals btxs /\
    Forall c07_btx_ok btxs /\ new_builder_ok max = true /\
    estimate thr normals btxs <= Z.to_N max * Z.to_N max /\ estimate thr normals btxs < 2097152.
Proof.
  intros Ht Hmax Hraws H. rewrite (construct_eq_layout raws max thr Ht Hmax Hraws) in H.
  unfold layout_construct in H. fold (new_builder_ok max) in H.
  destruct (new_builder_ok max) eqn:Ecfg; cbn [negb] in H; [|discriminate].
  destruct (split_ordered false raws [] []) as [[normals btxs]|] eqn:Es; [|discriminate].
  destruct (estimate thr normals btxs <=? Z.to_N max * Z.to_N max) eqn:Ee; [|discriminate].
  injection H as <-. exists normals, btxs.
  split; [reflexivity|]. split; [reflexivity|].
  split; [exact (split_ordered_c07 _ _ _ _ _ _ Hraws (Forall_nil _) Es)|]. split; [reflexivity|].
  pose proof (max_side_small max Hmax). split; lia.
Qed.

Theorem build_ok_inv raws max thr sq kept : 1 <= thr -> (max <= 1024)%Z -> c07_raws_ok raws ->
  build raws max thr = Ok (sq, kept) ->
  exists normals btxs,
    keep (Z.to_N max * Z.to_N max) thr raws [] [] [] [] = Some (normals, btxs, kept) /\
    sq = layout thr normals btxs /\
    Forall c07_btx_ok btxs /\ new_builder_ok max = true /\
    estimate thr normals btxs <= Z.to_N max * Z.to_N max /\ estimate thr normals btxs < 2097152.
Proof.
  intros Ht Hmax Hraws H. rewrite (build_eq_layout raws max thr Ht Hmax Hraws) in H.
  unfold layout_build in H. fold (new_builder_ok max) in H.
  destruct (new_builder_ok max) eqn:Ecfg; cbn [negb] in H; [|discriminate].
  destruct (keep (Z.to_N max * Z.to_N max) thr raws [] [] [] []) as [[[normals btxs] kept']|] eqn:Ek; [|discriminate].
  injection H as <- <-. exists normals, btxs.
  split; [reflexivity|]. split; [reflexivity|].
  split; [exact (keep_c07 _ _ _ _ _ _ _ _ _ _ Hraws (Forall_nil _) Ek)|]. split; [reflexivity|].
  assert (Hfit : estimate thr normals btxs <= Z.to_N max * Z.to_N max).
  { apply (keep_estimate _ _ _ _ _ _ _ _ _ _ Ek). change (estimate thr [] []) with 0. lia. }
  pose proof (max_side_small max Hmax). split; lia.
Qed.

Lemma new_builder_ok_pow2 max : new_builder_ok max = true -> pow2 (Z.to_N max).
Proof.
  unfold new_builder_ok. intros H. apply andb_true_iff in H as [Hpos Hp]. apply is_pow2_to_N; assumption.
Qed.

(* ================================================================== *)
(* C03: shape of every square Construct / Build return                 *)
(* ================================================================== *)

Theorem construct_shape raws max thr sq : 1 <= thr -> (max <= 1024)%Z -> c07_raws_ok raws ->
  construct raws max thr = Ok sq ->
  exists normals btxs, split_ordered false raws [] [] = Some (normals, btxs) /\
    square_shape thr normals btxs (Z.to_N max) sq.
Proof.
  intros Ht Hmax Hraws H.
  destruct (construct_ok_inv raws max thr sq Ht Hmax Hraws H) as (normals & btxs & Hs & -> & Hok & Hcfg & Hfit & _).
  exists normals, btxs. split; [exact Hs|].
  apply layout_shape; try assumption; [apply c07_btxs_lay, Hok|apply new_builder_ok_pow2, Hcfg|lia].
Qed.

Theorem build_shape raws max thr sq kept : 1 <= thr -> (max <= 1024)%Z -> c07_raws_ok raws ->
  build raws max thr = Ok (sq, kept) ->
  exists normals btxs, keep (Z.to_N max * Z.to_N max) thr raws [] [] [] [] = Some (normals, btxs, kept) /\
    square_shape thr normals btxs (Z.to_N max) sq.
Proof.
  intros Ht Hmax Hraws H.
  destruct (build_ok_inv raws max thr sq kept Ht Hmax Hraws H) as (normals & btxs & Hs & -> & Hok & Hcfg & Hfit & _).
  exists normals, btxs. split; [exact Hs|].
  apply layout_shape; try assumption; [apply c07_btxs_lay, Hok|apply new_builder_ok_pow2, Hcfg|lia].
Qed.

(* the part of the shape that does not mention the two lists: what an observer of the
   square alone can check *)
Corollary construct_square_wellformed raws max thr sq : 1 <= thr -> (max <= 1024)%Z -> c07_raws_ok raws ->
  construct raws max thr = Ok sq ->
  exists side, pow2 side /\ side <= Z.to_N max /\ lenN sq = side * side /\
    Forall (fun s => length s = 512%nat) sq /\ ns_ordered sq.
Proof.
  intros Ht Hmax Hraws H. destruct (construct_shape raws max thr sq Ht Hmax Hraws H) as (n & b & _ & S).
  destruct S as (H1 & H2 & H3 & H4 & H5 & _). eexists. repeat split; eassumption.
Qed.

Corollary build_square_wellformed raws max thr sq kept : 1 <= thr -> (max <= 1024)%Z -> c07_raws_ok raws ->
  build raws max thr = Ok (sq, kept) ->
  exists side, pow2 side /\ side <= Z.to_N max /\ lenN sq = side * side /\
    Forall (fun s => length s = 512%nat) sq /\ ns_ordered sq.
Proof.
  intros Ht Hmax Hraws H. destruct (build_shape raws max thr sq kept Ht Hmax Hraws H) as (n & b & _ & S).
  destruct S as (H1 & H2 & H3 & H4 & H5 & _). eexists. repeat split; eassumption.
Qed.

(* ================================================================== *)
(* C20: sequence parsing tiles every square Construct / Build return   *)
(* ================================================================== *)

Theorem construct_tiled raws max thr sq : 1 <= thr -> (max <= 1024)%Z -> c07_raws_ok raws ->
  construct raws max thr = Ok sq ->
  exists normals btxs, split_ordered false raws [] [] = Some (normals, btxs) /\
    square_tiled thr normals btxs sq.
Proof.
  intros Ht Hmax Hraws H.
  destruct (construct_ok_inv raws max thr sq Ht Hmax Hraws H) as (normals & btxs & Hs & -> & Hok & Hcfg & Hfit & _).
  exists normals, btxs. split; [exact Hs|].
  apply (layout_tiled thr normals btxs (Z.to_N max)); try assumption;
    [apply c07_btxs_lay, Hok|apply new_builder_ok_pow2, Hcfg|lia].
Qed.

Theorem build_tiled raws max thr sq kept : 1 <= thr -> (max <= 1024)%Z -> c07_raws_ok raws ->
  build raws max thr = Ok (sq, kept) ->
  exists normals btxs, keep (Z.to_N max * Z.to_N max) thr raws [] [] [] [] = Some (normals, btxs, kept) /\
    square_tiled thr normals btxs sq.
Proof.
  intros Ht Hmax Hraws H.
  destruct (build_ok_inv raws max thr sq kept Ht Hmax Hraws H) as (normals & btxs & Hs & -> & Hok & Hcfg & Hfit & _).
  exists normals, btxs. split; [exact Hs|].
  apply (layout_tiled thr normals btxs (Z.to_N max)); try assumption;
    [apply c07_btxs_lay, Hok|apply new_builder_ok_pow2, Hcfg|lia].
Qed.

(* the tiling item alone, with no reference to the lists *)
Corollary construct_parse_tiles raws max thr sq : 1 <= thr -> (max <= 1024)%Z -> c07_raws_ok raws ->
  construct raws max thr = Ok sq ->
  exists seqs, parse_shares sq false = Ok seqs /\ concat (map sq_shares seqs) = sq /\ Forall seq_tile_ok seqs.
Proof.
  intros Ht Hmax Hraws H. destruct (construct_tiled raws max thr sq Ht Hmax Hraws H) as (n & b & _ & T).
  exact (proj1 T).
Qed.

Corollary build_parse_tiles raws max thr sq kept : 1 <= thr -> (max <= 1024)%Z -> c07_raws_ok raws ->
  build raws max thr = Ok (sq, kept) ->
  exists seqs, parse_shares sq false = Ok seqs /\ concat (map sq_shares seqs) = sq /\ Forall seq_tile_ok seqs.
Proof.
  intros Ht Hmax Hraws H. destruct (build_tiled raws max thr sq kept Ht Hmax Hraws H) as (n & b & _ & T).
  exact (proj1 T).
Qed.

(* ================================================================== *)
(* C02: Construct then Deconstruct                                     *)
(* ================================================================== *)

(* the hypothesis of the refinement for a list in canonical form *)
Lemma canonical_raws_ok normals btxs :
  Forall (fun r => unmarshal_blob_tx r = UbtNot) normals ->
  Forall c07_btx_ok btxs -> Forall (fun t => btx_ok (btx_tx t) (btx_blobs t)) btxs ->
  c07_raws_ok (normals ++ map blob_tx_bytes btxs).
Proof.
  intros Hn Hok Hw. apply Forall_app. split.
  - eapply Forall_impl; [|exact Hn]. intros r Hr t Hu. congruence.
  - apply Forall_map. rewrite Forall_forall in *. intros t Hin t' Hu.
    assert (Hb : Forall blob_ok (btx_blobs t)).
    { specialize (Hok t Hin). eapply Forall_impl; [|exact Hok]. intros b [[Hb _] _]. exact Hb. }
    rewrite (blob_tx_bytes_decodes t Hb (Hw t Hin)) in Hu. injection Hu as <-. apply Hok, Hin.
Qed.

Theorem construct_deconstruct dec thr max normals btxs sq :
  1 <= thr -> (max <= 1024)%Z ->
  Forall (fun r => r <> [] /\ unmarshal_blob_tx r = UbtNot) normals ->
  Forall c07_btx_ok btxs ->
  Forall (fun t => btx_ok (btx_tx t) (btx_blobs t)) btxs ->
  Forall (fun t => dec (btx_tx t) = Ok (blob_sizes (btx_blobs t))) btxs ->
  construct (normals ++ map blob_tx_bytes btxs) max thr = Ok sq ->
  deconstruct dec sq = Ok (normals ++ map blob_tx_bytes btxs).
Proof.
  intros Ht Hmax Hn Hok Hw Hdec H.
  assert (Hraws : c07_raws_ok (normals ++ map blob_tx_bytes btxs)).
  { apply canonical_raws_ok; try assumption. eapply Forall_impl; [|exact Hn]. intros r [_ Hr]. exact Hr. }
  rewrite (construct_eq_layout _ max thr Ht Hmax Hraws) in H.
  exact (deconstruct_layout_construct dec thr max normals btxs sq Ht Hmax Hn (c07_btxs_lay _ Hok) Hw Hdec H).
Qed.

(* the form with the hypothesis of the refinement on the raw list *)
Theorem construct_deconstruct_raws dec thr max normals btxs sq :
  1 <= thr -> (max <= 1024)%Z -> c07_raws_ok (normals ++ map blob_tx_bytes btxs) ->
  Forall (fun r => r <> [] /\ unmarshal_blob_tx r = UbtNot) normals ->
  Forall lay_btx_ok btxs ->
  Forall (fun t => btx_ok (btx_tx t) (btx_blobs t)) btxs ->
  Forall (fun t => dec (btx_tx t) = Ok (blob_sizes (btx_blobs t))) btxs ->
  construct (normals ++ map blob_tx_bytes btxs) max thr = Ok sq ->
  deconstruct dec sq = Ok (normals ++ map blob_tx_bytes btxs).
Proof.
  intros Ht Hmax Hraws Hn Hok Hw Hdec H.
  rewrite (construct_eq_layout _ max thr Ht Hmax Hraws) in H.
  exact (deconstruct_layout_construct dec thr max normals btxs sq Ht Hmax Hn Hok Hw Hdec H).
Qed.

(* the empty list: Construct returns EmptySquare (one tail padding share), Deconstruct of it
   returns the empty list; for every valid maximum (any size) and every threshold *)
Theorem construct_empty dec max thr : new_builder_ok max = true ->
  construct [] max thr = empty_square /\
  exists sq, construct [] max thr = Ok sq /\ sq = [padding_spec tail_padding_ns 0] /\ deconstruct dec sq = Ok [].
Proof.
  intros Hcfg. unfold construct, new_builder_txs. rewrite Hcfg. cbn [negb construct_loop bind].
  assert (He : export (empty_builder (Z.to_N max) thr) = (do sq <- empty_square; Ok (empty_builder (Z.to_N max) thr, sq)))
    by reflexivity.
  rewrite He, empty_square_val. cbn [bind snd]. split; [reflexivity|].
  eexists. split; [reflexivity|]. split; [reflexivity|].
  exact (proj2 (deconstruct_layout_empty dec thr)).
Qed.

(* ================================================================== *)
(* C06 (i): greedy building never fails                                *)
(* ================================================================== *)

Theorem build_never_fails raws max thr : 1 <= thr -> (max <= 1024)%Z -> c07_raws_ok raws ->
  new_builder_ok max = true -> Forall (fun r => unmarshal_blob_tx r <> UbtErr) raws ->
  exists sq kept, build raws max thr = Ok (sq, kept).
Proof.
  intros Ht Hmax Hraws Hcfg Hdec. rewrite (build_eq_layout raws max thr Ht Hmax Hraws).
  unfold layout_build. fold (new_builder_ok max). rewrite Hcfg. cbn [negb].
  destruct (keep_some (Z.to_N max * Z.to_N max) thr raws [] [] [] [] Hdec) as ([[normals btxs] kept] & ->).
  eexists _, _. reflexivity.
Qed.

(* exactly: with a valid maximum, Build fails iff some blob transaction does not decode,
   and then it is an error, never a panic *)
Theorem build_fails_iff raws max thr : 1 <= thr -> (max <= 1024)%Z -> c07_raws_ok raws ->
  new_builder_ok max = true ->
  (build raws max thr = Err <-> Exists (fun r => unmarshal_blob_tx r = UbtErr) raws) /\
  build raws max thr <> Fault.
Proof.
  intros Ht Hmax Hraws Hcfg. rewrite (build_eq_layout raws max thr Ht Hmax Hraws).
  unfold layout_build. fold (new_builder_ok max). rewrite Hcfg. cbn [negb].
  destruct (keep (Z.to_N max * Z.to_N max) thr raws [] [] [] []) as [[[normals btxs] kept]|] eqn:Ek.
  - split; [|discriminate]. split; [discriminate|]. intros Hex. exfalso.
    apply Exists_exists in Hex. destruct Hex as (r & Hin & Hr).
    pose proof (keep_some_inv _ _ _ _ _ _ _ _ Ek) as Hall. rewrite Forall_forall in Hall. exact (Hall r Hin Hr).
  - split; [|discriminate]. split; [intros _; exact (keep_none _ _ _ _ _ _ _ Ek)|reflexivity].
Qed.
