(* Closed form of a compact (transaction) share sequence, share by share, written
   from the share specification: share j of the sequence carrying the stream S of
   length-prefixed transactions is

     namespace | info(version, j = 0) | [be32 (len S) if j = 0] | be32 reserved_j
               | S[off_j, off_j + cap_j) | zero fill

   with cap_0 = 474, cap_j = 478, off_0 = 0, off_j = 474 + 478 (j - 1), and
   reserved_j the in-share offset (counted from the first byte of the share) of
   the first unit that starts inside share j, or 0 if none does.  No writer, no
   cursor: every share is a function of (S, unit start offsets, j).  This is the
   reference for C10 and the object the compact proofs (C09, C11, C12) reason about;
   the runner checks it against ShareSpec.compact_spec (the stream-walking form)
   and against the Go code on every compact case. *)
From GS.Model Require Import Base Varint Namespace ShareFmt.
From GS.Spec Require Import ShareSpec.
Open Scope nat_scope.

Definition coff (j : nat) : nat := match j with O => 0 | S k => 474 + 478 * k end.
Definition ccap (j : nat) : nat := match j with O => 474 | S _ => 478 end.
Definition chdr (j : nat) : nat := match j with O => 38 | S _ => 34 end.
Definition cchunk (j : nat) (s : bytes) : bytes := firstn (ccap j) (skipn (coff j) s).

(* stream offsets at which the units start *)
Fixpoint ustarts (off : nat) (us : list bytes) : list nat :=
  match us with
  | [] => []
  | u :: tl => off :: ustarts (off + length u) tl
  end.

(* reserved bytes of share j: first unit start at or after the share's first payload
   byte, if it lies inside the payload the share really carries *)
Definition cres (j : nat) (s : bytes) (sts : list nat) : nat :=
  match find (fun u => Nat.leb (coff j) u) sts with
  | Some u => if Nat.ltb u (coff j + length (cchunk j s)) then chdr j + (u - coff j) else 0
  | None => 0
  end.

Definition cshare (ns : namespace) (ver total : N) (j : nat) (s : bytes) (sts : list nat) : share :=
  ns ++ [info_of ver (Nat.eqb j 0)] ++ (if Nat.eqb j 0 then be32 total else [])
     ++ be32 (N.of_nat (cres j s sts)) ++ pad_to (ccap j) (cchunk j s).

(* number of shares that hold [len] stream bytes *)
Definition cneeded (len : nat) : nat :=
  if Nat.eqb len 0 then 0
  else if Nat.leb len 474 then 1
  else 1 + (len - 474 + 477) / 478.

Definition compact_spec_ix (ns : namespace) (ver : N) (txs : list bytes) : list share :=
  let s := stream txs in
  map (fun j => cshare ns ver (u32 (lenN s)) j s (ustarts 0 (units txs)))
      (seq 0 (cneeded (length s))).
