(* C07, part 2: Export of a builder in correspondence with (normals, btxs) returns
   the rule-based layout of (normals, btxs)  [export_corr].

   Ingredients: the compact writer is the closed-form compact encoder
   (CompactWriterProofs), the blob loop is a closed-form function of the sorted
   element list (BlobLayoutProofs), the model's insertion sort is the spec's
   insertion sort under the element -> lblob mapping, NextShareIndex is [align_up],
   the recorded share indexes are the spec's [wrappers], the defensive checks of
   Export / WriteSquare never fire, and the copies of WriteSquare concatenate. *)
From Coq Require Import List Arith NArith ZArith Lia Bool Sorted Permutation.
From Coq Require Import ZifyN ZifyNat ZifyBool.
From GS.Model Require Import Base Varint Namespace ShareFmt Blob Sparse Compact Counter Arith Proto Builder.
From GS.Spec Require Import ShareSpec CompactSpec LayoutSpec.
From GS.Proofs Require Import BaseLemmas VarintProofs SparseProofs ArithProofs CounterProofs
  CompactWriterProofs AccountingProofs BlobLayoutProofs LayoutShapeProofs RefinementProofs1.
Import ListNotations.
Open Scope N_scope.

(* ================================================================== *)
(* Generic list lemmas                                                 *)
(* ================================================================== *)

Lemma nth_error_ext_eq {A} : forall (l1 l2 : list A), (forall k, nth_error l1 k = nth_error l2 k) -> l1 = l2.
Proof.
  induction l1 as [|x l1 IH]; intros [|y l2] H.
  - reflexivity.
  - specialize (H 0%nat). discriminate.
  - specialize (H 0%nat). discriminate.
  - pose proof (H 0%nat) as H0. cbn [nth_error] in H0. injection H0 as ->. f_equal.
    apply IH. intros k. exact (H (S k)).
Qed.

Lemma repeat_app_nat {A} (x : A) a b : repeat x (a + b) = repeat x a ++ repeat x b.
Proof. apply repeat_app. Qed.

(* ================================================================== *)
(* NextShareIndex is align_up                                          *)
(* ================================================================== *)

Lemma nsi_align_up c n thr : 1 <= thr -> next_share_index c n thr = align_up c (subtree_width n thr).
Proof.
  intros Ht. pose proof (subtree_width_pos n thr Ht) as Hw.
  destruct (next_share_index_spec c n thr Ht) as (H1 & H2 & H3).
  destruct (align_up_bounds c _ Hw) as [A1 A2]. pose proof (align_up_mod c _ Hw) as A3.
  set (w := subtree_width n thr) in *. set (r := next_share_index c n thr) in *. set (a := align_up c w) in *.
  clearbody w r a.
  apply N.mod_divide in H1; [|lia]. apply N.mod_divide in A3; [|lia].
  destruct H1 as [q1 ->]. destruct A3 as [q2 ->].
  destruct (N.lt_trichotomy q1 q2) as [Hlt|[->|Hgt]]; [|reflexivity|]; exfalso.
  - assert ((q1 + 1) * w <= q2 * w) by (apply N.mul_le_mono_r; lia). lia.
  - assert ((q2 + 1) * w <= q1 * w) by (apply N.mul_le_mono_r; lia). lia.
Qed.

(* ================================================================== *)
(* Elements and the spec's lblobs                                      *)
(* ================================================================== *)

Definition to_lb (e : element) : lblob :=
  mk_lb (e_blob e) (e_pfb_index e) (e_blob_index e) (e_num_shares e) 0.
Definition to_lbi (p : element * N) : lblob :=
  mk_lb (e_blob (fst p)) (e_pfb_index (fst p)) (e_blob_index (fst p)) (e_num_shares (fst p)) (snd p).

Lemma to_lb_insert e l : map to_lb (insert_el e l) = lb_insert (to_lb e) (map to_lb l).
Proof.
  induction l as [|x l IH]; [reflexivity|]. cbn [insert_el map lb_insert].
  change (lb_blob (to_lb e)) with (e_blob e). change (lb_blob (to_lb x)) with (e_blob x).
  destruct (bytes_cmp (b_ns (e_blob e)) (b_ns (e_blob x))); cbn [map]; try reflexivity.
  rewrite IH. reflexivity.
Qed.

Lemma to_lb_sort l : map to_lb (sort_elements l) = lb_sort (map to_lb l).
Proof.
  induction l as [|e l IH]; [reflexivity|]. unfold sort_elements, lb_sort in *. cbn [fold_right map].
  rewrite to_lb_insert, IH. reflexivity.
Qed.

Lemma to_lb_elements_of thr : forall bs pi bi, Forall c07_blob_ok bs ->
  map to_lb (elements_of bs pi bi thr) = blobs_of_tx pi bi bs.
Proof.
  induction bs as [|b bs IH]; intros pi bi H; [reflexivity|]. apply Forall_cons_iff in H as [[_ Hb] H].
  cbn [elements_of map blobs_of_tx]. rewrite IH by exact H. f_equal.
  unfold to_lb. rewrite (new_element_count b pi bi thr Hb). reflexivity.
Qed.

Lemma to_lb_all_els thr : forall btxs pi, Forall c07_btx_ok btxs ->
  map to_lb (all_els thr pi btxs) = all_blobs pi btxs.
Proof.
  induction btxs as [|t tl IH]; intros pi H; [reflexivity|]. apply Forall_cons_iff in H as [Hh H].
  cbn [all_els all_blobs]. rewrite map_app, to_lb_elements_of, IH by assumption. reflexivity.
Qed.

Lemma to_lbi_place thr : 1 <= thr -> forall els c,
  map to_lbi (BlobLayoutProofs.place thr c els) = assign thr c (map to_lb els).
Proof.
  intros Ht. induction els as [|e els IH]; intros c; [reflexivity|].
  cbn [BlobLayoutProofs.place map assign]. unfold to_lbi at 1. cbn [fst snd].
  change (lb_n (to_lb e)) with (e_num_shares e). change (lb_blob (to_lb e)) with (e_blob e).
  change (lb_pfb (to_lb e)) with (e_pfb_index e). change (lb_j (to_lb e)) with (e_blob_index e).
  rewrite IH, (nsi_align_up c (e_num_shares e) thr Ht). reflexivity.
Qed.

(* the spec's placed blobs are the model's (element, index) pairs *)
Lemma placed_eq thr normals btxs : 1 <= thr -> Forall c07_btx_ok btxs ->
  lay_placed thr normals btxs =
  map to_lbi (BlobLayoutProofs.place thr (lay_start normals btxs) (sort_elements (all_els thr 0 btxs))).
Proof.
  intros Ht Hok. unfold lay_placed, sorted_blobs.
  rewrite (to_lbi_place thr Ht), to_lb_sort, to_lb_all_els by exact Hok. reflexivity.
Qed.

(* ================================================================== *)
(* The blob region                                                     *)
(* ================================================================== *)

Lemma region_false_eq thr : 1 <= thr -> forall els c pns pver,
  BlobLayoutProofs.region thr false c pns pver els =
  LayoutShapeProofs.region c pns pver (assign thr c (map to_lb els)).
Proof.
  intros Ht. induction els as [|e els IH]; intros c pns pver; [reflexivity|].
  cbn [BlobLayoutProofs.region map assign LayoutShapeProofs.region lb_index lb_blob lb_n].
  change (lb_n (to_lb e)) with (e_num_shares e). change (lb_blob (to_lb e)) with (e_blob e).
  rewrite IH, (nsi_align_up c (e_num_shares e) thr Ht). reflexivity.
Qed.

(* from square index k (the end of the PFB shares): reserved padding up to the first
   blob, then what the blob loop wrote *)
Lemma region_true_eq thr : 1 <= thr -> forall els c k, (els = [] -> c <= k) ->
  LayoutShapeProofs.region k primary_reserved_padding_ns 0 (assign thr c (map to_lb els)) =
  repeat (padding_spec primary_reserved_padding_ns 0) (N.to_nat (start_of thr true c els - k))
  ++ BlobLayoutProofs.region thr true c [] 0 els.
Proof.
  intros Ht els c k Hk. destruct els as [|e els].
  - cbn [map assign LayoutShapeProofs.region BlobLayoutProofs.region start_of].
    specialize (Hk eq_refl). replace (N.to_nat (c - k)) with 0%nat by lia. reflexivity.
  - cbn [map assign LayoutShapeProofs.region BlobLayoutProofs.region start_of lb_index lb_blob lb_n app].
    change (lb_n (to_lb e)) with (e_num_shares e). change (lb_blob (to_lb e)) with (e_blob e).
    rewrite (region_false_eq thr Ht), (nsi_align_up c (e_num_shares e) thr Ht). reflexivity.
Qed.

(* ================================================================== *)
(* The blob loop never fails                                           *)
(* ================================================================== *)

(* Pfbs[pfbIndex].ShareIndexes[blobIndex] exists *)
Definition slot_ok (pfbs : list pfb) (e : element) : Prop :=
  exists p, nth_error pfbs (N.to_nat (e_pfb_index e)) = Some p /\ e_blob_index e < lenN (pfb_idx p).

Lemma slot_ok_shape pfbs pfbs' e : pfb_shape pfbs' = pfb_shape pfbs -> slot_ok pfbs e -> slot_ok pfbs' e.
Proof.
  intros Hs (p & Hp & Hb). apply (f_equal (fun l => nth_error l (N.to_nat (e_pfb_index e)))) in Hs.
  unfold pfb_shape in Hs. rewrite !nth_error_map, Hp in Hs.
  destruct (nth_error pfbs' (N.to_nat (e_pfb_index e))) as [p'|] eqn:Ep'; [|discriminate].
  cbn [option_map] in Hs. injection Hs as _ Hl. exists p'. split; [exact Ep'|]. unfold lenN in *. lia.
Qed.

Lemma record_index_ok pfbs e c : slot_ok pfbs e ->
  exists pfbs', record_index pfbs (e_pfb_index e) (e_blob_index e) c = Ok pfbs'.
Proof.
  intros (p & Hp & Hb). unfold record_index. rewrite Hp.
  replace (lenN (pfb_idx p) <=? e_blob_index e) with false by lia. eexists. reflexivity.
Qed.

Lemma export_blobs_total : forall els thr first st pns pver,
  1 <= thr -> Forall el_ok els -> Forall (el_wf thr) els ->
  bl_end_last st = bl_cursor st ->
  (first = false -> last_is (bl_shares st) pns pver /\ length pns = 29%nat /\ pver <= 127) ->
  Forall (slot_ok (bl_pfbs st)) els ->
  exists st', export_blobs thr first els st = Ok st'.
Proof.
  induction els as [|e tl IH]; intros thr first st pns pver Hthr Hok Hwf Hend Hlast Hslots.
  - exists st. reflexivity.
  - apply Forall_cons_iff in Hok as [[Hbok Hn] Hoktl]. apply Forall_cons_iff in Hwf as [Hwe Hwftl].
    apply Forall_cons_iff in Hslots as [Hse Hslotstl].
    cbn [export_blobs]. cbv zeta.
    destruct (alignment_gap_el thr e (bl_cursor st) Hthr Hwe) as [G _]. rewrite Hend.
    set (c := next_share_index (bl_cursor st) (e_num_shares e) thr) in *.
    replace (e_max_padding e <? c - bl_cursor st) with false by lia.
    destruct (record_index_ok (bl_pfbs st) e c Hse) as (pfbs & Erec). rewrite Erec. cbn [bind].
    destruct (record_index_spec _ _ _ _ _ Erec) as (_ & _ & Hshape).
    set (pad := if first then [] else repeat (padding_spec pns pver) (N.to_nat (c - bl_cursor st))).
    assert (Hs1 : (if first then Ok (bl_shares st)
                   else sparse_write_item (bl_shares st) (INsPad (N.to_nat (c - bl_cursor st))))
                  = Ok (bl_shares st ++ pad)).
    { unfold pad. destruct first.
      - rewrite app_nil_r. reflexivity.
      - destruct (Hlast eq_refl) as ((init & lst & Esh & Hlns & Hlver) & Hpns & Hpver).
        rewrite Esh. subst pns pver. apply write_ns_pad; assumption. }
    rewrite Hs1. cbn [bind]. rewrite write_blob by exact Hbok. cbn [bind].
    destruct (blob_ok_ver _ Hbok) as [Hv127 _]. pose proof Hbok as (Hns29 & _).
    apply (IH thr false _ (b_ns (e_blob e)) (b_ver (e_blob e)) Hthr Hoktl Hwftl);
      cbn [bl_cursor bl_end_last bl_shares bl_pfbs].
    + reflexivity.
    + intros _. split; [|split; assumption].
      destruct (blob_spec_last _ Hbok) as (init & lst & E & Hl1 & Hl2).
      exists ((bl_shares st ++ pad) ++ init), lst. split; [|split; assumption].
      rewrite E, <- !app_assoc. reflexivity.
    + eapply Forall_impl; [|exact Hslotstl]. intros x Hx. eapply slot_ok_shape; eassumption.
Qed.

(* ================================================================== *)
(* Keys and slots of the builder's elements                            *)
(* ================================================================== *)

Lemma elements_of_slot thr : forall bs pi bi e, In e (elements_of bs pi bi thr) ->
  e_pfb_index e = pi /\ bi <= e_blob_index e /\ e_blob_index e < bi + lenN bs.
Proof.
  induction bs as [|b bs IH]; intros pi bi e Hin; cbn [elements_of] in Hin; [destruct Hin|].
  rewrite lenN_cons. destruct Hin as [<-|Hin].
  - cbn [new_element e_pfb_index e_blob_index]. lia.
  - destruct (IH _ _ _ Hin) as (H1 & H2 & H3). lia.
Qed.

Lemma all_els_slot thr : forall btxs pi e, In e (all_els thr pi btxs) ->
  exists k t, nth_error btxs k = Some t /\ e_pfb_index e = pi + N.of_nat k /\ e_blob_index e < lenN (btx_blobs t).
Proof.
  induction btxs as [|t tl IH]; intros pi e Hin; cbn [all_els] in Hin; [destruct Hin|].
  apply in_app_or in Hin. destruct Hin as [Hin|Hin].
  - destruct (elements_of_slot thr _ _ _ _ Hin) as (H1 & _ & H3). exists 0%nat, t. split; [reflexivity|]. lia.
  - destruct (IH _ _ Hin) as (k & t' & Hk & H1 & H2). exists (S k), t'. split; [exact Hk|]. lia.
Qed.

Lemma all_els_slot_ok thr btxs e : In e (all_els thr 0 btxs) -> slot_ok (map worst_pfb btxs) e.
Proof.
  intros Hin. destruct (all_els_slot thr _ _ _ Hin) as (k & t & Hk & H1 & H2).
  exists (worst_pfb t). split.
  - rewrite H1. replace (N.to_nat (0 + N.of_nat k)) with k by lia. apply map_nth_error, Hk.
  - unfold worst_pfb, worst_case_share_indexes, lenN in *. cbn [pfb_idx]. rewrite repeat_length. exact H2.
Qed.

Lemma elements_of_has_key thr : forall bs pi bi j, (j < length bs)%nat ->
  exists e, In e (elements_of bs pi bi thr) /\ el_key e = (pi, bi + N.of_nat j).
Proof.
  induction bs as [|b bs IH]; intros pi bi j Hj; cbn [length] in Hj; [lia|]. cbn [elements_of].
  destruct j as [|j].
  - exists (new_element b pi bi thr). split; [left; reflexivity|]. unfold el_key. cbn. f_equal. lia.
  - destruct (IH pi (bi + 1) j ltac:(lia)) as (e & Hin & Hk). exists e. split; [right; exact Hin|].
    rewrite Hk. f_equal. lia.
Qed.

Lemma all_els_has_key thr : forall btxs pi k t j, nth_error btxs k = Some t -> (j < length (btx_blobs t))%nat ->
  exists e, In e (all_els thr pi btxs) /\ el_key e = (pi + N.of_nat k, N.of_nat j).
Proof.
  induction btxs as [|t0 tl IH]; intros pi k t j Hk Hj; [destruct k; discriminate|]. cbn [all_els].
  destruct k as [|k].
  - cbn [nth_error] in Hk. injection Hk as ->.
    destruct (elements_of_has_key thr (btx_blobs t) pi 0 j Hj) as (e & Hin & He).
    exists e. split; [apply in_or_app; left; exact Hin|]. rewrite He. f_equal; lia.
  - cbn [nth_error] in Hk. destruct (IH (pi + 1) k t j Hk Hj) as (e & Hin & He).
    exists e. split; [apply in_or_app; right; exact Hin|]. rewrite He. f_equal. lia.
Qed.

(* elements of acceptable blobs *)
Lemma elements_of_el_ok thr : forall bs pi bi, Forall c07_blob_ok bs -> Forall el_ok (elements_of bs pi bi thr).
Proof.
  intros bs pi bi H. apply elements_of_ok. eapply Forall_impl; [|exact H].
  intros b [[Hb _] Hl]. split; assumption.
Qed.

Lemma all_els_el_ok thr : forall btxs pi, Forall c07_btx_ok btxs -> Forall el_ok (all_els thr pi btxs).
Proof.
  induction btxs as [|t tl IH]; intros pi H; cbn [all_els]; [constructor|].
  apply Forall_cons_iff in H as [Hh H]. apply Forall_app. split; [apply elements_of_el_ok, Hh|apply IH, H].
Qed.

Lemma all_els_wf thr : forall btxs pi, Forall (el_wf thr) (all_els thr pi btxs).
Proof.
  induction btxs as [|t tl IH]; intros pi; cbn [all_els]; [constructor|].
  apply Forall_app. split; [apply elements_of_wf|apply IH].
Qed.

(* no blobs at all: every wrapped PFB is its worst-case form *)
Lemma elements_of_nil thr bs pi bi : elements_of bs pi bi thr = [] -> bs = [].
Proof. destruct bs; [reflexivity|discriminate]. Qed.

Lemma no_blobs_wrappers thr placed : forall btxs pi pj, all_els thr pi btxs = [] ->
  wrappers placed pj btxs = map worst_wrapper btxs.
Proof.
  induction btxs as [|t tl IH]; intros pi pj H; [reflexivity|]. cbn [all_els] in H.
  apply app_eq_nil in H as [H1 H2]. apply elements_of_nil in H1.
  cbn [wrappers map]. rewrite (IH _ _ H2). unfold worst_wrapper. rewrite H1. reflexivity.
Qed.

(* ================================================================== *)
(* The recorded share indexes are the spec's wrappers                  *)
(* ================================================================== *)

Lemma indexes_of_tx_nth placed pi : forall bs j0 j,
  nth_error (indexes_of_tx placed pi j0 bs) j =
  if Nat.ltb j (length bs) then Some (index_of placed pi (j0 + N.of_nat j)) else None.
Proof.
  induction bs as [|b bs IH]; intros j0 j; cbn [indexes_of_tx length].
  - destruct j; reflexivity.
  - destruct j as [|j]; cbn [nth_error].
    + replace (j0 + N.of_nat 0) with j0 by lia. reflexivity.
    + rewrite IH. replace (j0 + 1 + N.of_nat j) with (j0 + N.of_nat (S j)) by lia.
      change (Nat.ltb (S j) (S (length bs))) with (Nat.ltb j (length bs)). reflexivity.
Qed.

Lemma wrappers_nth placed : forall btxs pi k,
  nth_error (wrappers placed pi btxs) k =
  option_map (fun t => marshal_index_wrapper (btx_tx t)
                         (indexes_of_tx placed (pi + N.of_nat k) 0 (btx_blobs t))) (nth_error btxs k).
Proof.
  induction btxs as [|t tl IH]; intros pi k; cbn [wrappers].
  - destruct k; reflexivity.
  - destruct k as [|k]; cbn [nth_error option_map].
    + replace (pi + N.of_nat 0) with pi by lia. reflexivity.
    + rewrite IH. replace (pi + 1 + N.of_nat k) with (pi + N.of_nat (S k)) by lia. reflexivity.
Qed.

Definition wrap_pfb (p : pfb) : bytes := marshal_index_wrapper (pfb_tx p) (pfb_idx p).

Lemma recorded_wrappers thr start btxs pfbs' :
  let ps := BlobLayoutProofs.place thr start (sort_elements (all_els thr 0 btxs)) in
  NoDup (map el_key (all_els thr 0 btxs)) ->
  record_all (map worst_pfb btxs) ps = Ok pfbs' ->
  Forall (fun p => snd p < 4294967296) ps ->
  map wrap_pfb pfbs' = wrappers (map to_lbi ps) 0 btxs.
Proof.
  intros ps Hnd Hrec Hsmall.
  destruct (record_all_spec _ _ _ Hrec) as (Hshape & _ & Hset).
  assert (Hperm : Permutation (sort_elements (all_els thr 0 btxs)) (all_els thr 0 btxs)) by apply bl_sort_perm.
  assert (Hnd' : NoDup (map (fun p => el_key (fst p)) ps)).
  { unfold ps. rewrite place_keys. eapply Permutation_NoDup; [|exact Hnd].
    apply Permutation_map, Permutation_sym, Hperm. }
  specialize (Hset Hnd').
  apply nth_error_ext_eq. intros k. rewrite nth_error_map, wrappers_nth.
  pose proof (f_equal (fun l => nth_error l k) Hshape) as Hk. cbv beta in Hk.
  unfold pfb_shape in Hk. rewrite !nth_error_map in Hk.
  destruct (nth_error btxs k) as [t|] eqn:Et; cbn [option_map] in *.
  - destruct (nth_error pfbs' k) as [p'|] eqn:Ep; [|discriminate]. cbn [option_map] in *.
    injection Hk as Htx Hlen. unfold worst_pfb, worst_case_share_indexes in Htx, Hlen.
    cbn [pfb_tx pfb_idx] in Htx, Hlen. rewrite repeat_length in Hlen.
    unfold wrap_pfb. rewrite Htx. do 2 f_equal.
    apply nth_error_ext_eq. intros j. rewrite indexes_of_tx_nth.
    destruct (Nat.ltb j (length (btx_blobs t))) eqn:Ej.
    + apply Nat.ltb_lt in Ej.
      destruct (all_els_has_key thr btxs 0 k t j Et Ej) as (e & Hin & Hkey).
      assert (Hin_s : In e (map fst ps)).
      { unfold ps. rewrite place_fst. eapply Permutation_in; [apply Permutation_sym, Hperm|exact Hin]. }
      apply in_map_iff in Hin_s. destruct Hin_s as ([e' i] & He' & Hinp). cbn [fst] in He'. subst e'.
      unfold index_of.
      destruct (find (fun x => (lb_pfb x =? 0 + N.of_nat k) && (lb_j x =? 0 + N.of_nat j)) (map to_lbi ps))
        as [x|] eqn:Ef.
      * apply find_some in Ef. destruct Ef as [Hx Hpred].
        apply in_map_iff in Hx. destruct Hx as ([e2 i2] & <- & Hin2).
        unfold to_lbi in Hpred |- *. cbn [fst snd lb_pfb lb_j lb_index] in Hpred |- *.
        apply andb_true_iff in Hpred. destruct Hpred as [Hp1 Hp2].
        apply N.eqb_eq in Hp1. apply N.eqb_eq in Hp2.
        pose proof (Hset e2 i2 Hin2) as Hidx. unfold idx_at in Hidx. rewrite Hp1, Hp2 in Hidx.
        replace (N.to_nat (0 + N.of_nat k)) with k in Hidx by lia.
        replace (N.to_nat (0 + N.of_nat j)) with j in Hidx by lia.
        rewrite Ep in Hidx. rewrite Hidx. f_equal. apply u32_small.
        rewrite Forall_forall in Hsmall. apply (Hsmall _ Hin2).
      * exfalso. pose proof (find_none _ _ Ef (to_lbi (e, i)) (in_map to_lbi _ _ Hinp)) as Hn.
        unfold to_lbi in Hn. cbn [fst snd lb_pfb lb_j] in Hn. unfold el_key in Hkey. injection Hkey as K1 K2.
        rewrite K1, K2, !N.eqb_refl in Hn. discriminate.
    + apply nth_error_None. apply Nat.ltb_ge in Ej. lia.
  - destruct (nth_error pfbs' k); [discriminate|reflexivity].
Qed.

(* ================================================================== *)
(* WriteSquare: the copies concatenate                                 *)
(* ================================================================== *)

Lemma copy_at_exact (dst : list share) off src a m c :
  dst = a ++ m ++ c -> off = lenN a -> length m = length src ->
  copy_at dst off src = Ok (a ++ src ++ c).
Proof.
  intros -> -> Hm. unfold copy_at.
  replace (lenN (a ++ m ++ c) <? lenN a) with false by (rewrite !lenN_app; lia).
  unfold takeN, dropN. f_equal.
  assert (Ha : N.to_nat (lenN a) = length a) by (unfold lenN; lia).
  rewrite Ha, (firstn_app_exact (length a) a (m ++ c) eq_refl). f_equal.
  assert (Hs : firstn (N.to_nat (lenN (a ++ m ++ c) - lenN a)) src = src).
  { apply firstn_all2. rewrite !lenN_app. unfold lenN. lia. }
  rewrite Hs. f_equal.
  rewrite app_assoc. apply skipn_app_exact. rewrite app_length. unfold lenN. lia.
Qed.

Lemma repeat_0 {A} (x : A) : repeat x 0 = [].
Proof. reflexivity. Qed.

Lemma write_square_exact txw pfbw c1 c2 txs pfbs bs nrs ss :
  cs_export txw = Ok (c1, txs) -> cs_export pfbw = Ok (c2, pfbs) ->
  cs_count txw = lenN txs -> cs_count pfbw = lenN pfbs ->
  lenN txs + lenN pfbs <= nrs -> nrs + lenN bs <= ss * ss ->
  (bs = [] -> nrs = lenN txs + lenN pfbs) ->
  write_square txw pfbw bs nrs ss =
  Ok (txs ++ pfbs
      ++ repeat (padding_spec primary_reserved_padding_ns 0) (N.to_nat (nrs - (lenN txs + lenN pfbs)))
      ++ bs
      ++ repeat (padding_spec tail_padding_ns 0) (N.to_nat (ss * ss - (nrs + lenN bs)))).
Proof.
  intros Hx1 Hx2 Hc1 Hc2 Hlo Hhi Hnil. unfold write_square. cbv zeta. rewrite Hc1, Hc2.
  replace (nrs <? lenN txs + lenN pfbs) with false by lia.
  unfold reserved_padding_shares, tail_padding_shares.
  rewrite namespace_padding_shares_spec by (reflexivity || lia). cbn [bind].
  replace (ss * ss <? nrs + lenN bs) with false by lia.
  rewrite Hx1. cbn [bind]. rewrite Hx2. cbn [bind].
  remember (N.to_nat (nrs - (lenN txs + lenN pfbs))) as ng eqn:Hng.
  remember (N.to_nat (ss * ss - (nrs + lenN bs))) as nr eqn:Hnr.
  set (rp := padding_spec primary_reserved_padding_ns 0). set (tp := padding_spec tail_padding_ns 0).
  set (E := repeat ([] : share)).
  assert (Htot : N.to_nat (ss * ss) = (length txs + (length pfbs + (ng + (length bs + nr))))%nat)
    by (unfold lenN in *; lia).
  rewrite Htot. unfold E at 1. rewrite !repeat_app. fold E.
  rewrite (copy_at_exact _ 0 txs [] (E (length txs)) (E (length pfbs) ++ E ng ++ E (length bs) ++ E nr));
    [|reflexivity|reflexivity|unfold E; apply repeat_length].
  cbn [bind app].
  rewrite (copy_at_exact _ (lenN txs) pfbs txs (E (length pfbs)) (E ng ++ E (length bs) ++ E nr));
    [|reflexivity|reflexivity|unfold E; apply repeat_length].
  cbn [bind].
  assert (H3 : (if 0 <? lenN bs
                then do s <- copy_at (txs ++ pfbs ++ E ng ++ E (length bs) ++ E nr) (lenN txs + lenN pfbs) (repeat rp ng);
                     copy_at s nrs bs
                else Ok (txs ++ pfbs ++ E ng ++ E (length bs) ++ E nr))
               = Ok ((txs ++ pfbs ++ repeat rp ng ++ bs) ++ E nr)).
  { destruct (0 <? lenN bs) eqn:Eb.
    - rewrite (copy_at_exact _ _ (repeat rp ng) (txs ++ pfbs) (E ng) (E (length bs) ++ E nr));
        [|rewrite <- !app_assoc; reflexivity|rewrite lenN_app; reflexivity|unfold E; rewrite !repeat_length; reflexivity].
      cbn [bind].
      rewrite (copy_at_exact _ _ bs ((txs ++ pfbs) ++ repeat rp ng) (E (length bs)) (E nr));
        [|rewrite <- !app_assoc; reflexivity| |unfold E; apply repeat_length].
      + rewrite <- !app_assoc. reflexivity.
      + rewrite !lenN_app, lenN_repeat. lia.
    - assert (Hb : bs = []) by (destruct bs; [reflexivity|unfold lenN in Eb; cbn [length] in Eb; lia]).
      specialize (Hnil Hb). subst bs. assert (Hz : ng = 0%nat) by lia. rewrite Hz.
      cbn [length]. unfold E. rewrite !repeat_0. cbn [app]. rewrite <- !app_assoc. reflexivity. }
  rewrite H3. cbn [bind].
  destruct (nrs + lenN bs <? ss * ss) eqn:Et.
  - rewrite namespace_padding_shares_spec by (reflexivity || lia). cbn [bind].
    rewrite (copy_at_exact _ _ (repeat tp nr) (txs ++ pfbs ++ repeat rp ng ++ bs) (E nr) []);
      [|rewrite app_nil_r; reflexivity| |unfold E; rewrite !repeat_length; reflexivity].
    + rewrite app_nil_r, <- !app_assoc. reflexivity.
    + rewrite !lenN_app, lenN_repeat. lia.
  - assert (Hz : nr = 0%nat) by lia. rewrite Hz. unfold E. rewrite !repeat_0, <- !app_assoc. reflexivity.
Qed.

(* ================================================================== *)
(* The layout in the shape WriteSquare produces                        *)
(* ================================================================== *)

Lemma compact_count_zero l : compact_count l = 0 -> l = [].
Proof. destruct l as [|t l]; [reflexivity|]. pose proof (compact_count_pos t l). lia. Qed.

Lemma end_cursor_final thr : 1 <= thr -> forall els c,
  end_cursor thr c els = final_cursor thr c (map to_lb els).
Proof.
  intros Ht. induction els as [|e els IH]; intros c; [reflexivity|].
  cbn [end_cursor map final_cursor]. change (lb_n (to_lb e)) with (e_num_shares e).
  rewrite IH, (nsi_align_up c (e_num_shares e) thr Ht). reflexivity.
Qed.

Lemma sorted_els_blobs thr btxs : Forall c07_btx_ok btxs ->
  map to_lb (sort_elements (all_els thr 0 btxs)) = sorted_blobs btxs.
Proof. intros Hok. unfold sorted_blobs. rewrite to_lb_sort, to_lb_all_els by exact Hok. reflexivity. Qed.

Lemma sort_elements_nil l : sort_elements l = [] -> l = [].
Proof.
  intros H. pose proof (bl_sort_perm l) as Hp. rewrite H in Hp. apply Permutation_nil in Hp. exact Hp.
Qed.

Lemma layout_as_model thr normals btxs : 1 <= thr -> Forall c07_btx_ok btxs ->
  estimate thr normals btxs < 2097152 ->
  let els := sort_elements (all_els thr 0 btxs) in
  let start := lay_start normals btxs in
  let txs := tx_run normals in
  let pfbs := pfb_run thr normals btxs in
  let nrs := start_of thr true start els in
  let bs := BlobLayoutProofs.region thr true start [] 0 els in
  let side := lay_side thr normals btxs in
  layout thr normals btxs =
    txs ++ pfbs
    ++ repeat (padding_spec primary_reserved_padding_ns 0) (N.to_nat (nrs - (lenN txs + lenN pfbs)))
    ++ bs
    ++ repeat (padding_spec tail_padding_ns 0) (N.to_nat (side * side - (nrs + lenN bs)))
  /\ lenN txs + lenN pfbs <= nrs
  /\ (els = [] -> nrs = lenN txs + lenN pfbs).
Proof.
  intros Ht Hok Hest els start txs pfbs nrs bs side.
  pose proof (c07_btxs_lay _ Hok) as Hlay.
  pose proof (placed_index_small thr normals btxs Ht Hest) as Hsmall.
  assert (Htl : lenN txs = compact_count normals) by apply compact_spec_ix_length.
  assert (Hpl : lenN pfbs = compact_count (wrappers (lay_placed thr normals btxs) 0 btxs))
    by apply compact_spec_ix_length.
  pose proof (compact_count_wrappers _ btxs Hsmall) as Hcw.
  pose proof (start_of_ge thr true start els Ht) as Hsg. fold nrs in Hsg.
  assert (Hlo : lenN txs + lenN pfbs <= nrs) by (unfold start, lay_start in Hsg; lia).
  assert (Hnil : els = [] -> nrs = lenN txs + lenN pfbs).
  { intros He. unfold nrs. rewrite He. cbn [start_of]. unfold els in He. apply sort_elements_nil in He.
    rewrite Hpl, (no_blobs_wrappers thr _ btxs 0 0 He), Htl. reflexivity. }
  split; [|split; assumption].
  rewrite layout_unfold. destruct (lay_body_eq thr normals btxs Ht Hlay Hest) as [Hbody _].
  assert (Hb : lay_body thr normals btxs =
               txs ++ pfbs ++ repeat (padding_spec primary_reserved_padding_ns 0)
                                     (N.to_nat (nrs - (lenN txs + lenN pfbs))) ++ bs).
  { rewrite Hbody. fold txs pfbs. do 2 f_equal. unfold lay_placed. rewrite <- (sorted_els_blobs thr btxs Hok).
    fold els. fold start. rewrite lenN_app. apply (region_true_eq thr Ht).
    intros He. specialize (Hnil He). unfold nrs in Hnil. rewrite He in Hnil. cbn [start_of] in Hnil. lia. }
  unfold tail_pad. rewrite Hb. fold side. rewrite <- !app_assoc. do 4 f_equal.
  rewrite !lenN_app, lenN_repeat. f_equal. lia.
Qed.

(* ================================================================== *)
(* Export = layout                                                     *)
(* ================================================================== *)

Theorem export_corr max thr b normals btxs : 1 <= thr -> max * max < 2097152 ->
  corr max thr b normals btxs ->
  exists b', export b = Ok (b', layout thr normals btxs).
Proof.
  intros Ht Hmax C. pose proof (co_acc _ _ _ _ _ C) as I.
  pose proof (corr_fits _ _ _ _ _ Ht C) as Hfit.
  assert (Hest : estimate thr normals btxs < 2097152) by lia.
  destruct (corr_counters _ _ _ _ _ C) as [Htc Hpc].
  pose proof (co_ok _ _ _ _ _ C) as Hok.
  unfold export. destruct (builder_is_empty b) eqn:Eemp.
  - unfold builder_is_empty in Eemp. apply andb_true_iff in Eemp. destruct Eemp as [E1 E2].
    assert (Hn : normals = []) by (apply compact_count_zero; lia).
    assert (Hw : map worst_wrapper btxs = []) by (apply compact_count_zero; lia).
    assert (Hb : btxs = []) by (destruct btxs; [reflexivity|discriminate]). subst normals btxs.
    unfold empty_square, tail_padding_shares.
    rewrite namespace_padding_shares_spec by (reflexivity || lia). cbn [bind]. exists b. reflexivity.
  - cbv zeta.
    destruct (compact_encode_spec tx_ns 0 normals length_tx_ns eq_refl ltac:(lia))
      as (tc0 & tc & tc' & Tn & Tw & Tx & Tcnt).
    rewrite Tn. cbn [bind]. rewrite (co_txs _ _ _ _ _ C), Tw. cbn [bind].
    rewrite (inv_thr _ _ _ I), (co_blobs _ _ _ _ _ C), (co_pfbs _ _ _ _ _ C).
    assert (Hstart : Z.to_N (counter_size (bd_txc b) + counter_size (bd_pfbc b)) = lay_start normals btxs)
      by (rewrite Htc, Hpc; unfold lay_start; lia).
    rewrite Hstart.
    destruct (layout_as_model thr normals btxs Ht Hok Hest) as (Hlayout & Hlo & Hnil). cbv zeta in Hlayout, Hlo, Hnil.
    set (els := sort_elements (all_els thr 0 btxs)) in *. set (start := lay_start normals btxs) in *.
    fold (init_state start (map worst_pfb btxs)).
    assert (Hperm : Permutation els (all_els thr 0 btxs)) by apply bl_sort_perm.
    assert (Hels_ok : Forall el_ok els).
    { eapply Permutation_Forall; [apply Permutation_sym, Hperm|apply all_els_el_ok, Hok]. }
    assert (Hels_wf : Forall (el_wf thr) els).
    { eapply Permutation_Forall; [apply Permutation_sym, Hperm|apply all_els_wf]. }
    assert (Hslots : Forall (slot_ok (map worst_pfb btxs)) els).
    { apply Forall_forall. intros e He. apply (all_els_slot_ok thr). eapply Permutation_in; [exact Hperm|exact He]. }
    destruct (export_blobs_total els thr true (init_state start (map worst_pfb btxs)) [] 0
                Ht Hels_ok Hels_wf eq_refl ltac:(discriminate) Hslots) as (st & Est).
    rewrite Est. cbn [bind].
    destruct (export_blobs_layout thr start _ els st Ht Hels_ok Est)
      as (Hsh & Hnrs & Hcur & Hlen & Hge & Hle & Hrec).
    (* the wrapped PFBs *)
    pose proof (placed_eq thr normals btxs Ht Hok) as Hpl. fold els start in Hpl.
    pose proof (placed_index_small thr normals btxs Ht Hest) as Hsmall.
    assert (Hwr : map wrap_pfb (bl_pfbs st) = wrappers (lay_placed thr normals btxs) 0 btxs).
    { rewrite Hpl. apply recorded_wrappers.
      - rewrite <- (co_blobs _ _ _ _ _ C). apply (co_binv _ _ _ _ _ C).
      - exact Hrec.
      - rewrite Hpl in Hsmall. rewrite Forall_map in Hsmall. eapply Forall_impl; [|exact Hsmall].
        intros p Hp. unfold to_lbi in Hp. cbn [lb_index] in Hp. lia. }
    change (map (fun p => marshal_index_wrapper (pfb_tx p) (pfb_idx p)) (bl_pfbs st)) with (map wrap_pfb (bl_pfbs st)).
    rewrite Hwr.
    destruct (compact_encode_spec pfb_ns 0 (wrappers (lay_placed thr normals btxs) 0 btxs)
                length_pfb_ns eq_refl ltac:(lia)) as (pc0 & pc & pc' & Pn & Pw & Px & Pcnt).
    rewrite Pn. cbn [bind]. rewrite Pw. cbn [bind].
    pose proof (compact_count_wrappers _ btxs Hsmall) as Hcw.
    fold (compact_count (wrappers (lay_placed thr normals btxs) 0 btxs)) in Pcnt.
    fold (compact_count normals) in Tcnt.
    replace ((counter_size (bd_pfbc b) <? Z.of_N (cs_count pc))%Z) with false by (rewrite Hpc, Pcnt; lia).
    fold (tx_run normals) in Tx. fold (pfb_run thr normals btxs) in Px.
    assert (Htl : lenN (tx_run normals) = compact_count normals) by apply compact_spec_ix_length.
    assert (Hpfl : lenN (pfb_run thr normals btxs) = compact_count (wrappers (lay_placed thr normals btxs) 0 btxs))
      by apply compact_spec_ix_length.
    assert (Hside : blob_min_square_size (Z.to_N (bd_cur b)) = lay_side thr normals btxs).
    { rewrite (corr_cur _ _ _ _ _ Ht C), N2Z.id. reflexivity. }
    rewrite Hside.
    assert (Hend : bl_nrs st + lenN (bl_shares st) <= lay_side thr normals btxs * lay_side thr normals btxs).
    { rewrite Hlen. replace (bl_nrs st + (bl_cursor st - bl_nrs st)) with (bl_cursor st) by lia.
      rewrite Hcur, (end_cursor_final thr Ht). unfold els. rewrite (sorted_els_blobs thr btxs Hok).
      pose proof (final_cursor_estimate thr normals btxs Ht) as Hfc. fold start in Hfc.
      destruct (blob_min_square_size_spec (estimate thr normals btxs)) as (_ & Hcov & _).
      fold (lay_side thr normals btxs) in Hcov. lia. }
    rewrite (write_square_exact tc pc tc' pc' _ _ (bl_shares st) (bl_nrs st) _ Tx Px).
    + cbn [bind]. eexists. do 2 f_equal. rewrite Hlayout, Hsh, Hnrs. reflexivity.
    + rewrite Htl. exact Tcnt.
    + rewrite Hpfl. exact Pcnt.
    + rewrite Hnrs. exact Hlo.
    + exact Hend.
    + intros Hb. rewrite Hnrs. apply Hnil. rewrite Hsh in Hb.
      destruct els as [|e tl]; [reflexivity|exfalso]. cbn [BlobLayoutProofs.region app] in Hb.
      unfold blob_spec, sparse_spec in Hb. discriminate.
Qed.
