package main

// Histories on ONE live object (builder, compact splitter) whose answers are compared with the
// stateless functions / a twin fed only the effective operations.  Shared by C04, C12, C14, C09, C10.

import (
	"bytes"
	"fmt"
	"strconv"
	"strings"

	square "github.com/celestiaorg/go-square/v2"
	"github.com/celestiaorg/go-square/v2/share"
	"github.com/celestiaorg/go-square/v2/tx"
)

// liveBuilderHistory drives one Builder: appends, a query or export, then an ordinary transaction that
// spills into a new compact share (every blob moves), then queries again with no export in between.
// Every query answer is compared with square.BlobShareRange / TxShareRange over the list accepted so
// far and with a fresh Construct of it; the op list is also sent to the model ("builderops").
func liveBuilderHistory(c *Ctx, r *Rng, s sqCase, site string) {
	b, err := square.NewBuilder(s.max, s.thr)
	if err != nil {
		return
	}
	var ops []string
	var normals, blobtxs [][]byte
	nBlobsOf := map[int]int{}
	appendOne := func(t genTx) {
		if t.blobs == nil {
			ops = append(ops, "t"+hx(t.raw))
			if b.AppendTx(t.raw) {
				normals = append(normals, t.raw)
			}
		} else {
			ops = append(ops, "b"+hx(t.raw))
			bt, isBlob, err := tx.UnmarshalBlobTx(t.raw)
			if !isBlob || err != nil {
				return
			}
			if b.AppendBlobTx(bt) {
				nBlobsOf[len(blobtxs)] = len(t.blobs)
				blobtxs = append(blobtxs, t.raw)
			}
		}
	}
	wit := map[string]any{"case": s.shape()}
	query := func() {
		list := append(append([][]byte{}, normals...), blobtxs...)
		if len(blobtxs) > 0 {
			p := r.Intn(len(blobtxs))
			j := r.Intn(nBlobsOf[p])
			if r.Bool(50) || len(blobtxs) >= 64 {
				// the length alone, BEFORE anything exports (an index built over the unsorted blobs must not
				// survive the sort of the next export)
				ops = append(ops, fmt.Sprintf("l%d/%d", len(normals)+p, j))
				ln0, err0 := b.BlobShareLength(len(normals)+p, j)
				want0, err3 := square.BlobShareRange(list, len(normals)+p, j, s.max, s.thr)
				c.check(err0 == nil && err3 == nil && ln0 == want0.End-want0.Start, site,
					"the live builder's BlobShareLength differs from BlobShareRange over the same transactions", wit)
			}
			ops = append(ops, fmt.Sprintf("s%d/%d", len(normals)+p, j))
			idx, err1 := b.FindBlobStartingIndex(len(normals)+p, j)
			ln, err2 := b.BlobShareLength(len(normals)+p, j)
			want, err3 := square.BlobShareRange(list, len(normals)+p, j, s.max, s.thr)
			c.check(err1 == nil && err2 == nil && err3 == nil && idx == want.Start && idx+ln == want.End, site,
				"the live builder's blob index differs from BlobShareRange over the same transactions (stale layout?)", wit)
			ops = append(ops, "w"+strconv.Itoa(len(normals)+p))
			iw, err4 := b.GetWrappedPFB(len(normals) + p)
			if err4 == nil && err3 == nil && j < len(iw.ShareIndexes) {
				c.check(int(iw.ShareIndexes[j]) == want.Start, site, "GetWrappedPFB carries a share index that is not where the blob is", wit)
			}
		}
		if len(list) > 0 {
			k := r.Intn(len(list))
			ops = append(ops, "r"+strconv.Itoa(k))
			got, err1 := b.FindTxShareRange(k)
			want, err2 := square.TxShareRange(list, k, s.max, s.thr)
			c.check(err1 == nil && err2 == nil && got == want, site, "the live builder's tx range differs from TxShareRange over the same transactions (stale layout?)", wit)
		}
	}
	half := (len(s.txs) + 1) / 2
	for _, t := range s.txs[:half] {
		appendOne(t)
	}
	exportAndCompare := func() {
		ops = append(ops, "x")
		got, err := b.Export()
		list := append(append([][]byte{}, normals...), blobtxs...)
		want, err2 := square.Construct(list, s.max, s.thr)
		c.check(err == nil && err2 == nil && sameSquare(got, want), site, "an intermediate export of the live builder differs from Construct over the transactions accepted so far", wit)
	}
	if r.Bool(50) {
		exportAndCompare()
	} else {
		query()
	}
	// an ordinary transaction that certainly adds at least one compact share
	appendOne(genTx{raw: r.Bytes(500 + r.Intn(1200))})
	query()
	for _, t := range s.txs[half:] {
		appendOne(t)
		if r.Bool(30) {
			query()
		} else if r.Bool(25) {
			exportAndCompare()
		}
	}
	query()
	query()
	ops = append(ops, "x")
	fin, err := b.Export()
	list := append(append([][]byte{}, normals...), blobtxs...)
	want, err2 := square.Construct(list, s.max, s.thr)
	c.check(err == nil && err2 == nil && sameSquare(fin, want), site, "the live builder's final export differs from Construct over the accepted transactions", wit)
	c.add("builderops", strconv.Itoa(s.max), strconv.Itoa(s.thr), strings.Join(ops, ","))
	c.count("live_builder_history")
	c.mark("live " + s.shape() + " | " + histShape(ops))
}

// manyBlobLiveCase: 66-90 one-blob transactions in DESCENDING namespace order with pairwise different share
// counts (the export's sort moves every blob), for histories on one live builder.
func manyBlobLiveCase(r *Rng) sqCase {
	n := 66 + r.Intn(25)
	var l []genTx
	for i := 0; i < n; i++ {
		ns := make([]byte, 29)
		ns[19] = 0x77
		ns[27] = byte((n - i) >> 8)
		ns[28] = byte(n - i)
		b := genBlob{ns: ns, data: r.Bytes(1 + 482*(i%9) + r.Intn(400))}
		bl := []genBlob{b}
		l = append(l, genTx{raw: blobTxWithInner(mockPFB(r.Bytes(mockPFBExtraBytes), []uint32{uint32(len(b.data))}), bl), blobs: bl})
	}
	return sqCase{txs: l, max: 32, thr: 64}
}

// sharedBlobObjectHistory (builder API): the SAME *share.Blob object sits in two blob transactions and twice in
// one of them.  Every (transaction, blob) position is a blob of its own whatever objects the caller reused: the
// exported square must equal Construct over the marshalled transactions, and every index must be recorded.
func sharedBlobObjectHistory(c *Ctx, r *Rng) {
	nss := blobNamespaces(r, 2)
	mk := func(ns []byte, n int) *share.Blob {
		b, err := share.NewBlob(nsOf(ns), r.Bytes(n), 0, nil)
		if err != nil {
			panic("harness: NewBlob: " + err.Error())
		}
		return b
	}
	shared := mk(nss[0], 300+r.Intn(900))
	other := mk(nss[len(nss)-1], 1+r.Intn(400))
	in1, in2 := r.Bytes(40+r.Intn(100)), r.Bytes(40+r.Intn(100))
	t1 := &tx.BlobTx{Tx: in1, Blobs: []*share.Blob{shared}}
	t2 := &tx.BlobTx{Tx: in2, Blobs: []*share.Blob{other, shared, shared}}
	raw1, _ := tx.MarshalBlobTx(in1, shared)
	raw2, _ := tx.MarshalBlobTx(in2, other, shared, shared)
	wit := map[string]any{"history": "one *share.Blob object in tx 0 and twice in tx 1, appended through AppendBlobTx"}
	c.guard("Builder (shared blob object)", wit, func() {
		b, err := square.NewBuilder(8, 64)
		if err != nil || !b.AppendBlobTx(t1) || !b.AppendBlobTx(t2) {
			c.check(false, "Builder (shared blob object)", "append refused", wit)
			return
		}
		got, err := b.Export()
		want, err2 := square.Construct([][]byte{raw1, raw2}, 8, 64)
		c.check(err == nil && err2 == nil && sameSquare(got, want), "Builder (shared blob object)", "export differs from Construct over the same transactions", wit)
		for _, q := range [][2]int{{0, 0}, {1, 0}, {1, 1}, {1, 2}} {
			idx, err := b.FindBlobStartingIndex(q[0], q[1])
			rg, err2 := square.BlobShareRange([][]byte{raw1, raw2}, q[0], q[1], 8, 64)
			c.check(err == nil && err2 == nil && idx == rg.Start, "Builder (shared blob object)", "recorded index differs from BlobShareRange", wit)
		}
	})
	c.count("shared_blob_object")
	c.goOnly++
}

// boundaryExportHistories: write / export histories of a compact splitter in which an export happens
// with a partially filled pending share, later writes end EXACTLY on a share boundary, an export follows
// at once, and writing resumes - plus the orders obtained by rotating the three situations.
func boundaryExportHistories(r *Rng) [][]string {
	var out [][]string
	mk := func(n int) string { return "w" + hx(r.Bytes(n)) }
	for variant := 0; variant < 6; variant++ {
		small := 1 + r.Intn(120)
		dl := small + len(uvarint(uint64(small)))
		k := r.Intn(3) // boundary after 1..3 shares
		fill := alignedTxLen(dl, 474+478*k-dl-2, 0)
		last := 1 + r.Intn(200)
		var h []string
		switch variant % 3 {
		case 0:
			h = []string{mk(small), "e", mk(fill), "e", mk(last), "e"}
		case 1:
			h = []string{mk(small), "e", "c", mk(fill), "e", "e", mk(last), "c", mk(last), "e"}
		default:
			// boundary first, then a partial export, then the boundary again
			f0 := alignedTxLen(0, 474+478*k-2, 0)
			f1 := alignedTxLen(0, 478*(1+r.Intn(2))-3, 0) // a whole number of continuation shares
			h = []string{mk(f0), "e", mk(small), "e", mk(alignedTxLen(dl, f1, 0)), "e", mk(last), "e"}
		}
		out = append(out, h)
	}
	return out
}

// runSplitterHistory executes a write/export/count history on a real splitter and on a twin fed only the
// writes, and compares the final exports (bytes), the parse result and the independent encoder.
func runSplitterHistory(c *Ctx, ns []byte, ops []string, site string) {
	a := share.NewCompactShareSplitter(nsOf(ns), 0)
	var txs [][]byte
	for _, op := range ops {
		switch op[0] {
		case 'w':
			t := unhx(op[1:])
			txs = append(txs, t)
			_ = a.WriteTx(t)
		case 'e':
			_, _ = a.Export()
		case 'c':
			_ = a.Count()
		}
	}
	fin, err := a.Export()
	wit := map[string]any{"history": histShape(ops), "tx_lens": lensOf(txs)}
	ref, _ := refCompact(ns, txs)
	c.check(err == nil && eqShares(ref, fin), site, "final export after a write/export history differs from the specified encoding of the written transactions", wit)
	parsed, perr := share.ParseTxs(fin)
	same := perr == nil && len(parsed) == len(txs)
	if same {
		for j := range txs {
			same = same && bytes.Equal(parsed[j], txs[j])
		}
	}
	c.check(same, site, "transactions written through a write/export history do not parse back", wit)
	c.add("compact", hx(ns), "0", strings.Join(ops, ","))
	c.count("boundary_export_history")
	c.mark("history " + histShape(ops))
}
