(* C13 on the regenerated code: the GoLite translation of share.CompactShareCounter.Add / Revert
   (Gen/Generated.v, printed from share/counter.go on every run) computes what Model/Counter.v says,
   for single calls and for whole Add/Revert histories.  Statements only. *)
From Coq Require Import Lia ZArith List String.
From GS.Model Require Import Base Varint Counter GoLite.
From GS.Gen Require Import Generated.
From GS.GenProofs Require Import GenLink GenCounterProofs.
Open Scope string_scope. Open Scope Z_scope.

(* one Add: results = [diff] followed by the receiver's fields after the call.
   c.lastShares / c.lastRemainder are overwritten and may be arbitrary. *)
Theorem gen_counter_add : forall fuel c dataLen,
  (2 <= fuel)%nat ->
  - 2^62 <= c_shares c < 2^62 -> - 2^61 <= c_rem c < 2^61 -> 0 <= dataLen < 2^62 ->
  gen_call fuel "share.CompactShareCounter.Add" I64
    [c_last_shares c; c_last_rem c; c_shares c; c_rem c; dataLen]
  = let '(c', diff) := counter_add c dataLen in
    Val [diff; c_last_shares c'; c_last_rem c'; c_shares c'; c_rem c'].
Proof. exact gen_counter_add_lemma. Qed.
Print Assumptions gen_counter_add.

(* one Revert: no range condition *)
Theorem gen_counter_revert : forall fuel ls lr s r,
  (1 <= fuel)%nat ->
  gen_call fuel "share.CompactShareCounter.Revert" I64 [ls; lr; s; r] = Val [ls; lr; ls; lr].
Proof. exact gen_counter_revert_lemma. Qed.
Print Assumptions gen_counter_revert.

(* histories (Some n = Add(n), None = Revert()): the translated methods, threaded through the
   receiver's fields, return the same diffs and end in the same receiver as the model, whenever
   the model-side state is in range at every Add *)
Theorem gen_counter_history : forall fuel, (2 <= fuel)%nat -> forall ops c,
  counter_run_in_range c ops ->
  gen_counter_run fuel c ops = Val (counter_run c ops).
Proof. exact gen_counter_history_lemma. Qed.
Print Assumptions gen_counter_history.

(* sufficient: a well-formed receiver, non-negative lengths, and the bytes counted so far plus
   the sum of (length + 14) over the Adds below 2^61 *)
Theorem gen_counter_history_sum : forall fuel c ops, (2 <= fuel)%nat ->
  ops_nonneg ops -> counter_wf c -> counter_bytes c + ops_weight ops < 2^61 ->
  gen_counter_run fuel c ops = Val (counter_run c ops).
Proof. exact gen_counter_history_sum_lemma. Qed.
Print Assumptions gen_counter_history_sum.

Theorem gen_counter_history_new : forall fuel ops, (2 <= fuel)%nat ->
  ops_nonneg ops -> ops_weight ops < 2^61 ->
  gen_counter_run fuel new_counter ops = Val (counter_run new_counter ops).
Proof. exact gen_counter_history_new_lemma. Qed.
Print Assumptions gen_counter_history_new.

Theorem gen_counter_run_in_range_suff : forall ops, ops_nonneg ops -> forall c,
  counter_wf c -> counter_bytes c + ops_weight ops < 2^61 -> counter_run_in_range c ops.
Proof. exact counter_run_in_range_suff. Qed.
Print Assumptions gen_counter_run_in_range_suff.

(* ---- concrete instances ---- *)
(* first share almost full (470 of 474), 1000 bytes + 2 delimiter bytes: 3 more shares, 42 bytes in the last *)
Example gen_counter_add_ex1 :
  gen_call 2 "share.CompactShareCounter.Add" I64 [7; 7; 0; 470; 1000] = Val [3; 0; 470; 3; 42].
Proof. vm_compute. reflexivity. Qed.
Example gen_counter_add_ex1_model :
  counter_add (mk_counter 7 7 0 470) 1000 = (mk_counter 0 470 3 42, 3).
Proof. vm_compute. reflexivity. Qed.
(* exact fill of a continuation share: remainder returns to 0, diff 0 *)
Example gen_counter_add_ex2 :
  gen_call 2 "share.CompactShareCounter.Add" I64 [0; 0; 3; 400; 77] = Val [0; 3; 400; 4; 0].
Proof. vm_compute. reflexivity. Qed.
(* a length near the top of the range *)
Example gen_counter_add_ex3 :
  gen_call 2 "share.CompactShareCounter.Add" I64 [0; 0; 0; 0; 2^62 - 1]
  = let '(c', diff) := counter_add new_counter (2^62 - 1) in
    Val [diff; c_last_shares c'; c_last_rem c'; c_shares c'; c_rem c'].
Proof. vm_compute. reflexivity. Qed.
(* not enough fuel is never a value *)
Example gen_counter_add_fuel1 :
  gen_call 1 "share.CompactShareCounter.Add" I64 [0; 0; 0; 0; 5] = Fuel.
Proof. vm_compute. reflexivity. Qed.

(* a history with reverts, from the empty counter *)
Example gen_counter_history_ex :
  gen_counter_run 2 new_counter [Some 470; None; Some 100; Some 372; None; None; Some 5000; Some 0]
  = Val (mk_counter 10 327 10 328, [1; 1; 1; 10; 0]).
Proof. vm_compute. reflexivity. Qed.
Example gen_counter_history_ex_hyps :
  ops_nonneg [Some 470; None; Some 100; Some 372; None; None; Some 5000; Some 0] /\
  ops_weight [Some 470; None; Some 100; Some 372; None; None; Some 5000; Some 0] < 2^61.
Proof. split; [repeat constructor; lia | vm_compute; reflexivity]. Qed.

(* outside the range: a negative length.  Go converts it to a uint64 (ten delimiter bytes),
   the model's delim_len (Z.to_N dataLen) sees 0 (one byte): the two differ, which is why
   0 <= dataLen is a hypothesis.  No caller passes a negative length (len(tx)). *)
Example gen_counter_add_negative_len :
  gen_call 2 "share.CompactShareCounter.Add" I64 [0; 0; 0; 0; -1] = Val [1; 0; 0; 0; 9] /\
  counter_add new_counter (-1) = (mk_counter 0 0 0 0, 0).
Proof. split; vm_compute; reflexivity. Qed.
