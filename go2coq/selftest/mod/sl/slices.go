// Package sl: functions with integer slices, inside the fragment that go2coq translates to the GoLiteL
// embedding (coq/Model/GoLiteL.v).  bin/go2coqtest names them in GO2COQ_SELECT_L, runs them in Go
// (../main.go) and in Coq (vm_compute of callfl) on the same arguments and compares the results.
// Loop bounds are masked (n&15 ...) because the driver's value pools hold huge numbers.
package sl

import (
	"errors"

	"t/fn"
	"t/sub"
)

// ---- append loops

func Iota(n int) []int {
	var xs []int
	for i := 0; i < n&15; i++ {
		xs = append(xs, i)
	}
	return xs
}

func Squares(n int) ([]uint64, int) {
	var xs []uint64
	k := uint64(n & 7)
	for k > 0 {
		xs = append(xs, k*k*uint64(n))
		k--
	}
	return xs, len(xs)
}

func U8Wrap(xs []uint8) []uint8 {
	var ys []uint8
	for _, v := range xs {
		ys = append(ys, v*2+1)
	}
	return ys
}

// ---- make + indexed stores

func MakeFill(n int, v uint32) []uint32 {
	xs := make([]uint32, n&15)
	for i := 0; i < len(xs); i++ {
		xs[i] = v + uint32(i)
	}
	return xs
}

// n%8 is negative for a negative n: make panics
func MakeNeg(n int) []int {
	xs := make([]int, n%8)
	return xs
}

func StoreAt(n, i, v int) []int {
	xs := make([]int, n&7)
	xs[i] = v
	return xs
}

// the store is checked after the right-hand side is evaluated; both failures are panics
func StoreThenDiv(i, d int) []int {
	xs := make([]int, 3)
	xs[i] = 10 / d
	return xs
}

func Reverse(xs []uint32) []uint32 {
	ys := make([]uint32, len(xs))
	for i := 0; i < len(xs); i++ {
		ys[len(xs)-1-i] = xs[i]
	}
	return ys
}

func OpAssignIdx(xs []int) []int {
	ys := make([]int, len(xs))
	for i, v := range xs {
		ys[i] += v
		ys[i]++
		ys[i] <<= 1
		ys[i] -= int(i)
	}
	return ys
}

func VarDeclMake(n int) ([]uint64, int) {
	var xs = make([]uint64, n&3)
	var ys []uint64
	for i := range xs {
		xs[i] = uint64(n) >> uint(i)
	}
	return xs, len(ys)
}

// ---- range forms

func Sum(xs []int) int {
	s := 0
	for _, v := range xs {
		s += v
	}
	return s
}

func SumIdx(xs []int) int {
	s := 0
	for i := range xs {
		s += i * xs[i]
	}
	return s
}

func Dot(xs, ys []int) int {
	s := 0
	for i, v := range xs {
		if i < len(ys) {
			s += v * ys[i]
		}
	}
	return s
}

func RangeNoVars(xs []int) int {
	n := 0
	for range xs {
		n += 2
	}
	return n
}

// the ranged slice is read once: the appends inside the loop do not make it longer
func RangeKeyGrow(n int) []int {
	xs := make([]int, n&7)
	for i := range xs {
		xs[i] = i + 1
		xs = append(xs, 100+i)
	}
	return xs
}

func NestedRange(xs, ys []int) int {
	s := 0
	for i, x := range xs {
		for j, y := range ys {
			if x < y {
				s += i - j
			}
		}
	}
	return s
}

func EarlyReturn(xs []int, t int) int {
	for i, v := range xs {
		if v == t {
			return i
		}
	}
	return -1
}

func SwitchInRange(xs []int) []int {
	var ys []int
	for i, v := range xs {
		switch {
		case v < 0:
			ys = append(ys, -1)
		case v == 0:
		case v > 1000 && i > 0:
			ys = append(ys, i)
		default:
			ys = append(ys, v%7)
		}
	}
	return ys
}

func CountWhere(xs []int, t int) (n int) {
	for _, v := range xs {
		if v > t {
			n++
		}
	}
	return
}

// ---- len, index, panics

func Len2(xs, ys []uint8) int { return len(xs)*10 + len(ys) }

func At(xs []int, i int) int { return xs[i] }

func AtU8(xs []uint8, i uint8) uint8 { return xs[i] + 1 }

func AtConst(xs []uint64) uint64 { return xs[2] - xs[0] }

// ---- variadic parameters, named slice results, nil

func Variadic(base int, xs ...int) (int, []int) {
	sums := make([]int, len(xs))
	for i, v := range xs {
		base += v
		sums[i] = base
	}
	return base, sums
}

func NamedSlice(n int) (out []int, err error) {
	if n&1 == 1 {
		err = errors.New("odd")
		return
	}
	out = append(out, n)
	out = append(out, len(out))
	return
}

func NilReturn(xs []int) ([]int, error) {
	if len(xs) == 0 {
		return nil, errors.New("empty")
	}
	var ys []int
	ys = nil
	for _, v := range xs {
		ys = append(ys, v)
	}
	return ys, nil
}

// ---- calls: into scalar functions (GoLite), between slice functions (GoLiteL)

func CallScalar(xs []int) []int {
	var ys []int
	for _, v := range xs {
		q, r := fn.DivMod(v, 7)
		ys = append(ys, fn.SubI(q, r))
		ys = append(ys, sub.Twice(fn.AbsClamp(v)))
	}
	return ys
}

// fn.QuoI panics for d = 0
func CallScalarPanics(xs []int, d int) int {
	s := 0
	for _, v := range xs {
		s += fn.QuoI(v, d)
	}
	return s
}

func CallSlice(n int) int {
	xs := Iota(n)
	ys := Iota(n + 1)
	return Sum(xs) + Dot(xs, ys)
}

func CallTwoRes(n int) (int, int) {
	ys, k := Squares(n)
	var zs []uint64
	zs, _ = Squares(n + 1)
	return len(ys) + len(zs), k
}

func ReturnCall(n int) []int { return Iota(n + 2) }

func ReturnCallMulti(n int) ([]uint64, int) { return Squares(n + 3) }

func PassParam(xs []int, t int) int { return CountWhere(xs, t) + EarlyReturn(xs, t) }

func ShadowSlice(xs []int) int {
	s := len(xs)
	{
		xs := Iota(3)
		s += len(xs) * 100
		if s > 0 {
			xs := Iota(5)
			s += xs[4]
		}
	}
	return s + len(xs)
}
