(* C19, JSON half - Blob, share and namespace JSON serialisations round-trip; blob construction
   from JSON accepts exactly the combinations NewBlobFromProto accepts on the decoded fields.
   Statements only.  Model/Json.v models encoding/json + encoding/base64 for the three types on
   the subset of texts documented there (json_in_subset); the model is compared with the Go
   code by the harness generator C19J (exact bytes of json.Marshal, outcome of json.Unmarshal). *)
From Coq Require Import List NArith.
From GS.Model Require Import Base Varint Namespace ShareFmt Blob Proto Json.
From GS.Proofs Require Import NamespaceProofs ProtoProofs JsonProofs.
Import ListNotations.
Open Scope N_scope.

(* ---- base64 (encoding/base64.StdEncoding) ---- *)
Theorem C19_base64_round_trip : forall b, base64_decode (base64_encode b) = Some b.
Proof. exact base64_decode_encode. Qed.
Print Assumptions C19_base64_round_trip.

(* the encoder emits four characters for every (started) group of three bytes ... *)
Theorem C19_base64_length : forall b, length (base64_encode b) = (4 * ((length b + 2) / 3))%nat.
Proof. exact base64_encode_length. Qed.
Print Assumptions C19_base64_length.

(* ... all of them in the base64 alphabet or '=', hence bytes that need no JSON escape *)
Theorem C19_base64_alphabet : forall b,
  forallb b64_out (base64_encode b) = true /\ forallb is_plain (base64_encode b) = true.
Proof. intros b. split; [apply base64_encode_alphabet|apply base64_encode_plain]. Qed.
Print Assumptions C19_base64_alphabet.

(* ---- decimal numbers ---- *)
Theorem C19_decimal_round_trip : forall n, n < 4294967296 ->
  json_number_ok (print_dec n) = true /\ parse_u32 (print_dec n) = Some n.
Proof. intros n H. split; [apply print_dec_number_ok|apply parse_u32_print_dec, H]. Qed.
Print Assumptions C19_decimal_round_trip.

(* ---- the text layer: lexing and parsing a rendered value gives the value back ---- *)
Theorem C19_json_value_round_trip : forall v, wf_value v ->
  json_in_subset (render_value v) = true /\ json_value (render_value v) = Some v.
Proof. intros v H. split; [apply render_value_in_subset, H|apply json_value_render, H]. Qed.
Print Assumptions C19_json_value_round_trip.

(* ---- BlobProto through json.Marshal / json.Unmarshal ---- *)
Theorem C19_blob_proto_json_round_trip : forall p,
  bp_share_version p < 4294967296 -> bp_ns_version p < 4294967296 ->
  json_fields (marshal_blob_proto_json p) = Ok (mk_jbf p (signer_flag p)).
Proof. exact json_fields_round_trip. Qed.
Print Assumptions C19_blob_proto_json_round_trip.

(* ---- Blob.MarshalJSON / Blob.UnmarshalJSON (share version 0 without signer: the member is
   omitted and decodes to nil; share version 1: the 20 signer bytes) ---- *)
Theorem C19_blob_json_round_trip : forall b, blob_wire_ok b ->
  json_in_subset (marshal_blob_json b) = true /\ unmarshal_blob_json (marshal_blob_json b) = Ok b.
Proof. intros b H. split; [apply marshal_blob_json_in_subset|apply blob_json_round_trip, H]. Qed.
Print Assumptions C19_blob_json_round_trip.

(* ---- shares and namespaces ---- *)
Theorem C19_share_json_round_trip : forall s, length s = share_size ->
  unmarshal_share_json (marshal_share_json s) = Ok s.
Proof. exact share_json_round_trip. Qed.
Print Assumptions C19_share_json_round_trip.

Theorem C19_namespace_json_round_trip : forall n, new_namespace_from_bytes n = Ok n ->
  unmarshal_namespace_json (marshal_namespace_json n) = Ok n.
Proof. exact namespace_json_round_trip. Qed.
Print Assumptions C19_namespace_json_round_trip.

(* any byte string, nil included (null), survives the JSON string encoding *)
Theorem C19_bytes_json_round_trip : forall b,
  json_in_subset (marshal_bytes_json b) = true /\ json_bytes (marshal_bytes_json b) = Ok b.
Proof. intros b. split; [apply marshal_bytes_json_in_subset|apply json_bytes_round_trip]. Qed.
Print Assumptions C19_bytes_json_round_trip.

(* ---- acceptance through JSON ----
   Blob.UnmarshalJSON accepts a text exactly when the text decodes to BlobProto fields that
   NewBlobFromProto accepts, with one difference from the protobuf path: a signer given as the
   empty string is an empty NON-NIL slice and is rejected for every share version. *)
Theorem C19_blob_from_json_acceptance : forall j b,
  unmarshal_blob_json j = Ok b <->
  exists st, json_fields j = Ok st /\
             (jbf_signer_nonnil st = true -> bp_signer (jbf_proto st) <> []) /\
             new_blob_from_proto (jbf_proto st) = Ok b.
Proof. exact unmarshal_blob_json_ok_iff. Qed.
Print Assumptions C19_blob_from_json_acceptance.

(* with NewBlobFromProto's acceptance spelled out (C19_new_blob_from_proto_acceptance) *)
Theorem C19_blob_from_json_acceptance_explicit : forall j b,
  unmarshal_blob_json j = Ok b <->
  exists st, json_fields j = Ok st /\
    let p := jbf_proto st in
    let signer := match bp_signer p with [] => None | s => Some s end in
    let ns := n2b (bp_ns_version p) :: bp_ns_id p in
    (jbf_signer_nonnil st = true -> bp_signer p <> []) /\
    bp_ns_version p <= 255 /\ bp_share_version p <= 127 /\ wellformed_ns (bp_ns_version p) (bp_ns_id p) /\
    blob_acceptable ns (bp_data p) (bp_share_version p) signer /\
    b = mk_blob ns (bp_data p) (bp_share_version p) signer.
Proof. exact unmarshal_blob_json_acceptance. Qed.
Print Assumptions C19_blob_from_json_acceptance_explicit.

(* ---- non-vacuity ---- *)
Definition ex_id : bytes :=
  [Byte.x00;Byte.x00;Byte.x00;Byte.x00;Byte.x00;Byte.x00;Byte.x00;Byte.x00;Byte.x00;
   Byte.x00;Byte.x00;Byte.x00;Byte.x00;Byte.x00;Byte.x00;Byte.x00;Byte.x00;Byte.x00;
   Byte.x01;Byte.x02;Byte.x03;Byte.x04;Byte.x05;Byte.x06;Byte.x07;Byte.x08;Byte.x09;Byte.x0a].
Definition ex_signer : bytes :=
  [Byte.x11;Byte.x12;Byte.x13;Byte.x14;Byte.x15;Byte.x16;Byte.x17;Byte.x18;Byte.x19;Byte.x1a;
   Byte.x1b;Byte.x1c;Byte.x1d;Byte.x1e;Byte.x1f;Byte.x20;Byte.x21;Byte.x22;Byte.x23;Byte.x24].
Definition ex_blob0 : blob := mk_blob (Byte.x00 :: ex_id) [Byte.x01; Byte.x02; Byte.x03; Byte.xff] 0 None.
Definition ex_blob1 : blob := mk_blob (Byte.x00 :: ex_id) [Byte.x01; Byte.x02; Byte.x03; Byte.xff; Byte.x80] 1 (Some ex_signer).

Example C19_json_example_v0 : blob_wire_ok ex_blob0 /\
  marshal_blob_json ex_blob0 =
    render_value (JObject [(k_namespace_id, JStr (base64_encode ex_id));
                           (k_data, JStr ["A";"Q";"I";"D";"/";"w";"=";"="]%byte)]) /\
  unmarshal_blob_json (marshal_blob_json ex_blob0) = Ok ex_blob0.
Proof.
  split; [|split; vm_compute; reflexivity].
  split; [exists Byte.x00, ex_id; split; [reflexivity|split; [reflexivity|left; split; reflexivity]]|].
  split; [|vm_compute; reflexivity].
  split; [discriminate|]. split; [discriminate|]. split; [reflexivity|]. left. split; reflexivity.
Qed.

Example C19_json_example_v1 : blob_wire_ok ex_blob1 /\
  unmarshal_blob_json (marshal_blob_json ex_blob1) = Ok ex_blob1.
Proof.
  split; [|vm_compute; reflexivity].
  split; [exists Byte.x00, ex_id; split; [reflexivity|split; [reflexivity|left; split; reflexivity]]|].
  split; [|vm_compute; reflexivity].
  split; [discriminate|]. split; [discriminate|]. split; [reflexivity|].
  right. split; [reflexivity|]. exists ex_signer. split; reflexivity.
Qed.

(* nil versus empty signer, share version 0: no member and "signer":null are accepted (nil);
   "signer":"" is an empty non-nil slice and is rejected.  The members are given in a
   different order than MarshalJSON emits, with an unknown member and a key in upper case. *)
Definition ex_text (signer : list (bytes * jscalar)) : bytes :=
  render_value (JObject ([(["x"]%byte, JNum ["1";".";"5";"e";"3"]%byte);
                          (["D";"A";"T";"A"]%byte, JStr ["A";"Q";"I";"D";"/";"w";"=";"="]%byte)]
                         ++ signer ++ [(k_namespace_id, JStr (base64_encode ex_id))])).

Example C19_json_signer_absent : unmarshal_blob_json (ex_text []) = Ok ex_blob0.
Proof. vm_compute. reflexivity. Qed.
Example C19_json_signer_null : unmarshal_blob_json (ex_text [(k_signer, JNull)]) = Ok ex_blob0.
Proof. vm_compute. reflexivity. Qed.
Example C19_json_signer_empty_string :
  json_in_subset (ex_text [(k_signer, JStr [])]) = true /\
  unmarshal_blob_json (ex_text [(k_signer, JStr [])]) = Err /\
  (* while the protobuf constructor on the same field values accepts *)
  new_blob_from_proto (mk_bp ex_id [Byte.x01; Byte.x02; Byte.x03; Byte.xff] 0 0 []) = Ok ex_blob0.
Proof. repeat split; vm_compute; reflexivity. Qed.

(* a share and a reserved namespace *)
Example C19_json_share_example :
  unmarshal_share_json (marshal_share_json (repeat Byte.x2a 512)) = Ok (repeat Byte.x2a 512).
Proof. apply share_json_round_trip. apply repeat_length. Qed.
Example C19_json_namespace_example :
  new_namespace_from_bytes tail_padding_ns = Ok tail_padding_ns /\
  unmarshal_namespace_json (marshal_namespace_json tail_padding_ns) = Ok tail_padding_ns.
Proof. split; vm_compute; reflexivity. Qed.
