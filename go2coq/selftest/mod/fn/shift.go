package fn

// ---- shifts: counts 0, 1, 63, 64, 65, 200 and negative counts (a run-time panic), signed and
// unsigned.  The driver gives these functions small counts only: a count like 1<<40 is fine for Go
// but 2^(2^40) cannot be computed by the reference semantics.

func ShlI(x int, s int) int           { return x << s }
func ShrI(x int, s int) int           { return x >> s }
func ShlI64U(x int64, s uint64) int64 { return x << s }
func ShrI64U(x int64, s uint) int64   { return x >> s }
func ShlU64(x uint64, s int) uint64   { return x << s }
func ShrU64(x uint64, s int64) uint64 { return x >> s }
func ShlU32(x uint32, s uint8) uint32 { return x << s }
func ShrU32(x uint32, s int) uint32   { return x >> s }
func ShlU8(x uint8, s uint32) uint8   { return x << s }
func ShrU8(x uint8, s int) uint8      { return x >> s }
func ShiftConstCounts(x int, u uint64) (int, int, int, int, uint64, uint64, uint64) {
	return x << 0, x << 63, x << 64, x >> 200, u << 65, u >> 63, u >> 64
}
func ShiftAssign(x int, u uint32, s int) (int, uint32) {
	x <<= s
	x >>= 1
	u >>= s
	u <<= 3
	return x, u
}

// an untyped constant on the left of a non-constant shift takes its type from the context
func ShlUntypedI(s uint) int        { return 1 << s }
func ShlUntypedU8(s uint) uint8     { var r uint8 = 1 << s; return r + 0 }
func ShlUntypedConv(s uint) uint64  { return uint64(1<<s) - 1 }
func ShlUntypedCmp(s uint) bool     { return 1<<s > 1000 }
func ShlUntypedU32(s int) uint32    { return uint32(3) << s >> 1 }
func ShiftMix(x int64, s int) uint8 { return uint8(x>>s) << 1 }
