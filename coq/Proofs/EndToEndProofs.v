(* End-to-end statements about the CODE MODEL (construct / build of Model/Builder.v,
   deconstruct / parse_shares / wrapped_pfbs of Model/Square.v, tx_share_range /
   blob_share_range), obtained by composing the C07 refinement
       construct = layout_construct,  build = layout_build      (RefinementProofs3.v)
   with the theorems proved about the rule-based layout (LayoutShapeProofs, TilingProofs,
   DeconstructProofs, TxRangeProofs, BlobLayoutProofs, SortProofs ...).

   Common hypotheses H(raws, max, thr):
       1 <= thr,  max <= 1024,  c07_raws_ok raws
   (every blob of every blob transaction of raws that decodes is a blob as NewBlob accepts
   it, in a namespace ValidateForBlob accepts, data + signer below 4 GiB).  Under H the
   condition [Forall lay_btx_ok btxs] of the spec-side theorems holds of the blob
   transactions Construct / Build keep (split_ordered_c07, keep_c07), so it disappears
   from the end-to-end statements. *)
From Coq Require Import List Arith NArith ZArith Lia Bool Sorted Permutation.
From Coq Require Import ZifyN ZifyNat ZifyBool.
From GS.Model Require Import Base Varint Namespace ShareFmt Blob Sparse Compact Counter Arith Proto Builder Square.
From GS.Spec Require Import ShareSpec CompactSpec LayoutSpec.
From GS.Proofs Require Import BaseLemmas VarintProofs SparseProofs ArithProofs CounterProofs NamespaceProofs
  RangeProofs ProtoProofs CompactParseProofs CompactWriterProofs AccountingProofs BlobLayoutProofs
  SubrangeProofs TxRangeProofs LayoutShapeProofs TilingProofs DeconstructProofs
  RefinementProofs1 RefinementProofs2 RefinementProofs3.
From GS.Proofs Require BuildProofs.
Import ListNotations.
Open Scope N_scope.

(* ================================================================== *)
(* 0. Bridging: what an Ok result of Construct / Build is              *)
(* ================================================================== *)

Lemma c07_btxs_snoc btxs t : Forall c07_btx_ok btxs -> c07_btx_ok t -> Forall c07_btx_ok (btxs ++ [t]).
Proof. intros H Ht. apply Forall_app. split; [exact H|]. constructor; [exact Ht|constructor]. Qed.

(* the blob transactions Construct collects are acceptable ones *)
Lemma split_ordered_c07 : forall raws seen normals btxs n' b',
  c07_raws_ok raws -> Forall c07_btx_ok btxs ->
  split_ordered seen raws normals btxs = Some (n', b') -> Forall c07_btx_ok b'.
Proof.
  induction raws as [|r tl IH]; intros seen normals btxs n' b' Hraws Hb H; cbn [split_ordered] in H.
  - injection H as _ <-. exact Hb.
  - apply Forall_cons_iff in Hraws as [Hr Hraws]. unfold classify in H.
    destruct (unmarshal_blob_tx r) as [| |t] eqn:Eu; [| discriminate |].
    + destruct seen; [discriminate|]. exact (IH _ _ _ _ _ Hraws Hb H).
    + apply (IH _ _ _ _ _ Hraws (c07_btxs_snoc _ _ Hb (Hr t Eu)) H).
Qed.

(* ... and so are the ones Build keeps *)
Lemma keep_c07 cap thr : forall raws normals btxs kn kb n' b' kept,
  c07_raws_ok raws -> Forall c07_btx_ok btxs ->
  keep cap thr raws normals btxs kn kb = Some (n', b', kept) -> Forall c07_btx_ok b'.
Proof.
  induction raws as [|r tl IH]; intros normals btxs kn kb n' b' kept Hraws Hb H; cbn [keep] in H.
  - injection H as _ <- _. exact Hb.
  - apply Forall_cons_iff in Hraws as [Hr Hraws]. unfold classify in H.
    destruct (unmarshal_blob_tx r) as [| |t] eqn:Eu; [| discriminate |].
    + destruct (estimate thr (normals ++ [r]) btxs <=? cap); exact (IH _ _ _ _ _ _ _ Hraws Hb H).
    + destruct (estimate thr normals (btxs ++ [t]) <=? cap).
      * exact (IH _ _ _ _ _ _ _ Hraws (c07_btxs_snoc _ _ Hb (Hr t Eu)) H).
      * exact (IH _ _ _ _ _ _ _ Hraws Hb H).
Qed.

(* Build only fails on a blob transaction that does not decode *)
Lemma keep_some cap thr : forall raws normals btxs kn kb,
  Forall (fun r => unmarshal_blob_tx r <> UbtErr) raws ->
  exists x, keep cap thr raws normals btxs kn kb = Some x.
Proof.
  induction raws as [|r tl IH]; intros normals btxs kn kb H; cbn [keep].
  - eexists. reflexivity.
  - apply Forall_cons_iff in H as [Hr H]. unfold classify.
    destruct (unmarshal_blob_tx r) as [| |t]; [| congruence |].
    + destruct (estimate thr (normals ++ [r]) btxs <=? cap); apply IH, H.
    + destruct (estimate thr normals (btxs ++ [t]) <=? cap); apply IH, H.
Qed.

Lemma keep_some_inv cap thr : forall raws normals btxs kn kb x,
  keep cap thr raws normals btxs kn kb = Some x -> Forall (fun r => unmarshal_blob_tx r <> UbtErr) raws.
Proof.
  induction raws as [|r tl IH]; intros normals btxs kn kb x H; [constructor|].
  cbn [keep] in H. unfold classify in H. destruct (unmarshal_blob_tx r) as [| |t] eqn:Eu; [| discriminate |].
  - constructor; [congruence|]. destruct (estimate thr (normals ++ [r]) btxs <=? cap); exact (IH _ _ _ _ _ H).
  - constructor; [congruence|]. destruct (estimate thr normals (btxs ++ [t]) <=? cap); exact (IH _ _ _ _ _ H).
Qed.

Lemma keep_none cap thr : forall raws normals btxs kn kb,
  keep cap thr raws normals btxs kn kb = None -> Exists (fun r => unmarshal_blob_tx r = UbtErr) raws.
Proof.
  induction raws as [|r tl IH]; intros normals btxs kn kb H; cbn [keep] in H; [discriminate|].
  unfold classify in H. destruct (unmarshal_blob_tx r) as [| |t] eqn:Eu.
  - right. destruct (estimate thr (normals ++ [r]) btxs <=? cap); exact (IH _ _ _ _ H).
  - left. exact Eu.
  - right. destruct (estimate thr normals (btxs ++ [t]) <=? cap); exact (IH _ _ _ _ H).
Qed.

(* Construct returned a square: it is the layout of the two lists the input splits into *)
Theorem construct_ok_inv raws max thr sq : 1 <= thr -> (max <= 1024)%Z -> c07_raws_ok raws ->
  construct raws max thr = Ok sq ->
  exists normals btxs,
    split_ordered false raws [] [] = Some (normals, btxs) /\ sq = layout thr normals btxs /\
    Forall c07_btx_ok btxs /\ new_builder_ok max = true /\
    estimate thr normals btxs <= Z.to_N max * Z.to_N max /\ estimate thr normals btxs < 2097152.
Proof.
  intros Ht Hmax Hraws H. rewrite (construct_eq_layout raws max thr Ht Hmax Hraws) in H.
  unfold layout_construct in H. fold (new_builder_ok max) in H.
  destruct (new_builder_ok max) eqn:Ecfg; cbn [negb] in H; [|discriminate].
  destruct (split_ordered false raws [] []) as [[normals btxs]|] eqn:Es; [|discriminate].
  destruct (estimate thr normals btxs <=? Z.to_N max * Z.to_N max) eqn:Ee; [|discriminate].
  injection H as <-. exists normals, btxs.
  split; [reflexivity|]. split; [reflexivity|].
  split; [exact (split_ordered_c07 _ _ _ _ _ _ Hraws (Forall_nil _) Es)|]. split; [reflexivity|].
  pose proof (max_side_small max Hmax). split; lia.
Qed.

Theorem build_ok_inv raws max thr sq kept : 1 <= thr -> (max <= 1024)%Z -> c07_raws_ok raws ->
  build raws max thr = Ok (sq, kept) ->
  exists normals btxs,
    keep (Z.to_N max * Z.to_N max) thr raws [] [] [] [] = Some (normals, btxs, kept) /\
    sq = layout thr normals btxs /\
    Forall c07_btx_ok btxs /\ new_builder_ok max = true /\
    estimate thr normals btxs <= Z.to_N max * Z.to_N max /\ estimate thr normals btxs < 2097152.
Proof.
  intros Ht Hmax Hraws H. rewrite (build_eq_layout raws max thr Ht Hmax Hraws) in H.
  unfold layout_build in H. fold (new_builder_ok max) in H.
  destruct (new_builder_ok max) eqn:Ecfg; cbn [negb] in H; [|discriminate].
  destruct (keep (Z.to_N max * Z.to_N max) thr raws [] [] [] []) as [[[normals btxs] kept']|] eqn:Ek; [|discriminate].
  injection H as <- <-. exists normals, btxs.
  split; [reflexivity|]. split; [reflexivity|].
  split; [exact (keep_c07 _ _ _ _ _ _ _ _ _ _ Hraws (Forall_nil _) Ek)|]. split; [reflexivity|].
  assert (Hfit : estimate thr normals btxs <= Z.to_N max * Z.to_N max).
  { apply (keep_estimate _ _ _ _ _ _ _ _ _ _ Ek). change (estimate thr [] []) with 0. lia. }
  pose proof (max_side_small max Hmax). split; lia.
Qed.

Lemma new_builder_ok_pow2 max : new_builder_ok max = true -> pow2 (Z.to_N max).
Proof.
  unfold new_builder_ok. intros H. apply andb_true_iff in H as [Hpos Hp]. apply is_pow2_to_N; assumption.
Qed.

(* ================================================================== *)
(* C03: shape of every square Construct / Build return                 *)
(* ================================================================== *)

Theorem construct_shape raws max thr sq : 1 <= thr -> (max <= 1024)%Z -> c07_raws_ok raws ->
  construct raws max thr = Ok sq ->
  exists normals btxs, split_ordered false raws [] [] = Some (normals, btxs) /\
    square_shape thr normals btxs (Z.to_N max) sq.
Proof.
  intros Ht Hmax Hraws H.
  destruct (construct_ok_inv raws max thr sq Ht Hmax Hraws H) as (normals & btxs & Hs & -> & Hok & Hcfg & Hfit & _).
  exists normals, btxs. split; [exact Hs|].
  apply layout_shape; try assumption; [apply c07_btxs_lay, Hok|apply new_builder_ok_pow2, Hcfg|lia].
Qed.

Theorem build_shape raws max thr sq kept : 1 <= thr -> (max <= 1024)%Z -> c07_raws_ok raws ->
  build raws max thr = Ok (sq, kept) ->
  exists normals btxs, keep (Z.to_N max * Z.to_N max) thr raws [] [] [] [] = Some (normals, btxs, kept) /\
    square_shape thr normals btxs (Z.to_N max) sq.
Proof.
  intros Ht Hmax Hraws H.
  destruct (build_ok_inv raws max thr sq kept Ht Hmax Hraws H) as (normals & btxs & Hs & -> & Hok & Hcfg & Hfit & _).
  exists normals, btxs. split; [exact Hs|].
  apply layout_shape; try assumption; [apply c07_btxs_lay, Hok|apply new_builder_ok_pow2, Hcfg|lia].
Qed.

(* the part of the shape that does not mention the two lists: what an observer of the
   square alone can check *)
Corollary construct_square_wellformed raws max thr sq : 1 <= thr -> (max <= 1024)%Z -> c07_raws_ok raws ->
  construct raws max thr = Ok sq ->
  exists side, pow2 side /\ side <= Z.to_N max /\ lenN sq = side * side /\
    Forall (fun s => length s = 512%nat) sq /\ ns_ordered sq.
Proof.
  intros Ht Hmax Hraws H. destruct (construct_shape raws max thr sq Ht Hmax Hraws H) as (n & b & _ & S).
  destruct S as (H1 & H2 & H3 & H4 & H5 & _). eexists. repeat split; eassumption.
Qed.

Corollary build_square_wellformed raws max thr sq kept : 1 <= thr -> (max <= 1024)%Z -> c07_raws_ok raws ->
  build raws max thr = Ok (sq, kept) ->
  exists side, pow2 side /\ side <= Z.to_N max /\ lenN sq = side * side /\
    Forall (fun s => length s = 512%nat) sq /\ ns_ordered sq.
Proof.
  intros Ht Hmax Hraws H. destruct (build_shape raws max thr sq kept Ht Hmax Hraws H) as (n & b & _ & S).
  destruct S as (H1 & H2 & H3 & H4 & H5 & _). eexists. repeat split; eassumption.
Qed.

(* ================================================================== *)
(* C20: sequence parsing tiles every square Construct / Build return   *)
(* ================================================================== *)

Theorem construct_tiled raws max thr sq : 1 <= thr -> (max <= 1024)%Z -> c07_raws_ok raws ->
  construct raws max thr = Ok sq ->
  exists normals btxs, split_ordered false raws [] [] = Some (normals, btxs) /\
    square_tiled thr normals btxs sq.
Proof.
  intros Ht Hmax Hraws H.
  destruct (construct_ok_inv raws max thr sq Ht Hmax Hraws H) as (normals & btxs & Hs & -> & Hok & Hcfg & Hfit & _).
  exists normals, btxs. split; [exact Hs|].
  apply (layout_tiled thr normals btxs (Z.to_N max)); try assumption;
    [apply c07_btxs_lay, Hok|apply new_builder_ok_pow2, Hcfg|lia].
Qed.

Theorem build_tiled raws max thr sq kept : 1 <= thr -> (max <= 1024)%Z -> c07_raws_ok raws ->
  build raws max thr = Ok (sq, kept) ->
  exists normals btxs, keep (Z.to_N max * Z.to_N max) thr raws [] [] [] [] = Some (normals, btxs, kept) /\
    square_tiled thr normals btxs sq.
Proof.
  intros Ht Hmax Hraws H.
  destruct (build_ok_inv raws max thr sq kept Ht Hmax Hraws H) as (normals & btxs & Hs & -> & Hok & Hcfg & Hfit & _).
  exists normals, btxs. split; [exact Hs|].
  apply (layout_tiled thr normals btxs (Z.to_N max)); try assumption;
    [apply c07_btxs_lay, Hok|apply new_builder_ok_pow2, Hcfg|lia].
Qed.

(* the tiling item alone, with no reference to the lists *)
Corollary construct_parse_tiles raws max thr sq : 1 <= thr -> (max <= 1024)%Z -> c07_raws_ok raws ->
  construct raws max thr = Ok sq ->
  exists seqs, parse_shares sq false = Ok seqs /\ concat (map sq_shares seqs) = sq /\ Forall seq_tile_ok seqs.
Proof.
  intros Ht Hmax Hraws H. destruct (construct_tiled raws max thr sq Ht Hmax Hraws H) as (n & b & _ & T).
  exact (proj1 T).
Qed.

Corollary build_parse_tiles raws max thr sq kept : 1 <= thr -> (max <= 1024)%Z -> c07_raws_ok raws ->
  build raws max thr = Ok (sq, kept) ->
  exists seqs, parse_shares sq false = Ok seqs /\ concat (map sq_shares seqs) = sq /\ Forall seq_tile_ok seqs.
Proof.
  intros Ht Hmax Hraws H. destruct (build_tiled raws max thr sq kept Ht Hmax Hraws H) as (n & b & _ & T).
  exact (proj1 T).
Qed.

(* everything C20 says about a constructed square, spelled out: [ws] are the wrapped PFBs
   as Square.WrappedPFBs reads them from the square, [bs] the blobs in square order *)
Definition square_sequences (normals : list bytes) (btxs : list blob_tx) (sq : list share) : Prop :=
  exists ws seqs,
    wrapped_pfbs sq = Ok ws /\ length ws = length btxs /\
    parse_shares sq false = Ok seqs /\ concat (map sq_shares seqs) = sq /\ Forall seq_tile_ok seqs /\
    let bs := square_blobs btxs in
    parse_shares sq true =
      Ok (opt_seq normals (mk_seq tx_ns (compact_spec_ix tx_ns 0 normals))
          ++ opt_seq btxs (mk_seq pfb_ns (compact_spec_ix pfb_ns 0 ws))
          ++ map (fun b => mk_seq (b_ns b) (blob_spec b)) bs) /\
    Permutation bs (concat (map btx_blobs btxs)) /\ StronglySorted blob_le bs /\
    (normals <> [] -> sequence_raw_data (mk_seq tx_ns (compact_spec_ix tx_ns 0 normals)) = Ok (stream normals)) /\
    (btxs <> [] -> sequence_raw_data (mk_seq pfb_ns (compact_spec_ix pfb_ns 0 ws)) = Ok (stream ws)) /\
    Forall (fun b => sequence_raw_data (mk_seq (b_ns b) (blob_spec b)) = Ok (b_data b)) bs.

(* ================================================================== *)
(* C02: Construct then Deconstruct                                     *)
(* ================================================================== *)

(* the hypothesis of the refinement for a list in canonical form *)
Lemma canonical_raws_ok normals btxs :
  Forall (fun r => unmarshal_blob_tx r = UbtNot) normals ->
  Forall c07_btx_ok btxs -> Forall (fun t => btx_ok (btx_tx t) (btx_blobs t)) btxs ->
  c07_raws_ok (normals ++ map blob_tx_bytes btxs).
Proof.
  intros Hn Hok Hw. apply Forall_app. split.
  - eapply Forall_impl; [|exact Hn]. intros r Hr t Hu. congruence.
  - apply Forall_map. rewrite Forall_forall in *. intros t Hin t' Hu.
    assert (Hb : Forall blob_ok (btx_blobs t)).
    { specialize (Hok t Hin). eapply Forall_impl; [|exact Hok]. intros b [[Hb _] _]. exact Hb. }
    rewrite (blob_tx_bytes_decodes t Hb (Hw t Hin)) in Hu. injection Hu as <-. apply Hok, Hin.
Qed.

Theorem construct_deconstruct dec thr max normals btxs sq :
  1 <= thr -> (max <= 1024)%Z ->
  Forall (fun r => r <> [] /\ unmarshal_blob_tx r = UbtNot) normals ->
  Forall c07_btx_ok btxs ->
  Forall (fun t => btx_ok (btx_tx t) (btx_blobs t)) btxs ->
  Forall (fun t => dec (btx_tx t) = Ok (blob_sizes (btx_blobs t))) btxs ->
  construct (normals ++ map blob_tx_bytes btxs) max thr = Ok sq ->
  deconstruct dec sq = Ok (normals ++ map blob_tx_bytes btxs).
Proof.
  intros Ht Hmax Hn Hok Hw Hdec H.
  assert (Hraws : c07_raws_ok (normals ++ map blob_tx_bytes btxs)).
  { apply canonical_raws_ok; try assumption. eapply Forall_impl; [|exact Hn]. intros r [_ Hr]. exact Hr. }
  rewrite (construct_eq_layout _ max thr Ht Hmax Hraws) in H.
  exact (deconstruct_layout_construct dec thr max normals btxs sq Ht Hmax Hn (c07_btxs_lay _ Hok) Hw Hdec H).
Qed.

(* the form with the hypothesis of the refinement on the raw list *)
Theorem construct_deconstruct_raws dec thr max normals btxs sq :
  1 <= thr -> (max <= 1024)%Z -> c07_raws_ok (normals ++ map blob_tx_bytes btxs) ->
  Forall (fun r => r <> [] /\ unmarshal_blob_tx r = UbtNot) normals ->
  Forall lay_btx_ok btxs ->
  Forall (fun t => btx_ok (btx_tx t) (btx_blobs t)) btxs ->
  Forall (fun t => dec (btx_tx t) = Ok (blob_sizes (btx_blobs t))) btxs ->
  construct (normals ++ map blob_tx_bytes btxs) max thr = Ok sq ->
  deconstruct dec sq = Ok (normals ++ map blob_tx_bytes btxs).
Proof.
  intros Ht Hmax Hraws Hn Hok Hw Hdec H.
  rewrite (construct_eq_layout _ max thr Ht Hmax Hraws) in H.
  exact (deconstruct_layout_construct dec thr max normals btxs sq Ht Hmax Hn Hok Hw Hdec H).
Qed.

(* the empty list: Construct returns EmptySquare (one tail padding share), Deconstruct of it
   returns the empty list; for every valid maximum (any size) and every threshold *)
Theorem construct_empty dec max thr : new_builder_ok max = true ->
  construct [] max thr = empty_square /\
  exists sq, construct [] max thr = Ok sq /\ sq = [padding_spec tail_padding_ns 0] /\ deconstruct dec sq = Ok [].
Proof.
  intros Hcfg. unfold construct, new_builder_txs. rewrite Hcfg. cbn [negb construct_loop bind].
  assert (He : export (empty_builder (Z.to_N max) thr) = (do sq <- empty_square; Ok (empty_builder (Z.to_N max) thr, sq)))
    by reflexivity.
  rewrite He, empty_square_val. cbn [bind snd]. split; [reflexivity|].
  eexists. split; [reflexivity|]. split; [reflexivity|].
  exact (proj2 (deconstruct_layout_empty dec thr)).
Qed.

(* ================================================================== *)
(* C06 (i): greedy building never fails                                *)
(* ================================================================== *)

Theorem build_never_fails raws max thr : 1 <= thr -> (max <= 1024)%Z -> c07_raws_ok raws ->
  new_builder_ok max = true -> Forall (fun r => unmarshal_blob_tx r <> UbtErr) raws ->
  exists sq kept, build raws max thr = Ok (sq, kept).
Proof.
  intros Ht Hmax Hraws Hcfg Hdec. rewrite (build_eq_layout raws max thr Ht Hmax Hraws).
  unfold layout_build. fold (new_builder_ok max). rewrite Hcfg. cbn [negb].
  destruct (keep_some (Z.to_N max * Z.to_N max) thr raws [] [] [] [] Hdec) as ([[normals btxs] kept] & ->).
  eexists _, _. reflexivity.
Qed.

(* exactly: with a valid maximum, Build fails iff some blob transaction does not decode,
   and then it is an error, never a panic *)
Theorem build_fails_iff raws max thr : 1 <= thr -> (max <= 1024)%Z -> c07_raws_ok raws ->
  new_builder_ok max = true ->
  (build raws max thr = Err <-> Exists (fun r => unmarshal_blob_tx r = UbtErr) raws) /\
  build raws max thr <> Fault.
Proof.
  intros Ht Hmax Hraws Hcfg. rewrite (build_eq_layout raws max thr Ht Hmax Hraws).
  unfold layout_build. fold (new_builder_ok max). rewrite Hcfg. cbn [negb].
  destruct (keep (Z.to_N max * Z.to_N max) thr raws [] [] [] []) as [[[normals btxs] kept]|] eqn:Ek.
  - split; [|discriminate]. split; [discriminate|]. intros Hex. exfalso.
    apply Exists_exists in Hex. destruct Hex as (r & Hin & Hr).
    pose proof (keep_some_inv _ _ _ _ _ _ _ _ Ek) as Hall. rewrite Forall_forall in Hall. exact (Hall r Hin Hr).
  - split; [|discriminate]. split; [intros _; exact (keep_none _ _ _ _ _ _ _ Ek)|reflexivity].
Qed.

(* ================================================================== *)
(* Export of a builder in correspondence: the exported STATE           *)
(* ================================================================== *)

(* export_corr (C07) says the square is the layout; here is what the exported builder
   holds: the same transactions, the PFBs wrapped with the layout's real share indexes,
   and the (element, index) pairs of the blob loop are the layout's placed blobs *)
Lemma corr_start max thr b normals btxs : corr max thr b normals btxs ->
  export_start b = lay_start normals btxs.
Proof.
  intros C. destruct (corr_counters _ _ _ _ _ C) as [Htc Hpc].
  unfold export_start, lay_start. rewrite Htc, Hpc. lia.
Qed.

Lemma corr_place max thr b normals btxs : 1 <= thr -> corr max thr b normals btxs ->
  map to_lbi (export_place b) = lay_placed thr normals btxs.
Proof.
  intros Ht C. unfold export_place.
  rewrite (corr_start _ _ _ _ _ C), (inv_thr _ _ _ (co_acc _ _ _ _ _ C)), (co_blobs _ _ _ _ _ C).
  symmetry. apply placed_eq; [exact Ht|exact (co_ok _ _ _ _ _ C)].
Qed.

Lemma corr_el_ok max thr b normals btxs : corr max thr b normals btxs -> Forall el_ok (bd_blobs b).
Proof. intros C. rewrite (co_blobs _ _ _ _ _ C). apply all_els_el_ok, (co_ok _ _ _ _ _ C). Qed.

Theorem export_corr_state max thr b normals btxs : 1 <= thr -> max * max < 2097152 ->
  corr max thr b normals btxs ->
  exists b', export b = Ok (b', layout thr normals btxs) /\
    bd_txs b' = normals /\
    wrapped (bd_pfbs b') = wrappers (lay_placed thr normals btxs) 0 btxs /\
    length (bd_pfbs b') = length btxs /\
    bd_blobs b' = sort_elements (bd_blobs b) /\
    (builder_is_empty b = false -> bd_done b' = true).
Proof.
  intros Ht Hmax C. destruct (export_corr max thr b normals btxs Ht Hmax C) as (b' & E).
  exists b'. split; [exact E|].
  pose proof (co_acc _ _ _ _ _ C) as I. pose proof (inv_thr _ _ _ I) as Hthr.
  pose proof (corr_el_ok _ _ _ _ _ C) as Hel.
  assert (Ht' : 1 <= bd_thr b) by (rewrite Hthr; exact Ht).
  destruct (export_layout b b' _ Ht' Hel (binv_not_empty b (co_binv _ _ _ _ _ C)) E)
    as (Htx & Hbl & _ & _ & Hshape & Hrec & _).
  split; [rewrite Htx; exact (co_txs _ _ _ _ _ C)|].
  pose proof (corr_fits _ _ _ _ _ Ht C) as Hfit.
  assert (Hest : estimate thr normals btxs < 2097152) by lia.
  pose proof (placed_index_small thr normals btxs Ht Hest) as Hsmall.
  pose proof (corr_place _ _ _ _ _ Ht C) as Hpl.
  split; [|split; [|split]].
  - rewrite <- Hpl. unfold export_place in *.
    rewrite (corr_start _ _ _ _ _ C), Hthr, (co_blobs _ _ _ _ _ C), (co_pfbs _ _ _ _ _ C) in *.
    change (wrapped (bd_pfbs b')) with (map wrap_pfb (bd_pfbs b')).
    apply recorded_wrappers.
    + rewrite <- (co_blobs _ _ _ _ _ C). apply (co_binv _ _ _ _ _ C).
    + exact Hrec.
    + rewrite <- Hpl in Hsmall. rewrite Forall_map in Hsmall. eapply Forall_impl; [|exact Hsmall].
      intros p Hp. unfold to_lbi in Hp. cbn [lb_index] in Hp. lia.
  - rewrite (pfb_shape_length _ _ Hshape), (co_pfbs _ _ _ _ _ C), map_length. reflexivity.
  - exact Hbl.
  - intros He. exact (export_done b b' _ He E).
Qed.

(* ================================================================== *)
(* C06 (ii): the estimate never under-counts; Export never fails        *)
(* ================================================================== *)

(* Histories of appends (accepted or refused) from NewBuilder, as in C06: [reach].  With
   acceptable blobs in every blob transaction, the builder reached is in correspondence
   with the lists of the accepted transactions. *)
Definition aop_ok (op : aop) : Prop := match op with ATx _ => True | ABlobTx t => c07_btx_ok t end.

Lemma astep_corr max thr b normals btxs op : 1 <= thr -> corr max thr b normals btxs -> aop_ok op ->
  exists normals' btxs', corr max thr (astep b op) normals' btxs'.
Proof.
  intros Ht C Hop. destruct op as [tx|t]; cbn [astep aop_ok] in *.
  - destruct (step_tx max thr b normals btxs tx Ht C) as (_ & Hacc & Hrej).
    destruct (snd (append_tx b tx)); [exists (normals ++ [tx]), btxs; apply Hacc|exists normals, btxs; apply Hrej]; reflexivity.
  - destruct (step_blob_tx max thr b normals btxs t Ht C Hop) as (_ & Hacc & Hrej).
    destruct (snd (append_blob_tx b t)); [exists normals, (btxs ++ [t]); apply Hacc|exists normals, btxs; apply Hrej]; reflexivity.
Qed.

Theorem reach_corr max thr ops : 1 <= thr -> Forall aop_ok ops ->
  exists normals btxs, corr max thr (reach max thr ops) normals btxs.
Proof.
  intros Ht Hops. unfold reach.
  assert (G : forall ops b n bt, Forall aop_ok ops -> corr max thr b n bt ->
              exists n' bt', corr max thr (fold_left astep ops b) n' bt').
  { clear ops Hops. induction ops as [|op ops IH]; intros b n bt Hops C; cbn [fold_left].
    - exists n, bt. exact C.
    - apply Forall_cons_iff in Hops as [Hop Hops].
      destruct (astep_corr max thr b n bt op Ht C Hop) as (n1 & bt1 & C1). exact (IH _ _ _ Hops C1). }
  exact (G ops _ [] [] Hops (corr_empty max thr)).
Qed.

(* the shares before the tail padding: the two transaction sequences, the reserved padding
   and the blobs with their namespace padding, i.e. everything up to the end of the last
   blob (or of the PFB sequence when there is no blob) *)
Definition occupied (thr : N) (normals : list bytes) (btxs : list blob_tx) : N :=
  lenN (lay_body thr normals btxs).

Lemma region_ns_in (Q : namespace -> Prop) : forall l cur pns pver, length pns = 29%nat ->
  Forall (fun e => blob_ok (lb_blob e)) l -> Q pns -> Forall (fun e => Q (lb_ns e)) l ->
  Forall (fun s => Q (sh_ns s)) (LayoutShapeProofs.region cur pns pver l).
Proof. exact (region_ns_all Q). Qed.

(* no share of the occupied part is a tail padding share: the occupied part is exactly the
   square up to where the tail padding begins *)
Lemma lay_body_not_tail thr normals btxs : 1 <= thr -> Forall lay_btx_ok btxs ->
  estimate thr normals btxs < 2097152 ->
  Forall (fun s => sh_ns s <> tail_padding_ns) (lay_body thr normals btxs).
Proof.
  intros Ht Hok Hest. destruct (lay_body_eq thr normals btxs Ht Hok Hest) as [-> _].
  destruct (placed_facts thr normals btxs Hok) as (Hb & _ & Hbt).
  repeat (apply Forall_app; split).
  - eapply Forall_impl; [|apply compact_spec_ix_ns, length_tx_ns]. intros s ->. discriminate.
  - eapply Forall_impl; [|apply compact_spec_ix_ns, length_pfb_ns]. intros s ->. discriminate.
  - apply (region_ns_in (fun n => n <> tail_padding_ns)); [apply length_reserved_ns|exact Hb|discriminate|].
    eapply Forall_impl; [|exact Hbt]. intros e [_ H] E. cbn beta in E. rewrite E, bytes_cmp_refl in H. discriminate.
Qed.

(* for every builder in correspondence: Export succeeds, the square is the occupied part
   followed by tail padding only, and  occupied <= estimate = CurrentSize <= max^2 *)
Theorem export_never_fails_corr max thr b normals btxs : 1 <= thr -> max * max < 2097152 ->
  corr max thr b normals btxs ->
  exists b' body ntail,
    export b = Ok (b', body ++ repeat (padding_spec tail_padding_ns 0) ntail) /\
    Forall (fun s => sh_ns s <> tail_padding_ns) body /\
    (Z.of_N (lenN body) <= bd_cur b)%Z /\ bd_cur b = Z.of_N (estimate thr normals btxs) /\
    (bd_cur b <= Z.of_N (max * max))%Z /\
    lenN body + N.of_nat ntail
      = blob_min_square_size (Z.to_N (bd_cur b)) * blob_min_square_size (Z.to_N (bd_cur b)).
Proof.
  intros Ht Hmax C. destruct (export_corr max thr b normals btxs Ht Hmax C) as (b' & E).
  pose proof (corr_fits _ _ _ _ _ Ht C) as Hfit. pose proof (corr_cur _ _ _ _ _ Ht C) as Hcur.
  assert (Hest : estimate thr normals btxs < 2097152) by lia.
  pose proof (c07_btxs_lay _ (co_ok _ _ _ _ _ C)) as Hok.
  destruct (lay_body_eq thr normals btxs Ht Hok Hest) as [_ Hlen].
  exists b', (lay_body thr normals btxs),
    (N.to_nat (lay_side thr normals btxs * lay_side thr normals btxs - lenN (lay_body thr normals btxs))).
  rewrite E, layout_unfold. unfold tail_pad.
  split; [reflexivity|]. split; [apply lay_body_not_tail; assumption|].
  split; [lia|]. split; [exact Hcur|]. split; [lia|].
  rewrite Hcur, N2Z.id. fold (lay_side thr normals btxs).
  destruct (blob_min_square_size_spec (estimate thr normals btxs)) as (_ & Hcov & _).
  fold (lay_side thr normals btxs) in Hcov. lia.
Qed.

(* ... hence for every history of appends *)
Theorem export_never_fails_reach max thr ops : 1 <= thr -> max * max < 2097152 -> Forall aop_ok ops ->
  let b := reach max thr ops in
  exists b' body ntail,
    export b = Ok (b', body ++ repeat (padding_spec tail_padding_ns 0) ntail) /\
    Forall (fun s => sh_ns s <> tail_padding_ns) body /\
    (Z.of_N (lenN body) <= bd_cur b)%Z /\ (bd_cur b <= Z.of_N (max * max))%Z /\
    lenN body + N.of_nat ntail
      = blob_min_square_size (Z.to_N (bd_cur b)) * blob_min_square_size (Z.to_N (bd_cur b)).
Proof.
  intros Ht Hmax Hops b. destruct (reach_corr max thr ops Ht Hops) as (normals & btxs & C). fold b in C.
  destruct (export_never_fails_corr max thr b normals btxs Ht Hmax C)
    as (b' & body & ntail & H1 & H2 & H3 & _ & H5 & H6).
  exists b', body, ntail. repeat split; assumption.
Qed.

(* the builder Build / Construct export is such a builder: occupied <= estimate for the
   square they return *)
Theorem construct_occupied raws max thr sq : 1 <= thr -> (max <= 1024)%Z -> c07_raws_ok raws ->
  construct raws max thr = Ok sq ->
  exists normals btxs, split_ordered false raws [] [] = Some (normals, btxs) /\
    sq = lay_body thr normals btxs ++ tail_pad thr normals btxs /\
    Forall (fun s => sh_ns s <> tail_padding_ns) (lay_body thr normals btxs) /\
    occupied thr normals btxs <= estimate thr normals btxs /\
    estimate thr normals btxs <= Z.to_N max * Z.to_N max.
Proof.
  intros Ht Hmax Hraws H.
  destruct (construct_ok_inv raws max thr sq Ht Hmax Hraws H) as (normals & btxs & Hs & -> & Hok & _ & Hfit & Hest).
  exists normals, btxs. pose proof (c07_btxs_lay _ Hok) as Hlay.
  split; [exact Hs|]. split; [apply layout_unfold|]. split; [apply lay_body_not_tail; assumption|].
  split; [exact (proj2 (lay_body_eq thr normals btxs Ht Hlay Hest))|exact Hfit].
Qed.

Theorem build_occupied raws max thr sq kept : 1 <= thr -> (max <= 1024)%Z -> c07_raws_ok raws ->
  build raws max thr = Ok (sq, kept) ->
  exists normals btxs, keep (Z.to_N max * Z.to_N max) thr raws [] [] [] [] = Some (normals, btxs, kept) /\
    sq = lay_body thr normals btxs ++ tail_pad thr normals btxs /\
    Forall (fun s => sh_ns s <> tail_padding_ns) (lay_body thr normals btxs) /\
    occupied thr normals btxs <= estimate thr normals btxs /\
    estimate thr normals btxs <= Z.to_N max * Z.to_N max.
Proof.
  intros Ht Hmax Hraws H.
  destruct (build_ok_inv raws max thr sq kept Ht Hmax Hraws H) as (normals & btxs & Hs & -> & Hok & _ & Hfit & Hest).
  exists normals, btxs. pose proof (c07_btxs_lay _ Hok) as Hlay.
  split; [exact Hs|]. split; [apply layout_unfold|]. split; [apply lay_body_not_tail; assumption|].
  split; [exact (proj2 (lay_body_eq thr normals btxs Ht Hlay Hest))|exact Hfit].
Qed.

(* ================================================================== *)
(* C04: the recorded share indexes, read from the square itself         *)
(* ================================================================== *)

(* ---- the order of the placed blobs: (namespace, transaction, position) ---- *)
Definition pos_lt (a b : lblob) : Prop := lb_pfb a < lb_pfb b \/ (lb_pfb a = lb_pfb b /\ lb_j a < lb_j b).
Definition key_lt (a b : lblob) : Prop :=
  bytes_cmp (lb_ns a) (lb_ns b) = Lt \/ (lb_ns a = lb_ns b /\ pos_lt a b).
(* disjoint, increasing share ranges *)
Definition lb_range_before (a b : lblob) : Prop := lb_index a + lb_n a <= lb_index b.

(* the insertion sort is stable: inserting an entry that precedes (in input order) all
   entries of a list sorted by the lexicographic key keeps it sorted by that key *)
Lemma lb_insert_key_sorted e : forall l, Forall (pos_lt e) l -> StronglySorted key_lt l ->
  StronglySorted key_lt (lb_insert e l).
Proof.
  induction l as [|x tl IH]; intros Hp Hs; cbn [lb_insert]; [constructor; constructor|].
  apply Forall_cons_iff in Hp as [Hpx Hp]. apply StronglySorted_inv in Hs as [Hs Hx].
  change (b_ns (lb_blob e)) with (lb_ns e). change (b_ns (lb_blob x)) with (lb_ns x).
  destruct (bytes_cmp (lb_ns e) (lb_ns x)) eqn:Ec.
  - apply bytes_cmp_eq in Ec. constructor; [constructor; assumption|]. constructor.
    + right. split; assumption.
    + rewrite Forall_forall in *. intros y Hy. destruct (Hx y Hy) as [Hlt|[Heq _]].
      * left. rewrite Ec. exact Hlt.
      * right. split; [congruence|apply Hp, Hy].
  - constructor; [constructor; assumption|]. constructor; [left; exact Ec|].
    rewrite Forall_forall in *. intros y Hy. left. destruct (Hx y Hy) as [Hlt|[Heq _]].
    + exact (bytes_cmp_trans _ _ _ Ec Hlt).
    + rewrite <- Heq. exact Ec.
  - constructor; [apply IH; assumption|].
    apply (Permutation_Forall (Permutation_sym (lb_insert_perm e tl))). constructor; [|exact Hx].
    left. apply cmp_gt_flip, Ec.
Qed.

Lemma lb_sort_key_sorted : forall l, StronglySorted pos_lt l -> StronglySorted key_lt (lb_sort l).
Proof.
  induction l as [|e l IH]; intros Hs; [constructor|]. apply StronglySorted_inv in Hs as [Hs He].
  cbn [lb_sort fold_right]. apply lb_insert_key_sorted; [|apply IH, Hs].
  exact (Permutation_Forall (Permutation_sym (lb_sort_perm l)) He).
Qed.

(* the enumeration of the blobs is in (transaction, position) order *)
Lemma blobs_of_tx_pos pi : forall bs j,
  StronglySorted pos_lt (blobs_of_tx pi j bs) /\
  Forall (fun e => lb_pfb e = pi /\ j <= lb_j e) (blobs_of_tx pi j bs).
Proof.
  induction bs as [|b bs IH]; intros j; cbn [blobs_of_tx]; [split; constructor|].
  destruct (IH (j + 1)) as [H1 H2]. split.
  - constructor; [exact H1|]. eapply Forall_impl; [|exact H2]. intros x [Hp Hj]. right. cbn [lb_pfb lb_j]. lia.
  - constructor; [cbn [lb_pfb lb_j]; lia|]. eapply Forall_impl; [|exact H2]. intros x [Hp Hj]. lia.
Qed.

Lemma all_blobs_pos : forall btxs pi,
  StronglySorted pos_lt (all_blobs pi btxs) /\ Forall (fun e => pi <= lb_pfb e) (all_blobs pi btxs).
Proof.
  induction btxs as [|t tl IH]; intros pi; cbn [all_blobs]; [split; constructor|].
  destruct (IH (pi + 1)) as [H1 H2]. destruct (blobs_of_tx_pos pi (btx_blobs t) 0) as [B1 B2]. split.
  - apply StronglySorted_app_intro; [exact B1|exact H1|]. rewrite Forall_forall in *.
    intros x y Hx Hy. left. destruct (B2 x Hx) as [-> _]. specialize (H2 y Hy). cbn beta in H2. lia.
  - apply Forall_app. split.
    + eapply Forall_impl; [|exact B2]. intros x [-> _]. lia.
    + eapply Forall_impl; [|exact H2]. intros x Hx. cbn beta in Hx. lia.
Qed.

(* assign only changes the index field *)
Lemma assign_Forall_key thr (P : lblob -> Prop) :
  (forall a a', lkey a = lkey a' -> P a -> P a') ->
  forall l c, Forall P l -> Forall P (assign thr c l).
Proof.
  intros HP. induction l as [|e l IH]; intros c H; [constructor|]. apply Forall_cons_iff in H as [He H].
  cbn [assign]. constructor; [|apply IH, H]. refine (HP e _ _ He). reflexivity.
Qed.

Lemma assign_sorted_key thr (R : lblob -> lblob -> Prop) :
  (forall a b a' b', lkey a = lkey a' -> lkey b = lkey b' -> R a b -> R a' b') ->
  forall l c, StronglySorted R l -> StronglySorted R (assign thr c l).
Proof.
  intros HR. induction l as [|e l IH]; intros c Hs; [constructor|]. apply StronglySorted_inv in Hs as [Hs He].
  cbn [assign]. constructor; [apply IH, Hs|].
  apply assign_Forall_key; [intros a a' Ha; apply HR; [reflexivity|exact Ha]|].
  eapply Forall_impl; [|exact He]. intros y. apply HR; reflexivity.
Qed.

Lemma key_lt_lkey a b a' b' : lkey a = lkey a' -> lkey b = lkey b' -> key_lt a b -> key_lt a' b'.
Proof.
  unfold lkey, key_lt, pos_lt, lb_ns. intros Ha Hb. injection Ha as -> -> ->. injection Hb as -> -> ->. tauto.
Qed.

Lemma assign_ranges thr : 1 <= thr -> forall l c, StronglySorted lb_range_before (assign thr c l).
Proof.
  intros Ht. induction l as [|e l IH]; intros c; cbn [assign]; constructor; [apply IH|].
  eapply Forall_impl; [|apply assign_index_le, Ht]. intros x [Hx _]. unfold lb_range_before. cbn [lb_index lb_n]. exact Hx.
Qed.

Lemma assign_aligned thr : 1 <= thr -> forall l c,
  Forall (fun e => lb_index e mod subtree_width (lb_n e) thr = 0) (assign thr c l).
Proof.
  intros Ht. induction l as [|e l IH]; intros c; cbn [assign]; constructor; [|apply IH].
  cbn [lb_index lb_n]. apply align_up_mod, subtree_width_pos, Ht.
Qed.

(* the placed blobs: ordered by (namespace, transaction, position in the transaction);
   ranges increasing and pairwise disjoint; every index a multiple of the subtree width *)
Theorem placed_order thr normals btxs : 1 <= thr ->
  let placed := lay_placed thr normals btxs in
  StronglySorted key_lt placed /\ StronglySorted lb_range_before placed /\
  Forall (fun e => lb_index e mod subtree_width (lb_n e) thr = 0 /\ lb_n e = blob_share_count (lb_blob e)) placed.
Proof.
  intros Ht placed. unfold placed, lay_placed, sorted_blobs. split; [|split].
  - apply (assign_sorted_key thr key_lt key_lt_lkey), lb_sort_key_sorted, (proj1 (all_blobs_pos btxs 0)).
  - apply assign_ranges, Ht.
  - pose proof (assign_aligned thr Ht (lb_sort (all_blobs 0 btxs)) (lay_start normals btxs)) as H1.
    assert (H2 : Forall lb_counted (assign thr (lay_start normals btxs) (lb_sort (all_blobs 0 btxs)))).
    { apply (assign_Forall thr (fun b n => n = blob_share_count b)).
      exact (Permutation_Forall (Permutation_sym (lb_sort_perm _)) (all_blobs_counted btxs 0)). }
    rewrite Forall_forall in *. intros e He. split; [apply H1, He|apply H2, He].
Qed.

(* the entry recording blob k of transaction i, with its key *)
Lemma index_of_placed_key thr normals btxs i t k b :
  nth_error btxs i = Some t -> nth_error (btx_blobs t) k = Some b ->
  let placed := lay_placed thr normals btxs in
  exists e, In e placed /\ lb_index e = index_of placed (N.of_nat i) (N.of_nat k) /\ lb_blob e = b /\
            lb_pfb e = N.of_nat i /\ lb_j e = N.of_nat k.
Proof.
  intros Ht Hb placed. unfold index_of.
  destruct (find (fun e => (lb_pfb e =? N.of_nat i) && (lb_j e =? N.of_nat k)) placed) as [e|] eqn:Ef.
  - apply find_some in Ef. destruct Ef as [He Hk]. apply andb_true_iff in Hk as [Hk1 Hk2].
    apply N.eqb_eq in Hk1, Hk2. exists e. split; [exact He|]. split; [reflexivity|].
    split; [|split; assumption].
    assert (Hin : In (lkey e) (map lkey placed)) by (apply in_map, He).
    apply placed_keys in Hin. unfold lkey in Hin. apply all_blobs_keys in Hin.
    destruct Hin as (i' & t' & k' & Hp & Hj & Ht' & Hb').
    assert (i' = i) by lia. assert (k' = k) by lia. subst i' k'. congruence.
  - exfalso.
    assert (Hin : In (N.of_nat i, N.of_nat k, b) (map lkey placed)).
    { apply placed_keys, all_blobs_keys. exists i, t, k. split; [lia|]. split; [reflexivity|]. split; assumption. }
    apply in_map_iff in Hin. destruct Hin as (e & Hk & He).
    pose proof (find_none _ _ Ef e He) as Hf. cbv beta in Hf.
    unfold lkey in Hk. inversion Hk as [[H1 H2 H3]]. rewrite H1, H2, !N.eqb_refl in Hf. discriminate.
Qed.

Lemma blob_at_window s i b : blob_at s i b ->
  firstn (length (blob_spec b)) (skipn (N.to_nat i) s) = blob_spec b /\ i + lenN (blob_spec b) <= lenN s.
Proof.
  intros (pre & post & -> & <-). split.
  - apply firstn_skipn_mid; [reflexivity|unfold lenN; lia].
  - rewrite !lenN_app. lia.
Qed.

(* ---- Square.WrappedPFBs on the layout ---- *)
Lemma layout_wrapped_pfbs thr normals btxs : 1 <= thr -> Forall lay_btx_ok btxs ->
  estimate thr normals btxs < 2097152 ->
  wrapped_pfbs (layout thr normals btxs) = Ok (wrappers (lay_placed thr normals btxs) 0 btxs).
Proof.
  intros Ht Hok Hest. rewrite (layout_split thr normals btxs Ht Hok Hest). unfold wrapped_pfbs.
  assert (Hpre : Forall (ns_below pfb_ns) (tx_run normals)).
  { eapply Forall_impl; [|apply compact_spec_ix_ns, length_tx_ns]. intros s Hs. unfold ns_below. rewrite Hs.
    apply bytes_cmp_lt_lex, tx_lt_pfb. }
  assert (Hrun : Forall (ns_is pfb_ns) (pfb_run thr normals btxs)) by (apply compact_spec_ix_ns, length_pfb_ns).
  rewrite (range_lookup pfb_ns _ _ _ Hpre Hrun (lay_rest_above thr normals btxs Hok)).
  set (wr := wrappers (lay_placed thr normals btxs) 0 btxs).
  destruct (pfb_run thr normals btxs) as [|p0 pr] eqn:Epr.
  - change ((0 =? 0) && (0 =? 0)) with true. cbv iota.
    destruct btxs as [|t0 tl]; [reflexivity|exfalso].
    destruct (compact_spec_ix_cons pfb_ns wr) as (x & l & Hx); [unfold wr; cbn [wrappers]; discriminate|].
    unfold pfb_run in Epr. fold wr in Epr. congruence.
  - replace ((lenN (tx_run normals) =? 0) && (lenN (tx_run normals) + lenN (p0 :: pr) =? 0)) with false
      by (rewrite lenN_cons; lia).
    rewrite slice_mid. cbn [bind]. rewrite <- Epr. unfold pfb_run. fold wr.
    apply parse_tx_run; [reflexivity|reflexivity|apply wrappers_nonempty|].
    apply wrappers_stream_small; assumption.
Qed.

(* ---- everything C04 says, on the layout ---- *)
Theorem layout_indexes thr normals btxs : 1 <= thr -> Forall lay_btx_ok btxs ->
  estimate thr normals btxs < 2097152 ->
  let sq := layout thr normals btxs in
  let placed := lay_placed thr normals btxs in
  exists ws, wrapped_pfbs sq = Ok ws /\ length ws = length btxs /\
    forall p t, nth_error btxs p = Some t ->
      exists w idx, nth_error ws p = Some w /\
        unmarshal_index_wrapper w = Some (mk_iw (btx_tx t) idx type_id_indx) /\
        length idx = length (btx_blobs t) /\
        forall j b, nth_error (btx_blobs t) j = Some b ->
          exists e, In e placed /\ lb_pfb e = N.of_nat p /\ lb_j e = N.of_nat j /\ lb_blob e = b /\
            lb_n e = blob_share_count b /\
            nth_error idx j = Some (lb_index e) /\
            firstn (N.to_nat (blob_share_count b)) (skipn (N.to_nat (lb_index e)) sq) = blob_spec b /\
            lb_index e + blob_share_count b <= lenN sq /\
            lb_index e mod subtree_width (blob_share_count b) thr = 0.
Proof.
  intros Ht Hok Hest sq placed. exists (wrappers placed 0 btxs).
  split; [apply layout_wrapped_pfbs; assumption|]. split; [apply wrappers_length|].
  intros p t Hp. pose proof (wrappers_nth placed btxs 0 p) as Hw. rewrite Hp in Hw. cbn [option_map] in Hw.
  replace (0 + N.of_nat p) with (N.of_nat p) in Hw by lia.
  set (idx := indexes_of_tx placed (N.of_nat p) 0 (btx_blobs t)) in *.
  exists (marshal_index_wrapper (btx_tx t) idx), idx. split; [exact Hw|].
  pose proof (placed_index_small thr normals btxs Ht Hest) as Hsmall. fold placed in Hsmall.
  split; [|split; [apply indexes_of_tx_length|]].
  - apply index_wrapper_round_trip, wrapper_iw_ok; [apply indexes_of_tx_small, Hsmall|].
    pose proof (in_stream_le _ _ (nth_error_In _ _ Hw)) as Hle.
    pose proof (wrappers_stream_small thr normals btxs Ht Hest) as Hs. fold placed in Hs. unfold lenN in *. lia.
  - intros j b Hb.
    destruct (index_of_placed_key thr normals btxs p t j b Hp Hb) as (e & He & Hi & Hbl & Hpf & Hj). fold placed in He, Hi.
    destruct (placed_order thr normals btxs Ht) as (_ & _ & Hal). fold placed in Hal.
    rewrite Forall_forall in Hal. destruct (Hal e He) as [Hmod Hn]. rewrite Hbl in Hn.
    destruct (layout_blob_at thr normals btxs Ht Hok Hest e He) as (Hat & Hbok & _ & _). rewrite Hbl in Hat, Hbok.
    destruct (blob_at_window _ _ _ Hat) as [Hwin Hfit].
    pose proof (blob_spec_length b Hbok) as Hlen. fold (blob_share_count b) in Hlen.
    exists e. do 5 (split; [assumption|]). split; [|split; [|split]].
    + unfold idx. rewrite indexes_of_tx_nth.
      replace (Nat.ltb j (length (btx_blobs t))) with true
        by (symmetry; apply Nat.ltb_lt, nth_error_Some; congruence).
      rewrite Hi. reflexivity.
    + rewrite <- Hlen. unfold lenN. rewrite Nat2N.id. exact Hwin.
    + rewrite <- Hlen. exact Hfit.
    + rewrite <- Hn. exact Hmod.
Qed.

(* every placed blob is some transaction's blob (so the ordering / disjointness of
   placed_order is about exactly the blobs of the kept blob transactions) *)
Lemma placed_from_tx thr normals btxs e : In e (lay_placed thr normals btxs) ->
  exists p t j, lb_pfb e = N.of_nat p /\ lb_j e = N.of_nat j /\ nth_error btxs p = Some t /\
                nth_error (btx_blobs t) j = Some (lb_blob e).
Proof.
  intros He. assert (Hin : In (lkey e) (map lkey (lay_placed thr normals btxs))) by (apply in_map, He).
  apply placed_keys in Hin. unfold lkey in Hin. apply all_blobs_keys in Hin.
  destruct Hin as (i & t & k & Hp & Hj & Ht & Hb). exists i, t, k. split; [lia|]. split; [exact Hj|]. split; assumption.
Qed.

(* ---- the builder of the raw list, for the queries ---- *)
Lemma new_builder_txs_corr raws max thr b : 1 <= thr -> c07_raws_ok raws ->
  new_builder_txs max thr raws = Ok b ->
  exists normals btxs, split_ordered false raws [] [] = Some (normals, btxs) /\
    corr (Z.to_N max) thr b normals btxs.
Proof.
  intros Ht Hraws H. unfold new_builder_txs in H. destruct (negb (new_builder_ok max)); [discriminate|].
  pose proof (construct_loop_spec (Z.to_N max) thr Ht raws (empty_builder (Z.to_N max) thr) false [] []
                (corr_empty _ _) Hraws) as S.
  destruct (split_ordered false raws [] []) as [[normals btxs]|]; [|congruence].
  destruct (estimate thr normals btxs <=? Z.to_N max * Z.to_N max); [|congruence].
  destruct S as (b' & E & C). rewrite E in H. injection H as <-. exists normals, btxs. split; [reflexivity|exact C].
Qed.

Lemma construct_builder raws max thr sq : construct raws max thr = Ok sq ->
  exists b b', new_builder_txs max thr raws = Ok b /\ export b = Ok (b', sq).
Proof.
  unfold construct. destruct (new_builder_txs max thr raws) as [b| |]; cbn [bind]; try discriminate.
  destruct (export b) as [[b' sq']| |] eqn:E; cbn [bind snd]; try discriminate.
  intros H. injection H as <-. exists b, b'. split; [reflexivity|exact E].
Qed.

(* BlobShareRange of blob j of the p-th blob transaction = [recorded index, + share count) *)
Lemma corr_blob_share_range raws max thr b normals btxs e : 1 <= thr -> (max <= 1024)%Z ->
  new_builder_txs max thr raws = Ok b -> corr (Z.to_N max) thr b normals btxs ->
  In e (lay_placed thr normals btxs) ->
  blob_share_range raws (Z.of_nat (length normals) + Z.of_N (lb_pfb e)) (Z.of_N (lb_j e)) max thr
  = Ok (lb_index e, lb_index e + lb_n e).
Proof.
  intros Ht Hmax Hnb C He.
  destruct (export_corr (Z.to_N max) thr b normals btxs Ht (max_side_small max Hmax) C) as (b' & E).
  rewrite <- (corr_place _ _ _ _ _ Ht C) in He. apply in_map_iff in He. destruct He as ([e' i] & <- & Hin).
  pose proof (blob_share_range_spec raws max thr b b' _ e' i Ht Hnb (corr_el_ok _ _ _ _ _ C) E Hin) as R.
  unfold to_lbi. cbn [fst snd lb_pfb lb_j lb_index lb_n].
  rewrite (co_txs _ _ _ _ _ C) in R. unfold lenN in R. rewrite nat_N_Z in R. rewrite R.
  assert (Hi : i < 4294967296).
  { pose proof (corr_fits _ _ _ _ _ Ht C) as Hfit. pose proof (max_side_small max Hmax) as Hm.
    assert (Hest : estimate thr normals btxs < 2097152) by lia.
    pose proof (placed_index_small thr normals btxs Ht Hest) as Hs.
    rewrite <- (corr_place _ _ _ _ _ Ht C) in Hs. rewrite Forall_map in Hs. rewrite Forall_forall in Hs.
    specialize (Hs _ Hin). unfold to_lbi in Hs. cbn [lb_index snd] in Hs. lia. }
  rewrite (u32_small i Hi). reflexivity.
Qed.

(* ---- C04 for Construct ---- *)
Theorem construct_indexes raws max thr sq : 1 <= thr -> (max <= 1024)%Z -> c07_raws_ok raws ->
  construct raws max thr = Ok sq ->
  exists normals btxs ws placed,
    split_ordered false raws [] [] = Some (normals, btxs) /\
    wrapped_pfbs sq = Ok ws /\ length ws = length btxs /\
    StronglySorted key_lt placed /\ StronglySorted lb_range_before placed /\
    (forall e, In e placed -> exists p t j, lb_pfb e = N.of_nat p /\ lb_j e = N.of_nat j /\
                 nth_error btxs p = Some t /\ nth_error (btx_blobs t) j = Some (lb_blob e)) /\
    forall p t, nth_error btxs p = Some t ->
      exists w idx, nth_error ws p = Some w /\
        unmarshal_index_wrapper w = Some (mk_iw (btx_tx t) idx type_id_indx) /\
        length idx = length (btx_blobs t) /\
        forall j b, nth_error (btx_blobs t) j = Some b ->
          exists e, In e placed /\ lb_pfb e = N.of_nat p /\ lb_j e = N.of_nat j /\ lb_blob e = b /\
            lb_n e = blob_share_count b /\
            nth_error idx j = Some (lb_index e) /\
            firstn (N.to_nat (blob_share_count b)) (skipn (N.to_nat (lb_index e)) sq) = blob_spec b /\
            lb_index e + blob_share_count b <= lenN sq /\
            lb_index e mod subtree_width (blob_share_count b) thr = 0 /\
            blob_share_range raws (Z.of_nat (length normals + p)) (Z.of_nat j) max thr
              = Ok (lb_index e, lb_index e + blob_share_count b).
Proof.
  intros Ht Hmax Hraws H.
  destruct (construct_ok_inv raws max thr sq Ht Hmax Hraws H) as (normals & btxs & Hs & -> & Hok & _ & _ & Hest).
  pose proof (c07_btxs_lay _ Hok) as Hlay.
  destruct (construct_builder raws max thr _ H) as (b & b' & Hnb & _).
  destruct (new_builder_txs_corr raws max thr b Ht Hraws Hnb) as (n2 & bt2 & Hs2 & C).
  rewrite Hs in Hs2. injection Hs2 as <- <-.
  destruct (layout_indexes thr normals btxs Ht Hlay Hest) as (ws & Hw & Hwl & Hall).
  destruct (placed_order thr normals btxs Ht) as (Hk & Hr & _).
  exists normals, btxs, ws, (lay_placed thr normals btxs).
  split; [exact Hs|]. split; [exact Hw|]. split; [exact Hwl|]. split; [exact Hk|]. split; [exact Hr|].
  split; [intros e He; exact (placed_from_tx thr normals btxs e He)|].
  intros p t Hp. destruct (Hall p t Hp) as (w & idx & Hnw & Hun & Hli & Hblobs).
  exists w, idx. split; [exact Hnw|]. split; [exact Hun|]. split; [exact Hli|].
  intros j bl Hb. destruct (Hblobs j bl Hb) as (e & He & Hpf & Hj & Hbl & Hn & Hi & Hwin & Hfit & Hmod).
  exists e. do 8 (split; [assumption|]). split; [assumption|].
  pose proof (corr_blob_share_range raws max thr b normals btxs e Ht Hmax Hnb C He) as R.
  rewrite Hpf, Hj, Hn, !nat_N_Z in R. rewrite Nat2Z.inj_add. exact R.
Qed.

(* ---- C04 for Build (all of it except the BlobShareRange query, which takes the list of
   kept transactions) ---- *)
Theorem build_indexes raws max thr sq kept : 1 <= thr -> (max <= 1024)%Z -> c07_raws_ok raws ->
  build raws max thr = Ok (sq, kept) ->
  exists normals btxs ws placed,
    keep (Z.to_N max * Z.to_N max) thr raws [] [] [] [] = Some (normals, btxs, kept) /\
    wrapped_pfbs sq = Ok ws /\ length ws = length btxs /\
    StronglySorted key_lt placed /\ StronglySorted lb_range_before placed /\
    (forall e, In e placed -> exists p t j, lb_pfb e = N.of_nat p /\ lb_j e = N.of_nat j /\
                 nth_error btxs p = Some t /\ nth_error (btx_blobs t) j = Some (lb_blob e)) /\
    forall p t, nth_error btxs p = Some t ->
      exists w idx, nth_error ws p = Some w /\
        unmarshal_index_wrapper w = Some (mk_iw (btx_tx t) idx type_id_indx) /\
        length idx = length (btx_blobs t) /\
        forall j b, nth_error (btx_blobs t) j = Some b ->
          exists e, In e placed /\ lb_pfb e = N.of_nat p /\ lb_j e = N.of_nat j /\ lb_blob e = b /\
            lb_n e = blob_share_count b /\
            nth_error idx j = Some (lb_index e) /\
            firstn (N.to_nat (blob_share_count b)) (skipn (N.to_nat (lb_index e)) sq) = blob_spec b /\
            lb_index e + blob_share_count b <= lenN sq /\
            lb_index e mod subtree_width (blob_share_count b) thr = 0.
Proof.
  intros Ht Hmax Hraws H.
  destruct (build_ok_inv raws max thr sq kept Ht Hmax Hraws H) as (normals & btxs & Hs & -> & Hok & _ & _ & Hest).
  pose proof (c07_btxs_lay _ Hok) as Hlay.
  destruct (layout_indexes thr normals btxs Ht Hlay Hest) as (ws & Hw & Hwl & Hall).
  destruct (placed_order thr normals btxs Ht) as (Hk & Hr & _).
  exists normals, btxs, ws, (lay_placed thr normals btxs).
  split; [exact Hs|]. split; [exact Hw|]. split; [exact Hwl|]. split; [exact Hk|]. split; [exact Hr|].
  split; [intros e He; exact (placed_from_tx thr normals btxs e He)|exact Hall].
Qed.

(* ================================================================== *)
(* Build's square is Construct's square of the kept list (C01)          *)
(* ================================================================== *)

(* so every statement about [construct] above (in particular the two queries, which take a
   transaction list) applies to the pair (kept, sq) that Build returns *)
Theorem build_kept_construct raws max thr sq kept : c07_raws_ok raws ->
  build raws max thr = Ok (sq, kept) ->
  c07_raws_ok kept /\ construct kept max thr = Ok sq.
Proof.
  intros Hraws H.
  destruct (BuildProofs.build_construct_agree raws max thr sq kept H) as (n & bt & -> & _ & _ & S1 & S2 & Hc).
  split; [|exact Hc]. unfold c07_raws_ok in *. rewrite Forall_forall in *. intros r Hr. apply Hraws.
  apply in_app_or in Hr. destruct Hr as [Hr|Hr];
    [exact (BuildProofs.sublist_In _ _ S1 r Hr)|exact (BuildProofs.sublist_In _ _ S2 r Hr)].
Qed.

(* ================================================================== *)
(* C20 spelled out, with the PFB sequence read from the square          *)
(* ================================================================== *)

Lemma layout_square_sequences thr normals btxs : 1 <= thr -> Forall lay_btx_ok btxs ->
  estimate thr normals btxs < 2097152 ->
  square_sequences normals btxs (layout thr normals btxs).
Proof.
  intros Ht Hok Hest.
  destruct (layout_tiling thr normals btxs Ht Hok Hest) as (H1 & H2 & H3).
  destruct (layout_sequences thr normals btxs Ht Hok Hest) as (H4 & H5 & H6 & _).
  destruct (layout_payloads thr normals btxs Ht Hok Hest) as (H7 & H8 & H9).
  exists (wrappers (lay_placed thr normals btxs) 0 btxs), (layout_seqs thr normals btxs).
  split; [apply layout_wrapped_pfbs; assumption|]. split; [apply wrappers_length|].
  split; [exact H1|]. split; [exact H2|]. split; [exact H3|]. cbv zeta.
  split; [exact H4|]. split; [exact H5|]. split; [exact H6|]. split; [exact H7|]. split; [exact H8|exact H9].
Qed.

Theorem construct_sequences raws max thr sq : 1 <= thr -> (max <= 1024)%Z -> c07_raws_ok raws ->
  construct raws max thr = Ok sq ->
  exists normals btxs, split_ordered false raws [] [] = Some (normals, btxs) /\
    square_sequences normals btxs sq.
Proof.
  intros Ht Hmax Hraws H.
  destruct (construct_ok_inv raws max thr sq Ht Hmax Hraws H) as (normals & btxs & Hs & -> & Hok & _ & _ & Hest).
  exists normals, btxs. split; [exact Hs|].
  apply layout_square_sequences; [exact Ht|apply c07_btxs_lay, Hok|exact Hest].
Qed.

Theorem build_sequences raws max thr sq kept : 1 <= thr -> (max <= 1024)%Z -> c07_raws_ok raws ->
  build raws max thr = Ok (sq, kept) ->
  exists normals btxs, keep (Z.to_N max * Z.to_N max) thr raws [] [] [] [] = Some (normals, btxs, kept) /\
    square_sequences normals btxs sq.
Proof.
  intros Ht Hmax Hraws H.
  destruct (build_ok_inv raws max thr sq kept Ht Hmax Hraws H) as (normals & btxs & Hs & -> & Hok & _ & _ & Hest).
  exists normals, btxs. split; [exact Hs|].
  apply layout_square_sequences; [exact Ht|apply c07_btxs_lay, Hok|exact Hest].
Qed.

(* the hypothesis on the blobs, spelled out *)
Lemma c07_btx_ok_iff t : c07_btx_ok t <->
  forall b, In b (btx_blobs t) ->
    blob_ok b /\ validate_for_blob (b_ns b) = true /\ lenN (b_data b) + signer_len b < 4294967296.
Proof.
  unfold c07_btx_ok, c07_blob_ok, lay_blob_ok. rewrite Forall_forall. split.
  - intros H b Hb. destruct (H b Hb) as [[H1 H2] H3]. split; [exact H1|split; [exact H2|exact H3]].
  - intros H b Hb. destruct (H b Hb) as (H1 & H2 & H3). split; [split; [exact H1|exact H2]|exact H3].
Qed.

Lemma c07_raws_ok_iff raws : c07_raws_ok raws <->
  forall r t b, In r raws -> unmarshal_blob_tx r = UbtOk t -> In b (btx_blobs t) ->
    blob_ok b /\ validate_for_blob (b_ns b) = true /\ lenN (b_data b) + signer_len b < 4294967296.
Proof.
  unfold c07_raws_ok, c07_raw_ok. rewrite Forall_forall. split.
  - intros H r t b Hr Hu Hb. exact (proj1 (c07_btx_ok_iff t) (H r Hr t Hu) b Hb).
  - intros H r Hr t Hu. apply c07_btx_ok_iff. intros b Hb. exact (H r t b Hr Hu Hb).
Qed.

(* ================================================================== *)
(* C12: transaction share ranges are exact, on the square itself        *)
(* ================================================================== *)
Local Open Scope nat_scope.

(* ---- list windows ---- *)
Lemma nth_error_map_seq {A} (f : nat -> A) n j : j < n -> nth_error (map f (seq 0 n)) j = Some (f j).
Proof.
  intros H. apply map_nth_error. rewrite (nth_error_nth' _ 0) by (rewrite seq_length; exact H).
  rewrite seq_nth by exact H. reflexivity.
Qed.

Lemma window_app {A} (a m c : list A) lo hi : lo <= hi <= length m ->
  firstn (hi - lo) (skipn (length a + lo) (a ++ m ++ c)) = firstn (hi - lo) (skipn lo m).
Proof.
  intros H. rewrite skipn_app, skipn_all2 by lia. cbn [app].
  replace (length a + lo - length a) with lo by lia.
  rewrite skipn_app. replace (lo - length m) with 0 by lia. rewrite skipn_O.
  rewrite firstn_app, skipn_length. replace (hi - lo - (length m - lo)) with 0 by lia.
  rewrite firstn_O, app_nil_r. reflexivity.
Qed.

(* ---- share j of a compact run, byte by byte ---- *)
Lemma compact_spec_ix_nth ns txs j : j < cneeded (length (stream txs)) ->
  nth_error (compact_spec_ix ns 0 txs) j =
  Some (cshare ns 0 (u32 (lenN (stream txs))) j (stream txs) (ustarts 0 (units txs))).
Proof.
  intros H. unfold compact_spec_ix. cbv zeta.
  exact (nth_error_map_seq (fun j => cshare ns 0 (u32 (lenN (stream txs))) j (stream txs) (ustarts 0 (units txs))) _ j H).
Qed.

Lemma compact_spec_ix_len ns txs : length (compact_spec_ix ns 0 txs) = cneeded (length (stream txs)).
Proof. unfold compact_spec_ix. cbv zeta. rewrite map_length, seq_length. reflexivity. Qed.

(* stream byte p (inside the payload window of share j) is byte chdr j + (p - coff j) of
   share j: after the namespace, the info byte, the sequence length (first share only) and
   the reserved bytes *)
Lemma cshare_byte ns ver total j s sts p : length ns = 29 -> coff j <= p < coff j + ccap j -> p < length s ->
  nth_error (cshare ns ver total j s sts) (chdr j + (p - coff j)) = nth_error s p.
Proof.
  intros Hns Hp Hl. unfold cshare. rewrite !app_assoc.
  set (hdr := (((ns ++ [info_of ver (Nat.eqb j 0)]) ++ (if Nat.eqb j 0 then be32 total else []))
               ++ be32 (N.of_nat (cres j s sts)))).
  assert (Hh : length hdr = chdr j).
  { unfold hdr. rewrite !app_length, Hns, length_be32. destruct j; cbn [Nat.eqb length chdr]; [rewrite length_be32|]; lia. }
  rewrite nth_error_app2 by lia. replace (chdr j + (p - coff j) - length hdr) with (p - coff j) by lia.
  unfold pad_to. rewrite nth_error_app1 by (rewrite sr_length_cchunk; lia).
  apply cchunk_nth, Hp.
Qed.

(* "share base + j of the square holds byte p of the stream s of a compact sequence that
   starts at share base": p lies in the payload window of the j-th share of the sequence
   and that byte of that share of the square is byte p of the stream *)
Definition holds_byte (sq : list share) (base : nat) (s : bytes) (j p : nat) : Prop :=
  coff j <= p < coff j + ccap j /\ p < length s /\
  exists sh, nth_error sq (base + j) = Some sh /\ nth_error sh (chdr j + (p - coff j)) = nth_error s p.

(* the shares of a square starting at [base] are the closed-form shares of txs *)
Definition run_at (sq : list share) (base : nat) (ns : namespace) (txs : list bytes) : Prop :=
  forall j, j < cneeded (length (stream txs)) ->
    nth_error sq (base + j) =
    Some (cshare ns 0 (u32 (lenN (stream txs))) j (stream txs) (ustarts 0 (units txs))).

(* a share of the run holds a byte of unit k iff it is in unit k's range *)
Lemma run_unit_exact sq base ns txs k t : length ns = 29 -> run_at sq base ns txs ->
  nth_error txs k = Some t ->
  forall j, (exists p, ustart txs k <= p < uend txs k /\ holds_byte sq base (stream txs) j p) <->
            fst (unit_range txs k) <= j < snd (unit_range txs k).
Proof.
  intros Hns Hrun Hk j. rewrite <- (unit_range_exact txs k t j Hk). split.
  - intros (p & Hp & (Hc & _)). exists p. split; assumption.
  - intros (p & Hp & Hc). exists p. split; [exact Hp|].
    assert (Hj : fst (unit_range txs k) <= j < snd (unit_range txs k))
      by (apply (unit_range_exact txs k t j Hk); exists p; split; assumption).
    destruct (unit_inside_range txs k t Hk) as (_ & _ & _ & [_ Hhi] & Hend).
    split; [exact Hc|]. split; [lia|]. eexists. split; [apply Hrun; lia|].
    apply cshare_byte; [exact Hns|exact Hc|lia].
Qed.

(* ---- the two runs of the layout ---- *)
Lemma layout_runs thr normals btxs : (1 <= thr)%N -> Forall lay_btx_ok btxs ->
  (estimate thr normals btxs < 2097152)%N ->
  let sq := layout thr normals btxs in
  let ws := wrappers (lay_placed thr normals btxs) 0 btxs in
  let ntx := cneeded (length (stream normals)) in
  run_at sq 0 tx_ns normals /\ run_at sq ntx pfb_ns ws /\
  (forall lo hi, lo <= hi <= ntx -> firstn (hi - lo) (skipn lo sq) = firstn (hi - lo) (skipn lo (compact_spec_ix tx_ns 0 normals))) /\
  (forall lo hi, lo <= hi <= cneeded (length (stream ws)) ->
     firstn (hi - lo) (skipn (ntx + lo) sq) = firstn (hi - lo) (skipn lo (compact_spec_ix pfb_ns 0 ws))).
Proof.
  intros Ht Hok Hest sq ws ntx. unfold sq. rewrite (layout_split thr normals btxs Ht Hok Hest).
  unfold tx_run, pfb_run. fold ws.
  pose proof (compact_spec_ix_len tx_ns normals) as L1. fold ntx in L1.
  pose proof (compact_spec_ix_len pfb_ns ws) as L2.
  split; [|split; [|split]].
  - intros j Hj. cbn [Nat.add]. rewrite nth_error_app1 by (rewrite L1; exact Hj). apply compact_spec_ix_nth, Hj.
  - intros j Hj. rewrite nth_error_app2 by lia. replace (ntx + j - length (compact_spec_ix tx_ns 0 normals)) with j by lia.
    rewrite nth_error_app1 by (rewrite L2; exact Hj). apply compact_spec_ix_nth, Hj.
  - intros lo hi H. apply (window_app [] (compact_spec_ix tx_ns 0 normals) _ lo hi). lia.
  - intros lo hi H. rewrite <- L1. apply window_app. lia.
Qed.

(* ---- square.TxShareRange ---- *)
(* the range of transaction k of the square made of the ordinary transactions [normals]
   and the wrapped PFBs [ws] *)
Definition square_tx_range (normals ws : list bytes) (k : nat) : nat * nat :=
  if Nat.ltb k (length normals) then unit_range normals k
  else let off := cneeded (length (stream normals)) in
       let r := unit_range ws (k - length normals) in (off + fst r, off + snd r).

Lemma corr_tx_share_range raws max thr b normals btxs ti : (1 <= thr)%N -> (max <= 1024)%Z ->
  new_builder_txs max thr raws = Ok b -> corr (Z.to_N max) thr b normals btxs ->
  tx_share_range raws ti max thr =
  if ((ti <? 0) || (Z.of_nat (length normals + length btxs) <=? ti))%Z then Err
  else Ok (zpair (square_tx_range normals (wrappers (lay_placed thr normals btxs) 0 btxs) (Z.to_nat ti))).
Proof.
  intros Ht Hmax Hnb C. rewrite tx_share_range_eq, Hnb. cbn [bind].
  destruct (export_corr_state (Z.to_N max) thr b normals btxs Ht (max_side_small max Hmax) C)
    as (b' & E & Htx & Hw & Hlen & _ & _).
  destruct (new_builder_txs_inv _ _ _ _ Hnb) as [(Hdone & _) _].
  unfold ensure_done. rewrite Hdone, E. cbn [bind fst]. rewrite Htx, Hlen.
  destruct ((ti <? 0) || (Z.of_nat (length normals + length btxs) <=? ti))%Z; [reflexivity|].
  unfold builder_tx_range, square_tx_range. rewrite Htx, Hw. reflexivity.
Qed.

(* the normals Construct collects are members of the input *)
Lemma split_ordered_incl : forall raws seen normals btxs n' b',
  split_ordered seen raws normals btxs = Some (n', b') -> forall t, In t n' -> In t normals \/ In t raws.
Proof.
  induction raws as [|r tl IH]; intros seen normals btxs n' b' H t Hin; cbn [split_ordered] in H.
  - injection H as <- _. left. exact Hin.
  - destruct (classify r) as [raw|raw bt|]; [| |discriminate].
    + destruct seen; [discriminate|]. destruct (IH _ _ _ _ _ H t Hin) as [Hi|Hi].
      * apply in_app_or in Hi. destruct Hi as [Hi|[<-|[]]]; [left; exact Hi|right; left; reflexivity].
      * right. right. exact Hi.
    + destruct (IH _ _ _ _ _ H t Hin) as [Hi|Hi]; [left; exact Hi|right; right; exact Hi].
Qed.

(* ---- C12 on the square Construct returns ---- *)
Theorem construct_tx_ranges raws max thr sq : (1 <= thr)%N -> (max <= 1024)%Z -> c07_raws_ok raws ->
  construct raws max thr = Ok sq ->
  exists normals btxs ws,
    split_ordered false raws [] [] = Some (normals, btxs) /\
    wrapped_pfbs sq = Ok ws /\ length ws = length btxs /\
    let ntx := cneeded (length (stream normals)) in
    (* where the two sequences are in the square *)
    run_at sq 0 tx_ns normals /\ run_at sq ntx pfb_ns ws /\
    (* the query, for every index *)
    (forall ti, tx_share_range raws ti max thr =
       if ((ti <? 0) || (Z.of_nat (length normals + length btxs) <=? ti))%Z then Err
       else Ok (zpair (square_tx_range normals ws (Z.to_nat ti)))) /\
    (* ordinary transaction i *)
    (forall i t, nth_error normals i = Some t ->
       let lo := fst (unit_range normals i) in
       let hi := snd (unit_range normals i) in
       tx_share_range raws (Z.of_nat i) max thr = Ok (Z.of_nat lo, Z.of_nat hi) /\
       lo < hi <= ntx /\
       (forall j, (exists p, ustart normals i <= p < uend normals i /\ holds_byte sq 0 (stream normals) j p)
                  <-> lo <= j < hi) /\
       firstn (uend normals i - ustart normals i) (skipn (ustart normals i) (stream normals)) = marshal_delimited t /\
       (Forall (fun r => r <> []) normals ->
        exists res, parse_txs (firstn (hi - lo) (skipn lo sq)) = Ok res /\ In t res)) /\
    (* blob transaction i: its wrapped PFB w as written in the square *)
    (forall i w, nth_error ws i = Some w ->
       let lo := fst (unit_range ws i) in
       let hi := snd (unit_range ws i) in
       tx_share_range raws (Z.of_nat (length normals + i)) max thr = Ok (Z.of_nat (ntx + lo), Z.of_nat (ntx + hi)) /\
       lo < hi <= cneeded (length (stream ws)) /\
       (forall j, (exists p, ustart ws i <= p < uend ws i /\ holds_byte sq ntx (stream ws) j p)
                  <-> lo <= j < hi) /\
       firstn (uend ws i - ustart ws i) (skipn (ustart ws i) (stream ws)) = marshal_delimited w /\
       exists res, parse_txs (firstn (hi - lo) (skipn (ntx + lo) sq)) = Ok res /\ In w res).
Proof.
  intros Ht Hmax Hraws H.
  destruct (construct_ok_inv raws max thr sq Ht Hmax Hraws H) as (normals & btxs & Hs & -> & Hok & _ & _ & Hest).
  pose proof (c07_btxs_lay _ Hok) as Hlay.
  destruct (construct_builder raws max thr _ H) as (b & b' & Hnb & _).
  destruct (new_builder_txs_corr raws max thr b Ht Hraws Hnb) as (n2 & bt2 & Hs2 & C).
  rewrite Hs in Hs2. injection Hs2 as <- <-.
  set (ws := wrappers (lay_placed thr normals btxs) 0 btxs).
  exists normals, btxs, ws.
  split; [exact Hs|]. split; [apply layout_wrapped_pfbs; assumption|]. split; [apply wrappers_length|].
  intros ntx. destruct (layout_runs thr normals btxs Ht Hlay Hest) as (R1 & R2 & W1 & W2). fold ws ntx in R2, W1, W2.
  pose proof (fun ti => corr_tx_share_range raws max thr b normals btxs ti Ht Hmax Hnb C) as Q. fold ws in Q.
  assert (Hwl : length ws = length btxs) by apply wrappers_length.
  split; [exact R1|]. split; [exact R2|]. split; [exact Q|]. split.
  - intros i t Hi lo hi.
    assert (Hil : i < length normals) by (apply nth_error_Some; congruence).
    destruct (unit_inside_range normals i t Hi) as (_ & _ & _ & Hr & _). fold lo hi ntx in Hr.
    split; [|split; [exact Hr|split; [|split]]].
    + rewrite Q. replace ((Z.of_nat i <? 0) || (Z.of_nat (length normals + length btxs) <=? Z.of_nat i))%Z with false by lia.
      unfold square_tx_range. rewrite Nat2Z.id. replace (Nat.ltb i (length normals)) with true by lia. reflexivity.
    + exact (run_unit_exact _ 0 tx_ns normals i t length_tx_ns R1 Hi).
    + exact (unit_bytes normals i t Hi).
    + intros Hne. rewrite (W1 lo hi) by lia.
      exact (unit_parsed_from_range tx_ns normals i t length_tx_ns eq_refl Hne (normals_stream_small thr normals btxs Hest) Hi).
  - intros i w Hi lo hi.
    assert (Hil : i < length ws) by (apply nth_error_Some; congruence).
    destruct (unit_inside_range ws i w Hi) as (_ & _ & _ & Hr & _). fold lo hi in Hr.
    split; [|split; [exact Hr|split; [|split]]].
    + rewrite Q.
      replace ((Z.of_nat (length normals + i) <? 0) || (Z.of_nat (length normals + length btxs) <=? Z.of_nat (length normals + i)))%Z
        with false by lia.
      unfold square_tx_range. rewrite Nat2Z.id. replace (Nat.ltb (length normals + i) (length normals)) with false by lia.
      cbv zeta. replace (length normals + i - length normals) with i by lia. reflexivity.
    + exact (run_unit_exact _ ntx pfb_ns ws i w length_pfb_ns R2 Hi).
    + exact (unit_bytes ws i w Hi).
    + rewrite (W2 lo hi) by lia.
      exact (unit_parsed_from_range pfb_ns ws i w length_pfb_ns eq_refl (wrappers_nonempty _ _ _)
               (wrappers_stream_small thr normals btxs Ht Hest) Hi).
Qed.

(* ================================================================== *)
(* Non-vacuity: concrete inputs satisfying the hypotheses               *)
(* ================================================================== *)
Local Open Scope N_scope.

Lemma c07_btx_of_lay t : lay_btx_ok t ->
  Forall (fun b => lenN (b_data b) + signer_len b < 4294967296) (btx_blobs t) -> c07_btx_ok t.
Proof.
  unfold lay_btx_ok, c07_btx_ok. intros H1 H2. rewrite Forall_forall in *. intros b Hb.
  split; [apply H1, Hb|apply H2, Hb].
Qed.

(* C02: the input of Properties/C02.v (two ordinary transactions; a blob transaction with
   two version 0 blobs, one with a version 1 blob), as raw bytes, maximum side 8, thr 1 *)
Definition e2e_c02_raws : list bytes := ex_normals ++ map blob_tx_bytes ex_c02_btxs.

Lemma e2e_c02_btxs_c07 : Forall c07_btx_ok ex_c02_btxs.
Proof.
  pose proof ex_c02_btxs_ok as H. apply Forall_cons_iff in H as [H1 H]. apply Forall_cons_iff in H as [H2 _].
  constructor; [|constructor; [|constructor]]; (apply c07_btx_of_lay; [assumption|]); cbn [ex_c02_btxs btx_blobs].
  - constructor; [vm_compute; reflexivity|]. constructor; [vm_compute; reflexivity|constructor].
  - constructor; [vm_compute; reflexivity|constructor].
Qed.

Example e2e_c02_hyps :
  1 <= 1 /\ (8 <= 1024)%Z /\
  Forall (fun r => r <> [] /\ unmarshal_blob_tx r = UbtNot) ex_normals /\
  Forall c07_btx_ok ex_c02_btxs /\
  Forall (fun t => btx_ok (btx_tx t) (btx_blobs t)) ex_c02_btxs /\
  Forall (fun t => mock_pfb_decoder (btx_tx t) = Ok (blob_sizes (btx_blobs t))) ex_c02_btxs /\
  is_ok (construct e2e_c02_raws 8 1) = true.
Proof.
  destruct ex_deconstruct_hyps as (_ & _ & _ & _ & H5 & _).
  split; [lia|]. split; [lia|]. split.
  { constructor; [split; [discriminate|vm_compute; reflexivity]|].
    constructor; [split; [discriminate|vm_compute; reflexivity]|constructor]. }
  split; [exact e2e_c02_btxs_c07|]. split; [exact ex_c02_wire_ok|]. split; [exact H5|].
  vm_compute. reflexivity.
Qed.

Example e2e_c02_round_trip :
  exists sq, construct e2e_c02_raws 8 1 = Ok sq /\ deconstruct mock_pfb_decoder sq = Ok e2e_c02_raws.
Proof.
  destruct e2e_c02_hyps as (H1 & H2 & H3 & H4 & H5 & H6 & H7).
  destruct (construct e2e_c02_raws 8 1) as [sq| |] eqn:E; [|discriminate H7|discriminate H7].
  exists sq. split; [reflexivity|].
  exact (construct_deconstruct mock_pfb_decoder 1 8 ex_normals ex_c02_btxs sq H1 H2 H3 H4 H5 H6 E).
Qed.

(* C03 / C20 / C04: the input of Properties/C07.v: ex_raws = two ordinary transactions, then
   two blob transactions made by MarshalBlobTx *)
Lemma e2e_ex_split : split_ordered false ex_raws [] [] = Some (ex_normals, [ex_btx1; ex_btx2]).
Proof. vm_compute. reflexivity. Qed.

Example e2e_ex_hyps : 1 <= 1 /\ (4 <= 1024)%Z /\ c07_raws_ok ex_raws /\ is_ok (construct ex_raws 4 1) = true /\
  new_builder_ok 4 = true /\ new_builder_ok 2 = true /\
  Forall (fun r => unmarshal_blob_tx r <> UbtErr) ex_raws /\ is_ok (build ex_raws 2 64) = true.
Proof.
  split; [lia|]. split; [lia|]. split; [exact (proj1 ex_raws_ok)|]. split; [vm_compute; reflexivity|].
  split; [reflexivity|]. split; [reflexivity|]. split; [|vm_compute; reflexivity].
  pose proof ex_raws_classified as Hc.
  assert (G : forall l, Forall (fun c => c <> UbtErr) (map unmarshal_blob_tx l) ->
              Forall (fun r => unmarshal_blob_tx r <> UbtErr) l) by (intros l; apply Forall_map).
  apply G. rewrite Hc. repeat constructor; discriminate.
Qed.

Example e2e_ex_shape :
  exists sq, construct ex_raws 4 1 = Ok sq /\ square_shape 1 ex_normals [ex_btx1; ex_btx2] 4 sq /\
             square_tiled 1 ex_normals [ex_btx1; ex_btx2] sq.
Proof.
  destruct e2e_ex_hyps as (H1 & H2 & H3 & H4 & _).
  destruct (construct ex_raws 4 1) as [sq| |] eqn:E; [|discriminate H4|discriminate H4]. exists sq. split; [reflexivity|].
  destruct (construct_shape ex_raws 4 1 sq H1 H2 H3 E) as (n & b & Hs & S).
  destruct (construct_tiled ex_raws 4 1 sq H1 H2 H3 E) as (n' & b' & Hs' & T).
  rewrite e2e_ex_split in Hs, Hs'. injection Hs as <- <-. injection Hs' as <- <-. split; assumption.
Qed.

(* C06: a history with a refused append: the two ordinary transactions and the two blob
   transactions fill the 4 x 4 square exactly (estimate 16); a further copy of the second
   blob transaction is refused *)
Definition e2e_ops : list aop :=
  map ATx ex_normals ++ [ABlobTx ex_btx1; ABlobTx ex_btx2; ABlobTx ex_btx2].

Example e2e_ops_ok : 1 <= 1 /\ 4 * 4 < 2097152 /\ Forall aop_ok e2e_ops.
Proof.
  split; [lia|]. split; [lia|]. destruct ex_blobs_c07 as [Ha Hb].
  assert (H1 : c07_btx_ok ex_btx1) by (constructor; [exact Ha|constructor]).
  assert (H2 : c07_btx_ok ex_btx2) by (constructor; [exact Hb|]; constructor; [exact Ha|constructor]).
  unfold e2e_ops. cbn [map ex_normals app].
  constructor; [exact I|]. constructor; [exact I|]. constructor; [exact H1|]. constructor; [exact H2|]. constructor; [exact H2|constructor].
Qed.

(* C12: the input of Properties/C12.v (transactions ending exactly on share boundaries) *)
Example e2e_ex12_raws_ok : c07_raws_ok ex12_txs.
Proof.
  assert (Hb : c07_blob_ok ex12_blob).
  { split; [|vm_compute; reflexivity].
    change ex12_blob with (mk_blob (ex_ns Byte.x01) (repeat Byte.x09 1000) 0 None).
    apply ex_blob_ok; [discriminate|vm_compute; reflexivity|left; reflexivity]. }
  assert (Hn : forall r, unmarshal_blob_tx r = UbtNot -> c07_raw_ok r) by (intros r Hr t Hu; congruence).
  assert (E1 : unmarshal_blob_tx ex12_btx1 = UbtOk (mk_btx (repeat Byte.x0b 460) [ex12_blob])) by (vm_compute; reflexivity).
  assert (E2 : unmarshal_blob_tx ex12_btx2 = UbtOk (mk_btx [Byte.x0a; Byte.x0b] [ex12_blob; ex12_blob])) by (vm_compute; reflexivity).
  unfold ex12_txs, ex12_normal. cbn [app].
  do 5 (constructor; [apply Hn; vm_compute; reflexivity|]).
  constructor; [|constructor; [|constructor]].
  - intros t Hu. rewrite E1 in Hu. injection Hu as <-. constructor; [exact Hb|constructor].
  - intros t Hu. rewrite E2 in Hu. injection Hu as <-. constructor; [exact Hb|]. constructor; [exact Hb|constructor].
Qed.
