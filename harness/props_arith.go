package main

// Generators and direct oracles for C15 (arithmetic laws), C13 (share count
// predictions) and C18 (namespaces).

import (
	"bytes"
	"fmt"
	"math/big"
	"sort"
	"strconv"
	"strings"

	square "github.com/celestiaorg/go-square/v2"
	"github.com/celestiaorg/go-square/v2/inclusion"
	"github.com/celestiaorg/go-square/v2/share"
)

func init() {
	generators["C15"] = genC15
	generators["C13"] = genC13
	generators["C18"] = genC18
}

func isPow2(x int) bool { return x > 0 && x&(x-1) == 0 }

// leastPow2Side: least power of two s with s*s >= n (integers only)
func leastPow2Side(n int) int {
	s := 1
	for s*s < n {
		s *= 2
	}
	return s
}

func ceilDiv(a, b int) int { return (a + b - 1) / b }

func oracleC15Width(c *Ctx, n, t int) int {
	w := inclusion.SubTreeWidth(n, t)
	wit := map[string]any{"n": n, "t": t}
	c.check(isPow2(w), "SubTreeWidth", "width is not a power of two", wit)
	ms := leastPow2Side(n)
	c.check(inclusion.BlobMinSquareSize(n) == ms, "BlobMinSquareSize", "not the least power-of-two side covering n", wit)
	c.check(w <= ms, "SubTreeWidth", "width exceeds the minimal square side", wit)
	// least power of two w' with ceil(n/w') <= t
	lw := 1
	for ceilDiv(n, lw) > t {
		lw *= 2
	}
	exp := lw
	if ms < exp {
		exp = ms
	}
	c.check(w == exp, "SubTreeWidth", "width is not min(least pow2 with ceil(n/w)<=t, min side)", wit)
	return w
}

func oracleC15MMR(c *Ctx, n, w int) {
	sizes, err := inclusion.MerkleMountainRangeSizes(uint64(n), uint64(w))
	wit := map[string]any{"n": n, "w": w}
	if !c.check(err == nil, "MerkleMountainRangeSizes", "error", wit) {
		return
	}
	sum := 0
	prev := w
	ok := true
	for _, s := range sizes {
		if !isPow2(int(s)) || int(s) > prev {
			ok = false
		}
		prev = int(s)
		sum += int(s)
	}
	c.check(ok && sum == n, "MerkleMountainRangeSizes", "sizes are not non-increasing powers of two <= width summing to n", wit)
}

func genC15(c *Ctx) {
	c.rule = "subtree width / mountain range / next index / rounding helpers on an exhaustive small grid plus boundary and random points; non-trivial = distinct (function,arguments) whose result is not the argument itself"
	r := c.rng
	s := func(i int) string { return strconv.Itoa(i) }
	addW := func(n, t int) {
		c.add("stw", s(n), s(t))
		w := oracleC15Width(c, n, t)
		if w != n {
			c.mark(fmt.Sprintf("stw(%d,%d)", n, t))
		}
		if r.Intn(4) == 0 || n < 64 {
			c.add("mmr", s(n), s(w))
			oracleC15MMR(c, n, w)
			c.mark(fmt.Sprintf("mmr(%d,%d)", n, w))
		}
	}
	// the commitment code USES the laws: the number of subtree roots of a blob that occupies n shares is the
	// number of mountains of MerkleMountainRangeSizes(n, SubTreeWidth(n, t)) - for both share versions (a
	// version 1 blob's signer takes 20 bytes of the first share, so n is not a function of the data length alone),
	// at the data lengths next to every share boundary
	c.guard("GenerateSubtreeRoots", map[string]any{"sweep": "share-boundary data lengths x versions x thresholds"}, func() {
		nsC := blobNamespaces(r, 1)[0]
		for _, t := range []int{1, 2, 3, 5, 64} {
			for n := 1; n <= 132; n++ {
				for ver := 0; ver <= 1; ver++ {
					lmax := func(k int) int { return 478 - 20*ver + 482*(k-1) } // most data bytes that fit k shares
					for _, l := range []int{lmax(n-1) + 1, lmax(n-1) + 20, lmax(n-1) + 21, lmax(n)} {
						if l < 1 || (t < 64 && n > 40 && l != lmax(n-1)+1) {
							continue
						}
						g := genBlob{ns: nsC, ver: uint8(ver), data: make([]byte, l)}
						if ver == 1 {
							g.signer = make([]byte, 20)
						}
						bl := g.blob()
						shs, err := bl.ToShares()
						if err != nil {
							continue
						}
						roots, err := inclusion.GenerateSubtreeRoots(bl, t)
						w := inclusion.SubTreeWidth(len(shs), t)
						sizes, _ := inclusion.MerkleMountainRangeSizes(uint64(len(shs)), uint64(w))
						c.check(err == nil && len(roots) == len(sizes) && len(shs) >= n-1 && len(shs) <= n+1, "GenerateSubtreeRoots",
							"number of subtree roots is not the number of mountains of MerkleMountainRangeSizes(n, SubTreeWidth(n, t)) for the blob's share count n",
							map[string]any{"data_len": l, "version": ver, "threshold": t, "shares": len(shs), "roots": len(roots), "want": len(sizes)})
						c.count(fmt.Sprintf("subtree_root_count_v%d", ver))
					}
				}
			}
		}
	})
	nmax, tmax := 160, 12
	if c.tier == "thorough" {
		nmax, tmax = 1200, 70
	}
	for n := 1; n <= nmax; n++ {
		for t := 1; t <= tmax; t++ {
			addW(n, t)
		}
	}
	for i := 0; i < 1500*c.scale; i++ {
		n := 1 + r.Intn(1<<20)
		if r.Bool(30) {
			k := 1 << uint(r.Intn(20))
			n = k + r.Intn(5) - 2
			if n < 1 {
				n = 1
			}
		}
		addW(n, 1+r.Intn(130))
	}
	// thorough: the Go-side laws exhaustively (no model comparison) on a large grid
	if c.tier == "thorough" {
		for n := 1; n <= 1<<17; n++ {
			for t := 1; t <= 130; t++ {
				oracleC15Width(c, n, t)
			}
		}
		c.count("exhaustive_oracle_n_le_2^17_t_le_130")
	}
	// mmr with widths that are not the subtree width
	for i := 0; i < 300*c.scale; i++ {
		n := 1 + r.Intn(5000)
		w := 1 << uint(r.Intn(8))
		c.add("mmr", s(n), s(w))
		oracleC15MMR(c, n, w)
	}
	// next index / round up by multiple
	for cursor := 0; cursor <= 70; cursor++ {
		for _, v := range []int{1, 2, 3, 4, 7, 8, 16, 64} {
			c.add("rumo", s(cursor), s(v))
			got := inclusion.RoundUpByMultipleOf(cursor, v)
			c.check(got%v == 0 && got >= cursor && got-cursor < v, "RoundUpByMultipleOf", "not the least multiple >= cursor", map[string]any{"cursor": cursor, "v": v})
		}
	}
	for i := 0; i < 1500*c.scale; i++ {
		cursor := r.Intn(1 << 14)
		l := 1 + r.Intn(3000)
		t := 1 + r.Intn(130)
		c.add("nsi", s(cursor), s(l), s(t))
		w := inclusion.SubTreeWidth(l, t)
		got := inclusion.NextShareIndex(cursor, l, t)
		c.check(got%w == 0 && got >= cursor && got-cursor < w, "NextShareIndex", "not the least multiple of the subtree width at or after the cursor", map[string]any{"cursor": cursor, "len": l, "t": t})
		if got != cursor {
			c.mark(fmt.Sprintf("nsi(%d,%d,%d)", cursor, l, t))
		}
	}
	// the arithmetic functions are pure: the same points asked again in another order, interleaved with
	// near-colliding arguments (n and n+1, t and t +- 256), and thresholds far above the usual range
	{
		type pt struct{ cursor, n, t int }
		var ps []pt
		for i := 0; i < 120*c.scale; i++ {
			n := 1 + r.Intn(20000)
			if r.Bool(30) {
				n = pick(r, []int{100, 512, 513, 1024, 1280, 8192, 8193, 9000, 16384, 20000})
			}
			t := pick(r, []int{1, 2, 3, 64, 130, 255, 256, 257, 512, 1000, 65536})
			ps = append(ps, pt{r.Intn(1 << 15), n, t}, pt{r.Intn(1 << 15), n + 1, t}, pt{r.Intn(1 << 15), n, t})
		}
		first := make([][3]int, len(ps))
		for i, p := range ps {
			first[i] = [3]int{inclusion.SubTreeWidth(p.n, p.t), inclusion.NextShareIndex(p.cursor, p.n, p.t), inclusion.BlobMinSquareSize(p.n)}
			c.add("stw", s(p.n), s(p.t))
			c.add("nsi", s(p.cursor), s(p.n), s(p.t))
			oracleC15Width(c, p.n, p.t)
			w := first[i][0]
			c.check(first[i][1]%w == 0 && first[i][1] >= p.cursor && first[i][1]-p.cursor < w, "NextShareIndex", "not the least multiple of the subtree width at or after the cursor", map[string]any{"cursor": p.cursor, "len": p.n, "t": p.t})
		}
		for i := len(ps) - 1; i >= 0; i-- {
			p := ps[i]
			again := [3]int{inclusion.SubTreeWidth(p.n, p.t), inclusion.NextShareIndex(p.cursor, p.n, p.t), inclusion.BlobMinSquareSize(p.n)}
			c.check(again == first[i], "SubTreeWidth/NextShareIndex/BlobMinSquareSize", "the answer to the same question depends on which questions were asked before", map[string]any{"cursor": p.cursor, "len": p.n, "t": p.t})
		}
		c.count("repeated_in_other_order")
	}
	// rounding helpers
	var pts []int
	for i := -3; i <= 2100; i++ {
		pts = append(pts, i)
	}
	for e := 11; e <= 61; e++ {
		for d := -2; d <= 2; d++ {
			pts = append(pts, (1<<uint(e))+d)
		}
	}
	for _, x := range pts {
		c.add("ispow2", s(x))
		c.check(square.IsPowerOfTwo(x) == isPow2(x), "IsPowerOfTwo", "wrong", map[string]any{"x": x})
		c.add("rdown", s(x))
		v, err := inclusion.RoundDownPowerOfTwo(x)
		if x <= 0 {
			c.check(err != nil, "RoundDownPowerOfTwo", "no error for non-positive input", map[string]any{"x": x})
		} else {
			c.check(err == nil && isPow2(v) && v <= x && 2*v > x, "RoundDownPowerOfTwo", "not the greatest power of two <= x", map[string]any{"x": x})
		}
		if x >= 0 {
			c.add("rup", s(x))
			u := inclusion.RoundUpPowerOfTwo(x)
			c.check(isPow2(u) && u >= x && (u == 1 || u/2 < x), "RoundUpPowerOfTwo", "not the least power of two >= x", map[string]any{"x": x})
			c.mark("rup" + s(x))
		}
	}
	// minimal side (float sqrt): all small n, neighbourhoods of perfect squares up to 2^52
	sideOracle := func(n int) {
		got := square.Size(n)
		g2 := inclusion.BlobMinSquareSize(n)
		// least power of two s with s*s >= n, using big integers for the large cases
		sBig := big.NewInt(1)
		nb := big.NewInt(int64(n))
		for new(big.Int).Mul(sBig, sBig).Cmp(nb) < 0 {
			sBig.Lsh(sBig, 1)
		}
		c.check(sBig.IsInt64() && int(sBig.Int64()) == got && got == g2, "Size/BlobMinSquareSize", "not the least power-of-two side whose area covers n", map[string]any{"n": n})
	}
	lim := 4200
	if c.tier == "thorough" {
		lim = 1 << 16
		for n := 0; n <= 1<<24; n++ {
			if n%7 == 0 || n < 1<<20 {
				sideOracle(n)
			}
		}
		c.count("exhaustive_side_oracle_n_lt_2^20")
	}
	for n := 0; n <= lim; n++ {
		c.add("minsq", s(n))
		c.add("sqsize", s(n))
		sideOracle(n)
	}
	for i := 0; i < 400*c.scale; i++ {
		// the property quantifies over lengths up to 2^52 = (2^26)^2: float64 sqrt is
		// exact enough below that (2^52+1 is the first length on which it is not)
		k := 1 + r.Intn(1<<26)
		if r.Bool(50) {
			k = 1 << uint(r.Intn(27))
		}
		for d := -3; d <= 3; d++ {
			n := k*k + d
			if n >= 0 && n <= 1<<52 {
				c.add("minsq", s(n))
				sideOracle(n)
				c.mark("minsq" + s(n))
			}
		}
	}
	// the METHOD Square.Size() on share lists of every length 0..300 (squares that are not k*k long included):
	// it must agree with the function Size(len) and be the least power of two whose square holds the shares
	for n := 0; n <= 300; n++ {
		sq := square.Square(share.TailPaddingShares(n))
		got := sq.Size()
		ok := got == square.Size(n) && got*got >= n && isPow2(got) && (got == 1 || (got/2)*(got/2) < n)
		c.check(ok, "Square.Size", "the method disagrees with Size(len) / is not the least power of two whose square holds the shares", map[string]any{"shares": n})
	}
	c.count("square_size_method_0_300")
	// rounding helpers and IsPowerOfTwo near every power of two up to 2^62 (beyond, RoundUpPowerOfTwo does
	// not terminate, section 7 of DESIGN.md), and at the negative side
	for e := 1; e <= 62; e++ {
		for d := -1; d <= 1; d++ {
			n := (1 << uint(e)) + d
			if n > 1<<62 {
				continue
			}
			// the root package has its own copy of RoundUpPowerOfTwo: the two must agree (also beyond 2^32)
			c.check(square.RoundUpPowerOfTwo(n) == inclusion.RoundUpPowerOfTwo(n) && isPow2(square.RoundUpPowerOfTwo(n)) &&
				square.RoundUpPowerOfTwo(uint64(n)) == uint64(inclusion.RoundUpPowerOfTwo(n)),
				"square.RoundUpPowerOfTwo", "differs from inclusion.RoundUpPowerOfTwo / not a power of two", map[string]any{"n": n})
			c.add("rup", s(n))
			c.add("rdown", s(n))
			c.add("ispow2", s(n))
			c.add("ispow2", s(-n))
		}
	}
	// RoundUpByMultipleOf on arbitrary cursors and multiples; BlobSharesUsed with zero lengths / no blobs
	for i := 0; i < 300; i++ {
		cur := int(r.U64() % (1 << uint(1+r.Intn(40))))
		v := 1 + int(r.U64()%uint64(1+r.Intn(5000)))
		c.add("rumo", s(cur), s(v))
		got := inclusion.RoundUpByMultipleOf(cur, v)
		c.check(got >= cur && got%v == 0 && got-cur < v, "RoundUpByMultipleOf", "not the least multiple of v at or after the cursor", map[string]any{"cursor": cur, "v": v})
	}
	c.add("bsu", "7", "3", "")
	c.add("bsu", "7", "3", "0")
	c.add("bsu", "5", "64", "0,0,3,0")
	// MerkleMountainRangeSizes with maximal tree sizes that are NOT powers of two (the function does not
	// require one) and totals up to 2^40
	for i := 0; i < 200; i++ {
		total := int(r.U64() % (1 << uint(1+r.Intn(40))))
		w := 1 + int(r.U64()%uint64(1+r.Intn(300)))
		w += total / 1500 // at most ~1500 maximal trees in the result
		c.add("mmr", s(total), s(w))
	}
	// MerkleMountainRangeSizes called directly: every total 1..70 against every power-of-two maximal tree size
	// 1..128, so also totals BELOW the maximum (which the commitment code never passes: the width is <= n)
	for total := 1; total <= 70; total++ {
		for w := 1; w <= 128; w *= 2 {
			c.add("mmr", s(total), s(w))
			oracleC15MMR(c, total, w)
		}
	}
	// BlobSharesUsedNonInteractiveDefaults
	for i := 0; i < 300*c.scale; i++ {
		k := 1 + r.Intn(6)
		lens := ""
		for j := 0; j < k; j++ {
			if j > 0 {
				lens += ","
			}
			lens += s(1 + r.Intn(600))
		}
		c.add("bsu", s(r.Intn(500)), s(1+r.Intn(80)), lens)
	}
	// every ordered triple of blob lengths from a small set with widths 1..8 (wide, narrow, wider again; whole and
	// broken subtrees), thresholds 1..3, aligned and misaligned cursors: each blob at the least multiple of
	// its OWN width - an alignment remembered from an earlier blob must not be trusted
	{
		set := []int{1, 2, 3, 4, 5, 8, 9, 16, 17, 64, 65}
		for t := 1; t <= 3; t++ {
			for _, a := range set {
				for _, b := range set {
					for _, d := range set {
						cur := (a*7 + b*3 + d) % 9
						lensI := []int{a, b, d}
						pos := cur
						want := make([]uint32, 0, 3)
						for _, n := range lensI {
							pos = inclusion.NextShareIndex(pos, n, t)
							want = append(want, uint32(pos))
							pos += n
						}
						used, idx := inclusion.BlobSharesUsedNonInteractiveDefaults(cur, t, lensI...)
						ok := used == pos-cur && len(idx) == 3 && idx[0] == want[0] && idx[1] == want[1] && idx[2] == want[2]
						c.check(ok, "BlobSharesUsedNonInteractiveDefaults", "differs from aligning each blob to its own subtree width in turn",
							map[string]any{"cursor": cur, "threshold": t, "lens": fmt.Sprint(lensI)})
						if (a+b+d+t)%3 == 0 {
							c.add("bsu", s(cur), s(t), s(a)+","+s(b)+","+s(d))
						}
					}
				}
			}
		}
		c.count("bsu_all_triples")
	}
	// consecutive blobs in one call whose lengths straddle a power of four (the minimal square side, which
	// caps the width, doubles there) while ceil(len/threshold) stays the same, for every threshold 1..130, at
	// aligned and misaligned cursors: each blob must be aligned to ITS OWN width (the fold recomputed from
	// SubTreeWidth / NextShareIndex, and the model)
	for t := 1; t <= 130; t++ {
		for k := 1; k <= 6; k++ {
			p4 := 1 << uint(2*k)
			for variant := 0; variant < 2; variant++ {
				lensI := []int{p4, p4 + 1}
				if variant == 1 {
					lensI = []int{p4 + 1, p4, p4 - 1, p4 + 2}
				}
				for _, cur := range []int{0, p4 + r.Intn(2*p4), 1 + r.Intn(7)} {
					want := []uint32{}
					pos := cur
					for _, n := range lensI {
						w := inclusion.SubTreeWidth(n, t)
						pos = inclusion.NextShareIndex(pos, n, t)
						c.check(pos%w == 0, "NextShareIndex", "not a multiple of the blob's subtree width", map[string]any{"cursor": cur, "threshold": t, "len": n})
						want = append(want, uint32(pos))
						pos += n
					}
					used, idx := inclusion.BlobSharesUsedNonInteractiveDefaults(cur, t, lensI...)
					ok := used == pos-cur && len(idx) == len(want)
					for j := 0; ok && j < len(idx); j++ {
						ok = idx[j] == want[j]
					}
					c.check(ok, "BlobSharesUsedNonInteractiveDefaults", "differs from aligning each blob to its own subtree width in turn",
						map[string]any{"cursor": cur, "threshold": t, "lens": fmt.Sprint(lensI)})
					ls := ""
					for j, n := range lensI {
						if j > 0 {
							ls += ","
						}
						ls += s(n)
					}
					c.add("bsu", s(cur), s(t), ls)
					c.count("bsu_power_of_four_straddle")
				}
			}
		}
	}
}

func genC13(c *Ctx) {
	c.rule = "closed-form needed/available functions on all small lengths and share-boundary lengths; counter add/revert histories replayed on a real splitter; blob lengths x versions predicted vs encoded; non-trivial = distinct history or length whose share count is > 1 or that contains a revert"
	r := c.rng
	s := func(i int) string { return strconv.Itoa(i) }
	var lens []int
	top := 3000
	if c.tier == "thorough" {
		top = 40000
	}
	for n := 0; n <= top; n++ {
		lens = append(lens, n)
	}
	for k := 1; k < 40; k++ {
		for d := -2; d <= 2; d++ {
			lens = append(lens, k*478+474+d, k*482+478+d, k*482+458+d)
		}
	}
	for _, e := range []int{16, 20, 24, 31} {
		for d := -2; d <= 2; d++ {
			lens = append(lens, (1<<uint(e))+d)
		}
	}
	lens = append(lens, 1<<32-1, 1<<32-2, 1<<32-479)
	for _, n := range lens {
		c.add("cneed", s(n))
		c.add("sneed", s(n))
		// inverse laws on the Go side
		cn := share.CompactSharesNeeded(uint32(n))
		sn := share.SparseSharesNeeded(uint32(n))
		wit := map[string]any{"n": n}
		c.check(share.AvailableBytesFromCompactShares(cn) >= n && (cn == 0 || share.AvailableBytesFromCompactShares(cn-1) < n), "CompactSharesNeeded", "not the least share count holding n bytes", wit)
		c.check(share.AvailableBytesFromSparseShares(sn) >= n && (sn == 0 || share.AvailableBytesFromSparseShares(sn-1) < n), "SparseSharesNeeded", "not the least share count holding n bytes", wit)
		if cn > 1 {
			c.mark("need" + s(n))
		}
	}
	if c.tier == "thorough" {
		for n := 0; n <= 1<<24; n++ {
			cn := share.CompactSharesNeeded(uint32(n))
			sn := share.SparseSharesNeeded(uint32(n))
			ok := share.AvailableBytesFromCompactShares(cn) >= n && (cn == 0 || share.AvailableBytesFromCompactShares(cn-1) < n) &&
				share.AvailableBytesFromSparseShares(sn) >= n && (sn == 0 || share.AvailableBytesFromSparseShares(sn-1) < n)
			if !ok {
				c.check(false, "SharesNeeded", "inverse law fails", map[string]any{"n": n})
			}
		}
		c.oracleN += 1 << 24
		c.count("exhaustive_inverse_oracle_n_le_2^24")
	}
	for n := -2; n <= 300; n++ {
		c.add("cavail", s(n))
		c.add("savail", s(n))
		if n >= 1 {
			a := share.AvailableBytesFromCompactShares(n)
			c.check(share.CompactSharesNeeded(uint32(a)) == n && share.CompactSharesNeeded(uint32(a+1)) == n+1, "AvailableBytesFromCompactShares", "n shares do not hold exactly that many bytes", map[string]any{"n": n})
			b := share.AvailableBytesFromSparseShares(n)
			c.check(share.SparseSharesNeeded(uint32(b)) == n && share.SparseSharesNeeded(uint32(b+1)) == n+1, "AvailableBytesFromSparseShares", "n shares do not hold exactly that many bytes", map[string]any{"n": n})
		}
	}
	for e := 9; e <= 53; e += 4 {
		for d := -1; d <= 1; d++ {
			c.add("cavail", s((1<<uint(e))+d))
			c.add("savail", s((1<<uint(e))+d))
			c.add("cavail", s(-(1<<uint(e))+d))
		}
	}
	for _, n := range []int{0, 1, 127, 128, 16383, 16384, 2097151, 2097152, 1 << 28, 1<<28 - 1, 1 << 35, 1<<62 - 1} {
		c.add("delimlen", s(n))
	}
	// counter histories against a real splitter
	for i := 0; i < 500*c.scale; i++ {
		k := 1 + r.Intn(14)
		ops := ""
		cnt := share.NewCompactShareCounter()
		var zc share.CompactShareCounter // the zero value of the exported type, used without the constructor
		var surviving []int
		lastWasAdd := false
		hasRevert := false
		for j := 0; j < k; j++ {
			if j > 0 {
				ops += ","
			}
			if r.Bool(25) {
				ops += "r"
				cnt.Revert()
				zc.Revert()
				if lastWasAdd {
					surviving = surviving[:len(surviving)-1]
				}
				lastWasAdd = false
				hasRevert = true
			} else {
				l := compactLen(r, 3000)
				ops += "a" + s(l)
				before := cnt.Size()
				d := cnt.Add(l)
				zc.Add(l)
				surviving = append(surviving, l)
				lastWasAdd = true
				c.check(cnt.Size()-before == d, "CompactShareCounter.Add", "returned increment differs from the change of Size", map[string]any{"ops": ops})
			}
			// oracle: a splitter fed the surviving lengths
			css := share.NewCompactShareSplitter(share.TxNamespace, share.ShareVersionZero)
			total := 0
			for _, l := range surviving {
				_ = css.WriteTx(make([]byte, l))
				total += l + len(uvarint(uint64(l))) // independent of the repository's own delimLen
			}
			rem := 0
			if total > 0 {
				if total < 474 {
					rem = total
				} else {
					rem = (total - 474) % 478
				}
			}
			c.check(css.Count() == cnt.Size() && cnt.Size() == share.CompactSharesNeeded(uint32(total)) && cnt.Remainder() == rem,
				"CompactShareCounter", "size/remainder differ from a splitter fed the surviving transactions", map[string]any{"ops": ops})
			c.check(css.Count() == zc.Size() && zc.Remainder() == rem,
				"CompactShareCounter", "a zero-value counter (not made by the constructor): size/remainder differ from a splitter fed the surviving transactions", map[string]any{"ops": ops})
		}
		c.add("counter", ops)
		if hasRevert || cnt.Size() > 1 {
			c.mark("counter:" + ops)
		}
		c.count(fmt.Sprintf("counter_len_%d", k/4*4))
	}
	// large units: lengths log-uniform over every octave 2^7 .. 2^21 (a wrong width threshold anywhere is hit)
	// plus the varint-width boundaries themselves, each history ending exactly on / one byte past a compact
	// share boundary, where a one-byte disagreement between counter and writer changes the share count
	for i := 0; i < 90*c.scale; i++ {
		e := 7 + i%15
		around := 1<<uint(e) + r.Intn(1<<uint(e))
		switch i % 6 {
		case 0:
			around = 1 << uint(e)
		case 1:
			around = 1<<uint(e) - 1
		}
		var lens []int
		prefix := 0
		if r.Bool(50) {
			l0 := compactLen(r, 3000)
			lens = append(lens, l0)
			prefix = l0 + len(uvarint(uint64(l0)))
		}
		lens = append(lens, alignedTxLen(prefix, around, i%2))
		cnt := share.NewCompactShareCounter()
		css := share.NewCompactShareSplitter(share.TxNamespace, share.ShareVersionZero)
		ops := ""
		total := 0
		for j, l := range lens {
			if j > 0 {
				ops += ","
			}
			ops += "a" + s(l)
			before := cnt.Size()
			d := cnt.Add(l)
			_ = css.WriteTx(make([]byte, l))
			total += l + len(uvarint(uint64(l)))
			rem := 0
			if total >= 474 {
				rem = (total - 474) % 478
			} else {
				rem = total
			}
			c.check(cnt.Size()-before == d && css.Count() == cnt.Size() && cnt.Size() == share.CompactSharesNeeded(uint32(total)) && cnt.Remainder() == rem,
				"CompactShareCounter", "size/remainder/increment differ from a splitter fed the same large transactions", map[string]any{"ops": ops})
		}
		c.add("counter", ops)
		c.mark("counter-large:" + ops)
		c.count(fmt.Sprintf("counter_large_2^%d", e))
	}
	// add / revert made exactly on a share boundary: the counter is filled to a boundary (>= 1 full share),
	// then a unit of at least one whole share is added and reverted, then a small one is added
	for i := 0; i < 40*c.scale; i++ {
		l0 := alignedTxLen(0, 400+r.Intn(1500), 0)
		big := 476 + r.Intn(3000)
		if i%3 == 0 {
			big = pick(r, []int{476, 477, 478, 954, 955, 956})
		}
		small := 1 + r.Intn(300)
		hist := []string{"a" + s(l0), "a" + s(big), "r", "a" + s(small)}
		if i%2 == 1 {
			hist = []string{"a" + s(l0), "a" + s(big), "r", "a" + s(big), "r", "a" + s(small), "a" + s(big)}
		}
		cnt := share.NewCompactShareCounter()
		css := share.NewCompactShareSplitter(share.TxNamespace, share.ShareVersionZero)
		var surviving []int
		for k, op := range hist {
			if op == "r" {
				cnt.Revert()
				surviving = surviving[:len(surviving)-1]
			} else {
				l, _ := strconv.Atoi(op[1:])
				cnt.Add(l)
				surviving = append(surviving, l)
			}
			_ = k
		}
		total := 0
		for _, l := range surviving {
			_ = css.WriteTx(make([]byte, l))
			total += l + len(uvarint(uint64(l)))
		}
		rem := total
		if total >= 474 {
			rem = (total - 474) % 478
		}
		ops := strings.Join(hist, ",")
		c.check(css.Count() == cnt.Size() && cnt.Remainder() == rem, "CompactShareCounter", "size/remainder after add+revert on a share boundary differ from a splitter fed the surviving transactions", map[string]any{"ops": ops})
		c.add("counter", ops)
		c.mark("counter-boundary-revert:" + ops)
		c.count("counter_boundary_revert")
	}
	// units beyond any real transaction (4- and 5-byte length prefixes, 2^28 and 2^35): counter arithmetic only,
	// against the closed form computed with an independent varint length
	for _, around := range []int{1<<28 - 1, 1 << 28, 1<<28 + 4321, 1 << 30, 1<<35 - 1, 1 << 35} {
		for delta := 0; delta <= 1; delta++ {
			l0 := compactLen(r, 3000)
			prefix := l0 + len(uvarint(uint64(l0)))
			l1 := around
			if around != 1<<28 && around != 1<<28-1 && around != 1<<35 && around != 1<<35-1 {
				l1 = alignedTxLen(prefix, around, delta)
			}
			l2 := alignedTxLen(prefix+l1+len(uvarint(uint64(l1))), 300+r.Intn(300), delta)
			cnt := share.NewCompactShareCounter()
			ops := ""
			total := 0
			for j, l := range []int{l0, l1, l2} {
				if j > 0 {
					ops += ","
				}
				ops += "a" + s(l)
				before := cnt.Size()
				d := cnt.Add(l)
				total += l + len(uvarint(uint64(l)))
				rem := total
				if total >= 474 {
					rem = (total - 474) % 478
				}
				c.check(cnt.Size()-before == d && cnt.Size() == refCompactNeeded(total) && cnt.Remainder() == rem,
					"CompactShareCounter", "size/remainder/increment differ from the closed form for a very long unit", map[string]any{"ops": ops})
			}
			c.add("counter", ops)
			c.mark("counter-huge:" + ops)
			c.count("counter_huge")
		}
	}
	// cumulative totals beyond 2^62 (an int still holds every individual length, the share count and the
	// remainder): model comparison only, the harness's own int arithmetic would overflow
	for _, hist := range [][]int{{100, 1 << 62, 1 << 62, 5000}, {1 << 61, 1 << 61, 1 << 61, 1<<61 - 4096, 77}, {1<<62 + 12345, 1<<61 + 1, 999}} {
		ops := ""
		cnt := share.NewCompactShareCounter()
		ok := true
		for j, l := range hist {
			if j > 0 {
				ops += ","
			}
			ops += "a" + s(l)
			before := cnt.Size()
			d := cnt.Add(l)
			ok = ok && d >= 0 && cnt.Size()-before == d && cnt.Remainder() >= 0 && cnt.Remainder() < 478
			if j%2 == 1 {
				ops += ",a777,r"
				cnt.Add(777)
				cnt.Revert()
			}
		}
		c.check(ok, "CompactShareCounter", "negative or inconsistent size/remainder/increment after a very large cumulative total", map[string]any{"ops": ops})
		c.add("counter", ops)
		c.mark("counter-cumulative:" + ops)
		c.count("counter_cumulative_2^62")
	}
	// prediction vs encoding for blobs (both share versions)
	nss := blobNamespaces(r, 3)
	var blens []int
	blens = append(blens, sparseHot...)
	for i := 0; i < 60*c.scale; i++ {
		blens = append(blens, 1+r.Intn(6000))
	}
	for _, l := range blens {
		for ver := uint8(0); ver <= 1; ver++ {
			g := genBlob{ns: nss[0], ver: ver, data: bytes.Repeat([]byte{7}, l)}
			if ver == 1 {
				g.signer = bytes.Repeat([]byte{9}, 20)
			}
			b := g.blob()
			shs, err := b.ToShares()
			wit := map[string]any{"version": int(ver), "data_len": l}
			if !c.check(err == nil, "Blob.ToShares", "error", wit) {
				continue
			}
			el := square.VerifNewElement(b, 0, 0, 64)
			c.check(el.NumShares == len(shs), "newElement", "predicted share count differs from the shares produced", wit)
			need, err := share.VerifNumberOfSharesNeeded(shs[0])
			c.check(err == nil && need == len(shs), "numberOfSharesNeeded", "predicted share count differs from the shares produced", wit)
			c.add("blobshares", hx(g.ns), s(int(ver)), showSigner(g.signer), hx(g.data))
			if len(shs) > 1 {
				c.mark(fmt.Sprintf("blob v%d len %d", ver, l))
			}
		}
	}
	// prediction vs encoding inside a square: Deconstruct predicts every blob's share count from the size in
	// the PFB plus the signer IT READS FROM THE BLOB'S OWN FIRST SHARE.  One blob transaction with a version 1
	// blob, then a version 0 blob ending 0..19 bytes before the end of its last share (where 20 more bytes
	// would need another share), then a third blob right behind it (no padding in between)
	{
		nss3 := blobNamespaces(r, 3)
		sort.Slice(nss3, func(i, j int) bool { return bytes.Compare(nss3[i], nss3[j]) < 0 })
		distinct := !bytes.Equal(nss3[0], nss3[1]) && !bytes.Equal(nss3[1], nss3[2])
		for d := 0; distinct && d < 20; d++ {
			for k := 1; k <= 3; k++ {
				bl := []genBlob{
					{ns: nss3[0], ver: 1, signer: randSigner(r), data: r.Bytes(1 + r.Intn(400))},
					{ns: nss3[1], ver: 0, data: r.Bytes(478 + 482*(k-1) - d)},
					{ns: nss3[2], ver: uint8(d % 2), data: r.Bytes(1 + r.Intn(400))},
				}
				if bl[2].ver == 1 {
					bl[2].signer = randSigner(r)
				}
				sizes := []uint32{uint32(len(bl[0].data)), uint32(len(bl[1].data)), uint32(len(bl[2].data))}
				raw := blobTxWithInner(mockPFB(r.Bytes(mockPFBExtraBytes), sizes), bl)
				wit := map[string]any{"blob_versions": "1,0," + s(int(bl[2].ver)), "v0_data_len": len(bl[1].data), "bytes_free_in_last_share": d}
				sq, err := square.Construct([][]byte{raw}, 16, 64)
				if !c.check(err == nil, "Construct", "error", wit) {
					continue
				}
				for j, g := range bl {
					rg, err := square.BlobShareRange([][]byte{raw}, 0, j, 16, 64)
					shs, _ := g.blob().ToShares()
					c.check(err == nil && rg.End-rg.Start == len(shs) && len(shs) == share.SparseSharesNeeded(uint32(len(g.data)+len(g.signer))),
						"BlobShareRange", "share count differs from the shares produced / SparseSharesNeeded", wit)
				}
				back, err := square.Deconstruct(sq, decodeMockPFB)
				c.check(err == nil && len(back) == 1 && bytes.Equal(back[0], raw), "Deconstruct", "predicted blob share counts do not recover the transaction the square was built from", wit)
				c.count("mixed_version_blob_tx_deconstruct")
				c.goOnly++
			}
		}
	}
	// prediction vs encoding for compact sequences written with share version 0 and 1 (a compact share
	// never carries a signer, whatever its version): every sequence length around one to three shares, so
	// that every count of free bytes in the last share occurs
	for target := 440; target <= 1440; target++ {
		for ver := uint8(0); ver <= 1; ver++ {
			ns := share.TxNamespace
			if target%2 == 1 {
				ns = share.PayForBlobNamespace
			}
			css := share.NewCompactShareSplitter(ns, ver)
			unit := bytes.Repeat([]byte{byte(target)}, target-2) // two-byte length prefix
			_ = css.WriteTx(unit)
			cnt := css.Count()
			shs, err := css.Export()
			wit := map[string]any{"share_version": int(ver), "sequence_len": target}
			if !c.check(err == nil && len(shs) > 0, "CompactShareSplitter.Export", "error", wit) {
				continue
			}
			want := share.CompactSharesNeeded(uint32(target))
			c.check(cnt == len(shs) && want == len(shs), "CompactSharesNeeded", "predicted share count differs from the shares produced", wit)
			need, err := share.VerifNumberOfSharesNeeded(shs[0])
			c.check(err == nil && need == len(shs), "numberOfSharesNeeded", "predicted share count of a compact sequence differs from the shares produced", wit)
			seqs, err := share.ParseShares(shs, false)
			c.check(err == nil && len(seqs) == 1 && len(seqs[0].Shares) == len(shs), "ParseShares", "the library's own compact sequence is not accepted as one sequence", wit)
			c.count(fmt.Sprintf("compact_sequence_v%d", ver))
			if target%23 == 0 || (target-474)%478 < 3 || (target-474)%478 > 455 {
				c.add("parseshares", "0", joinHexList(rawShares(shs)))
			} else {
				c.goOnly++
			}
		}
	}
}

// ---- C18 ----

func nsStructured(r *Rng) [][]byte {
	var out [][]byte
	add := func(b []byte) { out = append(out, append([]byte(nil), b...)) }
	consts := [][]byte{
		share.TxNamespace.Bytes(), share.IntermediateStateRootsNamespace.Bytes(), share.PayForBlobNamespace.Bytes(),
		share.PrimaryReservedPaddingNamespace.Bytes(), share.MinSecondaryReservedNamespace.Bytes(),
		share.TailPaddingNamespace.Bytes(), share.ParitySharesNamespace.Bytes(),
		make([]byte, 29),
	}
	for _, k := range consts {
		add(k)
		// neighbours +-1 as big-endian integers (when they exist)
		v := new(big.Int).SetBytes(k)
		for _, d := range []int64{-2, -1, 1, 2} {
			w := new(big.Int).Add(v, big.NewInt(d))
			if w.Sign() >= 0 && w.BitLen() <= 232 {
				b := w.FillBytes(make([]byte, 29))
				add(b)
			}
		}
	}
	// version 0 user namespaces, version 1, version 254, random
	for i := 0; i < 12; i++ {
		b := make([]byte, 29)
		copy(b[19:], r.Bytes(10))
		add(b)
		b2 := r.Bytes(29)
		add(b2)
		b3 := make([]byte, 29)
		b3[0] = byte(r.Intn(256))
		copy(b3[1+r.Intn(28):], r.Bytes(3))
		add(b3)
	}
	// carry chains
	b := bytes.Repeat([]byte{0xff}, 29)
	b[0] = 0
	add(b)
	b = make([]byte, 29)
	b[20] = 1
	add(b)
	return out
}

func genC18(c *Ctx) {
	c.rule = "pairs from reserved constants, their +-2 neighbours, user/random namespaces; constructors on (version,id length,prefix) grid; AddInt with carry chains and int extremes; non-trivial = distinct (op,args) with differing namespaces or non-zero addend"
	r := c.rng
	set := nsStructured(r)
	for i := 0; i < 20*c.scale; i++ {
		set = append(set, r.Bytes(29))
	}
	// version-0 values that no constructor builds but AddInt (carry out of the 10 user bytes) and
	// Share.Namespace() produce: non-zero bytes inside the 18-byte prefix; in pairs whose last 10 bytes are
	// equal, or ordered the other way round than their prefixes
	for i := 0; i < 6; i++ {
		a := make([]byte, 29)
		copy(a[19:], r.Bytes(10))
		b := append([]byte{}, a...)
		a[1+r.Intn(18)] = byte(1 + r.Intn(255))
		set = append(set, a, b)
		d := append([]byte{}, a...)
		d[28] ^= 0x55
		d[1+r.Intn(18)] ^= byte(1 + r.Intn(255))
		set = append(set, d)
	}
	// all version-0 values with one or two non-zero user bytes drawn from {01, 7f, 80, ff}: predicates and
	// validation only (no pairwise comparison), 760 values
	var sparseNs [][]byte
	vals := []byte{0x01, 0x7f, 0x80, 0xff}
	for p1 := 19; p1 < 29; p1++ {
		for _, v1 := range vals {
			a := make([]byte, 29)
			a[p1] = v1
			sparseNs = append(sparseNs, a)
			for p2 := p1 + 1; p2 < 29; p2++ {
				for _, v2 := range vals {
					b := append([]byte{}, a...)
					b[p2] = v2
					sparseNs = append(sparseNs, b)
				}
			}
		}
	}
	sgn := func(x int) int {
		if x < 0 {
			return -1
		}
		if x > 0 {
			return 1
		}
		return 0
	}
	maxPrim := share.MaxPrimaryReservedNamespace.Bytes()
	minSec := share.MinSecondaryReservedNamespace.Bytes()
	for _, a := range sparseNs {
		c.add("nsinfo", hx(a))
		x := nsOf(a)
		prim := bytes.Compare(a, maxPrim) <= 0
		c.check(x.IsPrimaryReserved() == prim && !x.IsSecondaryReserved() && x.IsReserved() == prim && (x.ValidateForBlob() == nil) == !prim &&
			x.IsTx() == bytes.Equal(a, share.TxNamespace.Bytes()) && x.IsPayForBlob() == bytes.Equal(a, share.PayForBlobNamespace.Bytes()) &&
			x.IsPrimaryReservedPadding() == bytes.Equal(a, maxPrim) && !x.IsTailPadding() && !x.IsParityShares(),
			"namespace predicates", "differ from their intervals / constants on a namespace with one or two non-zero bytes", map[string]any{"ns": hx(a)})
	}
	c.count("sparse_namespaces")
	for _, a := range set {
		c.add("nsinfo", hx(a))
		x := nsOf(a)
		wit := map[string]any{"ns": hx(a)}
		prim := bytes.Compare(a, maxPrim) <= 0
		sec := bytes.Compare(a, minSec) >= 0
		c.check(x.IsPrimaryReserved() == prim && x.IsSecondaryReserved() == sec && x.IsReserved() == (prim || sec), "IsReserved", "reserved predicates differ from their intervals", wit)
		c.check(x.IsTx() == bytes.Equal(a, share.TxNamespace.Bytes()) && x.IsPayForBlob() == bytes.Equal(a, share.PayForBlobNamespace.Bytes()) &&
			x.IsTailPadding() == bytes.Equal(a, share.TailPaddingNamespace.Bytes()) && x.IsParityShares() == bytes.Equal(a, share.ParitySharesNamespace.Bytes()) &&
			x.IsPrimaryReservedPadding() == bytes.Equal(a, share.PrimaryReservedPaddingNamespace.Bytes()), "Is*", "value predicates differ from their constants", wit)
		wantBlob := a[0] == 0 && bytes.Compare(a, maxPrim) > 0
		c.check((x.ValidateForBlob() == nil) == wantBlob, "ValidateForBlob", "does not accept exactly version-0 namespaces above the primary reserved range", wit)
		for _, b := range set {
			if r.Intn(3) != 0 && !bytes.Equal(a, b) {
				continue
			}
			c.add("nscmp", hx(a), hx(b))
			y := nsOf(b)
			want := bytes.Compare(a, b)
			cmp := x.Compare(y)
			ok := sgn(cmp) == want && x.Equals(y) == (want == 0) && x.IsLessThan(y) == (want < 0) && x.IsLessOrEqualThan(y) == (want <= 0) &&
				x.IsGreaterThan(y) == (want > 0) && x.IsGreaterOrEqualThan(y) == (want >= 0) && sgn(y.Compare(x)) == -want
			c.check(ok, "Namespace.Compare", "comparison predicates differ from byte-wise lexicographic order", map[string]any{"a": hx(a), "b": hx(b)})
			if want != 0 {
				c.mark("cmp " + hx(a) + " " + hx(b))
			}
		}
	}
	// constructors
	for _, ver := range []int{0, 1, 2, 127, 254, 255} {
		for _, idlen := range []int{0, 1, 10, 27, 28, 29, 40} {
			for variant := 0; variant < 4; variant++ {
				id := make([]byte, idlen)
				switch variant {
				case 1:
					if idlen > 18 {
						copy(id[18:], r.Bytes(idlen-18))
					}
				case 2:
					copy(id, r.Bytes(idlen))
				case 3:
					if idlen > 17 {
						id[17] = 1
					}
				}
				c.add("nsnew", strconv.Itoa(ver), hx(id))
				_, err := share.NewNamespace(uint8(ver), id)
				want := idlen == 28 && (ver == 255 || (ver == 0 && bytes.Equal(id[:18], make([]byte, 18))))
				c.check((err == nil) == want, "NewNamespace", "does not accept exactly well-formed (version,id) pairs", map[string]any{"version": ver, "id": hx(id)})
				full := append([]byte{byte(ver)}, id...)
				c.add("nsfrom", hx(full))
				_, err = share.NewNamespaceFromBytes(full)
				c.check((err == nil) == want, "NewNamespaceFromBytes", "does not accept exactly well-formed namespaces", map[string]any{"bytes": hx(full)})
				c.mark(fmt.Sprintf("ctor %d %s", ver, hx(id)))
			}
		}
	}
	type v0in struct {
		l    int
		fill int // 0 random, 1 all zero, 2 zero except the last 10 bytes, 3 zero except the last byte, 4 all 0xff
	}
	var v0ins []v0in
	for _, l := range []int{0, 1, 5, 9, 10, 11, 29} {
		v0ins = append(v0ins, v0in{l, 0})
	}
	// every length 0..40 with content that only a length test rejects (zero bytes in the excess positions)
	for l := 0; l <= 40; l++ {
		for fill := 1; fill <= 4; fill++ {
			v0ins = append(v0ins, v0in{l, fill})
		}
	}
	{
		// a nil and an empty sub-id are the same (well-formed, zero-length) sub-id
		a, errA := share.NewV0Namespace(nil)
		b, errB := share.NewV0Namespace([]byte{})
		c.check(errA == nil && errB == nil && bytes.Equal(a.Bytes(), make([]byte, 29)) && bytes.Equal(b.Bytes(), make([]byte, 29)),
			"NewV0Namespace", "nil / empty sub-id not accepted as the all-zero version 0 namespace", map[string]any{"sub": "nil and []byte{}"})
	}
	for _, in := range v0ins {
		l := in.l
		sub := r.Bytes(l)
		switch in.fill {
		case 1:
			sub = make([]byte, l)
		case 2:
			for i := 0; i < l-10; i++ {
				sub[i] = 0
			}
		case 3:
			sub = make([]byte, l)
			if l > 0 {
				sub[l-1] = 1 + byte(r.Intn(255))
			}
		case 4:
			sub = bytes.Repeat([]byte{0xff}, l)
		}
		c.add("nsv0", hx(sub))
		ns, err := share.NewV0Namespace(sub)
		c.check((err == nil) == (l <= 10), "NewV0Namespace", "acceptance", map[string]any{"sub": hx(sub)})
		if err == nil {
			c.check(bytes.Equal(ns.Bytes()[29-l:], sub) && bytes.Equal(ns.Bytes()[:29-l], make([]byte, 29-l)), "NewV0Namespace", "not left padded", map[string]any{"sub": hx(sub)})
		}
	}
	// AddInt
	const maxInt = int(^uint(0) >> 1)
	const minInt = -maxInt - 1
	addends := []int{0, 1, -1, 2, -2, 255, 256, -255, -256, 257, 65535, 65536, -65536, 1 << 32, -(1 << 32), maxInt, minInt, maxInt - 1, minInt + 1}
	for i := 0; i < 10*c.scale; i++ {
		addends = append(addends, int(r.U64()))
		addends = append(addends, int(r.U64()%100000)-50000)
	}
	limit := new(big.Int).Lsh(big.NewInt(1), 232)
	// carry / borrow chains of every length: version 0 and version 255 namespaces whose bytes from position k
	// to the end are all ff (resp. all 00), k = 1..28, the bytes before k random, zero, or one below / above -
	// a carry has to travel through the sub-id, the 18 prefix bytes and into the version byte exactly
	nPlain := len(set)
	for k := 1; k <= 28; k++ {
		for _, ver := range []byte{0, 255} {
			for variant := 0; variant < 3; variant++ {
				hi := make([]byte, 29)
				lo := make([]byte, 29)
				hi[0], lo[0] = ver, ver
				switch variant {
				case 1:
					copy(hi[1:k], r.Bytes(k-1))
					copy(lo[1:k], hi[1:k])
				case 2:
					if k > 1 {
						hi[k-1], lo[k-1] = 0xfe, 0x01
					}
				}
				for i := k; i < 29; i++ {
					hi[i] = 0xff
				}
				set = append(set, hi, lo)
			}
		}
	}
	chainAddends := []int{1, -1, 2, 1 << 62, -(1 << 62), maxInt, minInt, 257, -257}
	for ai, a := range set {
		for _, v := range addends {
			if ai >= nPlain {
				break
			}
			if r.Intn(3) != 0 {
				continue
			}
			c.add("nsadd", hx(a), strconv.Itoa(v))
			res, err := nsOf(a).AddInt(v)
			want := new(big.Int).Add(new(big.Int).SetBytes(a), big.NewInt(int64(v)))
			wit := map[string]any{"ns": hx(a), "v": v}
			if want.Sign() < 0 || want.Cmp(limit) >= 0 {
				c.check(err != nil, "AddInt", "no error on overflow/underflow", wit)
			} else {
				ok := err == nil && bytes.Equal(res.Bytes(), want.FillBytes(make([]byte, 29)))
				c.check(ok, "AddInt", "not exact big-endian addition", wit)
				if ok && v != minInt {
					back, err2 := res.AddInt(-v)
					c.check(err2 == nil && bytes.Equal(back.Bytes(), a), "AddInt", "adding the negation does not undo", wit)
				}
			}
			if v != 0 {
				c.mark("add " + hx(a) + " " + strconv.Itoa(v))
			}
		}
		if ai >= nPlain {
			for _, v := range chainAddends {
				c.add("nsadd", hx(a), strconv.Itoa(v))
				res, err := nsOf(a).AddInt(v)
				want := new(big.Int).Add(new(big.Int).SetBytes(a), big.NewInt(int64(v)))
				wit := map[string]any{"ns": hx(a), "v": v}
				if want.Sign() < 0 || want.Cmp(limit) >= 0 {
					c.check(err != nil, "AddInt", "no error on overflow/underflow", wit)
				} else {
					c.check(err == nil && bytes.Equal(res.Bytes(), want.FillBytes(make([]byte, 29))), "AddInt", "not exact big-endian addition (carry chain)", wit)
				}
				c.count("addint_carry_chain")
			}
		}
	}
	helperCases(c)
}
