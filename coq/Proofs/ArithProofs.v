(* Laws of the subtree-width, mountain-range, alignment and rounding arithmetic
   (property C15), for unbounded arguments. *)
From Coq Require Import List NArith ZArith Lia Bool Sorted.
From Coq Require Import ZifyN ZifyNat ZifyBool.
From GS.Model Require Import Base Arith.
Import ListNotations.
Open Scope N_scope.

Ltac Zify.zify_post_hook ::= Z.div_mod_to_equations.

Definition pow2 (n : N) : Prop := exists k : N, n = 2 ^ k.

Lemma pow2_pos n : pow2 n -> 0 < n.
Proof. intros [k ->]. apply N.neq_0_lt_0. apply N.pow_nonzero. lia. Qed.

Lemma pow2_1 : pow2 1.
Proof. exists 0. reflexivity. Qed.

Lemma pow2_le_cases j k : 2 ^ j <= 2 ^ k \/ 2 ^ k <= 2 ^ j.
Proof. lia. Qed.

(* two powers of two: the smaller divides... here we only need: order of exponents *)
Lemma pow2_lt_exp j k : 2 ^ j < 2 ^ k -> j < k.
Proof. intros H. apply N.pow_lt_mono_r_iff in H; lia. Qed.

Lemma pow2_le_exp j k : 2 ^ j <= 2 ^ k -> j <= k.
Proof. intros H. apply N.pow_le_mono_r_iff in H; lia. Qed.

(* ---------- RoundUpPowerOfTwo ---------- *)

Lemma rup_loop_spec : forall fuel j x,
  x <= 2 ^ (j + N.of_nat fuel) ->
  (j = 0 \/ 2 ^ (j - 1) < x) ->
  exists k, rup_loop fuel (2 ^ j) x = 2 ^ k /\ x <= 2 ^ k /\ (k = 0 \/ 2 ^ (k - 1) < x).
Proof.
  induction fuel as [|f IH]; intros j x Hx Hj.
  - cbn [rup_loop]. exists j. replace (j + N.of_nat 0) with j in Hx by lia. auto.
  - cbn [rup_loop]. destruct (2 ^ j <? x) eqn:E.
    + replace (2 * 2 ^ j) with (2 ^ (j + 1)) by (rewrite N.add_1_r, N.pow_succ_r'; reflexivity).
      apply IH.
      * replace (j + 1 + N.of_nat f) with (j + N.of_nat (S f)) by lia. exact Hx.
      * right. replace (j + 1 - 1) with j by lia. lia.
    + exists j. split; [reflexivity|]. split; [lia|exact Hj].
Qed.

(* the least power of two >= x *)
Theorem round_up_pow2_spec x :
  exists k, round_up_pow2 x = 2 ^ k /\ x <= 2 ^ k /\ (k = 0 \/ 2 ^ (k - 1) < x).
Proof.
  unfold round_up_pow2. change 1 with (2 ^ 0).
  apply rup_loop_spec; [|left; reflexivity].
  pose proof (N.size_gt x) as H.
  replace (0 + N.of_nat (S (N.to_nat (N.size x)))) with (N.size x + 1) by lia.
  rewrite N.add_1_r, N.pow_succ_r'. lia.
Qed.

Lemma round_up_pow2_pow2 x : pow2 (round_up_pow2 x).
Proof. destruct (round_up_pow2_spec x) as (k & -> & _). exists k. reflexivity. Qed.

Lemma round_up_pow2_ge x : x <= round_up_pow2 x.
Proof. destruct (round_up_pow2_spec x) as (k & -> & H & _). exact H. Qed.

(* least: every power of two >= x is >= the result *)
Lemma round_up_pow2_least x w : pow2 w -> x <= w -> round_up_pow2 x <= w.
Proof.
  intros [j ->] Hx. destruct (round_up_pow2_spec x) as (k & -> & _ & [->|Hk]).
  - simpl. pose proof (pow2_pos (2 ^ j) (ex_intro _ j eq_refl)). lia.
  - assert (2 ^ (k - 1) < 2 ^ j) by lia.
    apply pow2_lt_exp in H. apply N.pow_le_mono_r; lia.
Qed.

Lemma round_up_pow2_fix w : pow2 w -> round_up_pow2 w = w.
Proof.
  intros Hw. apply N.le_antisymm.
  - apply round_up_pow2_least; [exact Hw|lia].
  - apply round_up_pow2_ge.
Qed.

(* ---------- RoundDownPowerOfTwo ---------- *)

Theorem round_down_pow2_spec (x : Z) :
  ((x <= 0)%Z -> round_down_pow2 x = Err) /\
  ((0 < x)%Z -> exists r, round_down_pow2 x = Ok r /\ pow2 r /\ r <= Z.to_N x /\ Z.to_N x < 2 * r).
Proof.
  unfold round_down_pow2. split; intros Hx.
  - replace (x <=? 0)%Z with true by lia. reflexivity.
  - replace (x <=? 0)%Z with false by lia.
    set (i := Z.to_N x). assert (Hi : 0 < i) by (unfold i; lia).
    destruct (round_up_pow2_spec i) as (k & Hk & Hle & Hlow).
    destruct (round_up_pow2 i =? i) eqn:E.
    + exists (round_up_pow2 i). split; [reflexivity|].
      apply N.eqb_eq in E. rewrite E. split; [rewrite <- E; apply round_up_pow2_pow2|lia].
    + exists (round_up_pow2 i / 2). split; [reflexivity|].
      apply N.eqb_neq in E. rewrite Hk in *.
      destruct Hlow as [->|Hlow]; [simpl in *; lia|].
      assert (Hk1 : k = (k - 1) + 1) by (destruct (N.eq_dec k 0) as [->|]; [simpl in *; lia|lia]).
      assert (H2 : 2 ^ k = 2 * 2 ^ (k - 1)).
      { rewrite Hk1 at 1. rewrite N.add_1_r, N.pow_succ_r'. reflexivity. }
      rewrite H2. replace (2 * 2 ^ (k - 1) / 2) with (2 ^ (k - 1)) by (rewrite N.mul_comm, N.div_mul; lia).
      split; [exists (k - 1); reflexivity|]. lia.
Qed.

(* ---------- IsPowerOfTwo ---------- *)

Theorem is_pow2_spec (x : Z) : is_pow2 x = true <-> exists k : Z, (0 <= k /\ x = 2 ^ k)%Z.
Proof.
  unfold is_pow2. rewrite andb_true_iff, negb_true_iff, Z.eqb_eq, Z.eqb_neq.
  split.
  - intros [Hl Hnz].
    destruct (Z.lt_trichotomy x 0) as [Hneg|[->|Hpos]]; [|congruence|].
    + (* both negative: the conjunction is negative *)
      exfalso. assert (Z.land x (x - 1) < 0)%Z by (apply Z.land_neg; lia). lia.
    + exists (Z.log2 x). split; [apply Z.log2_nonneg|].
      destruct (Z.log2_spec x Hpos) as [Hlo Hhi].
      destruct (Z.eq_dec x (2 ^ Z.log2 x)) as [|Hne]; [assumption|exfalso].
      assert (Hl2 : Z.log2 (x - 1) = Z.log2 x).
      { apply Z.log2_unique; [apply Z.log2_nonneg|]. lia. }
      assert (Hb : Z.testbit (Z.land x (x - 1)) (Z.log2 x) = true).
      { rewrite Z.land_spec. rewrite Z.bit_log2 by lia.
        rewrite <- Hl2. rewrite Z.bit_log2; [reflexivity|].
        assert (0 < 2 ^ Z.log2 x)%Z by (apply Z.pow_pos_nonneg; [lia|apply Z.log2_nonneg]). lia. }
      rewrite Hl in Hb. rewrite Z.bits_0 in Hb. discriminate.
  - intros (k & Hk & ->). split.
    + replace (2 ^ k - 1)%Z with (Z.ones k) by (rewrite Z.ones_equiv; lia).
      rewrite Z.land_ones by lia. apply Z.mod_same. apply Z.pow_nonzero; lia.
    + apply Z.pow_nonzero; lia.
Qed.

(* ---------- minimal square side ---------- *)

Lemma ceil_sqrt_spec n :
  n <= ceil_sqrt n * ceil_sqrt n /\ (ceil_sqrt n = 0 \/ (ceil_sqrt n - 1) * (ceil_sqrt n - 1) < n).
Proof.
  unfold ceil_sqrt. pose proof (N.sqrt_spec n (N.le_0_l n)) as [Hlo Hhi].
  destruct (N.sqrt n * N.sqrt n =? n) eqn:E.
  - apply N.eqb_eq in E. split; [lia|].
    destruct (N.eq_dec (N.sqrt n) 0) as [->|Hnz]; [left; reflexivity|right]. nia.
  - apply N.eqb_neq in E. split; [nia|right].
    replace (N.sqrt n + 1 - 1) with (N.sqrt n) by lia. lia.
Qed.

(* BlobMinSquareSize n is the least power of two s with s*s >= n *)
Theorem blob_min_square_size_spec n :
  pow2 (blob_min_square_size n) /\
  n <= blob_min_square_size n * blob_min_square_size n /\
  (forall w, pow2 w -> n <= w * w -> blob_min_square_size n <= w).
Proof.
  unfold blob_min_square_size. destruct (ceil_sqrt_spec n) as [Hc Hl].
  split; [apply round_up_pow2_pow2|]. split.
  - pose proof (round_up_pow2_ge (ceil_sqrt n)). nia.
  - intros w Hw Hn. apply round_up_pow2_least; [exact Hw|].
    destruct Hl as [->|Hl]; [lia|]. nia.
Qed.

Theorem square_size_eq n : square_size n = blob_min_square_size n.
Proof. reflexivity. Qed.

(* ---------- SubTreeWidth ---------- *)

Definition ceil_div (n t : N) : N := n / t + (if n mod t =? 0 then 0 else 1).

Lemma ceil_div_le_iff n w t : 1 <= w -> (ceil_div n w <= t <-> n <= w * t).
Proof.
  intros Hw. unfold ceil_div.
  pose proof (N.div_mod n w) as Hdm. pose proof (N.mod_lt n w) as Hlt.
  set (q := n / w) in *. set (r := n mod w) in *.
  assert (Hn : n = w * q + r) by lia. assert (Hr : r < w) by lia. clearbody q r. clear Hdm Hlt.
  destruct (r =? 0) eqn:E.
  - apply N.eqb_eq in E. subst r. split; intros H0.
    + assert (w * q <= w * t) by (apply N.mul_le_mono_l; lia). lia.
    + destruct (N.le_gt_cases q t) as [|Hgt]; [lia|].
      assert (w * (t + 1) <= w * q) by (apply N.mul_le_mono_l; lia). lia.
  - apply N.eqb_neq in E. split; intros H0.
    + assert (w * (q + 1) <= w * t) by (apply N.mul_le_mono_l; lia). lia.
    + destruct (N.le_gt_cases (q + 1) t) as [|Hgt]; [assumption|].
      assert (w * t <= w * q) by (apply N.mul_le_mono_l; lia). lia.
Qed.

Lemma ceil_div_le n t w : 1 <= t -> 1 <= w -> (ceil_div n w <= t <-> ceil_div n t <= w).
Proof.
  intros Ht Hw. rewrite (ceil_div_le_iff n w t Hw), (ceil_div_le_iff n t w Ht).
  rewrite (N.mul_comm w t). reflexivity.
Qed.

(* the least power of two w with ceil(n/w) <= t *)
Definition least_width (n t : N) : N := round_up_pow2 (ceil_div n t).

Lemma least_width_spec n t : 1 <= t ->
  pow2 (least_width n t) /\ ceil_div n (least_width n t) <= t /\
  (forall w, pow2 w -> ceil_div n w <= t -> least_width n t <= w).
Proof.
  intros Ht. unfold least_width. split; [apply round_up_pow2_pow2|]. split.
  - apply ceil_div_le; [exact Ht| |apply round_up_pow2_ge].
    pose proof (pow2_pos _ (round_up_pow2_pow2 (ceil_div n t))). lia.
  - intros w Hw Hc. apply round_up_pow2_least; [exact Hw|].
    apply ceil_div_le; [pose proof (pow2_pos w Hw); lia|exact Ht|exact Hc].
Qed.

Lemma pow2_min a b : pow2 a -> pow2 b -> pow2 (N.min a b).
Proof. intros Ha Hb. destruct (N.min_spec a b) as [[_ ->]|[_ ->]]; assumption. Qed.

Theorem subtree_width_spec n t : 1 <= t ->
  subtree_width n t = N.min (least_width n t) (blob_min_square_size n) /\
  pow2 (subtree_width n t) /\
  subtree_width n t <= blob_min_square_size n.
Proof.
  intros Ht. unfold subtree_width. fold (ceil_div n t). fold (least_width n t).
  split; [reflexivity|]. split.
  - apply pow2_min; [apply round_up_pow2_pow2|apply (blob_min_square_size_spec n)].
  - apply N.le_min_r.
Qed.

Lemma subtree_width_pos n t : 1 <= t -> 1 <= subtree_width n t.
Proof. intros Ht. destruct (subtree_width_spec n t Ht) as (_ & Hp & _). pose proof (pow2_pos _ Hp). lia. Qed.

(* ---------- RoundUpByMultipleOf / NextShareIndex ---------- *)

Theorem round_up_by_multiple_of_spec c v : 1 <= v ->
  let r := round_up_by_multiple_of c v in
  r mod v = 0 /\ c <= r /\ r < c + v.
Proof.
  intros Hv. unfold round_up_by_multiple_of. destruct (c mod v =? 0) eqn:E; cbn zeta.
  - split; [lia|lia].
  - apply N.eqb_neq in E. split; [apply N.mod_mul; lia|].
    pose proof (N.div_mod c v) as Hdm. pose proof (N.mod_lt c v) as Hlt.
    set (q := c / v) in *. set (r := c mod v) in *.
    assert (Hc : c = v * q + r) by lia. assert (Hr : r < v) by lia. clearbody q r. clear Hdm Hlt.
    replace ((q + 1) * v) with (v * q + v) by lia. lia.
Qed.

(* least multiple of v at or after c *)
Corollary round_up_by_multiple_of_least c v m : 1 <= v -> m mod v = 0 -> c <= m ->
  round_up_by_multiple_of c v <= m.
Proof.
  intros Hv Hm Hc. destruct (round_up_by_multiple_of_spec c v Hv) as (H1 & H2 & H3).
  set (r := round_up_by_multiple_of c v) in *.
  destruct (N.le_gt_cases r m) as [|Hgt]; [assumption|exfalso].
  (* m < r < c + v <= m + v, both multiples of v *)
  pose proof (N.div_mod r v) as Hr. pose proof (N.div_mod m v) as Hm'.
  set (a := r / v) in *. set (b := m / v) in *.
  assert (Ha : r = v * a) by lia. assert (Hb : m = v * b) by lia. clearbody a b.
  destruct (N.le_gt_cases a b) as [Hab|Hab].
  - assert (v * a <= v * b) by (apply N.mul_le_mono_l; lia). lia.
  - assert (v * (b + 1) <= v * a) by (apply N.mul_le_mono_l; lia). lia.
Qed.

Theorem next_share_index_spec c len t : 1 <= t ->
  let w := subtree_width len t in
  let r := next_share_index c len t in
  r mod w = 0 /\ c <= r /\ r < c + w.
Proof.
  intros Ht. cbn zeta. unfold next_share_index.
  apply round_up_by_multiple_of_spec. apply subtree_width_pos, Ht.
Qed.

(* ---------- MerkleMountainRangeSizes ---------- *)

Fixpoint sumN (l : list N) : N := match l with [] => 0 | x :: tl => x + sumN tl end.

Lemma sumN_app a b : sumN (a ++ b) = sumN a + sumN b.
Proof. induction a as [|x a IH]; cbn [sumN app]; lia. Qed.

Lemma sumN_repeat x n : sumN (repeat x n) = x * N.of_nat n.
Proof.
  induction n as [|n IH]; [change (repeat x 0) with (@nil N); cbn [sumN]; lia|].
  change (repeat x (S n)) with (x :: repeat x n). cbn [sumN]. rewrite IH. lia.
Qed.

(* non-increasing *)
Definition desc (l : list N) : Prop := Sorted (fun a b => b <= a) l.

Lemma log2_pow2_le r : 0 < r -> 2 ^ N.log2 r <= r /\ r < 2 * 2 ^ N.log2 r.
Proof.
  intros Hr. destruct (N.log2_spec r Hr) as [Hlo Hhi]. split; [exact Hlo|].
  rewrite N.pow_succ_r' in Hhi. exact Hhi.
Qed.

Lemma mmr_tail_spec : forall fuel r, r < 2 ^ N.of_nat fuel ->
  sumN (mmr_tail fuel r) = r /\ Forall pow2 (mmr_tail fuel r) /\ desc (mmr_tail fuel r) /\
  Forall (fun p => p <= r) (mmr_tail fuel r).
Proof.
  induction fuel as [|f IH]; intros r Hr.
  - cbn in Hr. assert (r = 0) by lia. subst. cbn. repeat split; constructor.
  - cbn [mmr_tail]. destruct (r =? 0) eqn:E.
    + apply N.eqb_eq in E. subst. cbn. repeat split; constructor.
    + apply N.eqb_neq in E. assert (Hpos : 0 < r) by lia.
      destruct (log2_pow2_le r Hpos) as [Hlo Hhi].
      set (p := 2 ^ N.log2 r) in *.
      assert (Hrest : r - p < 2 ^ N.of_nat f).
      { assert (N.log2 r < N.of_nat (S f)) by (apply N.log2_lt_pow2; lia).
        assert (p <= 2 ^ N.of_nat f) by (apply N.pow_le_mono_r; lia). lia. }
      destruct (IH (r - p) Hrest) as (Hs & Hp & Hd & Hb).
      cbn [sumN]. rewrite Hs. split; [lia|]. split; [constructor; [exists (N.log2 r); reflexivity|exact Hp]|].
      split.
      * constructor; [exact Hd|].
        destruct (mmr_tail f (r - p)) as [|q tl] eqn:Eq; constructor.
        inversion Hb; subst. lia.
      * constructor; [lia|]. eapply Forall_impl; [|exact Hb]. cbn. intros; lia.
Qed.

Lemma desc_app_repeat x n l : Forall (fun p => p <= x) l -> desc l -> desc (repeat x n ++ l).
Proof.
  intros Hb Hd. induction n as [|n IH]; [exact Hd|].
  change (repeat x (S n) ++ l) with (x :: (repeat x n ++ l)).
  constructor; [exact IH|].
  destruct n as [|n].
  - cbn. destruct l; constructor. inversion Hb; assumption.
  - change (repeat x (S n) ++ l) with (x :: (repeat x n ++ l)). constructor. lia.
Qed.

(* the sizes are non-increasing powers of two not exceeding the width, and sum to n *)
Theorem mmr_sizes_spec total max : pow2 max ->
  sumN (mmr_sizes total max) = total /\
  Forall pow2 (mmr_sizes total max) /\
  Forall (fun p => p <= max) (mmr_sizes total max) /\
  desc (mmr_sizes total max).
Proof.
  intros Hm. pose proof (pow2_pos max Hm) as Hpos. unfold mmr_sizes.
  assert (Hr : total mod max < 2 ^ N.of_nat (N.to_nat (N.size max))).
  { rewrite N2Nat.id. pose proof (N.size_gt max). pose proof (N.mod_lt total max). lia. }
  destruct (mmr_tail_spec _ _ Hr) as (Hs & Hp & Hd & Hb).
  assert (Hb' : Forall (fun p => p <= max) (mmr_tail (N.to_nat (N.size max)) (total mod max))).
  { eapply Forall_impl; [|exact Hb]. cbn. intros a Ha. pose proof (N.mod_lt total max). lia. }
  split.
  - rewrite sumN_app, sumN_repeat, Hs, N2Nat.id. rewrite (N.div_mod total max) at 3 by lia. lia.
  - split; [apply Forall_app; split; [apply Forall_forall; intros x Hx; apply repeat_spec in Hx; subst; exact Hm|exact Hp]|].
    split.
    + apply Forall_app; split; [apply Forall_forall; intros x Hx; apply repeat_spec in Hx; subst; lia|exact Hb'].
    + apply desc_app_repeat; assumption.
Qed.

(* non-vacuity *)
Example mmr_11_4 : mmr_sizes 11 4 = [4; 4; 2; 1].
Proof. vm_compute. reflexivity. Qed.
Example stw_11_3 : subtree_width 11 3 = 4 /\ blob_min_square_size 11 = 4.
Proof. vm_compute. split; reflexivity. Qed.
