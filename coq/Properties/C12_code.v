(* C12 (code model) - Transaction share ranges are exact, on the square itself.
   Statements only; proofs in Proofs/EndToEndProofs.v.

   End-to-end statement about the code model, by C07 refinement + tx_share_range_eq /
   unit_range_exact / unit_parsed_from_range (TxRangeProofs, C12.v), layout_split
   (DeconstructProofs) and recorded_wrappers (RefinementProofs2).  C12.v relates the query
   to the builder's lists and states exactness and parsing on the closed form of a compact
   sequence; here both are stated about the shares OF THE SQUARE square.Construct returns.

   For sq = construct raws max thr (conditions H: threshold >= 1, maximum side <= 1024,
   acceptable blobs: c07_raws_ok), raws = ordinary transactions [normals] followed by the
   blob transactions [btxs], ws = the wrapped PFBs Square.WrappedPFBs reads from sq (they
   carry the REAL recorded share indexes, C04_code), ntx = number of transaction shares:
     - shares [0, ntx) of sq are the closed-form compact shares of the stream of
       length-prefixed [normals]; the shares from ntx on are those of the stream of [ws] (run_at);
     - TxShareRange(raws, i) for every i: an error exactly outside [0, #normals + #btxs),
       otherwise [unit_range normals i], resp. ntx + [unit_range ws (i - #normals)];
     - that range is exactly the set of shares of sq that hold a byte of the unit's
       length-prefixed encoding ([holds_byte]: byte p of the stream is, verbatim, a byte of
       that share of sq, at the position the share format assigns to it);
     - parsing just those shares of sq yields a list containing the transaction (for
       ordinary transactions provided they are non-empty, as Go's parser skips empty ones). *)
From Coq Require Import List Arith NArith ZArith Bool.
From GS.Model Require Import Base Varint Namespace ShareFmt Blob Sparse Compact Counter Arith Proto Builder Square.
From GS.Spec Require Import ShareSpec CompactSpec LayoutSpec.
From GS.Proofs Require Import CounterProofs TxRangeProofs LayoutShapeProofs
  RefinementProofs1 RefinementProofs3 EndToEndProofs.
Import ListNotations.
Open Scope nat_scope.

Theorem C12_code_construct : forall raws max thr sq,
  (1 <= thr)%N -> (max <= 1024)%Z -> c07_raws_ok raws ->
  construct raws max thr = Ok sq ->
  exists normals btxs ws,
    split_ordered false raws [] [] = Some (normals, btxs) /\
    wrapped_pfbs sq = Ok ws /\ length ws = length btxs /\
    let ntx := cneeded (length (stream normals)) in
    run_at sq 0 tx_ns normals /\ run_at sq ntx pfb_ns ws /\
    (forall ti, tx_share_range raws ti max thr =
       if ((ti <? 0) || (Z.of_nat (length normals + length btxs) <=? ti))%Z then Err
       else Ok (zpair (square_tx_range normals ws (Z.to_nat ti)))) /\
    (forall i t, nth_error normals i = Some t ->
       let lo := fst (unit_range normals i) in
       let hi := snd (unit_range normals i) in
       tx_share_range raws (Z.of_nat i) max thr = Ok (Z.of_nat lo, Z.of_nat hi) /\
       lo < hi <= ntx /\
       (forall j, (exists p, ustart normals i <= p < uend normals i /\ holds_byte sq 0 (stream normals) j p)
                  <-> lo <= j < hi) /\
       firstn (uend normals i - ustart normals i) (skipn (ustart normals i) (stream normals)) = marshal_delimited t /\
       (Forall (fun r => r <> []) normals ->
        exists res, parse_txs (firstn (hi - lo) (skipn lo sq)) = Ok res /\ In t res)) /\
    (forall i w, nth_error ws i = Some w ->
       let lo := fst (unit_range ws i) in
       let hi := snd (unit_range ws i) in
       tx_share_range raws (Z.of_nat (length normals + i)) max thr = Ok (Z.of_nat (ntx + lo), Z.of_nat (ntx + hi)) /\
       lo < hi <= cneeded (length (stream ws)) /\
       (forall j, (exists p, ustart ws i <= p < uend ws i /\ holds_byte sq ntx (stream ws) j p)
                  <-> lo <= j < hi) /\
       firstn (uend ws i - ustart ws i) (skipn (ustart ws i) (stream ws)) = marshal_delimited w /\
       exists res, parse_txs (firstn (hi - lo) (skipn (ntx + lo) sq)) = Ok res /\ In w res).
Proof. exact construct_tx_ranges. Qed.
Print Assumptions C12_code_construct.

(* square.Build: the square it returns is the square square.Construct returns for the kept
   list (C01), and the kept list satisfies H; so C12_code_construct applies to (kept, sq),
   i.e. to TxShareRange on the kept transactions and the square Build returned *)
Theorem C12_code_build_is_construct_of_kept : forall raws max thr sq kept, c07_raws_ok raws ->
  build raws max thr = Ok (sq, kept) ->
  c07_raws_ok kept /\ construct kept max thr = Ok sq.
Proof. exact build_kept_construct. Qed.
Print Assumptions C12_code_build_is_construct_of_kept.

(* the vocabulary: a share holding a stream byte; the shares of a sequence inside a square;
   the range of the k-th transaction of a square *)
Theorem C12_code_vocabulary : forall sq base ns s txs ws normals j p k,
  (holds_byte sq base s j p <->
     coff j <= p < coff j + ccap j /\ p < length s /\
     exists sh, nth_error sq (base + j) = Some sh /\ nth_error sh (chdr j + (p - coff j)) = nth_error s p) /\
  (run_at sq base ns txs <->
     forall j, j < cneeded (length (stream txs)) ->
       nth_error sq (base + j) =
       Some (cshare ns 0 (u32 (lenN (stream txs))) j (stream txs) (ustarts 0 (units txs)))) /\
  square_tx_range normals ws k =
    (if Nat.ltb k (length normals) then unit_range normals k
     else (cneeded (length (stream normals)) + fst (unit_range ws (k - length normals)),
           cneeded (length (stream normals)) + snd (unit_range ws (k - length normals)))).
Proof. exact (fun sq base ns s txs ws normals j p k => conj (iff_refl _) (conj (iff_refl _) eq_refl)). Qed.
Print Assumptions C12_code_vocabulary.

(* stream byte p is byte chdr j + (p - coff j) of the closed-form share j (chdr 0 = 38:
   namespace, info byte, sequence length, reserved bytes; chdr j = 34 otherwise) *)
Theorem C12_code_share_byte : forall ns ver total j s sts p,
  length ns = 29 -> coff j <= p < coff j + ccap j -> p < length s ->
  nth_error (cshare ns ver total j s sts) (chdr j + (p - coff j)) = nth_error s p.
Proof. exact cshare_byte. Qed.
Print Assumptions C12_code_share_byte.

(* a share of a sequence inside a square holds a byte of unit k iff it is in unit k's range *)
Theorem C12_code_run_unit_exact : forall sq base ns txs k t, length ns = 29 -> run_at sq base ns txs ->
  nth_error txs k = Some t ->
  forall j, (exists p, ustart txs k <= p < uend txs k /\ holds_byte sq base (stream txs) j p) <->
            fst (unit_range txs k) <= j < snd (unit_range txs k).
Proof. exact run_unit_exact. Qed.
Print Assumptions C12_code_run_unit_exact.

(* the query, for the builder of the raw list *)
Theorem C12_code_tx_share_range : forall raws max thr b normals btxs ti, (1 <= thr)%N -> (max <= 1024)%Z ->
  new_builder_txs max thr raws = Ok b -> corr (Z.to_N max) thr b normals btxs ->
  tx_share_range raws ti max thr =
  if ((ti <? 0) || (Z.of_nat (length normals + length btxs) <=? ti))%Z then Err
  else Ok (zpair (square_tx_range normals (wrappers (lay_placed thr normals btxs) 0 btxs) (Z.to_nat ti))).
Proof. exact corr_tx_share_range. Qed.
Print Assumptions C12_code_tx_share_range.

(* the ordinary transactions of the split are transactions of the input *)
Theorem C12_code_normals_in_input : forall raws seen normals btxs n' b',
  split_ordered seen raws normals btxs = Some (n', b') -> forall t, In t n' -> In t normals \/ In t raws.
Proof. exact split_ordered_incl. Qed.
Print Assumptions C12_code_normals_in_input.

(* ---- non-vacuity ---- *)
(* ex12_txs (C12.v): five ordinary transactions, the first ending exactly at the end of share
   0 and the second at the end of share 1, then two blob transactions whose first wrapped PFB
   fills its share exactly with the real index; maximum 8, threshold 64.  The hypotheses hold
   and Construct succeeds. *)
Example C12_code_example_hyps :
  (1 <= 64)%N /\ (8 <= 1024)%Z /\ c07_raws_ok ex12_txs /\ is_ok (construct ex12_txs 8 64) = true.
Proof.
  split; [discriminate|]. split; [discriminate|]. split; [exact e2e_ex12_raws_ok|vm_compute; reflexivity].
Qed.

(* by evaluation of the models, on the constructed square (16 shares: 5 transaction shares,
   2 PFB shares, 3 blobs of 3 shares): the recorded indexes, the ranges, and parsing exactly
   the shares of a range *)
Example C12_code_example_computed :
  match construct ex12_txs 8 64 with
  | Ok sq =>
    match wrapped_pfbs sq with
    | Ok [w1; w2] =>
      length sq = 16 /\ map (@length byte) [w1; w2] = [472; 14] /\
      map (fun w => option_map iw_idx (unmarshal_index_wrapper w)) [w1; w2] = [Some [7]; Some [10; 13]]%N /\
      cneeded (length (stream ex12_normal)) = 5 /\
      map (unit_range [w1; w2]) [0; 1] = [(0, 1); (1, 2)] /\
      map (fun i => tx_share_range ex12_txs i 8 64) [-1; 0; 1; 2; 3; 4; 5; 6; 7]%Z =
        [Err; Ok (0, 1); Ok (1, 2); Ok (2, 3); Ok (2, 5); Ok (4, 5); Ok (5, 6); Ok (6, 7); Err]%Z /\
      parse_txs (firstn (5 - 2) (skipn 2 sq)) = Ok [ex12_t10; ex12_t1000; ex12_t11] /\
      parse_txs (firstn (2 - 1) (skipn 1 sq)) = Ok [ex12_t476] /\
      parse_txs (firstn (6 - 5) (skipn 5 sq)) = Ok [w1] /\
      parse_txs (firstn (7 - 6) (skipn 6 sq)) = Ok [w2] /\
      (* stream byte 474 (the first byte of the second transaction) is byte 34 of share 1;
         stream byte 473 (the last byte of the first one) is byte 38 + 473 of share 0 *)
      nth_error (nth 1 sq []) 34 = nth_error (stream ex12_normal) 474 /\
      nth_error (nth 0 sq []) (38 + 473) = nth_error (stream ex12_normal) 473
    | _ => False
    end
  | _ => False
  end.
Proof. vm_compute. repeat split; reflexivity. Qed.

(* the same input as in the other property files: ex_raws, maximum 4, threshold 1 *)
Example C12_code_example_small :
  map (fun i => tx_share_range ex_raws i 4 1) [-1; 0; 1; 2; 3; 4]%Z =
  [Err; Ok (0, 1); Ok (0, 1); Ok (1, 2); Ok (1, 2); Err]%Z.
Proof. vm_compute. reflexivity. Qed.
