(* The protobuf wire behaviour of google.golang.org/protobuf (v1.36.6) for the
   three messages of proto/blob/v1/blob.proto, tx/blob_tx.go, tx/index_wrapper.go,
   and the proto half of share/blob.go. *)
From GS.Model Require Import Base Varint Namespace ShareFmt Blob.
Open Scope N_scope.

(* protowire.ConsumeVarint: at most 10 bytes, the tenth below 2 *)
Definition consume_varint (b : bytes) : option (N * bytes) :=
  match uvarint b with
  | UvOk v n => Some (v, skipn n b)
  | _ => None
  end.

Definition consume_bytes (b : bytes) : option (bytes * bytes) :=
  match consume_varint b with
  | None => None
  | Some (m, rest) =>
    if lenN rest <? m then None else Some (takeN m rest, dropN m rest)
  end.

Definition consume_fixed (k : nat) (b : bytes) : option (bytes * bytes) :=
  if Nat.ltb (length b) k then None else Some (firstn k b, skipn k b).

(* ConsumeTag inside a group: number 1 .. MaxInt32 *)
Definition consume_tag_in_group (b : bytes) : option (N * N * bytes) :=
  match consume_varint b with
  | None => None
  | Some (x, rest) =>
    let num := x / 8 in
    if (2147483647 <? num) || (num <? 1) then None else Some (num, x mod 8, rest)
  end.

(* Skipping a group: ConsumeFieldValue(num, StartGroupType, ..), recursion
   flattened into a stack of the open group numbers.  DefaultRecursionLimit is
   10000: at most 10001 nested groups. *)
Fixpoint skip_group (fuel : nat) (stk : list N) (b : bytes) : option bytes :=
  match fuel with
  | O => None
  | S f =>
    match consume_tag_in_group b with
    | None => None
    | Some (num, typ, b1) =>
      if typ =? 4 then
        match stk with
        | top :: rest =>
          if num =? top then
            match rest with [] => Some b1 | _ => skip_group f rest b1 end
          else None
        | [] => None
        end
      else if typ =? 3 then
        if 10001 <? lenN stk + 1 then None else skip_group f (num :: stk) b1
      else if typ =? 0 then
        match consume_varint b1 with Some (_, b2) => skip_group f stk b2 | None => None end
      else if typ =? 1 then
        match consume_fixed 8 b1 with Some (_, b2) => skip_group f stk b2 | None => None end
      else if typ =? 5 then
        match consume_fixed 4 b1 with Some (_, b2) => skip_group f stk b2 | None => None end
      else if typ =? 2 then
        match consume_bytes b1 with Some (_, b2) => skip_group f stk b2 | None => None end
      else None
    end
  end.

Inductive wval :=
| WVarint (v : N)
| WFixed64 (b : bytes)
| WBytes (b : bytes)
| WFixed32 (b : bytes)
| WGroup.

(* The field loop of unmarshalPointerEager, independent of the message type:
   every field is consumed the same way whether it is known or not. *)
Fixpoint parse_fields (fuel : nat) (b : bytes) : outcome (list (N * wval)) :=
  match b with
  | [] => Ok []
  | _ =>
    match fuel with
    | O => Err
    | S f =>
      match consume_varint b with
      | None => Err
      | Some (tag, b1) =>
        let num := tag / 8 in
        let typ := tag mod 8 in
        if (num <? 1) || (536870911 <? num) then Err else
        if typ =? 0 then
          match consume_varint b1 with
          | Some (v, b2) => do r <- parse_fields f b2; Ok ((num, WVarint v) :: r)
          | None => Err end
        else if typ =? 1 then
          match consume_fixed 8 b1 with
          | Some (v, b2) => do r <- parse_fields f b2; Ok ((num, WFixed64 v) :: r)
          | None => Err end
        else if typ =? 2 then
          match consume_bytes b1 with
          | Some (v, b2) => do r <- parse_fields f b2; Ok ((num, WBytes v) :: r)
          | None => Err end
        else if typ =? 3 then
          match skip_group (length b1) [num] b1 with
          | Some b2 => do r <- parse_fields f b2; Ok ((num, WGroup) :: r)
          | None => Err end
        else if typ =? 5 then
          match consume_fixed 4 b1 with
          | Some (v, b2) => do r <- parse_fields f b2; Ok ((num, WFixed32 v) :: r)
          | None => Err end
        else Err (* end group without start, reserved wire types 6 and 7 *)
      end
    end
  end.
Definition wire_fields (b : bytes) : outcome (list (N * wval)) := parse_fields (length b) b.

(* unicode/utf8.Valid *)
Definition in_rng (lo hi x : N) : bool := (lo <=? x) && (x <=? hi).
Fixpoint utf8_valid_fuel (fuel : nat) (b : bytes) : bool :=
  match fuel with
  | O => true
  | S f =>
    match b with
    | [] => true
    | a :: t =>
      let x := b2n a in
      if x <? 128 then utf8_valid_fuel f t else
      match t with
      | [] => false
      | b1 :: t1 =>
        let y := b2n b1 in
        if in_rng 194 223 x then in_rng 128 191 y && utf8_valid_fuel f t1 else
        match t1 with
        | [] => false
        | b2 :: t2 =>
          let z := b2n b2 in
          let lo := if x =? 224 then 160 else 128 in
          let hi := if x =? 237 then 159 else 191 in
          if in_rng 224 239 x then in_rng lo hi y && in_rng 128 191 z && utf8_valid_fuel f t2 else
          match t2 with
          | [] => false
          | b3 :: t3 =>
            let w := b2n b3 in
            let lo4 := if x =? 240 then 144 else 128 in
            let hi4 := if x =? 244 then 143 else 191 in
            if in_rng 240 244 x then
              in_rng lo4 hi4 y && in_rng 128 191 z && in_rng 128 191 w && utf8_valid_fuel f t3
            else false
          end
        end
      end
    end
  end.
Definition utf8_valid (b : bytes) : bool := utf8_valid_fuel (length b) b.

(* ---- BlobProto ---- *)
Record blob_proto := mk_bp {
  bp_ns_id : bytes; bp_data : bytes; bp_share_version : N; bp_ns_version : N; bp_signer : bytes
}.
Definition bp_empty : blob_proto := mk_bp [] [] 0 0 [].

Definition bp_apply (p : blob_proto) (f : N * wval) : blob_proto :=
  match f with
  | (1, WBytes b) => mk_bp b (bp_data p) (bp_share_version p) (bp_ns_version p) (bp_signer p)
  | (2, WBytes b) => mk_bp (bp_ns_id p) b (bp_share_version p) (bp_ns_version p) (bp_signer p)
  | (3, WVarint v) => mk_bp (bp_ns_id p) (bp_data p) (u32 v) (bp_ns_version p) (bp_signer p)
  | (4, WVarint v) => mk_bp (bp_ns_id p) (bp_data p) (bp_share_version p) (u32 v) (bp_signer p)
  | (5, WBytes b) => mk_bp (bp_ns_id p) (bp_data p) (bp_share_version p) (bp_ns_version p) b
  | _ => p
  end.
Definition unmarshal_blob_proto (b : bytes) : outcome blob_proto :=
  do fs <- wire_fields b; Ok (fold_left bp_apply fs bp_empty).

(* encoders: proto3 zero omission, fields in number order *)
Definition tag_byte (num typ : N) : bytes := put_uvarint (num * 8 + typ).
Definition enc_bytes_field (num : N) (v : bytes) : bytes :=
  match v with [] => [] | _ => tag_byte num 2 ++ put_uvarint (lenN v) ++ v end.
Definition enc_uint_field (num : N) (v : N) : bytes :=
  if v =? 0 then [] else tag_byte num 0 ++ put_uvarint v.
Definition enc_msg_field (num : N) (body : bytes) : bytes :=
  tag_byte num 2 ++ put_uvarint (lenN body) ++ body.

Definition marshal_blob_proto (p : blob_proto) : bytes :=
  enc_bytes_field 1 (bp_ns_id p) ++ enc_bytes_field 2 (bp_data p)
  ++ enc_uint_field 3 (bp_share_version p) ++ enc_uint_field 4 (bp_ns_version p)
  ++ enc_bytes_field 5 (bp_signer p).

Definition blob_to_proto (b : blob) : blob_proto :=
  mk_bp (ns_id (b_ns b)) (b_data b) (b_ver b) (ns_version (b_ns b)) (signer_bytes b).

(* NewBlobFromProto; protobuf-go decodes an empty bytes field to nil *)
Definition new_blob_from_proto (p : blob_proto) : outcome blob :=
  if 255 <? bp_ns_version p then Err else
  if 127 <? bp_share_version p then Err else
  do ns <- new_namespace (bp_ns_version p) (bp_ns_id p);
  new_blob ns (bp_data p) (bp_share_version p)
           (match bp_signer p with [] => None | s => Some s end).

(* Blob.Marshal, UnmarshalBlob *)
Definition marshal_blob (b : blob) : bytes := marshal_blob_proto (blob_to_proto b).
Definition unmarshal_blob (b : bytes) : outcome blob :=
  do p <- unmarshal_blob_proto b; new_blob_from_proto p.

(* ---- BlobTx ---- *)
Definition type_id_blob : bytes := ["B"; "L"; "O"; "B"]%byte.
Definition type_id_indx : bytes := ["I"; "N"; "D"; "X"]%byte.

Record blob_tx_proto := mk_btp { btp_tx : bytes; btp_blobs : list blob_proto; btp_type_id : bytes }.

Definition btp_apply (acc : outcome blob_tx_proto) (f : N * wval) : outcome blob_tx_proto :=
  do p <- acc;
  match f with
  | (1, WBytes b) => Ok (mk_btp b (btp_blobs p) (btp_type_id p))
  | (2, WBytes b) => do bp <- unmarshal_blob_proto b;
                     Ok (mk_btp (btp_tx p) (btp_blobs p ++ [bp]) (btp_type_id p))
  | (3, WBytes b) => if utf8_valid b then Ok (mk_btp (btp_tx p) (btp_blobs p) b) else Err
  | _ => Ok p
  end.
Definition unmarshal_blob_tx_proto (b : bytes) : outcome blob_tx_proto :=
  do fs <- wire_fields b; fold_left btp_apply fs (Ok (mk_btp [] [] [])).

Record blob_tx := mk_btx { btx_tx : bytes; btx_blobs : list blob }.

(* tx.UnmarshalBlobTx: (value, isBlobTx, err) *)
Inductive ubt_result :=
| UbtNot                 (* (nil, false, err) *)
| UbtErr                 (* (nil, true, err) *)
| UbtOk (t : blob_tx).   (* (tx, true, nil) *)

Definition unmarshal_blob_tx (b : bytes) : ubt_result :=
  match unmarshal_blob_tx_proto b with
  | Ok p =>
    if negb (bytes_eqb (btp_type_id p) type_id_blob) then UbtNot else
    match btp_blobs p with
    | [] => UbtErr
    | _ =>
      match map_outcome new_blob_from_proto (btp_blobs p) with
      | Ok blobs => UbtOk (mk_btx (btp_tx p) blobs)
      | _ => UbtErr
      end
    end
  | _ => UbtNot
  end.

(* tx.MarshalBlobTx *)
Definition marshal_blob_tx (tx : bytes) (blobs : list blob) : outcome bytes :=
  match blobs with
  | [] => Err
  | _ =>
    if existsb (fun b => Nat.eqb (length (b_data b)) 0) blobs then Err else
    Ok (enc_bytes_field 1 tx
        ++ concat (map (fun b => enc_msg_field 2 (marshal_blob b)) blobs)
        ++ enc_bytes_field 3 type_id_blob)
  end.

(* ---- IndexWrapper ---- *)
Record index_wrapper := mk_iw { iw_tx : bytes; iw_idx : list N; iw_type_id : bytes }.

Fixpoint parse_packed (fuel : nat) (b : bytes) : outcome (list N) :=
  match b with
  | [] => Ok []
  | _ =>
    match fuel with
    | O => Err
    | S f =>
      match consume_varint b with
      | Some (v, rest) => do r <- parse_packed f rest; Ok (u32 v :: r)
      | None => Err
      end
    end
  end.

Definition iw_apply (acc : outcome index_wrapper) (f : N * wval) : outcome index_wrapper :=
  do p <- acc;
  match f with
  | (1, WBytes b) => Ok (mk_iw b (iw_idx p) (iw_type_id p))
  | (2, WBytes b) => do vs <- parse_packed (length b) b;
                     Ok (mk_iw (iw_tx p) (iw_idx p ++ vs) (iw_type_id p))
  | (2, WVarint v) => Ok (mk_iw (iw_tx p) (iw_idx p ++ [u32 v]) (iw_type_id p))
  | (3, WBytes b) => if utf8_valid b then Ok (mk_iw (iw_tx p) (iw_idx p) b) else Err
  | _ => Ok p
  end.
Definition unmarshal_index_wrapper_proto (b : bytes) : outcome index_wrapper :=
  do fs <- wire_fields b; fold_left iw_apply fs (Ok (mk_iw [] [] [])).

(* tx.UnmarshalIndexWrapper: Some = (wrapper, true) *)
Definition unmarshal_index_wrapper (b : bytes) : option index_wrapper :=
  match unmarshal_index_wrapper_proto b with
  | Ok p => if bytes_eqb (iw_type_id p) type_id_indx then Some p else None
  | _ => None
  end.

(* proto.Marshal of an IndexWrapper built by NewIndexWrapper; proto.Size is its length *)
Definition marshal_index_wrapper (tx : bytes) (idx : list N) : bytes :=
  let packed := concat (map put_uvarint idx) in
  enc_bytes_field 1 tx
  ++ (match idx with [] => [] | _ => enc_msg_field 2 packed end)
  ++ enc_bytes_field 3 type_id_indx.
Definition index_wrapper_size (tx : bytes) (idx : list N) : N := lenN (marshal_index_wrapper tx idx).
