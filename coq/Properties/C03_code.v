(* C03 (code model) - Every produced square is a well-formed, namespace-ordered
   power-of-two square.  Statements only; proofs in Proofs/EndToEndProofs.v.

   End-to-end statement about the code model, by C07 refinement + layout_shape
   (layout_construct_shape / layout_build_shape): [construct] and [build] are the models of
   square.Construct and square.Build (Model/Builder.v).  C03.v states the shape for the
   rule-based layout; here it is stated for every square the two functions return.

   Conditions H: threshold >= 1; maximum side <= 1024; every blob of every blob transaction
   of the input that decodes is a blob NewBlob accepts, in a namespace ValidateForBlob
   accepts, data + signer below 4 GiB (c07_raws_ok; C03_code_input_condition).  Nothing is
   assumed about the lists the input splits into: that their blobs are acceptable follows
   from H. *)
From Coq Require Import List NArith ZArith Sorted.
From GS.Model Require Import Base Varint Namespace ShareFmt Blob Counter Arith Proto Builder.
From GS.Spec Require Import ShareSpec CompactSpec LayoutSpec.
From GS.Proofs Require Import ArithProofs SparseProofs RangeProofs LayoutShapeProofs
  RefinementProofs1 RefinementProofs3 EndToEndProofs.
Import ListNotations.
Open Scope N_scope.

(* Construct: the input splits into ordinary transactions [normals] followed by blob
   transactions [btxs], and the square has the whole shape of C03 for these lists *)
Theorem C03_code_construct : forall raws max thr sq,
  1 <= thr -> (max <= 1024)%Z -> c07_raws_ok raws ->
  construct raws max thr = Ok sq ->
  exists normals btxs, split_ordered false raws [] [] = Some (normals, btxs) /\
    square_shape thr normals btxs (Z.to_N max) sq.
Proof. exact construct_shape. Qed.
Print Assumptions C03_code_construct.

(* Build: the same for the transactions kept ([keep]: greedy, by the estimate alone) *)
Theorem C03_code_build : forall raws max thr sq kept,
  1 <= thr -> (max <= 1024)%Z -> c07_raws_ok raws ->
  build raws max thr = Ok (sq, kept) ->
  exists normals btxs, keep (Z.to_N max * Z.to_N max) thr raws [] [] [] [] = Some (normals, btxs, kept) /\
    square_shape thr normals btxs (Z.to_N max) sq.
Proof. exact build_shape. Qed.
Print Assumptions C03_code_build.

(* [square_shape thr normals btxs m sq]: the side is a power of two, at most m; side * side
   shares of 512 bytes; non-decreasing namespaces; the region decomposition with canonical
   padding (reserved_pad / blob_region / tail_pad repeat [padding_spec ns ver], which is
   canonical by C03_padding_canonical) *)
Theorem C03_code_square_shape_unfolded : forall thr normals btxs m sq,
  square_shape thr normals btxs m sq <->
  (let side := blob_min_square_size (estimate thr normals btxs) in
   let placed := lay_placed thr normals btxs in
   (exists k, side = 2 ^ k) /\ side <= m /\ lenN sq = side * side /\
   Forall (fun s => length s = 512%nat) sq /\
   StronglySorted (fun a b => bytes_cmp (sh_ns a) (sh_ns b) <> Gt) sq /\
   sq = tx_run normals ++ pfb_run thr normals btxs
        ++ reserved_pad (lenN (tx_run normals ++ pfb_run thr normals btxs)) placed
        ++ blob_region placed ++ tail_pad thr normals btxs).
Proof. exact (fun thr normals btxs m sq => iff_refl _). Qed.
Print Assumptions C03_code_square_shape_unfolded.

(* what an observer of the square alone can check, with no reference to the input *)
Theorem C03_code_construct_wellformed : forall raws max thr sq,
  1 <= thr -> (max <= 1024)%Z -> c07_raws_ok raws ->
  construct raws max thr = Ok sq ->
  exists side, (exists k, side = 2 ^ k) /\ side <= Z.to_N max /\ lenN sq = side * side /\
    Forall (fun s => length s = 512%nat) sq /\
    StronglySorted (fun a b => bytes_cmp (sh_ns a) (sh_ns b) <> Gt) sq.
Proof. exact construct_square_wellformed. Qed.
Print Assumptions C03_code_construct_wellformed.

Theorem C03_code_build_wellformed : forall raws max thr sq kept,
  1 <= thr -> (max <= 1024)%Z -> c07_raws_ok raws ->
  build raws max thr = Ok (sq, kept) ->
  exists side, (exists k, side = 2 ^ k) /\ side <= Z.to_N max /\ lenN sq = side * side /\
    Forall (fun s => length s = 512%nat) sq /\
    StronglySorted (fun a b => bytes_cmp (sh_ns a) (sh_ns b) <> Gt) sq.
Proof. exact build_square_wellformed. Qed.
Print Assumptions C03_code_build_wellformed.

(* the condition on the input, spelled out *)
Theorem C03_code_input_condition : forall raws, c07_raws_ok raws <->
  forall r t b, In r raws -> unmarshal_blob_tx r = UbtOk t -> In b (btx_blobs t) ->
    blob_ok b /\ validate_for_blob (b_ns b) = true /\ lenN (b_data b) + signer_len b < 4294967296.
Proof. exact c07_raws_ok_iff. Qed.
Print Assumptions C03_code_input_condition.

(* ---- non-vacuity ---- *)
(* ex_raws (C07.v): two ordinary transactions, then two blob transactions made by
   MarshalBlobTx (one blob of 2 shares; two blobs of 5 and 2 shares in descending namespace
   order).  The hypotheses hold; Construct with maximum 4, threshold 1 succeeds and Build
   with maximum 2, threshold 64 succeeds. *)
Example C03_code_example_hyps :
  1 <= 1 /\ (4 <= 1024)%Z /\ c07_raws_ok ex_raws /\ is_ok (construct ex_raws 4 1) = true /\
  is_ok (build ex_raws 2 64) = true.
Proof.
  destruct e2e_ex_hyps as (H1 & H2 & H3 & H4 & _ & _ & _ & H8). repeat split; assumption.
Qed.

(* by the theorem: the constructed square has the shape for the lists ex_raws splits into *)
Example C03_code_example_shape :
  exists sq, construct ex_raws 4 1 = Ok sq /\ square_shape 1 ex_normals [ex_btx1; ex_btx2] 4 sq.
Proof. destruct e2e_ex_shape as (sq & H1 & H2 & _). exists sq. split; assumption. Qed.

(* by evaluation of the model: 16 shares of 512 bytes, namespaces tx | pfb | blob a (2 shares)
   | blob a (2) | 2 padding shares of a's namespace | blob b (5) | 3 tail padding shares *)
Example C03_code_example_computed :
  match construct ex_raws 4 1 with
  | Ok sq =>
    length sq = 16%nat /\ forallb (fun s => Nat.eqb (length s) 512) sq = true /\
    map sh_ns sq = [tx_ns; pfb_ns;
                    ex_ns Byte.x01; ex_ns Byte.x01; ex_ns Byte.x01; ex_ns Byte.x01;
                    ex_ns Byte.x01; ex_ns Byte.x01;
                    ex_ns Byte.x02; ex_ns Byte.x02; ex_ns Byte.x02; ex_ns Byte.x02; ex_ns Byte.x02;
                    tail_padding_ns; tail_padding_ns; tail_padding_ns] /\
    firstn 2 (skipn 6 sq) = repeat (padding_spec (ex_ns Byte.x01) 0) 2 /\
    skipn 13 sq = repeat (padding_spec tail_padding_ns 0) 3
  | _ => False
  end.
Proof. vm_compute. repeat split; reflexivity. Qed.

(* Build with maximum 2: the second blob transaction is refused; 4 shares *)
Example C03_code_example_build :
  match build ex_raws 2 64 with
  | Ok (sq, kept) => length sq = 4%nat /\ kept = ex_normals ++ [ex_raw1] /\
                     map sh_ns sq = [tx_ns; pfb_ns; ex_ns Byte.x01; ex_ns Byte.x01]
  | _ => False
  end.
Proof. vm_compute. repeat split; reflexivity. Qed.
