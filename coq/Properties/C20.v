(* C20 - Namespace range lookup and sequence parsing agree with the square.
   Statements only.  (The sequence-parsing half is stated in Properties/C20 as it is
   proved; the lookup half below is complete.) *)
From Coq Require Import List NArith Sorted.
From GS.Model Require Import Base Namespace ShareFmt Square.
From GS.Proofs Require Import NamespaceProofs RangeProofs.
Import ListNotations.
Open Scope N_scope.

(* On ANY namespace-ordered share list (non-decreasing namespaces, any length, any
   contents) and ANY query namespace, the list splits into the shares below, carrying
   and above the namespace, and the lookup returns exactly the carrying run - or the
   empty range (0,0) when no share carries it. *)
Theorem C20_range_lookup : forall shs ns, ns_ordered shs ->
  exists pre run post, shs = pre ++ run ++ post /\
    Forall (ns_below ns) pre /\ Forall (ns_is ns) run /\ Forall (ns_above ns) post /\
    get_share_range_for_namespace shs ns =
      match run with [] => (0, 0) | _ => (lenN pre, lenN pre + lenN run) end.
Proof. exact range_lookup_ordered. Qed.
Print Assumptions C20_range_lookup.

(* the same without assuming order, for an explicit decomposition *)
Theorem C20_range_lookup_decomposed : forall ns pre run post,
  Forall (ns_below ns) pre -> Forall (ns_is ns) run -> Forall (ns_above ns) post ->
  get_share_range_for_namespace (pre ++ run ++ post) ns =
  match run with [] => (0, 0) | _ => (lenN pre, lenN pre + lenN run) end.
Proof. exact range_lookup. Qed.
Print Assumptions C20_range_lookup_decomposed.
