(* C18 (helpers) - Namespace.Repeat and Namespace.IsEmpty.  Statements only. *)
From Coq Require Import List NArith ZArith Bool.
From GS.Model Require Import Base Namespace ShareFmt Blob Helpers.
From GS.Proofs Require Import HelpersProofs.
Import ListNotations.

(* Repeat(times), times >= 0: exactly [times] copies of the namespace *)
Theorem C18h_ns_repeat : forall n times, (0 <= times)%Z ->
  exists l, ns_repeat n times = Ok l /\ length l = Z.to_nat times /\ (forall x, In x l -> x = n) /\
            (forall j, (j < Z.to_nat times)%nat -> nth_error l j = Some n).
Proof. exact ns_repeat_ok. Qed.
Print Assumptions C18h_ns_repeat.

(* a negative count panics (make with a negative length) *)
Theorem C18h_ns_repeat_negative : forall n times, (times < 0)%Z -> ns_repeat n times = Fault.
Proof. exact ns_repeat_negative. Qed.
Print Assumptions C18h_ns_repeat_negative.

(* IsEmpty: no bytes; never true for a namespace returned by a constructor; it is the emptiness
   test that makes NewBlob refuse the zero Namespace *)
Theorem C18h_ns_is_empty : forall n, ns_is_empty n = true <-> n = [].
Proof. exact ns_is_empty_spec. Qed.
Print Assumptions C18h_ns_is_empty.

Theorem C18h_constructed_not_empty : forall b n,
  new_namespace_from_bytes b = Ok n -> ns_is_empty n = false.
Proof. exact new_namespace_from_bytes_not_empty. Qed.
Print Assumptions C18h_constructed_not_empty.

Theorem C18h_new_namespace_not_empty : forall v id n, new_namespace v id = Ok n -> ns_is_empty n = false.
Proof. exact new_namespace_not_empty. Qed.
Print Assumptions C18h_new_namespace_not_empty.

Theorem C18h_new_blob_empty_ns : forall data ver sg, new_blob [] data ver sg = Err.
Proof. exact new_blob_empty_ns. Qed.
Print Assumptions C18h_new_blob_empty_ns.

Example C18h_example :
  ns_repeat (hp_ns Byte.x01) 3 = Ok [hp_ns Byte.x01; hp_ns Byte.x01; hp_ns Byte.x01] /\
  ns_repeat (hp_ns Byte.x01) 0 = Ok [] /\ ns_repeat (hp_ns Byte.x01) (-1) = Fault /\
  ns_is_empty (hp_ns Byte.x01) = false /\ ns_is_empty [] = true /\
  new_namespace_from_bytes (hp_ns Byte.x01) = Ok (hp_ns Byte.x01).
Proof. vm_compute. repeat split. Qed.
