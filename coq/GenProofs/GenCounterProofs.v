From Coq Require Import Lia ZArith List String ZifyN ZifyNat ZifyBool.
From GS.Model Require Import Base Varint Arith Counter GoLite.
From GS.Proofs Require Import GoLiteLemmas VarintProofs.
From GS.Gen Require Import Generated.
From GS.GenProofs Require Import GenLink.
Open Scope string_scope. Open Scope Z_scope.

(* share.CompactShareCounter.Add / Revert as translated from share/counter.go (Gen/Generated.v)
   against Model/Counter.v: single calls and whole Add/Revert histories. *)
Lemma delim_len_bound n : 1 <= Z.of_N (delim_len n) <= 10.
Proof. unfold delim_len, lenN. pose proof (put_uvarint_length n). lia. Qed.

Lemma gen_delimLen_call fuel x : 0 <= x ->
  callf gen_ext gen_program (S fuel) "share.delimLen" I64 [x] = Val [Z.of_N (delim_len (Z.to_N x))].
Proof.
  intros Hx. rewrite callf_S. cbn.
  destruct (x <? 0) eqn:E; [lia|]. reflexivity.
Qed.

Ltac stp :=
  cbn; change (1 =? 0) with false; change (0 =? 0) with true; change (478 =? 0) with false; cbn.

Ltac wr := repeat match goal with
  | |- context[wrap I64 ?x] => rewrite (wrap_I64_small x) by lia
  end.

Ltac dec1 := match goal with
  | |- context[b2z ?b] => first [ replace b with true by lia | replace b with false by lia | destruct b eqn:? ]
  end.

Lemma gen_counter_add_lemma fuel c dataLen :
  (2 <= fuel)%nat ->
  - 2^62 <= c_shares c < 2^62 -> - 2^61 <= c_rem c < 2^61 -> 0 <= dataLen < 2^62 ->
  gen_call fuel "share.CompactShareCounter.Add" I64
    [c_last_shares c; c_last_rem c; c_shares c; c_rem c; dataLen]
  = let '(c', diff) := counter_add c dataLen in
    Val [diff; c_last_shares c'; c_last_rem c'; c_shares c'; c_rem c'].
Proof.
  intros Hf Hs Hr Hd.
  destruct fuel as [|fuel]; [lia|]. destruct fuel as [|fuel]; [lia|].
  unfold gen_call. rewrite callf_S. cbn.
  rewrite (wrap_U64_small dataLen) by lia.
  destruct (dataLen <? 0) eqn:E0; [lia|]. cbn.
  pose proof (delim_len_bound (Z.to_N dataLen)) as Hdl.
  unfold counter_add.
  set (dl := Z.of_N (delim_len (Z.to_N dataLen))) in *.
  rewrite (wrap_I64_small (dataLen + dl)) by lia. cbn.
  unfold eval_cmp.
  match goal with |- ?l = _ => set (L := l) end.
  repeat match goal with |- context[if ?b then _ else _] => destruct b eqn:?; cbn end.
  all: try (exfalso; lia).
  all: subst L.
  all: repeat (stp; wr; rewrite ?quot_nonneg, ?rem_nonneg by lia; try dec1).
  all: reflexivity.
Qed.

Lemma gen_counter_revert_lemma fuel ls lr s r :
  (1 <= fuel)%nat ->
  gen_call fuel "share.CompactShareCounter.Revert" I64 [ls; lr; s; r] = Val [ls; lr; ls; lr].
Proof.
  intros Hf. destruct fuel as [|fuel]; [lia|].
  unfold gen_call. rewrite callf_S. reflexivity.
Qed.

(* ---- histories: Some n = Add(n), None = Revert() ---- *)
Definition counter_fields (c : counter) : list Z :=
  [c_last_shares c; c_last_rem c; c_shares c; c_rem c].

(* run the translated methods over a history, threading the receiver's fields;
   result: the final receiver and the values returned by the Adds *)
Fixpoint gen_counter_run (fuel : nat) (c : counter) (ops : list (option Z)) : res (counter * list Z) :=
  match ops with
  | [] => Val (c, [])
  | Some n :: tl =>
    match gen_call fuel "share.CompactShareCounter.Add" I64 (counter_fields c ++ [n]) with
    | Val [d; ls; lr; s; r] =>
      match gen_counter_run fuel (mk_counter ls lr s r) tl with
      | Val (c', ds) => Val (c', d :: ds)
      | Flt => Flt | Fuel => Fuel
      end
    | Val _ => Flt | Flt => Flt | Fuel => Fuel
    end
  | None :: tl =>
    match gen_call fuel "share.CompactShareCounter.Revert" I64 (counter_fields c) with
    | Val [ls; lr; s; r] => gen_counter_run fuel (mk_counter ls lr s r) tl
    | Val _ => Flt | Flt => Flt | Fuel => Fuel
    end
  end.

(* the same history on the hand-written model *)
Fixpoint counter_run (c : counter) (ops : list (option Z)) : counter * list Z :=
  match ops with
  | [] => (c, [])
  | Some n :: tl =>
    let '(c1, d) := counter_add c n in
    let '(c2, ds) := counter_run c1 tl in (c2, d :: ds)
  | None :: tl => counter_run (counter_revert c) tl
  end.

Definition counter_in_range (c : counter) : Prop :=
  - 2^61 <= c_shares c < 2^61 /\ - 2^61 <= c_rem c < 2^61.

(* every state of the model-side run at which an Add happens is in range *)
Fixpoint counter_run_in_range (c : counter) (ops : list (option Z)) : Prop :=
  match ops with
  | [] => True
  | Some n :: tl =>
    counter_in_range c /\ 0 <= n < 2^61 /\ counter_run_in_range (fst (counter_add c n)) tl
  | None :: tl => counter_run_in_range (counter_revert c) tl
  end.

Lemma gen_counter_history_lemma fuel : (2 <= fuel)%nat -> forall ops c,
  counter_run_in_range c ops ->
  gen_counter_run fuel c ops = Val (counter_run c ops).
Proof.
  intros Hf ops. induction ops as [|[n|] tl IH]; intros c Hr.
  - reflexivity.
  - destruct Hr as ((Hs & Hrm) & Hn & Hr).
    cbn [gen_counter_run counter_run]. unfold counter_fields. cbn [app].
    rewrite gen_counter_add_lemma by (try assumption; lia).
    destruct (counter_add c n) as [c1 d] eqn:E. cbn [fst] in Hr.
    destruct c1 as [a b s r]. cbn [c_last_shares c_last_rem c_shares c_rem].
    rewrite (IH _ Hr).
    destruct (counter_run (mk_counter a b s r) tl) as [c2 ds]. reflexivity.
  - cbn [gen_counter_run counter_run counter_run_in_range] in *. unfold counter_fields.
    rewrite gen_counter_revert_lemma by lia.
    exact (IH _ Hr).
Qed.

(* ---- a simple sufficient condition for [counter_run_in_range] ---- *)
Definition counter_wf (c : counter) : Prop :=
  0 <= c_shares c /\ 0 <= c_rem c < 478 /\ 0 <= c_last_shares c /\ 0 <= c_last_rem c < 478.
Definition counter_bytes (c : counter) : Z :=
  Z.max (478 * c_shares c + c_rem c) (478 * c_last_shares c + c_last_rem c).
Fixpoint ops_weight (ops : list (option Z)) : Z :=
  match ops with
  | [] => 0
  | Some n :: tl => n + 14 + ops_weight tl
  | None :: tl => ops_weight tl
  end.
Definition ops_nonneg (ops : list (option Z)) : Prop :=
  Forall (fun o => match o with Some n => 0 <= n | None => True end) ops.

Lemma counter_add_wf c n : counter_wf c -> 0 <= n ->
  counter_wf (fst (counter_add c n)) /\
  counter_bytes (fst (counter_add c n)) <= counter_bytes c + n + 14.
Proof.
  intros (H1 & H2 & H3 & H4) Hn.
  pose proof (delim_len_bound (Z.to_N n)) as Hdl.
  unfold counter_add, counter_wf, counter_bytes.
  set (dl := Z.of_N (delim_len (Z.to_N n))) in *.
  repeat match goal with |- context[if ?b then _ else _] => destruct b eqn:?; cbn end.
  all: cbn [fst c_shares c_rem c_last_shares c_last_rem].
  all: Z.div_mod_to_equations; lia.
Qed.

Lemma ops_weight_nonneg ops : ops_nonneg ops -> 0 <= ops_weight ops.
Proof.
  induction 1 as [|[n|] tl Ho _ IH]; cbn [ops_weight]; lia.
Qed.

Lemma counter_run_in_range_suff ops : ops_nonneg ops -> forall c,
  counter_wf c -> counter_bytes c + ops_weight ops < 2^61 ->
  counter_run_in_range c ops.
Proof.
  induction 1 as [|[n|] tl Ho Htl IH]; intros c Hwf Hb; cbn [counter_run_in_range ops_weight] in *.
  - exact I.
  - pose proof (ops_weight_nonneg tl Htl) as Hw.
    destruct (counter_add_wf c n Hwf Ho) as (Hwf' & Hb').
    assert (Hc : 0 <= counter_bytes c /\ 478 * c_shares c + c_rem c <= counter_bytes c).
    { destruct Hwf as (? & ? & ? & ?). unfold counter_bytes. lia. }
    split; [|split].
    + destruct Hwf as (? & ? & ? & ?). unfold counter_in_range. lia.
    + lia.
    + apply IH; [exact Hwf'|lia].
  - apply IH.
    + destruct Hwf as (? & ? & ? & ?). unfold counter_wf, counter_revert. cbn. lia.
    + unfold counter_bytes, counter_revert in *. cbn. lia.
Qed.

Lemma gen_counter_history_sum_lemma fuel c ops : (2 <= fuel)%nat ->
  ops_nonneg ops -> counter_wf c -> counter_bytes c + ops_weight ops < 2^61 ->
  gen_counter_run fuel c ops = Val (counter_run c ops).
Proof.
  intros Hf Ho Hwf Hb. apply gen_counter_history_lemma; [exact Hf|].
  apply counter_run_in_range_suff; assumption.
Qed.

Lemma gen_counter_history_new_lemma fuel ops : (2 <= fuel)%nat ->
  ops_nonneg ops -> ops_weight ops < 2^61 ->
  gen_counter_run fuel new_counter ops = Val (counter_run new_counter ops).
Proof.
  intros Hf Ho Hb. apply gen_counter_history_sum_lemma; [exact Hf|exact Ho| |].
  - unfold counter_wf, new_counter. cbn. lia.
  - unfold counter_bytes, new_counter. cbn. lia.
Qed.
