(* C03 - Every produced square is a well-formed, namespace-ordered power-of-two square.
   Statements only.

   The statements are about the square layout written from the rules,
   [layout thr normals btxs] of Spec/LayoutSpec.v (normals = the ordinary transactions,
   btxs = the blob transactions, thr = the subtree root threshold).  Build and Construct
   return this layout: that is the refinement construct = layout_construct,
   build = layout_build of property C07, and the runner compares layout_construct /
   layout_build with the Go code byte for byte on every case.  Through that refinement
   the theorems below are statements about every square Build / Construct produce
   (C03_construct and C03_build are the form that composes with C07 directly).

   Conditions: thr >= 1; every blob is one NewBlob accepts (blob_ok) in a namespace
   ValidateForBlob accepts (lay_blob_ok); the worst-case estimate fits the maximum
   square (that is Construct's acceptance test / Build's keep test); and the estimate is
   below 2^21 shares, which holds for every maximum side up to 1024.  The last condition
   is needed because the estimate reserves room for 3-byte share indexes (placeholder
   16384) inside the wrapped PFBs: from index 2^21 on an index takes 4 bytes and the
   PFB shares can outgrow their reservation.

   Shares that are not part of the two transaction sequences or of a blob are
   [padding_spec ns ver] by the region theorem (C03_regions / C03_regions_index_free);
   C03_padding_canonical says what such a share is. *)
From Coq Require Import List NArith ZArith Sorted Permutation.
From GS.Model Require Import Base Varint Namespace ShareFmt Blob Counter Arith Proto.
From GS.Spec Require Import ShareSpec CompactSpec LayoutSpec.
From GS.Proofs Require Import ArithProofs SparseProofs RangeProofs LayoutShapeProofs.
Import ListNotations.
Open Scope N_scope.

(* 1. Size: the side is a power of two, at most the maximum m, and the square has
   exactly side * side shares *)
Theorem C03_size : forall thr normals btxs m, 1 <= thr -> Forall lay_btx_ok btxs ->
  pow2 m -> estimate thr normals btxs <= m * m -> estimate thr normals btxs < 2097152 ->
  let side := blob_min_square_size (estimate thr normals btxs) in
  (exists k, side = 2 ^ k) /\ side <= m /\ lenN (layout thr normals btxs) = side * side.
Proof. exact layout_size. Qed.
Print Assumptions C03_size.

Theorem C03_size_max_1024 : forall thr normals btxs m, 1 <= thr -> Forall lay_btx_ok btxs ->
  pow2 m -> m <= 1024 -> estimate thr normals btxs <= m * m ->
  let side := blob_min_square_size (estimate thr normals btxs) in
  (exists k, side = 2 ^ k) /\ side <= m /\ lenN (layout thr normals btxs) = side * side.
Proof. exact layout_size_1024. Qed.
Print Assumptions C03_size_max_1024.

(* without any condition: the side is the least power of two whose square covers the
   estimate, and the square has side * side shares whenever its occupied prefix
   (transactions, PFBs, blobs and their padding) fits *)
Theorem C03_size_partial : forall thr normals btxs,
  let side := blob_min_square_size (estimate thr normals btxs) in
  (exists k, side = 2 ^ k) /\
  (forall m, pow2 m -> estimate thr normals btxs <= m * m -> side <= m) /\
  (lenN (lay_body thr normals btxs) <= side * side -> lenN (layout thr normals btxs) = side * side).
Proof. exact layout_size_partial. Qed.
Print Assumptions C03_size_partial.

(* the two facts behind the size result: the real wrapped PFBs take no more shares than
   the worst-case ones, and the cursor after the last blob stays within the estimate
   (every alignment gap is below the subtree width) *)
Theorem C03_pfb_shares_within_reservation : forall placed btxs,
  Forall (fun e => lb_index e < 2097152) placed ->
  compact_count (wrappers placed 0 btxs) <= compact_count (map worst_wrapper btxs).
Proof. exact compact_count_wrappers. Qed.
Print Assumptions C03_pfb_shares_within_reservation.

Theorem C03_alignment_gap : forall c w, 1 <= w -> c <= align_up c w /\ align_up c w <= c + w - 1.
Proof. exact align_up_bounds. Qed.
Print Assumptions C03_alignment_gap.

(* 2. Every share has 512 bytes *)
Theorem C03_share_size : forall thr normals btxs, 1 <= thr -> Forall lay_btx_ok btxs ->
  estimate thr normals btxs < 2097152 ->
  Forall (fun s => length s = 512%nat) (layout thr normals btxs).
Proof. exact layout_wf. Qed.
Print Assumptions C03_share_size.

(* 3. Namespace order: non-decreasing share namespaces (bytes.Compare never Gt for an
   earlier share against a later one) *)
Theorem C03_namespace_order : forall thr normals btxs, 1 <= thr -> Forall lay_btx_ok btxs ->
  estimate thr normals btxs < 2097152 ->
  StronglySorted (fun a b => bytes_cmp (sh_ns a) (sh_ns b) <> Gt) (layout thr normals btxs).
Proof. exact layout_ordered. Qed.
Print Assumptions C03_namespace_order.

(* the region namespaces: tx < pfb < reserved padding < every blob namespace < tail padding *)
Theorem C03_reserved_order :
  bytes_cmp tx_ns pfb_ns = Lt /\ bytes_cmp pfb_ns primary_reserved_padding_ns = Lt /\
  forall b, lay_blob_ok b ->
    bytes_cmp primary_reserved_padding_ns (b_ns b) = Lt /\ bytes_cmp (b_ns b) tail_padding_ns = Lt.
Proof. exact (conj tx_lt_pfb (conj pfb_lt_reserved lay_blob_between)). Qed.
Print Assumptions C03_reserved_order.

(* the sort: a permutation, sorted by blob namespace *)
Theorem C03_sort : forall l,
  Permutation (lb_sort l) l /\
  StronglySorted (fun a b => bytes_cmp (b_ns (lb_blob a)) (b_ns (lb_blob b)) <> Gt) (lb_sort l).
Proof. exact (fun l => conj (lb_sort_perm l) (lb_sort_sorted l)). Qed.
Print Assumptions C03_sort.

(* 4. Regions.  [lay_placed] are the blobs in layout order with their start indexes;
   [reserved_pad] repeats padding_spec primary_reserved_padding_ns 0 up to the first blob;
   [blob_region] is the first blob followed, for every further blob, by padding shares
   padding_spec (namespace of the blob before) (its share version) and the blob's shares;
   [tail_pad] repeats padding_spec tail_padding_ns 0. *)
Theorem C03_regions : forall thr normals btxs, 1 <= thr -> Forall lay_btx_ok btxs ->
  estimate thr normals btxs < 2097152 ->
  let placed := lay_placed thr normals btxs in
  let tx_run := compact_spec_ix tx_ns 0 normals in
  let pfb_run := compact_spec_ix pfb_ns 0 (wrappers placed 0 btxs) in
  layout thr normals btxs =
    tx_run ++ pfb_run ++ reserved_pad (lenN (tx_run ++ pfb_run)) placed ++ blob_region placed
    ++ tail_pad thr normals btxs.
Proof. exact layout_regions. Qed.
Print Assumptions C03_regions.

(* the blobs in layout order are a namespace-sorted permutation of the input's blobs *)
Theorem C03_placed_blobs : forall thr normals btxs,
  let bs := map lb_blob (lay_placed thr normals btxs) in
  bs = map lb_blob (lb_sort (all_blobs 0 btxs)) /\
  Permutation bs (concat (map btx_blobs btxs)) /\
  StronglySorted (fun a b => bytes_cmp (b_ns a) (b_ns b) <> Gt) bs.
Proof. exact placed_blobs. Qed.
Print Assumptions C03_placed_blobs.

(* the same without indexes: [gapped ns ver [(g1,b1); (g2,b2); ...]] is g1 padding shares
   padding_spec ns ver, the shares of b1, g2 padding shares of b1's namespace and share
   version, the shares of b2, ... *)
Theorem C03_regions_index_free : forall thr normals btxs, 1 <= thr -> Forall lay_btx_ok btxs ->
  estimate thr normals btxs < 2097152 ->
  exists (gl : list (nat * blob)) (ntail : nat),
    map snd gl = map lb_blob (lb_sort (all_blobs 0 btxs)) /\
    layout thr normals btxs =
      compact_spec_ix tx_ns 0 normals
      ++ compact_spec_ix pfb_ns 0 (wrappers (lay_placed thr normals btxs) 0 btxs)
      ++ gapped primary_reserved_padding_ns 0 gl
      ++ repeat (padding_spec tail_padding_ns 0) ntail.
Proof. exact layout_regions_gapped. Qed.
Print Assumptions C03_regions_index_free.

(* a padding share is canonical: 512 bytes, its namespace and share version, sequence
   start, sequence length 0, everything after the info byte zero *)
Theorem C03_padding_canonical : forall ns ver, length ns = 29%nat -> ver <= 127 ->
  let p := padding_spec ns ver in
  length p = 512%nat /\ sh_ns p = ns /\ sh_version p = ver /\ sh_start p = true /\
  sh_seq_len p = 0 /\ skipn 30 p = repeat Byte.x00 482 /\ sh_is_padding p = true.
Proof. exact padding_spec_canonical. Qed.
Print Assumptions C03_padding_canonical.

(* All items for the rule-based Construct and Build (maximum side up to 1024).
   [square_shape thr normals btxs m sq] is the conjunction of items 1 to 4 for sq. *)
Theorem C03_construct : forall raws max thr sq, 1 <= thr -> (max <= 1024)%Z ->
  layout_construct raws max thr = Ok sq ->
  exists normals btxs, split_ordered false raws [] [] = Some (normals, btxs) /\
    sq = layout thr normals btxs /\
    (Forall lay_btx_ok btxs -> square_shape thr normals btxs (Z.to_N max) sq).
Proof. exact layout_construct_shape. Qed.
Print Assumptions C03_construct.

Theorem C03_build : forall raws max thr sq kept, 1 <= thr -> (max <= 1024)%Z ->
  layout_build raws max thr = Ok (sq, kept) ->
  exists normals btxs, keep (Z.to_N max * Z.to_N max) thr raws [] [] [] [] = Some (normals, btxs, kept) /\
    sq = layout thr normals btxs /\
    (Forall lay_btx_ok btxs -> square_shape thr normals btxs (Z.to_N max) sq).
Proof. exact layout_build_shape. Qed.
Print Assumptions C03_build.

Theorem C03_square_shape_unfolded : forall thr normals btxs m sq,
  square_shape thr normals btxs m sq <->
  (let side := blob_min_square_size (estimate thr normals btxs) in
   let placed := lay_placed thr normals btxs in
   (exists k, side = 2 ^ k) /\ side <= m /\ lenN sq = side * side /\
   Forall (fun s => length s = 512%nat) sq /\
   StronglySorted (fun a b => bytes_cmp (sh_ns a) (sh_ns b) <> Gt) sq /\
   sq = tx_run normals ++ pfb_run thr normals btxs
        ++ reserved_pad (lenN (tx_run normals ++ pfb_run thr normals btxs)) placed
        ++ blob_region placed ++ tail_pad thr normals btxs).
Proof. exact (fun thr normals btxs m sq => iff_refl _). Qed.
Print Assumptions C03_square_shape_unfolded.

(* ---- non-vacuity ---- *)
(* Two 3-byte ordinary transactions and one blob transaction (500 byte PFB) with a
   2000 byte blob in namespace ..02 and a 600 byte blob in namespace ..01, thr = 1,
   maximum side 4.  The conditions hold; the estimate is 14, the side 4, the square
   has 16 shares: tx, pfb, pfb, one reserved padding share, blob ..01 at index 4
   (2 shares), two padding shares of namespace ..01, blob ..02 at index 8 (5 shares),
   three tail padding shares. *)
Example C03_example_conditions :
  1 <= 1 /\ Forall lay_btx_ok ex_btxs /\ pow2 4 /\ 4 <= 1024 /\ estimate 1 ex_normals ex_btxs <= 4 * 4.
Proof. exact ex_layout_hyps. Qed.

Example C03_example_input :
  ex_normals = [[Byte.x01; Byte.x02; Byte.x03]; [Byte.x04; Byte.x05; Byte.x06]] /\
  ex_btxs = [mk_btx (repeat Byte.x0a 500)
              [mk_blob (repeat Byte.x00 19 ++ repeat Byte.x02 10) (repeat Byte.x08 2000) 0 None;
               mk_blob (repeat Byte.x00 19 ++ repeat Byte.x01 10) (repeat Byte.x07 600) 0 None]].
Proof. split; reflexivity. Qed.

Example C03_example_square :
  estimate 1 ex_normals ex_btxs = 14 /\ blob_min_square_size (estimate 1 ex_normals ex_btxs) = 4 /\
  length (layout 1 ex_normals ex_btxs) = 16%nat /\
  map lb_index (lay_placed 1 ex_normals ex_btxs) = [4; 8] /\
  map sh_ns (layout 1 ex_normals ex_btxs) =
    [tx_ns; pfb_ns; pfb_ns; primary_reserved_padding_ns;
     ex_ns Byte.x01; ex_ns Byte.x01; ex_ns Byte.x01; ex_ns Byte.x01;
     ex_ns Byte.x02; ex_ns Byte.x02; ex_ns Byte.x02; ex_ns Byte.x02; ex_ns Byte.x02;
     tail_padding_ns; tail_padding_ns; tail_padding_ns] /\
  layout 1 ex_normals ex_btxs =
    tx_run ex_normals ++ pfb_run 1 ex_normals ex_btxs
    ++ [padding_spec primary_reserved_padding_ns 0]
    ++ (blob_spec ex_blob_a ++ repeat (padding_spec (ex_ns Byte.x01) 0) 2 ++ blob_spec ex_blob_b)
    ++ repeat (padding_spec tail_padding_ns 0) 3.
Proof. repeat split; vm_compute; reflexivity. Qed.

Example C03_example_shape : square_shape 1 ex_normals ex_btxs 4 (layout 1 ex_normals ex_btxs).
Proof. exact ex_layout_shape. Qed.

(* the small input of the plan: the same ordinary transactions and one blob transaction
   [mk_btx [0a] [600 byte blob in namespace ..01]], thr = 64: estimate 4, side 2, 4 shares *)
Example C03_example_small :
  ex_btxs_small = [mk_btx [Byte.x0a] [mk_blob (repeat Byte.x00 19 ++ repeat Byte.x01 10) (repeat Byte.x07 600) 0 None]] /\
  Forall lay_btx_ok ex_btxs_small /\
  estimate 64 ex_normals ex_btxs_small = 4 /\
  blob_min_square_size (estimate 64 ex_normals ex_btxs_small) = 2 /\
  length (layout 64 ex_normals ex_btxs_small) = 4%nat /\
  map sh_ns (layout 64 ex_normals ex_btxs_small) = [tx_ns; pfb_ns; ex_ns Byte.x01; ex_ns Byte.x01] /\
  square_shape 64 ex_normals ex_btxs_small 2 (layout 64 ex_normals ex_btxs_small).
Proof.
  split; [reflexivity|]. split; [exact (proj2 ex_btxs_ok)|]. exact ex_layout_small.
Qed.

(* the empty input: the single tail padding share, side 1 *)
Example C03_example_empty :
  layout 64 [] [] = [padding_spec tail_padding_ns 0] /\ blob_min_square_size (estimate 64 [] []) = 1 /\
  square_shape 64 [] [] 1 (layout 64 [] []).
Proof. split; [reflexivity|]. split; [reflexivity|]. exact (proj1 ex_layout_empty). Qed.
