(* C05 end to end: the blob commitments of the blobs of a square the CODE MODEL returns
   (construct / build of Model/Builder.v) are commitments over inner nodes of the square's
   row trees.  Composition of
     - EndToEndProofs.construct_indexes / construct_square_wellformed / construct_ok_inv
       (every blob of every kept blob transaction sits verbatim at the index recorded in the
       square's PFB shares, a multiple of the blob's subtree width; the square is a
       power-of-two, namespace-ordered square of 512-byte shares),
     - ArithProofs.subtree_width_spec / blob_min_square_size_spec (the width is at most the
       least power-of-two side whose square holds the blob, hence at most the side of any
       power-of-two square that holds the blob),
     - NmtProofs.chunks_in_row / subtree_roots_in_square / commitment_from_rows /
       subtree_roots_ok / nmt_root_ok.
   [H] is any base hash; the facts that say "never fails" need 32-byte digests, which the
   Gallina sha256 has (sha256_length). *)
From Coq Require Import List Arith NArith ZArith Lia Bool Sorted.
From Coq Require Import ZifyN ZifyNat ZifyBool.
From GS.Model Require Import Base Varint Namespace ShareFmt Blob Sparse Compact Counter Arith Proto Builder Square Sha256 Nmt.
From GS.Spec Require Import ShareSpec CompactSpec LayoutSpec.
From GS.Proofs Require Import BaseLemmas NmtProofs SparseProofs ArithProofs NamespaceProofs RangeProofs
  LayoutShapeProofs RefinementProofs1 RefinementProofs3 EndToEndProofs.
Import ListNotations.
Open Scope N_scope.

(* ================================================================== *)
(* 0. Vocabulary                                                       *)
(* ================================================================== *)

(* The inner node covering the [m] leaves at square index [x] in the namespaced tree of
   the row of [sq] (side [s], row-major) that holds index [x]: an abbreviation of the
   expression used by NmtProofs.subtree_roots_in_square, nothing else. *)
Definition row_node (H : bytes -> bytes) (sq : list share) (s x m : N) : option (outcome bytes) :=
  inner_node (hash_node_o H) (Ok (nmt_empty_root H))
             (nmt_leaf_hashes H (row_leaves (takeN s (dropN (x / s * s) sq)))) (x mod s) m.

(* the mountain-range chunks (offset in the blob, size) of a blob of n shares *)
Definition blob_chunks (n thr : N) : list (N * N) := offsets 0 (mmr_sizes n (subtree_width n thr)).

(* [i] is the share index the square itself records for blob [j] of its [p]-th blob
   transaction: Square.WrappedPFBs, tx.UnmarshalIndexWrapper, ShareIndexes[j] *)
Definition recorded_index (sq : list share) (p j : nat) (i : N) : Prop :=
  exists ws w iw, wrapped_pfbs sq = Ok ws /\ nth_error ws p = Some w /\
                  unmarshal_index_wrapper w = Some iw /\ nth_error (iw_idx iw) j = Some i.

(* What C05 says of one blob [b] at index [i] of a square [sq] of side [s]. *)
Definition blob_in_rows (H : bytes -> bytes) (thr : N) (sq : list share) (s i : N) (b : blob) : Prop :=
  let n := blob_share_count b in
  let w := subtree_width n thr in
  let chunks := blob_chunks n thr in
  (* the blob's own share encoding, n shares, sits at i *)
  blob_ok b /\ sparse_write b = Ok (blob_spec b) /\ lenN (blob_spec b) = n /\
  takeN n (dropN i sq) = blob_spec b /\ i + n <= s * s /\
  (* (1) the alignment hypotheses *)
  w <= s /\ i mod w = 0 /\
  (* (2) no chunk spans two rows *)
  (forall o m, In (o, m) chunks ->
     pow2 m /\ m <= w /\ o + m <= n /\ (i + o) mod m = 0 /\
     (i + o) / s = (i + o + m - 1) / s /\ (i + o) mod s + m <= s /\ ((i + o) mod s) mod m = 0) /\
  (* (3) the subtree roots of the blob alone are the row inner nodes *)
  (forall roots, subtree_roots H b thr = Ok roots ->
     length roots = length chunks /\
     forall k o m, nth_error chunks k = Some (o, m) ->
       exists root, nth_error roots k = Some root /\ row_node H sq s (i + o) m = Some (Ok root)) /\
  (* (4) the commitment is the merkle root over exactly these nodes *)
  (forall mrf cm, create_commitment H mrf b thr = Ok cm ->
     exists nodes, cm = mrf nodes /\ length nodes = length chunks /\
       forall k o m, nth_error chunks k = Some (o, m) ->
         exists node, nth_error nodes k = Some node /\ row_node H sq s (i + o) m = Some (Ok node)) /\
  (* neither computation fails when the digests are 32 bytes *)
  ((forall x, length (H x) = 32%nat) ->
     exists roots, subtree_roots H b thr = Ok roots /\
       forall mrf, create_commitment H mrf b thr = Ok (mrf roots)).

(* ================================================================== *)
(* 1. Arithmetic bridge: the width fits any square that holds the blob *)
(* ================================================================== *)

Lemma width_le_side n thr side : 1 <= thr -> pow2 side -> n <= side * side ->
  subtree_width n thr <= side.
Proof.
  intros Ht Hp Hn. destruct (subtree_width_spec n thr Ht) as (_ & _ & Hle).
  destruct (blob_min_square_size_spec n) as (_ & _ & Hleast).
  specialize (Hleast side Hp Hn). lia.
Qed.

Lemma pow2_of_nat side : pow2 side -> exists kk, side = N.of_nat (2 ^ kk).
Proof.
  intros [k ->]. exists (N.to_nat k). rewrite of_nat_pow2, N2Nat.id. reflexivity.
Qed.

Lemma square_length_nat (sq : list share) kk :
  lenN sq = N.of_nat (2 ^ kk) * N.of_nat (2 ^ kk) -> length sq = (2 ^ kk * 2 ^ kk)%nat.
Proof. unfold lenN. intros E. rewrite <- Nat2N.inj_mul in E. apply Nat2N.inj, E. Qed.

Lemma sha256_length x : length (sha256 x) = 32%nat.
Proof. unfold sha256. rewrite !app_length, !length_be32. reflexivity. Qed.

Lemma blob_share_count_spec b : blob_ok b -> lenN (blob_spec b) = blob_share_count b.
Proof. intros Hok. exact (blob_spec_length b Hok). Qed.

(* ================================================================== *)
(* 2. One blob in any power-of-two square                              *)
(* ================================================================== *)

Theorem blob_in_rows_intro H thr (sq : list share) side i b :
  1 <= thr -> blob_ok b -> pow2 side -> lenN sq = side * side ->
  firstn (N.to_nat (blob_share_count b)) (skipn (N.to_nat i) sq) = blob_spec b ->
  i + blob_share_count b <= lenN sq ->
  i mod subtree_width (blob_share_count b) thr = 0 ->
  blob_in_rows H thr sq side i b.
Proof.
  intros Ht Hok Hp Hlen Hwin Hfit Hmod.
  pose proof (blob_share_count_spec b Hok) as Hn.
  assert (Hw : subtree_width (blob_share_count b) thr <= side) by (apply width_le_side; [exact Ht|exact Hp|lia]).
  destruct (pow2_of_nat side Hp) as [kk Hkk].
  assert (Hsq : length sq = (2 ^ kk * 2 ^ kk)%nat) by (apply square_length_nat; rewrite <- Hkk; exact Hlen).
  unfold blob_in_rows. cbv zeta. unfold blob_chunks.
  split; [exact Hok|]. split; [exact (sparse_write_spec b Hok)|]. split; [exact Hn|].
  split; [exact Hwin|]. split; [lia|]. split; [exact Hw|]. split; [exact Hmod|].
  split; [|split; [|split]].
  - intros o m Hin. exact (chunks_in_row (blob_share_count b) thr i side Ht Hmod Hp Hw o m Hin).
  - intros roots Hroots.
    destruct (subtree_root_is_row_node H b thr roots Hok Ht Hroots) as [Hl _]. cbv zeta in Hl. rewrite Hn in Hl.
    split; [exact Hl|]. intros k o m Hk.
    pose proof (subtree_roots_in_square H b thr roots sq kk i Hok Ht Hroots) as S. cbv zeta in S.
    rewrite Hn, <- Hkk in S.
    destruct (S Hsq Hmod Hw Hwin k o m Hk) as (root & Hr & _ & Hnode).
    exists root. split; [exact Hr|exact Hnode].
  - intros mrf cm Hcm.
    pose proof (commitment_from_rows H mrf b thr cm sq kk i Hok Ht Hcm) as S. cbv zeta in S.
    rewrite Hn, <- Hkk in S.
    destruct (S Hsq Hmod Hw Hwin) as (nodes & Hc & Hl & Hall).
    exists nodes. split; [exact Hc|]. split; [rewrite offsets_length; exact Hl|]. exact Hall.
  - intros H32. destruct (subtree_roots_ok H H32 b thr Hok Ht) as [roots Hroots].
    exists roots. split; [exact Hroots|]. intros mrf. rewrite create_commitment_spec, Hroots. reflexivity.
Qed.

(* the commitment of a blob is the merkle root over row inner nodes of BOTH of any two
   squares holding it (positions, sides and neighbours may differ): the node lists agree *)
Theorem blob_in_rows_independent H thr b sq1 s1 i1 sq2 s2 i2 :
  blob_in_rows H thr sq1 s1 i1 b -> blob_in_rows H thr sq2 s2 i2 b ->
  forall mrf cm, create_commitment H mrf b thr = Ok cm ->
  exists nodes, cm = mrf nodes /\ length nodes = length (blob_chunks (blob_share_count b) thr) /\
    forall k o m, nth_error (blob_chunks (blob_share_count b) thr) k = Some (o, m) ->
      exists node, nth_error nodes k = Some node /\
        row_node H sq1 s1 (i1 + o) m = Some (Ok node) /\
        row_node H sq2 s2 (i2 + o) m = Some (Ok node).
Proof.
  intros B1 B2 mrf cm Hcm. rewrite create_commitment_spec in Hcm.
  destruct (subtree_roots H b thr) as [roots| |] eqn:Hroots; cbn [bind] in Hcm; try discriminate.
  injection Hcm as <-.
  destruct B1 as (_ & _ & _ & _ & _ & _ & _ & _ & R1 & _). destruct B2 as (_ & _ & _ & _ & _ & _ & _ & _ & R2 & _).
  destruct (R1 roots Hroots) as [Hl N1]. destruct (R2 roots Hroots) as [_ N2].
  exists roots. split; [reflexivity|]. split; [exact Hl|]. intros k o m Hk.
  destruct (N1 k o m Hk) as (r1 & Hr1 & Hn1). destruct (N2 k o m Hk) as (r2 & Hr2 & Hn2).
  assert (r2 = r1) by congruence. subst r2. exists r1. split; [exact Hr1|]. split; assumption.
Qed.

(* ================================================================== *)
(* 3. The rows of a namespace-ordered square are trees Push accepts     *)
(* ================================================================== *)

Lemma id_less_of_not_gt a b : bytes_cmp a b <> Gt -> id_less b a = false.
Proof.
  intros Hc. unfold id_less. rewrite (bytes_cmp_antisym a b).
  destruct (bytes_cmp a b); cbn [CompOpp]; [reflexivity|reflexivity|congruence].
Qed.

Lemma push_ok_ordered : forall (l : list share) prev,
  Forall (fun s => length s = 512%nat) l -> ns_ordered l ->
  match prev with None => True | Some p => Forall (fun s => bytes_cmp p (sh_ns s) <> Gt) l end ->
  push_ok_from prev (row_leaves l) = true.
Proof.
  induction l as [|x tl IH]; intros prev Hlen Hord Hprev; [reflexivity|].
  apply Forall_cons_iff in Hlen as [Hx Hlen]. unfold ns_ordered in Hord.
  inversion Hord as [|? ? Hord' Hall]; subst.
  unfold row_leaves. cbn [map push_ok_from]. fold (row_leaves tl).
  assert (H29 : length (firstn nmt_ns_len x) = 29%nat) by (rewrite firstn_length, Hx; reflexivity).
  rewrite (firstn_ns_app _ _ H29).
  replace (Nat.ltb (length (firstn nmt_ns_len x ++ x)) nmt_ns_len) with false
    by (symmetry; apply Nat.ltb_ge; rewrite app_length, H29; unfold nmt_ns_len; lia).
  assert (Hnext : push_ok_from (Some (firstn nmt_ns_len x)) (row_leaves tl) = true)
    by (apply IH; [exact Hlen|exact Hord'|exact Hall]).
  destruct prev as [p|]; [|exact Hnext].
  apply Forall_cons_iff in Hprev as [Hp _].
  change (firstn nmt_ns_len x) with (sh_ns x). rewrite (id_less_of_not_gt _ _ Hp). exact Hnext.
Qed.

Lemma ns_ordered_window (sq : list share) a c : ns_ordered sq -> ns_ordered (firstn c (skipn a sq)).
Proof.
  intros Hord. unfold ns_ordered in *.
  rewrite <- (firstn_skipn a sq) in Hord. apply StronglySorted_app_inv in Hord as (_ & Hs & _).
  rewrite <- (firstn_skipn c (skipn a sq)) in Hs. apply StronglySorted_app_inv in Hs as (Hs & _ & _). exact Hs.
Qed.

(* every row of a namespace-ordered square of 512-byte shares: all Pushes succeed, and
   with 32-byte digests the row tree has a root (a 90-byte namespaced node) *)
Theorem rows_push_ok (sq : list share) side : 0 < side -> lenN sq = side * side ->
  Forall (fun s => length s = 512%nat) sq -> ns_ordered sq ->
  forall r, r < side ->
    let row := takeN side (dropN (r * side) sq) in
    lenN row = side /\ nmt_push_ok (row_leaves row) = true /\
    forall H : bytes -> bytes, (forall x, length (H x) = 32%nat) ->
      exists v, nmt_root H (row_leaves row) = Ok v /\ length v = 90%nat.
Proof.
  intros Hpos Hlen Hsh Hord r Hr row.
  assert (Hrl : lenN row = side).
  { unfold row, lenN, takeN, dropN in *. rewrite firstn_length, skipn_length. nia. }
  assert (Hpush : nmt_push_ok (row_leaves row) = true).
  { unfold nmt_push_ok. apply push_ok_ordered; [|apply ns_ordered_window, Hord|exact I].
    unfold row, takeN, dropN. apply Forall_firstn, Forall_skipn, Hsh. }
  split; [exact Hrl|]. split; [exact Hpush|].
  intros H H32. assert (Hne : row_leaves row <> []).
  { destruct row as [|x tl]; [unfold lenN in Hrl; cbn [length] in Hrl; lia|discriminate]. }
  destruct (nmt_root_ok H H32 (row_leaves row) Hne Hpush) as (v & Hv & Hl & _).
  exists v. split; assumption.
Qed.

(* ================================================================== *)
(* 4. End to end: Construct                                            *)
(* ================================================================== *)

Theorem construct_commitments H raws max thr sq : 1 <= thr -> (max <= 1024)%Z -> c07_raws_ok raws ->
  construct raws max thr = Ok sq ->
  exists side normals btxs,
    pow2 side /\ side <= Z.to_N max /\ lenN sq = side * side /\
    Forall (fun s => length s = 512%nat) sq /\ ns_ordered sq /\
    split_ordered false raws [] [] = Some (normals, btxs) /\
    (forall r, r < side -> nmt_push_ok (row_leaves (takeN side (dropN (r * side) sq))) = true) /\
    forall p t j b, nth_error btxs p = Some t -> nth_error (btx_blobs t) j = Some b ->
      exists i, recorded_index sq p j i /\ blob_in_rows H thr sq side i b.
Proof.
  intros Ht Hmax Hraws Hc.
  destruct (construct_square_wellformed raws max thr sq Ht Hmax Hraws Hc) as (side & Hp & Hsm & Hlen & Hsh & Hord).
  destruct (construct_ok_inv raws max thr sq Ht Hmax Hraws Hc) as (n0 & b0 & Hs0 & _ & Hok & _).
  destruct (construct_indexes raws max thr sq Ht Hmax Hraws Hc)
    as (normals & btxs & ws & placed & Hs & Hws & _ & _ & _ & _ & Hall).
  rewrite Hs0 in Hs. injection Hs as <- <-.
  exists side, n0, b0. do 5 (split; [assumption|]). split; [exact Hs0|]. split.
  - intros r Hr. exact (proj1 (proj2 (rows_push_ok sq side (pow2_pos _ Hp) Hlen Hsh Hord r Hr))).
  - intros p t j b Hpt Hjb.
    destruct (Hall p t Hpt) as (w & idx & Hw & Hun & _ & Hblobs).
    destruct (Hblobs j b Hjb) as (e & _ & _ & _ & _ & _ & Hidx & Hwin & Hfit & Hmod & _).
    exists (lb_index e). split.
    + exists ws, w, (mk_iw (btx_tx t) idx type_id_indx). cbn [iw_idx]. repeat split; assumption.
    + assert (Hbok : blob_ok b).
      { rewrite Forall_forall in Hok. pose proof (Hok t (nth_error_In _ _ Hpt)) as Htok.
        exact (proj1 (proj1 (c07_btx_ok_iff t) Htok b (nth_error_In _ _ Hjb))). }
      apply blob_in_rows_intro; assumption.
Qed.

(* ... and Build: its square is Construct's square of the kept list *)
Theorem build_commitments H raws max thr sq kept : 1 <= thr -> (max <= 1024)%Z -> c07_raws_ok raws ->
  build raws max thr = Ok (sq, kept) ->
  exists side normals btxs,
    pow2 side /\ side <= Z.to_N max /\ lenN sq = side * side /\
    Forall (fun s => length s = 512%nat) sq /\ ns_ordered sq /\
    split_ordered false kept [] [] = Some (normals, btxs) /\
    (forall r, r < side -> nmt_push_ok (row_leaves (takeN side (dropN (r * side) sq))) = true) /\
    forall p t j b, nth_error btxs p = Some t -> nth_error (btx_blobs t) j = Some b ->
      exists i, recorded_index sq p j i /\ blob_in_rows H thr sq side i b.
Proof.
  intros Ht Hmax Hraws Hb. destruct (build_kept_construct raws max thr sq kept Hraws Hb) as [Hk Hc].
  exact (construct_commitments H kept max thr sq Ht Hmax Hk Hc).
Qed.

(* "Consequently": the same blob in two constructed squares (other transactions, other
   maximum side, hence other index, side and neighbours; same threshold) - its commitment
   is the merkle root over row inner nodes of both squares *)
Theorem construct_commitment_independent H mrf thr raws1 max1 sq1 raws2 max2 sq2 :
  1 <= thr -> (max1 <= 1024)%Z -> (max2 <= 1024)%Z -> c07_raws_ok raws1 -> c07_raws_ok raws2 ->
  construct raws1 max1 thr = Ok sq1 -> construct raws2 max2 thr = Ok sq2 ->
  exists side1 normals1 btxs1 side2 normals2 btxs2,
    lenN sq1 = side1 * side1 /\ lenN sq2 = side2 * side2 /\
    split_ordered false raws1 [] [] = Some (normals1, btxs1) /\
    split_ordered false raws2 [] [] = Some (normals2, btxs2) /\
    forall b p1 t1 j1 p2 t2 j2,
      nth_error btxs1 p1 = Some t1 -> nth_error (btx_blobs t1) j1 = Some b ->
      nth_error btxs2 p2 = Some t2 -> nth_error (btx_blobs t2) j2 = Some b ->
      exists i1 i2, recorded_index sq1 p1 j1 i1 /\ recorded_index sq2 p2 j2 i2 /\
        forall cm, create_commitment H mrf b thr = Ok cm ->
        exists nodes, cm = mrf nodes /\ length nodes = length (blob_chunks (blob_share_count b) thr) /\
          forall k o m, nth_error (blob_chunks (blob_share_count b) thr) k = Some (o, m) ->
            exists node, nth_error nodes k = Some node /\
              row_node H sq1 side1 (i1 + o) m = Some (Ok node) /\
              row_node H sq2 side2 (i2 + o) m = Some (Ok node).
Proof.
  intros Ht Hm1 Hm2 Hr1 Hr2 Hc1 Hc2.
  destruct (construct_commitments H raws1 max1 thr sq1 Ht Hm1 Hr1 Hc1)
    as (s1 & n1 & b1 & _ & _ & Hl1 & _ & _ & Hs1 & _ & A1).
  destruct (construct_commitments H raws2 max2 thr sq2 Ht Hm2 Hr2 Hc2)
    as (s2 & n2 & b2 & _ & _ & Hl2 & _ & _ & Hs2 & _ & A2).
  exists s1, n1, b1, s2, n2, b2. do 4 (split; [assumption|]).
  intros b p1 t1 j1 p2 t2 j2 Hp1 Hj1 Hp2 Hj2.
  destruct (A1 p1 t1 j1 b Hp1 Hj1) as (i1 & R1 & B1). destruct (A2 p2 t2 j2 b Hp2 Hj2) as (i2 & R2 & B2).
  exists i1, i2. split; [exact R1|]. split; [exact R2|].
  intros cm Hcm. exact (blob_in_rows_independent H thr b sq1 s1 i1 sq2 s2 i2 B1 B2 mrf cm Hcm).
Qed.

(* ================================================================== *)
(* 5. The instance that is run against the Go code: SHA-256             *)
(* ================================================================== *)

(* with the Gallina SHA-256 nothing is conditional: GenerateSubtreeRoots and
   CreateCommitment succeed and their results are the row inner nodes / the merkle root
   over them *)
Theorem construct_commitments_sha raws max thr sq : 1 <= thr -> (max <= 1024)%Z -> c07_raws_ok raws ->
  construct raws max thr = Ok sq ->
  exists side normals btxs,
    pow2 side /\ lenN sq = side * side /\
    split_ordered false raws [] [] = Some (normals, btxs) /\
    (forall r, r < side ->
       exists v, nmt_root sha256 (row_leaves (takeN side (dropN (r * side) sq))) = Ok v /\ length v = 90%nat) /\
    forall p t j b, nth_error btxs p = Some t -> nth_error (btx_blobs t) j = Some b ->
      exists i roots, recorded_index sq p j i /\
        subtree_roots_sha b thr = Ok roots /\
        commitment_sha b thr = Ok (merkle_root sha256 roots) /\
        let n := blob_share_count b in
        subtree_width n thr <= side /\ i mod subtree_width n thr = 0 /\
        length roots = length (blob_chunks n thr) /\
        forall k o m, nth_error (blob_chunks n thr) k = Some (o, m) ->
          (i + o) / side = (i + o + m - 1) / side /\
          exists root, nth_error roots k = Some root /\ row_node sha256 sq side (i + o) m = Some (Ok root).
Proof.
  intros Ht Hmax Hraws Hc.
  destruct (construct_commitments sha256 raws max thr sq Ht Hmax Hraws Hc)
    as (side & normals & btxs & Hp & _ & Hlen & Hsh & Hord & Hs & _ & Hall).
  exists side, normals, btxs. split; [exact Hp|]. split; [exact Hlen|]. split; [exact Hs|]. split.
  - intros r Hr.
    destruct (rows_push_ok sq side (pow2_pos _ Hp) Hlen Hsh Hord r Hr) as (_ & _ & Hroot).
    exact (Hroot sha256 sha256_length).
  - intros p t j b Hpt Hjb. destruct (Hall p t j b Hpt Hjb) as (i & Hrec & B).
    destruct B as (_ & _ & _ & _ & _ & Hw & Hmod & Hrows & Hroots & _ & Hnf).
    destruct (Hnf sha256_length) as (roots & Hsr & Hcm).
    exists i, roots. split; [exact Hrec|]. split; [exact Hsr|]. split; [exact (Hcm (merkle_root sha256))|].
    cbv zeta. split; [exact Hw|]. split; [exact Hmod|].
    destruct (Hroots roots Hsr) as [Hl Hnodes]. split; [exact Hl|].
    intros k o m Hk. split.
    + destruct (Hrows o m (nth_error_In _ _ Hk)) as (_ & _ & _ & _ & Hrow & _). exact Hrow.
    + exact (Hnodes k o m Hk).
Qed.
