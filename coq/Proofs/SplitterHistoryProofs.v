(* C14, compact-splitter half: the shares (and the share ranges, and Count) finally
   produced by a compact share splitter depend only on the transactions written, not on
   the exports and counts performed in between.

   Model: Model/Compact.v, mirroring share/split_compact_shares.go with the repair of
   defect D5 (Export pads and stacks a copy of the pending share, keeps the pending
   builder and sets done; a later write pops that copy again). *)
From Coq Require Import List Arith NArith ZArith Lia Bool.
From Coq Require Import ZifyN ZifyNat ZifyBool.
From GS.Model Require Import Base Varint Namespace ShareFmt Compact.
From GS.Proofs Require Import BaseLemmas.
Import ListNotations.

Open Scope nat_scope.

(* ---- histories ---- *)
Inductive sop := SWrite (tx : bytes) | SExport | SCount.

(* Count is a pure function of the state (Go: no assignment in Count), so it is a no-op *)
Definition step (c : csplitter) (op : sop) : outcome csplitter :=
  match op with
  | SWrite tx => cs_write_tx c tx
  | SExport => do r <- cs_export c; Ok (fst r)
  | SCount => Ok c
  end.

Fixpoint run (c : csplitter) (ops : list sop) : outcome csplitter :=
  match ops with
  | [] => Ok c
  | op :: tl => do c1 <- step c op; run c1 tl
  end.

Fixpoint writes_of (ops : list sop) : list bytes :=
  match ops with
  | [] => []
  | SWrite tx :: tl => tx :: writes_of tl
  | _ :: tl => writes_of tl
  end.

(* the shares of a final export *)
Definition final_shares (c : csplitter) : outcome (list share) :=
  do r <- cs_export c; Ok (snd r).

(* ---- relating outcomes ---- *)
Definition orel {A B} (R : A -> B -> Prop) (o : outcome A) (o' : outcome B) : Prop :=
  match o, o' with
  | Ok a, Ok b => R a b
  | Err, Err => True
  | Fault, Fault => True
  | _, _ => False
  end.

Lemma orel_bind {A B A' B'} (R : A -> B -> Prop) (S : A' -> B' -> Prop) o o' f g :
  orel R o o' -> (forall a b, R a b -> orel S (f a) (g b)) -> orel S (bind o f) (bind o' g).
Proof.
  intros H Hf. destruct o, o'; cbn in *; try contradiction; auto.
Qed.

Lemma orel_eq_refl {A} (o : outcome A) : orel eq o o.
Proof. destruct o; cbn; auto. Qed.

(* ---- share lists that agree except for bytes 30..33 of the first share ---- *)
Definition sim_first (f f' : share) : Prop :=
  length f = length f' /\ firstn 30 f = firstn 30 f' /\ skipn 34 f = skipn 34 f'.

Definition shs_sim (l l' : list share) : Prop :=
  match l, l' with
  | [], [] => True
  | f :: r, f' :: r' => sim_first f f' /\ r = r'
  | _, _ => False
  end.

Lemma sim_first_refl f : sim_first f f.
Proof. repeat split. Qed.

Lemma sim_first_trans a b c : sim_first a b -> sim_first b c -> sim_first a c.
Proof. intros (H1 & H2 & H3) (H4 & H5 & H6). repeat split; congruence. Qed.

Lemma shs_sim_refl l : shs_sim l l.
Proof. destruct l; cbn; auto using sim_first_refl. Qed.

Lemma shs_sim_trans a b c : shs_sim a b -> shs_sim b c -> shs_sim a c.
Proof.
  destruct a, b, c; cbn; try tauto.
  intros (H1 & H2) (H3 & H4). split; [eapply sim_first_trans; eauto|congruence].
Qed.

Lemma shs_sim_length l l' : shs_sim l l' -> length l = length l'.
Proof. destruct l, l'; cbn; try tauto. intros (_ & ->). reflexivity. Qed.

Lemma shs_sim_lenN l l' : shs_sim l l' -> lenN l = lenN l'.
Proof. intros H. unfold lenN. rewrite (shs_sim_length _ _ H). reflexivity. Qed.

Lemma shs_sim_nil_l l : shs_sim [] l -> l = [].
Proof. destruct l; cbn; tauto. Qed.

Lemma shs_sim_app l l' x : shs_sim l l' -> shs_sim (l ++ [x]) (l' ++ [x]).
Proof.
  destruct l, l'; cbn; try tauto.
  - intros _. split; [apply sim_first_refl|reflexivity].
  - intros (H & ->). split; [exact H|reflexivity].
Qed.

Lemma shs_sim_removelast l l' : shs_sim l l' -> shs_sim (removelast l) (removelast l').
Proof.
  destruct l as [|f r], l' as [|f' r']; cbn [shs_sim]; try tauto.
  intros (H & <-). cbn [removelast]. destruct r; cbn; auto.
Qed.

Lemma set_at_30 v f : length v = 4 -> set_at 30 v f = firstn 30 f ++ v ++ skipn 34 f.
Proof. intros H. unfold set_at. rewrite H. reflexivity. Qed.

Lemma sim_first_set_at v f : length v = 4 -> 34 <= length f -> sim_first f (set_at 30 v f).
Proof.
  intros Hv Hf. rewrite set_at_30 by exact Hv.
  assert (Hl : length (firstn 30 f) = 30) by (rewrite firstn_length; lia).
  repeat split.
  - rewrite !app_length, Hl, Hv, skipn_length. lia.
  - rewrite firstn_app, Hl, Nat.sub_diag, firstn_O, app_nil_r.
    symmetry. apply firstn_all2. lia.
  - rewrite app_assoc, skipn_app.
    rewrite (skipn_all2 (firstn 30 f ++ v)) by (rewrite app_length; lia).
    rewrite app_length, Hl, Hv. reflexivity.
Qed.

Lemma set_at_30_sim v f f' : length v = 4 -> sim_first f f' -> set_at 30 v f = set_at 30 v f'.
Proof. intros Hv (_ & H1 & H2). rewrite !set_at_30 by exact Hv. rewrite H1, H2. reflexivity. Qed.

(* the idempotence fact behind the whole proof: a later patch of the sequence length
   overwrites an earlier one *)
Lemma set_at_30_twice v w s : length v = 4 -> length w = 4 -> 34 <= length s ->
  set_at 30 v (set_at 30 w s) = set_at 30 v s.
Proof.
  intros Hv Hw Hs. symmetry. apply set_at_30_sim; [exact Hv|]. apply sim_first_set_at; assumption.
Qed.

(* ---- writeSequenceLen ---- *)
Lemma wsl_sim l l' n : shs_sim l l' -> cs_write_sequence_len l n = cs_write_sequence_len l' n.
Proof.
  destruct l as [|f r], l' as [|f' r']; cbn [shs_sim]; try tauto.
  intros (H & <-). unfold cs_write_sequence_len, wf_shareb.
  rewrite (set_at_30_sim _ f f') by (reflexivity || exact H).
  destruct H as (-> & _). reflexivity.
Qed.

Lemma wsl_ok_sim l n l2 : cs_write_sequence_len l n = Ok l2 -> shs_sim l l2.
Proof.
  destruct l as [|f r]; cbn [cs_write_sequence_len].
  - intros H. inversion H. exact I.
  - destruct (Nat.ltb (length f) 34) eqn:E1; [discriminate|].
    destruct (negb (wf_shareb f)); [discriminate|].
    intros H. inversion H. cbn [shs_sim]. split; [|reflexivity].
    apply sim_first_set_at; [reflexivity|]. apply Nat.ltb_ge in E1. exact E1.
Qed.

(* ---- the part of Export that computes the shares ---- *)
Definition export_shares (shares : list share) (b : sbuilder) : outcome (list share) :=
  do r <- (if negb (sb_is_empty b) then
             let '(pb, padding) := sb_zero_pad b in
             do sh <- sb_build pb;
             Ok (shares ++ [sh], N.of_nat padding)
           else Ok (shares, 0%N));
  let '(shares1, padding) := r in
  cs_write_sequence_len shares1 (cs_sequence_len (lenN shares1) padding).

Lemma cs_export_unfold c :
  cs_export c =
  if cs_is_empty c then Ok (c, []) else
  if cs_done c then Ok (c, cs_shares c) else
  do l <- export_shares (cs_shares c) (cs_b c); Ok (cs_with c l (cs_b c) true, l).
Proof.
  unfold cs_export, export_shares.
  destruct (cs_is_empty c); [reflexivity|]. destruct (cs_done c); [reflexivity|].
  destruct (negb (sb_is_empty (cs_b c))).
  - destruct (sb_zero_pad (cs_b c)) as [pb padding].
    destruct (sb_build pb); reflexivity.
  - reflexivity.
Qed.

Lemma export_shares_sim l l' b : shs_sim l l' -> export_shares l b = export_shares l' b.
Proof.
  intros H. unfold export_shares.
  destruct (negb (sb_is_empty b)).
  - destruct (sb_zero_pad b) as [pb padding]. destruct (sb_build pb); cbn [bind]; try reflexivity.
    pose proof (shs_sim_app _ _ a H) as H1.
    rewrite (shs_sim_lenN _ _ H1). apply wsl_sim. exact H1.
  - cbn [bind]. rewrite (shs_sim_lenN _ _ H). apply wsl_sim. exact H.
Qed.

(* shape of what Export computes: the stacked shares, followed by the padded pending
   share when there is one, up to the sequence length field of the first share *)
Lemma export_shares_shape l b l2 : export_shares l b = Ok l2 ->
  if sb_is_empty b then shs_sim l l2 else exists sh, shs_sim (l ++ [sh]) l2.
Proof.
  unfold export_shares. destruct (sb_is_empty b); cbn [negb bind].
  - apply wsl_ok_sim.
  - destruct (sb_zero_pad b) as [pb padding]. destruct (sb_build pb); cbn [bind]; try discriminate.
    intros H. exists a. eapply wsl_ok_sim. exact H.
Qed.

Lemma cs_is_empty_true c : cs_is_empty c = true -> cs_shares c = [] /\ sb_is_empty (cs_b c) = true.
Proof.
  unfold cs_is_empty. intros H. apply andb_true_iff in H. destruct H as [H1 H2].
  split; [|exact H2]. apply Nat.eqb_eq in H1. destruct (cs_shares c); [reflexivity|discriminate].
Qed.

Lemma export_shape c x l : cs_done c = false -> cs_export c = Ok (x, l) ->
  if sb_is_empty (cs_b c) then shs_sim (cs_shares c) l
  else exists sh, shs_sim (cs_shares c ++ [sh]) l.
Proof.
  intros Hd. rewrite cs_export_unfold, Hd.
  destruct (cs_is_empty c) eqn:E.
  - apply cs_is_empty_true in E. destruct E as [E1 E2]. intros H. inversion H. subst x l.
    rewrite E2, E1. exact I.
  - destruct (export_shares (cs_shares c) (cs_b c)) eqn:E2; cbn [bind]; try discriminate.
    intros H. inversion H. subst. apply export_shares_shape. exact E2.
Qed.

(* ---- states that differ only in the sequence length field of the first share ---- *)
Definition R0 (c c' : csplitter) : Prop :=
  cs_b c = cs_b c' /\ cs_ns c = cs_ns c' /\ cs_ver c = cs_ver c' /\ cs_done c = cs_done c' /\
  cs_ranges c = cs_ranges c' /\ shs_sim (cs_shares c) (cs_shares c').

Lemma R0_cs_with c c' l l' b d : R0 c c' -> shs_sim l l' -> R0 (cs_with c l b d) (cs_with c' l' b d).
Proof.
  intros (H1 & H2 & H3 & H4 & H5 & H6) Hl. unfold R0, cs_with. cbn.
  repeat split; assumption.
Qed.

Lemma stack_pending_R0 c c' : R0 c c' -> orel R0 (cs_stack_pending c) (cs_stack_pending c').
Proof.
  intros H. pose proof H as (H1 & H2 & H3 & H4 & H5 & H6). unfold cs_stack_pending.
  rewrite <- H1, <- H2, <- H3, <- H4.
  destruct (sb_build (cs_b c)); cbn [bind orel]; auto.
  destruct (new_builder (cs_ns c) (cs_ver c) false); cbn [bind orel]; auto.
  apply R0_cs_with; [exact H|]. apply shs_sim_app. exact H6.
Qed.

Lemma write_loop_R0 : forall f c c' data, R0 c c' ->
  orel R0 (cs_write_loop f c data) (cs_write_loop f c' data).
Proof.
  induction f as [|f IH]; intros c c' data H; [exact I|].
  pose proof H as (H1 & H2 & H3 & H4 & H5 & H6). cbn [cs_write_loop].
  rewrite <- H1, <- H4. destruct (sb_add_data (cs_b c) data) as [b1 lft].
  assert (Hw : R0 (cs_with c (cs_shares c) b1 (cs_done c)) (cs_with c' (cs_shares c') b1 (cs_done c)))
    by (apply R0_cs_with; assumption).
  destruct lft as [rest|]; [|exact Hw].
  apply (orel_bind R0 R0); [apply stack_pending_R0; exact Hw|].
  intros a b Hab. apply IH. exact Hab.
Qed.

(* write = re-open (undo the done state) followed by the ordinary write *)
Definition cs_reopen (c : csplitter) : csplitter :=
  if cs_done c then
    cs_with c (if sb_is_empty (cs_b c) then cs_shares c else removelast (cs_shares c)) (cs_b c) false
  else c.

Definition cs_write_open (c : csplitter) (data : bytes) : outcome csplitter :=
  do b1 <- sb_maybe_write_reserved (cs_b c);
  do c1 <- cs_write_loop (S (length data)) (cs_with c (cs_shares c) b1 false) data;
  if Nat.eqb (sb_available (cs_b c1)) 0 then cs_stack_pending c1 else Ok c1.

Lemma cs_write_unfold c data : cs_write c data = cs_write_open (cs_reopen c) data.
Proof. reflexivity. Qed.

Lemma write_open_R0 c c' data : R0 c c' -> orel R0 (cs_write_open c data) (cs_write_open c' data).
Proof.
  intros H. pose proof H as (H1 & H2 & H3 & H4 & H5 & H6). unfold cs_write_open.
  rewrite <- H1. destruct (sb_maybe_write_reserved (cs_b c)) as [b1| |]; cbn [bind orel]; auto.
  apply (orel_bind R0 R0).
  - apply write_loop_R0. apply R0_cs_with; assumption.
  - intros a b Hab. pose proof Hab as (G1 & _). rewrite <- G1.
    destruct (Nat.eqb (sb_available (cs_b a)) 0); [apply stack_pending_R0|]; exact Hab.
Qed.

(* done is false after a write *)
Lemma stack_pending_done c d : cs_stack_pending c = Ok d -> cs_done d = cs_done c.
Proof.
  unfold cs_stack_pending. destruct (sb_build (cs_b c)); cbn [bind]; try discriminate.
  destruct (new_builder _ _ _); cbn [bind]; try discriminate.
  intros H. inversion H. reflexivity.
Qed.

Lemma write_loop_done : forall f c data d, cs_write_loop f c data = Ok d -> cs_done d = cs_done c.
Proof.
  induction f as [|f IH]; intros c data d; [discriminate|]. cbn [cs_write_loop].
  destruct (sb_add_data (cs_b c) data) as [b1 [rest|]].
  - destruct (cs_stack_pending _) as [c2| |] eqn:E; cbn [bind]; try discriminate.
    intros H. apply IH in H. apply stack_pending_done in E. rewrite H, E. reflexivity.
  - intros H. inversion H. reflexivity.
Qed.

Lemma write_open_done c data d : cs_write_open c data = Ok d -> cs_done d = false.
Proof.
  unfold cs_write_open. destruct (sb_maybe_write_reserved (cs_b c)) as [b1| |]; cbn [bind]; try discriminate.
  destruct (cs_write_loop _ _ _) as [c1| |] eqn:E; cbn [bind]; try discriminate.
  apply write_loop_done in E. cbn in E.
  destruct (Nat.eqb (sb_available (cs_b c1)) 0).
  - intros H. apply stack_pending_done in H. congruence.
  - intros H. inversion H. subst. exact E.
Qed.

Lemma R0_count c c' : R0 c c' -> cs_count c = cs_count c'.
Proof.
  intros (H1 & H2 & H3 & H4 & H5 & H6). unfold cs_count.
  rewrite <- H1, <- H4, (shs_sim_lenN _ _ H6). reflexivity.
Qed.

(* ---- the history relation ----
   [c] is the state reached by the writes alone, [c'] a state reached by the same writes
   with exports and counts interleaved. *)
Definition hsim (c c' : csplitter) : Prop :=
  cs_b c = cs_b c' /\ cs_ns c = cs_ns c' /\ cs_ver c = cs_ver c' /\ cs_ranges c = cs_ranges c' /\
  cs_done c = false /\
  (if cs_done c' then exists x, cs_export c = Ok (x, cs_shares c')
   else shs_sim (cs_shares c) (cs_shares c')).

Lemma hsim_refl c : cs_done c = false -> hsim c c.
Proof. intros H. unfold hsim. rewrite H. repeat split. apply shs_sim_refl. Qed.

(* the stacked shares of [c'] once the padded copy has been popped again *)
Lemma hsim_reopen_shares c c' : hsim c c' -> shs_sim (cs_shares c) (cs_shares (cs_reopen c')).
Proof.
  intros (H1 & H2 & H3 & H4 & H5 & H6). unfold cs_reopen.
  destruct (cs_done c'); [|exact H6].
  destruct H6 as (x & Hx). apply export_shape in Hx; [|exact H5].
  cbn [cs_with cs_shares]. rewrite <- H1.
  destruct (sb_is_empty (cs_b c)); [exact Hx|].
  destruct Hx as (sh & Hs). apply shs_sim_removelast in Hs.
  rewrite removelast_last in Hs. exact Hs.
Qed.

Lemma hsim_reopen c c' : hsim c c' -> R0 c (cs_reopen c').
Proof.
  intros H. pose proof (hsim_reopen_shares c c' H) as Hs.
  destruct H as (H1 & H2 & H3 & H4 & H5 & H6).
  unfold R0. repeat split; try exact Hs; unfold cs_reopen; destruct (cs_done c') eqn:E; cbn; congruence.
Qed.

Definition cs_start (c : csplitter) : N :=
  if cs_done c && negb (sb_is_empty (cs_b c)) then (lenN (cs_shares c) - 1)%N else lenN (cs_shares c).

Lemma hsim_start c c' : hsim c c' -> cs_start c = cs_start c'.
Proof.
  intros (H1 & H2 & H3 & H4 & H5 & H6). unfold cs_start. rewrite H5, <- H1. cbn [andb].
  destruct (cs_done c'); cbn [andb].
  - destruct H6 as (x & Hx). apply export_shape in Hx; [|exact H5].
    destruct (sb_is_empty (cs_b c)); cbn [negb].
    + apply shs_sim_lenN. exact Hx.
    + destruct Hx as (sh & Hs). apply shs_sim_lenN in Hs. rewrite <- Hs, lenN_app.
      change (lenN [sh]) with 1%N. lia.
  - apply shs_sim_lenN. exact H6.
Qed.

Lemma hsim_count c c' : hsim c c' -> cs_count c = cs_count c'.
Proof.
  intros (H1 & H2 & H3 & H4 & H5 & H6). unfold cs_count. rewrite H5, <- H1.
  destruct (cs_done c').
  - destruct H6 as (x & Hx). apply export_shape in Hx; [|exact H5].
    destruct (sb_is_empty (cs_b c)); cbn [negb andb].
    + apply shs_sim_lenN. exact Hx.
    + destruct Hx as (sh & Hs). apply shs_sim_lenN in Hs. rewrite <- Hs, lenN_app. reflexivity.
  - rewrite (shs_sim_lenN _ _ H6). reflexivity.
Qed.

(* WriteTx preserves the relation (and fails in the same way on both sides) *)
Lemma write_tx_hsim c c' tx : hsim c c' -> orel hsim (cs_write_tx c tx) (cs_write_tx c' tx).
Proof.
  intros H. unfold cs_write_tx. fold (cs_start c). fold (cs_start c').
  rewrite <- (hsim_start c c' H). rewrite !cs_write_unfold.
  pose proof (hsim_reopen c c' H) as HR.
  assert (Hc : cs_reopen c = c).
  { unfold cs_reopen. destruct H as (_ & _ & _ & _ & -> & _). reflexivity. }
  rewrite Hc.
  pose proof (write_open_R0 c (cs_reopen c') (marshal_delimited tx) HR) as Hw.
  destruct (cs_write_open c (marshal_delimited tx)) as [d| |] eqn:E,
           (cs_write_open (cs_reopen c') (marshal_delimited tx)) as [d'| |] eqn:E';
    cbn [orel] in Hw; try contradiction; cbn [bind orel]; auto.
  apply write_open_done in E, E'. rewrite <- (R0_count d d' Hw).
  destruct Hw as (G1 & G2 & G3 & G4 & G5 & G6).
  unfold hsim. cbn. rewrite E'. repeat split; congruence || assumption.
Qed.

(* Export: the state stays related to the writes-only state, and the shares returned are
   those the writes-only state would export *)
Lemma export_hsim c c' c'' l' : hsim c c' -> cs_export c' = Ok (c'', l') ->
  hsim c c'' /\ exists x, cs_export c = Ok (x, l').
Proof.
  intros H. pose proof H as (H1 & H2 & H3 & H4 & H5 & H6).
  rewrite cs_export_unfold. destruct (cs_done c') eqn:Ed.
  - assert (Hr : c'' = c' /\ l' = cs_shares c' -> hsim c c'' /\ exists x, cs_export c = Ok (x, l')).
    { intros (-> & ->). split; [exact H|exact H6]. }
    destruct (cs_is_empty c') eqn:E; intros G; inversion G; subst; apply Hr; split; try reflexivity.
    apply cs_is_empty_true in E. symmetry. apply E.
  - assert (Hemp : cs_is_empty c = cs_is_empty c').
    { unfold cs_is_empty. rewrite H1, (shs_sim_length _ _ H6). reflexivity. }
    rewrite <- H1, <- (export_shares_sim _ _ (cs_b c) H6).
    rewrite cs_export_unfold, H5, Hemp.
    destruct (cs_is_empty c').
    + intros G. inversion G. subst. split; [exact H|]. exists c. reflexivity.
    + destruct (export_shares (cs_shares c) (cs_b c)) as [l| |] eqn:E; cbn [bind]; try discriminate.
      intros G. inversion G. subst. split; [|eexists; reflexivity].
      unfold hsim. cbn. repeat split; try assumption.
      rewrite cs_export_unfold, H5, Hemp, E. cbn [bind]. eexists. reflexivity.
Qed.

(* what a final Export returns from related states *)
Lemma final_export_hsim c c' : hsim c c' -> orel eq (final_shares c) (final_shares c').
Proof.
  intros H. unfold final_shares.
  destruct (cs_export c') as [[c'' l']| |] eqn:E'.
  - destruct (export_hsim c c' c'' l' H E') as (_ & x & Hx). rewrite Hx. reflexivity.
  - (* Export on the interleaved side fails exactly when it does on the clean side *)
    pose proof H as (H1 & H2 & H3 & H4 & H5 & H6).
    rewrite cs_export_unfold in E'. destruct (cs_done c') eqn:Ed.
    + destruct (cs_is_empty c'); discriminate.
    + assert (Hemp : cs_is_empty c = cs_is_empty c').
      { unfold cs_is_empty. rewrite H1, (shs_sim_length _ _ H6). reflexivity. }
      rewrite cs_export_unfold, H5, Hemp, H1, (export_shares_sim _ _ (cs_b c') H6).
      destruct (cs_is_empty c'); [discriminate|].
      destruct (export_shares _ _); cbn [bind] in *; try discriminate. exact I.
  - pose proof H as (H1 & H2 & H3 & H4 & H5 & H6).
    rewrite cs_export_unfold in E'. destruct (cs_done c') eqn:Ed.
    + destruct (cs_is_empty c'); discriminate.
    + assert (Hemp : cs_is_empty c = cs_is_empty c').
      { unfold cs_is_empty. rewrite H1, (shs_sim_length _ _ H6). reflexivity. }
      rewrite cs_export_unfold, H5, Hemp, H1, (export_shares_sim _ _ (cs_b c') H6).
      destruct (cs_is_empty c'); [discriminate|].
      destruct (export_shares _ _); cbn [bind] in *; try discriminate. exact I.
Qed.

(* ---- histories ---- *)
(* If the interleaved history succeeds, so do its writes alone, and the final states are
   related.  No well-formedness assumption is needed for this direction. *)
Lemma run_hsim : forall ops c c' d', hsim c c' -> run c' ops = Ok d' ->
  exists d, run c (map SWrite (writes_of ops)) = Ok d /\ hsim d d'.
Proof.
  induction ops as [|op ops IH]; intros c c' d' H Hr.
  - cbn in *. inversion Hr. subst. exists c. split; [reflexivity|exact H].
  - destruct op as [tx| |]; cbn [run step writes_of map] in *.
    + pose proof (write_tx_hsim c c' tx H) as Hw.
      destruct (cs_write_tx c' tx) as [c1'| |]; cbn [bind] in Hr; try discriminate.
      destruct (cs_write_tx c tx) as [c1| |]; cbn [orel] in Hw; try contradiction.
      cbn [bind]. eapply IH; eassumption.
    + destruct (cs_export c') as [[c'' l']| |] eqn:E; cbn [bind fst] in Hr; try discriminate.
      destruct (export_hsim c c' c'' l' H E) as (H' & _). eapply IH; eassumption.
    + cbn [bind] in Hr. eapply IH; eassumption.
Qed.

(* ---- well-formedness of the writes-only state: Export cannot fail ---- *)
Definition winv (c : csplitter) : Prop :=
  length (cs_ns c) <= 500 /\
  Forall (fun s : share => length s = 512) (cs_shares c) /\
  length (sb_raw (cs_b c)) <= 512.

Lemma wsl_ok l n : Forall (fun s : share => length s = 512) l ->
  exists l2, cs_write_sequence_len l n = Ok l2.
Proof.
  intros H. destruct l as [|f r]; [eexists; reflexivity|].
  inversion H as [|? ? Hf Hr]. subst. unfold cs_write_sequence_len, wf_shareb, share_size.
  rewrite Hf, Nat.eqb_refl. cbn [negb].
  destruct (Nat.ltb 512 34) eqn:E; [apply Nat.ltb_lt in E; lia|]. eexists. reflexivity.
Qed.

Lemma export_shares_ok l b : Forall (fun s : share => length s = 512) l ->
  length (sb_raw b) <= 512 -> exists l2, export_shares l b = Ok l2.
Proof.
  intros Hl Hb. unfold export_shares. destruct (sb_is_empty b); cbn [negb bind].
  - apply wsl_ok. exact Hl.
  - unfold sb_zero_pad, sb_build, sb_with_raw, wf_shareb, share_size. cbn [sb_raw].
    assert (E : length (sb_raw b ++ zeros (512 - length (sb_raw b))) = 512)
      by (rewrite app_length, length_zeros; lia).
    rewrite E, Nat.eqb_refl. cbn [bind]. apply wsl_ok.
    apply Forall_app. split; [exact Hl|]. constructor; [exact E|constructor].
Qed.

Lemma export_ok c : winv c -> exists r, cs_export c = Ok r.
Proof.
  intros (_ & Hs & Hb). rewrite cs_export_unfold.
  destruct (cs_is_empty c); [eexists; reflexivity|].
  destruct (cs_done c); [eexists; reflexivity|].
  destruct (export_shares_ok _ _ Hs Hb) as (l2 & ->). cbn [bind]. eexists. reflexivity.
Qed.

Lemma export_ok_hsim c c' : hsim c c' -> winv c -> exists r, cs_export c' = Ok r.
Proof.
  intros H Hw. destruct (export_ok c Hw) as (r & Hr).
  pose proof (final_export_hsim c c' H) as Hf. unfold final_shares in Hf. rewrite Hr in Hf.
  destruct (cs_export c'); cbn in Hf; try contradiction. eexists. reflexivity.
Qed.

Lemma length_set_at off v l : off + length v <= length l -> length (set_at off v l) = length l.
Proof.
  intros H. unfold set_at. rewrite !app_length, firstn_length, skipn_length. lia.
Qed.

Lemma maybe_write_reserved_length b b1 : sb_maybe_write_reserved b = Ok b1 ->
  length (sb_raw b1) = length (sb_raw b).
Proof.
  unfold sb_maybe_write_reserved. destruct (negb (sb_compact b)); [discriminate|].
  destruct (Nat.ltb (length (sb_raw b)) (sb_reserved_index b + 4)) eqn:E; [discriminate|].
  destruct (parse_reserved_bytes _) as [r| |]; cbn [bind]; try discriminate.
  destruct (negb (N.eqb r 0)); [intros H; inversion H; reflexivity|].
  destruct (N.leb 512 (lenN (sb_raw b))); [discriminate|].
  intros H. inversion H. cbn [sb_with_raw sb_raw]. apply length_set_at.
  apply Nat.ltb_ge in E. rewrite length_be32. exact E.
Qed.

Lemma stack_pending_winv c d : winv c -> cs_stack_pending c = Ok d -> winv d.
Proof.
  intros (Hn & Hs & Hb). unfold cs_stack_pending, sb_build, wf_shareb, share_size.
  destruct (Nat.eqb (length (sb_raw (cs_b c))) 512) eqn:E; cbn [bind]; try discriminate.
  apply Nat.eqb_eq in E.
  unfold new_builder. destruct (new_info_byte (cs_ver c) false) as [info| |]; cbn [bind]; try discriminate.
  intros H. inversion H. unfold winv, cs_with. cbn [cs_ns cs_shares cs_b sb_raw].
  split; [exact Hn|]. split.
  - apply Forall_app. split; [exact Hs|]. constructor; [exact E|constructor].
  - rewrite !app_length. cbn [length].
    destruct (is_compact_ns (cs_ns c)); rewrite ?length_zeros; cbn [length]; lia.
Qed.

Lemma add_data_length b data b1 lft : sb_add_data b data = (b1, lft) ->
  length (sb_raw b) <= 512 -> length (sb_raw b1) <= 512.
Proof.
  unfold sb_add_data.
  destruct (Nat.leb (length data) (sb_available b)) eqn:E; intros H Hb;
    apply (f_equal fst) in H; cbn [fst] in H; subst b1;
    cbn [sb_with_raw sb_raw]; rewrite app_length.
  - apply Nat.leb_le in E. unfold sb_available, share_size in E. lia.
  - rewrite firstn_length. unfold sb_available, share_size. lia.
Qed.

Lemma write_loop_winv : forall f c data d, winv c -> cs_write_loop f c data = Ok d -> winv d.
Proof.
  induction f as [|f IH]; intros c data d Hw; [discriminate|]. cbn [cs_write_loop].
  destruct (sb_add_data (cs_b c) data) as [b1 lft] eqn:E.
  assert (Hw1 : winv (cs_with c (cs_shares c) b1 (cs_done c))).
  { destruct Hw as (Hn & Hs & Hb). unfold winv, cs_with. cbn [cs_ns cs_shares cs_b].
    split; [exact Hn|]. split; [exact Hs|]. eapply add_data_length; eassumption. }
  destruct lft as [rest|].
  - destruct (cs_stack_pending _) as [c2| |] eqn:E2; cbn [bind]; try discriminate.
    apply IH. eapply stack_pending_winv; eassumption.
  - intros H. inversion H. subst. exact Hw1.
Qed.

Lemma write_open_winv c data d : winv c -> cs_write_open c data = Ok d -> winv d.
Proof.
  intros Hw. unfold cs_write_open.
  destruct (sb_maybe_write_reserved (cs_b c)) as [b1| |] eqn:E; cbn [bind]; try discriminate.
  apply maybe_write_reserved_length in E.
  destruct (cs_write_loop _ _ _) as [c1| |] eqn:E1; cbn [bind]; try discriminate.
  apply write_loop_winv in E1.
  - destruct (Nat.eqb (sb_available (cs_b c1)) 0).
    + apply stack_pending_winv. exact E1.
    + intros H. inversion H. subst. exact E1.
  - destruct Hw as (Hn & Hs & Hb). unfold winv, cs_with. cbn [cs_ns cs_shares cs_b].
    split; [exact Hn|]. split; [exact Hs|]. rewrite E. exact Hb.
Qed.

Lemma write_tx_winv c tx d : cs_done c = false -> winv c -> cs_write_tx c tx = Ok d -> winv d.
Proof.
  intros Hd Hw. unfold cs_write_tx. rewrite cs_write_unfold.
  assert (Hc : cs_reopen c = c) by (unfold cs_reopen; rewrite Hd; reflexivity).
  rewrite Hc. destruct (cs_write_open c (marshal_delimited tx)) as [c1| |] eqn:E; cbn [bind]; try discriminate.
  apply write_open_winv in E; [|exact Hw].
  intros H. inversion H. exact E.
Qed.

(* If the writes alone succeed then so does every interleaving with exports and counts *)
Lemma run_hsim_total : forall ops c c' d, hsim c c' -> winv c ->
  run c (map SWrite (writes_of ops)) = Ok d ->
  exists d', run c' ops = Ok d' /\ hsim d d' /\ winv d.
Proof.
  induction ops as [|op ops IH]; intros c c' d H Hw Hr.
  - cbn in *. inversion Hr. subst. exists c'. split; [reflexivity|]. split; assumption.
  - destruct op as [tx| |]; cbn [run step writes_of map] in *.
    + pose proof (write_tx_hsim c c' tx H) as Hs.
      destruct (cs_write_tx c tx) as [c1| |] eqn:E; cbn [bind] in Hr; try discriminate.
      destruct (cs_write_tx c' tx) as [c1'| |]; cbn [orel] in Hs; try contradiction.
      cbn [bind]. eapply IH; try eassumption.
      eapply write_tx_winv; try eassumption. apply H.
    + destruct (export_ok_hsim c c' H Hw) as ([c'' l'] & E). rewrite E. cbn [bind fst].
      destruct (export_hsim c c' c'' l' H E) as (H' & _). eapply IH; eassumption.
    + cbn [bind]. eapply IH; eassumption.
Qed.

Lemma new_csplitter_init ns ver c0 : new_csplitter ns ver = Ok c0 -> length ns <= 500 ->
  cs_done c0 = false /\ winv c0.
Proof.
  unfold new_csplitter, new_builder.
  destruct (new_info_byte ver true) as [info| |]; cbn [bind]; try discriminate.
  intros H Hn. inversion H. split; [reflexivity|].
  unfold winv. cbn [cs_ns cs_shares cs_b sb_raw]. split; [exact Hn|]. split; [constructor|].
  rewrite !app_length. cbn [length].
  destruct (is_compact_ns ns); rewrite ?length_zeros; cbn [length]; lia.
Qed.

(* ---- the theorems ---- *)

(* General form: from ANY splitter state that is not in the exported state, if an
   interleaved history and a final Export succeed, then the writes alone and a final
   Export succeed too and produce the same shares, the same recorded ranges and the same
   Count. *)
Theorem splitter_history_general : forall ops c0 c1 x1 shs1,
  cs_done c0 = false ->
  run c0 ops = Ok c1 -> cs_export c1 = Ok (x1, shs1) ->
  exists c2 x2, run c0 (map SWrite (writes_of ops)) = Ok c2 /\
    cs_export c2 = Ok (x2, shs1) /\ cs_ranges c1 = cs_ranges c2 /\ cs_count c1 = cs_count c2.
Proof.
  intros ops c0 c1 x1 shs1 Hd Hr He.
  destruct (run_hsim ops c0 c0 c1 (hsim_refl c0 Hd) Hr) as (c2 & Hr2 & H).
  destruct (export_hsim c2 c1 x1 shs1 H He) as (_ & x2 & Hx2).
  exists c2, x2. split; [exact Hr2|]. split; [exact Hx2|].
  split; [symmetry; apply H|symmetry; apply hsim_count; exact H].
Qed.

(* the statement of C14 (splitter half) *)
Theorem splitter_history_independent : forall ns ops c0 c1 c2 x1 x2 shs1 shs2,
  ns = tx_ns \/ ns = pfb_ns ->
  new_csplitter ns 0 = Ok c0 ->
  run c0 ops = Ok c1 -> cs_export c1 = Ok (x1, shs1) ->
  run c0 (map SWrite (writes_of ops)) = Ok c2 -> cs_export c2 = Ok (x2, shs2) ->
  shs1 = shs2 /\ cs_ranges c1 = cs_ranges c2 /\ cs_count c1 = cs_count c2.
Proof.
  intros ns ops c0 c1 c2 x1 x2 shs1 shs2 _ Hn Hr1 He1 Hr2 He2.
  assert (Hd : cs_done c0 = false).
  { unfold new_csplitter in Hn. destruct (new_builder ns 0 true); cbn [bind] in Hn; try discriminate.
    inversion Hn. reflexivity. }
  destruct (splitter_history_general ops c0 c1 x1 shs1 Hd Hr1 He1) as (c2' & x2' & G1 & G2 & G3 & G4).
  rewrite Hr2 in G1. inversion G1. subst c2'. rewrite He2 in G2. inversion G2. subst.
  repeat split; assumption.
Qed.

(* Stronger: whenever the writes alone succeed, every interleaving of them with exports and
   counts succeeds, the final Export succeeds on both sides and returns the same shares,
   and ranges and Count agree.  Any 29-byte namespace and any share version. *)
Theorem splitter_history_total : forall ns ver ops c0 c2,
  length ns = 29 ->
  new_csplitter ns ver = Ok c0 ->
  run c0 (map SWrite (writes_of ops)) = Ok c2 ->
  exists c1 x1 x2 shs,
    run c0 ops = Ok c1 /\
    cs_export c1 = Ok (x1, shs) /\ cs_export c2 = Ok (x2, shs) /\
    cs_ranges c1 = cs_ranges c2 /\ cs_count c1 = cs_count c2.
Proof.
  intros ns ver ops c0 c2 Hl Hn Hr2.
  destruct (new_csplitter_init ns ver c0 Hn) as (Hd & Hw); [lia|].
  destruct (run_hsim_total ops c0 c0 c2 (hsim_refl c0 Hd) Hw Hr2) as (c1 & Hr1 & H & Hw2).
  destruct (export_ok_hsim c2 c1 H Hw2) as ([x1 shs] & He1).
  destruct (export_hsim c2 c1 x1 shs H He1) as (_ & x2 & He2).
  exists c1, x1, x2, shs. repeat split; try assumption.
  - symmetry. apply H.
  - symmetry. apply hsim_count. exact H.
Qed.

(* every Export performed in the middle of a history returns exactly what a splitter fed
   only the writes so far would export (the main theorem applied to a prefix), and the
   recorded range of a transaction does not depend on the exports before it *)
Corollary splitter_intermediate_export : forall ops c0 c1 x1 shs1,
  cs_done c0 = false ->
  run c0 ops = Ok c1 -> cs_export c1 = Ok (x1, shs1) ->
  exists c2, run c0 (map SWrite (writes_of ops)) = Ok c2 /\ final_shares c2 = Ok shs1.
Proof.
  intros ops c0 c1 x1 shs1 Hd Hr He.
  destruct (splitter_history_general ops c0 c1 x1 shs1 Hd Hr He) as (c2 & x2 & G1 & G2 & _).
  exists c2. split; [exact G1|]. unfold final_shares. rewrite G2. reflexivity.
Qed.

(* two instances spelled out: Export is idempotent, and an Export before a write does not
   change what is exported after it *)
Corollary export_export : forall c c1 l1 c2 l2, cs_done c = false ->
  cs_export c = Ok (c1, l1) -> cs_export c1 = Ok (c2, l2) -> l2 = l1.
Proof.
  intros c c1 l1 c2 l2 Hd H1 H2.
  destruct (splitter_history_general [SExport] c c1 c2 l2 Hd) as (c' & x' & G1 & G2 & _).
  - cbn [run step]. rewrite H1. reflexivity.
  - exact H2.
  - cbn in G1. inversion G1. subst c'. rewrite H1 in G2. inversion G2. reflexivity.
Qed.

Corollary export_write_export : forall c c1 l1 c2 c3 l3 tx, cs_done c = false ->
  cs_export c = Ok (c1, l1) -> cs_write_tx c1 tx = Ok c2 -> cs_export c2 = Ok (c3, l3) ->
  exists d2 d3, cs_write_tx c tx = Ok d2 /\ cs_export d2 = Ok (d3, l3) /\ cs_ranges d2 = cs_ranges c2.
Proof.
  intros c c1 l1 c2 c3 l3 tx Hd H1 H2 H3.
  destruct (splitter_history_general [SExport; SWrite tx] c c2 c3 l3 Hd) as (c' & x' & G1 & G2 & G3 & _).
  - cbn [run step]. rewrite H1. cbn [bind fst]. rewrite H2. reflexivity.
  - exact H3.
  - cbn [writes_of map run step] in G1.
    destruct (cs_write_tx c tx) as [d2| |]; cbn [bind] in G1; try discriminate.
    inversion G1. subst c'. exists d2, x'. repeat split; [exact G2|symmetry; exact G3].
Qed.
