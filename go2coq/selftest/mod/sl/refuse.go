package sl

// Every function of this file is outside the slice fragment: go2coq must report it as unsupported, with
// a message containing the text after "refuse:".  One offending construct per function.

type Box struct {
	n     int
	items []int
}

// refuse: only slices of
func RSliceOfBool(xs []bool) int { return len(xs) }

// refuse: only slices of
func RSliceOfSlices(n int) int {
	var xss [][]int
	return len(xss) + n
}

// refuse: only slices of
func RGenericSlice[T ~int | ~uint64](xs []T) int { return len(xs) }

// refuse: slicing expression
func RSlicing(n int) int {
	xs := Iota(n)
	ys := xs[1:]
	return len(ys)
}

// refuse: slicing expression
func RSlicingArg(n int) int {
	xs := Iota(n)
	return Sum(xs[:1])
}

// refuse: append with 3 arguments
func RAppendMany(n int) []int {
	var xs []int
	xs = append(xs, n, n)
	return xs
}

// refuse: append with ...
func RAppendEllipsis(xs []int) []int {
	var ys []int
	ys = append(ys, xs...)
	return ys
}

// refuse: only x = append(x, e)
func RAppendOther(n int) int {
	xs := Iota(n)
	ys := Iota(n)
	ys = append(xs, 1)
	return len(ys)
}

// refuse: copy
func RCopy(xs []int) []int {
	ys := make([]int, len(xs))
	copy(ys, xs)
	return ys
}

// refuse: aliasing between slice variables
func RAlias(n int) int {
	xs := Iota(n | 1)
	ys := xs
	ys[0] = 7
	return xs[0]
}

// refuse: aliasing between slice variables
func RAliasAssign(n int) int {
	xs := Iota(n | 1)
	var ys []int
	ys = xs
	ys[0] = 7
	return xs[0]
}

// refuse: passed to two parameters
func RSameSliceTwice(n int) int {
	xs := Iota(n)
	return Dot(xs, xs)
}

// refuse: outside the fragment
func RStructField(b Box) int { return len(b.items) }

// refuse: receiver
func (b *Box) RMethod() int { return b.n }

// refuse: only a slice variable can be ranged over
func RRangeCall(n int) int {
	s := 0
	for _, v := range Iota(n) {
		s += v
	}
	return s
}

// refuse: only a slice variable can be ranged over
func RRangeInt(n int) int {
	s := 0
	for i := range n & 7 {
		s += i
	}
	return s
}

// refuse: is modified inside the loop body
func RRangeModify(n int) []int {
	xs := Iota(n)
	for i, v := range xs {
		if i+1 < len(xs) {
			xs[i+1] = v + 10
		}
	}
	return xs
}

// refuse: is modified inside the loop body
func RRangeAppend(n int) []int {
	xs := Iota(n)
	for _, v := range xs {
		xs = append(xs, v)
	}
	return xs
}

// refuse: slice parameter
func RStoreParam(xs []int) int {
	xs[0] = 1
	return xs[0]
}

// refuse: slice parameter
func RReturnParam(xs []int) []int { return xs }

// refuse: slice parameter
func RAppendParam(xs []int, v int) int {
	xs = append(xs, v)
	return len(xs)
}

// refuse: slice parameter
func RAssignParam(xs []int) int {
	xs = nil
	return len(xs)
}

// refuse: slice variable xs used as a value
func RSliceCmpNil(xs []int) bool { return xs == nil }

// refuse: call of the variadic function
func RVariadicCall(n int) int {
	s, _ := Variadic(n, 1, 2)
	return s
}

// refuse: variadic call
func RVariadicSpread(xs []int) int {
	s, _ := Variadic(1, xs...)
	return s
}

// refuse: make with 3 arguments
func RMake3(n int) []int {
	xs := make([]int, 0, n&7)
	return xs
}

// refuse: break statement
func RBreakInRange(xs []int) int {
	s := 0
	for _, v := range xs {
		if v < 0 {
			break
		}
		s += v
	}
	return s
}

// refuse: range assigning to existing variables
func RRangeAssign(xs []int) int {
	var i, v int
	for i, v = range xs {
	}
	return i + v
}
