(* Builder.canFit / getters / Element.maxShareOffset of the regenerated program against Model/Builder.v *)
From Coq Require Import Lia ZArith NArith List String ZifyN ZifyNat ZifyBool.
From GS.Model Require Import Base Varint ShareFmt Counter Arith Builder Helpers GoLite.
From GS.Proofs Require Import BaseLemmas VarintProofs HelpersProofs GoLiteLemmas.
From GS.Gen Require Import Generated.
From GS.GenProofs Require Import GenLink.
Open Scope string_scope. Open Scope Z_scope.
From GS.GenProofs Require Import GenMoreBase.

(* ---------- square.Builder.canFit / CurrentSize / SubtreeRootThreshold ---------- *)
(* arguments: the receiver's integer fields [maxSquareSize; currentSize; done; subtreeRootThreshold]
   (then the Go arguments); results: the Go results followed by the four fields after the call *)

(* exactly: neither the sum nor the square leaves int64 *)
Lemma builder_can_fit_gen fuel max cur dn thr n : (1 <= fuel)%nat ->
  in_i64 (cur + n) -> in_i64 (max * max) ->
  gen_call fuel "square.Builder.canFit" I64 [max; cur; dn; thr; n] =
  Val [b2z (cur + n <=? max * max); max; cur; dn; thr].
Proof.
  intros Hf Hs Hm. destruct fuel as [|fuel]; [lia|].
  unfold gen_call. rewrite callf_S. cbn.
  rewrite (in_i64_wrap (cur + n)), (in_i64_wrap (max * max)) by assumption.
  reflexivity.
Qed.

Lemma square_lt_2_62 max : - 2^31 <= max <= 2^31 -> 0 <= max * max <= 2^62.
Proof.
  intros H. change (2^31) with 2147483648 in H. change (2^62) with 4611686018427387904. nia.
Qed.

Lemma builder_can_fit_gen_range fuel max cur dn thr n : (1 <= fuel)%nat ->
  - 2^31 <= max <= 2^31 -> - 2^62 <= cur < 2^62 -> - 2^62 <= n < 2^62 ->
  gen_call fuel "square.Builder.canFit" I64 [max; cur; dn; thr; n] =
  Val [b2z (cur + n <=? max * max); max; cur; dn; thr].
Proof.
  intros Hf Hm Hc Hn. pose proof (square_lt_2_62 max Hm) as Hq.
  apply builder_can_fit_gen; [exact Hf| |]; unfold in_i64;
    change (2^62) with 4611686018427387904 in *; change (2^63) with 9223372036854775808; lia.
Qed.

(* the receiver as the model's builder record *)
Definition builder_fields (b : builder) : list Z :=
  [Z.of_N (bd_max b); bd_cur b; b2z (bd_done b); Z.of_N (bd_thr b)].

Lemma builder_can_fit_model fuel b n : (1 <= fuel)%nat ->
  in_i64 (bd_cur b + n) -> (bd_max b * bd_max b < 2^63)%N ->
  gen_call fuel "square.Builder.canFit" I64 (builder_fields b ++ [n]) =
  Val (b2z (can_fit b n) :: builder_fields b).
Proof.
  intros Hf Hs Hm. unfold builder_fields, can_fit. cbn [app].
  rewrite N2Z.inj_mul.
  apply builder_can_fit_gen; [exact Hf|exact Hs|].
  unfold in_i64. change (2^63)%N with 9223372036854775808%N in Hm.
  change (2^63) with 9223372036854775808. lia.
Qed.

(* outside the range: maxSquareSize = 2^32 passes NewBuilder's checks (positive, a power of two) but
   its square is 0 in int64, so the Go function says "does not fit" where the model says "fits" *)
Lemma builder_can_fit_wraps fuel : (1 <= fuel)%nat ->
  gen_call fuel "square.Builder.canFit" I64 [2^32; 0; 0; 64; 1] = Val [0; 2^32; 0; 0; 64] /\
  can_fit (empty_builder (2^32) 64) 1 = true /\
  builder_fields (empty_builder (2^32) 64) = [2^32; 0; 0; 64] /\
  new_builder_ok (2^32) = true.
Proof.
  intros Hf. destruct fuel as [|fuel]; [lia|].
  unfold gen_call. rewrite callf_S. vm_compute. repeat split; reflexivity.
Qed.

Lemma builder_getters_gen fuel max cur dn thr : (1 <= fuel)%nat ->
  gen_call fuel "square.Builder.CurrentSize" I64 [max; cur; dn; thr] = Val [cur; max; cur; dn; thr] /\
  gen_call fuel "square.Builder.SubtreeRootThreshold" I64 [max; cur; dn; thr] = Val [thr; max; cur; dn; thr].
Proof.
  intros Hf. destruct fuel as [|fuel]; [lia|].
  unfold gen_call. rewrite !callf_S. cbn. split; reflexivity.
Qed.

Lemma builder_getters_model fuel b : (1 <= fuel)%nat ->
  gen_call fuel "square.Builder.CurrentSize" I64 (builder_fields b) = Val (bd_cur b :: builder_fields b) /\
  gen_call fuel "square.Builder.SubtreeRootThreshold" I64 (builder_fields b) =
    Val (Z.of_N (bd_thr b) :: builder_fields b).
Proof. intros Hf. apply builder_getters_gen. exact Hf. Qed.

(* ---------- square.Element.maxShareOffset ---------- *)

Lemma element_max_share_offset_gen fuel pfb blob n p : (1 <= fuel)%nat -> in_i64 (n + p) ->
  gen_call fuel "square.Element.maxShareOffset" I64 [pfb; blob; n; p] = Val [n + p].
Proof.
  intros Hf Hs. destruct fuel as [|fuel]; [lia|].
  unfold gen_call. rewrite callf_S. cbn. rewrite in_i64_wrap by exact Hs. reflexivity.
Qed.

Definition element_fields (e : element) : list Z :=
  [Z.of_N (e_pfb_index e); Z.of_N (e_blob_index e); Z.of_N (e_num_shares e); Z.of_N (e_max_padding e)].

Lemma element_max_share_offset_model fuel e : (1 <= fuel)%nat ->
  (e_num_shares e + e_max_padding e < 2^63)%N ->
  gen_call fuel "square.Element.maxShareOffset" I64 (element_fields e) = Val [Z.of_N (max_share_offset e)].
Proof.
  intros Hf Hs. unfold element_fields, max_share_offset. rewrite N2Z.inj_add.
  apply element_max_share_offset_gen; [exact Hf|].
  unfold in_i64. change (2^63)%N with 9223372036854775808%N in Hs.
  change (2^63) with 9223372036854775808. lia.
Qed.

