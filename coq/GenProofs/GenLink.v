(* Link between the regenerated GoLite program (Gen/Generated.v, printed from the Go source on
   every run) and the hand-written model: the externals the translator does not translate, and
   the entry point [gen_call].  Definitions only.

   Externals (trusted base, section 4 of DESIGN.md):
   - inclusion.BlobMinSquareSize: RoundUpPowerOfTwo(int(math.Ceil(math.Sqrt(float64(n))))) is
     floating point; it is given by Arith.blob_min_square_size, whose agreement with IEEE-754
     binary64 for 0 <= n <= 2^52 is Properties/C15_float.v;
   - share.delimLen: binary.PutUvarint into a scratch buffer, given by Varint.delim_len
     (the byte-level encoder is Properties/C09 / VarintProofs). *)
From GS.Model Require Import Base Varint Arith GoLite.
From GS.Gen Require Import Generated.
Open Scope string_scope.
Open Scope Z_scope.

Definition gen_ext : externals := fun f =>
  if String.eqb f "inclusion.BlobMinSquareSize" then
    Some (fun args => match args with
                      | [n] => if n <? 0 then Flt else Val [Z.of_N (blob_min_square_size (Z.to_N n))]
                      | _ => Flt
                      end)
  else if String.eqb f "share.delimLen" then
    Some (fun args => match args with
                      | [n] => if n <? 0 then Flt else Val [Z.of_N (delim_len (Z.to_N n))]
                      | _ => Flt
                      end)
  else None.

Definition gen_call (fuel : nat) (f : string) (targ : ity) (args : list Z) : res (list Z) :=
  callf gen_ext gen_program fuel f targ args.
