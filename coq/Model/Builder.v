(* builder.go and square.go *)
From GS.Model Require Import Base Varint Namespace ShareFmt Blob Sparse Compact Counter Arith Proto.
Open Scope N_scope.

Record element := mk_el {
  e_blob : blob; e_pfb_index : N; e_blob_index : N; e_num_shares : N; e_max_padding : N
}.

(* an IndexWrapper held by the builder: the type id is always "INDX" *)
Record pfb := mk_pfb { pfb_tx : bytes; pfb_idx : list N }.

Record builder := mk_bd {
  bd_max : N;            (* maxSquareSize *)
  bd_thr : N;            (* subtreeRootThreshold *)
  bd_cur : Z;            (* currentSize *)
  bd_txs : list bytes;
  bd_pfbs : list pfb;
  bd_blobs : list element;
  bd_txc : counter;
  bd_pfbc : counter;
  bd_done : bool
}.

Definition worst_case_share_indexes (n : nat) : list N := repeat 16384 n.

(* newElement (with the repair of defect D2) *)
Definition new_element (b : blob) (pfb_index blob_index thr : N) : element :=
  let n := sparse_shares_needed (u32 (lenN (b_data b) + signer_len b)) in
  mk_el b pfb_index blob_index n (subtree_width n thr - 1).
Definition max_share_offset (e : element) : N := e_num_shares e + e_max_padding e.

Definition empty_builder (max thr : N) : builder :=
  mk_bd max thr 0 [] [] [] new_counter new_counter false.

Definition can_fit (b : builder) (n : Z) : bool :=
  (bd_cur b + n <=? Z.of_N (bd_max b * bd_max b))%Z.

(* AppendTx *)
Definition append_tx (b : builder) (tx : bytes) : builder * bool :=
  let '(c', diff) := counter_add (bd_txc b) (Z.of_N (lenN tx)) in
  if can_fit b diff then
    (mk_bd (bd_max b) (bd_thr b) (bd_cur b + diff)%Z (bd_txs b ++ [tx]) (bd_pfbs b) (bd_blobs b)
           c' (bd_pfbc b) false, true)
  else
    (mk_bd (bd_max b) (bd_thr b) (bd_cur b) (bd_txs b) (bd_pfbs b) (bd_blobs b)
           (counter_revert c') (bd_pfbc b) (bd_done b), false).

Fixpoint elements_of (blobs : list blob) (pfb_index blob_index thr : N) : list element :=
  match blobs with
  | [] => []
  | bl :: tl => new_element bl pfb_index blob_index thr :: elements_of tl pfb_index (blob_index + 1) thr
  end.

(* AppendBlobTx *)
Definition append_blob_tx (b : builder) (t : blob_tx) : builder * bool :=
  let worst := worst_case_share_indexes (length (btx_blobs t)) in
  let size := index_wrapper_size (btx_tx t) worst in
  let '(c', diff) := counter_add (bd_pfbc b) (Z.of_N size) in
  let els := elements_of (btx_blobs t) (lenN (bd_pfbs b)) 0 (bd_thr b) in
  let blob_shares := fold_left (fun acc e => acc + max_share_offset e) els 0 in
  let total := (diff + Z.of_N blob_shares)%Z in
  if can_fit b total then
    (mk_bd (bd_max b) (bd_thr b) (bd_cur b + total)%Z (bd_txs b)
           (bd_pfbs b ++ [mk_pfb (btx_tx t) worst]) (bd_blobs b ++ els)
           (bd_txc b) c' false, true)
  else
    (mk_bd (bd_max b) (bd_thr b) (bd_cur b) (bd_txs b) (bd_pfbs b) (bd_blobs b)
           (bd_txc b) (counter_revert c') (bd_done b), false).

Definition builder_is_empty (b : builder) : bool :=
  (Z.eqb (counter_size (bd_txc b)) 0 && Z.eqb (counter_size (bd_pfbc b)) 0)%Z.

(* sort.SliceStable by namespace: insertion sort is the stable sort *)
Fixpoint insert_el (e : element) (l : list element) : list element :=
  match l with
  | [] => [e]
  | x :: tl =>
    (* [e] came before every element of [l] in the input, so it goes in front
       of the first element that is not smaller: equal keys keep their order *)
    match bytes_cmp (b_ns (e_blob e)) (b_ns (e_blob x)) with
    | Gt => x :: insert_el e tl
    | _ => e :: l
    end
  end.
Definition sort_elements (l : list element) : list element :=
  fold_right insert_el [] l.

Fixpoint write_txs (c : csplitter) (txs : list bytes) : outcome csplitter :=
  match txs with
  | [] => Ok c
  | t :: tl => do c' <- cs_write_tx c t; write_txs c' tl
  end.

Fixpoint set_nth {A} (n : nat) (v : A) (l : list A) : list A :=
  match l, n with
  | [], _ => []
  | _ :: tl, O => v :: tl
  | x :: tl, S k => x :: set_nth k v tl
  end.

(* Pfbs[pfbIndex].ShareIndexes[blobIndex] = uint32(cursor); out of range = Fault *)
Definition record_index (pfbs : list pfb) (pi bi : N) (cursor : N) : outcome (list pfb) :=
  match nth_error pfbs (N.to_nat pi) with
  | None => Fault
  | Some p =>
    if lenN (pfb_idx p) <=? bi then Fault else
    Ok (set_nth (N.to_nat pi) (mk_pfb (pfb_tx p) (set_nth (N.to_nat bi) (u32 cursor) (pfb_idx p))) pfbs)
  end.

(* the blob loop of Export *)
Record blob_loop_state := mk_bls {
  bl_cursor : N; bl_end_last : N; bl_nrs : N; bl_pfbs : list pfb; bl_shares : list share
}.

Fixpoint export_blobs (thr : N) (first : bool) (els : list element) (st : blob_loop_state)
  : outcome blob_loop_state :=
  match els with
  | [] => Ok st
  | e :: tl =>
    let cursor := next_share_index (bl_cursor st) (e_num_shares e) thr in
    let nrs := if first then cursor else bl_nrs st in
    let padding := cursor - bl_end_last st in
    if e_max_padding e <? padding then Err else
    do pfbs <- record_index (bl_pfbs st) (e_pfb_index e) (e_blob_index e) cursor;
    do shares1 <- (if first then Ok (bl_shares st)
                   else sparse_write_item (bl_shares st) (INsPad (N.to_nat padding)));
    do shares2 <- sparse_write_item shares1 (IBlob (e_blob e));
    let cursor' := cursor + e_num_shares e in
    export_blobs thr false tl (mk_bls cursor' cursor' nrs pfbs shares2)
  end.

(* copy(dst[off:], src) *)
Definition copy_at (dst : list share) (off : N) (src : list share) : outcome (list share) :=
  if lenN dst <? off then Fault else
  let room := lenN dst - off in
  let src' := takeN room src in
  Ok (takeN off dst ++ src' ++ dropN (off + lenN src') dst).

(* WriteSquare; an untouched slot of make([]Share, n) is the zero Share (nil data) = [] *)
Definition write_square (txw pfbw : csplitter) (blob_shares : list share) (nrs ss : N)
  : outcome (list share) :=
  let total := ss * ss in
  let pfb_start := cs_count txw in
  let padding_start := pfb_start + cs_count pfbw in
  if nrs <? padding_start then Err else
  do padding <- reserved_padding_shares (N.to_nat (nrs - padding_start));
  let end_of_last_blob := nrs + lenN blob_shares in
  if total <? end_of_last_blob then Err else
  do r1 <- cs_export txw; let '(_, tx_shares) := r1 in
  do r2 <- cs_export pfbw; let '(_, pfb_shares) := r2 in
  let sq0 := repeat ([] : share) (N.to_nat total) in
  do sq1 <- copy_at sq0 0 tx_shares;
  do sq2 <- copy_at sq1 pfb_start pfb_shares;
  do sq3 <- (if 0 <? lenN blob_shares then
               do s <- copy_at sq2 padding_start padding; copy_at s nrs blob_shares
             else Ok sq2);
  if end_of_last_blob <? total then
    do tail <- tail_padding_shares (N.to_nat (total - end_of_last_blob));
    copy_at sq3 end_of_last_blob tail
  else Ok sq3.

Definition empty_square : outcome (list share) := tail_padding_shares 1.

(* Builder.Export: the new builder state (blobs sorted, indexes recorded, done) and the square *)
Definition export (b : builder) : outcome (builder * list share) :=
  if builder_is_empty b then do sq <- empty_square; Ok (b, sq) else
  let ss := blob_min_square_size (Z.to_N (bd_cur b)) in
  let sorted := sort_elements (bd_blobs b) in
  let b1 := mk_bd (bd_max b) (bd_thr b) (bd_cur b) (bd_txs b) (bd_pfbs b) sorted
                  (bd_txc b) (bd_pfbc b) (bd_done b) in
  do txw0 <- new_csplitter tx_ns 0;
  do txw <- write_txs txw0 (bd_txs b);
  let start := Z.to_N (counter_size (bd_txc b) + counter_size (bd_pfbc b)) in
  do st <- export_blobs (bd_thr b) true sorted (mk_bls start start start (bd_pfbs b) []);
  let b2 := mk_bd (bd_max b) (bd_thr b) (bd_cur b) (bd_txs b) (bl_pfbs st) sorted
                  (bd_txc b) (bd_pfbc b) (bd_done b) in
  do pfbw0 <- new_csplitter pfb_ns 0;
  do pfbw <- write_txs pfbw0 (map (fun p => marshal_index_wrapper (pfb_tx p) (pfb_idx p)) (bl_pfbs st));
  if (counter_size (bd_pfbc b) <? Z.of_N (cs_count pfbw))%Z then Err else
  do sq <- write_square txw pfbw (bl_shares st) (bl_nrs st) ss;
  Ok (mk_bd (bd_max b) (bd_thr b) (bd_cur b) (bd_txs b) (bl_pfbs st) sorted
            (bd_txc b) (bd_pfbc b) true, sq).

(* NewBuilder(maxSquareSize, threshold) argument checks *)
Definition new_builder_ok (max : Z) : bool := (0 <? max)%Z && is_pow2 max.

(* NewBuilder(max, thr, txs...) as used by Construct *)
Fixpoint construct_loop (b : builder) (seen_blob : bool) (txs : list bytes) : outcome builder :=
  match txs with
  | [] => Ok b
  | t :: tl =>
    match unmarshal_blob_tx t with
    | UbtErr => Err
    | UbtOk bt =>
      let '(b', ok) := append_blob_tx b bt in
      if ok then construct_loop b' true tl else Err
    | UbtNot =>
      if seen_blob then Err else
      let '(b', ok) := append_tx b t in
      if ok then construct_loop b' seen_blob tl else Err
    end
  end.

Definition new_builder_txs (max : Z) (thr : N) (txs : list bytes) : outcome builder :=
  if negb (new_builder_ok max) then Err else
  construct_loop (empty_builder (Z.to_N max) thr) false txs.

(* Construct *)
Definition construct (txs : list bytes) (max : Z) (thr : N) : outcome (list share) :=
  do b <- new_builder_txs max thr txs;
  do r <- export b; Ok (snd r).

(* Build: square and kept transactions *)
Fixpoint build_loop (b : builder) (txs : list bytes) (normals blobs : list bytes)
  : outcome (builder * list bytes * list bytes) :=
  match txs with
  | [] => Ok (b, normals, blobs)
  | t :: tl =>
    match unmarshal_blob_tx t with
    | UbtErr => Err
    | UbtOk bt =>
      let '(b', ok) := append_blob_tx b bt in
      build_loop b' tl normals (if ok then blobs ++ [t] else blobs)
    | UbtNot =>
      let '(b', ok) := append_tx b t in
      build_loop b' tl (if ok then normals ++ [t] else normals) blobs
    end
  end.

Definition build (txs : list bytes) (max : Z) (thr : N) : outcome (list share * list bytes) :=
  if negb (new_builder_ok max) then Err else
  do r <- build_loop (empty_builder (Z.to_N max) thr) txs [] [];
  let '(b, normals, blobs) := r in
  do e <- export b;
  Ok (snd e, normals ++ blobs).

(* ---- queries ---- *)

(* FindBlobStartingIndex(pfbIndex, blobIndex int) *)
Definition find_blob_starting_index (b : builder) (pi bi : Z) : outcome (builder * N) :=
  if (pi <? Z.of_N (lenN (bd_txs b)))%Z then Err else
  let pi' := (pi - Z.of_N (lenN (bd_txs b)))%Z in
  if (Z.of_N (lenN (bd_pfbs b)) <=? pi')%Z then Err else
  if (bi <? 0)%Z then Err else
  do b1 <- (if bd_done b then Ok b else do r <- export b; Ok (fst r));
  match nth_error (bd_pfbs b1) (Z.to_nat pi') with
  | None => Fault
  | Some p =>
    match nth_error (pfb_idx p) (Z.to_nat bi) with
    | None => Err
    | Some i => Ok (b1, i)
    end
  end.

(* BlobShareLength *)
Definition blob_share_length (b : builder) (pi bi : Z) : outcome N :=
  if (pi <? Z.of_N (lenN (bd_txs b)))%Z then Err else
  let pi' := (pi - Z.of_N (lenN (bd_txs b)))%Z in
  if (Z.of_N (lenN (bd_pfbs b)) <=? pi')%Z then Err else
  if (bi <? 0)%Z then Err else
  match find (fun e => Z.eqb (Z.of_N (e_pfb_index e)) pi' && Z.eqb (Z.of_N (e_blob_index e)) bi)
             (bd_blobs b) with
  | Some e => Ok (e_num_shares e)
  | None => Err
  end.

Definition pfb_size (p : pfb) : Z := Z.of_N (index_wrapper_size (pfb_tx p) (pfb_idx p)).

(* the counting loop of FindTxShareRange over the first [n] transactions *)
Fixpoint count_prefix (n : nat) (txs : list bytes) (pfbs : list pfb) (txc pfbc : counter)
  : counter * counter :=
  match n with
  | O => (txc, pfbc)
  | S k =>
    match txs with
    | t :: tl => count_prefix k tl pfbs (fst (counter_add txc (Z.of_N (lenN t)))) pfbc
    | [] =>
      match pfbs with
      | p :: ptl => count_prefix k [] ptl txc (fst (counter_add pfbc (pfb_size p)))
      | [] => (txc, pfbc)
      end
    end
  end.

(* FindTxShareRange(txIndex int) *)
Definition find_tx_share_range (b : builder) (ti : Z) : outcome (builder * (Z * Z)) :=
  do b1 <- (if bd_done b then Ok b else do r <- export b; Ok (fst r));
  if (ti <? 0)%Z then Err else
  let ntx := lenN (bd_txs b1) in
  if (Z.of_N (ntx + lenN (bd_pfbs b1)) <=? ti)%Z then Err else
  let '(txc, pfbc) := count_prefix (Z.to_nat ti) (bd_txs b1) (bd_pfbs b1) new_counter new_counter in
  let start0 := (counter_size txc + counter_size pfbc - 1)%Z in
  if (ti <? Z.of_N ntx)%Z then
    match nth_error (bd_txs b1) (Z.to_nat ti) with
    | None => Fault
    | Some t =>
      let start := if Z.eqb (counter_remainder txc) 0 then (start0 + 1)%Z else start0 in
      let txc' := fst (counter_add txc (Z.of_N (lenN t))) in
      Ok (b1, (start, counter_size txc' + counter_size pfbc)%Z)
    end
  else
    match nth_error (bd_pfbs b1) (Z.to_nat ti - N.to_nat ntx) with
    | None => Fault
    | Some p =>
      let start := if Z.eqb (counter_remainder pfbc) 0 then (start0 + 1)%Z else start0 in
      let pfbc' := fst (counter_add pfbc (pfb_size p)) in
      Ok (b1, (start, counter_size txc + counter_size pfbc')%Z)
    end.

(* GetWrappedPFB(txIndex) *)
Definition get_wrapped_pfb (b : builder) (ti : Z) : outcome (builder * pfb) :=
  if (ti <? 0)%Z then Err else
  if (ti <? Z.of_N (lenN (bd_txs b)))%Z then Err else
  if (Z.of_N (lenN (bd_txs b) + lenN (bd_pfbs b)) <=? ti)%Z then Err else
  do b1 <- (if bd_done b then Ok b else do r <- export b; Ok (fst r));
  match nth_error (bd_pfbs b1) (Z.to_nat ti - length (bd_txs b1)) with
  | None => Fault
  | Some p => Ok (b1, p)
  end.

(* TxShareRange, BlobShareRange *)
Definition tx_share_range (txs : list bytes) (ti : Z) (max : Z) (thr : N) : outcome (Z * Z) :=
  do b <- new_builder_txs max thr txs;
  do r <- find_tx_share_range b ti; Ok (snd r).

Definition blob_share_range (txs : list bytes) (ti bi : Z) (max : Z) (thr : N) : outcome (N * N) :=
  do b <- new_builder_txs max thr txs;
  do r <- find_blob_starting_index b ti bi;
  let '(b1, start) := r in
  do len <- blob_share_length b1 ti bi;
  Ok (start, start + len).
