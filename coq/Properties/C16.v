(* C16 - Decoders are total: malformed input yields an error, never a panic.
   Statements only.  In the model every Go slice / index expression that can go
   out of range yields the outcome [Fault] ([DelimFault] for parseDelimiter), so
   "<> Fault" reads "returns a value or an error, and no modelled slice or index
   expression is out of range".  Panics inside protobuf-go, encoding/json or the
   runtime are outside the model (exercised by the malformed-input oracle only).

   The share-level theorems hold for every list of byte strings; the 512-byte
   hypothesis [Forall wf_share] of C16_decoders_total_wf only delimits the domain
   on which the model mirrors Go (share.Share values have 512 bytes by type
   invariant; the accessors sh_ns, sh_info, sh_seq_len, sh_signer, sh_raw_data
   are plain total functions in the model).

   [unmarshal_blob_tx : bytes -> ubt_result] and [unmarshal_index_wrapper :
   bytes -> option index_wrapper] have result types without a fault constructor;
   their totality is that of the underlying proto decoders
   (C16_unmarshal_blob_tx_proto, C16_unmarshal_index_wrapper_proto,
   C16_new_blob_from_proto) - nothing faulty is swallowed by the mapping to
   UbtNot / None. *)
From Coq Require Import List NArith.
From GS.Model Require Import Base Varint Namespace ShareFmt Blob Sparse Compact Counter Arith Proto Builder Square.
From GS.Proofs Require Import VarintProofs ProtoProofs TotalProofs.
Import ListNotations.
Open Scope N_scope.

(* ---- share decoders ---- *)
Theorem C16_parse_blobs : forall shs, parse_blobs shs <> Fault.
Proof. exact parse_blobs_no_fault. Qed.
Print Assumptions C16_parse_blobs.

Theorem C16_parse_txs : forall shs, parse_txs shs <> Fault.
Proof. exact parse_txs_no_fault. Qed.
Print Assumptions C16_parse_txs.

Theorem C16_parse_shares : forall shs ignore_padding, parse_shares shs ignore_padding <> Fault.
Proof. exact parse_shares_no_fault. Qed.
Print Assumptions C16_parse_shares.

Theorem C16_sequence_raw_data : forall s, sequence_raw_data s <> Fault.
Proof. exact sequence_raw_data_no_fault. Qed.
Print Assumptions C16_sequence_raw_data.

Theorem C16_valid_sequence_len : forall s, valid_sequence_len s <> Fault.
Proof. exact valid_sequence_len_no_fault. Qed.
Print Assumptions C16_valid_sequence_len.

Theorem C16_number_of_shares_needed : forall first, number_of_shares_needed first <> Fault.
Proof. exact number_of_shares_needed_no_fault. Qed.
Print Assumptions C16_number_of_shares_needed.

(* RawDataUsingReserved on a 512-byte share *)
Theorem C16_raw_data_using_reserved : forall s, wf_share s -> sh_raw_data_using_reserved s <> Fault.
Proof. exact sh_raw_data_using_reserved_wf_no_fault. Qed.
Print Assumptions C16_raw_data_using_reserved.

(* ---- squares ---- *)
Theorem C16_deconstruct : forall dec s, (forall b, dec b <> Fault) -> deconstruct dec s <> Fault.
Proof. exact deconstruct_no_fault. Qed.
Print Assumptions C16_deconstruct.

(* the hypothesis on the application's PFB decoder is satisfiable *)
Theorem C16_mock_pfb_decoder : forall pfb, mock_pfb_decoder pfb <> Fault.
Proof. exact mock_pfb_decoder_no_fault. Qed.
Print Assumptions C16_mock_pfb_decoder.

Theorem C16_wrapped_pfbs : forall s, wrapped_pfbs s <> Fault.
Proof. exact wrapped_pfbs_no_fault. Qed.
Print Assumptions C16_wrapped_pfbs.

Theorem C16_marshal_blob_tx : forall tx blobs, marshal_blob_tx tx blobs <> Fault.
Proof. exact marshal_blob_tx_no_fault. Qed.
Print Assumptions C16_marshal_blob_tx.

(* ---- byte-string decoders: a value or an error for every byte string ---- *)
Theorem C16_wire_fields : forall b, wire_fields b <> Fault.
Proof. exact wire_fields_no_fault. Qed.
Print Assumptions C16_wire_fields.

Theorem C16_unmarshal_blob_proto : forall b, unmarshal_blob_proto b <> Fault.
Proof. exact unmarshal_blob_proto_no_fault. Qed.
Print Assumptions C16_unmarshal_blob_proto.

Theorem C16_unmarshal_blob : forall b, unmarshal_blob b <> Fault.
Proof. exact unmarshal_blob_no_fault. Qed.
Print Assumptions C16_unmarshal_blob.

Theorem C16_unmarshal_blob_tx_proto : forall b, unmarshal_blob_tx_proto b <> Fault.
Proof. exact unmarshal_blob_tx_proto_no_fault. Qed.
Print Assumptions C16_unmarshal_blob_tx_proto.

Theorem C16_unmarshal_index_wrapper_proto : forall b, unmarshal_index_wrapper_proto b <> Fault.
Proof. exact unmarshal_index_wrapper_proto_no_fault. Qed.
Print Assumptions C16_unmarshal_index_wrapper_proto.

Theorem C16_new_blob_from_proto : forall p, new_blob_from_proto p <> Fault.
Proof. exact new_blob_from_proto_no_fault. Qed.
Print Assumptions C16_new_blob_from_proto.

Theorem C16_new_blob : forall ns data ver signer, new_blob ns data ver signer <> Fault.
Proof. exact new_blob_no_fault. Qed.
Print Assumptions C16_new_blob.

(* ---- parseDelimiter never slices beyond its input ---- *)
Theorem C16_parse_delimiter : forall input, parse_delimiter input <> DelimFault.
Proof. exact parse_delimiter_no_fault. Qed.
Print Assumptions C16_parse_delimiter.

(* ---- the statement of the design in one piece, on lists of 512-byte shares ---- *)
Theorem C16_decoders_total_wf : forall shs b dec, Forall wf_share shs -> (forall x, dec x <> Fault) ->
  parse_blobs shs <> Fault /\ parse_txs shs <> Fault /\ parse_shares shs b <> Fault /\
  (forall seqs, parse_shares shs b = Ok seqs ->
     Forall (fun q => sequence_raw_data q <> Fault /\ valid_sequence_len q <> Fault) seqs) /\
  deconstruct dec shs <> Fault /\ wrapped_pfbs shs <> Fault /\
  Forall (fun s => sh_raw_data_using_reserved s <> Fault) shs.
Proof. exact decoders_total_wf. Qed.
Print Assumptions C16_decoders_total_wf.

(* ---- non-vacuity ---- *)

(* two 512-byte shares of garbage: every share decoder answers, with an error
   (unsupported share version 127) or an empty result *)
Definition c16_two : list share := [repeat Byte.xff 512; repeat Byte.x00 512].
Example C16_example_garbage :
  Forall wf_share c16_two /\
  parse_blobs c16_two = Err /\ parse_txs c16_two = Err /\ parse_shares c16_two false = Err /\
  wrapped_pfbs c16_two = Ok [] /\ deconstruct mock_pfb_decoder c16_two = Ok [].
Proof. split; [repeat constructor|vm_compute; repeat split; reflexivity]. Qed.

(* the witnesses of defect D6 (sequence length 100000 in a single start share; a
   wrapped PFB whose share index is 9999) now meet the guards: an error, while
   the well-formed neighbours decode *)
Definition c16_ns : namespace := Byte.x00 :: repeat Byte.x00 18 ++ repeat Byte.x07 10.
Definition c16_start_share (seq_len : N) : share :=
  c16_ns ++ [Byte.x01] ++ be32 seq_len ++ repeat Byte.x2a 478.
Definition c16_wrapped (idx : N) : bytes :=
  marshal_index_wrapper (repeat Byte.x11 329 ++ be32 300) [idx].
Definition c16_square (idx : N) : list share :=
  match (do c <- new_csplitter pfb_ns 0; do c1 <- cs_write_tx c (c16_wrapped idx);
         do r <- cs_export c1; Ok (snd r)) with
  | Ok l => l ++ [c16_start_share 300]
  | _ => []
  end.

Example C16_example_sequence_length :
  wf_share (c16_start_share 100000) /\
  parse_blobs [c16_start_share 100000] = Err /\
  sequence_raw_data (mk_seq c16_ns [c16_start_share 100000]) = Err /\
  parse_blobs [c16_start_share 478]
    = Ok [mk_blob c16_ns (repeat Byte.x2a 478) 0 None] /\
  sequence_raw_data (mk_seq c16_ns [c16_start_share 300]) = Ok (repeat Byte.x2a 300).
Proof. vm_compute. repeat split; reflexivity. Qed.

Example C16_example_share_index :
  Forall wf_share (c16_square 9999) /\ length (c16_square 9999) = 2%nat /\
  deconstruct mock_pfb_decoder (c16_square 9999) = Err /\
  wrapped_pfbs (c16_square 9999) = Ok [c16_wrapped 9999] /\
  (exists btx, deconstruct mock_pfb_decoder (c16_square 1) = Ok [btx] /\ length btx = 678%nat).
Proof.
  split; [|split; [vm_compute; reflexivity|split; [vm_compute; reflexivity|split; [vm_compute; reflexivity|]]]].
  - apply Forall_forall. intros s Hs.
    assert (H : forallb wf_shareb (c16_square 9999) = true) by (vm_compute; reflexivity).
    rewrite forallb_forall in H. specialize (H s Hs). unfold wf_shareb in H.
    apply PeanoNat.Nat.eqb_eq in H. exact H.
  - destruct (deconstruct mock_pfb_decoder (c16_square 1)) as [[|btx [|x y]]| |] eqn:E;
      try (vm_compute in E; discriminate E).
    exists btx. split; [reflexivity|].
    assert (H : match deconstruct mock_pfb_decoder (c16_square 1) with Ok [t] => length t | _ => 0%nat end = 678%nat)
      by (vm_compute; reflexivity).
    rewrite E in H. exact H.
Qed.

(* byte strings: a truncated field is an error, a complete one decodes *)
Example C16_example_bytes :
  wire_fields [Byte.x0a; Byte.x05; Byte.x01] = Err /\
  wire_fields [Byte.x0a; Byte.x01; Byte.x07] = Ok [(1, WBytes [Byte.x07])] /\
  unmarshal_blob [Byte.x0a; Byte.x01; Byte.x07] = Err /\
  unmarshal_index_wrapper_proto [Byte.x12; Byte.x02; Byte.xff; Byte.xff] = Err /\
  parse_delimiter [Byte.xff; Byte.xff] = DelimIncomplete.
Proof. vm_compute. repeat split; reflexivity. Qed.
