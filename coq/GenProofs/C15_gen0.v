(* C13 (and the small arithmetic helpers of C03/C15) at code level: the straight-line functions
   of the REGENERATED GoLite program (Gen/Generated.v, printed from the Go source on every run)
   compute what the hand-written model computes.  Statements only; proofs in GenStraightC15.v.

   Shape: for every fuel >= 1 and all arguments in the stated range,
   gen_call fuel "<pkg.Func>" <type argument> [args] = Val [model function args]. *)
From Coq Require Import List ZArith String.
From GS.Model Require Import Base Varint Arith Counter GoLite.
From GS.Gen Require Import Generated.
From GS.GenProofs Require Import GenLink GenStraightC15.
Open Scope string_scope. Open Scope Z_scope.

(* inclusion.RoundUpByMultipleOf(cursor, v int) *)
Theorem gen_round_up_by_multiple_of : forall fuel c v, (1 <= fuel)%nat ->
  0 <= c < 2^62 -> 0 < v < 2^62 ->
  gen_call fuel "inclusion.RoundUpByMultipleOf" I64 [c; v] =
  Val [Z.of_N (round_up_by_multiple_of (Z.to_N c) (Z.to_N v))].
Proof. exact round_up_by_multiple_of_gen. Qed.
Print Assumptions gen_round_up_by_multiple_of.

(* v = 0 is a division by zero: a Go panic, for every cursor *)
Theorem gen_round_up_by_multiple_of_zero : forall fuel c, (1 <= fuel)%nat ->
  gen_call fuel "inclusion.RoundUpByMultipleOf" I64 [c; 0] = Flt.
Proof. exact round_up_by_multiple_of_gen_zero. Qed.
Print Assumptions gen_round_up_by_multiple_of_zero.

Example gen_round_up_by_multiple_of_ex :
  gen_call 1 "inclusion.RoundUpByMultipleOf" I64 [13; 4] = Val [16] /\
  gen_call 1 "inclusion.RoundUpByMultipleOf" I64 [12; 4] = Val [12] /\
  round_up_by_multiple_of 13 4 = 16%N /\
  gen_call 1 "inclusion.RoundUpByMultipleOf" I64 [13; 0] = Flt.
Proof. vm_compute. repeat split; reflexivity. Qed.

(* inclusion.getMin[T constraints.Integer](i, j T): no arithmetic, so every type argument and all
   values (in particular int and uint64 with in-range arguments) *)
Theorem gen_get_min : forall fuel t i j, (1 <= fuel)%nat ->
  gen_call fuel "inclusion.getMin" t [i; j] = Val [Z.min i j].
Proof. exact get_min_gen. Qed.
Print Assumptions gen_get_min.

Example gen_get_min_ex :
  gen_call 1 "inclusion.getMin" I64 [-3; 7] = Val [-3] /\
  gen_call 1 "inclusion.getMin" U64 [18446744073709551615; 7] = Val [7].
Proof. vm_compute. split; reflexivity. Qed.

(* share.CompactSharesNeeded(sequenceLen uint32) int: every uint32 *)
Theorem gen_is_power_of_two : forall fuel x, (1 <= fuel)%nat -> - 2^63 < x < 2^63 ->
  gen_call fuel "square.IsPowerOfTwo" I64 [x] = Val [b2z (is_pow2 x)].
Proof. exact is_power_of_two_gen_i64. Qed.
Print Assumptions gen_is_power_of_two.

(* ... and at MinInt64 the Go function answers true (input-1 wraps to MaxInt64, the AND is 0),
   the unbounded model false: the range above is the exact agreement range on int64.
   (NewBuilder tests maxSquareSize <= 0 first, so no caller reaches this input.) *)
Theorem gen_is_power_of_two_min_int64 : forall fuel, (1 <= fuel)%nat ->
  gen_call fuel "square.IsPowerOfTwo" I64 [- 2^63] = Val [1] /\ is_pow2 (- 2^63) = false.
Proof. exact is_power_of_two_gen_i64_min. Qed.
Print Assumptions gen_is_power_of_two_min_int64.

(* at uint64: the whole type *)
Theorem gen_is_power_of_two_u64 : forall fuel x, (1 <= fuel)%nat -> 0 <= x < 2^64 ->
  gen_call fuel "square.IsPowerOfTwo" U64 [x] = Val [b2z (is_pow2 x)].
Proof. exact is_power_of_two_gen_u64. Qed.
Print Assumptions gen_is_power_of_two_u64.

Example gen_is_power_of_two_ex :
  gen_call 1 "square.IsPowerOfTwo" I64 [64] = Val [1] /\ is_pow2 64 = true /\
  gen_call 1 "square.IsPowerOfTwo" I64 [96] = Val [0] /\
  gen_call 1 "square.IsPowerOfTwo" I64 [0] = Val [0] /\
  gen_call 1 "square.IsPowerOfTwo" I64 [-4] = Val [0] /\
  gen_call 1 "square.IsPowerOfTwo" U64 [2^63] = Val [1].
Proof. vm_compute. repeat split; reflexivity. Qed.

(* share.CompactShareCounter methods.  Arguments: the receiver's fields
   [lastShares; lastRemainder; shares; remainder]; results: the Go results followed by the
   receiver's four fields after the call. *)

(* Size() int: exact condition "shares + 1 fits int64 (or is never computed)" *)
