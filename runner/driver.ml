(* Hand-written driver around the extracted model (model.ml).
   Reads one request per line on stdin (TAB separated: id, op, args...) and
   prints one response per line (id TAB result).  The Go harness prints the
   implementation's answer to the same request in the same canonical format. *)
open Model

(* ---- conversions ---- *)
let byte_of_int (i : int) : byte = Obj.magic i
let int_of_byte (b : byte) : int = Obj.magic b

let rec pos_of_int i =
  if i = 1 then XH else if i land 1 = 0 then XO (pos_of_int (i lsr 1)) else XI (pos_of_int (i lsr 1))
let n_of_int i = if i = 0 then N0 else Npos (pos_of_int i)
let rec int_of_pos = function XH -> 1 | XO p -> 2 * int_of_pos p | XI p -> 2 * int_of_pos p + 1
let int_of_n = function N0 -> 0 | Npos p -> int_of_pos p
(* counts are natural numbers in the model: a negative count (which the Go API answers with an error or a
   panic) is outside the model's domain and must not be silently read as 0 *)
let rec nat_of_int i =
  if i < 0 then failwith ("negative count " ^ string_of_int i ^ " is outside the model's domain")
  else if i = 0 then O else S (nat_of_int (i - 1))
let rec int_of_nat = function O -> 0 | S k -> 1 + int_of_nat k

let ten = n_of_int 10
let n_of_string (s : string) : n =
  let acc = ref N0 in
  String.iter (fun c ->
    if c < '0' || c > '9' then failwith ("bad number " ^ s);
    acc := N.add (N.mul !acc ten) (n_of_int (Char.code c - 48))) s;
  !acc
let string_of_n (x : n) : string =
  let rec go x acc =
    match x with
    | N0 -> acc
    | _ -> go (N.div x ten) (string_of_int (int_of_n (N.modulo x ten)) ^ acc) in
  match x with N0 -> "0" | _ -> go x ""
let z_of_string (s : string) : z =
  if String.length s > 0 && s.[0] = '-' then
    (match n_of_string (String.sub s 1 (String.length s - 1)) with N0 -> Z0 | Npos p -> Zneg p)
  else (match n_of_string s with N0 -> Z0 | Npos p -> Zpos p)
let string_of_z = function
  | Z0 -> "0" | Zpos p -> string_of_n (Npos p) | Zneg p -> "-" ^ string_of_n (Npos p)

let hexval c =
  match c with
  | '0'..'9' -> Char.code c - 48
  | 'a'..'f' -> Char.code c - 87
  | _ -> failwith "bad hex"
let bytes_of_hex (s : string) : bytes =
  if s = "-" then [] else begin
    let n = String.length s / 2 in
    let r = ref [] in
    for i = n - 1 downto 0 do
      r := byte_of_int (hexval s.[2*i] * 16 + hexval s.[2*i+1]) :: !r
    done; !r
  end
let hexdigits = "0123456789abcdef"
let add_hex (buf : Buffer.t) (b : bytes) =
  match b with
  | [] -> Buffer.add_char buf '-'
  | _ -> List.iter (fun x -> let i = int_of_byte x in
                      Buffer.add_char buf hexdigits.[i lsr 4];
                      Buffer.add_char buf hexdigits.[i land 15]) b
let hex_of_bytes (b : bytes) : string =
  let buf = Buffer.create 64 in add_hex buf b; Buffer.contents buf

let split_list (s : string) : string list =
  if s = "" then [] else String.split_on_char ',' s
let hex_list (s : string) : bytes list = List.map bytes_of_hex (split_list s)
let show_list (f : 'a -> string) (l : 'a list) : string =
  "[" ^ String.concat "," (List.map f l) ^ "]"
let show_bool b = if b then "1" else "0"
let show_outcome (f : 'a -> string) (o : 'a outcome) : string =
  match o with Ok a -> "ok:" ^ f a | Err -> "err" | Fault -> "fault"

let raw_of_bytes (b : bytes) : Bytes.t =
  let n = List.length b in
  let r = Bytes.create n in
  List.iteri (fun i x -> Bytes.unsafe_set r i (Char.unsafe_chr (int_of_byte x))) b; r

let full = (try Sys.getenv "VERIF_FULL" = "1" with Not_found -> false)

(* digest of a list of byte strings: md5 over (8 byte big-endian length ++ bytes)* *)
let digest_list (l : bytes list) : string =
  let buf = Buffer.create 4096 in
  List.iter (fun b ->
    let raw = raw_of_bytes b in
    let n = Bytes.length raw in
    for k = 7 downto 0 do Buffer.add_char buf (Char.chr ((n lsr (8*k)) land 255)) done;
    Buffer.add_bytes buf raw) l;
  Digest.to_hex (Digest.string (Buffer.contents buf))
let show_big_list (l : bytes list) : string =
  if full then show_list hex_of_bytes l
  else Printf.sprintf "#%d:%s" (List.length l) (digest_list l)

(* blob text form: ns:ver:signer|nil:data *)
let show_signer = function None -> "nil" | Some s -> hex_of_bytes s
let show_blob (b : blob) : string =
  Printf.sprintf "%s:%s:%s:%s" (hex_of_bytes b.b_ns) (string_of_n b.b_ver) (show_signer b.b_signer)
    (hex_of_bytes b.b_data)
let parse_signer s = if s = "nil" then None else Some (bytes_of_hex s)
(* raw blob record without validation (the harness only sends blobs accepted by NewBlob) *)
let blob_of_string (s : string) : blob =
  match String.split_on_char ':' s with
  | [ns; ver; sg; data] ->
    { b_ns = bytes_of_hex ns; b_data = bytes_of_hex data; b_ver = n_of_string ver; b_signer = parse_signer sg }
  | _ -> failwith ("bad blob " ^ s)

let show_range (a, b) = string_of_n a ^ "-" ^ string_of_n b
let show_zrange (a, b) = string_of_z a ^ "-" ^ string_of_z b

(* ---- ops ---- *)
let consts () =
  String.concat ";" [
    "share_size=" ^ string_of_int (int_of_nat share_size);
    "ns_size=" ^ string_of_int (int_of_nat ns_size);
    "first_compact=" ^ string_of_n first_compact_content;
    "cont_compact=" ^ string_of_n cont_compact_content;
    "first_sparse=" ^ string_of_n first_sparse_content;
    "cont_sparse=" ^ string_of_n cont_sparse_content;
    "signer_size=" ^ string_of_int (int_of_nat signer_size);
    "max_share_version=" ^ string_of_n max_share_version;
    "tx_ns=" ^ hex_of_bytes tx_ns;
    "isr_ns=" ^ hex_of_bytes isr_ns;
    "pfb_ns=" ^ hex_of_bytes pfb_ns;
    "prp_ns=" ^ hex_of_bytes primary_reserved_padding_ns;
    "maxprim_ns=" ^ hex_of_bytes max_primary_reserved_ns;
    "minsec_ns=" ^ hex_of_bytes min_secondary_reserved_ns;
    "tail_ns=" ^ hex_of_bytes tail_padding_ns;
    "parity_ns=" ^ hex_of_bytes parity_ns;
    "blob_type_id=" ^ hex_of_bytes type_id_blob;
    "indx_type_id=" ^ hex_of_bytes type_id_indx;
    "worst_index=" ^ show_list string_of_n (worst_case_share_indexes (nat_of_int 2));
  ]

let counter_ops (ops : string list) : string =
  let c = ref new_counter in
  String.concat "," (List.map (fun op ->
    if op = "r" then begin
      c := counter_revert !c;
      Printf.sprintf "-/%s/%s" (string_of_z (counter_size !c)) (string_of_z (counter_remainder !c))
    end else begin
      let n = z_of_string (String.sub op 1 (String.length op - 1)) in
      let (c', d) = counter_add !c n in
      c := c';
      Printf.sprintf "%s/%s/%s" (string_of_z d) (string_of_z (counter_size !c)) (string_of_z (counter_remainder !c))
    end) ops)

let sparse_item_of_string (s : string) : sparse_item =
  match s.[0] with
  | 'b' -> IBlob (blob_of_string (String.sub s 2 (String.length s - 2)))
  | 'n' -> INsPad (nat_of_int (int_of_string (String.sub s 2 (String.length s - 2))))
  | 'r' -> IReservedPad (nat_of_int (int_of_string (String.sub s 2 (String.length s - 2))))
  | 't' -> ITailPad (nat_of_int (int_of_string (String.sub s 2 (String.length s - 2))))
  | _ -> failwith "bad item"

let shinfo (s : share) : string =
  String.concat " " [
    hex_of_bytes (sh_ns s); string_of_n (sh_version s); show_bool (sh_start s);
    show_bool (sh_is_compact s); string_of_n (sh_seq_len s); show_signer (sh_signer s);
    show_bool (sh_is_padding s); show_bool (sh_version_supported s); hex_of_bytes (sh_raw_data s);
    show_outcome hex_of_bytes (sh_raw_data_using_reserved s) ]

let compact_ops (ns : bytes) (ver : n) (ops : string list) : string =
  match new_csplitter ns ver with
  | Err -> "err" | Fault -> "fault"
  | Ok c0 ->
    let c = ref c0 in
    let written = ref [] in
    let outs = List.map (fun op ->
      match op.[0] with
      | 'w' ->
        let tx = bytes_of_hex (String.sub op 1 (String.length op - 1)) in
        (match cs_write_tx !c tx with
         | Ok c' -> c := c';
           if not (List.exists (fun t -> bytes_eqb t tx) !written) then written := !written @ [tx];
           "w:ok"
         | Err -> "w:err" | Fault -> "w:fault")
      | 'e' ->
        (match cs_export !c with
         | Ok (c', shs) -> c := c'; "e:ok:" ^ show_list hex_of_bytes shs
         | Err -> "e:err" | Fault -> "e:fault")
      | 'c' -> "c:" ^ string_of_n (cs_count !c)
      | _ -> failwith "bad compact op") ops in
    let ranges = List.map (fun tx ->
      match cs_share_range !c (n_of_int 3) tx with
      | Some r -> show_range r | None -> "none") !written in
    String.concat ";" outs ^ ";R:" ^ String.concat "," ranges

let write_all (ns : bytes) (txs : bytes list) : csplitter outcome =
  List.fold_left (fun acc t -> bind acc (fun c -> cs_write_tx c t)) (new_csplitter ns N0) txs

(* write all, count, export, sequence length of the first share, parse *)
let compact_rt (ns : bytes) (txs : bytes list) : string =
  match write_all ns txs with
  | Err -> "err" | Fault -> "fault"
  | Ok c ->
    let cnt = cs_count c in
    (match cs_export c with
     | Err -> "err" | Fault -> "fault"
     | Ok (_, shs) ->
       let seqlen = match shs with s :: _ -> sh_seq_len s | [] -> N0 in
       Printf.sprintf "%s:%d:%s:%s" (string_of_n cnt) (List.length shs) (string_of_n seqlen)
         (show_outcome show_big_list (parse_txs shs)))

let rec take k l = if k <= 0 then [] else match l with [] -> [] | x :: t -> x :: take (k-1) t
let rec drop k l = if k <= 0 then l else match l with [] -> [] | _ :: t -> drop (k-1) t

(* ParseTxs on every contiguous sub-range of the exported sequence *)
let subranges (ns : bytes) (txs : bytes list) : string =
  match bind (write_all ns txs) cs_export with
  | Err -> "err" | Fault -> "fault"
  | Ok (_, shs) ->
    let nsh = List.length shs in
    let buf = Buffer.create 1024 in
    for lo = 0 to nsh - 1 do
      for hi = lo + 1 to nsh do
        let sub = take (hi - lo) (drop lo shs) in
        Buffer.add_string buf (Printf.sprintf "%d-%d=%s;" lo hi (show_outcome show_big_list (parse_txs sub)))
      done
    done;
    Buffer.contents buf

let show_delim = function
  | DelimOk (rest, l) -> "ok:" ^ hex_of_bytes rest ^ ":" ^ string_of_n l
  | DelimIncomplete -> "inc" | DelimErr -> "err" | DelimFault -> "fault"

let show_ubt = function
  | UbtNot -> "not" | UbtErr -> "err"
  | UbtOk t -> "ok:" ^ hex_of_bytes t.btx_tx ^ ":" ^ show_list show_blob t.btx_blobs

let show_square (sq : share list) : string =
  Printf.sprintf "%s:%s" (string_of_n (square_size (lenN sq))) (show_big_list sq)

(* builder op sequences (C06, C14) *)
let builder_ops (max : z) (thr : n) (ops : string list) : string =
  if not (new_builder_ok max) then "err" else begin
    let b = ref (empty_builder (Z.to_N max) thr) in
    let cur () = string_of_z !b.bd_cur in
    let outs = List.map (fun op ->
      let arg () = String.sub op 1 (String.length op - 1) in
      match op.[0] with
      | 't' ->
        let (b', ok) = append_tx !b (bytes_of_hex (arg ())) in
        b := b'; Printf.sprintf "t:%s:%s" (show_bool ok) (cur ())
      | 'b' ->
        (match unmarshal_blob_tx (bytes_of_hex (arg ())) with
         | UbtOk bt -> let (b', ok) = append_blob_tx !b bt in
           b := b'; Printf.sprintf "b:%s:%s" (show_bool ok) (cur ())
         | _ -> "b:undecodable")
      | 'z' ->
        let (b', ok) = append_blob_tx !b { btx_tx = bytes_of_hex (arg ()); btx_blobs = [] } in
        b := b'; Printf.sprintf "z:%s:%s" (show_bool ok) (cur ())
      | 'x' ->
        (match export !b with
         | Ok (b', sq) -> b := b'; "x:ok:" ^ show_square sq
         | Err -> "x:err" | Fault -> "x:fault")
      | 'r' ->
        (match find_tx_share_range !b (z_of_string (arg ())) with
         | Ok (b', r) -> b := b'; "r:ok:" ^ show_zrange r
         | Err -> "r:err" | Fault -> "r:fault")
      | 's' ->
        (match String.split_on_char '/' (arg ()) with
         | [p; j] ->
           (match find_blob_starting_index !b (z_of_string p) (z_of_string j) with
            | Ok (b', i) -> b := b';
              "s:ok:" ^ string_of_n i ^ ":" ^ show_outcome string_of_n (blob_share_length !b (z_of_string p) (z_of_string j))
            | Err -> "s:err" | Fault -> "s:fault")
         | _ -> failwith "bad s op")
      | 'l' ->
        (match String.split_on_char '/' (arg ()) with
         | [p; j] -> "l:" ^ show_outcome string_of_n (blob_share_length !b (z_of_string p) (z_of_string j))
         | _ -> failwith "bad l op")
      | 'w' ->
        (match get_wrapped_pfb !b (z_of_string (arg ())) with
         | Ok (b', p) -> b := b'; "w:ok:" ^ hex_of_bytes p.pfb_tx ^ ":" ^ show_list string_of_n p.pfb_idx
         | Err -> "w:err" | Fault -> "w:fault")
      | 'q' ->
        Printf.sprintf "q:%s:%d:%d:%d:%s:%s" (cur ()) (List.length !b.bd_txs) (List.length !b.bd_pfbs)
          (List.length !b.bd_blobs) (string_of_z (counter_size !b.bd_txc)) (string_of_z (counter_size !b.bd_pfbc))
      | _ -> failwith "bad builder op") ops in
    String.concat ";" outs
  end

let show_sequence (s : sequence) : string =
  Printf.sprintf "%s/%d/%s/%s" (hex_of_bytes s.sq_ns) (List.length s.sq_shares)
    (show_bool (match s.sq_shares with [sh] -> sh_is_padding sh | _ -> false))
    (match sequence_raw_data s with
     | Ok d -> "ok:" ^ (if full then hex_of_bytes d else digest_list [d])
     | Err -> "err" | Fault -> "fault")

(* C05 begin: commitments, namespaced merkle tree *)
let show_obytes (o : bytes outcome) : string = show_outcome hex_of_bytes o
let c05_blob (ns : bytes) (ver : n) (signer : string) (data : bytes) : blob outcome =
  new_blob ns data ver (parse_signer signer)
(* one row of shares, a leaf range [start, start+len):
   A = ComputeSubtreeRoot(start, start+len) on the row tree (mirror of the Go function);
   B = the same range looked up as an inner node by following the root recursion of the row
       (the harness prints the root of a separate tree holding only those leaves);
   C = the row root, computed (when the row is a power of two long and A is defined) as the
       root over the nodes of that level, else directly (the harness prints Root()) *)
let c05_rownode (row : bytes list) (start : n) (len : n) : string =
  let leaves = row_leaves row in
  if not (nmt_push_ok leaves) then "err" else begin
    let hashes = nmt_leaf_hashes sha256 leaves in
    let f = hash_node_o sha256 and e = Ok (nmt_empty_root sha256) in
    let a = nmt_subtree_root sha256 leaves start (N.add start len) in
    let b = match a with
      | Ok _ -> (match inner_node f e hashes start len with
                 | Some v -> show_obytes v
                 | None -> "none")
      | _ -> "-" in
    let nrow = List.length row in
    let c = match a with
      | Ok _ when nrow land (nrow - 1) = 0 -> mroot f e (level_nodes f e hashes len)
      | _ -> nmt_compute_root sha256 hashes in
    String.concat ";" [show_obytes a; b; show_obytes c]
  end
(* C05 end *)

(* C17 begin: explicit-memory model; shares are views arena[off : off+512 : off+cap] of ONE block *)
let c17_views (s : string) : (nat * nat) list =
  List.map (fun v -> match String.split_on_char ':' v with
    | [o; c] -> (nat_of_int (int_of_string o), nat_of_int (int_of_string c))
    | _ -> failwith "bad view") (split_list s)
let c17_diff (d : nat option) : string =
  match d with None -> "none" | Some i -> string_of_int (int_of_nat i)
let c17_parse_blobs (copy_first : bool) (arena : bytes) (views : string) : string =
  let ((d, res), _log) = mem_parse_blobs_run copy_first arena (c17_views views) in
  c17_diff d ^ ";" ^ show_outcome (show_list show_blob) res
let c17_parse_txs (arena : bytes) (views : string) : string =
  let ((d, res), _log) = mem_parse_txs_run arena (c17_views views) in
  c17_diff d ^ ";" ^ show_outcome (show_list hex_of_bytes) res
(* C17 end *)
(* C17commit begin: the commit / re-write paths on the explicit-memory model (Model/MemCommit.v).
   [fixed] = false runs the `append(view, ...)` variant of the leaf construction / of Write. *)
let c17_commit_leaves (fixed : bool) (arena : bytes) (views : string) (thr : n) : string =
  let (d, res) = mem_commit_run fixed sha256 thr arena (c17_views views) in
  c17_diff d ^ ";" ^ show_outcome (show_list (show_list hex_of_bytes)) res
let c17_sparse_write (fixed : bool) (arena : bytes) (views : string) : string =
  let (d, res) = mem_sparse_write_run fixed arena (c17_views views) in
  c17_diff d ^ ";" ^ show_outcome (show_list (show_list hex_of_bytes)) res
(* C17commit end *)

let run (op : string) (a : string array) : string =
  let arg i = a.(i) in
  let n i = n_of_string (arg i) in
  let z i = z_of_string (arg i) in
  let h i = bytes_of_hex (arg i) in
  match op with
  | "consts" -> consts ()
  (* arithmetic *)
  | "rup" -> string_of_n (round_up_pow2 (n 0))
  | "rdown" -> show_outcome string_of_n (round_down_pow2 (z 0))
  | "ispow2" -> show_bool (is_pow2 (z 0))
  | "minsq" -> string_of_n (blob_min_square_size (n 0))
  | "sqsize" -> string_of_n (square_size (n 0))
  | "stw" -> string_of_n (subtree_width (n 0) (n 1))
  | "rumo" -> string_of_n (round_up_by_multiple_of (n 0) (n 1))
  | "nsi" -> string_of_n (next_share_index (n 0) (n 1) (n 2))
  | "mmr" -> show_list string_of_n (mmr_sizes (n 0) (n 1))
  | "bsu" ->
    let (used, idx) = blob_shares_used (n 0) (n 1) (List.map n_of_string (split_list (arg 2))) in
    string_of_n used ^ ":" ^ show_list string_of_n idx
  (* counters and closed forms *)
  | "cneed" -> string_of_n (compact_shares_needed (n 0))
  | "sneed" -> string_of_n (sparse_shares_needed (n 0))
  | "cavail" -> string_of_z (available_compact (z 0))
  | "savail" -> string_of_z (available_sparse (z 0))
  | "delimlen" -> string_of_n (delim_len (n 0))
  | "counter" -> counter_ops (split_list (arg 0))
  (* namespaces *)
  | "nscmp" ->
    let x = h 0 and y = h 1 in
    String.concat " " [ string_of_z (ns_compare x y); show_bool (ns_equals x y); show_bool (ns_lt x y);
                        show_bool (ns_le x y); show_bool (ns_gt x y); show_bool (ns_ge x y) ]
  | "nsinfo" ->
    let x = h 0 in
    String.concat " " (List.map show_bool [
      is_primary_reserved x; is_secondary_reserved x; is_reserved x; is_parity x; is_tail_padding x;
      is_primary_reserved_padding x; is_tx x; is_pfb x; is_usable x; validate_for_data x; validate_for_blob x ])
  | "nsnew" -> show_outcome hex_of_bytes (new_namespace (n 0) (h 1))
  | "nsfrom" -> show_outcome hex_of_bytes (new_namespace_from_bytes (h 0))
  | "nsv0" -> show_outcome hex_of_bytes (new_v0_namespace (h 0))
  | "nsadd" -> show_outcome hex_of_bytes (add_int (h 0) (z 1))
  (* shares *)
  | "blobnew" -> show_outcome show_blob (new_blob (h 0) (h 1) (n 2) (parse_signer (arg 3)))
  | "blobshares" ->
    show_outcome (show_list hex_of_bytes)
      (bind (new_blob (h 0) (h 3) (n 1) (parse_signer (arg 2))) blob_to_shares)
  | "pad" ->
    let cnt = nat_of_int (int_of_string (arg 3)) in
    show_outcome (show_list hex_of_bytes)
      (match arg 0 with
       | "ns" -> namespace_padding_shares (h 1) (n 2) cnt
       | "res" -> reserved_padding_shares cnt
       | "tail" -> tail_padding_shares cnt
       | _ -> failwith "bad pad kind")
  | "shinfo" -> shinfo (h 0)
  | "sparse" ->
    show_outcome (show_list hex_of_bytes)
      (sparse_write_items [] (List.map sparse_item_of_string (split_list (arg 0))))
  | "sparserr" ->
    show_outcome (show_list show_blob)
      (bind (sparse_write_items [] (List.map sparse_item_of_string (split_list (arg 0)))) parse_blobs)
  | "specblob" ->
    show_outcome (show_list hex_of_bytes)
      (bind (new_blob (h 0) (h 3) (n 1) (parse_signer (arg 2))) (fun b -> Ok (blob_spec b)))
  | "specpad" -> show_outcome hex_of_bytes (Ok (padding_spec (h 0) (n 1)))
  | "speccompact" -> show_list hex_of_bytes (compact_spec (h 0) N0 (hex_list (arg 1)))
  | "compactrt" -> compact_rt (h 0) (hex_list (arg 1))
  | "subranges" -> subranges (h 0) (hex_list (arg 1))
  | "parseblobs" -> show_outcome (show_list show_blob) (parse_blobs (hex_list (arg 0)))
  | "compact" -> compact_ops (h 0) (n 1) (split_list (arg 2))
  | "parsetxs" -> show_outcome (show_list hex_of_bytes) (parse_txs (hex_list (arg 0)))
  | "parsedelim" -> show_delim (parse_delimiter (h 0))
  (* serialisation *)
  | "blobmarshal" -> hex_of_bytes (marshal_blob (blob_of_string (arg 0)))
  | "blobunmarshal" -> show_outcome show_blob (unmarshal_blob (h 0))
  | "btxmarshal" ->
    show_outcome hex_of_bytes (marshal_blob_tx (h 0) (List.map blob_of_string (split_list (arg 1))))
  | "btxunmarshal" -> show_ubt (unmarshal_blob_tx (h 0))
  | "iwmarshal" -> hex_of_bytes (marshal_index_wrapper (h 0) (List.map n_of_string (split_list (arg 1))))
  | "iwunmarshal" ->
    (match unmarshal_index_wrapper (h 0) with
     | Some w -> "ok:" ^ hex_of_bytes w.iw_tx ^ ":" ^ show_list string_of_n w.iw_idx
     | None -> "none")
  | "blobfromproto" ->
    (* fields: ns_id data share_version ns_version signer *)
    show_outcome show_blob
      (new_blob_from_proto { bp_ns_id = h 0; bp_data = h 1; bp_share_version = n 2; bp_ns_version = n 3; bp_signer = h 4 })
  (* squares *)
  | "build" ->
    (match build (hex_list (arg 2)) (z 0) (n 1) with
     | Ok (sq, kept) -> "ok:" ^ show_square sq ^ ":" ^ show_big_list kept
     | Err -> "err" | Fault -> "fault")
  | "construct" -> show_outcome show_square (construct (hex_list (arg 2)) (z 0) (n 1))
  (* ---- C07: the layout written from the rules (Spec/LayoutSpec.v) ---- *)
  | "specbuild" ->
    (match layout_build (hex_list (arg 2)) (z 0) (n 1) with
     | Ok (sq, kept) -> "ok:" ^ show_square sq ^ ":" ^ show_big_list kept
     | Err -> "err" | Fault -> "fault")
  | "specconstruct" -> show_outcome show_square (layout_construct (hex_list (arg 2)) (z 0) (n 1))
  | "speccompactix" -> show_list hex_of_bytes (compact_spec_ix (h 0) N0 (hex_list (arg 1)))
  | "condecon" ->
    show_outcome show_big_list
      (bind (construct (hex_list (arg 2)) (z 0) (n 1)) (deconstruct mock_pfb_decoder))
  | "deconstruct" -> show_outcome show_big_list (deconstruct mock_pfb_decoder (hex_list (arg 0)))
  | "wrappedpfbs" -> show_outcome show_big_list (wrapped_pfbs (hex_list (arg 0)))
  | "txrange" -> show_outcome show_zrange (tx_share_range (hex_list (arg 3)) (z 2) (z 0) (n 1))
  | "blobrange" -> show_outcome show_range (blob_share_range (hex_list (arg 4)) (z 2) (z 3) (z 0) (n 1))
  | "builderops" -> builder_ops (z 0) (n 1) (split_list (arg 2))
  | "nsrange" -> show_range (get_share_range_for_namespace (hex_list (arg 1)) (h 0))
  | "parseshares" ->
    show_outcome (show_list show_sequence) (parse_shares (hex_list (arg 1)) (arg 0 = "1"))
  | "sqparseshares" ->
    (* construct, then ParseShares on the result *)
    show_outcome (show_list show_sequence)
      (bind (construct (hex_list (arg 3)) (z 1) (n 2)) (fun sq -> parse_shares sq (arg 0 = "1")))
  (* C05 begin *)
  | "sha256" -> hex_of_bytes (sha256 (h 0))
  | "subtreeroots" ->
    show_outcome (show_list hex_of_bytes)
      (bind (c05_blob (h 0) (n 1) (arg 2) (h 3)) (fun b -> subtree_roots_sha b (n 4)))
  | "commitment" ->
    show_obytes (bind (c05_blob (h 0) (n 1) (arg 2) (h 3)) (fun b -> commitment_sha b (n 4)))
  | "merkleroot" -> hex_of_bytes (merkle_root sha256 (hex_list (arg 0)))
  | "rownode" -> c05_rownode (hex_list (arg 0)) (n 1) (n 2)
  (* C05 end *)
  (* C17 begin *)
  | "memparseblobs" -> c17_parse_blobs true (h 0) (arg 1)
  | "memparseblobslegacy" -> c17_parse_blobs false (h 0) (arg 1)
  | "memparsetxs" -> c17_parse_txs (h 0) (arg 1)
  (* C17 end *)
  (* C17commit begin *)
  | "memcommitleaves" -> c17_commit_leaves true (h 0) (arg 1) (n 2)
  | "memcommitleaveslegacy" -> c17_commit_leaves false (h 0) (arg 1) (n 2)
  | "memsparsewrite" -> c17_sparse_write true (h 0) (arg 1)
  | "memsparsewritelegacy" -> c17_sparse_write false (h 0) (arg 1)
  (* C17commit end *)
  (* C19json begin: JSON text layer (the texts travel as hex) *)
  | "blobjson" -> hex_of_bytes (marshal_blob_json (blob_of_string (arg 0)))
  | "blobunjson" -> show_outcome show_blob (unmarshal_blob_json (h 0))
  | "sharejson" -> hex_of_bytes (marshal_share_json (h 0))
  | "shareunjson" -> show_outcome hex_of_bytes (unmarshal_share_json (h 0))
  | "nsjson" -> hex_of_bytes (marshal_namespace_json (h 0))
  | "nsunjson" -> show_outcome hex_of_bytes (unmarshal_namespace_json (h 0))
  | "jsonsubset" -> show_bool (json_in_subset (h 0))
  | "b64enc" -> hex_of_bytes (base64_encode (h 0))
  | "b64dec" -> (match base64_decode (h 0) with Some b -> "ok:" ^ hex_of_bytes b | None -> "err")
  (* C19json end *)
  (* helpers begin: the small public helpers (Model/Helpers.v) *)
  | "sortblobs" -> show_list show_blob (sort_blobs (List.map blob_of_string (split_list (arg 0))))
  | "blobcmp" -> string_of_z (blob_compare (blob_of_string (arg 0)) (blob_of_string (arg 1)))
  | "blobv0" -> show_outcome show_blob (new_v0_blob (h 0) (h 1))
  | "blobv1" -> show_outcome show_blob (new_v1_blob (h 0) (h 1) (parse_signer (arg 2)))
  | "blobempty" ->
    let b = blob_of_string (arg 0) in show_bool (blob_is_empty b) ^ ":" ^ string_of_n (blob_data_len b)
  | "commitments" ->
    show_outcome (show_list hex_of_bytes) (commitments_sha (List.map blob_of_string (split_list (arg 0))) (n 1))
  | "parseinfo" ->
    show_outcome (fun i -> String.concat ":" [string_of_n (b2n i); string_of_n (info_version i); show_bool (info_start i)])
      (parse_info_byte (n2b (n 0)))
  | "range" ->
    let st r = show_zrange r ^ "/" ^ show_bool (range_is_empty r) in
    let r = new_range (z 0) (z 1) in
    String.concat " " [st empty_range; st r; st (range_add r (z 2))]
  | "nsrepeat" -> show_outcome (show_list hex_of_bytes) (ns_repeat (h 0) (z 1))
  | "nsempty" -> show_bool (ns_is_empty (h 0))
  | "frombytes" -> show_outcome (fun shs -> show_big_list (to_bytes shs)) (from_bytes (hex_list (arg 0)))
  | "sharebytes" -> show_outcome hex_of_bytes (bind (new_share (h 0)) (fun s -> Ok (share_to_bytes s)))
  | "sqequals" -> show_bool (square_equals (hex_list (arg 0)) (hex_list (arg 1)))
  | "sqsizeof" -> string_of_n (square_size_of (hex_list (arg 0)))
  | "sparsecount" ->
    show_outcome string_of_n (sparse_count_after (List.map sparse_item_of_string (split_list (arg 0))))
  (* helpers end *)
  | _ -> failwith ("unknown op " ^ op)

let () =
  (* self check of the Obj.magic byte conversion *)
  for i = 0 to 255 do
    if int_of_n (to_N (byte_of_int i)) <> i then (prerr_endline "byte conversion broken"; exit 2)
  done;
  try
    while true do
      let line = input_line stdin in
      match String.split_on_char '\t' line with
      | id :: op :: args ->
        let res =
          try run op (Array.of_list args)
          with Stack_overflow -> "runner-stack-overflow"
             | Failure m -> "runner-failure:" ^ m
             | Invalid_argument m -> "runner-invalid:" ^ m in
        print_string id; print_char '\t'; print_endline res
      | _ -> ()
    done
  with End_of_file -> ()
