(* C04 (code model) - Recorded blob share indexes are truthful and satisfy the alignment
   rule, read from the square itself.  Statements only; proofs in Proofs/EndToEndProofs.v.

   End-to-end statement about the code model, by C07 refinement + layout_blob_at /
   indexes_of_tx_placed (DeconstructProofs), recorded_wrappers (RefinementProofs2),
   blob_share_range_spec (BlobLayoutProofs, C04.v) and the stability of the namespace sort
   (lb_sort_key_sorted).  This closes what C04.v lists as NOT covered: decoding the
   recorded index back out of the PFB *shares* of the square, and that the lay-out order is
   "by namespace, ties by transaction position, then position inside the transaction".

   For sq = the square square.Construct returns for raws (conditions H: threshold >= 1,
   maximum side <= 1024, acceptable blobs: c07_raws_ok), with raws = normals followed by the
   blob transactions btxs:
     - Square.WrappedPFBs reads one wrapped PFB per blob transaction from the square;
     - the p-th one unmarshals (tx.UnmarshalIndexWrapper) to the inner transaction of the
       p-th blob transaction with a share index list idx, one index per blob;
     - for blob j of that transaction (b, n = its share count): the n shares of the square at
       idx[j] are exactly the share encoding of b; idx[j] + n is inside the square; idx[j]
       is a multiple of the subtree width of n; square.BlobShareRange(raws, #normals + p, j)
       = (idx[j], idx[j] + n);
     - the entries (blob, p, j, n, index) form a list [placed] that is strictly increasing
       for the lexicographic key (namespace, p, j), whose ranges [index, index + n) are
       increasing and pairwise disjoint, and every entry of which is a blob of a kept
       transaction.
   C04_code_build: the same for square.Build (without the query, which takes the kept list). *)
From Coq Require Import List NArith ZArith Sorted.
From GS.Model Require Import Base Varint Namespace ShareFmt Blob Sparse Compact Counter Arith Proto Builder Square.
From GS.Spec Require Import ShareSpec CompactSpec LayoutSpec.
From GS.Proofs Require Import SparseProofs ArithProofs BlobLayoutProofs LayoutShapeProofs DeconstructProofs
  RefinementProofs1 RefinementProofs3 EndToEndProofs.
Import ListNotations.
Open Scope N_scope.

Theorem C04_code_construct : forall raws max thr sq,
  1 <= thr -> (max <= 1024)%Z -> c07_raws_ok raws ->
  construct raws max thr = Ok sq ->
  exists normals btxs ws placed,
    split_ordered false raws [] [] = Some (normals, btxs) /\
    wrapped_pfbs sq = Ok ws /\ length ws = length btxs /\
    StronglySorted key_lt placed /\ StronglySorted lb_range_before placed /\
    (forall e, In e placed -> exists p t j, lb_pfb e = N.of_nat p /\ lb_j e = N.of_nat j /\
                 nth_error btxs p = Some t /\ nth_error (btx_blobs t) j = Some (lb_blob e)) /\
    forall p t, nth_error btxs p = Some t ->
      exists w idx, nth_error ws p = Some w /\
        unmarshal_index_wrapper w = Some (mk_iw (btx_tx t) idx type_id_indx) /\
        length idx = length (btx_blobs t) /\
        forall j b, nth_error (btx_blobs t) j = Some b ->
          exists e, In e placed /\ lb_pfb e = N.of_nat p /\ lb_j e = N.of_nat j /\ lb_blob e = b /\
            lb_n e = blob_share_count b /\
            nth_error idx j = Some (lb_index e) /\
            firstn (N.to_nat (blob_share_count b)) (skipn (N.to_nat (lb_index e)) sq) = blob_spec b /\
            lb_index e + blob_share_count b <= lenN sq /\
            lb_index e mod subtree_width (blob_share_count b) thr = 0 /\
            blob_share_range raws (Z.of_nat (length normals + p)) (Z.of_nat j) max thr
              = Ok (lb_index e, lb_index e + blob_share_count b).
Proof. exact construct_indexes. Qed.
Print Assumptions C04_code_construct.

Theorem C04_code_build : forall raws max thr sq kept,
  1 <= thr -> (max <= 1024)%Z -> c07_raws_ok raws ->
  build raws max thr = Ok (sq, kept) ->
  exists normals btxs ws placed,
    keep (Z.to_N max * Z.to_N max) thr raws [] [] [] [] = Some (normals, btxs, kept) /\
    wrapped_pfbs sq = Ok ws /\ length ws = length btxs /\
    StronglySorted key_lt placed /\ StronglySorted lb_range_before placed /\
    (forall e, In e placed -> exists p t j, lb_pfb e = N.of_nat p /\ lb_j e = N.of_nat j /\
                 nth_error btxs p = Some t /\ nth_error (btx_blobs t) j = Some (lb_blob e)) /\
    forall p t, nth_error btxs p = Some t ->
      exists w idx, nth_error ws p = Some w /\
        unmarshal_index_wrapper w = Some (mk_iw (btx_tx t) idx type_id_indx) /\
        length idx = length (btx_blobs t) /\
        forall j b, nth_error (btx_blobs t) j = Some b ->
          exists e, In e placed /\ lb_pfb e = N.of_nat p /\ lb_j e = N.of_nat j /\ lb_blob e = b /\
            lb_n e = blob_share_count b /\
            nth_error idx j = Some (lb_index e) /\
            firstn (N.to_nat (blob_share_count b)) (skipn (N.to_nat (lb_index e)) sq) = blob_spec b /\
            lb_index e + blob_share_count b <= lenN sq /\
            lb_index e mod subtree_width (blob_share_count b) thr = 0.
Proof. exact build_indexes. Qed.
Print Assumptions C04_code_build.

(* square.Build: the square it returns is the square square.Construct returns for the kept
   list (C01), and the kept list satisfies H; so C04_code_construct applies to (kept, sq),
   including the BlobShareRange query on the kept transactions *)
Theorem C04_code_build_is_construct_of_kept : forall raws max thr sq kept, c07_raws_ok raws ->
  build raws max thr = Ok (sq, kept) ->
  c07_raws_ok kept /\ construct kept max thr = Ok sq.
Proof. exact build_kept_construct. Qed.
Print Assumptions C04_code_build_is_construct_of_kept.

(* the two orders: [key_lt] is the strict lexicographic order on (namespace, transaction
   position, position inside the transaction); [lb_range_before a b]: the range of a ends
   at or before the start of the range of b *)
Theorem C04_code_orders_unfolded : forall a b,
  (key_lt a b <->
     bytes_cmp (b_ns (lb_blob a)) (b_ns (lb_blob b)) = Lt \/
     (b_ns (lb_blob a) = b_ns (lb_blob b) /\
      (lb_pfb a < lb_pfb b \/ (lb_pfb a = lb_pfb b /\ lb_j a < lb_j b)))) /\
  (lb_range_before a b <-> lb_index a + lb_n a <= lb_index b).
Proof. exact (fun a b => conj (iff_refl _) (iff_refl _)). Qed.
Print Assumptions C04_code_orders_unfolded.

(* the sort behind it: the insertion sort by namespace is stable - applied to a list in
   (transaction, position) order it yields a list in (namespace, transaction, position) order *)
Theorem C04_code_stable_sort : forall l, StronglySorted pos_lt l -> StronglySorted key_lt (lb_sort l).
Proof. exact lb_sort_key_sorted. Qed.
Print Assumptions C04_code_stable_sort.

Theorem C04_code_enumeration_order : forall btxs pi,
  StronglySorted pos_lt (all_blobs pi btxs) /\ Forall (fun e => pi <= lb_pfb e) (all_blobs pi btxs).
Proof. exact all_blobs_pos. Qed.
Print Assumptions C04_code_enumeration_order.

(* on the layout, for any two lists *)
Theorem C04_code_placed_order : forall thr normals btxs, 1 <= thr ->
  let placed := lay_placed thr normals btxs in
  StronglySorted key_lt placed /\ StronglySorted lb_range_before placed /\
  Forall (fun e => lb_index e mod subtree_width (lb_n e) thr = 0 /\ lb_n e = blob_share_count (lb_blob e)) placed.
Proof. exact placed_order. Qed.
Print Assumptions C04_code_placed_order.

(* Square.WrappedPFBs on the layout: the wrapped PFBs with the real share indexes *)
Theorem C04_code_wrapped_pfbs : forall thr normals btxs, 1 <= thr -> Forall lay_btx_ok btxs ->
  estimate thr normals btxs < 2097152 ->
  wrapped_pfbs (layout thr normals btxs) = Ok (wrappers (lay_placed thr normals btxs) 0 btxs).
Proof. exact layout_wrapped_pfbs. Qed.
Print Assumptions C04_code_wrapped_pfbs.

(* what the exported builder holds (behind the query): the same transactions, the PFBs
   wrapped with the layout's share indexes, the blobs sorted *)
Theorem C04_code_export_state : forall max thr b normals btxs, 1 <= thr -> max * max < 2097152 ->
  corr max thr b normals btxs ->
  exists b', export b = Ok (b', layout thr normals btxs) /\
    bd_txs b' = normals /\
    TxRangeProofs.wrapped (bd_pfbs b') = wrappers (lay_placed thr normals btxs) 0 btxs /\
    length (bd_pfbs b') = length btxs /\
    bd_blobs b' = sort_elements (bd_blobs b) /\
    (builder_is_empty b = false -> bd_done b' = true).
Proof. exact export_corr_state. Qed.
Print Assumptions C04_code_export_state.

(* ---- non-vacuity ---- *)
(* ex_raws (C07.v), maximum 4, threshold 1: blob a of the first blob transaction at 2,
   blob a of the second one at 4, two padding shares, blob b (5 shares, subtree width 4) at 8 *)
Example C04_code_example_hyps :
  1 <= 1 /\ (4 <= 1024)%Z /\ c07_raws_ok ex_raws /\ is_ok (construct ex_raws 4 1) = true /\
  split_ordered false ex_raws [] [] = Some (ex_normals, [ex_btx1; ex_btx2]).
Proof.
  destruct e2e_ex_hyps as (H1 & H2 & H3 & H4 & _). split; [exact H1|]. split; [exact H2|].
  split; [exact H3|]. split; [exact H4|exact e2e_ex_split].
Qed.

(* by evaluation of the models: the indexes read from the square, the blobs' encodings at
   them, the query, and the placed list in (namespace, transaction, position) order *)
Example C04_code_example_computed :
  match construct ex_raws 4 1 with
  | Ok sq =>
    match wrapped_pfbs sq with
    | Ok ws =>
      map (fun w => option_map (fun iw => (iw_tx iw, iw_idx iw)) (unmarshal_index_wrapper w)) ws
        = [Some (btx_tx ex_btx1, [2]); Some (btx_tx ex_btx2, [8; 4])] /\
      firstn 2 (skipn 2 sq) = blob_spec ex_blob_a /\
      firstn 5 (skipn 8 sq) = blob_spec ex_blob_b /\
      firstn 2 (skipn 4 sq) = blob_spec ex_blob_a /\
      map (fun p => blob_share_range ex_raws (fst p) (snd p) 4 1) [(2, 0); (3, 0); (3, 1); (3, 2); (1, 0)]%Z
        = [Ok (2, 4); Ok (8, 13); Ok (4, 6); Err; Err] /\
      map (fun e => (lb_pfb e, lb_j e, lb_n e, lb_index e)) (lay_placed 1 ex_normals [ex_btx1; ex_btx2])
        = [(0, 0, 2, 2); (1, 1, 2, 4); (1, 0, 5, 8)] /\
      map (fun b => subtree_width (blob_share_count b) 1) [ex_blob_a; ex_blob_b] = [2; 4]
    | _ => False
    end
  | _ => False
  end.
Proof. vm_compute. repeat split; reflexivity. Qed.
