package main

// Generators and oracles for C16 (decoders are total) and C19 (serialisations).

import (
	"bytes"
	"encoding/base64"
	"encoding/binary"
	"encoding/json"
	"fmt"
	"math"
	"sort"
	v1 "github.com/celestiaorg/go-square/v2/proto/blob/v1"
	"strconv"
	"strings"

	square "github.com/celestiaorg/go-square/v2"
	"github.com/celestiaorg/go-square/v2/share"
	"github.com/celestiaorg/go-square/v2/tx"
)

func init() {
	generators["C16"] = genC16
	generators["C19"] = genC19
}

// field encoders for hand-made protobuf inputs
func pbTag(num, typ int) []byte { return uvarint(uint64(num<<3 | typ)) }
func pbBytes(num int, b []byte) []byte {
	return append(append(pbTag(num, 2), uvarint(uint64(len(b)))...), b...)
}
func pbVarint(num int, v uint64) []byte { return append(pbTag(num, 0), uvarint(v)...) }

// overlong varint: same value with k extra continuation bytes
func overlong(v uint64, extra int) []byte {
	b := uvarint(v)
	b[len(b)-1] |= 0x80
	for i := 0; i < extra-1; i++ {
		b = append(b, 0x80)
	}
	return append(b, 0x00)
}

func mutateBytes(r *Rng, b []byte) []byte {
	out := append([]byte{}, b...)
	switch r.Intn(8) {
	case 0: // truncate
		if len(out) > 0 {
			out = out[:r.Intn(len(out))]
		}
	case 1: // bit flip(s)
		for k := 0; k < 1+r.Intn(3) && len(out) > 0; k++ {
			out[r.Intn(len(out))] ^= 1 << uint(r.Intn(8))
		}
	case 2: // duplicate a slice
		if len(out) > 2 {
			a := r.Intn(len(out))
			e := a + r.Intn(len(out)-a)
			out = append(out[:e], append(append([]byte{}, out[a:e]...), out[e:]...)...)
		}
	case 3: // append an unknown field
		switch r.Intn(5) {
		case 0:
			out = append(out, pbVarint(9+r.Intn(3000), r.U64())...)
		case 1:
			out = append(out, pbBytes(7+r.Intn(100), r.Bytes(r.Intn(20)))...)
		case 2:
			out = append(out, append(pbTag(6+r.Intn(9), 5), r.Bytes(4)...)...)
		case 3:
			out = append(out, append(pbTag(6+r.Intn(9), 1), r.Bytes(8)...)...)
		case 4: // group with content
			g := 10 + r.Intn(5)
			out = append(out, pbTag(g, 3)...)
			out = append(out, pbVarint(1, 5)...)
			if r.Bool(30) {
				out = append(out, pbTag(g+1, 3)...)
				out = append(out, pbTag(g+1, 4)...)
			}
			if r.Bool(80) {
				out = append(out, pbTag(g, 4)...)
			}
		}
	case 4: // prepend a field with the wrong wire type for a known number
		num := 1 + r.Intn(5)
		switch r.Intn(4) {
		case 0:
			out = append(pbVarint(num, r.U64()), out...)
		case 1:
			out = append(pbBytes(num, r.Bytes(r.Intn(12))), out...)
		case 2:
			out = append(append(pbTag(num, 5), r.Bytes(4)...), out...)
		case 3:
			out = append(append(pbTag(num, 1), r.Bytes(8)...), out...)
		}
	case 5: // overwrite a byte with a special value
		if len(out) > 0 {
			out[r.Intn(len(out))] = byte([]int{0, 0x80, 0xff, 0x7f, 0x0b, 0x0c, 0x1a, 0x12}[r.Intn(8)])
		}
	case 6: // insert random bytes
		pos := r.Intn(len(out) + 1)
		out = append(out[:pos], append(r.Bytes(1+r.Intn(4)), out[pos:]...)...)
	case 7: // overlong varint field / field number 0 / huge field number
		switch r.Intn(3) {
		case 0:
			out = append(out, append(pbTag(3, 0), overlong(uint64(r.Intn(300)), 1+r.Intn(9))...)...)
		case 1:
			out = append(out, 0x00, 0x01)
		case 2:
			out = append(out, append(uvarint(uint64(1<<29+r.Intn(1<<20))<<3), 0x01)...)
		}
	}
	return out
}

// protoEdgeCorpus: wire-format corner cases around the three messages (all on the decoder side): nested groups,
// large field numbers inside groups, huge declared lengths, varints that only truncate to a valid uint32,
// packed values beyond 32 bits, an empty packed field, an explicit empty signer / data / namespace.
func protoEdgeCorpus(r *Rng) [][]byte {
	goodID := append(make([]byte, 18), r.Bytes(10)...)
	blob := func(extra ...[]byte) []byte {
		b := append(pbBytes(1, goodID), pbBytes(2, []byte{1, 2, 3})...)
		for _, e := range extra {
			b = append(b, e...)
		}
		return b
	}
	grp := func(num int, inner []byte) []byte { return append(append(pbTag(num, 3), inner...), pbTag(num, 4)...) }
	var out [][]byte
	add := func(b []byte) { out = append(out, b) }
	// BlobProto
	add(blob(pbBytes(5, nil)))                                    // explicit empty signer: 2a 00
	add(blob(pbVarint(3, 1), pbBytes(5, nil)))                    // version 1 with an empty signer
	add(blob(pbVarint(3, 1<<32)))                                 // share version 2^32 -> 0
	add(blob(pbVarint(3, 1<<32+1), pbBytes(5, make([]byte, 20)))) // share version 2^32+1 -> 1, with signer
	add(blob(pbVarint(4, 1<<32)))                                 // namespace version 2^32 -> 0
	add(blob(pbVarint(4, 1<<32+255)))                             // -> 255
	add(blob(grp(9, grp(10, grp(11, pbVarint(1, 5))))))           // unknown nested groups, depth 3
	add(blob(grp(9, pbVarint(1<<29, 1))))                         // field number 2^29 inside a group
	add(blob(grp(9, pbVarint(1<<28, 1))))
	add(blob(append(pbTag(9, 3), pbTag(10, 4)...))) // mismatched end group
	add(blob(pbTag(9, 3)))                          // unclosed group
	add(append(pbTag(2, 2), uvarint(1<<31)...))     // declared length 2^31, no data
	add(append(blob(), append(pbTag(7, 2), uvarint(1<<63)...)...))
	add(append(pbBytes(1, nil), pbBytes(2, nil)...)) // explicit empty namespace id and data
	add(blob(pbVarint(1<<29-1, 0)))                  // largest legal field number
	add(blob(uvarint(uint64(1<<32) << 3)))           // field number 2^29 at top level
	add(blob(pbTag(6, 6)))                           // wire type 6
	// IndexWrapper
	iw := func(extra ...[]byte) []byte {
		b := pbBytes(1, []byte("tx bytes"))
		for _, e := range extra {
			b = append(b, e...)
		}
		return append(b, pbBytes(3, []byte("INDX"))...)
	}
	add(iw(pbBytes(2, nil)))                                                                            // empty packed field: 12 00
	add(iw(pbBytes(2, append(uvarint(1<<32), uvarint(1<<32+7)...))))                                    // packed values >= 2^32
	add(iw(pbVarint(2, 1<<32+9), pbBytes(2, uvarint(3))))                                               // unpacked >= 2^32, then packed
	add(iw(pbBytes(2, []byte{0x80})))                                                                   // truncated varint inside packed
	add(iw(pbBytes(2, append(uvarint(5), 0x80, 0x80, 0x80, 0x80, 0x80, 0x80, 0x80, 0x80, 0x80, 0x02)))) // 10-byte varint with a high last byte
	add(iw(grp(12, grp(12, pbBytes(1, []byte("x"))))))
	// BlobTx
	btx := func(blobs [][]byte, extra ...[]byte) []byte {
		b := pbBytes(1, []byte("inner"))
		for _, bl := range blobs {
			b = append(b, pbBytes(2, bl)...)
		}
		for _, e := range extra {
			b = append(b, e...)
		}
		return append(b, pbBytes(3, []byte("BLOB"))...)
	}
	add(btx([][]byte{blob(pbBytes(5, nil))}))
	add(btx([][]byte{blob(), blob(pbVarint(3, 1<<32))}))
	add(btx([][]byte{blob()}, grp(8, grp(8, grp(8, nil)))))
	add(btx([][]byte{blob()}, pbBytes(3, []byte("BLO\xff"))))
	add(btx(nil))
	add(btx([][]byte{nil}))
	return out
}

func validEncodings(r *Rng) [][]byte {
	nss := blobNamespaces(r, 2)
	var out [][]byte
	g := randBlob(r, nss, 300)
	bm, _ := g.blob().Marshal()
	out = append(out, bm)
	out = append(out, blobTxOf(r, []genBlob{g, randBlob(r, nss, 100)}))
	iw, _ := tx.MarshalIndexWrapper(r.Bytes(r.Intn(40)), uint32(r.Intn(100000)), uint32(r.Intn(300)), 0)
	out = append(out, iw)
	// unpacked repeated uint32 and reordered fields
	hand := append(pbBytes(3, []byte("INDX")), pbVarint(2, uint64(r.Intn(1<<20)))...)
	hand = append(hand, pbBytes(2, append(uvarint(7), uvarint(300000)...))...)
	hand = append(hand, pbBytes(1, r.Bytes(5))...)
	out = append(out, hand)
	// two type ids, invalid utf-8 type id
	out = append(out, append(pbBytes(3, []byte("BLOB")), pbBytes(3, []byte("INDX"))...))
	out = append(out, pbBytes(3, []byte{0xff, 0xfe}))
	out = append(out, append(pbBytes(3, []byte{0xe2, 0x82, 0xac, 0xf0, 0x9f, 0x98, 0x80}), pbBytes(1, []byte{1})...))
	out = append(out, pbBytes(3, []byte{0xed, 0xa0, 0x80})) // surrogate
	out = append(out, pbBytes(3, []byte{0xc0, 0x80}))       // overlong
	return out
}

func mutateSquare(r *Rng, raws [][]byte) [][]byte {
	out := make([][]byte, len(raws))
	for i := range raws {
		out[i] = append([]byte{}, raws[i]...)
	}
	if len(out) == 0 {
		return out
	}
	for k := 0; k < 1+r.Intn(4); k++ {
		i := r.Intn(len(out))
		switch r.Intn(9) {
		case 0:
			out[i][29] = byte(r.Intn(256))
		case 1:
			out[i][29] = byte(r.Intn(4))
		case 2:
			binary.BigEndian.PutUint32(out[i][30:34], uint32(r.U64()>>uint(32+r.Intn(32))))
		case 3:
			off := 30
			if out[i][29]&1 == 1 {
				off = 34
			}
			binary.BigEndian.PutUint32(out[i][off:off+4], pick(r, []uint32{0, 1, 37, 38, 100, 511, 512, 1 << 20}))
		case 4:
			out[i][r.Intn(512)] ^= 1 << uint(r.Intn(8))
		case 5:
			j := r.Intn(len(out))
			out[i], out[j] = out[j], out[i]
		case 6:
			out = out[:1+r.Intn(len(out))]
		case 7: // duplicate a share
			out = append(out[:i+1], append([][]byte{append([]byte{}, out[i]...)}, out[i+1:]...)...)
		case 8: // rewrite the namespace with that of another share
			j := r.Intn(len(out))
			copy(out[i][:29], out[j][:29])
		}
	}
	return out
}

// corruptIndexes rebuilds the PFB sequence of a square with altered share indexes / blob sizes.
// forcedCorruption: when >= 0, the kind of corruption corruptIndexes applies to every wrapped PFB
var forcedCorruption = -1

func corruptIndexes(r *Rng, sq square.Square) [][]byte {
	raws := copyShares(sq)
	wpfbs, err := sq.WrappedPFBs()
	if err != nil || len(wpfbs) == 0 {
		return raws
	}
	var mod [][]byte
	for _, w := range wpfbs {
		iw, ok := tx.UnmarshalIndexWrapper(w)
		if !ok {
			mod = append(mod, w)
			continue
		}
		idx := append([]uint32{}, iw.ShareIndexes...)
		inner := append([]byte{}, iw.Tx...)
		kind := r.Intn(7)
		if forcedCorruption >= 0 {
			kind = forcedCorruption
		}
		switch kind {
		case 6:
			// a declared blob size of ZERO (a blob that needs no share) with its index at / one before / one
			// past the END of the square (len(s) itself is not a valid index)
			idx[0] = uint32(len(raws) - 1 + r.Intn(3))
			if r.Bool(50) {
				idx[0] = uint32(len(raws))
			}
			if len(inner) >= mockPFBExtraBytes+4 {
				binary.BigEndian.PutUint32(inner[mockPFBExtraBytes:], 0)
			}
		case 5:
			// index pointing at a compact sequence start (share 0 or the first PFB share) with a declared blob
			// size just below / at / above what a sparse first share holds (474..479)
			rgp := share.GetShareRangeForNamespace(sq, share.PayForBlobNamespace)
			idx[0] = uint32([]int{0, rgp.Start}[r.Intn(2)])
			if len(inner) >= mockPFBExtraBytes+4 {
				binary.BigEndian.PutUint32(inner[mockPFBExtraBytes:], uint32(474+r.Intn(6)))
			}
		case 0:
			idx[r.Intn(len(idx))] = uint32(r.Intn(3 * len(raws)))
		case 1:
			idx[r.Intn(len(idx))] = uint32(r.U64())
		case 2:
			idx = append(idx, uint32(r.Intn(len(raws))))
		case 3:
			if len(inner) >= mockPFBExtraBytes+4 {
				binary.BigEndian.PutUint32(inner[mockPFBExtraBytes:], uint32(r.U64()>>uint(32+r.Intn(32))))
			}
		case 4:
			idx = idx[:len(idx)-1]
		}
		mod = append(mod, refIndexWrapper(inner, idx))
	}
	pfbShares, _ := refCompact(pfbNs, mod)
	rg := share.GetShareRangeForNamespace(sq, share.PayForBlobNamespace)
	out := append([][]byte{}, raws[:rg.Start]...)
	out = append(out, pfbShares...)
	out = append(out, raws[rg.End:]...)
	return out
}

func genC16(c *Ctx) {
	c.rule = "malformed stream: valid small squares with 1-4 mutations (info byte, sequence length, reserved bytes, bit flips, swaps, truncation, duplicated shares, foreign namespaces, re-marshalled wrapped PFBs with corrupted share indexes / blob sizes) through Deconstruct, WrappedPFBs, ParseShares, ParseTxs, ParseBlobs, RawData; byte strings (random, mutated BlobTx/IndexWrapper/BlobProto encodings, unknown/re-typed/duplicated fields, groups, over-long varints, invalid UTF-8) through the three decoders and parseDelimiter; oracle: no panic; non-trivial = distinct mutated input"
	c.faultIsFinding = true
	r := c.rng
	// squares
	for i := 0; i < 170*c.scale; i++ {
		s := randSquareCase(c, r, true, false)
		if s.max > 8 {
			s.max = 8
		}
		_, kept, err := keptCase(s)
		if err != nil {
			continue
		}
		sq, err := square.Construct(kept, s.max, s.thr)
		if err != nil || len(sq) > 64 {
			continue
		}
		var raws [][]byte
		if i%14 == 9 {
			forcedCorruption = 6 // zero blob size, index at the end of the square
			raws = corruptIndexes(r, sq)
			forcedCorruption = -1
			c.count("mut_pfb_zero_size_index_at_end")
		} else if r.Bool(35) {
			raws = corruptIndexes(r, sq)
			c.count("mut_pfb_indexes")
		} else {
			raws = mutateSquare(r, copyShares(sq))
			c.count("mut_shares")
		}
		h := joinHexList(raws)
		c.add("deconstruct", h)
		c.add("wrappedpfbs", h)
		c.add("parseshares", strconv.Itoa(r.Intn(2)), h)
		c.add("parseblobs", h)
		c.add("parsetxs", h)
		if len(raws) > 2 {
			lo := r.Intn(len(raws))
			hi := lo + 1 + r.Intn(len(raws)-lo)
			c.add("parsetxs", joinHexList(raws[lo:hi]))
			c.add("parseblobs", joinHexList(raws[lo:hi]))
		}
		for k := 0; k < 2 && len(raws) > 0; k++ {
			c.add("shinfo", hx(raws[r.Intn(len(raws))]))
		}
		c.mark(fmt.Sprintf("sq%d", i))
	}
	// squares cut exactly at / one share before the end of a blob: the last blob (highest namespace) is share
	// version 0 or 1 with a data length in the 20 bytes below a share boundary, where the signer decides the
	// share count; every prefix of the square that ends inside or at the end of that blob
	for i := 0; i < 24*c.scale; i++ {
		nss := blobNamespaces(r, 2)
		k := 1 + r.Intn(3)
		dl := 478 + 482*(k-1) - r.Intn(21)
		ver := uint8(i % 2)
		last := genBlob{ns: nss[len(nss)-1], ver: ver, data: r.Bytes(dl)}
		if ver == 1 {
			last.signer = randSigner(r)
		}
		for j := range nss[:len(nss)-1] {
			if bytes.Compare(nss[j], last.ns) > 0 {
				last.ns = nss[j]
			}
		}
		var l [][]byte
		if r.Bool(50) {
			l = append(l, r.Bytes(1+r.Intn(300)))
		}
		bl := []genBlob{last}
		l = append(l, blobTxOf(r, bl))
		sq, err := square.Construct(l, 8, 64)
		if err != nil {
			continue
		}
		raws := copyShares(sq)
		// the blob is the last non-tail-padding content: find its end
		end := len(raws)
		for end > 0 && bytes.Equal(raws[end-1][:29], tailNs) {
			end--
		}
		for cut := end; cut >= end-2 && cut >= 1; cut-- {
			h := joinHexList(raws[:cut])
			c.add("deconstruct", h)
			c.add("parseshares", "0", h)
			c.add("parseblobs", h)
		}
		c.count(fmt.Sprintf("cut_at_blob_end_v%d", ver))
		c.mark(fmt.Sprintf("cut v%d len %d", ver, dl))
	}
	// single crafted shares with extreme sequence lengths
	for i := 0; i < 160*c.scale; i++ {
		ns := pick(r, [][]byte{txNs, pfbNs, blobNamespaces(r, 1)[0], tailNs, prpNs})
		raw := craftShare(r, ns, byte(r.Intn(4)), pick(r, []uint32{0, 38, 100, 600}))
		if raw[29]&1 == 1 {
			// around every payload capacity a sequence-start share can have: 454 (compact, version 1 accessor),
			// 458 (sparse version 1), 474 (compact), 478 (sparse)
			binary.BigEndian.PutUint32(raw[30:34], pick(r, []uint32{0, 1, 400, 453, 454, 455, 457, 458, 459, 470, 473, 474, 475, 477, 478, 479, 100000, 1<<32 - 1, 1<<32 - 20, 1<<32 - 21}))
		}
		c.add("parseblobs", hx(raw))
		c.add("parsetxs", hx(raw))
		c.add("parseshares", "0", hx(raw))
		c.mark("craft" + hx(raw[:40]))
	}
	// compact shares whose payload starts with extreme unit length delimiters
	for i := 0; i < 40*c.scale; i++ {
		ns := pick(r, [][]byte{txNs, pfbNs})
		start := r.Bool(70)
		info := byte(0)
		hdr := 34
		if start {
			info = 1
			hdr = 38
		}
		raw := r.Bytes(512)
		copy(raw, ns)
		raw[29] = info
		if start {
			binary.BigEndian.PutUint32(raw[30:34], uint32(pick(r, []int{0, 10, 474, 100000})))
		}
		off := hdr + r.Intn(3)*7
		binary.BigEndian.PutUint32(raw[hdr-4:hdr], uint32(off))
		v := pick(r, []uint64{1 << 63, 1<<63 - 1, 1<<64 - 1, 1 << 62, 1 << 32, 1<<32 - 1, 1 << 31, 600, 474, 473, uint64(512 - off), uint64(512 - off - 1), 0})
		d := uvarint(v)
		if r.Bool(15) {
			d = overlong(v&0xffff, 1+r.Intn(9))
		}
		copy(raw[off:], d)
		c.add("parsetxs", hx(raw))
		if r.Bool(50) {
			cont := r.Bytes(512)
			copy(cont, ns)
			cont[29] = 0
			binary.BigEndian.PutUint32(cont[30:34], uint32(pick(r, []int{0, 34, 40, 511, 512})))
			c.add("parsetxs", hx(raw)+","+hx(cont))
		}
		c.mark("delim" + hx(raw[:60]))
	}
	// compact shares whose first unit declares a length within 10 of 2^64 (a length check that adds the prefix
	// length wraps around), for both compact namespaces, as first and as continuation share
	for _, ln := range []uint64{1<<64 - 1, 1<<64 - 2, 1<<64 - 4, 1<<64 - 10, 1<<64 - 11, 1 << 63, 1<<63 - 1} {
		for _, ns := range [][]byte{txNs, pfbNs} {
			for _, start := range []bool{true, false} {
				sh := append([]byte{}, ns...)
				if start {
					sh = append(sh, 1, 0, 0, 0, 100, 0, 0, 0, 38)
				} else {
					sh = append(sh, 0, 0, 0, 0, 34)
				}
				sh = append(sh, uvarint(ln)...)
				sh = append(sh, r.Bytes(512-len(sh))...)
				h := hx(sh)
				c.add("parsetxs", h)
				c.add("deconstruct", h)
				c.add("wrappedpfbs", h)
				c.count("unit_length_near_2^64")
			}
		}
	}
	// byte strings
	for _, b := range protoEdgeCorpus(r) {
		c.add("btxunmarshal", hx(b))
		c.add("iwunmarshal", hx(b))
		c.add("blobunmarshal", hx(b))
		c.count("proto_edge_corpus")
	}
	for i := 0; i < 500*c.scale; i++ {
		var b []byte
		switch r.Intn(4) {
		case 0:
			b = r.Bytes(r.Intn(24))
			c.count("bytes_random")
		default:
			b = pick(r, validEncodings(r))
			for k := 0; k < r.Intn(3); k++ {
				b = mutateBytes(r, b)
			}
			c.count("bytes_mutated")
		}
		c.add("btxunmarshal", hx(b))
		c.add("iwunmarshal", hx(b))
		c.add("blobunmarshal", hx(b))
		c.add("parsedelim", hx(b[:min(len(b), 14)]))
		c.mark(hx(b))
	}
}

// ---- C19 ----

type jsonBlob struct {
	NamespaceID      *string `json:"namespace_id,omitempty"`
	Data             *string `json:"data,omitempty"`
	ShareVersion     *uint64 `json:"share_version,omitempty"`
	NamespaceVersion *uint64 `json:"namespace_version,omitempty"`
	Signer           *string `json:"signer,omitempty"`
}

func genC19(c *Ctx) {
	c.rule = "round trips of valid blobs / blob txs / index wrappers (protobuf, exact bytes compared with the model) and blobs / shares / namespaces (JSON, Go side); cross recognition; acceptance on the product {namespace version} x {id length / prefix} x {data length} x {share version} x {signer} through NewBlob, protobuf and JSON; decoder inputs with reordered, duplicated, unknown and re-typed fields; non-trivial = distinct value or distinct acceptance tuple"
	r := c.rng
	nss := blobNamespaces(r, 4)
	// round trips
	var reusedBlob share.Blob // ONE receiver decoded into again and again (version 1 then version 0, ...)
	var reusedNs share.Namespace
	for i := 0; i < 120*c.scale; i++ {
		g := randBlob(r, nss, 2000)
		if i%2 == 1 {
			g.ver, g.signer = 0, nil
		} else if i%4 == 0 {
			g.ver, g.signer = 1, randSigner(r)
		}
		b := g.blob()
		wit := map[string]any{"blob": fmt.Sprintf("v%d len %d", g.ver, len(g.data))}
		enc, err := b.Marshal()
		c.add("blobmarshal", g.spec())
		if c.check(err == nil, "Blob.Marshal", "error", wit) {
			c.add("blobunmarshal", hx(enc))
			back, err := share.UnmarshalBlob(enc)
			c.check(err == nil && showBlob(back) == showBlob(b), "UnmarshalBlob", "protobuf round trip differs", wit)
		}
		js, err := b.MarshalJSON()
		if c.check(err == nil, "Blob.MarshalJSON", "error", wit) {
			var back share.Blob
			err := back.UnmarshalJSON(js)
			c.check(err == nil && showBlob(&back) == showBlob(b), "Blob.UnmarshalJSON", "JSON round trip differs", wit)
			// the same text decoded into a receiver that already holds the previous blob
			err = json.Unmarshal(js, &reusedBlob)
			c.check(err == nil && showBlob(&reusedBlob) == showBlob(b), "Blob.UnmarshalJSON", "decoding into a receiver that already holds another blob does not give the encoded blob", wit)
			if nj, err := json.Marshal(b.Namespace()); err == nil {
				err = json.Unmarshal(nj, &reusedNs)
				c.check(err == nil && bytes.Equal(reusedNs.Bytes(), g.ns), "Namespace.UnmarshalJSON", "decoding into a used receiver differs", wit)
			}
			// field by field through a generic JSON object
			var obj map[string]any
			_ = json.Unmarshal(js, &obj)
			dec := func(k string) []byte {
				s, _ := obj[k].(string)
				d, _ := base64.StdEncoding.DecodeString(s)
				return d
			}
			sv, _ := obj["share_version"].(float64)
			c.check(bytes.Equal(dec("namespace_id"), g.ns[1:]) && bytes.Equal(dec("data"), g.data) && uint8(sv) == g.ver && bytes.Equal(dec("signer"), g.signer),
				"Blob.MarshalJSON", "fields differ from the blob", wit)
		}
		c.mark(g.spec()[:60])
		// blob tx
		k := 1 + r.Intn(3)
		blobs := []genBlob{g}
		for j := 1; j < k; j++ {
			blobs = append(blobs, randBlob(r, nss, 600))
		}
		inner := r.Bytes(r.Intn(80))
		switch r.Intn(8) {
		case 0: // payloads that contain the type ids themselves
			inner = append(append(r.Bytes(r.Intn(20)), []byte("BLOB")...), r.Bytes(r.Intn(20))...)
		case 1:
			inner = append(append(r.Bytes(r.Intn(20)), []byte("INDX")...), r.Bytes(r.Intn(20))...)
		case 2: // a marshalled blob transaction / index wrapper nested as the inner transaction
			if nb, err := tx.MarshalBlobTx(r.Bytes(10), blobs[0].blob()); err == nil {
				inner = nb
			}
		case 3:
			if nw, err := tx.MarshalIndexWrapper(r.Bytes(10), 7, 70000); err == nil {
				inner = nw
			}
		case 4, 5:
			// the OTHER message's type id inside a blob's data (ASCII text, so that the bytes also happen to
			// parse as a packed run of small varints): recognition must go by the decoded type id field,
			// not by what the bytes contain
			blobs = blobs[:1]
			blobs[0].ver, blobs[0].signer = 0, nil
			blobs[0].ns = append(make([]byte, 19), []byte("namespace!")...)
			blobs[0].data = []byte("ref=INDX-" + strconv.Itoa(r.Intn(10000)) + ";kind=BLOB;amount=17")
			inner = []byte("memo: INDX or BLOB, plain ascii " + strconv.Itoa(i))
			c.count("type_id_inside_ascii_blob_data")
		}
		specs := make([]string, len(blobs))
		bl := make([]*share.Blob, len(blobs))
		for j, x := range blobs {
			specs[j] = x.spec()
			bl[j] = x.blob()
		}
		c.add("btxmarshal", hx(inner), strings.Join(specs, ","))
		btx, err := tx.MarshalBlobTx(inner, bl...)
		if c.check(err == nil, "MarshalBlobTx", "error", wit) {
			c.add("btxunmarshal", hx(btx))
			c.add("iwunmarshal", hx(btx))
			dec, isBlob, err := tx.UnmarshalBlobTx(btx)
			ok := err == nil && isBlob && bytes.Equal(dec.Tx, inner) && len(dec.Blobs) == len(bl)
			if ok {
				for j := range bl {
					if showBlob(dec.Blobs[j]) != showBlob(bl[j]) {
						ok = false
					}
				}
			}
			c.check(ok, "UnmarshalBlobTx", "round trip differs", wit)
			_, isIW := tx.UnmarshalIndexWrapper(btx)
			c.check(!isIW, "UnmarshalIndexWrapper", "recognised a blob transaction as an index wrapper", wit)
		}
		// index wrapper (the degenerate ones too: no inner transaction and / or no indexes)
		n := r.Intn(5)
		switch i {
		case 3:
			inner, n = nil, 0
		case 4:
			inner, n = []byte{}, 1
		case 5:
			n = 0
		case 6:
			inner, n = []byte{}, 0
		}
		// shapes of the index list (the round trip is over ALL lists, not only the ones a built square records):
		// repeated values (adjacent, everywhere, at a distance), sorted both ways, all zero, maximal, long
		shape := -1
		if i > 6 && i%2 == 0 {
			shape = (i / 2) % 8
			if n < 2 {
				n = 2 + r.Intn(4)
			}
			if shape == 7 {
				n = 64 + r.Intn(80)
			}
		}
		idx := make([]uint32, n)
		for j := range idx {
			idx[j] = uint32(r.U64() >> uint(32+r.Intn(32)))
		}
		switch shape {
		case 0: // all equal (what the builder's worst-case wrapper looks like)
			for j := range idx {
				idx[j] = idx[0]
			}
		case 1: // one adjacent repeat
			j := 1 + r.Intn(n-1)
			idx[j] = idx[j-1]
		case 2: // a repeat at a distance
			idx[n-1] = idx[0]
		case 3:
			sort.Slice(idx, func(a, b int) bool { return idx[a] < idx[b] })
		case 4:
			sort.Slice(idx, func(a, b int) bool { return idx[a] > idx[b] })
		case 5:
			for j := range idx {
				idx[j] = 0
			}
		case 6:
			for j := range idx {
				idx[j] = math.MaxUint32 - uint32(j%2)
			}
		case 7: // long list of multi-byte values: packed payload >= 128 bytes
			for j := range idx {
				idx[j] = 128 + uint32(r.Intn(20000))
			}
		}
		if shape >= 0 {
			c.count(fmt.Sprintf("index_list_shape_%d", shape))
		}
		parts := make([]string, n)
		for j := range idx {
			parts[j] = strconv.FormatUint(uint64(idx[j]), 10)
		}
		c.add("iwmarshal", hx(inner), strings.Join(parts, ","))
		iwb, err := tx.MarshalIndexWrapper(inner, idx...)
		if c.check(err == nil, "MarshalIndexWrapper", "error", wit) {
			c.add("iwunmarshal", hx(iwb))
			c.add("btxunmarshal", hx(iwb))
			dec, ok := tx.UnmarshalIndexWrapper(iwb)
			same := ok && bytes.Equal(dec.Tx, inner) && len(dec.ShareIndexes) == len(idx)
			if same {
				for j := range idx {
					if dec.ShareIndexes[j] != idx[j] {
						same = false
					}
				}
			}
			c.check(same, "UnmarshalIndexWrapper", "round trip differs", wit)
			_, isBlob, _ := tx.UnmarshalBlobTx(iwb)
			c.check(!isBlob, "UnmarshalBlobTx", "recognised an index wrapper as a blob transaction", wit)
		}
		// share and namespace JSON
		shs, _ := b.ToShares()
		sj, err := json.Marshal(shs[0])
		var sback share.Share
		c.check(err == nil && json.Unmarshal(sj, &sback) == nil && bytes.Equal(sback.ToBytes(), shs[0].ToBytes()), "Share JSON", "round trip differs", wit)
		nj, err := json.Marshal(b.Namespace())
		var nback share.Namespace
		c.check(err == nil && json.Unmarshal(nj, &nback) == nil && bytes.Equal(nback.Bytes(), g.ns), "Namespace JSON", "round trip differs", wit)
		// the SAME values in JSON texts another encoder may write: `/` as `\/`, `+` as `\u002b`, and the first
		// character as a \u escape (valid JSON strings for the same base64 text), for a share and a namespace whose
		// base64 text contains `/` and `+` (0xfb 0xff bytes)
		{
			esc := func(j []byte) []byte {
				t := strings.ReplaceAll(strings.ReplaceAll(string(j), "/", `\/`), "+", `\u002b`)
				if len(t) > 2 && t[0] == '"' && t[1] != '\\' {
					t = `"` + fmt.Sprintf(`\u%04x`, t[1]) + t[2:]
				}
				return []byte(t)
			}
			raw := shs[0].ToBytes()
			for k := 40; k < 100 && k < len(raw); k++ {
				raw[k] = []byte{0xfb, 0xff, 0xfe}[k%3]
			}
			if sh2, err := share.NewShare(raw); err == nil {
				j2, err := json.Marshal(*sh2)
				var back share.Share
				c.check(err == nil && json.Unmarshal(esc(j2), &back) == nil && bytes.Equal(back.ToBytes(), raw), "Share JSON", "a valid JSON text of the same share written with escapes is refused or decodes differently", wit)
			}
			nsRaw := append([]byte{}, g.ns...)
			nsRaw[27], nsRaw[28] = 0xfb, 0xff
			if ns2, err := share.NewNamespaceFromBytes(nsRaw); err == nil {
				j2, err := json.Marshal(ns2)
				var back share.Namespace
				c.check(err == nil && json.Unmarshal(esc(j2), &back) == nil && bytes.Equal(back.Bytes(), nsRaw), "Namespace JSON", "a valid JSON text of the same namespace written with escapes is refused or decodes differently", wit)
			}
			bj, err := json.Marshal(b)
			var bback share.Blob
			c.check(err == nil && json.Unmarshal(esc(bj), &bback) == nil && bytes.Equal(bback.Data(), b.Data()), "Blob JSON", "a valid JSON text of the same blob written with escapes is refused or decodes differently", wit)
			c.count("json_text_with_escapes")
		}
	}
	// acceptance product
	type idCase struct {
		name string
		id   []byte
	}
	goodID := append(make([]byte, 18), r.Bytes(10)...)
	badPrefix := append([]byte{}, goodID...)
	badPrefix[3] = 1
	ids := []idCase{{"good", goodID}, {"len0", nil}, {"len27", goodID[:27]}, {"len29", append(append([]byte{}, goodID...), 1)}, {"badprefix", badPrefix}}
	for _, nsv := range []uint64{0, 1, 255, 256} {
		for _, id := range ids {
			for _, dl := range []int{0, 1} {
				for _, sv := range []uint64{0, 1, 2, 127, 128, 255, 256, 1<<32 - 1} {
					for _, sl := range []int{-1, 19, 20, 21} {
						var signer []byte
						if sl >= 0 {
							signer = bytes.Repeat([]byte{5}, sl)
						}
						data := bytes.Repeat([]byte{7}, dl)
						want := nsv == 0 && id.name == "good" && dl == 1 && ((sv == 0 && signer == nil) || (sv == 1 && len(signer) == 20))
						wit := map[string]any{"ns_version": nsv, "id": id.name, "data_len": dl, "share_version": sv, "signer_len": sl}
						c.mark(fmt.Sprint(nsv, id.name, dl, sv, sl))
						// protobuf constructor (model compared)
						c.add("blobfromproto", hx(id.id), hx(data), strconv.FormatUint(sv, 10), strconv.FormatUint(nsv, 10), hx(signer))
						got := safeExec("blobfromproto", []string{hx(id.id), hx(data), strconv.FormatUint(sv, 10), strconv.FormatUint(nsv, 10), hx(signer)})
						c.check(strings.HasPrefix(got, "ok:") == want, "NewBlobFromProto", "does not accept exactly the valid combinations", wit)
						// through the wire
						enc := append(pbBytes(1, id.id), pbBytes(2, data)...)
						if len(id.id) == 0 {
							enc = pbBytes(2, data)
						}
						if dl == 0 {
							enc = pbBytes(1, id.id)
							if len(id.id) == 0 {
								enc = nil
							}
						}
						if sv != 0 {
							enc = append(enc, pbVarint(3, sv)...)
						}
						if nsv != 0 {
							enc = append(enc, pbVarint(4, nsv)...)
						}
						if len(signer) > 0 {
							enc = append(enc, pbBytes(5, signer)...)
						}
						c.add("blobunmarshal", hx(enc))
						_, err := share.UnmarshalBlob(enc)
						c.check((err == nil) == want, "UnmarshalBlob", "does not accept exactly the valid combinations", wit)
						// through the wire of a blob TRANSACTION, as a later blob behind a valid one with the SAME
						// namespace id (whatever is remembered from the previous blob must not validate this one)
						{
							validFirst := append(pbBytes(1, goodID), pbBytes(2, []byte{9})...)
							btxEnc := append(pbBytes(1, []byte("inner tx")), pbBytes(2, validFirst)...)
							btxEnc = append(btxEnc, pbBytes(2, enc)...)
							btxEnc = append(btxEnc, pbBytes(3, []byte("BLOB"))...)
							c.add("btxunmarshal", hx(btxEnc))
							_, _, berr := tx.UnmarshalBlobTx(btxEnc)
							c.check((berr == nil) == want, "UnmarshalBlobTx", "a later blob of a blob transaction is not accepted exactly when it is a valid combination", wit)
						}
						// JSON constructor (Go side only)
						jb := jsonBlob{}
						if id.id != nil {
							s := base64.StdEncoding.EncodeToString(id.id)
							jb.NamespaceID = &s
						}
						if dl > 0 {
							s := base64.StdEncoding.EncodeToString(data)
							jb.Data = &s
						}
						svv, nsvv := sv, nsv
						jb.ShareVersion = &svv
						jb.NamespaceVersion = &nsvv
						if signer != nil {
							s := base64.StdEncoding.EncodeToString(signer)
							jb.Signer = &s
						}
						js, _ := json.Marshal(jb)
						var jback share.Blob
						err = jback.UnmarshalJSON(js)
						c.check((err == nil) == want, "Blob.UnmarshalJSON", "does not accept exactly the valid combinations", wit)
						// direct constructor: only constructible namespaces (valid version-0 id, or the zero Namespace)
						if nsv == 0 && (id.name == "good" || id.name == "len0") && sv < 256 {
							var nsb []byte
							if id.name == "good" {
								nsb = append([]byte{0}, id.id...)
							}
							sg := "nil"
							if signer != nil {
								sg = hx(signer)
							}
							c.add("blobnew", hx(nsb), hx(data), strconv.FormatUint(sv, 10), sg)
							_, err := share.NewBlob(nsOf(nsb), data, uint8(sv), signer)
							c.check((err == nil) == want, "NewBlob", "does not accept exactly the valid combinations", wit)
						}
					}
				}
			}
		}
	}
	// a signer that is present but EMPTY (non-nil, zero length) - only expressible through the struct-level
	// entry points, never on the wire: refused for every share version, by NewBlobFromProto as by NewBlob
	for _, sv := range []uint32{0, 1, 2} {
		pb := &v1.BlobProto{NamespaceId: goodID, Data: []byte{7}, ShareVersion: sv, NamespaceVersion: 0, Signer: []byte{}}
		_, err := share.NewBlobFromProto(pb)
		c.check(err != nil, "NewBlobFromProto", "accepted a present but empty signer", map[string]any{"share_version": sv, "signer": "[]byte{} (non-nil)"})
		_, err = share.NewBlob(nsOf(append([]byte{0}, goodID...)), []byte{7}, uint8(sv), []byte{})
		c.check(err != nil, "NewBlob", "accepted a present but empty signer", map[string]any{"share_version": sv, "signer": "[]byte{} (non-nil)"})
		c.add("blobnew", hx(append([]byte{0}, goodID...)), "07", strconv.Itoa(int(sv)), "-")
	}
	// version 255 namespaces (constructible) are rejected by NewBlob
	c.add("blobnew", hx(tailNs), "07", "0", "nil")
	_, err := share.NewBlob(share.TailPaddingNamespace, []byte{7}, 0, nil)
	c.check(err != nil, "NewBlob", "accepted a version 255 namespace", map[string]any{})
	for _, b := range protoEdgeCorpus(r) {
		c.add("btxunmarshal", hx(b))
		c.add("iwunmarshal", hx(b))
		c.add("blobunmarshal", hx(b))
		c.count("proto_edge_corpus")
	}
	// decoder inputs with reordered / duplicated / unknown / re-typed fields
	for i := 0; i < 200*c.scale; i++ {
		b := pick(r, validEncodings(r))
		if r.Bool(60) {
			b = mutateBytes(r, b)
		}
		c.add("btxunmarshal", hx(b))
		c.add("iwunmarshal", hx(b))
		c.add("blobunmarshal", hx(b))
	}
	// the JSON text layer (Model/Json.v): same check, further requests
	genC19J(c)
}
