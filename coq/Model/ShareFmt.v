(* share/share.go accessors, info_byte.go, reserved_bytes.go, share_builder.go, padding.go *)
From GS.Model Require Import Base Namespace.
Open Scope N_scope.

Definition share_size : nat := 512.
Definition share := bytes.
Definition wf_share (s : share) : Prop := length s = share_size.
Definition wf_shareb (s : share) : bool := Nat.eqb (length s) share_size.

Definition first_compact_content : N := 474.
Definition cont_compact_content : N := 478.
Definition first_sparse_content : N := 478.
Definition cont_sparse_content : N := 482.
Definition signer_size : nat := 20.
Definition max_share_version : N := 127.

(* ---- info byte ---- *)
(* NewInfoByte *)
Definition new_info_byte (version : N) (start : bool) : outcome byte :=
  if max_share_version <? version then Err
  else Ok (n2b (2 * version + if start then 1 else 0)).
Definition info_version (i : byte) : N := b2n i / 2.
Definition info_start (i : byte) : bool := N.odd (b2n i).

(* ---- accessors (fixed offsets below 58 < 512; shares are 512 bytes by type invariant) ---- *)
Definition sh_ns (s : share) : namespace := firstn 29 s.
Definition sh_info (s : share) : byte := nth 29 s Byte.x00.
Definition sh_version (s : share) : N := info_version (sh_info s).
Definition sh_start (s : share) : bool := info_start (sh_info s).
Definition sh_is_compact (s : share) : bool := is_tx (sh_ns s) || is_pfb (sh_ns s).
Definition sh_version_supported (s : share) : bool := (sh_version s =? 0) || (sh_version s =? 1).
Definition sh_seq_len (s : share) : N :=
  if sh_start s then rd32 (firstn 4 (skipn 30 s)) else 0.
(* GetSigner: nil unless a version 1 sequence start *)
Definition sh_signer (s : share) : option bytes :=
  if (sh_version s =? 1) && sh_start s then Some (firstn 20 (skipn 34 s)) else None.
Definition sh_is_padding (s : share) : bool :=
  (sh_start s && (sh_seq_len s =? 0)) || is_tail_padding (sh_ns s)
  || is_primary_reserved_padding (sh_ns s).

(* rawDataStartIndex (with the repair of defect D1) *)
Definition addif (b : bool) (k : nat) : nat := if b then k else O.
Definition raw_data_start (s : share) : nat :=
  Nat.add (Nat.add (Nat.add 30%nat (addif (sh_start s) 4%nat)) (addif (sh_is_compact s) 4%nat))
          (addif (sh_start s && (sh_version s =? 1)) 20%nat).
Definition sh_raw_data (s : share) : bytes := skipn (raw_data_start s) s.

(* ParseReservedBytes on a 4 byte slice *)
Definition parse_reserved_bytes (b : bytes) : outcome N :=
  if negb (Nat.eqb (length b) 4) then Err else
  let v := rd32 b in if 512 <=? v then Err else Ok v.

(* RawDataUsingReserved *)
Definition sh_raw_data_using_reserved (s : share) : outcome bytes :=
  let index := Nat.add (Nat.add 30%nat (addif (sh_start s) 4%nat))
                       (addif (sh_start s && (sh_version s =? 1)) 20%nat) in
  if sh_is_compact s then
    do r <- parse_reserved_bytes (firstn 4 (skipn index s));
    if r =? 0 then Ok []
    else if lenN s <? r then Err
    else slice_from r s
  else Ok (skipn index s).

(* ---- share builder ---- *)
Record sbuilder := mk_sb {
  sb_ns : namespace;
  sb_ver : N;
  sb_first : bool;
  sb_compact : bool;
  sb_raw : bytes
}.

Definition is_compact_ns (ns : namespace) : bool := is_tx ns || is_pfb ns.

Definition new_builder (ns : namespace) (ver : N) (first : bool) : outcome sbuilder :=
  do info <- new_info_byte ver first;
  let compact := is_compact_ns ns in
  Ok (mk_sb ns ver first compact
        (ns ++ [info] ++ (if first then zeros 4 else []) ++ (if compact then zeros 4 else []))).

Definition sb_with_raw (b : sbuilder) (raw : bytes) : sbuilder :=
  mk_sb (sb_ns b) (sb_ver b) (sb_first b) (sb_compact b) raw.

Definition sb_available (b : sbuilder) : nat := (share_size - length (sb_raw b))%nat.

(* AddData: returns the builder and the leftover (None = nil) *)
Definition sb_add_data (b : sbuilder) (data : bytes) : sbuilder * option bytes :=
  let left := sb_available b in
  if Nat.leb (length data) left then (sb_with_raw b (sb_raw b ++ data), None)
  else (sb_with_raw b (sb_raw b ++ firstn left data), Some (skipn left data)).

Definition sb_build (b : sbuilder) : outcome share :=
  if wf_shareb (sb_raw b) then Ok (sb_raw b) else Err.

Definition sb_is_empty (b : sbuilder) : bool :=
  Nat.eqb (length (sb_raw b))
          (Nat.add (Nat.add 30%nat (addif (sb_compact b) 4%nat)) (addif (sb_first b) 4%nat)).

(* ZeroPadIfNecessary: builder and number of padding bytes *)
Definition sb_zero_pad (b : sbuilder) : sbuilder * nat :=
  let missing := (share_size - length (sb_raw b))%nat in
  (sb_with_raw b (sb_raw b ++ zeros missing), missing).

Definition sb_reserved_index (b : sbuilder) : nat := if sb_first b then 34%nat else 30%nat.

(* MaybeWriteReservedBytes *)
Definition sb_maybe_write_reserved (b : sbuilder) : outcome sbuilder :=
  if negb (sb_compact b) then Err else
  let idx := sb_reserved_index b in
  if Nat.ltb (length (sb_raw b)) (idx + 4) then Fault else
  do r <- parse_reserved_bytes (firstn 4 (skipn idx (sb_raw b)));
  if negb (r =? 0) then Ok b else
  let here := lenN (sb_raw b) in
  if 512 <=? here then Err
  else Ok (sb_with_raw b (set_at idx (be32 here) (sb_raw b))).

(* WriteSequenceLen *)
Definition sb_write_seq_len (b : sbuilder) (n : N) : outcome sbuilder :=
  if negb (sb_first b) then Err else
  if Nat.ltb (length (sb_raw b)) 34 then Fault else
  Ok (sb_with_raw b (set_at 30 (be32 (u32 n)) (sb_raw b))).

(* WriteSigner *)
Definition sb_write_signer (b : sbuilder) (signer : bytes) : sbuilder :=
  if negb (sb_first b) || negb (sb_ver b =? 1) then b
  else sb_with_raw b (sb_raw b ++ signer).

(* ---- padding shares (padding.go) ---- *)
Definition namespace_padding_share (ns : namespace) (ver : N) : outcome share :=
  do b <- new_builder ns ver true;
  do b1 <- sb_write_seq_len b 0;
  let '(b2, _) := sb_add_data b1 (zeros 478) in
  sb_build b2.

Fixpoint namespace_padding_shares (ns : namespace) (ver : N) (n : nat) : outcome (list share) :=
  match n with
  | O => Ok []
  | S k => do s <- namespace_padding_share ns ver;
           do rest <- namespace_padding_shares ns ver k;
           Ok (s :: rest)
  end.

Definition reserved_padding_shares (n : nat) : outcome (list share) :=
  namespace_padding_shares primary_reserved_padding_ns 0 n.
Definition tail_padding_shares (n : nat) : outcome (list share) :=
  namespace_padding_shares tail_padding_ns 0 n.
