(* Parsing half of C09: ParseTxs applied to the closed-form compact share sequence
   (Spec/CompactSpec.v) of a list of non-empty transactions returns the list.
   Works from the spec side only; the writer = spec theorem lives in
   CompactWriterProofs.v. *)
From Coq Require Import List Arith NArith ZArith Lia Bool.
From Coq Require Import ZifyN ZifyNat ZifyBool.
From GS.Model Require Import Base Varint Namespace ShareFmt Compact.
From GS.Spec Require Import ShareSpec CompactSpec.
From GS.Proofs Require Import BaseLemmas VarintProofs SparseProofs.
Import ListNotations.

Open Scope nat_scope.

(* ---------- shape of one closed-form share ---------- *)
Lemma length_cchunk j s : length (cchunk j s) <= ccap j.
Proof. unfold cchunk. rewrite firstn_length. lia. Qed.

Lemma ccap_chdr j : chdr j + ccap j = 512.
Proof. destruct j; reflexivity. Qed.

Lemma cres_lt j s sts : cres j s sts < 512.
Proof.
  unfold cres. pose proof (length_cchunk j s) as Hl. pose proof (ccap_chdr j) as Hc.
  destruct (find (fun u => Nat.leb (coff j) u) sts) as [u|] eqn:Ef; [|lia].
  apply find_some in Ef. destruct Ef as [_ Hu].
  destruct (Nat.ltb u (coff j + length (cchunk j s))) eqn:El; lia.
Qed.

(* the first unit starts at stream offset 0: the first share points just behind its header *)
Lemma cres_first s sts : s <> [] -> cres 0 s (0 :: sts) = 38.
Proof.
  intros Hs. unfold cres. cbn [find coff Nat.leb].
  assert (Hl : 0 < length (cchunk 0 s)).
  { unfold cchunk. cbn [coff ccap]. rewrite skipn_O, firstn_length.
    destruct s; [congruence|]. cbn [length]. lia. }
  replace (Nat.ltb 0 (0 + length (cchunk 0 s))) with true by lia.
  reflexivity.
Qed.

Lemma parse_reserved_be32 r : r < 512 -> parse_reserved_bytes (be32 (N.of_nat r)) = Ok (N.of_nat r).
Proof.
  intros H. unfold parse_reserved_bytes. rewrite length_be32. cbn [Nat.eqb negb].
  rewrite rd32_be32 by lia. replace (512 <=? N.of_nat r)%N with false by lia. reflexivity.
Qed.

Section CShare.
  Variables (ns : namespace) (total : N) (j : nat) (s : bytes) (sts : list nat).
  Hypothesis Hns : length ns = 29.
  Hypothesis Hc : is_compact_ns ns = true.
  Let sh := cshare ns 0 total j s sts.

  Lemma cshare_version : sh_version sh = 0%N.
  Proof using Hns. unfold sh, cshare. apply acc_version; [exact Hns|lia]. Qed.

  Lemma cshare_start : sh_start sh = Nat.eqb j 0.
  Proof using Hns. unfold sh, cshare. apply acc_start; [exact Hns|lia]. Qed.

  Lemma cshare_compact : sh_is_compact sh = true.
  Proof using Hns Hc. unfold sh, cshare. rewrite acc_compact by exact Hns. exact Hc. Qed.

  Lemma cshare_length : length sh = 512.
  Proof using Hns.
    unfold sh, cshare. rewrite !app_length, Hns, length_be32.
    rewrite length_pad_to by apply length_cchunk.
    destruct j; cbn [Nat.eqb length ccap]; rewrite ?length_be32; reflexivity.
  Qed.

  (* everything behind the header: the payload chunk, zero filled *)
  Lemma cshare_skip_hdr : skipn (chdr j) sh = pad_to (ccap j) (cchunk j s).
  Proof using Hns.
    unfold sh, cshare. destruct j as [|k]; cbn [Nat.eqb chdr].
    - rewrite (hdr_skip38 ns _ _ Hns). reflexivity.
    - rewrite (hdr_skip34 ns _ _ Hns). reflexivity.
  Qed.

  Lemma cshare_raw_data_start : raw_data_start sh = chdr j.
  Proof using Hns Hc.
    unfold raw_data_start. rewrite cshare_start, cshare_compact, cshare_version.
    destruct j; reflexivity.
  Qed.

  Lemma cshare_raw_data : sh_raw_data sh = pad_to (ccap j) (cchunk j s).
  Proof using Hns Hc. unfold sh_raw_data. rewrite cshare_raw_data_start. apply cshare_skip_hdr. Qed.

  Lemma cshare_reserved_field :
    firstn 4 (skipn (30 + addif (Nat.eqb j 0) 4) sh) = be32 (N.of_nat (cres j s sts)).
  Proof using Hns.
    unfold sh, cshare. destruct j as [|k]; cbn [Nat.eqb addif].
    - rewrite (hdr_skip ns _ _ Hns 4). reflexivity.
    - rewrite (hdr_skip ns _ _ Hns 0). reflexivity.
  Qed.

  (* RawDataUsingReserved: from the recorded first unit start to the end of the share *)
  Lemma cshare_raw_data_using_reserved :
    sh_raw_data_using_reserved sh =
    if Nat.eqb (cres j s sts) 0 then Ok [] else Ok (skipn (cres j s sts) sh).
  Proof using Hns Hc.
    unfold sh_raw_data_using_reserved.
    rewrite cshare_start, cshare_compact, cshare_version.
    replace (Nat.eqb j 0 && (0 =? 1)%N) with false by (destruct (Nat.eqb j 0); reflexivity).
    cbn [addif]. rewrite Nat.add_0_r.
    rewrite cshare_reserved_field.
    pose proof (cres_lt j s sts) as Hr.
    rewrite parse_reserved_be32 by exact Hr. cbn [bind].
    destruct (Nat.eqb (cres j s sts) 0) eqn:E0.
    - replace (N.of_nat (cres j s sts) =? 0)%N with true by lia. reflexivity.
    - replace (N.of_nat (cres j s sts) =? 0)%N with false by lia.
      unfold slice_from, lenN, dropN. rewrite cshare_length.
      replace (N.of_nat 512 <? N.of_nat (cres j s sts))%N with false by lia.
      replace (N.of_nat (cres j s sts) <=? N.of_nat 512)%N with true by lia.
      rewrite Nat2N.id. reflexivity.
  Qed.
End CShare.

(* ---------- extractRawData ---------- *)
Lemma extract_found shares : extract_raw_data true shares = Ok (concat (map sh_raw_data shares)).
Proof.
  induction shares as [|x tl IH]; [reflexivity|].
  cbn [extract_raw_data map concat]. rewrite IH. reflexivity.
Qed.

Definition cpayload (s : bytes) (j : nat) : bytes := pad_to (ccap j) (cchunk j s).

Lemma map_raw_data_cshares ns total s sts js : length ns = 29 -> is_compact_ns ns = true ->
  map sh_raw_data (map (fun j => cshare ns 0 total j s sts) js) = map (cpayload s) js.
Proof.
  intros Hns Hc. rewrite map_map. apply map_ext. intros j. apply cshare_raw_data; assumption.
Qed.

Lemma length_cpayload s j : length (cpayload s j) = ccap j.
Proof. unfold cpayload. apply length_pad_to, length_cchunk. Qed.

(* a sequence whose first unit starts at stream offset 0: the parser enters through the
   reserved bytes of share 0, finds data, and takes the raw data of every later share *)
Lemma extract_cshares ns total s sts n extra : length ns = 29 -> is_compact_ns ns = true -> s <> [] ->
  extract_raw_data false (map (fun j => cshare ns 0 total j s (0 :: sts)) (seq 0 (S n)) ++ extra) =
  Ok (concat (map (cpayload s) (seq 0 (S n))) ++ concat (map sh_raw_data extra)).
Proof.
  intros Hns Hc Hs. cbn [seq map app extract_raw_data].
  rewrite cshare_raw_data_using_reserved by assumption.
  rewrite cres_first by exact Hs. cbn [Nat.eqb bind].
  change 38 with (chdr 0). rewrite cshare_skip_hdr by exact Hns.
  fold (cpayload s 0). rewrite length_cpayload. cbn [ccap Nat.eqb negb].
  rewrite extract_found. cbn [bind concat].
  rewrite map_app, concat_app, map_raw_data_cshares by assumption.
  rewrite <- app_assoc. reflexivity.
Qed.

(* ---------- the payloads tile the stream ---------- *)
Lemma skipn_add {A} : forall y x (l : list A), skipn x (skipn y l) = skipn (y + x) l.
Proof.
  induction y as [|y IH]; intros x l; [rewrite skipn_O; reflexivity|].
  destruct l as [|a l]; [rewrite !skipn_nil; reflexivity|].
  cbn [Nat.add]. rewrite !skipn_cons. apply IH.
Qed.

Lemma tile k : 0 < k -> forall m t, length t <= k * m ->
  concat (map (fun i => pad_to k (firstn k (skipn (k * i) t))) (seq 0 m)) = t ++ zeros (k * m - length t).
Proof.
  intros Hk. induction m as [|m IH]; intros t Hl.
  - destruct t; [rewrite Nat.mul_0_r; reflexivity|cbn [length] in Hl; lia].
  - cbn [seq map concat]. rewrite <- seq_shift, map_map.
    rewrite (map_ext _ (fun i => pad_to k (firstn k (skipn (k * i) (skipn k t))))).
    2:{ intros i. rewrite skipn_add. do 3 f_equal. lia. }
    rewrite IH by (rewrite skipn_length; lia).
    rewrite Nat.mul_0_r, skipn_O, skipn_length.
    destruct (Nat.le_gt_cases k (length t)) as [Hge|Hlt].
    + rewrite pad_to_full by (rewrite firstn_length; lia).
      rewrite app_assoc, firstn_skipn. do 2 f_equal. lia.
    + rewrite firstn_all2, skipn_all2 by lia. unfold pad_to. cbn [app].
      rewrite <- app_assoc, zeros_app. do 2 f_equal. lia.
Qed.

Lemma cpayload_succ s i : cpayload s (S i) = pad_to 478 (firstn 478 (skipn (478 * i) (skipn 474 s))).
Proof.
  unfold cpayload, cchunk. cbn [ccap coff]. rewrite skipn_add. reflexivity.
Qed.

Lemma cpayloads_tile s n : length s <= 474 + 478 * n ->
  concat (map (cpayload s) (seq 0 (S n))) = s ++ zeros (474 + 478 * n - length s).
Proof.
  intros Hl. cbn [seq map concat]. rewrite <- seq_shift, map_map.
  rewrite (map_ext _ _ (cpayload_succ s)).
  rewrite (tile 478 ltac:(lia)) by (rewrite skipn_length; lia).
  unfold cpayload, cchunk. cbn [ccap coff]. rewrite skipn_O, skipn_length.
  destruct (Nat.le_gt_cases 474 (length s)) as [Hge|Hlt].
  - rewrite pad_to_full by (rewrite firstn_length; lia).
    rewrite app_assoc, firstn_skipn. do 2 f_equal. lia.
  - rewrite firstn_all2, skipn_all2 by lia. unfold pad_to. cbn [app].
    rewrite <- app_assoc, zeros_app. do 2 f_equal. lia.
Qed.

Lemma cneeded_enough len : len <= 474 + 478 * (cneeded len - 1).
Proof.
  unfold cneeded. destruct (Nat.eqb len 0) eqn:E0; [lia|].
  destruct (Nat.leb len 474) eqn:E1; [lia|].
  assert (H : len - 474 <= 478 * ((len - 474 + 477) / 478)).
  { pose proof (Nat.div_mod (len - 474 + 477) 478 ltac:(lia)) as Hd.
    pose proof (Nat.mod_upper_bound (len - 474 + 477) 478 ltac:(lia)) as Hm. lia. }
  lia.
Qed.

Lemma cneeded_pos len : 0 < len -> 0 < cneeded len.
Proof.
  intros H. unfold cneeded. replace (Nat.eqb len 0) with false by lia.
  destruct (Nat.leb len 474); lia.
Qed.

(* ---------- parseRawData on the stream followed by zero fill ---------- *)
Lemma stream_cons t txs : stream (t :: txs) = put_uvarint (lenN t) ++ t ++ stream txs.
Proof. unfold stream, units, marshal_delimited. cbn [map concat]. rewrite <- app_assoc. reflexivity. Qed.

Lemma length_stream_ge txs : length txs <= length (stream txs).
Proof.
  induction txs as [|t txs IH]; [cbn; lia|].
  rewrite stream_cons, !app_length. pose proof (put_uvarint_length (lenN t)). cbn [length]. lia.
Qed.

Lemma stream_nonempty t txs : stream (t :: txs) <> [].
Proof.
  rewrite stream_cons. pose proof (put_uvarint_length (lenN t)) as H.
  destruct (put_uvarint (lenN t)); [cbn [length] in H; lia|discriminate].
Qed.

Definition tx_ok (t : bytes) : Prop := t <> [] /\ (lenN t < 2 ^ 64)%N.

Lemma parse_raw_data_zeros fuel k : parse_raw_data (S fuel) (zeros k) = Ok [].
Proof.
  cbn [parse_raw_data]. destruct k as [|k].
  - reflexivity.
  - change (zeros (S k)) with (Byte.x00 :: zeros k). rewrite parse_delimiter_zero. reflexivity.
Qed.

Lemma parse_raw_data_stream : forall txs fuel k, Forall tx_ok txs -> length txs < fuel ->
  parse_raw_data fuel (stream txs ++ zeros k) = Ok txs.
Proof.
  induction txs as [|t txs IH]; intros fuel k Hok Hf.
  - destruct fuel as [|fuel]; [lia|]. apply parse_raw_data_zeros.
  - destruct fuel as [|fuel]; [lia|].
    inversion Hok as [|? ? [Hne Hlt] Hok']; subst.
    rewrite stream_cons, <- !app_assoc. cbn [parse_raw_data].
    rewrite parse_delimiter_put by exact Hlt.
    assert (Hpos : 0 < length t) by (destruct t; [congruence|cbn [length]; lia]).
    unfold lenN at 1. replace (N.of_nat (length t) =? 0)%N with false by lia.
    unfold lenN. rewrite app_length.
    replace (N.of_nat (length t + length (stream txs ++ zeros k)) <? N.of_nat (length t))%N with false by lia.
    unfold dropN, takeN. rewrite Nat2N.id.
    rewrite skipn_app, Nat.sub_diag, skipn_O, skipn_all2 by lia. cbn [app].
    rewrite firstn_app, Nat.sub_diag, firstn_O, firstn_all2, app_nil_r by lia.
    cbn [length] in Hf. rewrite IH by (assumption || lia). reflexivity.
Qed.

(* ---------- ParseTxs ---------- *)
Lemma forallb_version_cshares ns total s sts js : length ns = 29 ->
  forallb (fun x => (sh_version x =? 0)%N) (map (fun j => cshare ns 0 total j s sts) js) = true.
Proof.
  intros Hns. apply forallb_forall. intros x Hx. apply in_map_iff in Hx.
  destruct Hx as (j & <- & _). rewrite cshare_version by exact Hns. reflexivity.
Qed.

(* shares whose payload is zero fill only (e.g. padding shares of any namespace) *)
Definition zero_share (x : share) : Prop := sh_version x = 0%N /\ exists m, sh_raw_data x = zeros m.

Lemma concat_zero_shares extra : Forall zero_share extra ->
  exists m, concat (map sh_raw_data extra) = zeros m.
Proof.
  induction 1 as [|x extra [_ (m & Hm)] _ (m' & IH)]; [exists 0; reflexivity|].
  exists (m + m'). cbn [map concat]. rewrite Hm, IH. apply zeros_app.
Qed.

Lemma forallb_version_zero_shares extra : Forall zero_share extra ->
  forallb (fun x => (sh_version x =? 0)%N) extra = true.
Proof.
  intros H. apply forallb_forall. intros x Hx. rewrite Forall_forall in H.
  destruct (H x Hx) as [-> _]. reflexivity.
Qed.

(* General form: any sequence-length field, at least the needed number of shares (further
   shares of the sequence carry zero fill only), followed by any shares carrying zero fill. *)
Theorem parse_txs_cshares ns total txs n extra :
  length ns = 29 -> is_compact_ns ns = true -> txs <> [] -> Forall tx_ok txs ->
  cneeded (length (stream txs)) <= n -> Forall zero_share extra ->
  parse_txs (map (fun j => cshare ns 0 total j (stream txs) (ustarts 0 (units txs))) (seq 0 n) ++ extra)
  = Ok txs.
Proof.
  intros Hns Hc Hne Hok Hn Hextra.
  destruct txs as [|t txs]; [congruence|].
  pose proof (stream_nonempty t txs) as Hs.
  set (s := stream (t :: txs)) in *.
  assert (Hspos : 0 < length s) by (destruct s; [congruence|cbn [length]; lia]).
  pose proof (cneeded_pos _ Hspos) as Hpos. pose proof (cneeded_enough (length s)) as Hen.
  destruct n as [|n]; [lia|].
  change (ustarts 0 (units (t :: txs))) with (0 :: ustarts (0 + length (marshal_delimited t)) (units txs)).
  set (sts := ustarts _ (units txs)).
  unfold parse_txs.
  destruct (map (fun j => cshare ns 0 total j s (0 :: sts)) (seq 0 (S n)) ++ extra) as [|x l] eqn:E.
  { cbn [seq map app] in E. discriminate. }
  rewrite <- E. clear E x l.
  rewrite forallb_app, forallb_version_cshares, forallb_version_zero_shares by assumption.
  cbn [andb negb].
  rewrite extract_cshares by assumption. cbn [bind].
  rewrite cpayloads_tile by lia.
  destruct (concat_zero_shares extra Hextra) as (m & ->).
  rewrite <- app_assoc, zeros_app.
  apply parse_raw_data_stream; [exact Hok|].
  pose proof (length_stream_ge (t :: txs)) as Hl. fold s in Hl.
  rewrite app_length. lia.
Qed.

Lemma tx_ok_of_stream_bound txs : Forall (fun t => t <> []) txs ->
  (lenN (stream txs) < 4294967296)%N -> Forall tx_ok txs.
Proof.
  induction 1 as [|t txs Ht _ IH]; intros Hb; [constructor|].
  rewrite stream_cons in Hb. unfold lenN in Hb. rewrite !app_length in Hb.
  constructor.
  - split; [exact Ht|]. unfold lenN. change (2 ^ 64)%N with 18446744073709551616%N. lia.
  - apply IH. unfold lenN. lia.
Qed.

(* the round trip on the closed-form sequence *)
Theorem parse_txs_compact_spec ns txs :
  length ns = 29 -> is_compact_ns ns = true -> txs <> [] -> Forall (fun t => t <> []) txs ->
  (lenN (stream txs) < 4294967296)%N ->
  parse_txs (compact_spec_ix ns 0 txs) = Ok txs.
Proof.
  intros Hns Hc Hne Hall Hb. unfold compact_spec_ix.
  rewrite <- (app_nil_r (map _ _)).
  apply parse_txs_cshares; try assumption; [|lia|constructor].
  apply tx_ok_of_stream_bound; assumption.
Qed.

(* without the 32-bit bound on the stream (the sequence-length field then wraps, the
   parser does not look at it): transactions shorter than 2^64 bytes *)
Theorem parse_txs_compact_spec_unbounded ns txs :
  length ns = 29 -> is_compact_ns ns = true -> txs <> [] -> Forall tx_ok txs ->
  parse_txs (compact_spec_ix ns 0 txs) = Ok txs.
Proof.
  intros Hns Hc Hne Hok. unfold compact_spec_ix.
  rewrite <- (app_nil_r (map _ _)).
  apply parse_txs_cshares; try assumption; [lia|constructor].
Qed.

Lemma parse_txs_nil : parse_txs [] = Ok [].
Proof. reflexivity. Qed.

Lemma compact_spec_ix_nil ns ver : compact_spec_ix ns ver [] = [].
Proof. reflexivity. Qed.

(* parseRawData alone: the stream followed by any amount of zero fill *)
Theorem parse_raw_data_stream_padded txs k : Forall tx_ok txs ->
  parse_raw_data (S (length (stream txs ++ zeros k))) (stream txs ++ zeros k) = Ok txs.
Proof.
  intros Hok. apply parse_raw_data_stream; [exact Hok|].
  pose proof (length_stream_ge txs). rewrite app_length. lia.
Qed.

(* padding shares are zero shares *)
Lemma padding_spec_zero_share ns : length ns = 29 -> is_compact_ns ns = false ->
  zero_share (padding_spec ns 0).
Proof.
  intros Hns Hc. unfold zero_share, padding_spec. split.
  - apply acc_version; [exact Hns|lia].
  - exists 478. unfold sh_raw_data, raw_data_start.
    rewrite acc_start, acc_compact, acc_version by (exact Hns || lia). rewrite Hc.
    change (30 + addif true 4 + addif false 4 + addif (true && (0 =? 1)%N) 20) with 34.
    rewrite (hdr_skip34 ns _ _ Hns). reflexivity.
Qed.
