(* C01 - Proposer-built and validator-reconstructed squares are byte-identical.
   Statements only.  [build]/[construct] are the models of square.Build / square.Construct
   (Model/Builder.v); [sublist] is the order-preserving subsequence relation,
   [is_normal t] says tx.UnmarshalBlobTx classifies t as an ordinary transaction and
   [is_blob_tx t] that it decodes as a BlobTx (all three defined in Proofs/BuildProofs.v). *)
From Coq Require Import List NArith ZArith.
From GS.Model Require Import Base Varint Namespace ShareFmt Blob Sparse Compact Counter Arith Proto Builder.
From GS.Proofs Require Import BuildProofs.
Import ListNotations.

(* For every tx list (any mix and order, any sizes, any pattern of refused appends), every
   maxSquareSize accepted by NewBuilder and every threshold: if Build returns a square and
   a kept list, then the kept list is "ordinary txs, then blob txs", both groups being
   order-preserving subsequences of the input, and Construct on exactly the kept list
   succeeds with the same square (equality of the full share lists, i.e. byte-identical). *)
Theorem C01_build_construct_agree : forall txs max thr sq kept, (1 <= thr)%N ->
  build txs max thr = Ok (sq, kept) ->
  exists normals blobtxs,
    kept = normals ++ blobtxs /\
    Forall is_normal normals /\ Forall is_blob_tx blobtxs /\
    sublist normals txs /\ sublist blobtxs txs /\
    construct kept max thr = Ok sq.
Proof. exact build_construct_agree_cfg. Qed.
Print Assumptions C01_build_construct_agree.

(* the same without the side condition on the threshold (the proof never uses it) *)
Theorem C01_build_construct_agree_any_threshold : forall txs max thr sq kept,
  build txs max thr = Ok (sq, kept) ->
  exists normals blobtxs,
    kept = normals ++ blobtxs /\
    Forall is_normal normals /\ Forall is_blob_tx blobtxs /\
    sublist normals txs /\ sublist blobtxs txs /\
    construct kept max thr = Ok sq.
Proof. exact build_construct_agree. Qed.
Print Assumptions C01_build_construct_agree_any_threshold.

(* the mechanism: a refused append (Add then Revert) restores the counter's observable
   state, an Add reads nothing else, and Export cannot see the difference *)
Theorem C01_refused_append_restores_counter : forall c n,
  ceq (counter_revert (fst (counter_add c n))) c.
Proof. exact counter_revert_add_ceq. Qed.
Print Assumptions C01_refused_append_restores_counter.

Theorem C01_add_reads_only_shares_and_remainder : forall c1 c2 n,
  ceq c1 c2 -> counter_add c1 n = counter_add c2 n.
Proof. exact counter_add_ceq. Qed.
Print Assumptions C01_add_reads_only_shares_and_remainder.

Theorem C01_export_respects_equivalence : forall b1 b2,
  beq b1 b2 -> export_square b1 = export_square b2.
Proof. exact export_square_beq. Qed.
Print Assumptions C01_export_respects_equivalence.

(* determinism: equal inputs give equal outputs (the model functions are functions) *)
Theorem C01_build_deterministic : forall txs1 txs2 max1 max2 thr1 thr2,
  txs1 = txs2 -> max1 = max2 -> thr1 = thr2 -> build txs1 max1 thr1 = build txs2 max2 thr2.
Proof. exact build_deterministic. Qed.
Print Assumptions C01_build_deterministic.

Theorem C01_construct_deterministic : forall txs1 txs2 max1 max2 thr1 thr2,
  txs1 = txs2 -> max1 = max2 -> thr1 = thr2 ->
  construct txs1 max1 thr1 = construct txs2 max2 thr2.
Proof. exact construct_deterministic. Qed.
Print Assumptions C01_construct_deterministic.

(* ---- non-vacuity ---- *)
Definition ex_t1 : bytes := [x01; x02; x03].
Definition ex_t2 : bytes := [x04; x05].
Definition ex_big : bytes := repeat x07 600.
Definition ex_ns : bytes := x00 :: repeat x00 18 ++ repeat x01 10.
Definition ex_blob : blob := mk_blob ex_ns (repeat x09 100) 0 None.
Definition ex_btx : bytes :=
  match marshal_blob_tx [x0a; x0b] [ex_blob] with Ok e => e | _ => [] end.

(* the classification of the example transactions *)
Example C01_example_classes :
  Forall is_normal [ex_t1; ex_t2; ex_big] /\ is_blob_tx ex_btx.
Proof.
  split.
  - repeat constructor; vm_compute; reflexivity.
  - eexists. vm_compute. reflexivity.
Qed.

(* two small ordinary txs, max 2, threshold 64: everything is kept *)
Example C01_example_all_kept :
  match build [ex_t1; ex_t2] 2 64 with
  | Ok (sq, kept) => kept = [ex_t1; ex_t2] /\ length sq = 1%nat /\ construct kept 2 64 = Ok sq
  | _ => False
  end.
Proof. vm_compute. repeat split; reflexivity. Qed.

(* a refused append in the middle: the 600-byte tx does not fit a 1x1 square and is
   dropped (counter rollback), the later small txs are kept *)
Example C01_example_refused_first :
  match build [ex_big; ex_t1; ex_t2] 1 64 with
  | Ok (sq, kept) => kept = [ex_t1; ex_t2] /\ length sq = 1%nat /\ construct kept 1 64 = Ok sq
  | _ => False
  end.
Proof. vm_compute. repeat split; reflexivity. Qed.

(* interleaved blob and ordinary txs with refusals of both kinds, max 2: the first blob tx,
   the first big tx and both small txs are kept, the second blob tx and the second big tx
   are refused; the kept list is reordered (ordinary first) and reconstructs the same
   4-share square *)
Example C01_example_mixed :
  match build [ex_btx; ex_big; ex_t1; ex_btx; ex_big; ex_t2] 2 64 with
  | Ok (sq, kept) =>
    kept = [ex_big; ex_t1; ex_t2] ++ [ex_btx] /\ length sq = 4%nat /\
    construct kept 2 64 = Ok sq
  | _ => False
  end.
Proof. vm_compute. repeat split; reflexivity. Qed.

(* Construct really is strict: on the unpartitioned input it fails *)
Example C01_example_construct_strict :
  construct [ex_btx; ex_t1] 2 64 = Err /\ construct [ex_big; ex_t1] 1 64 = Err.
Proof. split; vm_compute; reflexivity. Qed.
