package main

// C05: blob commitments computed in isolation match the square's row trees.
//
// Requests (also understood by runner/driver.ml):
//   sha256        <bytes>                              digest
//   subtreeroots  <ns> <ver> <signer|nil> <data> <thr> inclusion.GenerateSubtreeRoots
//   commitment    <ns> <ver> <signer|nil> <data> <thr> inclusion.CreateCommitment with the RFC-6962 root below
//   merkleroot    <item,item,...>                      the RFC-6962 root below
//   rownode       <share,share,...> <start> <len>      A;B;C  (see rowNode)
//
// The direct oracle builds real squares and checks, for every blob in them, that the
// subtree roots computed from the blob alone are the inner nodes of the row trees.

import (
	"bytes"
	"crypto/sha256"
	"encoding/hex"
	"fmt"
	"strconv"

	square "github.com/celestiaorg/go-square/v2"
	"github.com/celestiaorg/go-square/v2/inclusion"
	"github.com/celestiaorg/go-square/v2/share"
	"github.com/celestiaorg/go-square/v2/tx"
	"github.com/celestiaorg/nmt"
)

func init() {
	generators["C05"] = genC05
	extraOps["sha256"] = func(a []string) string {
		d := sha256.Sum256(unhx(a[0]))
		return hx(d[:])
	}
	extraOps["subtreeroots"] = func(a []string) string {
		b, err := share.NewBlob(nsOf(unhx(a[0])), unhx(a[3]), uint8(atoi(a[1])), parseSigner(a[2]))
		if err != nil {
			return "err"
		}
		roots, err := inclusion.GenerateSubtreeRoots(b, atoi(a[4]))
		if err != nil {
			return "err"
		}
		return "ok:" + showList(hx, roots)
	}
	extraOps["commitment"] = func(a []string) string {
		b, err := share.NewBlob(nsOf(unhx(a[0])), unhx(a[3]), uint8(atoi(a[1])), parseSigner(a[2]))
		if err != nil {
			return "err"
		}
		cm, err := inclusion.CreateCommitment(b, rfc6962Root, atoi(a[4]))
		if err != nil {
			return "err"
		}
		return "ok:" + hx(cm)
	}
	extraOps["merkleroot"] = func(a []string) string { return hx(rfc6962Root(hexList(a[0]))) }
	extraOps["rownode"] = func(a []string) string { return rowNode(hexList(a[0]), atoi(a[1]), atoi(a[2])) }
}

// ---- RFC-6962 Merkle root (what tendermint's merkle.HashFromByteSlices computes) ----

func rfcSplit(n int) int {
	k := 1
	for k*2 < n {
		k *= 2
	}
	return k
}

func rfc6962Root(items [][]byte) []byte {
	switch len(items) {
	case 0:
		d := sha256.Sum256(nil)
		return d[:]
	case 1:
		d := sha256.Sum256(append([]byte{0}, items[0]...))
		return d[:]
	}
	k := rfcSplit(len(items))
	l, r := rfc6962Root(items[:k]), rfc6962Root(items[k:])
	d := sha256.Sum256(append(append([]byte{1}, l...), r...))
	return d[:]
}

// RFC 6962 reference vectors (certificate-transparency test data): roots of the first
// 1..8 of these leaves.
var rfcLeaves = []string{"", "00", "10", "2021", "3031", "40414243", "5051525354555657", "606162636465666768696a6b6c6d6e6f"}
var rfcRoots = []string{
	"6e340b9cffb37a989ca544e6bb780a2c78901d3fb33738768511a30617afa01d",
	"fac54203e7cc696cf0dfcb42c92a1d9dbaf70ad9e621f4bd8d98662f00e3c125",
	"aeb6bcfe274b70a14fb067a5e5578264db0fa9b51af5e0ba159158f329e06e77",
	"d37ee418976dd95753c1c73862b9398fa2a2cf9b4ff0fdfe8b30cd95209614b7",
	"4e3bbb1f7b478dcfe71fb631631519a3bca12c9aefca1612bfce4c13a86264d4",
	"76e67dadbcdf1e10e1b74ddc608abd2f98dfb16fbce75277b5232a127f2087ef",
	"ddb89be403809e325750d3d263cd78929c2942b7942a34b77e122c9594a74c8c",
	"5dc9da79a70659a9ad559cb701ded9a2ab9d823aad2f4960cfe370eff4604328",
}

// ---- row trees ----

func newNmt() *nmt.NamespacedMerkleTree {
	return nmt.New(sha256.New(), nmt.NamespaceIDSize(share.NamespaceSize), nmt.IgnoreMaxNamespace(true))
}

// rowTree: the namespaced Merkle tree of one row, leaves = namespace of the share || share.
func rowTree(row [][]byte) (*nmt.NamespacedMerkleTree, error) {
	t := newNmt()
	for _, s := range row {
		leaf := append(append([]byte{}, s[:share.NamespaceSize]...), s...)
		if err := t.Push(leaf); err != nil {
			return nil, err
		}
	}
	return t, nil
}

func okHex(b []byte, err error) string {
	if err != nil {
		return "err"
	}
	return "ok:" + hx(b)
}

// rowNode: A = ComputeSubtreeRoot(start, start+len) on the row tree; B = the root of a
// separate tree that holds only the leaves [start, start+len) ("-" when A is an error);
// C = Root() of the row tree.
func rowNode(row [][]byte, start, ln int) string {
	t, err := rowTree(row)
	if err != nil {
		return "err"
	}
	sub, errA := t.ComputeSubtreeRoot(start, start+ln)
	b := "-"
	if errA == nil {
		iso, err := rowTree(row[start : start+ln])
		if err != nil {
			b = "err"
		} else {
			b = okHex(iso.Root())
		}
	}
	return okHex(sub, errA) + ";" + b + ";" + okHex(t.Root())
}

// ---- an independent definition of the row tree: bottom-up levels of a perfect tree ----

const nsLen = 29

func refLeafHash(leaf []byte) []byte {
	d := sha256.Sum256(append([]byte{0}, leaf...))
	out := append([]byte{}, leaf[:nsLen]...)
	out = append(out, leaf[:nsLen]...)
	return append(out, d[:]...)
}

// refNodeHash: min || max || sha256(0x01 || l || r); max ignores a right child that lies
// wholly in the maximal namespace.  ok = false when the children are not ordered.
func refNodeHash(l, r []byte) ([]byte, bool) {
	lmin, lmax := l[:nsLen], l[nsLen:2*nsLen]
	rmin, rmax := r[:nsLen], r[nsLen:2*nsLen]
	if bytes.Compare(lmax, lmin) < 0 || bytes.Compare(rmax, rmin) < 0 || bytes.Compare(rmin, lmax) < 0 {
		return nil, false
	}
	mx := rmax
	if bytes.Equal(rmin, bytes.Repeat([]byte{0xff}, nsLen)) {
		mx = lmax
	}
	d := sha256.Sum256(append(append([]byte{1}, l...), r...))
	out := append([]byte{}, lmin...)
	out = append(out, mx...)
	return append(out, d[:]...), true
}

// refLevels: levels[e][p] = the node of height e at position p of the perfect tree over
// the row (row length a power of two).
func refLevels(row [][]byte) ([][][]byte, bool) {
	cur := make([][]byte, len(row))
	for i, s := range row {
		cur[i] = refLeafHash(append(append([]byte{}, s[:nsLen]...), s...))
	}
	levels := [][][]byte{cur}
	for len(cur) > 1 {
		next := make([][]byte, len(cur)/2)
		for i := range next {
			h, ok := refNodeHash(cur[2*i], cur[2*i+1])
			if !ok {
				return nil, false
			}
			next[i] = h
		}
		levels = append(levels, next)
		cur = next
	}
	return levels, true
}

func log2int(m int) int {
	e := 0
	for 1<<e < m {
		e++
	}
	return e
}

// ---- the direct oracle on one constructed square ----

type c05Square struct {
	sq     square.Square
	side   int
	rows   [][][]byte
	trees  []*nmt.NamespacedMerkleTree
	levels [][][][]byte
	kept   [][]byte
	max    int
	thr    int
}

func newC05Square(c *Ctx, sq square.Square, kept [][]byte, max, thr int, wit map[string]any) *c05Square {
	side := sq.Size()
	s := &c05Square{sq: sq, side: side, kept: kept, max: max, thr: thr}
	raw := rawShares(sq)
	if !c.check(len(raw) == side*side && isPow2(side), "square size", "not side*side shares with a power-of-two side", wit) {
		return nil
	}
	for r := 0; r < side; r++ {
		row := raw[r*side : (r+1)*side]
		t, err := rowTree(row)
		if !c.check(err == nil, "row tree", "a row of the square is not accepted by the namespaced merkle tree (namespace order)", wit) {
			return nil
		}
		lv, ok := refLevels(row)
		if !c.check(ok, "row tree", "the bottom-up row tree meets unordered siblings", wit) {
			return nil
		}
		root, err := t.Root()
		c.check(err == nil && bytes.Equal(root, lv[len(lv)-1][0]), "row root", "nmt Root() differs from the bottom-up perfect tree over the row", wit)
		s.rows = append(s.rows, row)
		s.trees = append(s.trees, t)
		s.levels = append(s.levels, lv)
	}
	return s
}

type chunkRef struct{ row, off, size int }

// checkBlob runs checks (1)-(3) for the blob at [start, start+n) and returns the
// commitment recomputed from the row trees (nil when something failed) and the chunks.
func (s *c05Square) checkBlob(c *Ctx, g genBlob, start int, wit map[string]any) ([]byte, []chunkRef) {
	b := g.blob()
	shs, err := b.ToShares()
	if !c.check(err == nil, "Blob.ToShares", "error", wit) {
		return nil, nil
	}
	n := len(shs)
	same := start >= 0 && start+n <= len(s.sq)
	for d := 0; same && d < n; d++ {
		same = bytes.Equal(s.sq[start+d].ToBytes(), shs[d].ToBytes())
	}
	if !c.check(same, "blob position", "the blob's shares are not at the range reported by BlobShareRange", wit) {
		return nil, nil
	}
	roots, err := inclusion.GenerateSubtreeRoots(b, s.thr)
	if !c.check(err == nil, "GenerateSubtreeRoots", "error", wit) {
		return nil, nil
	}
	w := inclusion.SubTreeWidth(n, s.thr)
	sizes, err := inclusion.MerkleMountainRangeSizes(uint64(n), uint64(w))
	if !c.check(err == nil && len(sizes) == len(roots), "MerkleMountainRangeSizes", "error or a different number of chunks than subtree roots", wit) {
		return nil, nil
	}
	c.check(start%w == 0 && w <= s.side, "alignment", "start index not a multiple of the subtree width, or the width exceeds the square side", wit)
	cursor := start
	var nodes [][]byte
	var chunks []chunkRef
	okAll := true
	for k, m64 := range sizes {
		m := int(m64)
		row, off := cursor/s.side, cursor%s.side
		// (1) no chunk spans two rows
		if !c.check((cursor+m-1)/s.side == row, "mountain range chunk", "a chunk spans two rows", wit) {
			return nil, nil
		}
		// (2) the subtree root is the inner node of the row tree
		node, err := s.trees[row].ComputeSubtreeRoot(off, off+m)
		if !c.check(err == nil, "ComputeSubtreeRoot", "the chunk is not an inner node of the row tree", wit) {
			return nil, nil
		}
		okAll = c.check(isPow2(m) && off%m == 0 && bytes.Equal(node, s.levels[row][log2int(m)][off/m]), "ComputeSubtreeRoot", "differs from the node of the bottom-up row tree at that height and position", wit) && okAll
		okAll = c.check(bytes.Equal(node, roots[k]), "GenerateSubtreeRoots", "a subtree root computed from the blob alone differs from the inner node of the row tree over the same shares", wit) && okAll
		nodes = append(nodes, node)
		chunks = append(chunks, chunkRef{row, off, m})
		cursor += m
	}
	c.check(cursor == start+n, "MerkleMountainRangeSizes", "chunk sizes do not add up to the blob's share count", wit)
	// (3) the commitment is the merkle root over exactly those inner nodes
	cm, err := inclusion.CreateCommitment(b, rfc6962Root, s.thr)
	fromRows := rfc6962Root(nodes)
	okAll = c.check(err == nil && bytes.Equal(cm, fromRows), "CreateCommitment", "differs from the merkle root over the row-tree inner nodes", wit) && okAll
	if !okAll {
		return nil, chunks
	}
	return fromRows, chunks
}

// c05Case: a transaction list that contains the focus blob (when given) among random neighbours.
func c05Case(r *Rng, max int, focus *genBlob) []genTx {
	nss := blobNamespaces(r, 2+r.Intn(3))
	if focus != nil && r.Bool(50) {
		// neighbours in the same namespace as well
		nss = append(nss, focus.ns)
	}
	capacity := max * max
	maxBlob := capacity * 482 / 4
	if maxBlob > 9000 {
		maxBlob = 9000
	}
	if maxBlob < 500 {
		maxBlob = 500
	}
	nBlobTx := r.Intn(5)
	if max >= 16 && r.Bool(50) {
		// enough content for a 16x16 (or larger) square
		nBlobTx = 6 + r.Intn(10)
	}
	txs := randTxList(r, r.Intn(4), nBlobTx, maxBlob, false, nss)
	if focus != nil {
		blobs := []genBlob{*focus}
		for r.Bool(35) && len(blobs) < 3 {
			nb := randBlob(r, nss, maxBlob)
			if r.Bool(50) {
				blobs = append(blobs, nb)
			} else {
				blobs = append([]genBlob{nb}, blobs...)
			}
		}
		ft := genTx{raw: blobTxOf(r, blobs), blobs: blobs}
		// somewhere among the blob transactions
		pos := len(txs)
		for pos > 0 && txs[pos-1].blobs != nil && r.Bool(50) {
			pos--
		}
		txs = append(txs[:pos], append([]genTx{ft}, txs[pos:]...)...)
	}
	return txs
}

func sameGenBlob(a, b genBlob) bool {
	return bytes.Equal(a.ns, b.ns) && a.ver == b.ver && bytes.Equal(a.signer, b.signer) && bytes.Equal(a.data, b.data)
}

func bucket(n int, edges []int) string {
	for _, e := range edges {
		if n <= e {
			return "le" + strconv.Itoa(e)
		}
	}
	return "gt" + strconv.Itoa(edges[len(edges)-1])
}

// C05 hot data lengths: share boundaries for version 0 (478 + 482k) and version 1
// (458 + 482k), +-1, and the lengths at which the chunk structure changes.
var c05Hot = []int{1, 2, 457, 458, 459, 477, 478, 479, 939, 940, 941, 959, 960, 961, 962, 1421, 1442, 1443, 1924, 1925, 2406, 2407}

func genC05(c *Ctx) {
	c.rule = "(a) blobs at share-boundary and random lengths x versions 0/1 x thresholds {1,2,3,5,64}: GenerateSubtreeRoots / CreateCommitment vs the model with the Gallina SHA-256; SHA-256 itself on padding-boundary lengths; (b) rows of constructed squares: ComputeSubtreeRoot, isolated tree and Root() vs the model's mirror, inner-node lookup and root-over-level-nodes; (c) direct oracle on squares built from random neighbours (sides 1-16, quick; up to 64 thorough): chunk never spans rows, subtree root = row inner node (nmt and a bottom-up tree), commitment = merkle root of inner nodes, same blob in 2-3 different squares gives one commitment; non-trivial = distinct (data length, version, threshold, start index, side) with >= 2 shares"
	r := c.rng
	thresholds := []int{1, 2, 3, 5, 64}
	// number of 542-byte leaves the model may hash in this run (about 13 ms each)
	budget := 2000
	if c.tier == "thorough" {
		budget = 8000
	}
	spent := 0

	// self-test of the harness' RFC-6962 root on the reference vectors
	for k := 1; k <= len(rfcLeaves); k++ {
		items := make([][]byte, k)
		for i := range items {
			items[i], _ = hex.DecodeString(rfcLeaves[i])
		}
		c.check(hx(rfc6962Root(items)) == rfcRoots[k-1], "rfc6962Root", "differs from the RFC 6962 reference vector", map[string]any{"leaves": k})
		c.add("merkleroot", joinHexList(items))
	}
	c.add("merkleroot", "")

	// SHA-256: padding boundaries (55/56, 63/64/65, 119/120), the leaf and node sizes of the tree
	for _, l := range []int{0, 1, 2, 31, 32, 33, 54, 55, 56, 57, 62, 63, 64, 65, 118, 119, 120, 121, 127, 128, 129, 181, 182, 183, 191, 192, 193, 541, 542, 543, 1000, 1024} {
		c.add("sha256", hx(r.Bytes(l)))
		c.count("sha256_len_" + bucket(l, []int{0, 55, 64, 128, 512, 2048}))
	}
	for i := 0; i < 12*c.scale; i++ {
		c.add("sha256", hx(patterned(r, 1+r.Intn(700))))
	}
	spent += 40

	// (a) blobs alone
	nss := blobNamespaces(r, 4)
	addBlobCase := func(g genBlob, thr int, both bool) {
		shs, err := g.blob().ToShares()
		if err != nil {
			return
		}
		n := len(shs)
		args := []string{hx(g.ns), strconv.Itoa(int(g.ver)), showSigner(g.signer), hx(g.data), strconv.Itoa(thr)}
		if spent+2*n < budget {
			c.add("subtreeroots", args...)
			spent += 2 * n
			if both {
				c.add("commitment", args...)
				spent += 2 * n
			}
		}
		w := inclusion.SubTreeWidth(n, thr)
		sizes, _ := inclusion.MerkleMountainRangeSizes(uint64(n), uint64(w))
		c.count("alone_shares_" + bucket(n, []int{1, 2, 4, 8, 16, 64}))
		c.count("alone_roots_" + bucket(len(sizes), []int{1, 2, 4, 8, 64}))
		c.count(fmt.Sprintf("alone_v%d", g.ver))
		c.count(fmt.Sprintf("alone_thr_%d", thr))
		// oracle: structure of the roots
		roots, err := inclusion.GenerateSubtreeRoots(g.blob(), thr)
		wit := map[string]any{"version": int(g.ver), "data_len": len(g.data), "threshold": thr}
		if c.check(err == nil && len(roots) == len(sizes), "GenerateSubtreeRoots", "error or wrong number of roots", wit) {
			ok := true
			for _, rt := range roots {
				ok = ok && len(rt) == 90 && bytes.Equal(rt[:29], g.ns) && bytes.Equal(rt[29:58], g.ns)
			}
			c.check(ok, "GenerateSubtreeRoots", "a root is not namespace || namespace || 32-byte digest", wit)
		}
		if n >= 2 {
			c.mark(fmt.Sprintf("alone len=%d v%d thr=%d", len(g.data), g.ver, thr))
		}
	}
	mk := func(l int, ver uint8) genBlob {
		g := genBlob{ns: pick(r, nss), ver: ver, data: patterned(r, l)}
		if ver == 1 {
			g.signer = randSigner(r)
		}
		return g
	}
	for i, l := range c05Hot {
		for ver := uint8(0); ver <= 1; ver++ {
			g := mk(l, ver)
			for j, thr := range thresholds {
				// every (length, version) with two of the thresholds plus 64; the commitment for a third of them
				if c.tier == "quick" && thr != 64 && (i+j+int(ver))%3 != 0 {
					continue
				}
				addBlobCase(g, thr, (i+j)%3 == 0)
			}
		}
	}
	// share counts whose mountain range has MORE roots than the threshold (the trailing mountains overflow it):
	// found by enumeration for every threshold; the smallest two per threshold, plus 255 shares for 64
	for _, thr := range thresholds {
		found := 0
		for n := 2; n <= 300 && found < 2; n++ {
			w := refSubtreeWidth(n, thr)
			roots := n / w
			for rest := n % w; rest > 0; rest &= rest - 1 {
				roots++
			}
			if roots > thr {
				if thr == 64 && found == 1 {
					break
				}
				found++
				for ver := uint8(0); ver <= 1; ver++ {
					dl := 478 + 482*(n-1) - 25 - int(ver)*0
					if ver == 1 {
						dl = 458 + 482*(n-1) - 5
					}
					addBlobCase(mk(dl, ver), thr, false)
				}
				c.count(fmt.Sprintf("roots_exceed_threshold_%d", thr))
			}
		}
	}
	for i := 0; i < 6*c.scale; i++ {
		// several KiB: 5-40 shares, so that chunks of different sizes occur
		g := mk(2000+r.Intn(16000), uint8(r.Intn(2)))
		addBlobCase(g, pick(r, thresholds), i%2 == 0)
	}
	// (c) + (b): squares
	maxes := []int{2, 4, 8, 16, 16}
	if c.tier == "thorough" {
		maxes = append(maxes, 32, 64)
	}
	nSquares := 150 * c.scale
	for i := 0; i < nSquares; i++ {
		thr := pick(r, thresholds)
		// the focus blob: hot or random length, placed in up to three different squares
		l := sparseLen(r, 6000)
		if r.Bool(40) {
			l = pick(r, c05Hot)
		}
		if r.Bool(15) {
			l = 3000 + r.Intn(20000)
		}
		focus := mk(l, uint8(r.Intn(2)))
		if i%5 == 0 {
			// the focus blob built from views of ONE message buffer (namespace || signer || data, spare capacity
			// behind): committing twice, and committing an identical blob held in other memory, must agree and must
			// leave the buffer alone
			msg := make([]byte, 0, len(focus.ns)+len(focus.signer)+len(focus.data)+1024)
			msg = append(append(append(msg, focus.ns...), focus.signer...), focus.data...)
			snap := append([]byte{}, msg...)
			nsv, err := share.NewNamespaceFromBytes(msg[:29])
			var sg []byte
			if focus.signer != nil {
				sg = msg[29 : 29+len(focus.signer)]
			}
			if err == nil {
				if vb, err := share.NewBlob(nsv, msg[29+len(focus.signer):], focus.ver, sg); err == nil {
					wv := map[string]any{"version": int(focus.ver), "data_len": len(focus.data), "threshold": thr}
					c1, e1 := inclusion.CreateCommitment(vb, rfc6962Root, thr)
					c2, e2 := inclusion.CreateCommitment(vb, rfc6962Root, thr)
					c3, e3 := inclusion.CreateCommitment(focus.blob(), rfc6962Root, thr)
					c.check(e1 == nil && e2 == nil && e3 == nil && bytes.Equal(c1, c2) && bytes.Equal(c1, c3), "CreateCommitment", "differs between two calls or between identical blobs held in different memory", wv)
					c.check(bytes.Equal(msg, snap), "CreateCommitment", "modified the buffer the blob's fields are views of", wv)
					c.count("commit_on_views")
				}
			}
		}
		var commitments [][]byte
		var where []string
		placements3 := 2 + r.Intn(2)
		for v := 0; v < placements3; v++ {
			max := pick(r, maxes)
			txs := c05Case(r, max, &focus)
			thr := thr
			if v == 0 && i%8 == 7 {
				// equal data lengths, version 0 then 1, at a step of the subtree width
				txs, thr, max = sameLengthPairCase(r, nss, false, max)
				c.count("same_length_v0_v1_pair")
			}
			sq, kept, err := square.Build(rawsOf(txs), max, thr)
			wit := map[string]any{"max": max, "thr": thr, "focus_version": int(focus.ver), "focus_len": len(focus.data), "txs": len(txs)}
			if !c.check(err == nil, "Build", "error", wit) {
				continue
			}
			s := newC05Square(c, sq, kept, max, thr, wit)
			if s == nil {
				continue
			}
			c.count(fmt.Sprintf("side_%d", s.side))
			nNormal := 0
			for _, k := range kept {
				if _, isBlob, _ := tx.UnmarshalBlobTx(k); !isBlob {
					nNormal++
				}
			}
			pl, err := placements(sq, kept)
			if !c.check(err == nil, "WrappedPFBs", "cannot recover the blobs of the square", wit) {
				continue
			}
			for _, p := range pl {
				rg, err := square.BlobShareRange(kept, nNormal+p.p, p.j, max, thr)
				bw := map[string]any{"max": max, "thr": thr, "version": int(p.g.ver), "data_len": len(p.g.data), "pfb": p.p, "blob": p.j, "side": s.side}
				if !c.check(err == nil && rg.End-rg.Start == len(p.shares), "BlobShareRange", "error or wrong length", bw) {
					continue
				}
				bw["start"] = rg.Start
				cm, chunks := s.checkBlob(c, p.g, rg.Start, bw)
				n := len(p.shares)
				c.count("blob_shares_" + bucket(n, []int{1, 2, 4, 8, 16, 64}))
				c.count("blob_chunks_" + bucket(len(chunks), []int{1, 2, 4, 8, 64}))
				c.count(fmt.Sprintf("blob_v%d", p.g.ver))
				c.count(fmt.Sprintf("blob_thr_%d", thr))
				if rg.Start/s.side != (rg.End-1)/s.side {
					c.count("blob_spans_rows")
				}
				if n >= 2 {
					c.mark(fmt.Sprintf("len=%d v%d thr=%d start=%d side=%d", len(p.g.data), p.g.ver, thr, rg.Start, s.side))
				}
				if sameGenBlob(p.g, focus) && cm != nil {
					commitments = append(commitments, cm)
					where = append(where, fmt.Sprintf("side %d start %d", s.side, rg.Start))
				}
				// (b) correspondence on rows of this square: the chunks of this blob, and other ranges
				if s.side >= 2 && s.side <= 16 && spent+3*s.side < budget && len(chunks) > 0 && r.Bool(30) {
					ch := pick(r, chunks)
					c.add("rownode", joinHexList(s.rows[ch.row]), strconv.Itoa(ch.off), strconv.Itoa(ch.size))
					spent += s.side + 2*ch.size
					c.count("rownode_chunk")
					if r.Bool(40) {
						// an arbitrary range of the same row: mostly not an inner node
						st, ln := r.Intn(s.side), 1+r.Intn(s.side)
						if r.Bool(30) {
							ln = 1 << r.Intn(log2int(s.side)+1)
							st = r.Intn(s.side/ln+1) * ln // may run past the end
						}
						c.add("rownode", joinHexList(s.rows[ch.row]), strconv.Itoa(st), strconv.Itoa(ln))
						spent += s.side + 2*ln
						c.count("rownode_other")
					}
				}
			}
		}
		// (4) one commitment wherever the blob is placed
		if len(commitments) >= 2 {
			same := true
			for _, cm := range commitments[1:] {
				same = same && bytes.Equal(cm, commitments[0])
			}
			c.check(same, "commitment", "the same blob has different commitments in different squares", map[string]any{"version": int(focus.ver), "data_len": len(focus.data), "thr": thr, "where": where})
			c.count("focus_placed_" + strconv.Itoa(len(commitments)))
		}
	}
	// rows that the tree refuses (namespace order) and a row with tail padding only
	{
		a := refPadding(nss[0], 0)
		b := refPadding(tailNs, 0)
		lo, hi := nss[0], nss[1]
		if bytes.Compare(lo, hi) > 0 {
			lo, hi = hi, lo
		}
		c.add("rownode", joinHexList([][]byte{b, a}), "0", "2")
		c.add("rownode", joinHexList([][]byte{refPadding(hi, 0), refPadding(lo, 0), b, b}), "2", "2")
		c.add("rownode", joinHexList([][]byte{refPadding(lo, 0), refPadding(hi, 0), b, b}), "0", "4")
		c.add("rownode", joinHexList([][]byte{refPadding(lo, 0), refPadding(hi, 0), b, b}), "2", "4")
		c.add("rownode", joinHexList([][]byte{refPadding(lo, 0), refPadding(hi, 0), b, b}), "1", "2")
		c.add("rownode", joinHexList([][]byte{refPadding(lo, 0), refPadding(hi, 0), b, b}), "3", "0")
		// parity namespace on the right: the maximum of the parent ignores it
		par := refPadding(share.ParitySharesNamespace.Bytes(), 0)
		c.add("rownode", joinHexList([][]byte{refPadding(lo, 0), b, par, par}), "0", "2")
		c.add("rownode", joinHexList([][]byte{refPadding(lo, 0), b, par, par}), "2", "2")
		// a row whose length is not a power of two
		c.add("rownode", joinHexList([][]byte{refPadding(lo, 0), refPadding(hi, 0), b, b, b, b}), "4", "2")
		c.add("rownode", joinHexList([][]byte{refPadding(lo, 0), refPadding(hi, 0), b, b, b, b}), "0", "4")
		c.add("rownode", joinHexList([][]byte{refPadding(lo, 0), refPadding(hi, 0), b, b, b, b}), "2", "4")
	}
	c.dist["model_leaf_hash_estimate"] = spent
	helperCases(c)
	hugeBlobCountCase(c, r)
}

// hugeBlobCountCase (Go side only, 512x512): ONE blob transaction with 65 537 one-share blobs followed by a
// transaction whose blob has three shares.  Blob indexes beyond 2^16 exist; the range reported for a blob must
// be the range its own shares occupy (so that its subtree roots are the row-tree nodes over exactly that range):
// (tx 0, blob 65536) and (tx 1, blob 0) must not be confused by any packed or truncated lookup key.
func hugeBlobCountCase(c *Ctx, r *Rng) {
	wit := map[string]any{"case": "one blob tx with 65537 one-share blobs, then a tx with a 3-share blob; max 512"}
	c.guard("BlobShareRange", wit, func() {
		ns := append(make([]byte, 19), r.Bytes(10)...)
		ns2 := append(make([]byte, 19), r.Bytes(10)...)
		n := 65537
		blobs := make([]*share.Blob, n)
		for i := range blobs {
			b, err := share.NewBlob(nsOf(ns), []byte{byte(i), byte(i >> 8), 1}, 0, nil)
			if err != nil {
				panic("harness: NewBlob: " + err.Error())
			}
			blobs[i] = b
		}
		raw1, err := tx.MarshalBlobTx([]byte("inner-1"), blobs...)
		if err != nil {
			panic("harness: MarshalBlobTx: " + err.Error())
		}
		big, _ := share.NewBlob(nsOf(ns2), r.Bytes(478+482+100), 0, nil)
		raw2, _ := tx.MarshalBlobTx([]byte("inner-2"), big)
		kept := [][]byte{raw1, raw2}
		for _, q := range [][3]int{{0, 65536, 1}, {0, 65535, 1}, {0, 0, 1}, {1, 0, 3}} {
			rg, err := square.BlobShareRange(kept, q[0], q[1], 512, 64)
			c.check(err == nil && rg.End-rg.Start == q[2], "BlobShareRange", "the reported range does not have the blob's own share count",
				map[string]any{"tx": q[0], "blob": q[1], "want_shares": q[2], "case": wit["case"]})
		}
		c.count("blob_index_beyond_2^16")
		c.goOnly++
	})
}
