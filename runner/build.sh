#!/bin/sh
# Extract the model and build the runner.  Requires coq/Model/*.vo to be built.
set -e
cd "$(dirname "$0")"
rm -f model.ml model.mli
coqc -Q ../coq/Model GS.Model -Q ../coq/Spec GS.Spec ../coq/Extract/Extract.v >/dev/null
ocamlfind ocamlopt -O3 -w -a model.mli model.ml driver.ml -o model_runner 2>&1 | grep -v "^ocamlfind: \[WARNING\]\|options -O3 is only relevant" || true
test -x model_runner
