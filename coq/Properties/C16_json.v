(* C16, JSON layer - Decoders are total: malformed input yields an error, never a panic.
   Statements only.  Model/Json.v models Blob.UnmarshalJSON, Share.UnmarshalJSON and
   Namespace.UnmarshalJSON (encoding/json + encoding/base64 restricted to the subset
   [json_in_subset]; outside the subset the model answers Err).  The theorems below hold for
   EVERY byte string, inside or outside that subset: none of the outcome-valued functions of
   Json.v reaches [Fault] (the model's outcome for a Go panic / out-of-range slice).

   Functions of Json.v returning [option] (b64_val, base64_decode, parse_u32, word_tok,
   step_idle, lex, scalar_of_tok, parse_members, parse_json, json_value, field_of_key) have no
   fault constructor: None is "rejected", which every caller turns into Err (or, for
   field_of_key, into "unknown key, skipped"); see C16_json_rejected_text_is_error.

   Fuel: the decoding direction of Json.v uses no fuel (structural recursion on the text, the
   token list and the member list), so there is no out-of-fuel path to exclude, on the subset
   or elsewhere.  The only fuelled function is the decimal PRINTER dec_digits / print_dec of
   the encoding direction; C16_json_print_dec_fuel shows its fuel is never exhausted.

   Panics inside encoding/json, encoding/base64 or the runtime themselves are outside the
   model (exercised by the malformed-input oracle of the harness only). *)
From Coq Require Import List NArith String.
From GS.Model Require Import Base Varint Namespace ShareFmt Blob Proto Json.
From GS.Proofs Require Import TotalProofs JsonProofs JsonTotalProofs.
Import ListNotations.
Open Scope N_scope.

(* ---- the three decoders ---- *)
Theorem C16_unmarshal_blob_json : forall j, unmarshal_blob_json j <> Fault.
Proof. exact unmarshal_blob_json_no_fault. Qed.
Print Assumptions C16_unmarshal_blob_json.

Theorem C16_unmarshal_share_json : forall j, unmarshal_share_json j <> Fault.
Proof. exact share_json_no_fault. Qed.
Print Assumptions C16_unmarshal_share_json.

Theorem C16_unmarshal_namespace_json : forall j, unmarshal_namespace_json j <> Fault.
Proof. exact unmarshal_namespace_json_no_fault. Qed.
Print Assumptions C16_unmarshal_namespace_json.

(* the same in positive form: a value or an error *)
Theorem C16_json_decoders_total : forall j,
  ((exists b, unmarshal_blob_json j = Ok b) \/ unmarshal_blob_json j = Err) /\
  ((exists s, unmarshal_share_json j = Ok s) \/ unmarshal_share_json j = Err) /\
  ((exists n, unmarshal_namespace_json j = Ok n) \/ unmarshal_namespace_json j = Err).
Proof. exact json_decoders_total. Qed.
Print Assumptions C16_json_decoders_total.

(* ---- the intermediate outcome-valued functions ---- *)
Theorem C16_json_fields : forall j, json_fields j <> Fault.
Proof. exact json_fields_no_fault. Qed.
Print Assumptions C16_json_fields.

Theorem C16_json_bytes : forall j, json_bytes j <> Fault.
Proof. exact json_bytes_no_fault. Qed.
Print Assumptions C16_json_bytes.

Theorem C16_new_blob_from_json_fields : forall st, new_blob_from_json_fields st <> Fault.
Proof. exact new_blob_from_json_fields_no_fault. Qed.
Print Assumptions C16_new_blob_from_json_fields.

Theorem C16_apply_member : forall acc m, acc <> Fault -> apply_member acc m <> Fault.
Proof. exact apply_member_no_fault. Qed.
Print Assumptions C16_apply_member.

Theorem C16_decode_bytes_value : forall v, decode_bytes_value v <> Fault.
Proof. exact decode_bytes_value_no_fault. Qed.
Print Assumptions C16_decode_bytes_value.

Theorem C16_decode_u32_value : forall v old, decode_u32_value v old <> Fault.
Proof. exact decode_u32_value_no_fault. Qed.
Print Assumptions C16_decode_u32_value.

Theorem C16_new_namespace_from_bytes : forall b, new_namespace_from_bytes b <> Fault.
Proof. exact new_namespace_from_bytes_no_fault. Qed.
Print Assumptions C16_new_namespace_from_bytes.

(* ---- malformed input yields an ERROR ---- *)

(* whatever the text layer rejects (None) is an error of every decoder *)
Theorem C16_json_rejected_text_is_error : forall j, json_value j = None ->
  json_fields j = Err /\ json_bytes j = Err /\
  unmarshal_blob_json j = Err /\ unmarshal_share_json j = Err /\ unmarshal_namespace_json j = Err.
Proof. exact json_value_none_err. Qed.
Print Assumptions C16_json_rejected_text_is_error.

(* a byte >= 0x80 anywhere in the text (outside the subset) *)
Theorem C16_json_non_ascii_is_error : forall j c, In c j -> 128 <= b2n c ->
  unmarshal_blob_json j = Err /\ unmarshal_share_json j = Err /\ unmarshal_namespace_json j = Err.
Proof. exact non_ascii_err. Qed.
Print Assumptions C16_json_non_ascii_is_error.

(* ---- fuel (encoding side only) ---- *)
Theorem C16_json_print_dec_fuel : forall n k,
  dec_digits (S (N.to_nat (N.log2 n)) + k) n [] = print_dec n.
Proof. exact print_dec_fuel_never_exhausted. Qed.
Print Assumptions C16_json_print_dec_fuel.

(* ---- non-vacuity: malformed texts and what the three decoders answer ---- *)
Definition c16j_txt (s : string) : bytes := list_byte_of_string s.
Definition c16j_all (j : bytes) : outcome blob * outcome share * outcome namespace :=
  (unmarshal_blob_json j, unmarshal_share_json j, unmarshal_namespace_json j).
Definition c16j_err : outcome blob * outcome share * outcome namespace := (Err, Err, Err).

(* the well-formed neighbours decode, so Err below is not the answer to everything *)
Definition c16j_ns : namespace := repeat Byte.x00 28 ++ [Byte.x01].
Example C16_json_wellformed :
  c16j_all (c16j_txt "{""namespace_id"":""AAAAAAAAAAAAAAAAAAAAAAAAAAAAAAAAAAAAAQ=="",""data"":""AQ==""}")
    = (Ok (mk_blob c16j_ns [Byte.x01] 0 None), Err, Err) /\
  c16j_all (c16j_txt """AAAAAAAAAAAAAAAAAAAAAAAAAAAAAAAAAAAAAAE=""") = (Err, Err, Ok c16j_ns) /\
  unmarshal_share_json (marshal_share_json (repeat Byte.x2a 512)) = Ok (repeat Byte.x2a 512).
Proof. vm_compute. repeat split; reflexivity. Qed.

(* truncated object / truncated string / trailing comma / empty text *)
Example C16_json_truncated :
  c16j_all (c16j_txt "{""data"":""AQ==""") = c16j_err /\
  c16j_all (c16j_txt "{""data"":""AQ=") = c16j_err /\
  c16j_all (c16j_txt """AAAAAAAAAAAAAAAAAAAAAAAAAAAAAAAAAAAAAAE=") = c16j_err /\
  c16j_all (c16j_txt "{""data"":""AQ=="",}") = c16j_err /\
  c16j_all (c16j_txt "") = c16j_err.
Proof. vm_compute. repeat split; reflexivity. Qed.

(* bad base64: a character outside the alphabet, too much padding, missing padding,
   data after the padding *)
Example C16_json_bad_base64 :
  c16j_all (c16j_txt "{""data"":""AQ=*""}") = c16j_err /\
  c16j_all (c16j_txt """A===""") = c16j_err /\
  c16j_all (c16j_txt """AQ""") = c16j_err /\
  c16j_all (c16j_txt """AQ==AQ==""") = c16j_err.
Proof. vm_compute. repeat split; reflexivity. Qed.

(* number overflow (2^32, and far beyond 2^64), negative, fractional; a number for a []byte *)
Example C16_json_number_overflow :
  c16j_all (c16j_txt "{""share_version"":4294967296}") = c16j_err /\
  c16j_all (c16j_txt "{""namespace_version"":99999999999999999999999999}") = c16j_err /\
  c16j_all (c16j_txt "{""share_version"":-1}") = c16j_err /\
  c16j_all (c16j_txt "{""share_version"":1.0}") = c16j_err /\
  c16j_all (c16j_txt "4294967296") = c16j_err /\
  json_fields (c16j_txt "{""share_version"":4294967295}")
    = Ok (mk_jbf (mk_bp [] [] 4294967295 0 []) false).
Proof. vm_compute. repeat split; reflexivity. Qed.

(* arrays, nested arrays, nested objects (outside the subset: the model answers Err) *)
Example C16_json_nested :
  json_in_subset (c16j_txt "[[1],[2]]") = false /\
  c16j_all (c16j_txt "[[1],[2]]") = c16j_err /\
  c16j_all (c16j_txt "{""data"":[1,2]}") = c16j_err /\
  c16j_all (c16j_txt "{""data"":{""data"":""AQ==""}}") = c16j_err.
Proof. vm_compute. repeat split; reflexivity. Qed.

(* a non-ASCII byte (UTF-8 e-acute) after the value, inside a string, inside a key *)
Example C16_json_non_ascii :
  json_in_subset (c16j_txt "{""data"":""AQ==""}" ++ [Byte.xc3; Byte.xa9]) = false /\
  c16j_all (c16j_txt "{""data"":""AQ==""}" ++ [Byte.xc3; Byte.xa9]) = c16j_err /\
  c16j_all [Byte.x22; Byte.xc3; Byte.xa9; Byte.x22] = c16j_err /\
  c16j_all (c16j_txt "{""" ++ [Byte.xc3; Byte.xa9] ++ c16j_txt """:1}") = c16j_err /\
  c16j_all (repeat Byte.xff 7) = c16j_err.
Proof. vm_compute. repeat split; reflexivity. Qed.

(* syntactically fine, semantically rejected: null, an empty non-nil signer, wrong sizes *)
Example C16_json_semantic :
  c16j_all (c16j_txt "null") = c16j_err /\
  json_fields (c16j_txt "null") = Ok jbf_empty /\
  c16j_all (c16j_txt "{""data"":""AQ=="",""signer"":""""}") = c16j_err /\
  c16j_all (c16j_txt """AQ==""") = c16j_err.
Proof. vm_compute. repeat split; reflexivity. Qed.

(* the fuel statement on a concrete number *)
Example C16_json_print_dec_example :
  print_dec 4294967295 = c16j_txt "4294967295" /\ dec_digits 1000 4294967295 [] = print_dec 4294967295.
Proof. vm_compute. split; reflexivity. Qed.
