(* C11 (code model) - Compact shares parse correctly out of context.
   Statements only; proofs in Proofs/CompactE2EProofs.v.

   End-to-end statement about the code model: writer (CompactWriterProofs: NewCompactShareSplitter,
   WriteTx and Export of Model/Compact.v never fail and export the closed form [compact_spec_ix];
   SplitterHistoryProofs: the same after any history of writes, exports and counts) + parser
   (SubrangeProofs.parse_subrange / parse_subrange_sublist: ParseTxs on every sub-range of the
   closed form).  C11.v states the parser half on the closed form; here the shares are the ones
   the WRITER model exported:

     new_csplitter ns 0 ; write_txs c0 txs  (or a history  run c0 ops) ; cs_export c = Ok (c', shs)

   and for every 0 <= lo <= hi <= length shs, ParseTxs(shs[lo:hi]) is
   parse_txs (firstn (hi - lo) (skipn lo shs)).

   [sub_expected lo hi txs] is, by definition (C11_code_expected_is_comprehension),

     [ tx_k | coff lo <= start_k  /\  end_k <= min (coff hi) (length (stream txs)) ]   in order,

   the transactions that begin inside shares lo .. hi-1 and are complete within them
   (start_k, end_k: offsets of the length-prefixed transaction k in the stream; share j carries
   the stream offsets [coff j, coff (j+1)), coff 0 = 0, coff (j+1) = 474 + 478 j). *)
From Coq Require Import List Arith NArith.
From GS.Model Require Import Base Varint Namespace ShareFmt Compact Builder.
From GS.Spec Require Import ShareSpec CompactSpec.
From GS.Proofs Require Import SubrangeProofs SplitterHistoryProofs CompactE2EProofs.
Import ListNotations.
Open Scope nat_scope.

Theorem C11_code_expected_is_comprehension : forall lo hi txs,
  sub_expected lo hi txs =
  map fst (filter (fun p => Nat.leb (coff lo) (snd p) &&
                            Nat.leb (snd p + length (marshal_delimited (fst p)))
                                    (Nat.min (coff hi) (length (stream txs))))%bool
                  (combine txs (ustarts 0 (units txs)))).
Proof. exact (fun lo hi txs => eq_refl). Qed.
Print Assumptions C11_code_expected_is_comprehension.

(* Main theorem: for every list of non-empty transactions in a compact namespace, construction,
   the writes and the export succeed, and every sub-range [lo, hi) of the exported shares parses
   to exactly the transactions that begin in it and are complete in it (also for lo = hi) - and
   hence never to a transaction that was not written: whatever the parser returns for the
   sub-range is a contiguous, order-preserving piece of the written list. *)
Theorem C11_code_subrange : forall ns txs,
  length ns = 29 -> is_compact_ns ns = true -> Forall (fun t => t <> []) txs ->
  (lenN (stream txs) < 4294967296)%N ->
  exists c0 c c' shs,
    new_csplitter ns 0 = Ok c0 /\ write_txs c0 txs = Ok c /\ cs_export c = Ok (c', shs) /\
    forall lo hi, lo <= hi <= length shs ->
      parse_txs (firstn (hi - lo) (skipn lo shs)) = Ok (sub_expected lo hi txs) /\
      (forall res, parse_txs (firstn (hi - lo) (skipn lo shs)) = Ok res ->
         exists pre post, txs = pre ++ res ++ post).
Proof. exact compact_subrange_code_total. Qed.
Print Assumptions C11_code_subrange.

(* the same in the form "whatever the writer returned" *)
Theorem C11_code_subrange_any : forall ns txs c0 c c' shs,
  length ns = 29 -> is_compact_ns ns = true -> Forall (fun t => t <> []) txs ->
  (lenN (stream txs) < 4294967296)%N ->
  new_csplitter ns 0 = Ok c0 -> write_txs c0 txs = Ok c -> cs_export c = Ok (c', shs) ->
  forall lo hi, lo <= hi <= length shs ->
    parse_txs (firstn (hi - lo) (skipn lo shs)) = Ok (sub_expected lo hi txs) /\
    (forall res, parse_txs (firstn (hi - lo) (skipn lo shs)) = Ok res ->
       exists pre post, txs = pre ++ res ++ post).
Proof. exact compact_subrange_code. Qed.
Print Assumptions C11_code_subrange_any.

(* without the 32-bit bound on the stream (the parser never reads the sequence-length field):
   transactions non-empty and shorter than 2^64 bytes *)
Theorem C11_code_subrange_unbounded : forall ns txs c0 c c' shs,
  length ns = 29 -> is_compact_ns ns = true ->
  Forall (fun tx => 0 < length tx /\ (lenN tx < 2 ^ 64)%N) txs ->
  new_csplitter ns 0 = Ok c0 -> write_txs c0 txs = Ok c -> cs_export c = Ok (c', shs) ->
  forall lo hi, lo <= hi <= length shs ->
    parse_txs (firstn (hi - lo) (skipn lo shs)) = Ok (sub_expected lo hi txs) /\
    (forall res, parse_txs (firstn (hi - lo) (skipn lo shs)) = Ok res ->
       exists pre post, txs = pre ++ res ++ post).
Proof. exact compact_subrange_code_unbounded. Qed.
Print Assumptions C11_code_subrange_unbounded.

(* After ANY history of WriteTx / Export / Count on a fresh splitter ([writes_of ops] are the
   transactions written, in order): the history and a final Export succeed, and every sub-range
   of the finally exported shares parses as above. *)
Theorem C11_code_history : forall ns ops,
  length ns = 29 -> is_compact_ns ns = true -> Forall (fun t => t <> []) (writes_of ops) ->
  (lenN (stream (writes_of ops)) < 4294967296)%N ->
  exists c0 c1 x1 shs,
    new_csplitter ns 0 = Ok c0 /\ run c0 ops = Ok c1 /\ cs_export c1 = Ok (x1, shs) /\
    forall lo hi, lo <= hi <= length shs ->
      parse_txs (firstn (hi - lo) (skipn lo shs)) = Ok (sub_expected lo hi (writes_of ops)) /\
      (forall res, parse_txs (firstn (hi - lo) (skipn lo shs)) = Ok res ->
         exists pre post, writes_of ops = pre ++ res ++ post).
Proof. exact compact_subrange_history_total. Qed.
Print Assumptions C11_code_history.

Theorem C11_code_history_any : forall ns ops c0 c1 x1 shs,
  length ns = 29 -> is_compact_ns ns = true -> Forall (fun t => t <> []) (writes_of ops) ->
  (lenN (stream (writes_of ops)) < 4294967296)%N ->
  new_csplitter ns 0 = Ok c0 -> run c0 ops = Ok c1 -> cs_export c1 = Ok (x1, shs) ->
  forall lo hi, lo <= hi <= length shs ->
    parse_txs (firstn (hi - lo) (skipn lo shs)) = Ok (sub_expected lo hi (writes_of ops)) /\
    (forall res, parse_txs (firstn (hi - lo) (skipn lo shs)) = Ok res ->
       exists pre post, writes_of ops = pre ++ res ++ post).
Proof. exact compact_subrange_history. Qed.
Print Assumptions C11_code_history_any.

(* what is selected: a contiguous piece; everything for the whole sequence; nothing for a range
   lying wholly inside one (long) transaction *)
Theorem C11_code_expected_contiguous : forall lo hi txs,
  exists pre post, txs = pre ++ sub_expected lo hi txs ++ post.
Proof. exact sub_expected_contiguous. Qed.
Print Assumptions C11_code_expected_contiguous.

Theorem C11_code_expected_full : forall txs,
  sub_expected 0 (cneeded (length (stream txs))) txs = txs.
Proof. exact sub_expected_full. Qed.
Print Assumptions C11_code_expected_full.

Theorem C11_code_expected_inside_one_tx : forall lo hi t1 tx t2,
  length (stream t1) < coff lo ->
  coff hi < length (stream t1) + length (marshal_delimited tx) ->
  sub_expected lo hi (t1 ++ tx :: t2) = [].
Proof. exact sub_expected_inside. Qed.
Print Assumptions C11_code_expected_inside_one_tx.

(* ---- concrete instances (non-vacuity): through the writer model, by computation ---- *)
Definition mkc (n : nat) (b : byte) : bytes := repeat b n.
Definition code_shares (ns : namespace) (txs : list bytes) : outcome (list share) :=
  do c0 <- new_csplitter ns 0; do c <- write_txs c0 txs; do r <- cs_export c; Ok (snd r).
Definition code_shares_ops (ns : namespace) (ops : list sop) : outcome (list share) :=
  do c0 <- new_csplitter ns 0; do c <- run c0 ops; do r <- cs_export c; Ok (snd r).
Definition samec (a : outcome (list bytes)) (b : list bytes) : bool :=
  match a with
  | Ok l => Nat.eqb (length l) (length b) &&
            forallb (fun p => bytes_eqb (fst p) (snd p)) (combine l b)
  | _ => false
  end.
(* every sub-range 0 <= lo <= hi <= n of the shares the writer exported: the parser agrees
   with the characterisation *)
Definition all_subranges_agree_on (shs : list share) (txs : list bytes) : bool :=
  let n := length shs in
  forallb (fun lo => forallb (fun hi =>
     samec (parse_txs (firstn (hi - lo) (skipn lo shs))) (sub_expected lo hi txs))
     (seq lo (S n - lo))) (seq 0 (S n)).
Definition code_all_subranges_agree (txs : list bytes) : bool :=
  match code_shares tx_ns txs with Ok shs => all_subranges_agree_on shs txs | _ => false end.

(* D3 witness: a 2000-byte transaction of 0x03 bytes spans shares 0..4 *)
Definition tc_d3 := [mkc 10 Byte.x03; mkc 2000 Byte.x03; mkc 20 Byte.x03].
(* D4 witness: the prefix 81 80 01 of the second transaction is cut after two bytes *)
Definition tc_d4 := [mkc 470 Byte.x05; mkc 16385 Byte.x80].
(* prefix cut after one byte; payload bytes that look like delimiters; a unit that ends
   exactly at a share end; a one-byte transaction *)
Definition tc_mix := [mkc 471 Byte.x01; mkc 16385 Byte.x81; mkc 200 Byte.x81; mkc 1 Byte.x07;
                      mkc 252 Byte.x00; mkc 476 Byte.x02; mkc 5 Byte.x09].

Example C11_code_hypotheses_hold :
  length tx_ns = 29 /\ is_compact_ns tx_ns = true /\
  Forall (fun t => t <> []) tc_d3 /\ (lenN (stream tc_d3) < 4294967296)%N /\
  Forall (fun t => t <> []) tc_d4 /\ (lenN (stream tc_d4) < 4294967296)%N.
Proof.
  split; [reflexivity|]. split; [reflexivity|].
  split; [repeat constructor; discriminate|]. split; [vm_compute; reflexivity|].
  split; [repeat constructor; discriminate|]. vm_compute; reflexivity.
Qed.

(* D3: the range (1,5) begins in a share lying wholly inside the 2000-byte transaction; only
   the last transaction is returned, nothing is fabricated from the 0x03 payload bytes *)
Example C11_code_d3_ranges :
  match code_shares tx_ns tc_d3 with
  | Ok shs =>
      length shs = 5 /\
      parse_txs (firstn (5 - 1) (skipn 1 shs)) = Ok [mkc 20 Byte.x03] /\
      parse_txs (firstn (5 - 2) (skipn 2 shs)) = Ok [mkc 20 Byte.x03] /\
      parse_txs (firstn (4 - 1) (skipn 1 shs)) = Ok [] /\
      parse_txs (firstn (1 - 0) (skipn 0 shs)) = Ok [mkc 10 Byte.x03] /\
      parse_txs (firstn (5 - 0) (skipn 0 shs)) = Ok tc_d3 /\
      sub_expected 1 5 tc_d3 = [mkc 20 Byte.x03] /\ sub_expected 1 4 tc_d3 = [] /\
      sub_expected 0 5 tc_d3 = tc_d3
  | _ => False
  end.
Proof. vm_compute. repeat split. Qed.

(* D4: the range (0,1) ends inside the 3-byte length prefix of the second transaction *)
Example C11_code_d4_range :
  match code_shares tx_ns tc_d4 with
  | Ok shs =>
      length shs = 36 /\
      parse_txs (firstn (1 - 0) (skipn 0 shs)) = Ok [mkc 470 Byte.x05] /\
      sub_expected 0 1 tc_d4 = [mkc 470 Byte.x05] /\
      firstn 2 (skipn 472 (stream tc_d4)) = [Byte.x81; Byte.x80]
  | _ => False
  end.
Proof. vm_compute. repeat split. Qed.

Example C11_code_all_subranges_d3 : code_all_subranges_agree tc_d3 = true.
Proof. vm_compute. reflexivity. Qed.
Example C11_code_all_subranges_d4 : code_all_subranges_agree tc_d4 = true.
Proof. vm_compute. reflexivity. Qed.
Example C11_code_all_subranges_mix : code_all_subranges_agree tc_mix = true.
Proof. vm_compute. reflexivity. Qed.

(* the D3 list written through a history with exports and counts in between *)
Definition tc_ops : list sop :=
  [SExport; SWrite (mkc 10 Byte.x03); SCount; SExport; SWrite (mkc 2000 Byte.x03); SExport;
   SExport; SWrite (mkc 20 Byte.x03); SCount].
Example C11_code_history_d3 :
  writes_of tc_ops = tc_d3 /\
  match code_shares_ops tx_ns tc_ops with
  | Ok shs =>
      length shs = 5 /\
      parse_txs (firstn (5 - 1) (skipn 1 shs)) = Ok [mkc 20 Byte.x03] /\
      parse_txs (firstn (4 - 1) (skipn 1 shs)) = Ok [] /\
      all_subranges_agree_on shs tc_d3 = true
  | _ => False
  end.
Proof. vm_compute. repeat split. Qed.
