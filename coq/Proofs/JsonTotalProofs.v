(* C16 for the JSON layer (Model/Json.v): Blob.UnmarshalJSON, Share.UnmarshalJSON and
   Namespace.UnmarshalJSON, as modelled, answer with a value or an error on EVERY byte string,
   inside or outside the documented subset [json_in_subset]; no input reaches [Fault] (the
   model's outcome for a Go panic / out-of-range slice).

   Which functions of Json.v can fault at all.  Only the functions whose result type is
   [outcome _] have a [Fault] constructor:
       decode_bytes_value, decode_u32_value, apply_member, json_fields,
       new_blob_from_json_fields, unmarshal_blob_json, json_bytes,
       unmarshal_share_json, unmarshal_namespace_json
   and every one of them is covered below.  The text layer proper
       b64_val, base64_decode, parse_u32, word_tok, step_idle, lex, scalar_of_tok,
       parse_members, parse_json, json_value, field_of_key
   returns [option _] (None = "not JSON / outside the subset / not a uint32 / not base64");
   [option] has no fault constructor, so for these totality is their being Gallina functions:
   there is nothing to prove, and nothing faulty can be swallowed by them either, because no
   function of Json.v ever PRODUCES [Fault]: the only possible sources are the calls into
   Namespace.v / Blob.v (new_namespace, new_namespace_from_bytes, new_blob), which are fault
   free by TotalProofs / ProtoProofs.  No witness reaching [Fault] exists; there is no
   [..._refuted] lemma in this file.

   Fuel.  The decoding direction of Json.v uses NO fuel: base64_decode, drop_digits, lex,
   parse_members and fold_left apply_member are structural recursions on the input (or on the
   token / member list), parse_dec is a fold_left.  Hence there is no out-of-fuel error path
   that a text of the subset (or any other text) could take, and no statement of the form
   [json_in_subset j = true -> ...] is needed for termination.  The single fuelled function of
   Json.v is on the ENCODING side, [dec_digits] under [print_dec]; its fuel
   [S (log2 n)] is never exhausted: [print_dec_fuel_never_exhausted] shows that any larger fuel
   gives the same digits (the [O => acc] branch of dec_digits is not reached). *)
From Coq Require Import List Arith NArith ZArith Lia Bool.
From Coq Require Import ZifyN ZifyNat ZifyBool.
From GS.Model Require Import Base Varint Namespace ShareFmt Blob Proto Json.
From GS.Proofs Require Import BaseLemmas NamespaceProofs ProtoProofs TotalProofs JsonProofs.
Import ListNotations.
Open Scope N_scope.

(* ---------- the leaves ---------- *)
Lemma decode_bytes_value_no_fault v : decode_bytes_value v <> Fault.
Proof.
  destruct v as [s|w| | |]; cbn [decode_bytes_value]; try discriminate.
  destruct (base64_decode s); discriminate.
Qed.

Lemma decode_u32_value_no_fault v old : decode_u32_value v old <> Fault.
Proof.
  destruct v as [s|w| | |]; cbn [decode_u32_value]; try discriminate.
  destruct (parse_u32 w); discriminate.
Qed.

Lemma new_namespace_from_bytes_no_fault b : new_namespace_from_bytes b <> Fault.
Proof.
  unfold new_namespace_from_bytes.
  destruct (Nat.eqb (length b) ns_size); [|discriminate]. destruct (ns_validate b); discriminate.
Qed.

(* ---------- json.Unmarshal into a BlobProto ---------- *)
Lemma apply_member_no_fault acc m : acc <> Fault -> apply_member acc m <> Fault.
Proof.
  intros Ha. unfold apply_member. apply bind_no_fault; [exact Ha|]. intros st. cbn zeta.
  destruct (field_of_key (fst m)) as [[| | | |]|]; try discriminate;
    (apply bind_no_fault;
     [first [apply decode_bytes_value_no_fault|apply decode_u32_value_no_fault]|intros r; discriminate]).
Qed.

Lemma fold_apply_member_no_fault ms acc : acc <> Fault -> fold_left apply_member ms acc <> Fault.
Proof. apply fold_left_no_fault. intros a x. apply apply_member_no_fault. Qed.

Theorem json_fields_no_fault j : json_fields j <> Fault.
Proof.
  unfold json_fields. destruct (json_value j) as [[ms|[s|w| | |]]|]; try discriminate.
  apply fold_apply_member_no_fault. discriminate.
Qed.

Theorem new_blob_from_json_fields_no_fault st : new_blob_from_json_fields st <> Fault.
Proof.
  unfold new_blob_from_json_fields. cbn zeta.
  destruct (255 <? bp_ns_version (jbf_proto st)); [discriminate|].
  destruct (127 <? bp_share_version (jbf_proto st)); [discriminate|].
  apply bind_no_fault; [apply new_namespace_no_fault|]. intros ns. apply new_blob_no_fault.
Qed.

Theorem unmarshal_blob_json_no_fault j : unmarshal_blob_json j <> Fault.
Proof.
  unfold unmarshal_blob_json. apply bind_no_fault; [apply json_fields_no_fault|].
  exact new_blob_from_json_fields_no_fault.
Qed.

(* ---------- json.Unmarshal into a []byte ---------- *)
Theorem json_bytes_no_fault j : json_bytes j <> Fault.
Proof.
  unfold json_bytes. destruct (json_value j) as [[ms|v]|]; try discriminate.
  apply bind_no_fault; [apply decode_bytes_value_no_fault|]. intros r. discriminate.
Qed.

Theorem share_json_no_fault j : unmarshal_share_json j <> Fault.
Proof.
  unfold unmarshal_share_json. apply bind_no_fault; [apply json_bytes_no_fault|]. intros b.
  destruct (Nat.eqb (length b) share_size); discriminate.
Qed.

Theorem unmarshal_namespace_json_no_fault j : unmarshal_namespace_json j <> Fault.
Proof.
  unfold unmarshal_namespace_json. apply bind_no_fault; [apply json_bytes_no_fault|].
  exact new_namespace_from_bytes_no_fault.
Qed.

(* the three decoders in one statement, in the positive form "a value or an error" *)
Lemma no_fault_cases {A} (o : outcome A) : o <> Fault -> (exists a, o = Ok a) \/ o = Err.
Proof. destruct o as [a| |]; intros H; [left; exists a; reflexivity|right; reflexivity|congruence]. Qed.

Theorem json_decoders_total j :
  ((exists b, unmarshal_blob_json j = Ok b) \/ unmarshal_blob_json j = Err) /\
  ((exists s, unmarshal_share_json j = Ok s) \/ unmarshal_share_json j = Err) /\
  ((exists n, unmarshal_namespace_json j = Ok n) \/ unmarshal_namespace_json j = Err).
Proof.
  split; [|split]; apply no_fault_cases;
    [apply unmarshal_blob_json_no_fault|apply share_json_no_fault|apply unmarshal_namespace_json_no_fault].
Qed.

(* ---------- malformed means error, not merely "no fault" ---------- *)

(* a text the text layer rejects is an error of all three decoders *)
Theorem json_value_none_err j : json_value j = None ->
  json_fields j = Err /\ json_bytes j = Err /\
  unmarshal_blob_json j = Err /\ unmarshal_share_json j = Err /\ unmarshal_namespace_json j = Err.
Proof.
  intros H. unfold unmarshal_blob_json, unmarshal_share_json, unmarshal_namespace_json, json_fields, json_bytes.
  rewrite H. cbn [bind]. repeat split; reflexivity.
Qed.

Lemma ocons_none {A} (x : A) : ocons x None = None.
Proof. reflexivity. Qed.
Lemma ocons_opt_none {A} (x : option A) : ocons_opt x None = None.
Proof. destruct x; reflexivity. Qed.

(* what a byte >= 0x80 is not *)
Lemma non_ascii_facts c : 128 <= b2n c ->
  byte_eqb c c_dquote = false /\ is_plain c = false /\ is_word c = false /\ step_idle c = None.
Proof.
  intros H.
  assert (Hne : forall d, b2n d < 128 -> byte_eqb c d = false).
  { intros d Hd. destruct (byte_eqb c d) eqn:E; [|reflexivity]. apply byte_eqb_eq in E. subst d. lia. }
  assert (Hq : byte_eqb c c_dquote = false) by (apply Hne; vm_compute; reflexivity).
  assert (Hw : is_word c = false) by (unfold is_word, is_digit, in_range; lia).
  split; [exact Hq|]. split; [unfold is_plain; lia|]. split; [exact Hw|].
  unfold step_idle. replace (is_space c) with false by (unfold is_space; lia).
  rewrite Hq, Hw.
  rewrite (Hne c_lbrace), (Hne c_rbrace), (Hne c_colon), (Hne c_comma) by (vm_compute; reflexivity).
  reflexivity.
Qed.

(* the lexer rejects every text that holds a non-ASCII byte, whatever the state *)
Lemma lex_non_ascii c : 128 <= b2n c -> forall j st, In c j -> lex st j = None.
Proof.
  intros Hc. destruct (non_ascii_facts c Hc) as (Hq & Hp & Hw & Hs).
  induction j as [|x t IH]; intros st Hin; [destruct Hin|].
  destruct Hin as [->|Hin].
  - destruct st as [|acc|w]; cbn [lex].
    + rewrite Hs. reflexivity.
    + rewrite Hq, Hp. reflexivity.
    + rewrite Hw, Hs. destruct (word_tok (rev w)); reflexivity.
  - destruct st as [|acc|w]; cbn [lex].
    + destruct (step_idle x) as [[otk st']|]; [|reflexivity]. rewrite (IH st' Hin). apply ocons_opt_none.
    + destruct (byte_eqb x c_dquote); [rewrite (IH LIdle Hin); reflexivity|].
      destruct (is_plain x); [apply IH; exact Hin|reflexivity].
    + destruct (is_word x); [apply IH; exact Hin|].
      destruct (word_tok (rev w)) as [tk|]; [|reflexivity].
      destruct (step_idle x) as [[otk st']|]; [|reflexivity].
      rewrite (IH st' Hin), ocons_opt_none. reflexivity.
Qed.

Theorem non_ascii_err j c : In c j -> 128 <= b2n c ->
  unmarshal_blob_json j = Err /\ unmarshal_share_json j = Err /\ unmarshal_namespace_json j = Err.
Proof.
  intros Hin Hc.
  assert (H : json_value j = None) by (unfold json_value; rewrite (lex_non_ascii c Hc j LIdle Hin); reflexivity).
  destruct (json_value_none_err j H) as (_ & _ & Hb & Hs & Hn). repeat split; assumption.
Qed.

(* a text that ends inside a string literal (truncated) is rejected by the lexer *)
Lemma lex_open_string : forall s acc, forallb is_plain s = true -> lex (LStr acc) s = None.
Proof.
  induction s as [|x t IH]; intros acc H; [reflexivity|].
  cbn [forallb] in H. apply andb_true_iff in H. destruct H as [Hx Ht].
  cbn [lex]. rewrite (is_plain_not_dquote x Hx), Hx. apply IH. exact Ht.
Qed.

(* ---------- fuel ---------- *)

(* the only fuelled function of Json.v: more fuel than [print_dec] gives never changes the result,
   i.e. the [O => acc] branch of dec_digits is not what ends the recursion *)
Lemma dec_digits_more_fuel : forall fuel n acc k, (0 < fuel)%nat -> n < 10 ^ N.of_nat fuel ->
  dec_digits (fuel + k) n acc = dec_digits fuel n acc.
Proof.
  induction fuel as [|f IH]; intros n acc k Hpos Hn; [lia|].
  cbn [Nat.add dec_digits]. cbn zeta.
  destruct (n <? 10) eqn:E; [reflexivity|]. apply N.ltb_ge in E.
  assert (Hf : n / 10 < 10 ^ N.of_nat f).
  { rewrite Nat2N.inj_succ, N.pow_succ_r' in Hn. apply N.div_lt_upper_bound; lia. }
  assert (Hfpos : (0 < f)%nat).
  { destruct f; [|lia]. cbn in Hf. assert (1 <= n / 10) by (apply N.div_le_lower_bound; lia). lia. }
  apply IH; assumption.
Qed.

Lemma print_dec_fuel_bound n : n < 10 ^ N.of_nat (S (N.to_nat (N.log2 n))).
Proof.
  rewrite Nat2N.inj_succ, N2Nat.id.
  destruct (N.eq_dec n 0) as [->|Hz]; [cbn; lia|].
  pose proof (N.log2_spec n ltac:(lia)) as [_ Hl].
  eapply N.lt_le_trans; [exact Hl|]. apply N.pow_le_mono_l. lia.
Qed.

Theorem print_dec_fuel_never_exhausted n k :
  dec_digits (S (N.to_nat (N.log2 n)) + k) n [] = print_dec n.
Proof.
  unfold print_dec. apply dec_digits_more_fuel; [apply Nat.lt_0_succ|apply print_dec_fuel_bound].
Qed.
