(* C19: wire round trips of the three messages, cross recognition, and the
   acceptance predicate of blob construction. *)
From Coq Require Import List Arith NArith ZArith Lia Bool.
From Coq Require Import ZifyN ZifyNat ZifyBool.
From GS.Model Require Import Base Varint Namespace ShareFmt Blob Proto.
From GS.Proofs Require Import BaseLemmas VarintProofs NamespaceProofs.
Import ListNotations.

Ltac Zify.zify_post_hook ::= Z.div_mod_to_equations.
Open Scope N_scope.

(* ---------- acceptance of blob construction ---------- *)
Definition blob_acceptable (ns : namespace) (data : bytes) (ver : N) (signer : option bytes) : Prop :=
  data <> [] /\ ns <> [] /\ ns_version ns = 0 /\
  ((ver = 0 /\ signer = None) \/ (ver = 1 /\ exists s, signer = Some s /\ length s = 20%nat)).

(* NewBlob accepts exactly: non-empty data, non-empty version-0 namespace, share
   version 0 without signer or share version 1 with a 20-byte signer *)
Theorem new_blob_ok_iff ns data ver signer b :
  new_blob ns data ver signer = Ok b <->
  (blob_acceptable ns data ver signer /\ b = mk_blob ns data ver signer).
Proof.
  unfold blob_acceptable, new_blob, signer_size. split.
  - intros H. destruct data as [|d0 data]; [discriminate|]. destruct ns as [|n0 ns]; [discriminate|].
    destruct (negb (ns_version (n0 :: ns) =? 0)) eqn:Ev; [discriminate|].
    rewrite negb_false_iff, N.eqb_eq in Ev.
    destruct (ver =? 0) eqn:E0.
    + apply N.eqb_eq in E0. subst ver. destruct signer; [discriminate|]. inversion H; subst.
      repeat split; try discriminate; try assumption. left. auto.
    + destruct (ver =? 1) eqn:E1; [|discriminate]. apply N.eqb_eq in E1. subst ver.
      destruct signer as [s|]; [|discriminate].
      destruct (Nat.eqb (length s) 20) eqn:El; [|discriminate]. apply Nat.eqb_eq in El. inversion H; subst.
      repeat split; try discriminate; try assumption. right. split; [reflexivity|]. exists s. auto.
  - intros [(Hd & Hn & Hv & Hs) ->]. destruct data; [congruence|]. destruct ns; [congruence|].
    rewrite Hv. cbn [N.eqb negb].
    destruct Hs as [[-> ->]|[-> (s & -> & Hl)]]; cbn; [reflexivity|]. rewrite Hl. reflexivity.
Qed.

Lemma new_blob_no_fault ns data ver signer : new_blob ns data ver signer <> Fault.
Proof.
  unfold new_blob. destruct data; [discriminate|]. destruct ns; [discriminate|].
  destruct (negb _); [discriminate|]. destruct (ver =? 0); [destruct signer; discriminate|].
  destruct (ver =? 1); [|discriminate]. destruct signer; [|discriminate]. destruct (Nat.eqb _ _); discriminate.
Qed.

(* through protobuf (and JSON, which fills the same BlobProto fields): additionally the
   version fields are in range and the namespace is well formed *)
Theorem new_blob_from_proto_ok_iff p b : bp_ns_version p < 4294967296 ->
  let signer := match bp_signer p with [] => None | s => Some s end in
  let ns := n2b (bp_ns_version p) :: bp_ns_id p in
  new_blob_from_proto p = Ok b <->
  (bp_ns_version p <= 255 /\ bp_share_version p <= 127 /\ wellformed_ns (bp_ns_version p) (bp_ns_id p) /\
   blob_acceptable ns (bp_data p) (bp_share_version p) signer /\
   b = mk_blob ns (bp_data p) (bp_share_version p) signer).
Proof.
  intros Hnv. cbn zeta. unfold new_blob_from_proto. split.
  - intros H. destruct (255 <? bp_ns_version p) eqn:E1; [discriminate|].
    destruct (127 <? bp_share_version p) eqn:E2; [discriminate|].
    destruct (new_namespace (bp_ns_version p) (bp_ns_id p)) as [ns'| |] eqn:En; cbn [bind] in H; try discriminate.
    apply new_namespace_ok_inv in En; [|lia]. destruct En as [Hw ->].
    apply new_blob_ok_iff in H. destruct H as [Ha ->].
    split; [lia|]. split; [lia|]. split; [exact Hw|]. split; [exact Ha|reflexivity].
  - intros (H1 & H2 & Hw & Ha & ->).
    replace (255 <? bp_ns_version p) with false by lia. replace (127 <? bp_share_version p) with false by lia.
    destruct (new_namespace_spec (bp_ns_version p) (bp_ns_id p) ltac:(lia)) as [Hok _].
    rewrite (Hok Hw). cbn [bind]. apply new_blob_ok_iff. split; [exact Ha|reflexivity].
Qed.

(* ---------- generic field encoding / parsing ---------- *)
Inductive fld := FB (num : N) (v : bytes) | FV (num : N) (v : N).
Definition enc_fld (f : fld) : bytes :=
  match f with
  | FB num v => tag_byte num 2 ++ put_uvarint (lenN v) ++ v
  | FV num v => tag_byte num 0 ++ put_uvarint v
  end.
Definition fld_wire (f : fld) : N * wval :=
  match f with FB num v => (num, WBytes v) | FV num v => (num, WVarint v) end.
Definition fld_ok (f : fld) : Prop :=
  match f with
  | FB num v => 1 <= num <= 15 /\ lenN v < 2 ^ 64
  | FV num v => 1 <= num <= 15 /\ v < 2 ^ 64
  end.

Lemma consume_varint_put n rest : n < 2 ^ 64 -> consume_varint (put_uvarint n ++ rest) = Some (n, rest).
Proof.
  intros H. unfold consume_varint. rewrite uvarint_put by exact H.
  rewrite skipn_app, Nat.sub_diag, skipn_O. rewrite skipn_all2 by lia. reflexivity.
Qed.

Lemma consume_bytes_put v rest : lenN v < 2 ^ 64 ->
  consume_bytes (put_uvarint (lenN v) ++ v ++ rest) = Some (v, rest).
Proof.
  intros H. unfold consume_bytes. rewrite consume_varint_put by exact H.
  replace (lenN (v ++ rest) <? lenN v) with false by (rewrite lenN_app; lia).
  unfold takeN, dropN, lenN. rewrite Nnat.Nat2N.id.
  rewrite firstn_app, Nat.sub_diag, firstn_O, app_nil_r, firstn_all.
  rewrite skipn_app, Nat.sub_diag, skipn_O. rewrite skipn_all2 by lia. reflexivity.
Qed.

Lemma parse_fields_fld f fuel rest : fld_ok f ->
  parse_fields (S fuel) (enc_fld f ++ rest) =
  (do r <- parse_fields fuel rest; Ok (fld_wire f :: r)).
Proof.
  intros Hok. destruct f as [num v|num v]; cbn [enc_fld fld_ok fld_wire] in *; destruct Hok as [Hn Hv].
  - unfold tag_byte. rewrite <- !app_assoc.
    destruct (put_uvarint (num * 8 + 2) ++ put_uvarint (lenN v) ++ v ++ rest) as [|x l] eqn:E.
    { apply (f_equal (@length _)) in E. rewrite app_length in E. pose proof (put_uvarint_length (num * 8 + 2)). cbn [length] in E. lia. }
    rewrite <- E. cbn [parse_fields].
    rewrite E at 1. rewrite consume_varint_put by (assert (num * 8 + 2 < 128) by lia; assert (128 < 2 ^ 64) by reflexivity; lia).
    replace ((num * 8 + 2) / 8) with num by lia. replace ((num * 8 + 2) mod 8) with 2 by lia.
    replace ((num <? 1) || (536870911 <? num)) with false by lia.
    change (2 =? 0) with false. change (2 =? 1) with false. change (2 =? 2) with true. cbv iota.
    rewrite consume_bytes_put by exact Hv. reflexivity.
  - unfold tag_byte. rewrite <- !app_assoc.
    destruct (put_uvarint (num * 8 + 0) ++ put_uvarint v ++ rest) as [|x l] eqn:E.
    { apply (f_equal (@length _)) in E. rewrite app_length in E. pose proof (put_uvarint_length (num * 8 + 0)). cbn [length] in E. lia. }
    rewrite <- E. cbn [parse_fields].
    rewrite E at 1. rewrite consume_varint_put by (assert (num * 8 + 0 < 128) by lia; assert (128 < 2 ^ 64) by reflexivity; lia).
    replace ((num * 8 + 0) / 8) with num by lia. replace ((num * 8 + 0) mod 8) with 0 by lia.
    replace ((num <? 1) || (536870911 <? num)) with false by lia.
    change (0 =? 0) with true. cbv iota.
    rewrite consume_varint_put by exact Hv. reflexivity.
Qed.

Lemma parse_flds : forall fs fuel, Forall fld_ok fs -> (length fs <= fuel)%nat ->
  parse_fields fuel (concat (map enc_fld fs)) = Ok (map fld_wire fs).
Proof.
  induction fs as [|f fs IH]; intros fuel Hok Hf.
  - destruct fuel; reflexivity.
  - destruct fuel as [|fuel]; [cbn in Hf; lia|]. apply Forall_cons_iff in Hok as [Hf0 Hok].
    cbn [map concat]. rewrite parse_fields_fld by exact Hf0.
    rewrite IH by (assumption || (cbn in Hf; lia)). reflexivity.
Qed.

Lemma enc_fld_nonempty f : (1 <= length (enc_fld f))%nat.
Proof.
  destruct f; cbn [enc_fld]; unfold tag_byte; rewrite app_length;
    match goal with |- context [put_uvarint ?x] => pose proof (put_uvarint_length x) end; lia.
Qed.

Lemma wire_flds fs : Forall fld_ok fs -> wire_fields (concat (map enc_fld fs)) = Ok (map fld_wire fs).
Proof.
  intros H. unfold wire_fields. apply parse_flds; [exact H|].
  clear H. induction fs as [|f fs IH]; [cbn; lia|]. cbn [map concat length]. rewrite app_length.
  pose proof (enc_fld_nonempty f). lia.
Qed.

(* ---------- BlobProto ---------- *)
Definition opt_fb (num : N) (v : bytes) : list fld := match v with [] => [] | _ => [FB num v] end.
Definition opt_fv (num : N) (v : N) : list fld := if v =? 0 then [] else [FV num v].

Lemma fb_ok num v : 1 <= num <= 15 -> lenN v < 2 ^ 64 -> fld_ok (FB num v).
Proof. intros H1 H2. unfold fld_ok. split; assumption. Qed.
Lemma fv_ok num v : 1 <= num <= 15 -> v < 2 ^ 64 -> fld_ok (FV num v).
Proof. intros H1 H2. unfold fld_ok. split; assumption. Qed.
Lemma small_lt_2_64 n : n < 4294967296 -> n < 2 ^ 64.
Proof. intros H. assert (4294967296 < 2 ^ 64) by reflexivity. lia. Qed.

Lemma opt_fb_ok num v : 1 <= num <= 15 -> lenN v < 2 ^ 64 -> Forall fld_ok (opt_fb num v).
Proof. intros H1 H2. unfold opt_fb. destruct v; constructor; [apply fb_ok; assumption|constructor]. Qed.
Lemma opt_fv_ok num v : 1 <= num <= 15 -> v < 2 ^ 64 -> Forall fld_ok (opt_fv num v).
Proof. intros H1 H2. unfold opt_fv. destruct (v =? 0); constructor; [apply fv_ok; assumption|constructor]. Qed.
Lemma type_id_len_ok (t : bytes) : (length t <= 4)%nat -> lenN t < 2 ^ 64.
Proof. intros H. unfold lenN. assert (5 < 2 ^ 64) by reflexivity. lia. Qed.


Lemma enc_bytes_field_flds num v : enc_bytes_field num v = concat (map enc_fld (opt_fb num v)).
Proof. destruct v; cbn; [reflexivity|]. rewrite app_nil_r. reflexivity. Qed.
Lemma enc_uint_field_flds num v : enc_uint_field num v = concat (map enc_fld (opt_fv num v)).
Proof. unfold enc_uint_field, opt_fv. destruct (v =? 0); cbn; [reflexivity|]. rewrite app_nil_r. reflexivity. Qed.

Definition bp_flds (p : blob_proto) : list fld :=
  opt_fb 1 (bp_ns_id p) ++ opt_fb 2 (bp_data p) ++ opt_fv 3 (bp_share_version p)
  ++ opt_fv 4 (bp_ns_version p) ++ opt_fb 5 (bp_signer p).

Lemma marshal_blob_proto_flds p : marshal_blob_proto p = concat (map enc_fld (bp_flds p)).
Proof.
  unfold marshal_blob_proto, bp_flds. rewrite !map_app, !concat_app.
  rewrite !enc_bytes_field_flds, !enc_uint_field_flds. reflexivity.
Qed.

Definition bp_ok (p : blob_proto) : Prop :=
  lenN (bp_ns_id p) < 2 ^ 64 /\ lenN (bp_data p) < 2 ^ 64 /\ lenN (bp_signer p) < 2 ^ 64 /\
  bp_share_version p < 4294967296 /\ bp_ns_version p < 4294967296.

Lemma bp_flds_ok p : bp_ok p -> Forall fld_ok (bp_flds p).
Proof.
  intros (H1 & H2 & H3 & H4 & H5). unfold bp_flds.
  rewrite !Forall_app; repeat split.
  - apply opt_fb_ok; [lia|exact H1].
  - apply opt_fb_ok; [lia|exact H2].
  - apply opt_fv_ok; [lia|apply small_lt_2_64, H4].
  - apply opt_fv_ok; [lia|apply small_lt_2_64, H5].
  - apply opt_fb_ok; [lia|exact H3].
Qed.

Lemma bp_apply_flds p : bp_share_version p < 4294967296 -> bp_ns_version p < 4294967296 ->
  fold_left bp_apply (map fld_wire (bp_flds p)) bp_empty = p.
Proof.
  intros H4 H5. destruct p as [id data sv nsv sg]. cbn [bp_share_version bp_ns_version] in *.
  unfold bp_flds, opt_fb, opt_fv. cbn [bp_ns_id bp_data bp_share_version bp_ns_version bp_signer].
  destruct id as [|i0 id]; destruct data as [|d0 data]; destruct sg as [|s0 sg];
    destruct (sv =? 0) eqn:Es; destruct (nsv =? 0) eqn:En;
    try (apply N.eqb_eq in Es; subst sv); try (apply N.eqb_eq in En; subst nsv);
    cbn [app map fld_wire fold_left bp_apply bp_empty bp_ns_id bp_data bp_share_version bp_ns_version bp_signer];
    rewrite ?u32_small by assumption; reflexivity.
Qed.

(* the protobuf encoding of a BlobProto decodes back to it *)
Theorem blob_proto_round_trip p : bp_ok p -> unmarshal_blob_proto (marshal_blob_proto p) = Ok p.
Proof.
  intros Hok. unfold unmarshal_blob_proto. rewrite marshal_blob_proto_flds, wire_flds by (apply bp_flds_ok, Hok).
  cbn [bind]. destruct Hok as (_ & _ & _ & H4 & H5). rewrite bp_apply_flds by assumption. reflexivity.
Qed.

(* a blob accepted by NewBlob with a constructor-made namespace round-trips through Marshal / UnmarshalBlob *)
Definition blob_wire_ok (b : blob) : Prop :=
  (exists v id, b_ns b = v :: id /\ wellformed_ns (b2n v) id) /\
  blob_acceptable (b_ns b) (b_data b) (b_ver b) (b_signer b) /\
  lenN (b_data b) < 2 ^ 64.

Theorem blob_round_trip b : blob_wire_ok b -> unmarshal_blob (marshal_blob b) = Ok b.
Proof.
  intros ((v & id & Hns & Hw) & Ha & Hlen).
  unfold unmarshal_blob, marshal_blob.
  assert (Hsg : lenN (signer_bytes b) < 2 ^ 64 /\ (match signer_bytes b with [] => None | s => Some s end) = b_signer b).
  { destruct Ha as (_ & _ & _ & [[_ Hs]|[_ (s & Hs & Hl)]]); unfold signer_bytes; rewrite Hs.
    - split; [reflexivity|reflexivity].
    - split; [unfold lenN; rewrite Hl; reflexivity|]. destruct s; [cbn [length] in Hl; lia|reflexivity]. }
  destruct Hsg as [Hsl Hsg].
  assert (Hver : b_ver b < 2) by (destruct Ha as (_ & _ & _ & [[-> _]|[-> _]]); lia).
  assert (Hidl : lenN id < 2 ^ 64) by (destruct Hw as [Hl _]; unfold lenN; rewrite Hl; reflexivity).
  rewrite blob_proto_round_trip.
  2:{ unfold bp_ok, blob_to_proto. cbn [bp_ns_id bp_data bp_signer bp_share_version bp_ns_version].
      rewrite Hns. cbn [ns_id tl ns_version]. pose proof (b2n_lt v). repeat split; try assumption; lia. }
  cbn [bind]. apply new_blob_from_proto_ok_iff.
  { unfold blob_to_proto. cbn [bp_ns_version]. rewrite Hns. cbn [ns_version]. pose proof (b2n_lt v). lia. }
  unfold blob_to_proto. cbn [bp_ns_id bp_data bp_signer bp_share_version bp_ns_version].
  rewrite Hns in *. cbn [ns_id tl ns_version] in *. rewrite n2b_b2n, Hsg. pose proof (b2n_lt v).
  assert (Hv0 : b2n v = 0) by (destruct Ha as (_ & _ & Hv & _); exact Hv).
  repeat split; try lia; try apply Hw; try apply Ha.
  destruct b as [bns bdata bver bsig]. cbn [b_ns b_data b_ver b_signer] in *. subst bns. reflexivity.
Qed.

(* ---------- IndexWrapper ---------- *)
Lemma parse_packed_put : forall idx fuel, Forall (fun i => i < 4294967296) idx -> (length idx <= fuel)%nat ->
  parse_packed fuel (concat (map put_uvarint idx)) = Ok idx.
Proof.
  induction idx as [|i idx IH]; intros fuel H Hf; [destruct fuel; reflexivity|].
  destruct fuel as [|fuel]; [cbn in Hf; lia|]. apply Forall_cons_iff in H as [Hi H].
  cbn [map concat].
  destruct (put_uvarint i ++ concat (map put_uvarint idx)) as [|x l] eqn:E.
  { apply (f_equal (@length _)) in E. rewrite app_length in E. pose proof (put_uvarint_length i). cbn [length] in E. lia. }
  rewrite <- E. cbn [parse_packed]. rewrite E at 1.
  rewrite consume_varint_put by (assert (4294967296 < 2 ^ 64) by reflexivity; lia).
  rewrite IH by (assumption || (cbn in Hf; lia)). cbn [bind]. rewrite u32_small by exact Hi. reflexivity.
Qed.

Definition iw_flds (tx : bytes) (idx : list N) : list fld :=
  opt_fb 1 tx ++ (match idx with [] => [] | _ => [FB 2 (concat (map put_uvarint idx))] end) ++ [FB 3 type_id_indx].

Lemma marshal_index_wrapper_flds tx idx : marshal_index_wrapper tx idx = concat (map enc_fld (iw_flds tx idx)).
Proof.
  unfold marshal_index_wrapper, iw_flds. rewrite !map_app, !concat_app, enc_bytes_field_flds.
  f_equal. f_equal; try reflexivity.
  destruct idx; [reflexivity|]. cbn [map concat enc_fld]. unfold enc_msg_field. rewrite app_nil_r. reflexivity.
Qed.

Definition iw_ok (tx : bytes) (idx : list N) : Prop :=
  lenN tx < 2 ^ 64 /\ Forall (fun i => i < 4294967296) idx /\ lenN (concat (map put_uvarint idx)) < 2 ^ 64.

Theorem index_wrapper_round_trip tx idx : iw_ok tx idx ->
  unmarshal_index_wrapper (marshal_index_wrapper tx idx) = Some (mk_iw tx idx type_id_indx).
Proof.
  intros (Ht & Hi & Hp). unfold unmarshal_index_wrapper, unmarshal_index_wrapper_proto.
  rewrite marshal_index_wrapper_flds, wire_flds.
  2:{ unfold iw_flds. rewrite !Forall_app; repeat split.
      - apply opt_fb_ok; [lia|exact Ht].
      - destruct idx; constructor; [apply fb_ok; [lia|exact Hp]|constructor].
      - constructor; [apply fb_ok; [lia|apply type_id_len_ok; cbn [type_id_indx length]; lia]|constructor]. }
  cbn [bind]. unfold iw_flds, opt_fb.
  assert (Hpk : forall i0 idx', idx = i0 :: idx' ->
    parse_packed (length (concat (map put_uvarint idx))) (concat (map put_uvarint idx)) = Ok idx).
  { intros i0 idx' E. apply parse_packed_put; [exact Hi|].
    clear -E. generalize idx. clear. induction idx as [|i idx IH]; [cbn; lia|].
    cbn [map concat length]. rewrite app_length. pose proof (put_uvarint_length i). lia. }
  destruct idx as [|i0 idx].
  - destruct tx as [|t0 tx];
      cbn [app map fld_wire fold_left iw_apply bind iw_tx iw_idx iw_type_id];
      change (utf8_valid type_id_indx) with true; cbv iota; cbn [iw_type_id bind];
      rewrite bytes_eqb_refl; reflexivity.
  - pose proof (Hpk i0 idx eq_refl) as Hpk'. clear Hpk.
    set (pk := concat (map put_uvarint (i0 :: idx))) in *.
    destruct tx as [|t0 tx].
    all: cbn [app map fld_wire fold_left iw_apply bind iw_tx iw_idx iw_type_id].
    all: rewrite Hpk'.
    all: cbn [bind app iw_tx iw_idx iw_type_id iw_apply].
    all: change (utf8_valid type_id_indx) with true; cbv iota; cbn [iw_type_id bind].
    all: rewrite bytes_eqb_refl; reflexivity.
Qed.

(* ---------- cross recognition ---------- *)
(* whatever precedes it, a final type_id field decides the type id *)
Lemma iw_fold_last fs t acc p : utf8_valid t = true ->
  fold_left iw_apply (fs ++ [(3, WBytes t)]) acc = Ok p -> iw_type_id p = t.
Proof.
  intros Hu. rewrite fold_left_app. cbn [fold_left iw_apply].
  destruct (fold_left iw_apply fs acc) as [q| |]; cbn [bind iw_apply]; try discriminate.
  rewrite Hu. intros H. inversion H. reflexivity.
Qed.

Lemma btp_fold_last fs t acc p : utf8_valid t = true ->
  fold_left btp_apply (fs ++ [(3, WBytes t)]) acc = Ok p -> btp_type_id p = t.
Proof.
  intros Hu. rewrite fold_left_app. cbn [fold_left btp_apply].
  destruct (fold_left btp_apply fs acc) as [q| |]; cbn [bind btp_apply]; try discriminate.
  rewrite Hu. intros H. inversion H. reflexivity.
Qed.

(* an index wrapper is never recognised as a blob transaction *)
Theorem index_wrapper_is_not_blob_tx tx idx : iw_ok tx idx ->
  unmarshal_blob_tx (marshal_index_wrapper tx idx) = UbtNot.
Proof.
  intros (Ht & Hi & Hp). unfold unmarshal_blob_tx, unmarshal_blob_tx_proto.
  rewrite marshal_index_wrapper_flds, wire_flds.
  2:{ unfold iw_flds. rewrite !Forall_app; repeat split.
      - apply opt_fb_ok; [lia|exact Ht].
      - destruct idx; constructor; [apply fb_ok; [lia|exact Hp]|constructor].
      - constructor; [apply fb_ok; [lia|apply type_id_len_ok; cbn [type_id_indx length]; lia]|constructor]. }
  cbn [bind]. unfold iw_flds. rewrite app_assoc, map_app. cbn [map fld_wire].
  destruct (fold_left btp_apply _ _) as [p| |] eqn:E; try reflexivity.
  apply btp_fold_last in E; [|vm_compute; reflexivity]. rewrite E. reflexivity.
Qed.

(* ---------- BlobTx ---------- *)
Lemma blob_to_proto_ok b : blob_wire_ok b -> bp_ok (blob_to_proto b).
Proof.
  intros ((v & id & Hns & Hw) & Ha & Hlen).
  unfold bp_ok, blob_to_proto. cbn [bp_ns_id bp_data bp_signer bp_share_version bp_ns_version].
  rewrite Hns. cbn [ns_id tl ns_version]. pose proof (b2n_lt v).
  assert (Hidl : lenN id < 2 ^ 64) by (destruct Hw as [Hl _]; unfold lenN; rewrite Hl; reflexivity).
  assert (Hsl : lenN (signer_bytes b) < 2 ^ 64).
  { destruct Ha as (_ & _ & _ & [[_ Hs]|[_ (s & Hs & Hl)]]); unfold signer_bytes; rewrite Hs;
      [reflexivity|unfold lenN; rewrite Hl; reflexivity]. }
  assert (Hver : b_ver b < 2) by (destruct Ha as (_ & _ & _ & [[-> _]|[-> _]]); lia).
  repeat split; try assumption; lia.
Qed.

Lemma new_blob_from_blob_to_proto b : blob_wire_ok b -> new_blob_from_proto (blob_to_proto b) = Ok b.
Proof.
  intros Hok. pose proof (blob_round_trip b Hok) as H. unfold unmarshal_blob, marshal_blob in H.
  rewrite blob_proto_round_trip in H by (apply blob_to_proto_ok, Hok). exact H.
Qed.

Definition btx_flds (tx : bytes) (blobs : list blob) : list fld :=
  opt_fb 1 tx ++ map (fun b => FB 2 (marshal_blob b)) blobs ++ [FB 3 type_id_blob].

Definition btx_ok (tx : bytes) (blobs : list blob) : Prop :=
  lenN tx < 2 ^ 64 /\ blobs <> [] /\ Forall blob_wire_ok blobs /\
  Forall (fun b => lenN (marshal_blob b) < 2 ^ 64) blobs.

Lemma marshal_blob_tx_flds tx blobs : btx_ok tx blobs ->
  marshal_blob_tx tx blobs = Ok (concat (map enc_fld (btx_flds tx blobs))).
Proof.
  intros (_ & Hne & Hall & _). unfold marshal_blob_tx. destruct blobs as [|b0 bl]; [congruence|].
  replace (existsb (fun b => Nat.eqb (length (b_data b)) 0) (b0 :: bl)) with false.
  2:{ symmetry. apply not_true_is_false. intros E. apply existsb_exists in E. destruct E as (b & Hin & Hb).
      rewrite Forall_forall in Hall. destruct (Hall b Hin) as (_ & (Hd & _) & _). apply Nat.eqb_eq in Hb.
      destruct (b_data b); [congruence|cbn in Hb; lia]. }
  f_equal. unfold btx_flds. rewrite !map_app, !concat_app, enc_bytes_field_flds. f_equal. f_equal.
  rewrite map_map. reflexivity.
Qed.

Lemma btp_fold_blobs : forall blobs tx acc_blobs tid, Forall blob_wire_ok blobs ->
  fold_left btp_apply (map fld_wire (map (fun b => FB 2 (marshal_blob b)) blobs)) (Ok (mk_btp tx acc_blobs tid)) =
  Ok (mk_btp tx (acc_blobs ++ map blob_to_proto blobs) tid).
Proof.
  induction blobs as [|b blobs IH]; intros tx acc tid H; [cbn; rewrite app_nil_r; reflexivity|].
  apply Forall_cons_iff in H as [Hb H]. cbn [map fld_wire fold_left btp_apply bind].
  unfold marshal_blob at 2. rewrite blob_proto_round_trip by (apply blob_to_proto_ok, Hb).
  cbn [bind btp_tx btp_blobs btp_type_id]. rewrite IH by exact H. rewrite <- app_assoc. reflexivity.
Qed.

(* a blob transaction decodes back to the same inner transaction and blobs *)
Theorem blob_tx_round_trip tx blobs enc : btx_ok tx blobs ->
  marshal_blob_tx tx blobs = Ok enc ->
  unmarshal_blob_tx enc = UbtOk (mk_btx tx blobs).
Proof.
  intros Hok Hm. pose proof Hok as (Ht & Hne & Hall & Hlens).
  rewrite (marshal_blob_tx_flds tx blobs Hok) in Hm. inversion Hm; subst enc. clear Hm.
  unfold unmarshal_blob_tx, unmarshal_blob_tx_proto. rewrite wire_flds.
  2:{ unfold btx_flds. rewrite !Forall_app; repeat split.
      - apply opt_fb_ok; [lia|exact Ht].
      - apply Forall_forall. intros f Hf. apply in_map_iff in Hf. destruct Hf as (b & <- & Hb).
        rewrite Forall_forall in Hlens. apply fb_ok; [lia|apply Hlens, Hb].
      - constructor; [apply fb_ok; [lia|apply type_id_len_ok; cbn [type_id_blob length]; lia]|constructor]. }
  cbn [bind]. unfold btx_flds. rewrite !map_app, !fold_left_app.
  assert (H1 : fold_left btp_apply (map fld_wire (opt_fb 1 tx)) (Ok (mk_btp [] [] [])) = Ok (mk_btp tx [] [])).
  { destruct tx; reflexivity. }
  rewrite H1, btp_fold_blobs by exact Hall. cbn [app map fld_wire fold_left btp_apply bind btp_tx btp_blobs btp_type_id].
  change (utf8_valid type_id_blob) with true. cbv iota. cbn [btp_type_id btp_blobs btp_tx].
  rewrite bytes_eqb_refl. cbn [negb].
  destruct (map blob_to_proto blobs) as [|p0 pl] eqn:Em; [destruct blobs; [congruence|discriminate]|].
  rewrite <- Em.
  assert (Hmo : map_outcome new_blob_from_proto (map blob_to_proto blobs) = Ok blobs).
  { clear -Hall. induction blobs as [|b blobs IH]; [reflexivity|]. apply Forall_cons_iff in Hall as [Hb Hall].
    cbn [map map_outcome]. rewrite new_blob_from_blob_to_proto by exact Hb. cbn [bind]. rewrite IH by exact Hall. reflexivity. }
  rewrite Hmo. reflexivity.
Qed.

(* a blob transaction is never recognised as an index wrapper *)
Theorem blob_tx_is_not_index_wrapper tx blobs enc : btx_ok tx blobs ->
  marshal_blob_tx tx blobs = Ok enc -> unmarshal_index_wrapper enc = None.
Proof.
  intros Hok Hm. pose proof Hok as (Ht & Hne & Hall & Hlens).
  rewrite (marshal_blob_tx_flds tx blobs Hok) in Hm. inversion Hm; subst enc. clear Hm.
  unfold unmarshal_index_wrapper, unmarshal_index_wrapper_proto. rewrite wire_flds.
  2:{ unfold btx_flds. rewrite !Forall_app; repeat split.
      - apply opt_fb_ok; [lia|exact Ht].
      - apply Forall_forall. intros f Hf. apply in_map_iff in Hf. destruct Hf as (b & <- & Hb).
        rewrite Forall_forall in Hlens. apply fb_ok; [lia|apply Hlens, Hb].
      - constructor; [apply fb_ok; [lia|apply type_id_len_ok; cbn [type_id_blob length]; lia]|constructor]. }
  cbn [bind]. unfold btx_flds. rewrite app_assoc, map_app. cbn [map fld_wire].
  destruct (fold_left iw_apply _ _) as [p| |] eqn:E; try reflexivity.
  apply iw_fold_last in E; [|vm_compute; reflexivity]. rewrite E. reflexivity.
Qed.
