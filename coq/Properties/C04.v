(* C04 - Recorded blob share indexes are truthful and satisfy the alignment rule
   (and the blob-region part of C03).  Statements only.

   Vocabulary (definitions in Proofs/BlobLayoutProofs.v):
     el_ok e            the element's blob is acceptable (blob_ok) and its predicted share
                        count is the number of shares of the blob's encoding - what
                        newElement establishes (C04_new_element_ok, with C13)
     export_start b     the cursor at which Export's blob loop starts
     export_place b     the list of (element, share index) pairs of Export, in lay-out
                        order: elements in the order of the stable namespace sort, each
                        index = NextShareIndex of the running cursor (a plain recursive
                        function of the sorted list: [place])
     export_region b    the blob region of the square, in closed form ([region])
     export_nrs b       index of the first blob share
     idx_at pfbs p j    pfbs[p].ShareIndexes[j] (None if out of range)
     binv b             invariant of builders made by AppendTx / AppendBlobTx

   Covered, for every builder b with threshold >= 1 whose elements are el_ok, conditional on
   [export b = Ok (b', sq)] (Export returned a square):
     - alignment: each index is a multiple of the blob's subtree width, and is the least
       such index at or after the end of the preceding blob          (C04_alignment, C04_index_is_least)
     - truthfulness: the blob's own share encoding appears verbatim at its index in the
       square                                                        (C04_truthful)
     - the index is stored, as a uint32 and unchanged if the square has at most 2^32
       shares, in slot (pfb index, blob index) of the exported builder's wrapped PFBs;
       other slots keep their values                                 (C04_recorded_in_slot, C04_other_slots_untouched)
     - ranges are increasing and pairwise disjoint in the order of the stable sort
                                                                     (C04_ranges_increasing_disjoint)
     - between consecutive blobs there is exactly the namespace padding of the preceding
       blob (its namespace and share version)                        (C04_gap_is_namespace_padding)
     - C03, blob region: the region sits at export_nrs, every share of it is a blob share
       or a padding share of a blob's namespace, and share namespaces are in the order the
       sorted element list is in                                     (C03_blob_region, C03_blob_region_shares, C03_blob_region_namespace_order)
     - FindBlobStartingIndex / BlobShareLength / BlobShareRange return (index, index +
       share count) for every blob of the builder and Err for out-of-range indexes
                                                                     (C04_queries, C04_blob_share_range, C04_queries_out_of_range, C04_blob_share_range_out_of_range, C04_blob_index_too_high)
     - the loop-level statements behind them                         (C04_loop_layout etc.), copy / WriteSquare (C04_copy_at, C04_write_square_blob_region)
     - builders obtained by NewBuilder(txs...) / Build satisfy [binv], which supplies the
       side conditions (distinct slots, "empty builder has no blobs", elements made by
       newElement)                                                   (C04_builder_invariant, C04_build_invariant, C04_binv_facts)
   Not covered here:
     - that the order of [sort_elements] is "by namespace, ties by transaction priority then
       position in the transaction": that is the stable-sort characterisation in
       Proofs/SortProofs.v; here the lay-out order is shown to BE the order of
       [sort_elements (bd_blobs b)] (C04_ranges_increasing_disjoint, first conjunct)
     - decoding the recorded index back out of the PFB *shares* of the square (needs the
       compact-share round trip, C09/C19); here the index is read from the exported
       builder's wrapped PFBs, which are what is marshalled into those shares
     - that the blobs of a tx list are [blob_ok] (namespace validity is the caller's
       hypothesis in the property's quantifier: "blob-valid namespaces") *)
From Coq Require Import List NArith ZArith Sorted.
From GS.Model Require Import Base Varint Namespace ShareFmt Blob Sparse Compact Counter Arith Proto Builder.
From GS.Spec Require Import ShareSpec.
From GS.Proofs Require Import SparseProofs ArithProofs BlobLayoutProofs.
Import ListNotations.
Open Scope N_scope.

(* ---------- what newElement establishes ---------- *)
Theorem C04_new_element_ok : forall b pi bi thr, blob_ok b ->
  lenN (b_data b) + signer_len b < 4294967296 ->
  el_ok (new_element b pi bi thr).
Proof. exact new_element_ok. Qed.
Print Assumptions C04_new_element_ok.

(* ---------- the blob loop ---------- *)
(* the loop computes the closed-form lay-out: shares, first index, final cursor, and the
   indexes stored in loop order *)
Theorem C04_loop_layout : forall thr start pfbs els st', 1 <= thr -> Forall el_ok els ->
  export_blobs thr true els (init_state start pfbs) = Ok st' ->
  bl_shares st' = region thr true start [] 0 els /\
  bl_nrs st' = start_of thr true start els /\
  bl_cursor st' = end_cursor thr start els /\
  lenN (bl_shares st') = bl_cursor st' - bl_nrs st' /\
  start <= bl_nrs st' /\ bl_nrs st' <= bl_cursor st' /\
  record_all pfbs (place thr start els) = Ok (bl_pfbs st').
Proof. exact export_blobs_layout. Qed.
Print Assumptions C04_loop_layout.

Theorem C04_loop_truthful : forall thr start pfbs els st' e i, 1 <= thr -> Forall el_ok els ->
  export_blobs thr true els (init_state start pfbs) = Ok st' ->
  In (e, i) (place thr start els) ->
  bl_nrs st' <= i /\ i + e_num_shares e <= bl_cursor st' /\
  firstn (N.to_nat (e_num_shares e)) (skipn (N.to_nat (i - bl_nrs st')) (bl_shares st')) = blob_spec (e_blob e).
Proof. exact export_blobs_truthful. Qed.
Print Assumptions C04_loop_truthful.

(* from any state satisfying the loop invariant *)
Theorem C04_loop_truthful_running : forall thr els st st' pns pver e i, 1 <= thr -> Forall el_ok els ->
  bl_end_last st = bl_cursor st ->
  last_is (bl_shares st) pns pver -> length pns = 29%nat -> pver <= 127 ->
  bl_nrs st <= bl_cursor st -> lenN (bl_shares st) = bl_cursor st - bl_nrs st ->
  export_blobs thr false els st = Ok st' ->
  In (e, i) (place thr (bl_cursor st) els) ->
  bl_nrs st' = bl_nrs st /\ bl_nrs st' <= i /\ i + e_num_shares e <= bl_cursor st' /\
  lenN (bl_shares st') = bl_cursor st' - bl_nrs st' /\
  firstn (N.to_nat (e_num_shares e)) (skipn (N.to_nat (i - bl_nrs st')) (bl_shares st')) = blob_spec (e_blob e).
Proof. exact export_blobs_truthful_running. Qed.
Print Assumptions C04_loop_truthful_running.

Theorem C04_loop_gap : forall thr start pfbs els st' k e1 i1 e2 i2, 1 <= thr -> Forall el_ok els ->
  export_blobs thr true els (init_state start pfbs) = Ok st' ->
  nth_error (place thr start els) k = Some (e1, i1) ->
  nth_error (place thr start els) (S k) = Some (e2, i2) ->
  let gap := i2 - (i1 + e_num_shares e1) in
  i1 + e_num_shares e1 <= i2 /\
  i2 = next_share_index (i1 + e_num_shares e1) (e_num_shares e2) thr /\
  firstn (N.to_nat gap) (skipn (N.to_nat (i1 + e_num_shares e1 - bl_nrs st')) (bl_shares st')) =
  repeat (padding_spec (b_ns (e_blob e1)) (b_ver (e_blob e1))) (N.to_nat gap).
Proof. exact export_blobs_gap. Qed.
Print Assumptions C04_loop_gap.

(* storing the indexes: shape of the PFB list unchanged, untouched slots unchanged, and with
   distinct slots every element's slot holds its index *)
Theorem C04_loop_recording : forall ps pfbs pfbs', record_all pfbs ps = Ok pfbs' ->
  pfb_shape pfbs' = pfb_shape pfbs /\
  (forall pi bi, ~ In (pi, bi) (map (fun p => el_key (fst p)) ps) -> idx_at pfbs' pi bi = idx_at pfbs pi bi) /\
  (NoDup (map (fun p => el_key (fst p)) ps) ->
   forall e i, In (e, i) ps -> idx_at pfbs' (e_pfb_index e) (e_blob_index e) = Some (u32 i)).
Proof. exact record_all_spec. Qed.
Print Assumptions C04_loop_recording.

(* ---------- copy and WriteSquare ---------- *)
Theorem C04_copy_at : forall dst off src r, copy_at dst off src = Ok r ->
  off <= lenN dst /\ length r = length dst /\
  (forall k, (k <= N.to_nat off)%nat -> firstn k r = firstn k dst) /\
  (off + lenN src <= lenN dst -> firstn (length src) (skipn (N.to_nat off) r) = src) /\
  (forall k, (N.to_nat (off + lenN src) <= k)%nat -> skipn k r = skipn k dst).
Proof. exact copy_at_spec. Qed.
Print Assumptions C04_copy_at.

Theorem C04_write_square_blob_region : forall txw pfbw bs nrs ss sq,
  write_square txw pfbw bs nrs ss = Ok sq ->
  lenN sq = ss * ss /\ nrs + lenN bs <= ss * ss /\
  firstn (length bs) (skipn (N.to_nat nrs) sq) = bs.
Proof. exact write_square_blob_region. Qed.
Print Assumptions C04_write_square_blob_region.

(* ---------- Builder.Export ---------- *)
Theorem C04_alignment : forall b e i, 1 <= bd_thr b -> In (e, i) (export_place b) ->
  i mod subtree_width (e_num_shares e) (bd_thr b) = 0.
Proof. exact export_aligned. Qed.
Print Assumptions C04_alignment.

Theorem C04_index_is_least : forall b k e i, 1 <= bd_thr b -> nth_error (export_place b) k = Some (e, i) ->
  let cur := end_cursor (bd_thr b) (export_start b) (firstn k (sort_elements (bd_blobs b))) in
  i = next_share_index cur (e_num_shares e) (bd_thr b) /\
  cur <= i /\ i < cur + subtree_width (e_num_shares e) (bd_thr b) /\
  forall m, m mod subtree_width (e_num_shares e) (bd_thr b) = 0 -> cur <= m -> i <= m.
Proof. exact export_least. Qed.
Print Assumptions C04_index_is_least.

Theorem C04_truthful : forall b b' sq e i, 1 <= bd_thr b -> Forall el_ok (bd_blobs b) ->
  (builder_is_empty b = true -> bd_blobs b = []) ->
  export b = Ok (b', sq) ->
  In (e, i) (export_place b) ->
  i + e_num_shares e <= lenN sq /\
  firstn (N.to_nat (e_num_shares e)) (skipn (N.to_nat i) sq) = blob_spec (e_blob e).
Proof. exact export_truthful. Qed.
Print Assumptions C04_truthful.

Theorem C04_recorded_in_slot : forall b b' sq e i, 1 <= bd_thr b -> Forall el_ok (bd_blobs b) ->
  (builder_is_empty b = true -> bd_blobs b = []) ->
  NoDup (map el_key (bd_blobs b)) ->
  export b = Ok (b', sq) ->
  In (e, i) (export_place b) ->
  idx_at (bd_pfbs b') (e_pfb_index e) (e_blob_index e) = Some (u32 i) /\
  (lenN sq <= 4294967296 -> u32 i = i).
Proof. exact export_recorded. Qed.
Print Assumptions C04_recorded_in_slot.

Theorem C04_other_slots_untouched : forall b b' sq pi bi, 1 <= bd_thr b -> Forall el_ok (bd_blobs b) ->
  (builder_is_empty b = true -> bd_blobs b = []) ->
  export b = Ok (b', sq) ->
  ~ In (pi, bi) (map el_key (bd_blobs b)) ->
  idx_at (bd_pfbs b') pi bi = idx_at (bd_pfbs b) pi bi.
Proof. exact export_other_slots. Qed.
Print Assumptions C04_other_slots_untouched.

(* lay-out order = order of the stable sort; every earlier range ends before every later one *)
Theorem C04_ranges_increasing_disjoint : forall b, 1 <= bd_thr b ->
  map fst (export_place b) = sort_elements (bd_blobs b) /\
  StronglySorted (fun p q => snd p + e_num_shares (fst p) <= snd q) (export_place b).
Proof. exact export_ranges_sorted. Qed.
Print Assumptions C04_ranges_increasing_disjoint.

Theorem C04_gap_is_namespace_padding : forall b b' sq k e1 i1 e2 i2, 1 <= bd_thr b -> Forall el_ok (bd_blobs b) ->
  (builder_is_empty b = true -> bd_blobs b = []) ->
  export b = Ok (b', sq) ->
  nth_error (export_place b) k = Some (e1, i1) ->
  nth_error (export_place b) (S k) = Some (e2, i2) ->
  let gap := i2 - (i1 + e_num_shares e1) in
  i1 + e_num_shares e1 <= i2 /\
  i2 = next_share_index (i1 + e_num_shares e1) (e_num_shares e2) (bd_thr b) /\
  firstn (N.to_nat gap) (skipn (N.to_nat (i1 + e_num_shares e1)) sq) =
  repeat (padding_spec (b_ns (e_blob e1)) (b_ver (e_blob e1))) (N.to_nat gap).
Proof. exact export_gap. Qed.
Print Assumptions C04_gap_is_namespace_padding.

(* ---------- C03, blob region ---------- *)
Theorem C03_blob_region : forall b b' sq, 1 <= bd_thr b -> Forall el_ok (bd_blobs b) ->
  (builder_is_empty b = true -> bd_blobs b = []) ->
  export b = Ok (b', sq) ->
  bd_txs b' = bd_txs b /\ bd_blobs b' = sort_elements (bd_blobs b) /\
  bd_thr b' = bd_thr b /\ bd_max b' = bd_max b /\
  pfb_shape (bd_pfbs b') = pfb_shape (bd_pfbs b) /\
  record_all (bd_pfbs b) (export_place b) = Ok (bd_pfbs b') /\
  export_nrs b + lenN (export_region b) <= lenN sq /\
  firstn (length (export_region b)) (skipn (N.to_nat (export_nrs b)) sq) = export_region b.
Proof. exact export_layout. Qed.
Print Assumptions C03_blob_region.

Theorem C03_blob_region_shares : forall b,
  Forall (fun s => (exists e, In e (bd_blobs b) /\ In s (blob_spec (e_blob e))) \/
                   (exists e, In e (bd_blobs b) /\ s = padding_spec (b_ns (e_blob e)) (b_ver (e_blob e))))
         (export_region b).
Proof. exact export_region_classified. Qed.
Print Assumptions C03_blob_region_shares.

Theorem C03_blob_region_namespace_order : forall (R : namespace -> namespace -> Prop) b, (forall x, R x x) ->
  Forall el_ok (bd_blobs b) ->
  StronglySorted R (map (fun e => b_ns (e_blob e)) (sort_elements (bd_blobs b))) ->
  StronglySorted R (map sh_ns (export_region b)).
Proof. exact export_region_ns_sorted. Qed.
Print Assumptions C03_blob_region_namespace_order.

(* ---------- the queries ---------- *)
Theorem C04_queries : forall b b' sq e i, 1 <= bd_thr b -> Forall el_ok (bd_blobs b) ->
  (builder_is_empty b = true -> bd_blobs b = []) ->
  NoDup (map el_key (bd_blobs b)) ->
  export b = Ok (b', sq) ->
  In (e, i) (export_place b) ->
  let pi := (Z.of_N (lenN (bd_txs b)) + Z.of_N (e_pfb_index e))%Z in
  let bi := Z.of_N (e_blob_index e) in
  (bd_done b = false -> find_blob_starting_index b pi bi = Ok (b', u32 i)) /\
  find_blob_starting_index b' pi bi = Ok (b', u32 i) /\
  blob_share_length b pi bi = Ok (e_num_shares e) /\
  blob_share_length b' pi bi = Ok (e_num_shares e).
Proof. exact blob_queries_spec. Qed.
Print Assumptions C04_queries.

Theorem C04_queries_out_of_range : forall b pi bi,
  (pi < Z.of_N (lenN (bd_txs b)) \/ Z.of_N (lenN (bd_txs b)) + Z.of_N (lenN (bd_pfbs b)) <= pi \/ bi < 0)%Z ->
  find_blob_starting_index b pi bi = Err /\ blob_share_length b pi bi = Err.
Proof. exact blob_queries_out_of_range. Qed.
Print Assumptions C04_queries_out_of_range.

Theorem C04_blob_index_too_high : forall b b' sq pi bi p,
  1 <= bd_thr b -> Forall el_ok (bd_blobs b) -> (builder_is_empty b = true -> bd_blobs b = []) ->
  bd_done b = false -> export b = Ok (b', sq) ->
  (Z.of_N (lenN (bd_txs b)) <= pi)%Z ->
  nth_error (bd_pfbs b) (Z.to_nat (pi - Z.of_N (lenN (bd_txs b)))) = Some p ->
  (Z.of_N (lenN (pfb_idx p)) <= bi)%Z ->
  find_blob_starting_index b pi bi = Err.
Proof. exact find_blob_starting_index_blob_index_high. Qed.
Print Assumptions C04_blob_index_too_high.

(* BlobShareLength on in-range indexes, exactly *)
Theorem C04_blob_share_length : forall b pi bi,
  (Z.of_N (lenN (bd_txs b)) <= pi < Z.of_N (lenN (bd_txs b)) + Z.of_N (lenN (bd_pfbs b)))%Z -> (0 <= bi)%Z ->
  blob_share_length b pi bi =
  match find (fun e => Z.eqb (Z.of_N (e_pfb_index e)) (pi - Z.of_N (lenN (bd_txs b)))
                       && Z.eqb (Z.of_N (e_blob_index e)) bi) (bd_blobs b) with
  | Some e => Ok (e_num_shares e)
  | None => Err
  end.
Proof. exact blob_share_length_in_range. Qed.
Print Assumptions C04_blob_share_length.

Theorem C04_blob_share_range : forall txs max thr b b' sq e i, 1 <= thr ->
  new_builder_txs max thr txs = Ok b -> Forall el_ok (bd_blobs b) ->
  export b = Ok (b', sq) ->
  In (e, i) (export_place b) ->
  blob_share_range txs (Z.of_N (lenN (bd_txs b)) + Z.of_N (e_pfb_index e)) (Z.of_N (e_blob_index e)) max thr
  = Ok (u32 i, u32 i + e_num_shares e).
Proof. exact blob_share_range_spec. Qed.
Print Assumptions C04_blob_share_range.

Theorem C04_blob_share_range_out_of_range : forall txs max thr b pi bi,
  new_builder_txs max thr txs = Ok b ->
  (pi < Z.of_N (lenN (bd_txs b)) \/ Z.of_N (lenN (bd_txs b)) + Z.of_N (lenN (bd_pfbs b)) <= pi \/ bi < 0)%Z ->
  blob_share_range txs pi bi max thr = Err.
Proof. exact blob_share_range_out_of_range. Qed.
Print Assumptions C04_blob_share_range_out_of_range.

(* ---------- the side conditions hold of builders made by the API ---------- *)
Theorem C04_builder_invariant : forall max thr txs b, new_builder_txs max thr txs = Ok b ->
  binv b /\ bd_thr b = thr.
Proof. exact new_builder_txs_inv. Qed.
Print Assumptions C04_builder_invariant.

Theorem C04_build_invariant : forall txs b normals blobs b' n' bl', binv b ->
  build_loop b txs normals blobs = Ok (b', n', bl') -> binv b' /\ bd_thr b' = bd_thr b.
Proof. exact build_loop_inv. Qed.
Print Assumptions C04_build_invariant.

Theorem C04_append_invariant : forall b, binv b ->
  (forall t, binv (fst (append_tx b t)) /\ bd_thr (fst (append_tx b t)) = bd_thr b) /\
  (forall bt, binv (fst (append_blob_tx b bt)) /\ bd_thr (fst (append_blob_tx b bt)) = bd_thr b).
Proof. exact append_inv. Qed.
Print Assumptions C04_append_invariant.

Theorem C04_binv_facts : forall b, binv b ->
  bd_done b = false /\ NoDup (map el_key (bd_blobs b)) /\
  (builder_is_empty b = true -> bd_blobs b = []) /\
  Forall (made_by_new_element (bd_thr b)) (bd_blobs b) /\
  Forall (fun e => blob_ok (e_blob e) /\ lenN (b_data (e_blob e)) + signer_len (e_blob e) < 4294967296 -> el_ok e)
         (bd_blobs b).
Proof. exact binv_facts. Qed.
Print Assumptions C04_binv_facts.

(* ---------- non-vacuity: a concrete square ---------- *)
(* two blob transactions; the first carries a 5-share blob and a version-1 blob in
   namespace 2, the second a 1-share blob in namespace 1 (so the sort moves it to the
   front); square size 8 allowed, threshold 1 *)
Definition ex_ns1 : bytes := repeat Byte.x00 19 ++ repeat Byte.x01 10.
Definition ex_ns2 : bytes := repeat Byte.x00 19 ++ repeat Byte.x02 10.
Definition ex_a := mk_blob ex_ns1 (repeat Byte.x07 100) 0 None.
Definition ex_b := mk_blob ex_ns2 (repeat Byte.x08 2000) 0 None.
Definition ex_c := mk_blob ex_ns2 (repeat Byte.x09 600) 1 (Some (repeat Byte.x05 20)).
Definition ex_b1 := fst (append_blob_tx (empty_builder 8 1) (mk_btx [Byte.x01; Byte.x02] [ex_b; ex_c])).
Definition ex_bd := fst (append_blob_tx ex_b1 (mk_btx [Byte.x03] [ex_a])).

Lemma ex_blob_ok : blob_ok ex_a /\ blob_ok ex_b /\ blob_ok ex_c.
Proof.
  repeat split; try (vm_compute; reflexivity); try discriminate.
  - left. split; reflexivity.
  - left. split; reflexivity.
  - right. split; [reflexivity|]. eexists. split; reflexivity.
Qed.

(* the premises of the theorems above hold *)
Example C04_example_premises :
  1 <= bd_thr ex_bd /\ binv ex_bd /\ Forall el_ok (bd_blobs ex_bd) /\ is_ok (export ex_bd) = true.
Proof.
  destruct ex_blob_ok as (Ha & Hb & Hc).
  split; [vm_compute; discriminate|]. split; [|split; [|vm_compute; reflexivity]].
  - apply append_blob_tx_inv, append_blob_tx_inv, binv_empty.
  - change (bd_blobs ex_bd) with [new_element ex_b 0 0 1; new_element ex_c 0 1 1; new_element ex_a 1 0 1].
    constructor; [|constructor; [|constructor; [|constructor]]]; apply new_element_ok; try assumption; vm_compute; reflexivity.
Qed.

(* lay-out: (pfb index, blob index), share count, share index, in lay-out order.
   blob a (1 share) at 1, two padding shares, blob b (5 shares, width 4) at 4, one padding
   share, blob c (2 shares, width 2) at 10 *)
Example C04_example_place :
  map (fun p => (el_key (fst p), e_num_shares (fst p), snd p)) (export_place ex_bd)
  = [((1, 0), 1, 1); ((0, 0), 5, 4); ((0, 1), 2, 10)] /\ export_start ex_bd = 1 /\ export_nrs ex_bd = 1.
Proof. vm_compute. repeat split; reflexivity. Qed.

(* the exported builder holds exactly these indexes, the blobs' encodings are at them, and
   the gaps are padding of the preceding blob's namespace *)
Example C04_example_square :
  match export ex_bd with
  | Ok (b', sq) =>
    map pfb_idx (bd_pfbs b') = [[4; 10]; [1]] /\ length sq = 16%nat /\
    firstn 1 (skipn 1 sq) = blob_spec ex_a /\
    firstn 5 (skipn 4 sq) = blob_spec ex_b /\
    firstn 2 (skipn 10 sq) = blob_spec ex_c /\
    firstn 2 (skipn 2 sq) = repeat (padding_spec ex_ns1 0) 2 /\
    firstn 1 (skipn 9 sq) = repeat (padding_spec ex_ns2 0) 1 /\
    blob_to_shares ex_c = Ok (blob_spec ex_c) /\
    find_blob_starting_index ex_bd 0 1 = Ok (b', 10) /\
    blob_share_length ex_bd 0 1 = Ok 2 /\
    find_blob_starting_index ex_bd 2 0 = Err /\
    find_blob_starting_index ex_bd 0 2 = Err /\
    blob_share_length ex_bd 0 (-1) = Err
  | _ => False
  end.
Proof. vm_compute. repeat split; reflexivity. Qed.

(* BlobShareRange on the marshalled transactions *)
Example C04_example_blob_share_range :
  match marshal_blob_tx [Byte.x01; Byte.x02] [ex_b; ex_c], marshal_blob_tx [Byte.x03] [ex_a] with
  | Ok t1, Ok t2 =>
    blob_share_range [t1; t2] 0 0 8 1 = Ok (4, 9) /\
    blob_share_range [t1; t2] 0 1 8 1 = Ok (10, 12) /\
    blob_share_range [t1; t2] 1 0 8 1 = Ok (1, 2) /\
    blob_share_range [t1; t2] 2 0 8 1 = Err /\
    blob_share_range [t1; t2] 1 1 8 1 = Err /\
    blob_share_range [t1; t2] 0 (-1) 8 1 = Err
  | _, _ => False
  end.
Proof. vm_compute. repeat split; reflexivity. Qed.
