(* The small public helpers of go-square that the property models do not need but that
   are part of the exported API: share/blob.go (SortBlobs, Blob.Compare, NewV0Blob,
   NewV1Blob, Blob.IsEmpty, Blob.DataLen), inclusion/commitment.go (CreateCommitments),
   share/info_byte.go (ParseInfoByte), share/range.go (NewRange, EmptyRange, Range.IsEmpty,
   Range.Add), share/namespace.go (Namespace.Repeat, Namespace.IsEmpty), share/share.go
   (NewShare, FromBytes, ToBytes, Share.ToBytes), square.go (Square.Size, Square.Equals),
   share/split_sparse_shares.go (SparseShareSplitter.Count).  Definitions only. *)
From GS.Model Require Import Base Namespace ShareFmt Blob Sparse Arith Sha256 Nmt.
Open Scope N_scope.

(* ---------- share/blob.go ---------- *)

(* Blob.Compare: the comparison of the two namespaces *)
Definition blob_compare (a b : blob) : Z := ns_compare (b_ns a) (b_ns b).

(* the `less` closure of SortBlobs: blobs[i].Compare(blobs[j]) < 0 *)
Definition blob_less (a b : blob) : bool := Z.ltb (blob_compare a b) 0.

(* SortBlobs = sort.SliceStable with [blob_less]: insertion from the right.  [e] came
   before every element of [l] in the input, so it passes exactly the elements that are
   strictly smaller: blobs that are not ordered by [blob_less] keep their input order. *)
Fixpoint insert_blob (e : blob) (l : list blob) : list blob :=
  match l with
  | [] => [e]
  | x :: tl => if blob_less x e then x :: insert_blob e tl else e :: l
  end.
Definition sort_blobs (l : list blob) : list blob := fold_right insert_blob [] l.

(* NewV0Blob(ns, data) = NewBlob(ns, data, 0, nil) *)
Definition new_v0_blob (ns : namespace) (data : bytes) : outcome blob := new_blob ns data 0 None.
(* NewV1Blob(ns, data, signer) = NewBlob(ns, data, 1, signer) *)
Definition new_v1_blob (ns : namespace) (data : bytes) (signer : option bytes) : outcome blob :=
  new_blob ns data 1 signer.

(* Blob.IsEmpty: len(data) == 0; Blob.DataLen *)
Definition blob_is_empty (b : blob) : bool := Nat.eqb (length (b_data b)) 0.
Definition blob_data_len (b : blob) : N := lenN (b_data b).

(* ---------- inclusion/commitment.go ---------- *)

(* CreateCommitments: the loop over the blobs; the first error (or fault) is returned *)
Fixpoint create_commitments (H : bytes -> bytes) (mrf : list bytes -> bytes) (blobs : list blob) (thr : N)
  : outcome (list bytes) :=
  match blobs with
  | [] => Ok []
  | b :: tl =>
    do c <- create_commitment H mrf b thr;
    do cs <- create_commitments H mrf tl thr;
    Ok (c :: cs)
  end.
(* the instance that is run against the Go code *)
Definition commitments_sha (blobs : list blob) (thr : N) : outcome (list bytes) :=
  create_commitments sha256 (merkle_root sha256) blobs thr.

(* ---------- share/info_byte.go ---------- *)

(* ParseInfoByte(i): isSequenceStart := i%2 == 1; version := i >> 1; NewInfoByte(version, isSequenceStart) *)
Definition parse_info_byte (i : byte) : outcome byte :=
  new_info_byte (b2n i / 2) (N.odd (b2n i)).

(* ---------- share/range.go ---------- *)

(* a Range is its two Go ints (Start, End) *)
Definition range := (Z * Z)%type.

(* a Go int (64 bit, two's complement): `+=` wraps around *)
Definition int_wrap (z : Z) : Z := ((z + 9223372036854775808) mod 18446744073709551616 - 9223372036854775808)%Z.

Definition new_range (start end_ : Z) : range := (start, end_).
Definition empty_range : range := (0, 0)%Z.
Definition range_is_empty (r : range) : bool := (Z.eqb (fst r) 0 && Z.eqb (snd r) 0)%bool.
Definition range_add (r : range) (value : Z) : range :=
  (int_wrap (fst r + value), int_wrap (snd r + value)).

(* ---------- share/namespace.go ---------- *)

(* Namespace.Repeat(times): make([]Namespace, times) panics on a negative length; every
   element is a (deep) copy of the receiver *)
Definition ns_repeat (n : namespace) (times : Z) : outcome (list namespace) :=
  if (times <? 0)%Z then Fault else Ok (repeat n (Z.to_nat times)).

(* Namespace.IsEmpty: len(n.data) == 0 *)
Definition ns_is_empty (n : namespace) : bool := Nat.eqb (length n) 0.

(* ---------- share/share.go ---------- *)

(* NewShare / validateSize: exactly 512 bytes *)
Definition new_share (data : bytes) : outcome share := if wf_shareb data then Ok data else Err.
(* Share.ToBytes: the underlying bytes *)
Definition share_to_bytes (s : share) : bytes := s.
(* ToBytes(shares) *)
Definition to_bytes (shares : list share) : list bytes := map share_to_bytes shares.
(* FromBytes(bytes): NewShare on every element, the first error is returned *)
Definition from_bytes (l : list bytes) : outcome (list share) := map_outcome new_share l.

(* ---------- square.go ---------- *)

(* Square.Size() = Size(len(s)) *)
Definition square_size_of (s : list share) : N := square_size (lenN s).

(* Square.Equals: the lengths, then bytes.Equal share by share *)
Fixpoint square_equals_loop (a b : list share) : bool :=
  match a, b with
  | x :: a', y :: b' =>
    if bytes_eqb (share_to_bytes x) (share_to_bytes y) then square_equals_loop a' b' else false
  | _, _ => true
  end.
Definition square_equals (a b : list share) : bool :=
  if negb (Nat.eqb (length a) (length b)) then false else square_equals_loop a b.

(* ---------- share/split_sparse_shares.go ---------- *)

(* SparseShareSplitter.Count: the number of shares written so far (the state of a sparse
   splitter is the accumulator of Sparse.sparse_write_items) *)
Definition sparse_count (shares : list share) : N := lenN shares.
Definition sparse_count_after (items : list sparse_item) : outcome N :=
  do shs <- sparse_write_items [] items; Ok (sparse_count shs).
