// The Go side of bin/go2coqtest: calls every translated function of t/fn and t/sub on a fixed,
// deterministic set of argument tuples and prints one line per call:
//
//	<FuncKey> <targ> <args> => <results>
//
// FuncKey and targ are what go2coq prints ("fn.GMax", "U32"; targ is I64 for a function without a
// type parameter).  args and results are comma-separated decimal integers (bool: 0/1, error: 0 for
// nil / 1), "-" for an empty list, and results is "panic" when the call panicked.  A slice (package
// t/sl, the GoLiteL fragment) is one item "[e1:e2:...]", "[]" when empty or nil.  For a method the
// receiver's fields come first among the arguments, and for a pointer-receiver method their final
// values are appended to the results (fparams / fouts of the generated fundef).
package main

import (
	"bufio"
	"errors"
	"fmt"
	"math"
	"os"
	"reflect"
	"strings"

	"t/fn"
	"t/sl"
	"t/sub"
)

type entry struct {
	key  string
	targ string
	f    any
	// pools: parameter index (after flattening a receiver into its fields) -> the values to use
	// instead of the pool of the parameter's type; with cross, the full cross product of all pools
	// is run (every parameter needs a small pool then)
	pools map[int][]int64
	cross bool
}

// shift counts: the interesting ones, all small (see fn/shift.go)
var counts = []int64{0, 1, 63, 64, 65, 200, -1, -64, 31, 32, 33, 7, 8, 9, 62, 127}
var ucounts = []int64{0, 1, 63, 64, 65, 200, 31, 32, 33, 7, 8, 9, 62, 127, 255, 2}
var shiftI = []int64{0, 1, -1, math.MinInt64, math.MaxInt64, 3, -3, 0x40000000, 0x123456789abcdef, -0x123456789abcdef}
var shiftU = []int64{0, 1, -1, math.MinInt64, math.MaxInt64, 3, 255, 128, 0x80000000, 0xdeadbeef, 0x123456789abcdef}

func sh(x, s []int64) map[int][]int64 { return map[int][]int64{0: x, 1: s} }

var table = []entry{
	{key: "fn.AddI", f: fn.AddI}, {key: "fn.SubI", f: fn.SubI}, {key: "fn.MulI", f: fn.MulI},
	{key: "fn.QuoI", f: fn.QuoI}, {key: "fn.RemI", f: fn.RemI}, {key: "fn.ArithI64", f: fn.ArithI64},
	{key: "fn.QuoRemI64", f: fn.QuoRemI64}, {key: "fn.NegI", f: fn.NegI}, {key: "fn.PosNegI64", f: fn.PosNegI64},
	{key: "fn.AddU64", f: fn.AddU64}, {key: "fn.SubU64", f: fn.SubU64}, {key: "fn.MulU64", f: fn.MulU64},
	{key: "fn.QuoRemU64", f: fn.QuoRemU64}, {key: "fn.NegU64", f: fn.NegU64}, {key: "fn.ArithUint", f: fn.ArithUint},
	{key: "fn.ArithU32", f: fn.ArithU32}, {key: "fn.QuoRemU32", f: fn.QuoRemU32}, {key: "fn.NegU32", f: fn.NegU32},
	{key: "fn.ArithU8", f: fn.ArithU8}, {key: "fn.QuoRemU8", f: fn.QuoRemU8}, {key: "fn.NegU8", f: fn.NegU8},
	{key: "fn.BitsI", f: fn.BitsI}, {key: "fn.AndI", f: fn.AndI}, {key: "fn.OrI", f: fn.OrI}, {key: "fn.XorI", f: fn.XorI},
	{key: "fn.BitsU64", f: fn.BitsU64}, {key: "fn.BitsU32", f: fn.BitsU32}, {key: "fn.BitsU8", f: fn.BitsU8},
	{key: "fn.Consts", f: fn.Consts}, {key: "fn.ConstsMinMax", f: fn.ConstsMinMax}, {key: "fn.ConstsU", f: fn.ConstsU},
	{key: "fn.ConstsU8", f: fn.ConstsU8}, {key: "fn.ConstsU32", f: fn.ConstsU32}, {key: "fn.ConstBool", f: fn.ConstBool},
	{key: "fn.NamedType", f: fn.NamedType}, {key: "fn.ConstRune", f: fn.ConstRune}, {key: "fn.ConstFloatLit", f: fn.ConstFloatLit},
	{key: "fn.Uintptr", f: fn.Uintptr},

	{key: "fn.ShlI", f: fn.ShlI, pools: sh(shiftI, counts), cross: true},
	{key: "fn.ShrI", f: fn.ShrI, pools: sh(shiftI, counts), cross: true},
	{key: "fn.ShlI64U", f: fn.ShlI64U, pools: sh(shiftI, ucounts), cross: true},
	{key: "fn.ShrI64U", f: fn.ShrI64U, pools: sh(shiftI, ucounts), cross: true},
	{key: "fn.ShlU64", f: fn.ShlU64, pools: sh(shiftU, counts), cross: true},
	{key: "fn.ShrU64", f: fn.ShrU64, pools: sh(shiftU, counts), cross: true},
	{key: "fn.ShlU32", f: fn.ShlU32, pools: sh(shiftU, ucounts), cross: true},
	{key: "fn.ShrU32", f: fn.ShrU32, pools: sh(shiftU, counts), cross: true},
	{key: "fn.ShlU8", f: fn.ShlU8, pools: sh(shiftU, ucounts), cross: true},
	{key: "fn.ShrU8", f: fn.ShrU8, pools: sh(shiftU, counts), cross: true},
	{key: "fn.ShiftConstCounts", f: fn.ShiftConstCounts},
	{key: "fn.ShiftAssign", f: fn.ShiftAssign, pools: map[int][]int64{0: shiftI[:4], 1: shiftU[:4], 2: counts}, cross: true},
	{key: "fn.ShlUntypedI", f: fn.ShlUntypedI, pools: map[int][]int64{0: ucounts}, cross: true},
	{key: "fn.ShlUntypedU8", f: fn.ShlUntypedU8, pools: map[int][]int64{0: ucounts}, cross: true},
	{key: "fn.ShlUntypedConv", f: fn.ShlUntypedConv, pools: map[int][]int64{0: ucounts}, cross: true},
	{key: "fn.ShlUntypedCmp", f: fn.ShlUntypedCmp, pools: map[int][]int64{0: ucounts}, cross: true},
	{key: "fn.ShlUntypedU32", f: fn.ShlUntypedU32, pools: map[int][]int64{0: counts}, cross: true},
	{key: "fn.ShiftMix", f: fn.ShiftMix, pools: sh(shiftI, counts), cross: true},

	{key: "fn.CmpI", f: fn.CmpI}, {key: "fn.CmpU64", f: fn.CmpU64}, {key: "fn.CmpU32", f: fn.CmpU32},
	{key: "fn.CmpU8", f: fn.CmpU8}, {key: "fn.CmpMixed", f: fn.CmpMixed}, {key: "fn.CmpBool", f: fn.CmpBool},
	{key: "fn.GuardAnd", f: fn.GuardAnd}, {key: "fn.GuardOr", f: fn.GuardOr}, {key: "fn.GuardNot", f: fn.GuardNot},
	{key: "fn.GuardNested", f: fn.GuardNested}, {key: "fn.UnguardedAnd", f: fn.UnguardedAnd},
	{key: "fn.UnguardedOr", f: fn.UnguardedOr}, {key: "fn.BoolVars", f: fn.BoolVars}, {key: "fn.CmpConstU64", f: fn.CmpConstU64},

	{key: "fn.ConvFromI", f: fn.ConvFromI}, {key: "fn.ConvFromI64", f: fn.ConvFromI64}, {key: "fn.ConvFromU64", f: fn.ConvFromU64},
	{key: "fn.ConvFromU32", f: fn.ConvFromU32}, {key: "fn.ConvFromU8", f: fn.ConvFromU8}, {key: "fn.ConvChain", f: fn.ConvChain},
	{key: "fn.ConvThenOp", f: fn.ConvThenOp}, {key: "fn.ConvSignExtend", f: fn.ConvSignExtend},

	{key: "fn.Vars", f: fn.Vars}, {key: "fn.IncDecWrap", f: fn.IncDecWrap}, {key: "fn.OpAssignDivPanic", f: fn.OpAssignDivPanic},
	{key: "fn.Classify", f: fn.Classify}, {key: "fn.IfInit", f: fn.IfInit},
	{key: "fn.SumTo", f: fn.SumTo}, {key: "fn.Collatz", f: fn.Collatz}, {key: "fn.ForEver", f: fn.ForEver},
	{key: "fn.Nested", f: fn.Nested}, {key: "fn.LoopDivPanic", f: fn.LoopDivPanic}, {key: "fn.LoopCondCall", f: fn.LoopCondCall},
	{key: "fn.AbsClamp", f: fn.AbsClamp}, {key: "fn.IsSmall", f: fn.IsSmall}, {key: "fn.Pow2Loop", f: fn.Pow2Loop},
	{key: "fn.Switch", f: fn.Switch}, {key: "fn.SwitchDefaultMiddle", f: fn.SwitchDefaultMiddle},
	{key: "fn.SwitchDefaultFirst", f: fn.SwitchDefaultFirst}, {key: "fn.SwitchNoDefault", f: fn.SwitchNoDefault},
	{key: "fn.SwitchInLoop", f: fn.SwitchInLoop},

	{key: "fn.NamedResults", f: fn.NamedResults}, {key: "fn.NamedPartly", f: fn.NamedPartly},
	{key: "fn.BlankResults", f: fn.BlankResults}, {key: "fn.Shadow", f: fn.Shadow}, {key: "fn.NameReuse", f: fn.NameReuse},
	{key: "fn.ShadowResult", f: fn.ShadowResult}, {key: "fn.SpelledNil", f: fn.SpelledNil},
	{key: "fn.ShadowTypeName", f: fn.ShadowTypeName}, {key: "fn.BlankParam", f: fn.BlankParam},
	{key: "fn.BlankAssigned", f: fn.BlankAssigned},

	{key: "fn.GMax", targ: "I64", f: fn.GMax[int]}, {key: "fn.GMax", targ: "U64", f: fn.GMax[uint64]},
	{key: "fn.GMax", targ: "U32", f: fn.GMax[uint32]}, {key: "fn.GMax", targ: "U8", f: fn.GMax[uint8]},
	{key: "fn.GArith", targ: "I64", f: fn.GArith[int]}, {key: "fn.GArith", targ: "U64", f: fn.GArith[uint64]},
	{key: "fn.GArith", targ: "U32", f: fn.GArith[uint32]}, {key: "fn.GArith", targ: "U8", f: fn.GArith[uint8]},
	{key: "fn.GQuoRem", targ: "I64", f: fn.GQuoRem[int64]}, {key: "fn.GQuoRem", targ: "U64", f: fn.GQuoRem[uint]},
	{key: "fn.GQuoRem", targ: "U32", f: fn.GQuoRem[uint32]}, {key: "fn.GQuoRem", targ: "U8", f: fn.GQuoRem[uint8]},
	{key: "fn.GShift", targ: "I64", f: fn.GShift[int], pools: sh(shiftI, counts), cross: true},
	{key: "fn.GShift", targ: "U64", f: fn.GShift[uint64], pools: sh(shiftU, counts), cross: true},
	{key: "fn.GShift", targ: "U32", f: fn.GShift[uint32], pools: sh(shiftU, counts), cross: true},
	{key: "fn.GShift", targ: "U8", f: fn.GShift[uint8], pools: sh(shiftU, counts), cross: true},
	{key: "fn.GRoundUpPow2", targ: "I64", f: fn.GRoundUpPow2[int]}, {key: "fn.GRoundUpPow2", targ: "U64", f: fn.GRoundUpPow2[uint64]},
	{key: "fn.GRoundUpPow2", targ: "U32", f: fn.GRoundUpPow2[uint32]}, {key: "fn.GRoundUpPow2", targ: "U8", f: fn.GRoundUpPow2[uint8]},
	{key: "fn.GConv", targ: "I64", f: fn.GConv[int]}, {key: "fn.GConv", targ: "U64", f: fn.GConv[uint64]},
	{key: "fn.GConv", targ: "U32", f: fn.GConv[uint32]}, {key: "fn.GConv", targ: "U8", f: fn.GConv[uint8]},
	{key: "fn.GClamp", targ: "I64", f: fn.GClamp[int]}, {key: "fn.GClamp", targ: "U64", f: fn.GClamp[uint64]},
	{key: "fn.GClamp", targ: "U32", f: fn.GClamp[uint32]}, {key: "fn.GClamp", targ: "U8", f: fn.GClamp[uint8]},
	{key: "fn.GTriangle", targ: "I64", f: fn.GTriangle[int64]}, {key: "fn.GTriangle", targ: "U64", f: fn.GTriangle[uint64]},
	{key: "fn.GTriangle", targ: "U32", f: fn.GTriangle[uint32]}, {key: "fn.GTriangle", targ: "U8", f: fn.GTriangle[uint8]},
	{key: "fn.GUseQuoRem", targ: "I64", f: fn.GUseQuoRem[int]}, {key: "fn.GUseQuoRem", targ: "U64", f: fn.GUseQuoRem[uint64]},
	{key: "fn.GUseQuoRem", targ: "U32", f: fn.GUseQuoRem[uint32]}, {key: "fn.GUseQuoRem", targ: "U8", f: fn.GUseQuoRem[uint8]},
	{key: "fn.GChain", targ: "I64", f: fn.GChain[int]}, {key: "fn.GChain", targ: "U64", f: fn.GChain[uint64]},
	{key: "fn.GChain", targ: "U32", f: fn.GChain[uint32]}, {key: "fn.GChain", targ: "U8", f: fn.GChain[uint8]},
	{key: "fn.GConvOnly", targ: "I64", f: fn.GConvOnly[int]}, {key: "fn.GConvOnly", targ: "U64", f: fn.GConvOnly[uint64]},
	{key: "fn.GConvOnly", targ: "U32", f: fn.GConvOnly[uint32]}, {key: "fn.GConvOnly", targ: "U8", f: fn.GConvOnly[uint8]},
	{key: "fn.InstU8", f: fn.InstU8}, {key: "fn.InstU32", f: fn.InstU32}, {key: "fn.InstU64", f: fn.InstU64},
	{key: "fn.GNarrow", targ: "I64", f: fn.GNarrow[int]}, {key: "fn.GNarrow", targ: "U64", f: fn.GNarrow[uint64]},
	{key: "fn.GNarrow", targ: "U32", f: fn.GNarrow[uint32]}, {key: "fn.GNarrow", targ: "U8", f: fn.GNarrow[uint8]},
	{key: "fn.UseGenerics", f: fn.UseGenerics}, {key: "fn.UseGenericsNamed", f: fn.UseGenericsNamed},

	{key: "fn.DivMod", f: fn.DivMod}, {key: "fn.UseDivMod", f: fn.UseDivMod}, {key: "fn.SafeDiv", f: fn.SafeDiv},
	{key: "fn.ErrArgLocal", f: fn.ErrArgLocal}, {key: "fn.UseSafeDiv", f: fn.UseSafeDiv}, {key: "fn.Propagate", f: fn.Propagate},
	{key: "fn.Fact", f: fn.Fact}, {key: "fn.Fib", f: fn.Fib}, {key: "fn.IsEven", f: fn.IsEven}, {key: "fn.IsOdd", f: fn.IsOdd},
	{key: "fn.CallArgsOrder", f: fn.CallArgsOrder}, {key: "fn.CallPanics", f: fn.CallPanics},
	{key: "fn.CrossPackage", f: fn.CrossPackage}, {key: "fn.NoResult", f: fn.NoResult}, {key: "fn.NoParams", f: fn.NoParams},
	{key: "fn.InitCalls", f: fn.InitCalls},
	{key: "sub.Twice", f: sub.Twice}, {key: "sub.Low", f: sub.Low},

	{key: "fn.Acc.Add", f: (*fn.Acc).Add}, {key: "fn.Acc.Toggle", f: (*fn.Acc).Toggle},
	{key: "fn.Acc.Drain", f: (*fn.Acc).Drain}, {key: "fn.Acc.Reset", f: (*fn.Acc).Reset},
	{key: "fn.Acc.Weight", f: fn.Acc.Weight}, {key: "fn.Acc.IsOn", f: fn.Acc.IsOn},
	{key: "fn.Pair.Add", f: (*fn.Pair).Add}, {key: "fn.Pair.Sum", f: fn.Pair.Sum},
	{key: "fn.Acc.DivAll", f: (*fn.Acc).DivAll},
	{key: "fn.Celsius.Double", f: fn.Celsius.Double}, {key: "fn.Celsius.Above", f: fn.Celsius.Above},
	{key: "fn.Level.Next", f: fn.Level.Next},
	{key: "fn.Mixed.Bump", f: (*fn.Mixed).Bump}, {key: "fn.Mixed.Total", f: fn.Mixed.Total},
	// must be refused (fn/refuse.go): compared only if the translator lets them through (KNOWN_MISMATCH)
	{key: "fn.WithErr.RTouchErrField", f: (*fn.WithErr).RTouchErrField},
	{key: "fn.WithErr.RSetErrField", f: (*fn.WithErr).RSetErrField},
	{key: "fn.Emb.RPromotedField", f: (*fn.Emb).RPromotedField},
	{key: "fn.Celsius.Zero", f: fn.Celsius.Zero}, {key: "fn.Level.Blank", f: fn.Level.Blank},
	{key: "fn.Acc.Unnamed", f: (*fn.Acc).Unnamed}, {key: "fn.Emb.OnlyOwn", f: (*fn.Emb).OnlyOwn},
	{key: "fn.RetCall", f: fn.RetCall}, {key: "fn.RetCallErr", f: fn.RetCallErr}, {key: "fn.RetCallNested", f: fn.RetCallNested},
	{key: "fn.GRetCall", targ: "I64", f: fn.GRetCall[int]}, {key: "fn.GRetCall", targ: "U64", f: fn.GRetCall[uint64]},
	{key: "fn.GRetCall", targ: "U32", f: fn.GRetCall[uint32]}, {key: "fn.GRetCall", targ: "U8", f: fn.GRetCall[uint8]},

	// ---- the slice fragment (GoLiteL)
	{key: "sl.Iota", f: sl.Iota}, {key: "sl.Squares", f: sl.Squares}, {key: "sl.U8Wrap", f: sl.U8Wrap},
	{key: "sl.MakeFill", f: sl.MakeFill}, {key: "sl.MakeNeg", f: sl.MakeNeg},
	{key: "sl.StoreAt", f: sl.StoreAt, pools: map[int][]int64{0: small, 1: small, 2: {5, -9}}, cross: true},
	{key: "sl.StoreThenDiv", f: sl.StoreThenDiv, pools: map[int][]int64{0: small, 1: {0, 1, -3, 20}}, cross: true},
	{key: "sl.Reverse", f: sl.Reverse}, {key: "sl.OpAssignIdx", f: sl.OpAssignIdx}, {key: "sl.VarDeclMake", f: sl.VarDeclMake},
	{key: "sl.Sum", f: sl.Sum}, {key: "sl.SumIdx", f: sl.SumIdx}, {key: "sl.Dot", f: sl.Dot, cross: true},
	{key: "sl.RangeNoVars", f: sl.RangeNoVars}, {key: "sl.RangeKeyGrow", f: sl.RangeKeyGrow},
	{key: "sl.NestedRange", f: sl.NestedRange, cross: true},
	{key: "sl.EarlyReturn", f: sl.EarlyReturn, pools: map[int][]int64{1: {0, 1, 2, 3, -1, math.MaxInt64, 7}}, cross: true},
	{key: "sl.SwitchInRange", f: sl.SwitchInRange}, {key: "sl.CountWhere", f: sl.CountWhere},
	{key: "sl.Len2", f: sl.Len2, cross: true},
	{key: "sl.At", f: sl.At, pools: map[int][]int64{1: small}, cross: true},
	{key: "sl.AtU8", f: sl.AtU8, pools: map[int][]int64{1: {0, 1, 2, 3, 6, 7, 11, 12, 255}}, cross: true},
	{key: "sl.AtConst", f: sl.AtConst},
	{key: "sl.Variadic", f: sl.Variadic, pools: map[int][]int64{0: {0, 1, -5, math.MaxInt64}}, cross: true},
	{key: "sl.NamedSlice", f: sl.NamedSlice}, {key: "sl.NilReturn", f: sl.NilReturn},
	{key: "sl.CallScalar", f: sl.CallScalar},
	{key: "sl.CallScalarPanics", f: sl.CallScalarPanics, pools: map[int][]int64{1: {0, 1, -1, 3}}, cross: true},
	{key: "sl.CallSlice", f: sl.CallSlice}, {key: "sl.CallTwoRes", f: sl.CallTwoRes},
	{key: "sl.ReturnCall", f: sl.ReturnCall}, {key: "sl.ReturnCallMulti", f: sl.ReturnCallMulti},
	{key: "sl.PassParam", f: sl.PassParam, pools: map[int][]int64{1: {0, 1, 2, -1, 100}}, cross: true},
	{key: "sl.ShadowSlice", f: sl.ShadowSlice},
}

// small indexes and lengths, some out of range
var small = []int64{0, 1, 2, 3, 6, 7, 8, -1, 12, math.MaxInt64, math.MinInt64}

// slice arguments: for every shape, the elements are the pool values of the element type at these positions
var shapes = [][]int{{}, {0}, {1}, {1, 5, 7}, {0, 1, 2, 3, 4, 5}, {3, 3, 3}, {4, 2, 9, 7, 12, 1, 5},
	{10, 11, 12, 13, 14, 15, 16, 17, 18, 19, 20, 21}, {5, 0, 1}, {23, 22, 21, 20, 9, 8, 7, 6, 30, 31, 32, 33, 34, 35, 36, 2}}

func slicePool(t reflect.Type) []val {
	ep := pool(t.Elem())
	var vs []val
	for _, sh := range shapes {
		v := reflect.MakeSlice(t, 0, len(sh))
		var ss []string
		for _, i := range sh {
			e := ep[i%len(ep)]
			v = reflect.Append(v, e.v)
			ss = append(ss, e.s)
		}
		vs = append(vs, val{"[" + strings.Join(ss, ":") + "]", v})
	}
	return vs
}

// ---- value pools per kind: 0, 1, -1 / max, min, max first (the corner cross product uses the
// first few), then powers of two and their neighbours, then fixed pseudo-random values

var poolI = []int64{0, 1, -1, math.MinInt64, math.MaxInt64, 2, -2, 3, math.MinInt64 + 1, math.MaxInt64 - 1,
	4, 5, 7, 8, 9, 10, 13, 15, 16, 17, 63, 64, 65, 100, 127, 128, 255, 256, 257, -3, -7, -8, -10, -128, -129, -256,
	1<<31 - 1, 1 << 31, 1<<31 + 1, -1 << 31, -1<<31 - 1, 1<<32 - 1, 1 << 32, 1<<32 + 1, 1 << 62, 1<<62 + 1, -1 << 62,
	0x123456789abcdef0, -0x0fedcba987654321, 6364136223846793005, 1442695040888963407, -7046029254386353131,
	1000003, -999983, 12345, 3037000499, 3037000500, -3037000500}
var poolU64 = []uint64{0, 1, math.MaxUint64, 2, math.MaxUint64 - 1, 3, 1 << 63, 1<<63 - 1, 1<<63 + 1,
	4, 5, 7, 8, 9, 10, 15, 16, 17, 63, 64, 65, 100, 127, 128, 255, 256, 257, 1<<31 - 1, 1 << 31, 1<<32 - 1, 1 << 32, 1<<32 + 1,
	1 << 62, 0x123456789abcdef0, 0xf0123456789abcde, 6364136223846793005, 1442695040888963407, 11400714819323198485,
	1000003, 12345, 4294967291, 4294967311}
var poolU32 = []uint64{0, 1, math.MaxUint32, 2, math.MaxUint32 - 1, 3, 1 << 31, 1<<31 - 1, 1<<31 + 1,
	4, 5, 7, 8, 9, 10, 15, 16, 17, 63, 64, 65, 100, 127, 128, 255, 256, 257, 65535, 65536, 65537,
	0xdeadbeef, 0x12345678, 2654435761, 1000003, 12345, 46340, 46341}
var poolU8 = []uint64{0, 1, 255, 2, 254, 3, 128, 127, 129, 4, 5, 7, 8, 9, 10, 15, 16, 17, 63, 64, 65, 100, 200, 77, 171}
var poolB = []uint64{0, 1}

type val struct {
	s string
	v reflect.Value
}

func mk(t reflect.Type, bits uint64) val {
	v := reflect.New(t).Elem()
	switch t.Kind() {
	case reflect.Int, reflect.Int64:
		v.SetInt(int64(bits))
		return val{fmt.Sprint(int64(bits)), v}
	case reflect.Uint64, reflect.Uint, reflect.Uintptr:
		v.SetUint(bits)
		return val{fmt.Sprint(bits), v}
	case reflect.Uint32:
		v.SetUint(bits & math.MaxUint32)
		return val{fmt.Sprint(bits & math.MaxUint32), v}
	case reflect.Uint8:
		v.SetUint(bits & 255)
		return val{fmt.Sprint(bits & 255), v}
	case reflect.Bool:
		v.SetBool(bits&1 == 1)
		return val{fmt.Sprint(bits & 1), v}
	}
	panic("driver: parameter type " + t.String())
}

func intLike(t reflect.Type) bool {
	switch t.Kind() {
	case reflect.Int, reflect.Int64, reflect.Uint64, reflect.Uint, reflect.Uintptr, reflect.Uint32, reflect.Uint8, reflect.Bool:
		return true
	}
	return false
}

// ambient gives the fields the translator does not model a non-zero value: a translated method
// must not depend on them
func ambient(s reflect.Value) {
	for i := 0; i < s.NumField(); i++ {
		f := s.Field(i)
		switch {
		case f.Kind() == reflect.String:
			f.SetString("abc")
		case f.Kind() == reflect.Slice && f.Type().Elem().Kind() == reflect.Uint8:
			f.SetBytes([]byte{1, 2, 3})
		case f.Kind() == reflect.Interface:
			f.Set(reflect.ValueOf(errors.New("ambient")))
		case f.Kind() == reflect.Struct:
			for j := 0; j < f.NumField(); j++ {
				if k := f.Field(j).Kind(); k == reflect.Int || k == reflect.Uint32 {
					f.Field(j).Set(mk(f.Field(j).Type(), 5).v)
				}
			}
		}
	}
}

func pool(t reflect.Type) []val {
	var bits []uint64
	if t.Kind() == reflect.Slice {
		return slicePool(t)
	}
	switch t.Kind() {
	case reflect.Int, reflect.Int64:
		for _, x := range poolI {
			bits = append(bits, uint64(x))
		}
	case reflect.Uint64, reflect.Uint, reflect.Uintptr:
		bits = poolU64
	case reflect.Uint32:
		bits = poolU32
	case reflect.Uint8:
		bits = poolU8
	case reflect.Bool:
		bits = poolB
	default:
		panic("driver: parameter type " + t.String())
	}
	var vs []val
	for _, b := range bits {
		vs = append(vs, mk(t, b))
	}
	return vs
}

func show(v reflect.Value) string {
	switch v.Kind() {
	case reflect.Slice:
		var ss []string
		for i := 0; i < v.Len(); i++ {
			ss = append(ss, show(v.Index(i)))
		}
		return "[" + strings.Join(ss, ":") + "]"
	case reflect.Int, reflect.Int64:
		return fmt.Sprint(v.Int())
	case reflect.Uint64, reflect.Uint, reflect.Uintptr, reflect.Uint32, reflect.Uint8:
		return fmt.Sprint(v.Uint())
	case reflect.Bool:
		if v.Bool() {
			return "1"
		}
		return "0"
	case reflect.Interface: // error
		if v.IsNil() {
			return "0"
		}
		return "1"
	}
	panic("driver: result type " + v.Type().String())
}

func join(ss []string) string {
	if len(ss) == 0 {
		return "-"
	}
	return strings.Join(ss, ",")
}

// a fixed xorshift generator, seeded from the function key: no time, no math/rand
type rng uint64

func (r *rng) next() uint64 {
	x := uint64(*r)
	x ^= x << 13
	x ^= x >> 7
	x ^= x << 17
	*r = rng(x)
	return x
}

func main() {
	out := bufio.NewWriter(os.Stdout)
	defer out.Flush()
	for _, e := range table {
		if e.targ == "" {
			e.targ = "I64"
		}
		fv := reflect.ValueOf(e.f)
		ft := fv.Type()
		// flatten: a struct (or pointer to struct) receiver becomes one parameter per field
		var ptypes []reflect.Type
		var recv reflect.Type
		var fields []int // the receiver's integer fields: the only ones the translator models
		ptr := false
		first := 0
		if ft.NumIn() > 0 {
			t0 := ft.In(0)
			if t0.Kind() == reflect.Ptr {
				t0, ptr = t0.Elem(), true
			}
			if t0.Kind() == reflect.Struct {
				recv, first = t0, 1
				for i := 0; i < t0.NumField(); i++ {
					if intLike(t0.Field(i).Type) {
						fields = append(fields, i)
						ptypes = append(ptypes, t0.Field(i).Type)
					}
				}
			}
		}
		nf := len(ptypes)
		for i := first; i < ft.NumIn(); i++ {
			ptypes = append(ptypes, ft.In(i))
		}
		pools := make([][]val, len(ptypes))
		for i, t := range ptypes {
			if c, ok := e.pools[i]; ok {
				for _, x := range c {
					pools[i] = append(pools[i], mk(t, uint64(x)))
				}
			} else {
				pools[i] = pool(t)
			}
		}
		// the tuples: a cross product of the first m values of every pool (all of them with
		// cross), then pseudo-random picks
		var tuples [][]val
		seen := map[string]bool{}
		add := func(tu []val) {
			var ss []string
			for _, v := range tu {
				ss = append(ss, v.s)
			}
			k := join(ss)
			if !seen[k] {
				seen[k] = true
				tuples = append(tuples, append([]val(nil), tu...))
			}
		}
		k := len(ptypes)
		m := map[int]int{0: 1, 1: 25, 2: 5, 3: 3}[k]
		if m == 0 {
			m = 2
		}
		var rec func(i int, cur []val)
		rec = func(i int, cur []val) {
			if i == k {
				add(cur)
				return
			}
			lim := len(pools[i])
			if !e.cross && lim > m {
				lim = m
			}
			for j := 0; j < lim; j++ {
				rec(i+1, append(cur, pools[i][j]))
			}
		}
		rec(0, nil)
		if !e.cross && k > 0 {
			r := rng(0x9e3779b97f4a7c15)
			for _, c := range e.key + e.targ {
				r = rng(uint64(r)*1099511628211 ^ uint64(c))
			}
			if r == 0 {
				r = 1
			}
			extra := 14
			if k >= 4 {
				extra = 30 // the corner cross product is only over 0 and 1 there
			}
			if k == 1 {
				extra = 40 // a one-parameter function: most of the pool
			}
			for n := 0; n < extra; n++ {
				tu := make([]val, k)
				for i := range tu {
					tu[i] = pools[i][r.next()%uint64(len(pools[i]))]
				}
				add(tu)
			}
		}
		for _, tu := range tuples {
			var in []reflect.Value
			var rv reflect.Value
			if recv != nil {
				rv = reflect.New(recv)
				ambient(rv.Elem())
				for i := 0; i < nf; i++ {
					rv.Elem().Field(fields[i]).Set(tu[i].v)
				}
				if ptr {
					in = append(in, rv)
				} else {
					in = append(in, rv.Elem())
				}
			}
			var as []string
			for i, v := range tu {
				as = append(as, v.s)
				if i >= nf {
					in = append(in, v.v)
				}
			}
			res := func() (s string) {
				defer func() {
					if recover() != nil {
						s = "panic"
					}
				}()
				var rs []string
				call := fv.Call
				if ft.IsVariadic() {
					call = fv.CallSlice // the variadic parameter is given as a slice
				}
				for _, o := range call(in) {
					rs = append(rs, show(o))
				}
				if ptr {
					for i := 0; i < nf; i++ {
						rs = append(rs, show(rv.Elem().Field(fields[i])))
					}
				}
				return join(rs)
			}()
			fmt.Fprintf(out, "%s %s %s => %s\n", e.key, e.targ, join(as), res)
		}
	}
}
