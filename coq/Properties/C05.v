(* C05 - Blob commitments computed in isolation match the square's row trees.
   Statements only; proofs in Proofs/NmtProofs.v.  [H] is ANY base hash
   (crypto/sha256 in Go, Model/Sha256.v in the runner); nothing below depends on
   properties of H except the two "never fails" theorems, which need 32-byte digests. *)
From Coq Require Import List NArith ZArith.
From GS.Model Require Import Base Namespace ShareFmt Blob Sparse Arith Sha256 Nmt.
From GS.Spec Require Import ShareSpec.
From GS.Proofs Require Import ArithProofs SparseProofs NmtProofs.
Import ListNotations.
Open Scope N_scope.

(* (a) A blob of n shares, threshold t >= 1, subtree width w, placed at an index i that is
   a multiple of w in a square whose side s is a power of two >= w.  Every mountain-range
   chunk [o, o+m) has m a power of two <= w, starts (in the square) at a multiple of m,
   does not span two rows, and sits in its row at an offset that is a multiple of m. *)
Theorem C05_chunks_in_row : forall n t i s, 1 <= t ->
  let w := subtree_width n t in
  i mod w = 0 -> pow2 s -> w <= s ->
  forall o m, In (o, m) (offsets 0 (mmr_sizes n w)) ->
    pow2 m /\ m <= w /\ o + m <= n /\
    (i + o) mod m = 0 /\
    (i + o) / s = (i + o + m - 1) / s /\
    (i + o) mod s + m <= s /\
    ((i + o) mod s) mod m = 0.
Proof. exact chunks_in_row. Qed.
Print Assumptions C05_chunks_in_row.

(* (b) The RFC-6962 split recursion, any node type and combine function.  [inner_node]
   follows the recursion of [mroot] on l down to the call that covers exactly the given
   range.  In a tree of 2^k leaves the aligned range of 2^e leaves at p*2^e is such a call,
   and its value is the root computed over that sub-list alone. *)
Theorem C05_node_of_aligned_range : forall (T : Type) (f : T -> T -> T) (empty : T) k (l : list T) e p,
  length l = (2 ^ k)%nat -> (e <= k)%nat -> (p < 2 ^ (k - e))%nat ->
  inner_node f empty l (N.of_nat (p * 2 ^ e)) (N.of_nat (2 ^ e)) =
  Some (mroot f empty (firstn (2 ^ e) (skipn (p * 2 ^ e) l))).
Proof. exact @node_of_aligned_range. Qed.
Print Assumptions C05_node_of_aligned_range.

(* whatever range [inner_node] accepts (any tree size), the value is the isolated root *)
Theorem C05_inner_node_value : forall (T : Type) (f : T -> T -> T) (empty : T) (l : list T) off len v,
  inner_node f empty l off len = Some v -> v = mroot f empty (takeN len (dropN off l)).
Proof. exact @inner_node_value. Qed.
Print Assumptions C05_inner_node_value.

(* the root of the whole tree is the root over the inner nodes of any level *)
Theorem C05_root_over_level : forall (T : Type) (f : T -> T -> T) (empty : T) d e (l : list T),
  length l = (2 ^ (d + e))%nat ->
  mroot f empty l = mroot f empty (level_nodes f empty l (N.of_nat (2 ^ e))).
Proof. exact @mroot_level_nodes. Qed.
Print Assumptions C05_root_over_level.

(* (b) for the namespaced tree: the value of the inner node (an error of HashNode
   included) is what a separate tree holding only those leaves computes *)
Theorem C05_nmt_range_is_inner_node : forall (H : bytes -> bytes) k (leaves : list bytes) e p,
  length leaves = (2 ^ k)%nat -> (e <= k)%nat -> (p < 2 ^ (k - e))%nat ->
  inner_node (hash_node_o H) (Ok (nmt_empty_root H)) (nmt_leaf_hashes H leaves)
             (N.of_nat (p * 2 ^ e)) (N.of_nat (2 ^ e)) =
  Some (nmt_compute_root H (nmt_leaf_hashes H (firstn (2 ^ e) (skipn (p * 2 ^ e) leaves)))).
Proof. exact nmt_range_is_inner_node. Qed.
Print Assumptions C05_nmt_range_is_inner_node.

(* (b)+(c), row level: the j-th root of GenerateSubtreeRoots is the inner node of ANY
   power-of-two row that holds the j-th chunk's shares at an aligned offset *)
Theorem C05_subtree_root_is_row_node : forall (H : bytes -> bytes) b thr roots,
  blob_ok b -> 1 <= thr -> subtree_roots H b thr = Ok roots ->
  let shares := blob_spec b in
  let n := lenN shares in
  let chunks := offsets 0 (mmr_sizes n (subtree_width n thr)) in
  length roots = length chunks /\
  forall j o m, nth_error chunks j = Some (o, m) ->
  exists root, nth_error roots j = Some root /\
  forall (row : list share) k e p,
    length row = (2 ^ k)%nat -> m = N.of_nat (2 ^ e) -> (e <= k)%nat -> (p < 2 ^ (k - e))%nat ->
    firstn (2 ^ e) (skipn (p * 2 ^ e) row) = takeN m (dropN o shares) ->
    inner_node (hash_node_o H) (Ok (nmt_empty_root H)) (nmt_leaf_hashes H (row_leaves row))
               (N.of_nat (p * 2 ^ e)) m = Some (Ok root).
Proof. exact subtree_root_is_row_node. Qed.
Print Assumptions C05_subtree_root_is_row_node.

(* The property at the level of a square: side s = 2^kk, row-major list of s*s shares, the
   blob's shares at index i (a multiple of the subtree width w <= s).  Every chunk lies in
   one row and the j-th subtree root computed from the blob alone IS the inner node of that
   row's tree over the chunk's shares. *)
Theorem C05_subtree_roots_in_square : forall (H : bytes -> bytes) b thr roots (sq : list share) kk (i : N),
  blob_ok b -> 1 <= thr -> subtree_roots H b thr = Ok roots ->
  let shares := blob_spec b in
  let n := lenN shares in
  let w := subtree_width n thr in
  let s := N.of_nat (2 ^ kk) in
  length sq = (2 ^ kk * 2 ^ kk)%nat ->
  i mod w = 0 -> w <= s ->
  takeN n (dropN i sq) = shares ->
  forall j o m, nth_error (offsets 0 (mmr_sizes n w)) j = Some (o, m) ->
  exists root, nth_error roots j = Some root /\
    (i + o) / s = (i + o + m - 1) / s /\
    inner_node (hash_node_o H) (Ok (nmt_empty_root H))
               (nmt_leaf_hashes H (row_leaves (takeN s (dropN ((i + o) / s * s) sq))))
               ((i + o) mod s) m = Some (Ok root).
Proof. exact subtree_roots_in_square. Qed.
Print Assumptions C05_subtree_roots_in_square.

(* (c) CreateCommitment is the merkle root function applied to the subtree roots ... *)
Theorem C05_create_commitment_spec : forall (H : bytes -> bytes) mrf b thr,
  create_commitment H mrf b thr = do roots <- subtree_roots H b thr; Ok (mrf roots).
Proof. exact create_commitment_spec. Qed.
Print Assumptions C05_create_commitment_spec.

(* ... hence the merkle root over exactly the row-tree inner nodes of ANY square that holds
   the blob at an aligned index: the commitment depends on the blob and the threshold only,
   not on the position, the square size or the neighbours. *)
Theorem C05_commitment_from_rows : forall (H : bytes -> bytes) mrf b thr cm (sq : list share) kk (i : N),
  blob_ok b -> 1 <= thr -> create_commitment H mrf b thr = Ok cm ->
  let shares := blob_spec b in
  let n := lenN shares in
  let w := subtree_width n thr in
  let s := N.of_nat (2 ^ kk) in
  length sq = (2 ^ kk * 2 ^ kk)%nat -> i mod w = 0 -> w <= s -> takeN n (dropN i sq) = shares ->
  exists nodes,
    cm = mrf nodes /\ length nodes = length (mmr_sizes n w) /\
    forall j o m, nth_error (offsets 0 (mmr_sizes n w)) j = Some (o, m) ->
    exists node, nth_error nodes j = Some node /\
      inner_node (hash_node_o H) (Ok (nmt_empty_root H))
                 (nmt_leaf_hashes H (row_leaves (takeN s (dropN ((i + o) / s * s) sq))))
                 ((i + o) mod s) m = Some (Ok node).
Proof. exact commitment_from_rows. Qed.
Print Assumptions C05_commitment_from_rows.

(* two rows (of any two squares) holding the same chunk at aligned offsets have the same node *)
Theorem C05_row_node_independent : forall (H : bytes -> bytes) b thr roots,
  blob_ok b -> 1 <= thr -> subtree_roots H b thr = Ok roots ->
  let shares := blob_spec b in
  let n := lenN shares in
  forall j o m, nth_error (offsets 0 (mmr_sizes n (subtree_width n thr))) j = Some (o, m) ->
  forall (row1 row2 : list share) k1 k2 e p1 p2,
    m = N.of_nat (2 ^ e) ->
    length row1 = (2 ^ k1)%nat -> (e <= k1)%nat -> (p1 < 2 ^ (k1 - e))%nat ->
    length row2 = (2 ^ k2)%nat -> (e <= k2)%nat -> (p2 < 2 ^ (k2 - e))%nat ->
    firstn (2 ^ e) (skipn (p1 * 2 ^ e) row1) = takeN m (dropN o shares) ->
    firstn (2 ^ e) (skipn (p2 * 2 ^ e) row2) = takeN m (dropN o shares) ->
    inner_node (hash_node_o H) (Ok (nmt_empty_root H)) (nmt_leaf_hashes H (row_leaves row1)) (N.of_nat (p1 * 2 ^ e)) m =
    inner_node (hash_node_o H) (Ok (nmt_empty_root H)) (nmt_leaf_hashes H (row_leaves row2)) (N.of_nat (p2 * 2 ^ e)) m.
Proof. exact row_node_independent. Qed.
Print Assumptions C05_row_node_independent.

(* With a base hash of 32-byte digests: a tree whose Pushes all succeeded has a root
   (HashNode cannot fail: "this should never happen" in nmt.go), ... *)
Theorem C05_nmt_root_ok : forall (H : bytes -> bytes), (forall x, length (H x) = 32%nat) ->
  forall leaves : list bytes, leaves <> [] -> nmt_push_ok leaves = true ->
  exists v, nmt_root H leaves = Ok v /\ length v = 90%nat /\
            node_min v = nsof (hd [] leaves) /\ le_ns (node_max v) (nsof (last leaves [])).
Proof. exact nmt_root_ok. Qed.
Print Assumptions C05_nmt_root_ok.

(* ... and GenerateSubtreeRoots never fails on a valid blob with a threshold >= 1 *)
Theorem C05_subtree_roots_ok : forall (H : bytes -> bytes), (forall x, length (H x) = 32%nat) ->
  forall b thr, blob_ok b -> 1 <= thr -> exists roots, subtree_roots H b thr = Ok roots.
Proof. exact subtree_roots_ok. Qed.
Print Assumptions C05_subtree_roots_ok.

(* ---- non-vacuity (proved in Proofs/NmtProofs.v by vm_compute) ---- *)
(* 11 shares, threshold 3: chunks 4,4,2,1; index 8 in an 8x8 square *)
Example C05_chunks_instance :
  offsets 0 (mmr_sizes 11 (subtree_width 11 3)) = [(0, 4); (4, 4); (8, 2); (10, 1)].
Proof. exact chunks_11_3. Qed.
(* a toy non-associative tree *)
Example C05_inner_node_instance :
  inner_node toy_f [] [[10]; [11]; [12]; [13]]%nat 2 2 = Some (toy_f [12] [13])%nat /\
  inner_node toy_f [] [[10]; [11]; [12]; [13]]%nat 1 2 = None /\
  mroot toy_f [] [[10]; [11]; [12]; [13]]%nat = mroot toy_f [] (level_nodes toy_f [] [[10]; [11]; [12]; [13]]%nat 2).
Proof. exact inner_node_toy. Qed.
(* a real 1000-byte blob in a 4x4 square with the real SHA-256: hypotheses hold ... *)
Example C05_square_instance_hyps :
  blob_ok ex_blob /\
  length ex_square = (2 ^ 2 * 2 ^ 2)%nat /\
  4 mod subtree_width (lenN (blob_spec ex_blob)) 1 = 0 /\
  subtree_width (lenN (blob_spec ex_blob)) 1 <= N.of_nat (2 ^ 2) /\
  takeN (lenN (blob_spec ex_blob)) (dropN 4 ex_square) = blob_spec ex_blob /\
  offsets 0 (mmr_sizes (lenN (blob_spec ex_blob)) (subtree_width (lenN (blob_spec ex_blob)) 1)) = [(0, 2); (2, 1)].
Proof. split; [exact ex_blob_ok|exact ex_square_hyps]. Qed.
(* ... and the conclusion is computed: both subtree roots are the row's inner nodes, the
   commitment is the merkle root over them, the row tree itself has a root *)
Example C05_square_instance :
  exists r0 r1, subtree_roots sha256 ex_blob 1 = Ok [r0; r1] /\
  let row1 := row_leaves (takeN 4 (dropN 4 ex_square)) in
  inner_node (hash_node_o sha256) (Ok (nmt_empty_root sha256)) (nmt_leaf_hashes sha256 row1) 0 2 = Some (Ok r0) /\
  inner_node (hash_node_o sha256) (Ok (nmt_empty_root sha256)) (nmt_leaf_hashes sha256 row1) 2 1 = Some (Ok r1) /\
  commitment_sha ex_blob 1 = Ok (merkle_root sha256 [r0; r1]) /\
  is_ok (nmt_root sha256 row1) = true.
Proof. exact ex_square_nodes. Qed.
