(* C10 (specification hygiene) - the development has ONE specification of compact
   share sequences.  Statement only.

   Spec/ShareSpec.v [compact_spec] walks the stream of length-prefixed transactions
   with an offset, dropping the unit starts it has passed; Spec/CompactSpec.v
   [compact_spec_ix] gives share j as a function of the stream, the unit start offsets
   and j.  All compact proofs (C09-C12) are about the second; the runner compares both
   with the Go code.  They are the same function, for every namespace, version and
   list of transactions (no well-formedness hypothesis of any kind). *)
From Coq Require Import List Arith NArith Bool.
From GS.Model Require Import Base Varint Namespace ShareFmt.
From GS.Spec Require Import ShareSpec CompactSpec.
From GS.Proofs Require Import CompactSpecsProofs.
Import ListNotations.
Open Scope nat_scope.

Theorem C10_compact_specs_agree : forall ns ver txs,
  compact_spec ns ver txs = compact_spec_ix ns ver txs.
Proof. exact compact_specs_agree. Qed.
Print Assumptions C10_compact_specs_agree.

(* ---- concrete instances, computed on both sides independently of the proof ---- *)
Definition ex_ns : bytes := repeat Byte.x01 29.
Definition ex_tx (n : nat) (b : byte) : bytes := repeat b n.
(* units of 11, 21, 1202, 6, 1 and 8 bytes: three units start in share 0, the third
   (1202 bytes, stream offsets 32..1234) spans shares 0, 1 and 2, share 1 has no
   unit start, and three more units (one of them an empty transaction) start in share 2 *)
Definition ex_txs : list bytes :=
  [ex_tx 10 Byte.x02; ex_tx 20 Byte.x03; ex_tx 1200 Byte.x04; ex_tx 5 Byte.x05; []; ex_tx 7 Byte.x06].

Example ex_specs_agree : compact_spec ex_ns 0%N ex_txs = compact_spec_ix ex_ns 0%N ex_txs.
Proof. vm_compute. reflexivity. Qed.

(* the instance is not degenerate: three shares, with reserved bytes 38 (a unit starts
   at the first payload byte of share 0), 0 (share 1 is the middle of the long unit)
   and 34 + (1234 - 952) = 316 (the first unit that starts in share 2) *)
Example ex_specs_shape :
  length (stream ex_txs) = 1249 /\
  length (compact_spec ex_ns 0%N ex_txs) = 3 /\
  map (fun sh => rd32 (firstn 4 (skipn 34 sh))) (firstn 1 (compact_spec ex_ns 0%N ex_txs)) = [38%N] /\
  map (fun sh => rd32 (firstn 4 (skipn 30 sh))) (skipn 1 (compact_spec ex_ns 0%N ex_txs)) = [0%N; 316%N] /\
  ustarts 0 (units ex_txs) = [0; 11; 32; 1234; 1240; 1241].
Proof. vm_compute. repeat split; reflexivity. Qed.

(* boundary cases: no transaction, one empty transaction, a stream that exactly fills
   the first share (474 bytes), and one that exactly fills two shares (474 + 478) *)
Example ex_specs_agree_boundaries :
  compact_spec ex_ns 0%N [] = compact_spec_ix ex_ns 0%N [] /\
  compact_spec ex_ns 0%N [[]] = compact_spec_ix ex_ns 0%N [[]] /\
  length (stream [ex_tx 472 Byte.x02]) = 474 /\
  compact_spec ex_ns 0%N [ex_tx 472 Byte.x02] = compact_spec_ix ex_ns 0%N [ex_tx 472 Byte.x02] /\
  length (stream [ex_tx 472 Byte.x02; ex_tx 476 Byte.x03]) = 474 + 478 /\
  compact_spec ex_ns 1%N [ex_tx 472 Byte.x02; ex_tx 476 Byte.x03] =
    compact_spec_ix ex_ns 1%N [ex_tx 472 Byte.x02; ex_tx 476 Byte.x03].
Proof. vm_compute. repeat split; reflexivity. Qed.
