(* C11 - Compact shares parse correctly out of context.  Statements only.

   shs = compact_spec_ix ns 0 txs is the closed-form share encoding of the sequence
   (the writer is proved to export exactly this list in the compact writer development);
   S = stream txs is the stream of length-prefixed transactions, unit k occupies the
   stream offsets [start_k, end_k), share j carries the stream offsets [coff j, coff (j+1)).
   [sub_expected lo hi txs] is, by definition (a [filter] over the transactions paired
   with their unit start offsets),

     [ tx_k | coff lo <= start_k  /\  end_k <= min (coff hi) (length S) ]   in order,

   the transactions that begin inside shares lo .. hi-1 and are complete within them. *)
From Coq Require Import List Arith NArith.
From GS.Model Require Import Base Varint Namespace ShareFmt Compact.
From GS.Spec Require Import ShareSpec CompactSpec.
From GS.Proofs Require Import SubrangeProofs.
Import ListNotations.
Open Scope nat_scope.

(* the characterisation is the set comprehension of the property text *)
Theorem C11_expected_is_comprehension : forall lo hi txs,
  sub_expected lo hi txs =
  map fst (filter (fun p => Nat.leb (coff lo) (snd p) &&
                            Nat.leb (snd p + length (marshal_delimited (fst p)))
                                    (Nat.min (coff hi) (length (stream txs))))%bool
                  (combine txs (ustarts 0 (units txs)))).
Proof. exact (fun lo hi txs => eq_refl). Qed.
Print Assumptions C11_expected_is_comprehension.

(* Main theorem: every sub-range [lo, hi) of the share sequence of any list of non-empty
   transactions parses to exactly the transactions that begin in it and are complete in
   it (also for lo = hi: the empty range gives no transactions). *)
Theorem C11_subrange : forall ns txs lo hi,
  length ns = 29 -> is_compact_ns ns = true -> Forall (fun t => t <> []) txs ->
  (lenN (stream txs) < 4294967296)%N ->
  lo <= hi <= length (compact_spec_ix ns 0 txs) ->
  parse_txs (firstn (hi - lo) (skipn lo (compact_spec_ix ns 0 txs))) = Ok (sub_expected lo hi txs).
Proof. exact parse_subrange. Qed.
Print Assumptions C11_subrange.

(* the same without the 32-bit bound on the stream (the parser never reads the
   sequence-length field): transactions non-empty and shorter than 2^64 bytes *)
Theorem C11_subrange_unbounded : forall ns txs lo hi,
  length ns = 29 -> is_compact_ns ns = true ->
  Forall (fun tx => 0 < length tx /\ (lenN tx < 2 ^ 64)%N) txs ->
  lo <= hi <= length (compact_spec_ix ns 0 txs) ->
  parse_txs (firstn (hi - lo) (skipn lo (compact_spec_ix ns 0 txs))) = Ok (sub_expected lo hi txs).
Proof. exact parse_subrange_unbounded. Qed.
Print Assumptions C11_subrange_unbounded.

(* ... for any number n of shares of the closed form and any sequence-length field *)
Theorem C11_subrange_any_shares : forall ns total txs n lo hi,
  length ns = 29 -> is_compact_ns ns = true ->
  Forall (fun tx => 0 < length tx /\ (lenN tx < 2 ^ 64)%N) txs ->
  lo <= hi <= n ->
  parse_txs (firstn (hi - lo) (skipn lo
     (map (fun j => cshare ns 0 total j (stream txs) (ustarts 0 (units txs))) (seq 0 n))))
  = Ok (sub_expected lo hi txs).
Proof. exact parse_subrange_gen. Qed.
Print Assumptions C11_subrange_any_shares.

(* It never returns a transaction that was not written: the result of parsing any
   sub-range is a contiguous, order-preserving piece of the written list. *)
Theorem C11_never_fabricates : forall ns txs lo hi res,
  length ns = 29 -> is_compact_ns ns = true -> Forall (fun t => t <> []) txs ->
  (lenN (stream txs) < 4294967296)%N ->
  lo <= hi <= length (compact_spec_ix ns 0 txs) ->
  parse_txs (firstn (hi - lo) (skipn lo (compact_spec_ix ns 0 txs))) = Ok res ->
  exists pre post, txs = pre ++ res ++ post.
Proof. exact parse_subrange_sublist. Qed.
Print Assumptions C11_never_fabricates.

Theorem C11_expected_contiguous : forall lo hi txs,
  exists pre post, txs = pre ++ sub_expected lo hi txs ++ post.
Proof. exact sub_expected_contiguous. Qed.
Print Assumptions C11_expected_contiguous.

(* the whole sequence selects every transaction (C09 is the case lo = 0, hi = n) *)
Theorem C11_expected_full : forall txs,
  sub_expected 0 (cneeded (length (stream txs))) txs = txs.
Proof. exact sub_expected_full. Qed.
Print Assumptions C11_expected_full.

(* a range lying wholly inside one (long) transaction selects nothing *)
Theorem C11_expected_inside_one_tx : forall lo hi t1 tx t2,
  length (stream t1) < coff lo ->
  coff hi < length (stream t1) + length (marshal_delimited tx) ->
  sub_expected lo hi (t1 ++ tx :: t2) = [].
Proof. exact sub_expected_inside. Qed.
Print Assumptions C11_expected_inside_one_tx.

(* ---- the two halves of the proof, each in full generality ---- *)

(* Step 2 (the parser never fabricates): raw data that is the stream of [txs] (first
   unit at stream offset off >= a) cut at stream offset b and followed by z zero bytes
   (zero fill only after the complete stream) parses to exactly the units that end at
   or before b.  Covers a cut at a unit boundary, inside a length prefix (reported as
   an incomplete delimiter, fix D4), right after it, and inside a body. *)
Theorem C11_parse_raw_units : forall txs off a b z fuel,
  Forall (fun tx => 0 < length tx /\ (lenN tx < 2 ^ 64)%N) txs ->
  a <= off -> (z = 0 \/ off + length (stream txs) <= b) ->
  length (firstn (b - off) (stream txs) ++ zeros z) < fuel ->
  parse_raw_data fuel (firstn (b - off) (stream txs) ++ zeros z) = Ok (sel_txs a b off txs).
Proof. exact parse_raw_sel. Qed.
Print Assumptions C11_parse_raw_units.

(* canonicity of length prefixes: only the last byte is below 0x80 ... *)
Theorem C11_varint_canonical : forall n, (n < 2 ^ 64)%N ->
  exists init last, put_uvarint n = init ++ [last] /\
    Forall (fun b => 128 <= b2n b)%N init /\ (b2n last < 128)%N.
Proof. exact put_uvarint_canonical. Qed.
Print Assumptions C11_varint_canonical.

(* ... so a length prefix cut by the end of the input is an incomplete delimiter *)
Theorem C11_cut_delimiter : forall n k, 0 < k < length (put_uvarint n) ->
  parse_delimiter (firstn k (put_uvarint n)) = DelimIncomplete.
Proof. exact parse_delimiter_cut. Qed.
Print Assumptions C11_cut_delimiter.

(* Step 1 (entering through the reserved bytes, fix D3): over shares j .. j+m-1 the
   shares in which no unit starts are skipped; from the first unit start u >= coff j
   (if it lies before the end of the range and of the stream) the raw data is the
   stream from u to coff (j + m), zero filled; otherwise it is empty. *)
Theorem C11_extract_range : forall ns total s sts,
  length ns = 29 -> is_compact_ns ns = true -> Forall (fun u => u < length s) sts ->
  forall m j,
  extract_raw_data false (map (fun i => cshare ns 0 total i s sts) (seq j m)) =
  Ok (match find (fun u => Nat.leb (coff j) u) sts with
      | Some u => if Nat.ltb u (Nat.min (coff (j + m)) (length s))
                  then padded u (coff (j + m) - u) s else []
      | None => []
      end).
Proof. exact extract_false. Qed.
Print Assumptions C11_extract_range.

(* ---- concrete instances (non-vacuity), by computation on the model ---- *)
Definition mk (n : nat) (b : byte) : bytes := repeat b n.
Definition same (a : outcome (list bytes)) (b : list bytes) : bool :=
  match a with
  | Ok l => Nat.eqb (length l) (length b) &&
            forallb (fun p => bytes_eqb (fst p) (snd p)) (combine l b)
  | _ => false
  end.
(* every sub-range 0 <= lo < hi <= n: the parser agrees with the characterisation *)
Definition all_subranges_agree (txs : list bytes) : bool :=
  let shs := compact_spec_ix tx_ns 0 txs in
  let n := length shs in
  forallb (fun lo => forallb (fun hi =>
     same (parse_txs (firstn (hi - lo) (skipn lo shs))) (sub_expected lo hi txs))
     (seq (S lo) (n - lo))) (seq 0 n).

(* D3 witness: a 2000-byte transaction of 0x03 bytes spans shares 0..4 *)
Definition t_d3 := [mk 10 Byte.x03; mk 2000 Byte.x03; mk 20 Byte.x03].
(* a longer one, six shares *)
Definition t_d3' := [mk 10 Byte.x03; mk 2400 Byte.x03; mk 20 Byte.x03].
(* D4 witness: the prefix 81 80 01 of the second transaction is cut after two bytes *)
Definition t_d4 := [mk 470 Byte.x05; mk 16385 Byte.x80].
(* prefix cut after one byte; payload bytes that look like delimiters; a unit that ends
   exactly at a share end; a one-byte transaction *)
Definition t_mix := [mk 471 Byte.x01; mk 16385 Byte.x81; mk 200 Byte.x81; mk 1 Byte.x07;
                     mk 252 Byte.x00; mk 476 Byte.x02; mk 5 Byte.x09].

Example C11_hypotheses_hold :
  length tx_ns = 29 /\ is_compact_ns tx_ns = true /\
  Forall (fun t => t <> []) t_d3 /\ (lenN (stream t_d3) < 4294967296)%N /\
  length (compact_spec_ix tx_ns 0 t_d3) = 5.
Proof.
  split; [reflexivity|]. split; [reflexivity|].
  split; [repeat constructor; discriminate|]. split; vm_compute; reflexivity.
Qed.

Example C11_d3_ranges :
  parse_txs (firstn (5 - 1) (skipn 1 (compact_spec_ix tx_ns 0 t_d3))) = Ok [mk 20 Byte.x03] /\
  parse_txs (firstn (5 - 2) (skipn 2 (compact_spec_ix tx_ns 0 t_d3))) = Ok [mk 20 Byte.x03] /\
  parse_txs (firstn (4 - 1) (skipn 1 (compact_spec_ix tx_ns 0 t_d3))) = Ok [] /\
  parse_txs (firstn (1 - 0) (skipn 0 (compact_spec_ix tx_ns 0 t_d3))) = Ok [mk 10 Byte.x03] /\
  parse_txs (firstn (6 - 1) (skipn 1 (compact_spec_ix tx_ns 0 t_d3'))) = Ok [mk 20 Byte.x03] /\
  parse_txs (firstn (5 - 1) (skipn 1 (compact_spec_ix tx_ns 0 t_d3'))) = Ok [] /\
  sub_expected 1 5 t_d3 = [mk 20 Byte.x03] /\ sub_expected 1 4 t_d3 = [] /\
  sub_expected 0 5 t_d3 = t_d3.
Proof. vm_compute. repeat split. Qed.

Example C11_d4_range :
  parse_txs (firstn (1 - 0) (skipn 0 (compact_spec_ix tx_ns 0 t_d4))) = Ok [mk 470 Byte.x05] /\
  sub_expected 0 1 t_d4 = [mk 470 Byte.x05] /\
  firstn 2 (skipn 472 (stream t_d4)) = [Byte.x81; Byte.x80] /\
  length (compact_spec_ix tx_ns 0 t_d4) = 36.
Proof. vm_compute. repeat split. Qed.

Example C11_all_subranges_d3 : all_subranges_agree t_d3 = true.
Proof. vm_compute. reflexivity. Qed.
Example C11_all_subranges_d3' : all_subranges_agree t_d3' = true.
Proof. vm_compute. reflexivity. Qed.
Example C11_all_subranges_d4 : all_subranges_agree t_d4 = true.
Proof. vm_compute. reflexivity. Qed.
Example C11_all_subranges_mix : all_subranges_agree t_mix = true.
Proof. vm_compute. reflexivity. Qed.
