(* Closed-form share encoders written from the share specification, with no
   builders, splitters or cursors in state.  These are the reference against
   which the writer models (and, through the runner, the Go code) are compared
   for C10, and the objects the round-trip proofs reason about. *)
From GS.Model Require Import Base Varint Namespace ShareFmt Blob.
Open Scope N_scope.

Definition info_of (ver : N) (start : bool) : byte := n2b (2 * ver + (if start then 1 else 0)).
Definition pad_to (n : nat) (l : bytes) : bytes := l ++ zeros (n - length l).

(* consecutive chunks of [k] bytes; fuel = length of the list *)
Fixpoint chunks_fuel (fuel : nat) (k : nat) (l : bytes) : list bytes :=
  match fuel with
  | O => []
  | S f => match l with
           | [] => []
           | _ => firstn k l :: chunks_fuel f k (skipn k l)
           end
  end.
Definition chunks (k : nat) (l : bytes) : list bytes := chunks_fuel (length l) k l.

(* ---- sparse (blob) sequences ---- *)
(* share 0: ns | info(ver,1) | be32 len | signer (version 1 only) | payload | zeros
   share j>0: ns | info(ver,0) | payload | zeros *)
Definition sparse_spec (ns : namespace) (ver : N) (signer : bytes) (data : bytes) : list share :=
  let first_cap := (478 - length signer)%nat in
  (ns ++ [info_of ver true] ++ be32 (lenN data) ++ signer ++ pad_to first_cap (firstn first_cap data))
  :: map (fun c => ns ++ [info_of ver false] ++ pad_to 482 c) (chunks 482 (skipn first_cap data)).

Definition blob_spec (b : blob) : list share :=
  sparse_spec (b_ns b) (b_ver b) (if b_ver b =? 1 then signer_bytes b else []) (b_data b).

(* padding share: a sequence start of length 0, zero filled *)
Definition padding_spec (ns : namespace) (ver : N) : share :=
  ns ++ [info_of ver true] ++ zeros 482.

(* ---- compact (transaction) sequences ---- *)
Definition units (txs : list bytes) : list bytes := map marshal_delimited txs.
Definition stream (txs : list bytes) : bytes := concat (units txs).
Fixpoint starts_from (off : N) (us : list bytes) : list N :=
  match us with
  | [] => []
  | u :: tl => off :: starts_from (off + lenN u) tl
  end.
Fixpoint drop_lt (off : N) (sts : list N) : list N :=
  match sts with
  | [] => []
  | u :: tl => if u <? off then drop_lt off tl else sts
  end.

(* walks the stream: [off] is the stream offset of [rest], [sts] the unit start offsets *)
Fixpoint compact_go (fuel : nat) (ns : namespace) (ver total : N) (first : bool) (off : N)
         (rest : bytes) (sts : list N) : list share :=
  match fuel with
  | O => []
  | S f =>
    match rest with
    | [] => []
    | _ =>
      let cap := if first then 474%nat else 478%nat in
      let hdr := if first then 38 else 34 in
      let chunk := firstn cap rest in
      let sts' := drop_lt off sts in
      let res := match sts' with
                 | u :: _ => if u <? off + lenN chunk then hdr + (u - off) else 0
                 | [] => 0
                 end in
      (ns ++ [info_of ver first] ++ (if first then be32 total else []) ++ be32 res ++ pad_to cap chunk)
      :: compact_go f ns ver total false (off + N.of_nat cap) (skipn cap rest) sts'
    end
  end.

Definition compact_spec (ns : namespace) (ver : N) (txs : list bytes) : list share :=
  let s := stream txs in
  compact_go (length s) ns ver (u32 (lenN s)) true 0 s (starts_from 0 (units txs)).
