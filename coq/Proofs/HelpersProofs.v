(* Lemmas about the small public helpers of Model/Helpers.v: SortBlobs is THE stable sort by
   namespace, CreateCommitments is the element-wise CreateCommitment with the first failure
   winning, ParseInfoByte is total and inverts NewInfoByte, FromBytes / ToBytes round trip,
   Range / Namespace / Square helpers obey their obvious laws. *)
From Coq Require Import List Arith NArith ZArith Lia Bool Permutation Sorted.
From Coq Require Import ZifyN ZifyNat ZifyBool.
From GS.Model Require Import Base Namespace ShareFmt Blob Sparse Arith Sha256 Nmt Builder Square Helpers.
From GS.Proofs Require Import BaseLemmas NamespaceProofs SparseProofs NmtProofs CommitmentE2EProofs.
Import ListNotations.

(* ====================================================================== *)
(* share/blob.go                                                          *)
(* ====================================================================== *)

(* ---------- Blob.Compare ---------- *)

Lemma blob_compare_ns a b : blob_compare a b = ns_compare (b_ns a) (b_ns b).
Proof. reflexivity. Qed.

Lemma blob_compare_values a b :
  blob_compare a b = (-1)%Z \/ blob_compare a b = 0%Z \/ blob_compare a b = 1%Z.
Proof. unfold blob_compare, ns_compare. destruct (bytes_cmp (b_ns a) (b_ns b)); auto. Qed.

Lemma blob_compare_eq a b : blob_compare a b = 0%Z <-> b_ns a = b_ns b.
Proof.
  unfold blob_compare, ns_compare. rewrite <- bytes_cmp_eq.
  destruct (bytes_cmp (b_ns a) (b_ns b)); split; (reflexivity || discriminate).
Qed.

Lemma blob_compare_antisym a b : blob_compare b a = (- blob_compare a b)%Z.
Proof.
  unfold blob_compare, ns_compare. rewrite (bytes_cmp_antisym (b_ns a) (b_ns b)).
  destruct (bytes_cmp (b_ns a) (b_ns b)); reflexivity.
Qed.

Lemma blob_compare_lt a b : blob_compare a b = (-1)%Z <-> bytes_cmp (b_ns a) (b_ns b) = Lt.
Proof.
  unfold blob_compare, ns_compare.
  destruct (bytes_cmp (b_ns a) (b_ns b)); split; (reflexivity || discriminate).
Qed.

(* all comparison predicates of the namespaces agree with Blob.Compare *)
Theorem blob_compare_predicates a b :
  ns_lt (b_ns a) (b_ns b) = Z.ltb (blob_compare a b) 0 /\
  ns_le (b_ns a) (b_ns b) = Z.leb (blob_compare a b) 0 /\
  ns_gt (b_ns a) (b_ns b) = Z.ltb 0 (blob_compare a b) /\
  ns_ge (b_ns a) (b_ns b) = Z.leb 0 (blob_compare a b) /\
  ns_equals (b_ns a) (b_ns b) = Z.eqb (blob_compare a b) 0.
Proof.
  unfold ns_lt, ns_le, ns_gt, ns_ge, ns_equals, blob_compare, ns_compare.
  destruct (bytes_cmp (b_ns a) (b_ns b)) eqn:E; repeat split; try reflexivity.
  - apply bytes_cmp_eq in E. rewrite E. apply bytes_eqb_refl.
  - apply bytes_eqb_neq. intros Heq. apply bytes_cmp_eq in Heq. rewrite Heq in E. discriminate.
  - apply bytes_eqb_neq. intros Heq. apply bytes_cmp_eq in Heq. rewrite Heq in E. discriminate.
Qed.

(* ---------- the order used by SortBlobs ---------- *)

(* non-decreasing namespace *)
Definition blob_le (x y : blob) : Prop := (blob_compare x y <= 0)%Z.
(* "has namespace ns" *)
Definition blob_has_ns (ns : namespace) (b : blob) : bool := ns_equals (b_ns b) ns.

Lemma blob_le_cmp x y : blob_le x y <-> bytes_cmp (b_ns x) (b_ns y) <> Gt.
Proof.
  unfold blob_le, blob_compare, ns_compare.
  destruct (bytes_cmp (b_ns x) (b_ns y)); split; intros H; try lia; try discriminate.
  exfalso. apply H. reflexivity.
Qed.

Lemma blob_less_lt x y : blob_less x y = true <-> bytes_cmp (b_ns x) (b_ns y) = Lt.
Proof.
  unfold blob_less, blob_compare, ns_compare.
  destruct (bytes_cmp (b_ns x) (b_ns y)); cbn; split; (reflexivity || discriminate).
Qed.

Lemma blob_less_false x y : blob_less x y = false <-> blob_le y x.
Proof.
  rewrite blob_le_cmp. rewrite (bytes_cmp_antisym (b_ns x) (b_ns y)).
  unfold blob_less, blob_compare, ns_compare.
  destruct (bytes_cmp (b_ns x) (b_ns y)); cbn; split; intros H; try reflexivity; try discriminate.
  exfalso. apply H. reflexivity.
Qed.

Lemma blob_has_ns_true ns b : blob_has_ns ns b = true <-> b_ns b = ns.
Proof. unfold blob_has_ns, ns_equals. apply bytes_eqb_eq. Qed.

Lemma blob_has_ns_self b : blob_has_ns (b_ns b) b = true.
Proof. apply blob_has_ns_true. reflexivity. Qed.

Lemma blob_le_refl x : blob_le x x.
Proof. apply blob_le_cmp. rewrite bytes_cmp_refl. discriminate. Qed.

Lemma cmp_gt_lt a b : bytes_cmp a b = Gt <-> bytes_cmp b a = Lt.
Proof.
  rewrite (bytes_cmp_antisym a b). destruct (bytes_cmp a b); cbn [CompOpp]; split; (reflexivity || discriminate).
Qed.

Lemma blob_le_trans x y z : blob_le x y -> blob_le y z -> blob_le x z.
Proof.
  rewrite !blob_le_cmp. intros H1 H2 H3. apply cmp_gt_lt in H3.
  destruct (bytes_cmp (b_ns x) (b_ns y)) eqn:E1; [| |exact (H1 eq_refl)].
  - apply bytes_cmp_eq in E1. rewrite E1 in H3. apply cmp_gt_lt in H3. exact (H2 H3).
  - destruct (bytes_cmp (b_ns y) (b_ns z)) eqn:E2; [| |exact (H2 eq_refl)].
    + apply bytes_cmp_eq in E2. rewrite <- E2 in H3.
      apply cmp_gt_lt in H3. rewrite H3 in E1. discriminate.
    + pose proof (bytes_cmp_trans _ _ _ E1 E2) as H. apply cmp_gt_lt in H3.
      rewrite H in H3. discriminate.
Qed.

Lemma blob_le_antisym x y : blob_le x y -> blob_le y x -> b_ns x = b_ns y.
Proof.
  rewrite !blob_le_cmp. intros H1 H2.
  destruct (bytes_cmp (b_ns x) (b_ns y)) eqn:E; [apply bytes_cmp_eq; exact E| |exact (False_ind _ (H1 eq_refl))].
  exfalso. apply H2. apply cmp_gt_lt. exact E.
Qed.

Lemma blob_le_total x y : blob_le x y \/ blob_le y x.
Proof.
  rewrite !blob_le_cmp. destruct (bytes_cmp (b_ns x) (b_ns y)) eqn:E.
  - left. discriminate.
  - left. discriminate.
  - right. apply cmp_gt_lt in E. rewrite E. discriminate.
Qed.

(* ---------- permutation ---------- *)

Lemma insert_blob_perm e l : Permutation (insert_blob e l) (e :: l).
Proof.
  induction l as [|x tl IH]; cbn [insert_blob]; [apply Permutation_refl|].
  destruct (blob_less x e); [|apply Permutation_refl].
  eapply Permutation_trans; [apply perm_skip; exact IH|apply perm_swap].
Qed.

Lemma sort_blobs_cons e l : sort_blobs (e :: l) = insert_blob e (sort_blobs l).
Proof. reflexivity. Qed.

Theorem sort_blobs_perm l : Permutation (sort_blobs l) l.
Proof.
  induction l as [|e l IH]; [apply Permutation_refl|]. rewrite sort_blobs_cons.
  eapply Permutation_trans; [apply insert_blob_perm|apply perm_skip; exact IH].
Qed.

Lemma sort_blobs_length l : length (sort_blobs l) = length l.
Proof. apply Permutation_length, sort_blobs_perm. Qed.

Lemma sort_blobs_in l b : In b (sort_blobs l) <-> In b l.
Proof. split; apply Permutation_in; [|apply Permutation_sym]; apply sort_blobs_perm. Qed.

(* ---------- sortedness ---------- *)

Lemma insert_blob_sorted e l : StronglySorted blob_le l -> StronglySorted blob_le (insert_blob e l).
Proof.
  induction 1 as [|x tl Hs IH Hx]; cbn [insert_blob]; [repeat constructor|].
  destruct (blob_less x e) eqn:E.
  - constructor; [exact IH|].
    assert (Hxe : blob_le x e).
    { apply blob_le_cmp. apply blob_less_lt in E. rewrite E. discriminate. }
    rewrite Forall_forall. intros a Ha.
    apply (Permutation_in _ (insert_blob_perm e tl)) in Ha. destruct Ha as [<-|Ha]; [exact Hxe|].
    rewrite Forall_forall in Hx. apply Hx. exact Ha.
  - apply blob_less_false in E.
    constructor; [constructor; assumption|].
    constructor; [exact E|]. eapply Forall_impl; [|exact Hx].
    intros a Ha. eapply blob_le_trans; eassumption.
Qed.

Theorem sort_blobs_strongly_sorted l : StronglySorted blob_le (sort_blobs l).
Proof.
  induction l as [|e l IH]; [constructor|]. rewrite sort_blobs_cons. apply insert_blob_sorted. exact IH.
Qed.

Theorem sort_blobs_sorted l : Sorted blob_le (sort_blobs l).
Proof. apply StronglySorted_Sorted, sort_blobs_strongly_sorted. Qed.

Lemma blob_sorted_strongly l : Sorted blob_le l -> StronglySorted blob_le l.
Proof. apply Sorted_StronglySorted. intros x y z. apply blob_le_trans. Qed.

(* ---------- stability ---------- *)

Lemma insert_blob_filter ns e l :
  filter (blob_has_ns ns) (insert_blob e l) = filter (blob_has_ns ns) (e :: l).
Proof.
  induction l as [|x tl IH]; cbn [insert_blob]; [reflexivity|].
  destruct (blob_less x e) eqn:E; [|reflexivity].
  cbn [filter] in *. rewrite IH.
  destruct (blob_has_ns ns e) eqn:He; [|reflexivity].
  destruct (blob_has_ns ns x) eqn:Hx; [|reflexivity].
  apply blob_has_ns_true in He, Hx. apply blob_less_lt in E.
  rewrite He, Hx, bytes_cmp_refl in E. discriminate.
Qed.

(* blobs with equal namespace keep their input order *)
Theorem sort_blobs_stable ns l :
  filter (blob_has_ns ns) (sort_blobs l) = filter (blob_has_ns ns) l.
Proof.
  induction l as [|e l IH]; [reflexivity|]. rewrite sort_blobs_cons.
  rewrite insert_blob_filter. cbn [filter]. rewrite IH. reflexivity.
Qed.

(* ---------- uniqueness of the stable sort ---------- *)

Lemma blob_filter_all_nil l : (forall ns, filter (blob_has_ns ns) l = []) -> l = [].
Proof.
  destruct l as [|x l]; [reflexivity|]. intros H. specialize (H (b_ns x)).
  cbn [filter] in H. rewrite blob_has_ns_self in H. discriminate.
Qed.

Lemma blob_sorted_stable_unique l1 : forall l2,
  StronglySorted blob_le l1 -> StronglySorted blob_le l2 ->
  (forall ns, filter (blob_has_ns ns) l1 = filter (blob_has_ns ns) l2) -> l1 = l2.
Proof.
  induction l1 as [|x l1 IH]; intros l2 S1 S2 F.
  - symmetry. apply blob_filter_all_nil. intros ns. rewrite <- F. reflexivity.
  - destruct l2 as [|y l2].
    + apply blob_filter_all_nil. intros ns. rewrite F. reflexivity.
    + inversion S1 as [|? ? S1' Hx]; subst. inversion S2 as [|? ? S2' Hy]; subst.
      rewrite Forall_forall in Hx, Hy.
      assert (Hyx : blob_le y x).
      { assert (Hin : In x (filter (blob_has_ns (b_ns x)) (y :: l2))).
        { rewrite <- F. cbn [filter]. rewrite blob_has_ns_self. left. reflexivity. }
        apply filter_In in Hin. destruct Hin as [[<-|Hin] _]; [apply blob_le_refl|apply Hy; exact Hin]. }
      assert (Hxy : blob_le x y).
      { assert (Hin : In y (filter (blob_has_ns (b_ns y)) (x :: l1))).
        { rewrite F. cbn [filter]. rewrite blob_has_ns_self. left. reflexivity. }
        apply filter_In in Hin. destruct Hin as [[<-|Hin] _]; [apply blob_le_refl|apply Hx; exact Hin]. }
      pose proof (blob_le_antisym _ _ Hxy Hyx) as Hns.
      assert (x = y).
      { pose proof (F (b_ns x)) as Fx. cbn [filter] in Fx. rewrite blob_has_ns_self in Fx.
        rewrite Hns in Fx at 2. rewrite blob_has_ns_self in Fx. inversion Fx. reflexivity. }
      subst y. f_equal. apply IH; [assumption|assumption|].
      intros ns. specialize (F ns). cbn [filter] in F.
      destruct (blob_has_ns ns x); [inversion F; reflexivity|exact F].
Qed.

(* the contract of sort.SliceStable determines its result: a sorted list with the
   per-namespace sublists of [l] is [sort_blobs l] *)
Theorem sort_blobs_unique l l' :
  Sorted blob_le l' ->
  (forall ns, filter (blob_has_ns ns) l' = filter (blob_has_ns ns) l) ->
  l' = sort_blobs l.
Proof.
  intros S F. apply blob_sorted_stable_unique;
    [apply blob_sorted_strongly; exact S|apply sort_blobs_strongly_sorted|].
  intros ns. rewrite sort_blobs_stable. apply F.
Qed.

Theorem sort_blobs_is_stable_sort l :
  Permutation (sort_blobs l) l /\ Sorted blob_le (sort_blobs l) /\
  (forall ns, filter (blob_has_ns ns) (sort_blobs l) = filter (blob_has_ns ns) l).
Proof.
  split; [apply sort_blobs_perm|]. split; [apply sort_blobs_sorted|].
  intros ns. apply sort_blobs_stable.
Qed.

Lemma sort_blobs_of_sorted l : Sorted blob_le l -> sort_blobs l = l.
Proof. intros S. symmetry. apply sort_blobs_unique; [exact S|reflexivity]. Qed.

Theorem sort_blobs_idem l : sort_blobs (sort_blobs l) = sort_blobs l.
Proof. apply sort_blobs_of_sorted, sort_blobs_sorted. Qed.

(* SortBlobs orders blobs exactly like the builder orders its elements *)
Theorem sort_blobs_elements (l : list element) :
  map e_blob (sort_elements l) = sort_blobs (map e_blob l).
Proof.
  induction l as [|e l IH]; [reflexivity|].
  change (sort_elements (e :: l)) with (insert_el e (sort_elements l)).
  cbn [map]. rewrite sort_blobs_cons, <- IH. clear IH.
  induction (sort_elements l) as [|x tl IHt]; [reflexivity|].
  cbn [insert_el map insert_blob].
  destruct (bytes_cmp (b_ns (e_blob e)) (b_ns (e_blob x))) eqn:E.
  - replace (blob_less (e_blob x) (e_blob e)) with false; [reflexivity|].
    symmetry. apply blob_less_false, blob_le_cmp. rewrite E. discriminate.
  - replace (blob_less (e_blob x) (e_blob e)) with false; [reflexivity|].
    symmetry. apply blob_less_false, blob_le_cmp. rewrite E. discriminate.
  - replace (blob_less (e_blob x) (e_blob e)) with true; [cbn [map]; rewrite IHt; reflexivity|].
    symmetry. apply blob_less_lt, cmp_gt_lt. exact E.
Qed.

(* ---------- NewV0Blob / NewV1Blob / IsEmpty ---------- *)

Lemma new_v0_blob_new_blob ns data : new_v0_blob ns data = new_blob ns data 0 None.
Proof. reflexivity. Qed.
Lemma new_v1_blob_new_blob ns data sg : new_v1_blob ns data sg = new_blob ns data 1 sg.
Proof. reflexivity. Qed.

Lemma new_blob_inv ns data ver sg b : new_blob ns data ver sg = Ok b ->
  b = mk_blob ns data ver sg /\ data <> [] /\ ns <> [] /\ ns_version ns = 0%N /\
  ((ver = 0%N /\ sg = None) \/ (ver = 1%N /\ exists s, sg = Some s /\ length s = signer_size)).
Proof.
  unfold new_blob. destruct data as [|d0 data]; [discriminate|]. destruct ns as [|n0 ns]; [discriminate|].
  destruct (ns_version (n0 :: ns) =? 0)%N eqn:Ev; cbn [negb]; [|discriminate].
  apply N.eqb_eq in Ev.
  destruct (ver =? 0)%N eqn:E0.
  - apply N.eqb_eq in E0. destruct sg; [discriminate|]. intros Hx. inversion Hx.
    repeat split; try discriminate; try assumption. left. split; [exact E0|reflexivity].
  - destruct (ver =? 1)%N eqn:E1; [|discriminate]. apply N.eqb_eq in E1.
    destruct sg as [s|]; [|discriminate]. destruct (Nat.eqb (length s) signer_size) eqn:El; [|discriminate].
    apply Nat.eqb_eq in El. intros Hx. inversion Hx.
    repeat split; try discriminate; try assumption. right. split; [exact E1|]. exists s. split; [reflexivity|exact El].
Qed.

Lemma new_blob_never_faults ns data ver sg : new_blob ns data ver sg <> Fault.
Proof.
  unfold new_blob. destruct data; [discriminate|]. destruct ns; [discriminate|].
  destruct (negb _); [discriminate|]. destruct (ver =? 0)%N.
  - destruct sg; discriminate.
  - destruct (ver =? 1)%N; [|discriminate]. destruct sg as [s|]; [|discriminate].
    destruct (Nat.eqb _ _); discriminate.
Qed.

Theorem new_v0_blob_spec ns data :
  (data <> [] /\ ns <> [] /\ ns_version ns = 0%N -> new_v0_blob ns data = Ok (mk_blob ns data 0 None)) /\
  (forall b, new_v0_blob ns data = Ok b ->
             b = mk_blob ns data 0 None /\ data <> [] /\ ns <> [] /\ ns_version ns = 0%N) /\
  new_v0_blob ns data <> Fault.
Proof.
  split; [|split].
  - intros (Hd & Hn & Hv). unfold new_v0_blob, new_blob.
    destruct data; [congruence|]. destruct ns; [congruence|]. rewrite Hv. reflexivity.
  - intros b Hb. unfold new_v0_blob in Hb. apply new_blob_inv in Hb.
    destruct Hb as (Hb & Hd & Hn & Hv & _). auto.
  - apply new_blob_never_faults.
Qed.

Theorem new_v1_blob_spec ns data sg :
  (forall s, data <> [] /\ ns <> [] /\ ns_version ns = 0%N /\ sg = Some s /\ length s = signer_size ->
             new_v1_blob ns data sg = Ok (mk_blob ns data 1 sg)) /\
  (forall b, new_v1_blob ns data sg = Ok b ->
             b = mk_blob ns data 1 sg /\ data <> [] /\ ns <> [] /\ ns_version ns = 0%N /\
             exists s, sg = Some s /\ length s = signer_size) /\
  new_v1_blob ns data sg <> Fault.
Proof.
  split; [|split].
  - intros s (Hd & Hn & Hv & Hs & Hl). unfold new_v1_blob, new_blob.
    destruct data; [congruence|]. destruct ns; [congruence|].
    rewrite Hv, Hs. cbn. rewrite Hl. rewrite Nat.eqb_refl. reflexivity.
  - intros b Hb. unfold new_v1_blob in Hb. apply new_blob_inv in Hb.
    destruct Hb as (Hb & Hd & Hn & Hv & [[H01 _]|[_ Hs]]); [discriminate|]. auto.
  - apply new_blob_never_faults.
Qed.

Lemma blob_is_empty_spec b : blob_is_empty b = true <-> b_data b = [].
Proof.
  unfold blob_is_empty. rewrite Nat.eqb_eq. destruct (b_data b); split; (reflexivity || discriminate).
Qed.

Lemma blob_is_empty_data_len b : blob_is_empty b = (blob_data_len b =? 0)%N.
Proof. unfold blob_is_empty, blob_data_len, lenN. destruct (b_data b); reflexivity. Qed.

(* a blob accepted by NewBlob is never empty *)
Theorem new_blob_not_empty ns data ver sg b : new_blob ns data ver sg = Ok b -> blob_is_empty b = false.
Proof.
  intros Hb. apply new_blob_inv in Hb. destruct Hb as (-> & Hd & _). unfold blob_is_empty. cbn [b_data].
  destruct data; [congruence|reflexivity].
Qed.

(* ====================================================================== *)
(* inclusion/commitment.go: CreateCommitments                             *)
(* ====================================================================== *)
Section Commitments.
  Variable H : bytes -> bytes.
  Variable mrf : list bytes -> bytes.
  Variable thr : N.

  Let cc (b : blob) : outcome bytes := create_commitment H mrf b thr.

  Theorem create_commitments_map_outcome blobs :
    create_commitments H mrf blobs thr = map_outcome (fun b => create_commitment H mrf b thr) blobs.
  Proof. induction blobs as [|b tl IH]; [reflexivity|]. cbn [create_commitments map_outcome]. rewrite IH. reflexivity. Qed.

  (* an Ok result is the list of the individual commitments, in order *)
  Theorem create_commitments_ok_forall2 : forall blobs cs,
    create_commitments H mrf blobs thr = Ok cs <-> Forall2 (fun b c => cc b = Ok c) blobs cs.
  Proof.
    induction blobs as [|b tl IH]; intros cs; cbn [create_commitments].
    - split; intros Hx; [inversion Hx; constructor|inversion Hx; reflexivity].
    - split.
      + intros Hx. destruct (create_commitment H mrf b thr) as [c| |] eqn:Ec; cbn [bind] in Hx; try discriminate.
        destruct (create_commitments H mrf tl thr) as [cs'| |] eqn:Et; cbn [bind] in Hx; try discriminate.
        inversion Hx; subst. constructor; [exact Ec|]. apply IH. reflexivity.
      + intros Hx. inversion Hx as [|? c ? cs' Hc Ht]; subst. unfold cc in Hc. rewrite Hc. cbn [bind].
        apply IH in Ht. rewrite Ht. reflexivity.
  Qed.

  Theorem create_commitments_length blobs cs :
    create_commitments H mrf blobs thr = Ok cs -> length cs = length blobs.
  Proof.
    intros Hx. apply create_commitments_ok_forall2 in Hx.
    induction Hx as [|x c l l' Hc Hl IH]; [reflexivity|]. cbn [length]. rewrite IH. reflexivity.
  Qed.

  (* every position of an Ok result is the commitment of the blob at that position *)
  Theorem create_commitments_nth blobs cs j b :
    create_commitments H mrf blobs thr = Ok cs -> nth_error blobs j = Some b ->
    exists c, nth_error cs j = Some c /\ create_commitment H mrf b thr = Ok c.
  Proof.
    intros Hx. apply create_commitments_ok_forall2 in Hx. revert j.
    induction Hx as [|x c l l' Hc Hl IH]; intros [|j] Hj; try discriminate.
    - inversion Hj; subst. exists c. split; [reflexivity|exact Hc].
    - apply IH. exact Hj.
  Qed.

  (* Ok iff the commitment of every blob is Ok *)
  Theorem create_commitments_ok_iff blobs :
    is_ok (create_commitments H mrf blobs thr) = forallb (fun b => is_ok (cc b)) blobs.
  Proof.
    induction blobs as [|b tl IH]; [reflexivity|]. cbn [create_commitments forallb]. unfold cc at 1.
    destruct (create_commitment H mrf b thr); cbn [bind is_ok andb]; try reflexivity.
    rewrite <- IH. destruct (create_commitments H mrf tl thr); reflexivity.
  Qed.

  (* the first blob whose commitment fails decides the result *)
  Theorem create_commitments_first_failure pre b post :
    Forall (fun x => is_ok (cc x) = true) pre -> is_ok (cc b) = false ->
    create_commitments H mrf (pre ++ b :: post) thr = match cc b with Ok _ => Err | Err => Err | Fault => Fault end.
  Proof.
    intros Hpre Hb. induction Hpre as [|x pre Hx Hpre IH]; cbn [app create_commitments].
    - unfold cc in *. destruct (create_commitment H mrf b thr); [discriminate|reflexivity|reflexivity].
    - unfold cc in Hx. destruct (create_commitment H mrf x thr); try discriminate. cbn [bind].
      rewrite IH. destruct (cc b); reflexivity.
  Qed.

  (* valid blobs and a positive threshold: CreateCommitments succeeds *)
  Theorem create_commitments_valid_ok blobs :
    (forall x, length (H x) = 32%nat) -> (1 <= thr)%N -> Forall blob_ok blobs ->
    exists cs, create_commitments H mrf blobs thr = Ok cs /\ length cs = length blobs.
  Proof.
    intros HH Ht Hall.
    assert (Hex : exists cs, create_commitments H mrf blobs thr = Ok cs).
    { induction Hall as [|b tl Hb Htl IH]; [exists []; reflexivity|].
      destruct IH as (cs & Hcs). destruct (subtree_roots_ok H HH b thr Hb Ht) as (roots & Hr).
      exists (mrf roots :: cs). cbn [create_commitments]. unfold create_commitment. rewrite Hr. cbn [bind].
      rewrite Hcs. reflexivity. }
    destruct Hex as (cs & Hcs). exists cs. split; [exact Hcs|]. eapply create_commitments_length. exact Hcs.
  Qed.
End Commitments.

(* ====================================================================== *)
(* share/info_byte.go: ParseInfoByte                                      *)
(* ====================================================================== *)

(* ParseInfoByte never fails and returns its argument *)
Theorem parse_info_byte_total i : parse_info_byte i = Ok i.
Proof. destruct i; vm_compute; reflexivity. Qed.

(* NewInfoByte accepts exactly the versions up to 127 *)
Theorem new_info_byte_accepts ver st :
  is_ok (new_info_byte ver st) = (ver <=? 127)%N /\ new_info_byte ver st <> Fault.
Proof.
  unfold new_info_byte, max_share_version. destruct (127 <? ver)%N eqn:E; cbn [is_ok].
  - split; [symmetry; apply N.leb_gt, N.ltb_lt; exact E|discriminate].
  - split; [symmetry; apply N.leb_le, N.ltb_ge; exact E|discriminate].
Qed.

(* ParseInfoByte inverts NewInfoByte *)
Theorem parse_new_info_byte ver st i :
  new_info_byte ver st = Ok i ->
  parse_info_byte i = Ok i /\ info_version i = ver /\ info_start i = st.
Proof.
  intros Hn. split; [apply parse_info_byte_total|].
  assert (Hv : (ver <= 127)%N).
  { unfold new_info_byte, max_share_version in Hn. destruct (127 <? ver)%N eqn:E; [discriminate|].
    apply N.ltb_ge. exact E. }
  rewrite (new_info_byte_ok ver st Hv) in Hn. inversion Hn; subst.
  split; [apply info_of_version|apply info_of_start]; exact Hv.
Qed.

(* ... and NewInfoByte inverts the two accessors on every byte *)
Theorem new_info_byte_of_parts i : new_info_byte (info_version i) (info_start i) = Ok i.
Proof. exact (parse_info_byte_total i). Qed.

(* ====================================================================== *)
(* share/share.go: NewShare, FromBytes, ToBytes                           *)
(* ====================================================================== *)

Lemma new_share_spec d :
  (wf_share d -> new_share d = Ok d) /\ (~ wf_share d -> new_share d = Err).
Proof.
  unfold new_share, wf_shareb, wf_share. destruct (Nat.eqb (length d) share_size) eqn:E.
  - apply Nat.eqb_eq in E. split; [reflexivity|]. intros Hn. contradiction.
  - apply Nat.eqb_neq in E. split; [intros Hw; contradiction|reflexivity].
Qed.

Lemma to_bytes_id shares : to_bytes shares = shares.
Proof. unfold to_bytes, share_to_bytes. apply map_id. Qed.

(* FromBytes accepts exactly the lists of 512-byte strings and keeps them as they are *)
Theorem from_bytes_ok l : Forall wf_share l -> from_bytes l = Ok l.
Proof.
  unfold from_bytes. induction 1 as [|d tl Hd Htl IH]; [reflexivity|].
  cbn [map_outcome]. rewrite (proj1 (new_share_spec d) Hd). cbn [bind]. rewrite IH. reflexivity.
Qed.

Theorem from_bytes_err l : ~ Forall wf_share l -> from_bytes l = Err.
Proof.
  unfold from_bytes. induction l as [|d tl IH]; intros Hn; [exfalso; apply Hn; constructor|].
  cbn [map_outcome]. unfold new_share at 1, wf_shareb. destruct (Nat.eqb (length d) share_size) eqn:E; [|reflexivity].
  cbn [bind]. rewrite IH; [reflexivity|]. intros Htl. apply Hn. constructor; [|exact Htl].
  apply Nat.eqb_eq. exact E.
Qed.

Theorem from_bytes_inv l shares : from_bytes l = Ok shares -> shares = l /\ Forall wf_share l.
Proof.
  unfold from_bytes. revert shares. induction l as [|d tl IH]; intros shares Hx; cbn [map_outcome] in Hx.
  - inversion Hx. split; [reflexivity|constructor].
  - unfold new_share at 1, wf_shareb in Hx. destruct (Nat.eqb (length d) share_size) eqn:E; [|discriminate].
    cbn [bind] in Hx. destruct (map_outcome new_share tl) as [ys| |] eqn:Et; try discriminate.
    cbn [bind] in Hx. inversion Hx; subst. destruct (IH ys eq_refl) as [-> Hf].
    split; [reflexivity|]. constructor; [apply Nat.eqb_eq; exact E|exact Hf].
Qed.

Theorem from_bytes_never_faults l : from_bytes l <> Fault.
Proof.
  unfold from_bytes. induction l as [|d tl IH]; [discriminate|]. cbn [map_outcome].
  unfold new_share at 1. destruct (wf_shareb d); [|discriminate]. cbn [bind].
  destruct (map_outcome new_share tl); [discriminate|discriminate|contradiction].
Qed.

(* round trips *)
Theorem to_bytes_from_bytes l shares : from_bytes l = Ok shares -> to_bytes shares = l.
Proof. intros Hx. apply from_bytes_inv in Hx. destruct Hx as [-> _]. apply to_bytes_id. Qed.

Theorem from_bytes_to_bytes shares : Forall wf_share shares -> from_bytes (to_bytes shares) = Ok shares.
Proof. intros Hw. rewrite to_bytes_id. apply from_bytes_ok. exact Hw. Qed.

Lemma to_bytes_length shares : length (to_bytes shares) = length shares.
Proof. unfold to_bytes. apply map_length. Qed.

(* SparseShareSplitter.Count *)
Theorem sparse_count_after_spec items :
  sparse_count_after items =
  match sparse_write_items [] items with Ok shs => Ok (lenN shs) | Err => Err | Fault => Fault end.
Proof. unfold sparse_count_after, sparse_count. destruct (sparse_write_items [] items); reflexivity. Qed.

(* ====================================================================== *)
(* share/namespace.go: Repeat, IsEmpty                                    *)
(* ====================================================================== *)

Theorem ns_repeat_ok n times : (0 <= times)%Z ->
  exists l, ns_repeat n times = Ok l /\ length l = Z.to_nat times /\ (forall x, In x l -> x = n) /\
            (forall j, (j < Z.to_nat times)%nat -> nth_error l j = Some n).
Proof.
  intros Ht. unfold ns_repeat. replace (times <? 0)%Z with false by lia.
  exists (repeat n (Z.to_nat times)). split; [reflexivity|]. split; [apply repeat_length|]. split.
  - intros x Hx. apply repeat_spec in Hx. exact Hx.
  - intros j Hj. generalize dependent j. induction (Z.to_nat times) as [|k IH]; intros j Hj; [lia|].
    change (repeat n (S k)) with (n :: repeat n k). destruct j as [|j]; [reflexivity|].
    cbn [nth_error]. apply IH. lia.
Qed.

Theorem ns_repeat_negative n times : (times < 0)%Z -> ns_repeat n times = Fault.
Proof. intros Ht. unfold ns_repeat. replace (times <? 0)%Z with true by lia. reflexivity. Qed.

Lemma ns_is_empty_spec n : ns_is_empty n = true <-> n = [].
Proof. unfold ns_is_empty. rewrite Nat.eqb_eq. destruct n; split; (reflexivity || discriminate). Qed.

(* a namespace accepted by one of the constructors is never empty *)
Theorem new_namespace_from_bytes_not_empty b n : new_namespace_from_bytes b = Ok n -> ns_is_empty n = false.
Proof.
  unfold new_namespace_from_bytes. destruct (Nat.eqb (length b) ns_size) eqn:E; [|discriminate].
  destruct (ns_validate b); [|discriminate]. intros Hx. inversion Hx; subst.
  apply Nat.eqb_eq in E. unfold ns_is_empty. rewrite E. reflexivity.
Qed.

Theorem new_namespace_not_empty v id n : new_namespace v id = Ok n -> ns_is_empty n = false.
Proof.
  unfold new_namespace. destruct (ns_validate _); [|discriminate]. intros Hx. inversion Hx. reflexivity.
Qed.

(* the emptiness test of NewBlob is Namespace.IsEmpty *)
Theorem new_blob_empty_ns data ver sg : new_blob [] data ver sg = Err.
Proof. unfold new_blob. destruct data; reflexivity. Qed.

(* ====================================================================== *)
(* share/range.go                                                         *)
(* ====================================================================== *)

Definition in_int (z : Z) : Prop := (- 9223372036854775808 <= z < 9223372036854775808)%Z.

Lemma int_wrap_small z : in_int z -> int_wrap z = z.
Proof.
  unfold in_int, int_wrap. intros Hz. rewrite Z.mod_small by lia. lia.
Qed.

Lemma int_wrap_in_int z : in_int (int_wrap z).
Proof.
  unfold in_int, int_wrap.
  pose proof (Z.mod_pos_bound (z + 9223372036854775808) 18446744073709551616 ltac:(lia)). lia.
Qed.

Lemma int_wrap_add_l a b : int_wrap (int_wrap a + b) = int_wrap (a + b).
Proof.
  unfold int_wrap. f_equal.
  replace ((a + 9223372036854775808) mod 18446744073709551616 - 9223372036854775808 + b + 9223372036854775808)%Z
    with ((a + 9223372036854775808) mod 18446744073709551616 + b)%Z by lia.
  rewrite Zplus_mod_idemp_l. f_equal. lia.
Qed.

Lemma range_is_empty_spec r : range_is_empty r = true <-> r = empty_range.
Proof.
  destruct r as [s e]. unfold range_is_empty, empty_range. cbn [fst snd].
  rewrite andb_true_iff, !Z.eqb_eq. split; [intros [-> ->]; reflexivity|intros Hx; inversion Hx; auto].
Qed.

Lemma range_empty_is_empty : range_is_empty empty_range = true.
Proof. reflexivity. Qed.

Lemma new_range_fields s e : fst (new_range s e) = s /\ snd (new_range s e) = e.
Proof. split; reflexivity. Qed.

(* without overflow Range.Add is the addition on both ends *)
Theorem range_add_exact r v : in_int (fst r + v) -> in_int (snd r + v) ->
  range_add r v = (fst r + v, snd r + v)%Z.
Proof. intros H1 H2. unfold range_add. rewrite !int_wrap_small by assumption. reflexivity. Qed.

Theorem range_add_zero r : in_int (fst r) -> in_int (snd r) -> range_add r 0 = r.
Proof.
  intros H1 H2. rewrite range_add_exact by (rewrite Z.add_0_r; assumption).
  rewrite !Z.add_0_r. destruct r; reflexivity.
Qed.

(* two additions are one addition of the sum (also when an intermediate value wraps around) *)
Theorem range_add_add r a b : range_add (range_add r a) b = range_add r (a + b).
Proof.
  unfold range_add. cbn [fst snd]. rewrite !int_wrap_add_l, !Z.add_assoc. reflexivity.
Qed.

Theorem range_add_undo r v : in_int (fst r) -> in_int (snd r) -> range_add (range_add r v) (- v) = r.
Proof.
  intros H1 H2. rewrite range_add_add. replace (v + - v)%Z with 0%Z by lia. apply range_add_zero; assumption.
Qed.

(* the number of shares of a range does not change (no overflow) *)
Theorem range_add_width r v : in_int (fst r + v) -> in_int (snd r + v) ->
  (snd (range_add r v) - fst (range_add r v) = snd r - fst r)%Z.
Proof. intros H1 H2. rewrite range_add_exact by assumption. cbn [fst snd]. lia. Qed.

Theorem range_add_in_int r v : in_int (fst (range_add r v)) /\ in_int (snd (range_add r v)).
Proof. unfold range_add. cbn [fst snd]. split; apply int_wrap_in_int. Qed.

(* ====================================================================== *)
(* square.go: Size, Equals                                                *)
(* ====================================================================== *)

Lemma square_size_of_spec s : square_size_of s = square_size (lenN s).
Proof. reflexivity. Qed.

Lemma square_equals_loop_eq : forall a b, length a = length b ->
  (square_equals_loop a b = true <-> a = b).
Proof.
  induction a as [|x a IH]; intros [|y b] Hl; try discriminate; cbn [square_equals_loop].
  - split; reflexivity.
  - unfold share_to_bytes. destruct (bytes_eqb x y) eqn:E.
    + apply bytes_eqb_eq in E. subst y. cbn [length] in Hl. rewrite IH by lia.
      split; [intros ->; reflexivity|intros Hx; inversion Hx; reflexivity].
    + apply bytes_eqb_neq in E. split; [discriminate|]. intros Hx. inversion Hx. contradiction.
Qed.

(* Square.Equals is equality of the share lists, byte for byte *)
Theorem square_equals_spec a b : square_equals a b = true <-> a = b.
Proof.
  unfold square_equals. destruct (Nat.eqb (length a) (length b)) eqn:E; cbn [negb].
  - apply Nat.eqb_eq in E. apply square_equals_loop_eq. exact E.
  - apply Nat.eqb_neq in E. split; [discriminate|]. intros ->. contradiction.
Qed.

Lemma shares_eqb_spec : forall a b, shares_eqb a b = true <-> a = b.
Proof.
  induction a as [|x a IH]; intros [|y b]; cbn [shares_eqb]; try (split; (reflexivity || discriminate)).
  rewrite andb_true_iff, bytes_eqb_eq, IH. split; [intros [-> ->]; reflexivity|intros Hx; inversion Hx; auto].
Qed.

(* ... and agrees with the comparison used by Square.IsEmpty in the model *)
Theorem square_equals_shares_eqb a b : square_equals a b = shares_eqb a b.
Proof.
  destruct (square_equals a b) eqn:E1, (shares_eqb a b) eqn:E2; try reflexivity.
  - apply square_equals_spec in E1. apply shares_eqb_spec in E1. congruence.
  - apply shares_eqb_spec in E2. apply square_equals_spec in E2. congruence.
Qed.

Theorem square_equals_refl a : square_equals a a = true.
Proof. apply square_equals_spec. reflexivity. Qed.

Theorem square_equals_sym a b : square_equals a b = square_equals b a.
Proof.
  destruct (square_equals a b) eqn:E1, (square_equals b a) eqn:E2; try reflexivity.
  - apply square_equals_spec in E1. symmetry in E1. apply square_equals_spec in E1. congruence.
  - apply square_equals_spec in E2. symmetry in E2. apply square_equals_spec in E2. congruence.
Qed.

Theorem square_is_empty_equals s e : empty_square = Ok e -> square_is_empty s = square_equals s e.
Proof. intros He. unfold square_is_empty. rewrite He. symmetry. apply square_equals_shares_eqb. Qed.

(* ====================================================================== *)
(* the instance with SHA-256 that runs against the Go code                *)
(* ====================================================================== *)

Theorem commitments_sha_valid_ok blobs thr : (1 <= thr)%N -> Forall blob_ok blobs ->
  exists cs, commitments_sha blobs thr = Ok cs /\ length cs = length blobs.
Proof. intros Ht Hall. unfold commitments_sha. apply create_commitments_valid_ok; [exact sha256_length|exact Ht|exact Hall]. Qed.

Theorem commitments_sha_nth blobs thr cs j b :
  commitments_sha blobs thr = Ok cs -> nth_error blobs j = Some b ->
  exists c, nth_error cs j = Some c /\ commitment_sha b thr = Ok c.
Proof. unfold commitments_sha, commitment_sha. apply create_commitments_nth. Qed.

(* ---------- concrete values for the examples of Properties/C*_helpers.v ---------- *)
Definition hp_ns (k : byte) : namespace := repeat Byte.x00 19 ++ repeat k 10.
Definition hp_b1 : blob := mk_blob (hp_ns Byte.x02) [Byte.x05; Byte.x06] 0 None.
Definition hp_b2 : blob := mk_blob (hp_ns Byte.x01) [Byte.x07] 0 None.
Definition hp_b3 : blob := mk_blob (hp_ns Byte.x02) [Byte.x08] 1 (Some (repeat Byte.x0a 20)).
Definition hp_b4 : blob := mk_blob (hp_ns Byte.x01) (repeat Byte.x09 600) 0 None.
Definition hp_share (k : byte) : share := hp_ns Byte.x03 ++ repeat k 483.

Lemma hp_blobs_ok : Forall blob_ok [hp_b1; hp_b2; hp_b3; hp_b4].
Proof.
  assert (Hok : forall b, In b [hp_b1; hp_b2; hp_b3; hp_b4] -> blob_ok b).
  { intros b [<-|[<-|[<-|[<-|[]]]]]; unfold blob_ok;
      (split; [vm_compute; reflexivity|]); (split; [vm_compute; reflexivity|]);
      (split; [vm_compute; reflexivity|]); (split; [vm_compute; reflexivity|]);
      (split; [vm_compute; reflexivity|]); (split; [vm_compute; discriminate|]);
      (split; [vm_compute; reflexivity|]);
      first [left; split; reflexivity | right; split; [reflexivity|eexists; split; reflexivity]]. }
  apply Forall_forall. exact Hok.
Qed.
