(* C15, code level: the Go bodies of the power-of-two / subtree-width arithmetic, as
   regenerated from /repo by go2coq (Gen/Generated.v), compute the model functions of
   Model/Arith.v on explicit argument ranges in which no fixed-width wrap-around happens.
   Statements only; every proof is `exact` of a lemma of GenProofs/GenArithProofs.v.
   gen_call fuel f targ args runs function f (type argument targ) of the generated program;
   Val = returned values, Flt = Go panic, Fuel = did not finish within fuel. *)
From Coq Require Import ZArith NArith List String.
From GS.Model Require Import Base Arith GoLite.
From GS.Proofs Require Import ArithProofs.
From GS.Gen Require Import Generated.
From GS.GenProofs Require Import GenLink GenArithProofs.
Open Scope string_scope.
Open Scope Z_scope.

(* ---------- RoundUpPowerOfTwo[T] (inclusion and square), T = int or uint64 ---------- *)

Theorem gen_round_up_pow2_inclusion : forall fuel targ x,
  (70 <= fuel)%nat -> targ = I64 \/ targ = U64 -> 0 <= x <= 2 ^ 62 ->
  gen_call fuel "inclusion.RoundUpPowerOfTwo" targ [x] = Val [Z.of_N (round_up_pow2 (Z.to_N x))].
Proof. exact gen_rup_inclusion. Qed.
Print Assumptions gen_round_up_pow2_inclusion.

Theorem gen_round_up_pow2_square : forall fuel targ x,
  (70 <= fuel)%nat -> targ = I64 \/ targ = U64 -> 0 <= x <= 2 ^ 62 ->
  gen_call fuel "square.RoundUpPowerOfTwo" targ [x] = Val [Z.of_N (round_up_pow2 (Z.to_N x))].
Proof. exact gen_rup_square. Qed.
Print Assumptions gen_round_up_pow2_square.

(* ---------- RoundDownPowerOfTwo[T]: results [value; err] ---------- *)

Theorem gen_round_down_pow2 : forall fuel targ x v,
  (71 <= fuel)%nat -> targ = I64 \/ targ = U64 -> 0 < x <= 2 ^ 62 ->
  round_down_pow2 x = Ok v ->
  gen_call fuel "inclusion.RoundDownPowerOfTwo" targ [x] = Val [Z.of_N v; 0].
Proof. exact gen_rdown_ok. Qed.
Print Assumptions gen_round_down_pow2.

(* ---------- SubTreeWidth(shareCount, subtreeRootThreshold) ----------
   The share count is restricted to the range in which the external
   inclusion.BlobMinSquareSize (GenLink.gen_ext) is validated against float64. *)

Theorem gen_subtree_width : forall fuel n t,
  (71 <= fuel)%nat -> 0 <= n <= 2 ^ 52 -> 1 <= t ->
  gen_call fuel "inclusion.SubTreeWidth" I64 [n; t] =
  Val [Z.of_N (subtree_width (Z.to_N n) (Z.to_N t))].
Proof. exact gen_stw. Qed.
Print Assumptions gen_subtree_width.

(* ---------- NextShareIndex(cursor, blobShareLen, subtreeRootThreshold) ---------- *)

Theorem gen_next_share_index : forall fuel c len t,
  (72 <= fuel)%nat -> 0 <= c <= 2 ^ 62 -> 0 <= len <= 2 ^ 52 -> 1 <= t ->
  gen_call fuel "inclusion.NextShareIndex" I64 [c; len; t] =
  Val [Z.of_N (next_share_index (Z.to_N c) (Z.to_N len) (Z.to_N t))].
Proof. exact gen_nsi. Qed.
Print Assumptions gen_next_share_index.

(* ---------- edge cases, bundled into one statement (each Print Assumptions walks the
   closure of lia, about half a second, on every run of the check) ---------- *)

Theorem gen_c15_edge_cases :
  (* RoundUpPowerOfTwo, x <= 0: 1 *)
  (forall fuel targ x, (70 <= fuel)%nat -> targ = I64 \/ targ = U64 -> x <= 0 ->
     gen_call fuel "inclusion.RoundUpPowerOfTwo" targ [x] = Val [1]) /\
  (forall fuel targ x, (70 <= fuel)%nat -> targ = I64 \/ targ = U64 -> x <= 0 ->
     gen_call fuel "square.RoundUpPowerOfTwo" targ [x] = Val [1]) /\
  (* uint64 has one more bit of room *)
  (forall fuel x, (70 <= fuel)%nat -> x <= 2 ^ 63 ->
     gen_call fuel "inclusion.RoundUpPowerOfTwo" U64 [x] = Val [Z.of_N (round_up_pow2 (Z.to_N x))]) /\
  (forall fuel x, (70 <= fuel)%nat -> x <= 2 ^ 63 ->
     gen_call fuel "square.RoundUpPowerOfTwo" U64 [x] = Val [Z.of_N (round_up_pow2 (Z.to_N x))]) /\
  (* beyond 2^62 the int instance never returns, whatever the fuel *)
  (forall fuel x, 2 ^ 62 < x -> gen_call fuel "inclusion.RoundUpPowerOfTwo" I64 [x] = Fuel) /\
  (* RoundDownPowerOfTwo: the error return; both cases at once; the Ok value exists and is the
     greatest power of two <= x *)
  (forall fuel targ x, (71 <= fuel)%nat -> targ = I64 \/ targ = U64 -> x <= 0 ->
     gen_call fuel "inclusion.RoundDownPowerOfTwo" targ [x] = Val [0; 1]) /\
  (forall fuel targ x, (71 <= fuel)%nat -> targ = I64 \/ targ = U64 -> x <= 2 ^ 62 ->
     gen_call fuel "inclusion.RoundDownPowerOfTwo" targ [x] =
     match round_down_pow2 x with Ok v => Val [Z.of_N v; 0] | Err => Val [0; 1] | Fault => Flt end) /\
  (forall fuel targ x, (71 <= fuel)%nat -> targ = I64 \/ targ = U64 -> 0 < x <= 2 ^ 62 ->
     exists v, round_down_pow2 x = Ok v /\
       gen_call fuel "inclusion.RoundDownPowerOfTwo" targ [x] = Val [Z.of_N v; 0] /\
       pow2 v /\ (v <= Z.to_N x < 2 * v)%N) /\
  (* relative to gen_ext, SubTreeWidth and NextShareIndex agree with the model up to 2^62 *)
  (forall fuel n t, (71 <= fuel)%nat -> 0 <= n <= 2 ^ 62 -> 1 <= t ->
     gen_call fuel "inclusion.SubTreeWidth" I64 [n; t] =
     Val [Z.of_N (subtree_width (Z.to_N n) (Z.to_N t))]) /\
  (forall fuel c len t, (72 <= fuel)%nat -> 0 <= c <= 2 ^ 62 -> 0 <= len <= 2 ^ 62 -> 1 <= t ->
     gen_call fuel "inclusion.NextShareIndex" I64 [c; len; t] =
     Val [Z.of_N (next_share_index (Z.to_N c) (Z.to_N len) (Z.to_N t))]) /\
  (* threshold 0: integer divide by zero *)
  (forall fuel n, (1 <= fuel)%nat -> gen_call fuel "inclusion.SubTreeWidth" I64 [n; 0] = Flt) /\
  (forall fuel c len, (2 <= fuel)%nat -> gen_call fuel "inclusion.NextShareIndex" I64 [c; len; 0] = Flt).
Proof. exact gen_c15_edge_cases_lemma. Qed.
Print Assumptions gen_c15_edge_cases.

(* ---------- non-vacuity: concrete runs of the generated program ---------- *)

Example ex_rup_inclusion_i64 :
  gen_call 70 "inclusion.RoundUpPowerOfTwo" I64 [1000] = Val [1024] /\
  Z.of_N (round_up_pow2 (Z.to_N 1000)) = 1024.
Proof. vm_compute. split; reflexivity. Qed.

Example ex_rup_inclusion_edge :
  gen_call 70 "inclusion.RoundUpPowerOfTwo" I64 [2 ^ 62] = Val [2 ^ 62] /\
  gen_call 70 "inclusion.RoundUpPowerOfTwo" I64 [2 ^ 61 + 1] = Val [2 ^ 62] /\
  gen_call 70 "inclusion.RoundUpPowerOfTwo" U64 [2 ^ 62 + 1] = Val [2 ^ 63] /\
  gen_call 70 "inclusion.RoundUpPowerOfTwo" I64 [-5] = Val [1] /\
  gen_call 70 "inclusion.RoundUpPowerOfTwo" I64 [0] = Val [1].
Proof. vm_compute. repeat split; reflexivity. Qed.

(* outside the range the two sides differ: the Go loop does not finish, the model says 2^63 *)
Example ex_rup_inclusion_outside :
  gen_call 80 "inclusion.RoundUpPowerOfTwo" I64 [2 ^ 62 + 1] = Fuel /\
  Z.of_N (round_up_pow2 (Z.to_N (2 ^ 62 + 1))) = 2 ^ 63 /\
  gen_call 80 "inclusion.RoundUpPowerOfTwo" U64 [2 ^ 63 + 1] = Fuel.
Proof. vm_compute. repeat split; reflexivity. Qed.

Example ex_rup_square :
  gen_call 70 "square.RoundUpPowerOfTwo" I64 [17] = Val [32] /\
  gen_call 70 "square.RoundUpPowerOfTwo" U64 [64] = Val [64].
Proof. vm_compute. split; reflexivity. Qed.

Example ex_rdown :
  gen_call 71 "inclusion.RoundDownPowerOfTwo" I64 [1000] = Val [512; 0] /\
  round_down_pow2 1000 = Ok 512%N /\
  gen_call 71 "inclusion.RoundDownPowerOfTwo" U64 [64] = Val [64; 0] /\
  gen_call 71 "inclusion.RoundDownPowerOfTwo" I64 [0] = Val [0; 1] /\
  gen_call 71 "inclusion.RoundDownPowerOfTwo" I64 [-3] = Val [0; 1].
Proof. vm_compute. repeat split; reflexivity. Qed.

Example ex_stw :
  gen_call 71 "inclusion.SubTreeWidth" I64 [11; 3] = Val [4] /\
  subtree_width 11 3 = 4%N /\
  gen_call 71 "inclusion.SubTreeWidth" I64 [1000; 64] = Val [16] /\
  gen_call 71 "inclusion.SubTreeWidth" I64 [1000; 1] = Val [32] /\
  gen_call 71 "inclusion.SubTreeWidth" I64 [0; 64] = Val [1] /\
  gen_call 71 "inclusion.SubTreeWidth" I64 [11; 0] = Flt.
Proof. vm_compute. repeat split; reflexivity. Qed.

Example ex_nsi :
  gen_call 72 "inclusion.NextShareIndex" I64 [13; 11; 3] = Val [16] /\
  next_share_index 13 11 3 = 16%N /\
  gen_call 72 "inclusion.NextShareIndex" I64 [16; 11; 3] = Val [16] /\
  gen_call 72 "inclusion.NextShareIndex" I64 [2 ^ 62; 2 ^ 52; 1] = Val [2 ^ 62] /\
  gen_call 72 "inclusion.NextShareIndex" I64 [13; 11; 0] = Flt.
Proof. vm_compute. repeat split; reflexivity. Qed.
