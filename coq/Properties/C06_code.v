(* C06 (code model) - greedy building never fails; the estimate never under-counts; Export
   never fails.  Statements only; proofs in Proofs/EndToEndProofs.v.

   End-to-end statement about the code model, by C07 refinement + the spec-side facts
   keep / final_cursor_estimate / lay_body_eq (LayoutShapeProofs) and corr / export_corr
   (RefinementProofs1/2).  This closes what C06.v lists as NOT covered: "Export never fails"
   and "estimate >= occupied shares for the two compact sequences".

   (i)  Build: with a valid maximum (positive power of two, <= 1024), threshold >= 1 and
        acceptable blobs (c07_raws_ok), square.Build returns no error iff every blob
        transaction of the input decodes; it never panics.
   (ii) For every history of appends from NewBuilder (accepted or refused, ordinary and blob
        transactions with acceptable blobs): Export returns a square; the square is an
        occupied part - the two transaction sequences, reserved padding, the blobs with
        their namespace padding: everything up to the end of the last blob, none of it a
        tail padding share - followed by tail padding shares only; and
            occupied <= estimate = CurrentSize <= maximum^2,
        the side being the least power of two whose square covers the estimate (C06d). *)
From Coq Require Import List NArith ZArith.
From GS.Model Require Import Base Varint Namespace ShareFmt Blob Sparse Counter Arith Proto Builder.
From GS.Spec Require Import ShareSpec CompactSpec LayoutSpec.
From GS.Proofs Require Import ArithProofs AccountingProofs LayoutShapeProofs
  RefinementProofs1 RefinementProofs3 EndToEndProofs.
Import ListNotations.
Open Scope N_scope.

(* ---------- (i) greedy building never fails ---------- *)
Theorem C06_code_build_never_fails : forall raws max thr,
  1 <= thr -> (max <= 1024)%Z -> c07_raws_ok raws ->
  new_builder_ok max = true -> Forall (fun r => unmarshal_blob_tx r <> UbtErr) raws ->
  exists sq kept, build raws max thr = Ok (sq, kept).
Proof. exact build_never_fails. Qed.
Print Assumptions C06_code_build_never_fails.

(* exactly: an error iff some blob transaction does not decode; never a panic *)
Theorem C06_code_build_fails_iff : forall raws max thr,
  1 <= thr -> (max <= 1024)%Z -> c07_raws_ok raws -> new_builder_ok max = true ->
  (build raws max thr = Err <-> Exists (fun r => unmarshal_blob_tx r = UbtErr) raws) /\
  build raws max thr <> Fault.
Proof. exact build_fails_iff. Qed.
Print Assumptions C06_code_build_fails_iff.

(* ---------- (ii) occupied <= estimate; Export never fails ---------- *)
(* [reach max thr ops] is the builder after the appends ops from NewBuilder(max, thr) (C06.v);
   [aop_ok]: the blobs of an appended blob transaction are acceptable, data + signer < 4 GiB *)
Theorem C06_code_export_never_fails : forall max thr ops,
  1 <= thr -> max * max < 2097152 -> Forall aop_ok ops ->
  let b := reach max thr ops in
  exists b' body ntail,
    export b = Ok (b', body ++ repeat (padding_spec tail_padding_ns 0) ntail) /\
    Forall (fun s => sh_ns s <> tail_padding_ns) body /\
    (Z.of_N (lenN body) <= bd_cur b)%Z /\ (bd_cur b <= Z.of_N (max * max))%Z /\
    lenN body + N.of_nat ntail
      = blob_min_square_size (Z.to_N (bd_cur b)) * blob_min_square_size (Z.to_N (bd_cur b)).
Proof. exact export_never_fails_reach. Qed.
Print Assumptions C06_code_export_never_fails.

(* the same for any builder in correspondence with the lists it has accepted (C07), where
   the running estimate is the closed-form worst-case estimate of these lists *)
Theorem C06_code_export_never_fails_corr : forall max thr b normals btxs,
  1 <= thr -> max * max < 2097152 -> corr max thr b normals btxs ->
  exists b' body ntail,
    export b = Ok (b', body ++ repeat (padding_spec tail_padding_ns 0) ntail) /\
    Forall (fun s => sh_ns s <> tail_padding_ns) body /\
    (Z.of_N (lenN body) <= bd_cur b)%Z /\ bd_cur b = Z.of_N (estimate thr normals btxs) /\
    (bd_cur b <= Z.of_N (max * max))%Z /\
    lenN body + N.of_nat ntail
      = blob_min_square_size (Z.to_N (bd_cur b)) * blob_min_square_size (Z.to_N (bd_cur b)).
Proof. exact export_never_fails_corr. Qed.
Print Assumptions C06_code_export_never_fails_corr.

(* every history reaches such a builder *)
Theorem C06_code_reach_corr : forall max thr ops, 1 <= thr -> Forall aop_ok ops ->
  exists normals btxs, corr max thr (reach max thr ops) normals btxs.
Proof. exact reach_corr. Qed.
Print Assumptions C06_code_reach_corr.

Theorem C06_code_aop_ok_unfolded : forall op, aop_ok op <->
  match op with ATx _ => True | ABlobTx t => c07_btx_ok t end.
Proof. exact (fun op => iff_refl _). Qed.
Print Assumptions C06_code_aop_ok_unfolded.

(* the squares Construct / Build return: [occupied] = number of shares before the tail
   padding ([lay_body]: transaction shares, PFB shares, reserved padding, blobs and their
   namespace padding) *)
Theorem C06_code_construct_occupied : forall raws max thr sq,
  1 <= thr -> (max <= 1024)%Z -> c07_raws_ok raws ->
  construct raws max thr = Ok sq ->
  exists normals btxs, split_ordered false raws [] [] = Some (normals, btxs) /\
    sq = lay_body thr normals btxs ++ tail_pad thr normals btxs /\
    Forall (fun s => sh_ns s <> tail_padding_ns) (lay_body thr normals btxs) /\
    occupied thr normals btxs <= estimate thr normals btxs /\
    estimate thr normals btxs <= Z.to_N max * Z.to_N max.
Proof. exact construct_occupied. Qed.
Print Assumptions C06_code_construct_occupied.

Theorem C06_code_build_occupied : forall raws max thr sq kept,
  1 <= thr -> (max <= 1024)%Z -> c07_raws_ok raws ->
  build raws max thr = Ok (sq, kept) ->
  exists normals btxs, keep (Z.to_N max * Z.to_N max) thr raws [] [] [] [] = Some (normals, btxs, kept) /\
    sq = lay_body thr normals btxs ++ tail_pad thr normals btxs /\
    Forall (fun s => sh_ns s <> tail_padding_ns) (lay_body thr normals btxs) /\
    occupied thr normals btxs <= estimate thr normals btxs /\
    estimate thr normals btxs <= Z.to_N max * Z.to_N max.
Proof. exact build_occupied. Qed.
Print Assumptions C06_code_build_occupied.

(* ---- non-vacuity ---- *)
(* ex_raws (C07.v): every transaction decodes or is an ordinary one; maximum 2 is valid;
   Build succeeds (keeping three of the four transactions) *)
Example C06_code_example_build_hyps :
  1 <= 64 /\ (2 <= 1024)%Z /\ c07_raws_ok ex_raws /\ new_builder_ok 2 = true /\
  Forall (fun r => unmarshal_blob_tx r <> UbtErr) ex_raws.
Proof.
  destruct e2e_ex_hyps as (_ & _ & H3 & _ & _ & H6 & H7 & _).
  split; [discriminate|]. split; [discriminate|]. repeat split; assumption.
Qed.

Example C06_code_example_build :
  match build ex_raws 2 64 with
  | Ok (sq, kept) => length sq = 4%nat /\ kept = ex_normals ++ [ex_raw1]
  | _ => False
  end.
Proof. vm_compute. split; reflexivity. Qed.

(* an undecodable blob transaction (a BlobTx with its type id but no blob) is an error *)
Example C06_code_example_build_err :
  let bad := enc_bytes_field 1 [Byte.x01] ++ enc_bytes_field 3 type_id_blob in
  unmarshal_blob_tx bad = UbtErr /\ build (ex_raws ++ [bad]) 4 64 = Err.
Proof. split; vm_compute; reflexivity. Qed.

(* a history with a refused append: the two ordinary transactions and the two blob
   transactions fill the 4 x 4 square exactly by the estimate (16); a further copy of the
   second blob transaction is refused; Export succeeds, 13 shares are occupied (the last
   three are tail padding) <= 16 = estimate = 4^2 *)
Example C06_code_example_history_hyps : 1 <= 1 /\ 4 * 4 < 2097152 /\ Forall aop_ok e2e_ops.
Proof. exact e2e_ops_ok. Qed.

Example C06_code_example_history :
  e2e_ops = map ATx ex_normals ++ [ABlobTx ex_btx1; ABlobTx ex_btx2; ABlobTx ex_btx2] /\
  snd (append_blob_tx (reach 4 1 (removelast e2e_ops)) ex_btx2) = false /\
  bd_cur (reach 4 1 e2e_ops) = 16%Z /\
  match export (reach 4 1 e2e_ops) with
  | Ok (_, sq) =>
    length sq = 16%nat /\
    map (fun s => bytes_eqb (sh_ns s) tail_padding_ns) sq
      = repeat false 13 ++ repeat true 3
  | _ => False
  end.
Proof. vm_compute. repeat split; reflexivity. Qed.
