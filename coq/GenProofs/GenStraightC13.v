(* Straight-line functions of the regenerated GoLite program (Gen/Generated.v) agree with the
   hand-written model (Model/Arith.v, Model/Counter.v) on explicit argument ranges. *)
From Coq Require Import Lia ZArith List String ZifyN ZifyNat ZifyBool.
From GS.Model Require Import Base Varint Arith Counter GoLite.
From GS.Proofs Require Import GoLiteLemmas.
From GS.Gen Require Import Generated.
From GS.GenProofs Require Import GenLink.
Open Scope string_scope. Open Scope Z_scope.

(* Z.eqb is [simpl never] (GoLiteLemmas); decide the tests on literals that symbolic execution leaves *)
Ltac kz :=
  repeat first [ progress change (0 =? 0) with true
               | progress change (1 =? 0) with false
               | progress change (478 =? 0) with false
               | progress change (482 =? 0) with false ];
  cbn.

(* ---------- share.CompactSharesNeeded / share.SparseSharesNeeded ---------- *)

(* the N-valued closed forms of Model/Counter.v, read in Z *)
Definition needed_form (a b n : Z) : Z :=
  if n =? 0 then 0 else
  if n <? a then 1 else
  1 + (n - a) / b + (if 0 <? (n - a) mod b then 1 else 0).

Lemma needed_form_N (a b m : N) : (0 < b)%N ->
  Z.of_N (if (m =? 0)%N then 0%N else
          if (m <? a)%N then 1%N else
          (1 + (m - a) / b + (if (0 <? (m - a) mod b)%N then 1 else 0))%N) =
  needed_form (Z.of_N a) (Z.of_N b) (Z.of_N m).
Proof.
  intros Hb. unfold needed_form.
  destruct (N.eqb_spec m 0) as [e|e]; destruct (Z.eqb_spec (Z.of_N m) 0) as [e'|e']; try lia.
  destruct (N.ltb_spec m a) as [l|l]; destruct (Z.ltb_spec (Z.of_N m) (Z.of_N a)) as [l'|l']; try lia.
  assert (Hmod: Z.of_N ((m - a) mod b) = (Z.of_N m - Z.of_N a) mod Z.of_N b).
  { rewrite N2Z.inj_mod, N2Z.inj_sub by lia. reflexivity. }
  rewrite !N2Z.inj_add, N2Z.inj_div, N2Z.inj_sub by lia.
  rewrite <- Hmod. generalize ((m - a) mod b)%N as x. intros x.
  destruct (N.ltb_spec 0 x) as [h|h]; destruct (Z.ltb_spec 0 (Z.of_N x)) as [h'|h']; try lia.
Qed.

Lemma compact_shares_needed_Z n : 0 <= n ->
  Z.of_N (compact_shares_needed (Z.to_N n)) = needed_form 474 478 n.
Proof.
  intros Hn. unfold compact_shares_needed.
  rewrite (needed_form_N 474 478 (Z.to_N n)) by reflexivity.
  rewrite Z2N.id by lia. reflexivity.
Qed.

Lemma sparse_shares_needed_Z n : 0 <= n ->
  Z.of_N (sparse_shares_needed (Z.to_N n)) = needed_form 478 482 n.
Proof.
  intros Hn. unfold sparse_shares_needed.
  rewrite (needed_form_N 478 482 (Z.to_N n)) by reflexivity.
  rewrite Z2N.id by lia. reflexivity.
Qed.

Lemma compact_shares_needed_gen fuel n : (1 <= fuel)%nat -> 0 <= n < 2^32 ->
  gen_call fuel "share.CompactSharesNeeded" I64 [n] = Val [Z.of_N (compact_shares_needed (Z.to_N n))].
Proof.
  intros Hf Hn. assert (Hn': 0 <= n < 4294967296) by exact Hn. clear Hn.
  rewrite compact_shares_needed_Z by lia.
  destruct fuel as [|fuel]; [lia|].
  unfold gen_call. rewrite callf_S. cbn. unfold eval_cmp, needed_form.
  destruct (n =? 0) eqn:E0; cbn; kz; [reflexivity|].
  destruct (n <? 474) eqn:E1; cbn; kz; [reflexivity|].
  rewrite (wrap_U32_small (n - 474)) by lia.
  rewrite quot_nonneg, rem_nonneg by lia.
  pose proof (Z.mod_pos_bound (n - 474) 478 ltac:(lia)) as Hb.
  assert (Hq: 0 <= (n - 474) / 478 <= n - 474).
  { split; [apply Z.div_pos; lia|]. apply Z.div_le_upper_bound; lia. }
  generalize dependent ((n - 474) mod 478). intros r Hb.
  generalize dependent ((n - 474) / 478). intros q Hq.
  rewrite (wrap_U32_small r), (wrap_U32_small q) by lia.
  destruct (0 <? r) eqn:E2; cbn; kz.
  - rewrite (wrap_U32_small (q + 1)) by lia.
    rewrite (wrap_I64_small (q + 1)) by lia.
    rewrite wrap_I64_small by lia. f_equal. f_equal. lia.
  - rewrite (wrap_I64_small q) by lia.
    rewrite wrap_I64_small by lia. f_equal. f_equal. lia.
Qed.

Lemma sparse_shares_needed_gen fuel n : (1 <= fuel)%nat -> 0 <= n < 2^32 ->
  gen_call fuel "share.SparseSharesNeeded" I64 [n] = Val [Z.of_N (sparse_shares_needed (Z.to_N n))].
Proof.
  intros Hf Hn. assert (Hn': 0 <= n < 4294967296) by exact Hn. clear Hn.
  rewrite sparse_shares_needed_Z by lia.
  destruct fuel as [|fuel]; [lia|].
  unfold gen_call. rewrite callf_S. cbn. unfold eval_cmp, needed_form.
  destruct (n =? 0) eqn:E0; cbn; kz; [reflexivity|].
  destruct (n <? 478) eqn:E1; cbn; kz; [reflexivity|].
  rewrite (wrap_U32_small (n - 478)) by lia.
  rewrite quot_nonneg, rem_nonneg by lia.
  pose proof (Z.mod_pos_bound (n - 478) 482 ltac:(lia)) as Hb.
  assert (Hq: 0 <= (n - 478) / 482 <= n - 478).
  { split; [apply Z.div_pos; lia|]. apply Z.div_le_upper_bound; lia. }
  generalize dependent ((n - 478) mod 482). intros r Hb.
  generalize dependent ((n - 478) / 482). intros q Hq.
  rewrite (wrap_U32_small r), (wrap_U32_small q) by lia.
  destruct (0 <? r) eqn:E2; cbn; kz.
  - rewrite (wrap_U32_small (q + 1)) by lia.
    rewrite (wrap_I64_small (q + 1)) by lia.
    rewrite wrap_I64_small by lia. f_equal. f_equal. lia.
  - rewrite (wrap_I64_small q) by lia.
    rewrite wrap_I64_small by lia. f_equal. f_equal. lia.
Qed.

(* ---------- share.AvailableBytesFromCompactShares / ...FromSparseShares ---------- *)

(* no lower bound is needed: n <= 0 returns before any arithmetic.  The upper bound is exactly
   "the result fits int64". *)
Lemma available_compact_gen fuel n : (1 <= fuel)%nat -> (n - 1) * 478 + 474 < 2^63 ->
  gen_call fuel "share.AvailableBytesFromCompactShares" I64 [n] = Val [available_compact n].
Proof.
  intros Hf Hn. assert (Hn': (n - 1) * 478 + 474 < 9223372036854775808) by exact Hn. clear Hn.
  destruct fuel as [|fuel]; [lia|].
  unfold gen_call. rewrite callf_S. cbn. unfold eval_cmp, available_compact.
  destruct (n <=? 0) eqn:E0; cbn; kz; [reflexivity|].
  destruct (n =? 1) eqn:E1; cbn; kz; [reflexivity|].
  rewrite (wrap_I64_small (n - 1)) by lia.
  rewrite (wrap_I64_small ((n - 1) * 478)) by lia.
  rewrite wrap_I64_small by lia. reflexivity.
Qed.

Lemma available_sparse_gen fuel n : (1 <= fuel)%nat -> (n - 1) * 482 + 478 < 2^63 ->
  gen_call fuel "share.AvailableBytesFromSparseShares" I64 [n] = Val [available_sparse n].
Proof.
  intros Hf Hn. assert (Hn': (n - 1) * 482 + 478 < 9223372036854775808) by exact Hn. clear Hn.
  destruct fuel as [|fuel]; [lia|].
  unfold gen_call. rewrite callf_S. cbn. unfold eval_cmp, available_sparse.
  destruct (n <=? 0) eqn:E0; cbn; kz; [reflexivity|].
  destruct (n =? 1) eqn:E1; cbn; kz; [reflexivity|].
  rewrite (wrap_I64_small (n - 1)) by lia.
  rewrite (wrap_I64_small ((n - 1) * 482)) by lia.
  rewrite wrap_I64_small by lia. reflexivity.
Qed.

(* ---------- share.CompactShareCounter.Size / Remainder / Revert ---------- *)
(* arguments: the receiver's four fields; results: the Go results followed by the receiver's
   four fields after the call (fouts) *)

Lemma counter_size_gen fuel ls lr sh r : (1 <= fuel)%nat ->
  r = 0 \/ - 2^63 <= sh + 1 < 2^63 ->
  gen_call fuel "share.CompactShareCounter.Size" I64 [ls; lr; sh; r] =
  Val [counter_size (mk_counter ls lr sh r); ls; lr; sh; r].
Proof.
  intros Hf Hr. destruct fuel as [|fuel]; [lia|].
  unfold gen_call. rewrite callf_S. cbn. unfold eval_cmp, counter_size. cbn.
  destruct (r =? 0) eqn:E0; cbn; kz; [reflexivity|].
  destruct Hr as [Hr|Hr]; [lia|].
  assert (Hr': -9223372036854775808 <= sh + 1 < 9223372036854775808) by exact Hr.
  rewrite wrap_I64_small by lia. reflexivity.
Qed.

Lemma counter_remainder_gen fuel ls lr sh r : (1 <= fuel)%nat ->
  gen_call fuel "share.CompactShareCounter.Remainder" I64 [ls; lr; sh; r] =
  Val [counter_remainder (mk_counter ls lr sh r); ls; lr; sh; r].
Proof.
  intros Hf. destruct fuel as [|fuel]; [lia|].
  unfold gen_call. rewrite callf_S. cbn. reflexivity.
Qed.

Lemma counter_revert_gen fuel ls lr sh r : (1 <= fuel)%nat ->
  gen_call fuel "share.CompactShareCounter.Revert" I64 [ls; lr; sh; r] =
  let c := counter_revert (mk_counter ls lr sh r) in
  Val [c_last_shares c; c_last_rem c; c_shares c; c_rem c].
Proof.
  intros Hf. destruct fuel as [|fuel]; [lia|].
  unfold gen_call. rewrite callf_S. cbn. reflexivity.
Qed.

